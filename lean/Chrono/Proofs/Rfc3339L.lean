/-
  Helper lemmas for C10 (RFC 3339): the strict scanner `Parse.parse_rfc3339` characterised by the
  grammar of Spec/Rfc3339Spec.lean, the resolution of the scanned record by `Parsed.to_datetime`, the
  text written by `Format.write_rfc3339`, and their composition.  Built on Proofs/RenderScanL.lean
  (decimal render/scan), Proofs/DateL.lean (C01), Proofs/TimestampL.lean (C02), Proofs/ZonedL.lean (C04)
  and Proofs/ParsedDateL.lean (C14).
-/
import Chrono.Proofs.RenderScanL
import Chrono.Proofs.ZonedL
import Chrono.Proofs.ParsedDateL
import Chrono.Proofs.ParsedL
import Chrono.Proofs.TimestampL
import Chrono.Model.Rfc3339
import Chrono.Spec.Rfc3339Spec

namespace Chrono.Proofs.Rfc3339
open Chrono Chrono.M Chrono.M.Scan Chrono.M.Parse Chrono.Spec Chrono.Spec.Rfc3339 Chrono.Proofs.RenderScan
open Chrono.Extracted Chrono.Spec.Ts Chrono.Proofs.Ts Chrono.Proofs Chrono.Proofs.ParsedRes

/-! ### generic tools for the `Except` monad of the scanner -/

theorem bind_ok_iff {α β : Type} (x : PRes α) (f : α → PRes β) (b : β) :
    (x >>= f) = .ok b ↔ ∃ a, x = .ok a ∧ f a = .ok b := by
  cases x <;> simp [bind, Except.bind]

theorem setField_ok_iff (set : Parsed → Int → PRes Parsed) (p : Parsed) (r : PRes (List Nat × Int))
    (p' : Parsed) (s' : List Nat) :
    setField set p r = .ok (p', s') ↔ ∃ v, r = .ok (s', v) ∧ set p v = .ok p' := by
  unfold setField
  cases r with
  | error e => simp
  | ok a =>
    obtain ⟨s1, v⟩ := a
    simp only
    cases hset : set p v with
    | error e =>
      simp only [Except.map]
      constructor
      · intro h; cases h
      · rintro ⟨v', h1, h2⟩
        injection h1 with h1; injection h1 with _ hv; subst hv; rw [hset] at h2; cases h2
    | ok q =>
      simp only [Except.map]
      constructor
      · intro h; injection h with h; injection h with h1 h2
        exact ⟨v, by rw [h2], by rw [hset, h1]⟩
      · rintro ⟨v', h1, h2⟩
        injection h1 with h1; injection h1 with hs hv; subst hv; rw [hset] at h2
        injection h2 with h2; rw [h2, hs]

/-- a two-digit field -/
theorem field2_ok_iff (set : Parsed → Int → PRes Parsed) (p p' : Parsed) (s s' : List Nat) :
    setField set p (number s 2 (some 2)) = .ok (p', s') ↔
      ∃ a b, isDigit a = true ∧ isDigit b = true ∧ s = a :: b :: s' ∧ set p (valOf [a, b] : Nat) = .ok p' := by
  rw [setField_ok_iff]
  constructor
  · rintro ⟨v, hn, hs⟩
    obtain ⟨ds, d1, d2, d3, d4⟩ := (number_exact_iff s 2 (by omega) s' v).mp hn
    match ds, d2 with
    | [a, b], _ =>
      obtain ⟨ha, hb⟩ := allDigits_cons.mp d1
      exact ⟨a, b, ha, (allDigits_cons.mp hb).1, d3, by rw [← d4]; exact hs⟩
  · rintro ⟨a, b, ha, hb, rfl, hs⟩
    refine ⟨_, ?_, hs⟩
    exact (number_exact_iff _ 2 (by omega) s' _).mpr ⟨[a, b],
      allDigits_cons.mpr ⟨ha, allDigits_cons.mpr ⟨hb, allDigits_nil⟩⟩, rfl, rfl, rfl⟩

theorem field4_ok_iff (set : Parsed → Int → PRes Parsed) (p p' : Parsed) (s s' : List Nat) :
    setField set p (number s 4 (some 4)) = .ok (p', s') ↔
      ∃ a b c d, isDigit a = true ∧ isDigit b = true ∧ isDigit c = true ∧ isDigit d = true ∧
        s = a :: b :: c :: d :: s' ∧ set p (valOf [a, b, c, d] : Nat) = .ok p' := by
  rw [setField_ok_iff]
  constructor
  · rintro ⟨v, hn, hs⟩
    obtain ⟨ds, d1, d2, d3, d4⟩ := (number_exact_iff s 4 (by omega) s' v).mp hn
    match ds, d2 with
    | [a, b, c, d], _ =>
      obtain ⟨ha, h'⟩ := allDigits_cons.mp d1
      obtain ⟨hb, h'⟩ := allDigits_cons.mp h'
      obtain ⟨hc, h'⟩ := allDigits_cons.mp h'
      exact ⟨a, b, c, d, ha, hb, hc, (allDigits_cons.mp h').1, d3, by rw [← d4]; exact hs⟩
  · rintro ⟨a, b, c, d, ha, hb, hc, hd, rfl, hs⟩
    refine ⟨_, ?_, hs⟩
    exact (number_exact_iff _ 4 (by omega) s' _).mpr ⟨[a, b, c, d],
      allDigits_cons.mpr ⟨ha, allDigits_cons.mpr ⟨hb, allDigits_cons.mpr ⟨hc, allDigits_cons.mpr ⟨hd, allDigits_nil⟩⟩⟩⟩,
      rfl, rfl, rfl⟩

/-! ### the setters on a record whose field is still unset -/

theorem inRange_eq (v lo hi : Int) : Parsed.inRange v lo hi = if lo ≤ v ∧ v ≤ hi then .ok v else .error .outOfRange := rfl

theorem set_year_none (p : Parsed) (h : p.year = none) (v : Int) (p' : Parsed) :
    Parsed.set_year p v = .ok p' ↔ (-2147483648 ≤ v ∧ v ≤ 2147483647) ∧ p' = { p with year := some v } := by
  unfold Parsed.set_year Parsed.toI32 Parsed.setIf
  rw [h]
  by_cases hv : -2147483648 ≤ v ∧ v ≤ 2147483647
  · have : inI32 v = true := by simp [inI32, I32_MIN, I32_MAX, hv.1, hv.2]
    simp [this, hv, bind, Except.bind, pure, Except.pure, eq_comm]
  · have : inI32 v = false := by
      simp only [inI32, I32_MIN, I32_MAX]
      rcases Classical.not_and_iff_not_or_not.mp hv with h | h <;> simp [h]
    simp [this, hv, bind, Except.bind]

theorem set_month_none (p : Parsed) (h : p.month = none) (v : Int) (p' : Parsed) :
    Parsed.set_month p v = .ok p' ↔ (1 ≤ v ∧ v ≤ 12) ∧ p' = { p with month := some v } := by
  unfold Parsed.set_month Parsed.setIf
  rw [h, inRange_eq]
  by_cases hv : 1 ≤ v ∧ v ≤ 12
  · simp [hv, bind, Except.bind, pure, Except.pure, eq_comm]
  · simp [hv, bind, Except.bind]

theorem set_hour_none (p : Parsed) (h1 : p.hour_div_12 = none) (h2 : p.hour_mod_12 = none) (v : Int) (p' : Parsed) :
    Parsed.set_hour p v = .ok p' ↔ (0 ≤ v ∧ v ≤ 23) ∧
      p' = { p with hour_div_12 := some (if v ≤ 11 then 0 else 1), hour_mod_12 := some (if v ≤ 11 then v else v - 12) } := by
  unfold Parsed.set_hour Parsed.setIf
  rw [h1, inRange_eq]
  by_cases hv : 0 ≤ v ∧ v ≤ 23
  · by_cases h11 : v ≤ 11 <;> simp [hv, h11, h2, bind, Except.bind, pure, Except.pure, eq_comm]
  · simp [hv, bind, Except.bind]

theorem set_day_none (p : Parsed) (h : p.day = none) (v : Int) (p' : Parsed) :
    Parsed.set_day p v = .ok p' ↔ (1 ≤ v ∧ v ≤ 31) ∧ p' = { p with day := some v } := by
  unfold Parsed.set_day Parsed.setIf
  rw [h, inRange_eq]
  by_cases hv : 1 ≤ v ∧ v ≤ 31
  · simp [hv, bind, Except.bind, pure, Except.pure, eq_comm]
  · simp [hv, bind, Except.bind]

theorem set_minute_none (p : Parsed) (h : p.minute = none) (v : Int) (p' : Parsed) :
    Parsed.set_minute p v = .ok p' ↔ (0 ≤ v ∧ v ≤ 59) ∧ p' = { p with minute := some v } := by
  unfold Parsed.set_minute Parsed.setIf
  rw [h, inRange_eq]
  by_cases hv : 0 ≤ v ∧ v ≤ 59
  · simp [hv, bind, Except.bind, pure, Except.pure, eq_comm]
  · simp [hv, bind, Except.bind]

theorem set_second_none (p : Parsed) (h : p.second = none) (v : Int) (p' : Parsed) :
    Parsed.set_second p v = .ok p' ↔ (0 ≤ v ∧ v ≤ 60) ∧ p' = { p with second := some v } := by
  unfold Parsed.set_second Parsed.setIf
  rw [h, inRange_eq]
  by_cases hv : 0 ≤ v ∧ v ≤ 60
  · simp [hv, bind, Except.bind, pure, Except.pure, eq_comm]
  · simp [hv, bind, Except.bind]

theorem set_nanosecond_none (p : Parsed) (h : p.nanosecond = none) (v : Int) (p' : Parsed) :
    Parsed.set_nanosecond p v = .ok p' ↔ (0 ≤ v ∧ v ≤ 999999999) ∧ p' = { p with nanosecond := some v } := by
  unfold Parsed.set_nanosecond Parsed.setIf
  rw [h, inRange_eq]
  by_cases hv : 0 ≤ v ∧ v ≤ 999999999
  · simp [hv, bind, Except.bind, pure, Except.pure, eq_comm]
  · simp [hv, bind, Except.bind]

theorem set_offset_none (p : Parsed) (h : p.offset = none) (v : Int) (p' : Parsed) :
    Parsed.set_offset p v = .ok p' ↔ (-2147483648 ≤ v ∧ v ≤ 2147483647) ∧ p' = { p with offset := some v } := by
  unfold Parsed.set_offset Parsed.toI32 Parsed.setIf
  rw [h]
  by_cases hv : -2147483648 ≤ v ∧ v ≤ 2147483647
  · have : inI32 v = true := by simp [inI32, I32_MIN, I32_MAX, hv.1, hv.2]
    simp [this, hv, bind, Except.bind, pure, Except.pure, eq_comm]
  · have : inI32 v = false := by
      simp only [inI32, I32_MIN, I32_MAX]
      rcases Classical.not_and_iff_not_or_not.mp hv with h | h <;> simp [h]
    simp [this, hv, bind, Except.bind]

theorem setNano_ok_iff (p : Parsed) (r : PRes (List Nat × Int)) (p' : Parsed) (s' : List Nat) :
    setNano p r = .ok (p', s') ↔ ∃ v, r = .ok (s', v) ∧ Parsed.set_nanosecond p v = .ok p' := by
  unfold setNano
  cases r with
  | error e => simp
  | ok a =>
    obtain ⟨s1, v⟩ := a
    simp only
    cases hset : Parsed.set_nanosecond p v with
    | error e =>
      constructor
      · intro h; cases h
      · rintro ⟨v', h1, h2⟩
        injection h1 with h1; injection h1 with _ hv; subst hv; rw [hset] at h2; cases h2
    | ok q =>
      constructor
      · intro h; injection h with h; injection h with h1 h2
        exact ⟨v, by rw [h2], by rw [hset, h1]⟩
      · rintro ⟨v', h1, h2⟩
        injection h1 with h1; injection h1 with hs hv; subst hv; rw [hset] at h2
        injection h2 with h2; rw [h2, hs]

/-! ### bridges between the scanner vocabulary and the specification's -/

theorem isDig_iff (c : Nat) : IsDig c ↔ isDigit c = true := by
  rw [isDigit_iff]; rfl

theorem num2_eq (a b : Nat) : num2 a b = valOf [a, b] := by
  simp [num2, dval, valOf]

theorem num4_eq (a b c d : Nat) : num4 a b c d = valOf [a, b, c, d] := by
  simp only [num4, dval, valOf, List.foldl_cons, List.foldl_nil]; ring

theorem digitsVal_eq (ds : List Nat) : ∀ acc, digitsVal ds acc = ds.foldl (fun a c => a * 10 + (c - 48)) acc := by
  induction ds with
  | nil => intro acc; rfl
  | cons c ds ih => intro acc; simp only [digitsVal, List.foldl_cons, dval, ih]

theorem fracNanos_eq (ds : List Nat) : fracNanos ds = fracVal ds := by
  unfold fracNanos fracVal valOf; rw [digitsVal_eq]

theorem allDigits_iff (ds : List Nat) : (∀ c ∈ ds, IsDig c) ↔ AllDigits ds := by
  unfold AllDigits
  constructor
  · intro h c hc; exact (isDig_iff c).mp (h c hc)
  · intro h c hc; exact (isDig_iff c).mpr (h c hc)

/-! ### the scanner: `parse_rfc3339` on an empty record -/

/-- the range checks the scanner itself performs (through the setters of `Parsed` and the offset
bound); the calendar check of the day is left to `to_datetime` -/
def ScanValid (f : Fields) : Prop :=
  1 ≤ f.month ∧ f.month ≤ 12 ∧ 1 ≤ f.day ∧ f.day ≤ 31 ∧ f.hour ≤ 23 ∧ f.minute ≤ 59 ∧ f.second ≤ 60 ∧
  f.offM ≤ 59 ∧ (f.offH : Int) * 3600 + (f.offM : Int) * 60 ≤ Parse.MAX_RFC3339_OFFSET

/-- a record with only the fields the RFC 3339 scanner touches -/
def recP (y mo d hd hm mi se n off : Option Int) : Parsed :=
  { year := y, month := mo, day := d, hour_div_12 := hd, hour_mod_12 := hm, minute := mi, second := se,
    nanosecond := n, offset := off }

/-- the record the scanner fills for the fields `f` -/
def recOf (f : Fields) : Parsed :=
  recP (some (f.year : Int)) (some (f.month : Int)) (some (f.day : Int))
    (some (if (f.hour : Int) ≤ 11 then 0 else 1))
    (some (if (f.hour : Int) ≤ 11 then (f.hour : Int) else (f.hour : Int) - 12))
    (some (f.minute : Int)) (some (f.second : Int))
    (if f.fracDigits = [] then none else some (fracNanos f.fracDigits : Int))
    (some (offsetOf f))

theorem new_eq : Parsed.new = recP none none none none none none none none none := rfl

theorem st_year (mo d hd hm mi se n off : Option Int) (v : Int) (p' : Parsed) :
    Parsed.set_year (recP none mo d hd hm mi se n off) v = .ok p' ↔
      (-2147483648 ≤ v ∧ v ≤ 2147483647) ∧ p' = recP (some v) mo d hd hm mi se n off :=
  set_year_none _ rfl v p'
theorem st_month (y d hd hm mi se n off : Option Int) (v : Int) (p' : Parsed) :
    Parsed.set_month (recP y none d hd hm mi se n off) v = .ok p' ↔
      (1 ≤ v ∧ v ≤ 12) ∧ p' = recP y (some v) d hd hm mi se n off :=
  set_month_none _ rfl v p'
theorem st_day (y mo hd hm mi se n off : Option Int) (v : Int) (p' : Parsed) :
    Parsed.set_day (recP y mo none hd hm mi se n off) v = .ok p' ↔
      (1 ≤ v ∧ v ≤ 31) ∧ p' = recP y mo (some v) hd hm mi se n off :=
  set_day_none _ rfl v p'
theorem st_hour (y mo d mi se n off : Option Int) (v : Int) (p' : Parsed) :
    Parsed.set_hour (recP y mo d none none mi se n off) v = .ok p' ↔
      (0 ≤ v ∧ v ≤ 23) ∧ p' = recP y mo d (some (if v ≤ 11 then 0 else 1)) (some (if v ≤ 11 then v else v - 12)) mi se n off :=
  set_hour_none _ rfl rfl v p'
theorem st_minute (y mo d hd hm se n off : Option Int) (v : Int) (p' : Parsed) :
    Parsed.set_minute (recP y mo d hd hm none se n off) v = .ok p' ↔
      (0 ≤ v ∧ v ≤ 59) ∧ p' = recP y mo d hd hm (some v) se n off :=
  set_minute_none _ rfl v p'
theorem st_second (y mo d hd hm mi n off : Option Int) (v : Int) (p' : Parsed) :
    Parsed.set_second (recP y mo d hd hm mi none n off) v = .ok p' ↔
      (0 ≤ v ∧ v ≤ 60) ∧ p' = recP y mo d hd hm mi (some v) n off :=
  set_second_none _ rfl v p'
theorem st_nano (y mo d hd hm mi se off : Option Int) (v : Int) (p' : Parsed) :
    Parsed.set_nanosecond (recP y mo d hd hm mi se none off) v = .ok p' ↔
      (0 ≤ v ∧ v ≤ 999999999) ∧ p' = recP y mo d hd hm mi se (some v) off :=
  set_nanosecond_none _ rfl v p'
theorem st_offset (y mo d hd hm mi se n : Option Int) (v : Int) (p' : Parsed) :
    Parsed.set_offset (recP y mo d hd hm mi se n none) v = .ok p' ↔
      (-2147483648 ≤ v ∧ v ≤ 2147483647) ∧ p' = recP y mo d hd hm mi se n (some v) :=
  set_offset_none _ rfl v p'


theorem offsetOf_eq (neg : Bool) (H M : Nat) (fr : List Nat) (a b c d e g : Nat) :
    offsetOf ⟨a, b, c, d, e, g, fr, false, neg, H, M⟩ =
      (if neg then -1 else 1) * ((H : Int) * 3600 + (M : Int) * 60) := by
  unfold offsetOf; cases neg <;> simp


/-- the offset reader in the mode RFC 3339 uses, inverted into the specification's `OffsetText` -/
theorem tz_spec_inv (s rest : List Nat) (off : Int)
    (h : timezone_offset s .charColon true false true = .ok (rest, off)) :
    ∃ (offt : List Nat) (zulu neg : Bool) (H M : Nat), OffsetText offt zulu neg H M ∧ s = offt ++ rest ∧
      M ≤ 59 ∧ off = (if neg then -1 else 1) * ((H : Int) * 3600 + (M : Int) * 60) := by
  rcases tzoffset_colon_inv s rest off true true h with ⟨_, hz, rfl⟩ | ⟨sg, neg, h1, h2, m1, m2, hsg, _, rfl, a1, a2, a3, a4, a5, rfl⟩
  · rcases hz with rfl | rfl
    · exact ⟨[90], true, false, 0, 0, OffsetText.upperZ, rfl, by omega, by simp⟩
    · exact ⟨[122], true, false, 0, 0, OffsetText.lowerZ, rfl, by omega, by simp⟩
  · have hd : IsDig h1 ∧ IsDig h2 ∧ IsDig m1 ∧ IsDig m2 :=
      ⟨(isDig_iff _).mpr a1, (isDig_iff _).mpr a2, (isDig_iff _).mpr a3, (isDig_iff _).mpr a4⟩
    have hm : num2 m1 m2 ≤ 59 := by
      have b3 := (isDigit_iff m1).mp a3
      have b4 := (isDigit_iff m2).mp a4
      simp only [num2, dval]; omega
    rcases hsg with ⟨rfl, rfl⟩ | ⟨rfl, rfl⟩ | ⟨rfl, rfl⟩
    · exact ⟨_, false, false, _, _, OffsetText.plus h1 h2 m1 m2 hd, rfl, hm, by rw [num2_eq, num2_eq]⟩
    · exact ⟨_, false, true, _, _, OffsetText.hyphen h1 h2 m1 m2 hd, rfl, hm, by rw [num2_eq, num2_eq]⟩
    · exact ⟨_, false, true, _, _, OffsetText.minus h1 h2 m1 m2 hd, rfl, hm, by rw [num2_eq, num2_eq]⟩

/-- and the converse -/
theorem tz_spec_ok (offt : List Nat) (zulu neg : Bool) (H M : Nat) (ho : OffsetText offt zulu neg H M)
    (hm : M ≤ 59) (rest : List Nat) :
    timezone_offset (offt ++ rest) .charColon true false true =
      .ok (rest, (if neg then -1 else 1) * ((H : Int) * 3600 + (M : Int) * 60)) := by
  cases ho with
  | upperZ => simpa using tzoffset_zulu 90 (Or.inl rfl) rest .charColon false true
  | lowerZ => simpa using tzoffset_zulu 122 (Or.inr rfl) rest .charColon false true
  | plus h1 h2 m1 m2 d =>
    obtain ⟨d1, d2, d3, d4⟩ := d
    have hm1 : m1 ≤ 53 := by
      have := d3; have := d4; unfold IsDig at *; simp only [num2, dval] at hm; omega
    have := tzoffset_colon_ok [43] false h1 h2 m1 m2 rest true true (Or.inl ⟨rfl, rfl⟩) (by intro h; cases h)
      ((isDig_iff _).mp d1) ((isDig_iff _).mp d2) ((isDig_iff _).mp d3) ((isDig_iff _).mp d4) hm1
    rw [num2_eq, num2_eq]; exact this
  | hyphen h1 h2 m1 m2 d =>
    obtain ⟨d1, d2, d3, d4⟩ := d
    have hm1 : m1 ≤ 53 := by
      have := d3; have := d4; unfold IsDig at *; simp only [num2, dval] at hm; omega
    have := tzoffset_colon_ok [45] true h1 h2 m1 m2 rest true true (Or.inr (Or.inl ⟨rfl, rfl⟩)) (by intro h; cases h)
      ((isDig_iff _).mp d1) ((isDig_iff _).mp d2) ((isDig_iff _).mp d3) ((isDig_iff _).mp d4) hm1
    rw [num2_eq, num2_eq]; exact this
  | minus h1 h2 m1 m2 d =>
    obtain ⟨d1, d2, d3, d4⟩ := d
    have hm1 : m1 ≤ 53 := by
      have := d3; have := d4; unfold IsDig at *; simp only [num2, dval] at hm; omega
    have := tzoffset_colon_ok [226, 136, 146] true h1 h2 m1 m2 rest true true (Or.inr (Or.inr ⟨rfl, rfl⟩)) (fun _ => rfl)
      ((isDig_iff _).mp d1) ((isDig_iff _).mp d2) ((isDig_iff _).mp d3) ((isDig_iff _).mp d4) hm1
    rw [num2_eq, num2_eq]; exact this

/-- the head byte of an offset text is neither a digit nor `.` -/
theorem offsetText_head (offt : List Nat) (zulu neg : Bool) (H M : Nat) (ho : OffsetText offt zulu neg H M)
    (rest : List Nat) : NoDigitHead (offt ++ rest) ∧ ∀ t, offt ++ rest ≠ 46 :: t := by
  cases ho <;> refine ⟨noDigitHead_cons.mpr (by decide), ?_⟩ <;> intro t e <;> injection e with e _ <;> cases e

/-- **the scanner accepts only the grammar** -/
theorem scan_sound (s rest : List Nat) (p : Parsed) (h : parse_rfc3339 Parsed.new s = .ok (p, rest)) :
    ∃ t f, s = t ++ rest ∧ Matches t f ∧ ScanValid f ∧ p = recOf f := by
  unfold parse_rfc3339 at h
  rw [new_eq] at h
  -- year
  rw [bind_ok_iff] at h; obtain ⟨⟨p1, s1⟩, h1, h⟩ := h; dsimp only at h
  obtain ⟨y1, y2, y3, y4, dy1, dy2, dy3, dy4, rfl, hy⟩ := (field4_ok_iff _ _ _ _ _).mp h1
  obtain ⟨_, rfl⟩ := (st_year ..).mp hy
  rw [bind_ok_iff] at h; obtain ⟨s2, h2, h⟩ := h
  rw [char_ok_iff] at h2; subst h2
  -- month
  rw [bind_ok_iff] at h; obtain ⟨⟨p3, s3⟩, h3, h⟩ := h; dsimp only at h
  obtain ⟨mo1, mo2, dmo1, dmo2, rfl, hmo⟩ := (field2_ok_iff _ _ _ _ _).mp h3
  obtain ⟨rmo, rfl⟩ := (st_month ..).mp hmo
  rw [bind_ok_iff] at h; obtain ⟨s4, h4, h⟩ := h
  rw [char_ok_iff] at h4; subst h4
  -- day
  rw [bind_ok_iff] at h; obtain ⟨⟨p5, s5⟩, h5, h⟩ := h; dsimp only at h
  obtain ⟨d1, d2, dd1, dd2, rfl, hd⟩ := (field2_ok_iff _ _ _ _ _).mp h5
  obtain ⟨rd, rfl⟩ := (st_day ..).mp hd
  -- separator
  rw [bind_ok_iff] at h; obtain ⟨s6, h6, h⟩ := h
  have hsep : ∃ sep, (sep = 84 ∨ sep = 116 ∨ sep = 32) ∧ s5 = sep :: s6 := by
    cases s5 with
    | nil => cases h6
    | cons c r =>
      simp only at h6
      split at h6
      · rename_i hc; injection h6 with h6; exact ⟨c, by omega, by rw [h6]⟩
      · cases h6
  obtain ⟨sep, hsepv, rfl⟩ := hsep
  -- hour
  rw [bind_ok_iff] at h; obtain ⟨⟨p7, s7⟩, h7, h⟩ := h; dsimp only at h
  obtain ⟨h1', h2', dh1, dh2, rfl, hh⟩ := (field2_ok_iff _ _ _ _ _).mp h7
  obtain ⟨rh, rfl⟩ := (st_hour ..).mp hh
  rw [bind_ok_iff] at h; obtain ⟨s8, h8, h⟩ := h
  rw [char_ok_iff] at h8; subst h8
  -- minute
  rw [bind_ok_iff] at h; obtain ⟨⟨p9, s9⟩, h9, h⟩ := h; dsimp only at h
  obtain ⟨mi1, mi2, dmi1, dmi2, rfl, hmi⟩ := (field2_ok_iff _ _ _ _ _).mp h9
  obtain ⟨rmi, rfl⟩ := (st_minute ..).mp hmi
  rw [bind_ok_iff] at h; obtain ⟨s10, h10, h⟩ := h
  rw [char_ok_iff] at h10; subst h10
  -- second
  rw [bind_ok_iff] at h; obtain ⟨⟨p11, s11⟩, h11, h⟩ := h; dsimp only at h
  obtain ⟨se1, se2, dse1, dse2, rfl, hse⟩ := (field2_ok_iff _ _ _ _ _).mp h11
  obtain ⟨rse, rfl⟩ := (st_second ..).mp hse
  -- fraction
  rw [bind_ok_iff] at h; obtain ⟨⟨p12, s12⟩, h12, h⟩ := h; dsimp only at h
  clear h1 h3 h5 h7 h9 h11 hy hmo hd hh hmi hse
  have hfr : ∃ (fr ds : List Nat), FracText fr ds ∧ s11 = fr ++ s12 ∧
      p12 = recP (some ((valOf [y1, y2, y3, y4] : Nat) : Int)) (some ((valOf [mo1, mo2] : Nat) : Int))
        (some ((valOf [d1, d2] : Nat) : Int)) (some (if ((valOf [h1', h2'] : Nat) : Int) ≤ 11 then 0 else 1))
        (some (if ((valOf [h1', h2'] : Nat) : Int) ≤ 11 then ((valOf [h1', h2'] : Nat) : Int)
          else ((valOf [h1', h2'] : Nat) : Int) - 12))
        (some ((valOf [mi1, mi2] : Nat) : Int)) (some ((valOf [se1, se2] : Nat) : Int))
        (if ds = [] then none else some ((fracVal ds : Nat) : Int)) none := by
    split at h12
    · rename_i r
      obtain ⟨v, hn, hs⟩ := (setNano_ok_iff _ _ _ _).mp h12
      obtain ⟨ds, a1, a2, rfl, a4, rfl⟩ := nanosecond_inv _ _ _ hn
      obtain ⟨_, rfl⟩ := (st_nano ..).mp hs
      have hne : ds ≠ [] := by intro e; rw [e] at a2; simp at a2
      exact ⟨46 :: ds, ds, FracText.present ds hne ((allDigits_iff ds).mpr a1), rfl, by simp [hne]⟩
    · injection h12 with h12; injection h12 with e1 e2
      exact ⟨[], [], FracText.absent, by simp [e2], by simp [← e1]⟩
  obtain ⟨fr, ds, hft, rfl, rfl⟩ := hfr
  clear h12
  -- offset
  rw [bind_ok_iff] at h; obtain ⟨⟨s13, offv⟩, h13, h⟩ := h; dsimp only at h
  obtain ⟨offt, zulu, neg, H, M, hot, rfl, hM, hoffv⟩ := tz_spec_inv _ _ _ h13
  split at h
  · cases h
  · rename_i hrange
    rw [bind_ok_iff] at h; obtain ⟨p14, h14, h⟩ := h
    obtain ⟨_, rfl⟩ := (st_offset ..).mp h14
    injection h with h; injection h with e1 e2
    subst e2
    refine ⟨y1 :: y2 :: y3 :: y4 :: 45 :: mo1 :: mo2 :: 45 :: d1 :: d2 :: sep :: h1' :: h2' :: 58 :: mi1 :: mi2 ::
        58 :: se1 :: se2 :: (fr ++ offt),
      ⟨valOf [y1, y2, y3, y4], valOf [mo1, mo2], valOf [d1, d2], valOf [h1', h2'], valOf [mi1, mi2],
        valOf [se1, se2], ds, zulu, neg, H, M⟩, by simp, ?_, ?_, ?_⟩
    · exact ⟨y1, y2, y3, y4, mo1, mo2, d1, d2, sep, h1', h2', mi1, mi2, se1, se2, fr, offt,
        ⟨(isDig_iff _).mpr dy1, (isDig_iff _).mpr dy2, (isDig_iff _).mpr dy3, (isDig_iff _).mpr dy4⟩,
        ⟨(isDig_iff _).mpr dmo1, (isDig_iff _).mpr dmo2⟩, ⟨(isDig_iff _).mpr dd1, (isDig_iff _).mpr dd2⟩, hsepv,
        ⟨(isDig_iff _).mpr dh1, (isDig_iff _).mpr dh2⟩, ⟨(isDig_iff _).mpr dmi1, (isDig_iff _).mpr dmi2⟩,
        ⟨(isDig_iff _).mpr dse1, (isDig_iff _).mpr dse2⟩, hft, hot, by simp,
        (num4_eq ..).symm, (num2_eq ..).symm, (num2_eq ..).symm, (num2_eq ..).symm, (num2_eq ..).symm,
        (num2_eq ..).symm⟩
    · unfold ScanValid
      dsimp only
      refine ⟨by omega, by omega, by omega, by omega, by omega, by omega, by omega, hM, ?_⟩
      rw [hoffv] at hrange
      cases neg <;> simp at hrange <;> omega
    · rw [← e1]
      unfold recOf
      dsimp only
      rw [fracNanos_eq]
      rw [hoffv]
      congr 2
      unfold offsetOf
      cases neg <;> simp

/-! ### the scanner accepts the whole grammar -/

theorem ok_bind {α β : Type} (a : α) (k : α → PRes β) : ((Except.ok a : PRes α) >>= k) = k a := rfl

theorem field2_step (set : Parsed → Int → PRes Parsed) (p p' : Parsed) (a b : Nat) (tail : List Nat)
    (ha : isDigit a = true) (hb : isDigit b = true) (hs : set p (valOf [a, b] : Nat) = .ok p')
    {β : Type} (k : Parsed × List Nat → PRes β) :
    (setField set p (number (a :: b :: tail) 2 (some 2)) >>= k) = k (p', tail) := by
  rw [(field2_ok_iff set p p' _ tail).mpr ⟨a, b, ha, hb, rfl, hs⟩]; rfl

theorem field4_step (set : Parsed → Int → PRes Parsed) (p p' : Parsed) (a b c d : Nat) (tail : List Nat)
    (ha : isDigit a = true) (hb : isDigit b = true) (hc : isDigit c = true) (hd : isDigit d = true)
    (hs : set p (valOf [a, b, c, d] : Nat) = .ok p') {β : Type} (k : Parsed × List Nat → PRes β) :
    (setField set p (number (a :: b :: c :: d :: tail) 4 (some 4)) >>= k) = k (p', tail) := by
  rw [(field4_ok_iff set p p' _ tail).mpr ⟨a, b, c, d, ha, hb, hc, hd, rfl, hs⟩]; rfl

theorem char_step (c : Nat) (tail : List Nat) {β : Type} (k : List Nat → PRes β) :
    (Scan.char (c :: tail) c >>= k) = k tail := by
  rw [char_cons]; rfl


theorem setNano_step (p p' : Parsed) (ds tail : List Nat) (hd : AllDigits ds) (hl : 1 ≤ ds.length)
    (hr : NoDigitHead tail) (hs : Parsed.set_nanosecond p (fracVal ds : Nat) = .ok p')
    {β : Type} (k : Parsed × List Nat → PRes β) :
    (setNano p (nanosecond (ds ++ tail)) >>= k) = k (p', tail) := by
  rw [(setNano_ok_iff p _ p' tail).mpr ⟨_, nanosecond_digits ds tail hd hl hr, hs⟩]; rfl

/-- the tail of the scanner: offset, range check, `set_offset` -/
theorem offset_tail (y mo d hd hm mi se n : Option Int) (offt : List Nat) (zulu neg : Bool) (H M : Nat)
    (hot : OffsetText offt zulu neg H M) (hM : M ≤ 59)
    (hb : (H : Int) * 3600 + (M : Int) * 60 ≤ Parse.MAX_RFC3339_OFFSET) (hmax : Parse.MAX_RFC3339_OFFSET ≤ 2147483647)
    (rest : List Nat) :
    (do
      let __x_1 ← timezone_offset (offt ++ rest) ColonMode.charColon true false true
      if __x_1.2 < -Parse.MAX_RFC3339_OFFSET ∨ __x_1.2 > Parse.MAX_RFC3339_OFFSET then Except.error PErr.outOfRange
        else do
          let p ← (recP y mo d hd hm mi se n none).set_offset __x_1.2
          pure (p, __x_1.1) : PRes (Parsed × List Nat)) =
      .ok (recP y mo d hd hm mi se n (some ((if neg then -1 else 1) * ((H : Int) * 3600 + (M : Int) * 60))), rest) := by
  rw [tz_spec_ok offt zulu neg H M hot hM rest, ok_bind]
  dsimp only
  have hr : ¬ ((if neg = true then -1 else 1) * ((H : Int) * 3600 + (M : Int) * 60) < -Parse.MAX_RFC3339_OFFSET ∨
      (if neg = true then -1 else 1) * ((H : Int) * 3600 + (M : Int) * 60) > Parse.MAX_RFC3339_OFFSET) := by
    cases neg <;> simp <;> omega
  rw [if_neg hr]
  rw [(st_offset ..).mpr ⟨by cases neg <;> simp <;> omega, rfl⟩]
  rfl

theorem max_offset_small : Parse.MAX_RFC3339_OFFSET ≤ 2147483647 := by decide

theorem scan_complete (t : List Nat) (f : Fields) (hm : Matches t f) (hv : ScanValid f) (rest : List Nat) :
    parse_rfc3339 Parsed.new (t ++ rest) = .ok (recOf f, rest) := by
  obtain ⟨y1, y2, y3, y4, mo1, mo2, d1, d2, sep, h1, h2, mi1, mi2, s1, s2, fr, offt, ⟨dy1, dy2, dy3, dy4⟩,
    ⟨dmo1, dmo2⟩, ⟨dd1, dd2⟩, hsep, ⟨dh1, dh2⟩, ⟨dmi1, dmi2⟩, ⟨ds1, ds2⟩, hft, hot, rfl, ey, emo, ed, eh, emi, es⟩ := hm
  obtain ⟨v1, v2, v3, v4, v5, v6, v7, v8, v9⟩ := hv
  rw [num4_eq] at ey
  rw [num2_eq] at emo ed eh emi es
  rw [isDig_iff] at dy1 dy2 dy3 dy4 dmo1 dmo2 dd1 dd2 dh1 dh2 dmi1 dmi2 ds1 ds2
  have hy4 := valOf_lt [y1, y2, y3, y4] (by
    exact allDigits_cons.mpr ⟨dy1, allDigits_cons.mpr ⟨dy2, allDigits_cons.mpr ⟨dy3, allDigits_cons.mpr ⟨dy4, allDigits_nil⟩⟩⟩⟩)
  simp only [List.length_cons, List.length_nil] at hy4
  unfold parse_rfc3339
  rw [new_eq]
  simp only [List.cons_append, List.nil_append, List.append_assoc]
  rw [field4_step _ _ _ y1 y2 y3 y4 _ dy1 dy2 dy3 dy4 ((st_year ..).mpr ⟨by omega, rfl⟩)]
  dsimp only
  rw [char_step]
  rw [field2_step _ _ _ mo1 mo2 _ dmo1 dmo2 ((st_month ..).mpr ⟨by omega, rfl⟩)]
  dsimp only
  rw [char_step]
  rw [field2_step _ _ _ d1 d2 _ dd1 dd2 ((st_day ..).mpr ⟨by omega, rfl⟩)]
  dsimp only
  rw [if_pos (by omega), ok_bind]
  rw [field2_step _ _ _ h1 h2 _ dh1 dh2 ((st_hour ..).mpr ⟨by omega, rfl⟩)]
  dsimp only
  rw [char_step]
  rw [field2_step _ _ _ mi1 mi2 _ dmi1 dmi2 ((st_minute ..).mpr ⟨by omega, rfl⟩)]
  dsimp only
  rw [char_step]
  rw [field2_step _ _ _ s1 s2 _ ds1 ds2 ((st_second ..).mpr ⟨by omega, rfl⟩)]
  dsimp only
  have hhead := offsetText_head offt _ _ _ _ hot rest
  have hfin : recOf f = recP (some ((valOf [y1, y2, y3, y4] : Nat) : Int)) (some ((valOf [mo1, mo2] : Nat) : Int))
      (some ((valOf [d1, d2] : Nat) : Int)) (some (if ((valOf [h1, h2] : Nat) : Int) ≤ 11 then 0 else 1))
      (some (if ((valOf [h1, h2] : Nat) : Int) ≤ 11 then ((valOf [h1, h2] : Nat) : Int)
        else ((valOf [h1, h2] : Nat) : Int) - 12))
      (some ((valOf [mi1, mi2] : Nat) : Int)) (some ((valOf [s1, s2] : Nat) : Int))
      (if f.fracDigits = [] then none else some ((fracVal f.fracDigits : Nat) : Int))
      (some ((if f.neg then -1 else 1) * ((f.offH : Int) * 3600 + (f.offM : Int) * 60))) := by
    unfold recOf
    rw [ey, emo, ed, eh, emi, es, fracNanos_eq]
    congr 2
    unfold offsetOf
    cases f.neg <;> simp
  rw [hfin]
  generalize f.fracDigits = fd at hft
  cases hft with
  | absent =>
    simp only [List.nil_append]
    split
    · rename_i r heq
      exact absurd heq (hhead.2 r)
    · rw [ok_bind]
      dsimp only
      simpa using offset_tail _ _ _ _ _ _ _ none offt _ _ _ _ hot v8 v9 max_offset_small rest
  | present _ hne hd =>
    rw [allDigits_iff] at hd
    have hl : 1 ≤ fd.length := by
      cases fd with
      | nil => exact absurd rfl hne
      | cons c r => simp
    simp only [List.cons_append]
    rw [setNano_step _ _ fd _ hd hl hhead.1 ((st_nano ..).mpr ⟨by have := fracVal_lt fd hd; omega, rfl⟩)]
    dsimp only
    simpa [hne] using offset_tail _ _ _ _ _ _ _ (some ((fracVal fd : Nat) : Int)) offt _ _ _ _ hot v8 v9 max_offset_small rest

/-! ### resolution of the scanned record: `Parsed::to_datetime` -/

theorem date_rec (y : Int) (m d : Nat) (hd hm mi se n off : Option Int) :
    Parsed.to_naive_date (recP (some y) (some (m : Int)) (some (d : Int)) hd hm mi se n off) =
      if MIN_YEAR ≤ y ∧ y ≤ MAX_YEAR ∧ validYmd y m d = true then .ok (.ok (dateOfYo y (ordinalOf y m d)))
      else .ok (.error .outOfRange) := by
  unfold Parsed.to_naive_date
  have h1 : Parsed.resolve_year (recP (some y) (some (m : Int)) (some (d : Int)) hd hm mi se n off).year
      (recP (some y) (some (m : Int)) (some (d : Int)) hd hm mi se n off).year_div_100
      (recP (some y) (some (m : Int)) (some (d : Int)) hd hm mi se n off).year_mod_100 = .ok (some y) := by
    simp [recP, Parsed.resolve_year]
  have h2 : Parsed.resolve_year (recP (some y) (some (m : Int)) (some (d : Int)) hd hm mi se n off).isoyear
      (recP (some y) (some (m : Int)) (some (d : Int)) hd hm mi se n off).isoyear_div_100
      (recP (some y) (some (m : Int)) (some (d : Int)) hd hm mi se n off).isoyear_mod_100 = .ok none := by
    simp [recP, Parsed.resolve_year]
  rw [h1, h2]
  dsimp only
  have h3 : Parsed.dateArm (recP (some y) (some (m : Int)) (some (d : Int)) hd hm mi se n off) (some y) none =
      .ymd y m d := by simp [recP, Parsed.dateArm]
  rw [h3]
  unfold Parsed.armDate
  dsimp only
  rw [Int.toNat_natCast, Int.toNat_natCast, ctor_ymd']
  by_cases hv : MIN_YEAR ≤ y ∧ y ≤ MAX_YEAR ∧ validYmd y m d = true
  · rw [if_pos hv, if_pos hv]
    obtain ⟨o1, o2⟩ := ordinal_bounds y m d hv.2.2
    obtain ⟨w, hw⟩ := iso_week_ok y (ordinalOf y m d) ⟨hv.1, hv.2.1, o1, o2⟩
    simp [Parsed.okOr, Parsed.RP.bind, Parsed.verify_isoweekdate, hw, Parsed.andR, Parsed.verify_ordinal, recP, Res.bind]
  · rw [if_neg hv, if_neg hv]
    simp [Parsed.okOr, Parsed.RP.bind]

theorem time_rec (y mo d off : Option Int) (h mi se : Int) (n : Option Int) (hh : 0 ≤ h ∧ h ≤ 23)
    (hmi : 0 ≤ mi ∧ mi ≤ 59) (hse : 0 ≤ se ∧ se ≤ 60) (hn : ∀ v, n = some v → 0 ≤ v ∧ v ≤ 999999999) :
    Parsed.to_naive_time (recP y mo d (some (if h ≤ 11 then 0 else 1)) (some (if h ≤ 11 then h else h - 12))
      (some mi) (some se) n off) =
    .ok ⟨h * 3600 + mi * 60 + (if se = 60 then 59 else se), (if se = 60 then 1000000000 else 0) + n.getD 0⟩ := by
  unfold Parsed.to_naive_time
  have e1 : (recP y mo d (some (if h ≤ 11 then 0 else 1)) (some (if h ≤ 11 then h else h - 12))
      (some mi) (some se) n off).hour_div_12 = some (if h ≤ 11 then 0 else 1) := rfl
  have e2 : (recP y mo d (some (if h ≤ 11 then 0 else 1)) (some (if h ≤ 11 then h else h - 12))
      (some mi) (some se) n off).hour_mod_12 = some (if h ≤ 11 then h else h - 12) := rfl
  have e3 : (recP y mo d (some (if h ≤ 11 then 0 else 1)) (some (if h ≤ 11 then h else h - 12))
      (some mi) (some se) n off).minute = some mi := rfl
  have e4 : (recP y mo d (some (if h ≤ 11 then 0 else 1)) (some (if h ≤ 11 then h else h - 12))
      (some mi) (some se) n off).second = some se := rfl
  rw [e1, e2, e3, e4]
  dsimp only
  have c1 : (0 : Int) ≤ (if h ≤ 11 then 0 else 1) ∧ (if h ≤ 11 then (0 : Int) else 1) ≤ 1 := by split <;> omega
  have c2 : 0 ≤ (if h ≤ 11 then h else h - 12) ∧ (if h ≤ 11 then h else h - 12) ≤ 11 := by split <;> omega
  have c5 : (if h ≤ 11 then (0 : Int) else 1) * 12 + (if h ≤ 11 then h else h - 12) = h := by split <;> omega
  rw [if_pos c1, if_pos c2, if_pos hmi, Option.getD_some, if_pos hse, c5]
  rw [time_tail_char _ h mi (if se = 60 then 59 else se) (if se = 60 then 1000000000 else 0) (by omega) (by omega)
    (by split <;> omega) (by split <;> simp_all)]
  have e5 : (recP y mo d (some (if h ≤ 11 then 0 else 1)) (some (if h ≤ 11 then h else h - 12))
      (some mi) (some se) n off).nanosecond = n := rfl
  rw [e5, e4]
  cases n with
  | none => simp
  | some v => simp [hn v rfl]

theorem secs_consts : SECS_MIN = -8334601228800 ∧ SECS_MAX = 8210266876799 ∧ TS_MIN = -8334601228800 ∧
    TS_MAX = 8210266876799 := by decide

theorem dayNum_0_9999 (y : Int) (o : Int) (hy : 0 ≤ y ∧ y ≤ 9999) (ho : 1 ≤ o ∧ o ≤ 366) :
    -366 ≤ dayNumYo y o ∧ dayNumYo y o ≤ 3652425 := by
  unfold dayNumYo daysBeforeYear; omega

/-- **resolution of the scanned record**, existing date -/
theorem datetime_rec (y : Int) (m d : Nat) (h mi se : Int) (n : Option Int) (off : Int)
    (hy : 0 ≤ y ∧ y ≤ 9999) (hv : validYmd y m d = true) (hh : 0 ≤ h ∧ h ≤ 23)
    (hmi : 0 ≤ mi ∧ mi ≤ 59) (hse : 0 ≤ se ∧ se ≤ 60) (hn : ∀ v, n = some v → 0 ≤ v ∧ v ≤ 999999999)
    (hoff : -86400 < off ∧ off < 86400) :
    ∃ z, Parsed.to_datetime (recP (some y) (some (m : Int)) (some (d : Int)) (some (if h ≤ 11 then 0 else 1))
        (some (if h ≤ 11 then h else h - 12)) (some mi) (some se) n (some off)) = .ok (.ok z) ∧
      ZInv z ∧ z.off = off ∧
      instSecs z.utc = (dayNum y m d - EPOCH_DAY) * 86400 + (h * 3600 + mi * 60 + (if se = 60 then 59 else se)) - off ∧
      z.utc.time.frac = (if se = 60 then 1000000000 else 0) + n.getD 0 := by
  have hMIN : MIN_YEAR = -262143 := rfl
  have hMAX : MAX_YEAR = 262142 := rfl
  have hyr : MIN_YEAR ≤ y ∧ y ≤ MAX_YEAR := by omega
  obtain ⟨o1, o2⟩ := ordinal_bounds y m d hv
  obtain ⟨hdi, hdn⟩ := dateInv_of_yo y (ordinalOf y m d) hyr ⟨o1, o2⟩
  have hyl : yearLen y ≤ 366 := by unfold yearLen; split <;> omega
  generalize hT : (⟨h * 3600 + mi * 60 + (if se = 60 then 59 else se),
    (if se = 60 then 1000000000 else 0) + n.getD 0⟩ : Time) = T
  have hTs : T.secs = h * 3600 + mi * 60 + (if se = 60 then 59 else se) := by rw [← hT]
  have hTf : T.frac = (if se = 60 then 1000000000 else 0) + n.getD 0 := by rw [← hT]
  have hnb : 0 ≤ n.getD 0 ∧ n.getD 0 ≤ 999999999 := by
    cases n with
    | none => simp
    | some v => simpa using hn v rfl
  have hTv : TValid T := by
    unfold TValid; rw [hTs, hTf]
    refine ⟨?_, ?_, ?_, ?_⟩ <;> split <;> omega
  let ℓ : NaiveDT := ⟨dateOfYo y (ordinalOf y m d), T⟩
  have hℓ : NDTInv ℓ := ⟨hdi, hTv⟩
  have hsecs : instSecs ℓ = (dayNumYo y (ordinalOf y m d) - EPOCH_DAY) * 86400 + T.secs := by
    show (dayNumOf (dateOfYo y (ordinalOf y m d)) - EPOCH_DAY) * 86400 + T.secs = _
    rw [hdn]
  obtain ⟨c1, c2, c3, c4⟩ := secs_consts
  have hb := dayNum_0_9999 y (ordinalOf y m d) hy (by omega)
  have hE : EPOCH_DAY = 719163 := rfl
  have hTb : 0 ≤ T.secs ∧ T.secs < 86400 := ⟨hTv.1, hTv.2.1⟩
  have hext : ExtNDTInv ℓ := ⟨((dateInv_iff ℓ.date).mp hℓ.1).1, hℓ.2⟩
  obtain ⟨r, f1, f2, f3, _⟩ := from_local_spec off ℓ hoff hext
  have hin : InRangeSecs (instSecs ℓ - off) := by
    unfold InRangeSecs; rw [hsecs, c1, c2, hE]; omega
  have hr : r ≠ none := fun e => f3 e hin
  obtain ⟨z, rfl⟩ := Option.ne_none_iff_exists'.mp hr
  obtain ⟨g1, g2, g3, g4, g5⟩ := f2 z rfl
  refine ⟨z, ?_, ⟨⟨g5 hdi, g2.2⟩, by rw [g1]; exact hoff⟩, g1, ?_, by rw [g4, ← hTf]⟩
  · unfold Parsed.to_datetime
    have e1 : (recP (some y) (some (m : Int)) (some (d : Int)) (some (if h ≤ 11 then 0 else 1))
        (some (if h ≤ 11 then h else h - 12)) (some mi) (some se) n (some off)).offset = some off := rfl
    have e2 : (recP (some y) (some (m : Int)) (some (d : Int)) (some (if h ≤ 11 then 0 else 1))
        (some (if h ≤ 11 then h else h - 12)) (some mi) (some se) n (some off)).timestamp = none := rfl
    rw [e1]
    dsimp only
    unfold Parsed.to_naive_datetime_with_offset
    rw [date_rec, if_pos ⟨hyr.1, hyr.2, hv⟩, time_rec _ _ _ _ h mi se n hh hmi hse hn, hT, e2]
    dsimp only
    rw [timestamp_spec ℓ hℓ]
    have hck : ckI64 (instSecs ℓ - off) = .ok (instSecs ℓ - off) :=
      ckI64_ok (by rw [hsecs, hE]; omega) (by rw [hsecs, hE]; omega)
    simp only [Res.bind, hck]
    have he : Zoned.east_opt off = some off := by unfold Zoned.east_opt; rw [if_pos hoff]
    simp only [Parsed.RP.bind, he]
    have f1' : Zoned.from_local_datetime off ⟨dateOfYo y (ordinalOf y m d), T⟩ = .ok (some z) := f1
    rw [f1']
  · rw [g3, hsecs, hTs]; rfl

/-- a non-existing date is refused with `OUT_OF_RANGE` -/
theorem datetime_rec_bad (y : Int) (m d : Nat) (h mi se : Int) (n : Option Int) (off : Int)
    (hv : validYmd y m d = false) (hh : 0 ≤ h ∧ h ≤ 23)
    (hmi : 0 ≤ mi ∧ mi ≤ 59) (hse : 0 ≤ se ∧ se ≤ 60) (hn : ∀ v, n = some v → 0 ≤ v ∧ v ≤ 999999999) :
    Parsed.to_datetime (recP (some y) (some (m : Int)) (some (d : Int)) (some (if h ≤ 11 then 0 else 1))
        (some (if h ≤ 11 then h else h - 12)) (some mi) (some se) n (some off)) = .ok (.error .outOfRange) := by
  unfold Parsed.to_datetime
  have e1 : (recP (some y) (some (m : Int)) (some (d : Int)) (some (if h ≤ 11 then 0 else 1))
      (some (if h ≤ 11 then h else h - 12)) (some mi) (some se) n (some off)).offset = some off := rfl
  have e2 : (recP (some y) (some (m : Int)) (some (d : Int)) (some (if h ≤ 11 then 0 else 1))
      (some (if h ≤ 11 then h else h - 12)) (some mi) (some se) n (some off)).timestamp = none := rfl
  rw [e1]
  dsimp only
  unfold Parsed.to_naive_datetime_with_offset
  rw [date_rec, if_neg (by rw [hv]; simp), time_rec _ _ _ _ h mi se n hh hmi hse hn, e2]
  rfl

/-! ### the reader: scanner, "fully consumed", resolution -/

theorem max_offset_eq : Parse.MAX_RFC3339_OFFSET = 86340 := by decide

theorem matches_bounds (t : List Nat) (f : Fields) (hm : Matches t f) :
    f.year ≤ 9999 ∧ f.offH ≤ 99 ∧ f.offM ≤ 99 ∧ AllDigits f.fracDigits := by
  obtain ⟨fy, fmo, fd, fh, fmi, fs, ffr, fz, fneg, fH, fM⟩ := f
  obtain ⟨y1, y2, y3, y4, mo1, mo2, d1, d2, sep, h1, h2, mi1, mi2, s1, s2, fr, offt, ⟨dy1, dy2, dy3, dy4⟩,
    _, _, _, _, _, _, hft, hot, _, ey, _⟩ := hm
  dsimp only at hft hot ey ⊢
  refine ⟨?_, ?_, ?_, ?_⟩
  · rw [ey]; unfold IsDig at *; simp only [num4, dval]; omega
  · cases hot with
    | upperZ => omega
    | lowerZ => omega
    | plus a b c d h => obtain ⟨h1, h2, _, _⟩ := h; unfold IsDig at *; simp only [num2, dval]; omega
    | hyphen a b c d h => obtain ⟨h1, h2, _, _⟩ := h; unfold IsDig at *; simp only [num2, dval]; omega
    | minus a b c d h => obtain ⟨h1, h2, _, _⟩ := h; unfold IsDig at *; simp only [num2, dval]; omega
  · cases hot with
    | upperZ => omega
    | lowerZ => omega
    | plus a b c d h => obtain ⟨_, _, h1, h2⟩ := h; unfold IsDig at *; simp only [num2, dval]; omega
    | hyphen a b c d h => obtain ⟨_, _, h1, h2⟩ := h; unfold IsDig at *; simp only [num2, dval]; omega
    | minus a b c d h => obtain ⟨_, _, h1, h2⟩ := h; unfold IsDig at *; simp only [num2, dval]; omega
  · cases hft with
    | absent => exact allDigits_nil
    | present ds hne hd => exact (allDigits_iff _).mp hd

theorem monthLen_le (y : Int) (m : Nat) : monthLen y m ≤ 31 := by
  unfold monthLen; split <;> (try split) <;> omega

theorem validYmd_bounds (y : Int) (m d : Nat) (h : validYmd y m d = true) : 1 ≤ m ∧ m ≤ 12 ∧ 1 ≤ d ∧ d ≤ 31 := by
  unfold validYmd at h
  simp only [Bool.and_eq_true, decide_eq_true_eq] at h
  have := monthLen_le y m
  omega

/-- validity in the sense of the property = the scanner's range checks + the calendar check -/
theorem valid_iff (f : Fields) : Valid f ↔ ScanValid f ∧ validYmd f.year f.month f.day = true := by
  unfold Valid ScanValid
  rw [max_offset_eq]
  constructor
  · rintro ⟨a, b, c, d, e, g⟩
    obtain ⟨m1, m2, m3, m4⟩ := validYmd_bounds _ _ _ a
    exact ⟨⟨m1, m2, m3, m4, by omega, by omega, d, by omega, by omega⟩, a⟩
  · rintro ⟨⟨_, _, _, _, a, b, c, d, e⟩, g⟩
    exact ⟨g, by omega, by omega, c, by omega, by omega⟩

theorem fracNanos_nil : fracNanos [] = 0 := by decide

/-- what `to_datetime` makes of the scanned record when the date exists -/
theorem resolve_ok (f : Fields) (hy : f.year ≤ 9999) (hd : AllDigits f.fracDigits) (hs : ScanValid f)
    (hv : validYmd f.year f.month f.day = true) :
    ∃ z, Parsed.to_datetime (recOf f) = .ok (.ok z) ∧ Denotes f z := by
  obtain ⟨s1, s2, s3, s4, s5, s6, s7, s8, s9⟩ := hs
  rw [max_offset_eq] at s9
  have hoff : -86400 < offsetOf f ∧ offsetOf f < 86400 := by unfold offsetOf; split <;> omega
  have hn : ∀ v, (if f.fracDigits = [] then none else some (fracNanos f.fracDigits : Int)) = some v →
      0 ≤ v ∧ v ≤ 999999999 := by
    intro v hv'
    split at hv'
    · cases hv'
    · injection hv' with hv'
      have := fracVal_lt _ hd
      rw [← fracNanos_eq] at this
      omega
  obtain ⟨z, h1, h2, h3, h4, h5⟩ := datetime_rec (f.year : Int) f.month f.day (f.hour : Int) (f.minute : Int)
    (f.second : Int) _ (offsetOf f) (by omega) hv (by omega) (by omega) (by omega) hn hoff
  refine ⟨z, h1, h2, h3, ?_, ?_⟩
  · rw [h4]; unfold wallSecsOf
    have : (if (f.second : Int) = 60 then (59 : Int) else (f.second : Int)) = (if f.second = 60 then 59 else (f.second : Int)) := by
      split <;> split <;> omega
    rw [this]; omega
  · rw [h5]; unfold fracOf
    have e1 : (if (f.second : Int) = 60 then (1000000000 : Int) else 0) = (if f.second = 60 then 1000000000 else 0) := by
      split <;> split <;> omega
    have e2 : (if f.fracDigits = [] then none else some (fracNanos f.fracDigits : Int)).getD 0 =
        (fracNanos f.fracDigits : Int) := by
      split
      · rename_i h; rw [h, fracNanos_nil]; rfl
      · rfl
    rw [e1, e2]; omega

/-- … and when it does not -/
theorem resolve_bad (f : Fields) (hd : AllDigits f.fracDigits) (hs : ScanValid f)
    (hv : validYmd f.year f.month f.day = false) :
    Parsed.to_datetime (recOf f) = .ok (.error .outOfRange) := by
  obtain ⟨s1, s2, s3, s4, s5, s6, s7, s8, s9⟩ := hs
  have hn : ∀ v, (if f.fracDigits = [] then none else some (fracNanos f.fracDigits : Int)) = some v →
      0 ≤ v ∧ v ≤ 999999999 := by
    intro v hv'
    split at hv'
    · cases hv'
    · injection hv' with hv'
      have := fracVal_lt _ hd
      rw [← fracNanos_eq] at this
      omega
  exact datetime_rec_bad (f.year : Int) f.month f.day (f.hour : Int) (f.minute : Int) (f.second : Int) _
    (offsetOf f) hv (by omega) (by omega) (by omega) hn

open Chrono.M.Rfc3339 in
/-- **reader, soundness** -/
theorem parse_sound (s : List Nat) (v : Zoned) (h : parse_from_rfc3339 s = .ok (.ok v)) :
    ∃ f, Matches s f ∧ Valid f ∧ Denotes f v := by
  unfold parse_from_rfc3339 at h
  split at h
  · cases h
  · rename_i p rest hp
    split at h
    · obtain ⟨t, f, rfl, hm, hsv, rfl⟩ := scan_sound _ _ _ hp
      rw [List.append_nil]
      obtain ⟨b1, _, _, b4⟩ := matches_bounds t f hm
      cases hv : validYmd f.year f.month f.day with
      | true =>
        obtain ⟨z, hz, hden⟩ := resolve_ok f b1 b4 hsv hv
        rw [hz] at h
        injection h with h; injection h with h
        exact ⟨f, hm, (valid_iff f).mpr ⟨hsv, hv⟩, h ▸ hden⟩
      | false =>
        rw [resolve_bad f b4 hsv hv] at h
        cases h
    · cases h

open Chrono.M.Rfc3339 in
/-- **reader, completeness** -/
theorem parse_complete (s : List Nat) (f : Fields) (hm : Matches s f) (hv : Valid f) :
    ∃ v, parse_from_rfc3339 s = .ok (.ok v) ∧ Denotes f v := by
  obtain ⟨hsv, hymd⟩ := (valid_iff f).mp hv
  obtain ⟨b1, _, _, b4⟩ := matches_bounds s f hm
  obtain ⟨z, hz, hden⟩ := resolve_ok f b1 b4 hsv hymd
  refine ⟨z, ?_, hden⟩
  unfold parse_from_rfc3339
  have := scan_complete s f hm hsv []
  rw [List.append_nil] at this
  rw [this]
  exact hz

open Chrono.M.Rfc3339 in
/-- **reader, totality**: never a panic; an error for everything outside the accepted set -/
theorem parse_rejects (s : List Nat) (h : ¬ ∃ f, Matches s f ∧ Valid f) :
    ∃ e, parse_from_rfc3339 s = .ok (.error e) := by
  unfold parse_from_rfc3339
  split
  · rename_i e _; exact ⟨e, rfl⟩
  · rename_i p rest hp
    split
    · obtain ⟨t, f, rfl, hm, hsv, rfl⟩ := scan_sound _ _ _ hp
      rw [List.append_nil] at h
      obtain ⟨b1, _, _, b4⟩ := matches_bounds t f hm
      cases hv : validYmd f.year f.month f.day with
      | true => exact absurd ⟨f, hm, (valid_iff f).mpr ⟨hsv, hv⟩⟩ h
      | false => exact ⟨_, resolve_bad f b4 hsv hv⟩
    · exact ⟨_, rfl⟩

end Chrono.Proofs.Rfc3339
