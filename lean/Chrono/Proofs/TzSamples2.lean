/- Concrete files for the round-3 statements of C16 (mixed header versions, permanent-DST footer). -/
import Chrono.Proofs.TzSamples
import Chrono.Spec.TzDecodeSpec

namespace Chrono.Proofs.Tz
open Chrono Chrono.M.Tz Chrono.Spec.Tz

/-- first block of the mixed-version files: no transition, one type `UTC` -/
def mixBlock1 : Block := { trans := [], types := [⟨0, false, 0⟩], names := asc "UTC" ++ [0], leaps := [],
                           stdWalls := [], utLocals := [] }
/-- second block: ONE transition at `0x0000000100000002` = 4294967298 (2106-02-07 06:28:18 UTC) -/
def mixBlock2 : Block := { trans := [(4294967298, 0)], types := [⟨0, false, 0⟩], names := asc "UTC" ++ [0],
                           leaps := [], stdWalls := [], utLocals := [] }

/-- a file whose first header says version `a` and whose SECOND header says version `b` -/
def mixedFile (a b : Version) (blk2 : Block) (footer : List Nat) : List Nat :=
  encHeader a mixBlock1 ++ encBody 4 mixBlock1 ++ encHeader b blk2 ++ encBody 8 blk2 ++ [10] ++ footer ++ [10]

/-- the 119 bytes run through the real crate (round 3): first header `'2'`, second header `0x00` -/
def mixedV2V1Hex : String :=
  "x545a69663200000000000000000000000000000000000000000000000000000000000000000000010000000400000000000055544300545a696600000000000000000000000000000000000000000000000000000000000000010000000100000004000000010000000200000000000000555443000a0a"

/-- blocks of the 135-byte file with a version-3-only footer (negative rule time) -/
def mixBlockA : Block := { trans := [], types := [⟨-18000, false, 0⟩], names := asc "AAA" ++ [0], leaps := [],
                           stdWalls := [], utLocals := [] }
def mixedExtFile (a b : Version) : List Nat :=
  encHeader a mixBlockA ++ encBody 4 mixBlockA ++ encHeader b mixBlockA ++ encBody 8 mixBlockA
    ++ [10] ++ asc "AAA5BBB,M3.2.0/-1,M11.1.0" ++ [10]
def mixedExtRule : Rule :=
  .alt ⟨⟨-18000, false, some (asc "AAA")⟩, ⟨-14400, true, some (asc "BBB")⟩, .mwd 3 2 0, -3600, .mwd 11 1 0, 7200⟩

/-- version 3, PERMANENT daylight time in the style zic emits (`EST5EDT,0/0,J365/25`: daylight time
starts on day 0 at 00:00 and ends on day 365 at 25:00, i.e. never): the footer rule is outside C05's
`InsideYear` class -/
def samplePerm : TzFile :=
  { version := .V3
    v1 := { trans := [], types := [⟨-14400, true, 0⟩], names := asc "EDT" ++ [0], leaps := [], stdWalls := [],
            utLocals := [] }
    v2 := { trans := [(1700000000, 0)]
            types := [⟨-14400, true, 0⟩]
            names := asc "EDT" ++ [0]
            leaps := []
            stdWalls := []
            utLocals := [] }
    footer := asc "EST5EDT,0/0,J365/25" }

def rulePerm : Rule :=
  .alt ⟨⟨-18000, false, some (asc "EST")⟩, ⟨-14400, true, some (asc "EDT")⟩, .julian0 0, 0, .julian1 365, 90000⟩

end Chrono.Proofs.Tz
