/- Helper lemmas for C02 (timestamps). -/
import Chrono.Proofs.DateL
import Chrono.Spec.TimestampSpec
import Chrono.Model.Timestamp
namespace Chrono.Proofs.Ts
open Chrono Chrono.M Chrono.Spec Chrono.Spec.Ts Chrono.Extracted Chrono.Proofs

theorem ckU32_ok {x : Int} (h1 : 0 ≤ x) (h2 : x ≤ 4294967295) : ckU32 x = .ok x := by
  simp [ckU32, inU32, U32_MAX, h1, h2]
theorem ckU64_ok {x : Int} (h1 : 0 ≤ x) (h2 : x ≤ 18446744073709551615) : ckU64 x = .ok x := by
  simp [ckU64, inU64, U64_MAX, h1, h2]
theorem ckI64_panic {x : Int} (h : x < -9223372036854775808 ∨ 9223372036854775807 < x) :
    ckI64 x = .panic := by
  simp only [ckI64, inI64, I64_MIN, I64_MAX]
  rcases h with h | h
  · have : ¬ (-9223372036854775808 ≤ x) := by omega
    simp [this]
  · have : ¬ (x ≤ 9223372036854775807) := by omega
    simp [this]
theorem asI64_id {x : Int} (h1 : -9223372036854775808 ≤ x) (h2 : x ≤ 9223372036854775807) :
    asI64 x = x := by
  unfold asI64; simp only; split <;> omega

/-! ### numerals -/
theorem dmin_val : dayNumYo MIN_YEAR 1 = -95746129 := by decide
theorem dmax_val : dayNumYo MAX_YEAR 365 = 95745399 := by decide
theorem ts_min_val : TS_MIN = -8334601228800 := by decide
theorem ts_max_val : TS_MAX = 8210266876799 := by decide

/-! ### the packed date and its invariant -/

/-- a date satisfying the representation invariant is the packed word of (its year, its ordinal) -/
theorem dateInv_repr (d : Date) (h : DateInv d) :
    ∃ o : Nat, d = dateOfYo d.year o ∧ (o : Int) = d.ordinal ∧ MIN_YEAR ≤ d.year ∧ d.year ≤ MAX_YEAR ∧
      1 ≤ o ∧ o ≤ yearLen d.year := by
  obtain ⟨h1, h2, h3, h4, h5⟩ := h
  refine ⟨d.ordinal.toNat, ?_, by omega, h1, h2, by omega, by omega⟩
  apply date_eq_of_yof
  unfold dateOfYo
  dsimp only
  have ho : ((d.ordinal.toNat : Nat) : Int) = d.ordinal := by omega
  rw [ho]
  unfold Date.year Date.ordinal at *
  omega

theorem dateInv_of_yo (y : Int) (o : Nat) (hy : MIN_YEAR ≤ y ∧ y ≤ MAX_YEAR) (ho : 1 ≤ o ∧ o ≤ yearLen y) :
    DateInv (dateOfYo y o) ∧ dayNumOf (dateOfYo y o) = dayNumYo y o := by
  have hyl := yearLen_ge y
  obtain ⟨f1, f2, _, f4, _, _⟩ := dateOfYo_fields y o (by omega)
  unfold DateInv dayNumOf
  rw [f1, f2, f4]
  exact ⟨⟨hy.1, hy.2, by omega, by omega, rfl⟩, rfl⟩

/-- day numbers of the supported years -/
theorem dayNum_bounds (y o : Int) (hy : MIN_YEAR ≤ y ∧ y ≤ MAX_YEAR) (ho : 1 ≤ o ∧ o ≤ 366) :
    -95746129 ≤ dayNumYo y o ∧ dayNumYo y o ≤ 95745400 := by
  have h1 := dby_mono MIN_YEAR y hy.1
  have h2 := dby_mono y MAX_YEAR hy.2
  have a : daysBeforeYear MIN_YEAR = -95746130 := by decide
  have b : daysBeforeYear MAX_YEAR = 95745034 := by decide
  unfold dayNumYo
  omega

/-- two dates with the invariant and the same day number are the same date -/
theorem date_inj (a b : Date) (ha : DateInv a) (hb : DateInv b) (h : dayNumOf a = dayNumOf b) : a = b := by
  obtain ⟨oa, ea, eoa, _, _, a1, a2⟩ := dateInv_repr a ha
  obtain ⟨ob, eb, eob, _, _, b1, b2⟩ := dateInv_repr b hb
  have := (order_spec a.year b.year oa ob ⟨a1, a2⟩ ⟨b1, b2⟩).2
  unfold dayNumOf at h
  rw [← eoa, ← eob] at h
  rw [ea, eb]
  exact date_eq_of_yof _ _ (this.2 h)

/-! ### reading: `timestamp` and friends -/

/-- `timestamp()` is the number of whole seconds from the epoch, with no intermediate overflow -/
theorem timestamp_spec (dt : NaiveDT) (h : NDTInv dt) : NaiveDT.timestamp dt = .ok (instSecs dt) := by
  obtain ⟨hd, ht⟩ := h
  obtain ⟨h1, h2, h3, h4, _⟩ := hd
  obtain ⟨t1, t2, _, _⟩ := ht
  have hyl := yearLen_ge dt.date.year
  have hMIN : MIN_YEAR = -262143 := rfl
  have hMAX : MAX_YEAR = 262142 := rfl
  have hb := dayNum_bounds dt.date.year dt.date.ordinal ⟨h1, h2⟩ ⟨h3, by omega⟩
  have hE : UNIX_EPOCH_DAY = 719163 := rfl
  have hE' : EPOCH_DAY = 719163 := rfl
  unfold NaiveDT.timestamp instSecs dayNumOf Time.num_seconds_from_midnight
  rw [num_days_spec dt.date (by omega) (by omega) (by omega)]
  simp only [Res.bind]
  rw [hE, hE']
  generalize dayNumYo dt.date.year dt.date.ordinal = g at *
  rw [ckI64_ok (by omega) (by omega)]
  simp only []
  rw [ckI64_ok (by omega) (by omega)]
  simp only []
  rw [ckI64_ok (by omega) (by omega)]

/-- bounds of `instSecs` for a value with the invariant -/
theorem instSecs_bounds (dt : NaiveDT) (h : NDTInv dt) : TS_MIN ≤ instSecs dt ∧ instSecs dt ≤ TS_MAX + 86400 := by
  obtain ⟨hd, ht⟩ := h
  obtain ⟨h1, h2, h3, h4, _⟩ := hd
  obtain ⟨t1, t2, _, _⟩ := ht
  have hyl := yearLen_ge dt.date.year
  have hb := dayNum_bounds dt.date.year dt.date.ordinal ⟨h1, h2⟩ ⟨h3, by omega⟩
  have hE' : EPOCH_DAY = 719163 := rfl
  rw [ts_min_val, ts_max_val]
  unfold instSecs dayNumOf
  omega

/-! ### building: `from_timestamp` -/

theorem time_ctor_spec (sod nsecs : Int) (h0 : 0 ≤ sod ∧ sod < 86400) :
    Time.from_num_seconds_from_midnight_opt sod nsecs =
      if nsecs < 1000000000 ∨ (nsecs < 2000000000 ∧ sod % 60 = 59) then some ⟨sod, nsecs⟩ else none := by
  unfold Time.from_num_seconds_from_midnight_opt
  by_cases hc : nsecs < 1000000000 ∨ (nsecs < 2000000000 ∧ sod % 60 = 59)
  · rw [if_pos hc, if_neg (by omega)]
  · rw [if_neg hc, if_pos (by omega)]

/-- `from_timestamp` for every `i64` count of seconds and every non-negative nanosecond field: never
panics; refuses exactly outside the range / on an invalid nanosecond field; otherwise the result is
the value that many seconds from the epoch -/
theorem from_timestamp_spec (secs nsecs : Int) (hs : isI64 secs) (hn : 0 ≤ nsecs) :
    ∃ r, NaiveDT.from_timestamp secs nsecs = .ok r ∧
      (r = none ↔ ¬ tsOk secs nsecs) ∧
      (∀ dt, r = some dt → IsAt dt secs nsecs) := by
  unfold isI64 at hs
  have hE : UNIX_EPOCH_DAY = 719163 := rfl
  have hE' : EPOCH_DAY = 719163 := rfl
  have hMIN : MIN_YEAR = -262143 := rfl
  have hMAX : MAX_YEAR = 262142 := rfl
  unfold NaiveDT.from_timestamp tsOk nanosOk
  rw [hE, ts_min_val, ts_max_val, ckI64_ok (by omega) (by omega)]
  simp only [Res.bind]
  by_cases hd : secs / 86400 + 719163 < I32_MIN ∨ secs / 86400 + 719163 > I32_MAX
  · rw [if_pos hd]
    refine ⟨none, rfl, ?_, by intro dt h; cases h⟩
    unfold I32_MIN I32_MAX at hd
    constructor
    · intro _; omega
    · intro _; rfl
  · rw [if_neg hd]
    unfold I32_MIN I32_MAX at hd
    obtain ⟨r0, hr0, hsome, hnone⟩ := ctor_days' (secs / 86400 + 719163) (by omega)
    rw [hr0]
    simp only []
    rw [time_ctor_spec (secs % 86400) nsecs (by omega)]
    rw [dmin_val, dmax_val] at hnone
    have h60 : secs % 86400 % 60 = secs % 60 := by omega
    rw [h60]
    cases r0 with
    | none =>
      refine ⟨none, by split <;> simp_all, ?_, by intro dt h; cases h⟩
      have := hnone.1 rfl
      constructor
      · intro _; omega
      · intro _; rfl
    | some d =>
      have hin : ¬ (secs / 86400 + 719163 < -95746129 ∨ secs / 86400 + 719163 > 95745399) := by
        intro hc; have := hnone.2 hc; cases this
      obtain ⟨y, o, hdy, hy1, hy2, ho1, ho2, hnum⟩ := hsome d rfl
      by_cases hc : nsecs < 1000000000 ∨ (nsecs < 2000000000 ∧ secs % 60 = 59)
      · rw [if_pos hc]
        refine ⟨some ⟨d, ⟨secs % 86400, nsecs⟩⟩, rfl, ?_, ?_⟩
        · constructor
          · intro h; cases h
          · intro h; exfalso; apply h; omega
        · intro dt hdt
          cases hdt
          obtain ⟨i1, i2⟩ := dateInv_of_yo y o ⟨hy1, hy2⟩ ⟨ho1, ho2⟩
          rw [← hdy] at i1 i2
          unfold IsAt NDTInv TStrict TValid instSecs
          dsimp only
          rw [i2, hnum, hE']
          refine ⟨⟨i1, by omega, by omega, by omega, by omega⟩, ⟨⟨by omega, by omega, by omega, by omega⟩, by omega⟩,
            by omega, rfl⟩
      · rw [if_neg hc]
        refine ⟨none, rfl, ?_, by intro dt h; cases h⟩
        constructor
        · intro _; omega
        · intro _; rfl

/-! ### one value per instant -/

/-- two values with the invariant, the same second count and the same nanosecond field are equal -/
theorem inst_inj (a b : NaiveDT) (ha : NDTInv a) (hb : NDTInv b) (h : instSecs a = instSecs b)
    (hf : a.time.frac = b.time.frac) : a = b := by
  obtain ⟨da, a1, a2, _, _⟩ := ha
  obtain ⟨db, b1, b2, _, _⟩ := hb
  unfold instSecs at h
  have hday : dayNumOf a.date = dayNumOf b.date := by omega
  have hsec : a.time.secs = b.time.secs := by omega
  have hdate := date_inj a.date b.date da db hday
  cases a with | mk ad at_ => cases b with | mk bd bt =>
  cases at_ with | mk as af => cases bt with | mk bs bf =>
  simp_all

theorem dayNum_le_max (y : Int) (o : Nat) (hy : y ≤ MAX_YEAR) (ho : o ≤ yearLen y) :
    dayNumYo y o ≤ 95745399 := by
  have b : daysBeforeYear MAX_YEAR = 95745034 := by decide
  have l : yearLen MAX_YEAR = 365 := by decide
  have hyl := yearLen_ge y
  unfold dayNumYo
  by_cases hlt : y < MAX_YEAR
  · have hm := dby_mono (y + 1) MAX_YEAR (by omega)
    have hs := dby_step y
    omega
  · have : y = MAX_YEAR := by omega
    subst this
    omega

/-- tight bounds of the second count -/
theorem instSecs_range (dt : NaiveDT) (h : NDTInv dt) : TS_MIN ≤ instSecs dt ∧ instSecs dt ≤ TS_MAX := by
  obtain ⟨hd, t1, t2, _, _⟩ := h
  obtain ⟨o, _, eo, y1, y2, o1, o2⟩ := dateInv_repr dt.date hd
  have hb := dayNum_bounds dt.date.year dt.date.ordinal ⟨y1, y2⟩ (by have := yearLen_ge dt.date.year; omega)
  have hm := dayNum_le_max dt.date.year o y2 o2
  rw [eo] at hm
  have hE' : EPOCH_DAY = 719163 := rfl
  rw [ts_min_val, ts_max_val]
  unfold instSecs dayNumOf
  omega

/-- the other direction: a strict value is rebuilt from its own second count and nanosecond field -/
theorem from_timestamp_of_inv (dt : NaiveDT) (h : NDTInv dt) (hs : TStrict dt.time) :
    NaiveDT.from_timestamp (instSecs dt) dt.time.frac = .ok (some dt) := by
  have hr := instSecs_range dt h
  have h60 : instSecs dt % 60 = dt.time.secs % 60 := by unfold instSecs; omega
  obtain ⟨⟨_, _, t3, t4⟩, hl⟩ := hs
  rw [ts_min_val, ts_max_val] at hr
  obtain ⟨r, hr0, hnone, hsome⟩ := from_timestamp_spec (instSecs dt) dt.time.frac (by unfold isI64; omega) t3
  have hok : tsOk (instSecs dt) dt.time.frac := by
    unfold tsOk nanosOk; rw [ts_min_val, ts_max_val]; omega
  cases r with
  | none => exact absurd hok (hnone.1 rfl)
  | some dt' =>
    obtain ⟨i1, _, i3, i4⟩ := hsome dt' rfl
    rw [hr0, inst_inj dt' dt i1 h i3 i4]

/-! ### sub-second units -/

theorem from_millis_eq (ms : Int) :
    NaiveDT.from_timestamp_millis ms = NaiveDT.from_timestamp (ms / 1000) (ms % 1000 * 1000000) := by
  unfold NaiveDT.from_timestamp_millis
  rw [ckU32_ok (by omega) (by omega)]; rfl
theorem from_micros_eq (us : Int) :
    NaiveDT.from_timestamp_micros us = NaiveDT.from_timestamp (us / 1000000) (us % 1000000 * 1000) := by
  unfold NaiveDT.from_timestamp_micros
  rw [ckU32_ok (by omega) (by omega)]; rfl

/-- common form: whole seconds plus a sub-second part below 10⁹ -/
theorem from_sub_spec (secs sub : Int) (hs : isI64 secs) (h0 : 0 ≤ sub) (h1 : sub < 1000000000) :
    ∃ r, NaiveDT.from_timestamp secs sub = .ok r ∧
      (r = none ↔ (secs < TS_MIN ∨ secs > TS_MAX)) ∧
      (∀ dt, r = some dt → NDTInv dt ∧ NonLeap dt ∧ instNs dt = secs * 1000000000 + sub) := by
  obtain ⟨r, e1, e2, e3⟩ := from_timestamp_spec secs sub hs h0
  refine ⟨r, e1, ?_, ?_⟩
  · rw [e2]; unfold tsOk nanosOk
    constructor
    · intro h; omega
    · intro h; omega
  · intro dt hdt
    obtain ⟨i1, _, i3, i4⟩ := e3 dt hdt
    refine ⟨i1, ?_, ?_⟩
    · unfold NonLeap; omega
    · unfold instNs; rw [i3, i4]

/-! ### reading in the sub-second units -/

theorem timestamp_millis_spec (dt : NaiveDT) (h : NDTInv dt) :
    NaiveDT.timestamp_millis dt = .ok (instNs dt / 1000000) := by
  have hb := instSecs_range dt h
  rw [ts_min_val, ts_max_val] at hb
  have hts := timestamp_spec dt h
  obtain ⟨_, _, _, t3, t4⟩ := h
  unfold NaiveDT.timestamp_millis NaiveDT.timestamp_subsec_millis Time.nanosecond instNs
  rw [hts]
  simp only [Res.bind]
  rw [ckI64_ok (by omega) (by omega)]
  simp only []
  rw [ckI64_ok (by omega) (by omega)]
  congr 1; omega

theorem timestamp_micros_spec (dt : NaiveDT) (h : NDTInv dt) :
    NaiveDT.timestamp_micros dt = .ok (instNs dt / 1000) := by
  have hb := instSecs_range dt h
  rw [ts_min_val, ts_max_val] at hb
  have hts := timestamp_spec dt h
  obtain ⟨_, _, _, t3, t4⟩ := h
  unfold NaiveDT.timestamp_micros NaiveDT.timestamp_subsec_micros Time.nanosecond instNs
  rw [hts]
  simp only [Res.bind]
  rw [ckI64_ok (by omega) (by omega)]
  simp only []
  rw [ckI64_ok (by omega) (by omega)]
  congr 1; omega

/-- `timestamp_nanos_opt`: the exact count when it fits `i64`, absence otherwise, and neither branch
of the negative-timestamp workaround overflows -/
theorem nanos_opt_spec (dt : NaiveDT) (h : NDTInv dt) (hs : TStrict dt.time) :
    NaiveDT.timestamp_nanos_opt dt =
      .ok (if -9223372036854775808 ≤ instNs dt ∧ instNs dt ≤ 9223372036854775807 then some (instNs dt) else none) := by
  have hts := timestamp_spec dt h
  unfold NaiveDT.timestamp_nanos_opt NaiveDT.timestamp_subsec_nanos Time.nanosecond instNs
  rw [hts]
  simp only [Res.bind]
  generalize instSecs dt = s at *
  generalize dt.time.frac = f at *
  by_cases h2 : -9223372036854775808 ≤ s * 1000000000 + f ∧ s * 1000000000 + f ≤ 9223372036854775807
  · rw [optI64_some h2.1 h2.2, if_pos h2]
  · rw [optI64_none (by omega), if_neg h2]

/-! ### `SystemTime` -/

theorem to_system_time_spec (dt : NaiveDT) (h : NDTInv dt) :
    Ts.to_system_time dt = .ok (instSecs dt + dt.time.frac / 1000000000, dt.time.frac % 1000000000) := by
  have hb := instSecs_range dt h
  rw [ts_min_val, ts_max_val] at hb
  have hts := timestamp_spec dt h
  obtain ⟨_, _, _, t3, t4⟩ := h
  unfold Ts.to_system_time NaiveDT.timestamp_subsec_nanos Time.nanosecond
  rw [hts]
  simp only [Res.bind]
  generalize instSecs dt = s at *
  generalize dt.time.frac = f at *
  by_cases hneg : s < 0
  · rw [if_pos hneg, ckI64_ok (by omega) (by omega)]
    simp only []
    unfold Ts.duration_new
    rw [ckU64_ok (by omega) (by omega)]
    simp only [Res.bind]
    rw [ckU64_ok (by omega) (by omega)]
    simp only []
    unfold Ts.st_sub
    simp only []
    rw [ckI64_ok (by omega) (by omega)]
    simp only [Res.bind]
    unfold Ts.st_add
    simp only []
    rw [ckI64_ok (by omega) (by omega)]
    simp only [Res.bind]
    congr 2 <;> omega
  · rw [if_neg hneg]
    unfold Ts.duration_new
    rw [ckU64_ok (by omega) (by omega)]
    simp only [Res.bind]
    unfold Ts.st_add
    simp only []
    rw [ckI64_ok (by omega) (by omega)]
    simp only [Res.bind]
    congr 2 <;> omega

theorem from_timestamp_none_of_range (secs nsecs : Int) (hs : isI64 secs) (hn : 0 ≤ nsecs)
    (h : secs < TS_MIN ∨ secs > TS_MAX) : NaiveDT.from_timestamp secs nsecs = .ok none := by
  obtain ⟨r, e1, e2, _⟩ := from_timestamp_spec secs nsecs hs hn
  have : r = none := e2.2 (by unfold tsOk; omega)
  rw [e1, this]

/-- `From<SystemTime>`: both branches of `duration_since` lead to `from_timestamp(S, N).unwrap()` -/
theorem from_system_time_eq (S N : Int) (hS : isI64 S) (hN : 0 ≤ N ∧ N < 1000000000) :
    Ts.from_system_time S N = Ts.unwrap (NaiveDT.from_timestamp S N) := by
  have hS' := hS
  unfold isI64 at hS
  unfold Ts.from_system_time Ts.duration_since_epoch
  by_cases h0 : S ≥ 0
  · rw [if_pos h0]
    dsimp only
    rw [asI64_id (by omega) (by omega)]
    simp
  · rw [if_neg h0]
    by_cases hz : N = 0
    · rw [if_pos hz]
      dsimp only
      subst hz
      by_cases hmin : S = -9223372036854775808
      · subst hmin
        rw [from_timestamp_none_of_range _ _ hS' (by omega) (by rw [ts_min_val]; omega)]
        decide
      · rw [asI64_id (by omega) (by omega)]
        simp only [if_true, Bool.false_eq_true, if_false]
        rw [ckI64_ok (by omega) (by omega)]
        simp only [Res.bind, Int.neg_neg]
    · rw [if_neg hz]
      dsimp only
      rw [asI64_id (by omega) (by omega)]
      have hne : ¬ (1000000000 - N = 0) := by omega
      simp only [Bool.false_eq_true, if_false]
      rw [if_neg hne, ckI64_ok (by omega) (by omega)]
      simp only [Res.bind]
      rw [ckI64_ok (by omega) (by omega)]
      simp only []
      rw [ckU32_ok (by omega) (by omega)]
      simp only []
      have e1 : -(-S - 1) - 1 = S := by omega
      have e2 : 1000000000 - (1000000000 - N) = N := by omega
      rw [e1, e2]

/-! ### round trips in the sub-second units -/

theorem truncFrac_inv (dt : NaiveDT) (q : Int) (hq : 0 < q) (h : NDTInv dt) (hl : NonLeap dt) :
    NDTInv (truncFrac dt q) ∧ TStrict (truncFrac dt q).time ∧ instSecs (truncFrac dt q) = instSecs dt ∧
    (truncFrac dt q).time.frac = dt.time.frac / q * q := by
  obtain ⟨hd, t1, t2, t3, t4⟩ := h
  unfold NonLeap at hl
  have h1 : 0 ≤ dt.time.frac / q * q := Int.mul_nonneg (Int.ediv_nonneg t3 (by omega)) (by omega)
  have h2 : dt.time.frac / q * q ≤ dt.time.frac := Int.ediv_mul_le _ (by omega)
  unfold truncFrac NDTInv TStrict TValid instSecs
  dsimp only
  exact ⟨⟨hd, t1, t2, h1, by omega⟩, ⟨⟨t1, t2, h1, by omega⟩, by omega⟩, rfl, rfl⟩

theorem millis_back (dt : NaiveDT) (h : NDTInv dt) (hl : NonLeap dt) :
    NaiveDT.from_timestamp_millis (instNs dt / 1000000) = .ok (some (truncFrac dt 1000000)) := by
  obtain ⟨i1, i2, i3, i4⟩ := truncFrac_inv dt 1000000 (by omega) h hl
  have := from_timestamp_of_inv (truncFrac dt 1000000) i1 i2
  rw [i3, i4] at this
  rw [from_millis_eq, ← this]
  obtain ⟨_, _, _, t3, _⟩ := h
  unfold NonLeap at hl
  unfold instNs
  congr 1 <;> omega

theorem micros_back (dt : NaiveDT) (h : NDTInv dt) (hl : NonLeap dt) :
    NaiveDT.from_timestamp_micros (instNs dt / 1000) = .ok (some (truncFrac dt 1000)) := by
  obtain ⟨i1, i2, i3, i4⟩ := truncFrac_inv dt 1000 (by omega) h hl
  have := from_timestamp_of_inv (truncFrac dt 1000) i1 i2
  rw [i3, i4] at this
  rw [from_micros_eq, ← this]
  obtain ⟨_, _, _, t3, _⟩ := h
  unfold NonLeap at hl
  unfold instNs
  congr 1 <;> omega

theorem nanos_back (dt : NaiveDT) (h : NDTInv dt) (hl : NonLeap dt) :
    NaiveDT.from_timestamp_nanos (instNs dt) = .ok dt := by
  have := from_timestamp_of_inv dt h ⟨h.2, Or.inl hl⟩
  obtain ⟨_, _, _, t3, _⟩ := h
  unfold NonLeap at hl
  unfold NaiveDT.from_timestamp_nanos
  have e1 : instNs dt / 1000000000 = instSecs dt := by unfold instNs; omega
  have e2 : instNs dt % 1000000000 = dt.time.frac := by unfold instNs; omega
  rw [e1, e2, this]; rfl

/-- `from_timestamp_nanos` is total on `i64` -/
theorem from_nanos_total (ns : Int) (hx : isI64 ns) :
    ∃ dt, NaiveDT.from_timestamp_nanos ns = .ok dt ∧ NDTInv dt ∧ NonLeap dt ∧ instNs dt = ns := by
  unfold isI64 at hx
  obtain ⟨r, e1, e2, e3⟩ := from_sub_spec (ns / 1000000000) (ns % 1000000000) (by unfold isI64; omega)
    (by omega) (by omega)
  rw [ts_min_val, ts_max_val] at e2
  unfold NaiveDT.from_timestamp_nanos
  rw [e1]
  cases r with
  | none => have := e2.1 rfl; omega
  | some dt =>
    obtain ⟨i1, i2, i3⟩ := e3 dt rfl
    exact ⟨dt, rfl, i1, i2, by rw [i3]; omega⟩

end Chrono.Proofs.Ts
