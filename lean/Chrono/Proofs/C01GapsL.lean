/-
  Helper lemmas for the audit gaps of C01 (audit/C01.md): accessor → constructor round trips (every
  date is reached from its own year-month-day / year-ordinal / ISO week-date / day-number form), the
  order stated on `Date.cmp` and `IsoWeek.cmp`, and the range-end facts.
-/
import Chrono.Proofs.IsoL
import Chrono.Proofs.DateArithL
import Chrono.Proofs.DateOpsL
import Chrono.Model.IsoWeekOrd
import Chrono.Model.DateViews

namespace Chrono.Proofs.C01Gaps
open Chrono Chrono.M Chrono.Spec Chrono.Extracted Chrono.Proofs

/-! ### the ISO week-date form of a day: specification level -/

/-- if the Thursday of `n`'s Monday-based week is the `ot`-th day of calendar year `Y`, then ISO year
`Y` has the week `(ot − 1)/7 + 1`, and that week's day with `n`'s weekday is `n` itself: the two ISO
specifications (`isoThursday` read by the accessor, `isoDayNum`/`isoWeekExists` read by the
constructor) describe the same week date -/
theorem thursday_form (Y : Int) (ot : Nat) (n : Int) (h1 : 1 ≤ ot) (h2 : ot ≤ yearLen Y)
    (h : dayNumYo Y ot = isoThursday n) :
    isoWeekExists Y (((ot - 1) / 7 + 1 : Nat) : Int) ∧
    isoDayNum Y (((ot - 1) / 7 + 1 : Nat) : Int) (weekdayOf n) = n := by
  have hs := dby_step Y
  have hl := yearLen_ge Y
  unfold isoWeekExists isoDayNum isoWeek1Monday
  rw [hs]
  unfold dayNumYo isoThursday weekdayOf at *
  generalize daysBeforeYear Y = D at *
  generalize yearLen Y = L at *
  push_cast
  omega

/-! ### accessor → constructor round trips -/

/-- every date of the range is returned by `from_isoywd_opt` applied to its own ISO year, ISO week
and weekday -/
theorem iso_form_exists' (y : Int) (o : Nat) (hy : MIN_YEAR ≤ y ∧ y ≤ MAX_YEAR)
    (ho : 1 ≤ o ∧ o ≤ yearLen y) :
    ∃ ywf, Date.iso_week (dateOfYo y o) = .ok ywf ∧
      Date.from_isoywd_opt (IsoWeek.year ywf) (IsoWeek.week ywf).toNat (dateOfYo y o).weekday =
        .ok (some (dateOfYo y o)) := by
  obtain ⟨Y, ot, t1, t2, t3, t4⟩ := iso_week_spec' y o hy ho
  have hl := yearLen_ge Y
  have hly := yearLen_ge y
  have hf := (flagsOf_facts Y).1
  obtain ⟨f1, f2⟩ := ywf_fields Y ((ot - 1) / 7 + 1) (flagsOf Y) (by omega) hf
  refine ⟨_, t4, ?_⟩
  rw [f1, f2, Int.toNat_natCast]
  have hwd := weekday_spec y o (by omega)
  obtain ⟨e1, e2⟩ := thursday_form Y ot _ t1 t2 t3
  obtain ⟨r, hr, hsome, hnone⟩ := ctor_isoywd' Y ((ot - 1) / 7 + 1) (dateOfYo y o).weekday
  rw [hwd, e2] at hsome hnone
  have hrange := (range_iff_iso y o ho).mp hy
  rw [hr]
  cases r with
  | none => exact absurd ⟨e1, hrange⟩ (hnone.mp rfl)
  | some d =>
    obtain ⟨Y', o', hd, _, _, p1, p2, hdn⟩ := hsome d rfl
    obtain ⟨u1, u2⟩ := yo_unique Y' y o' o ⟨p1, p2⟩ ho hdn
    subst u1 u2
    rw [hd]

/-- … by `from_ymd_opt` applied to its own year, month and day -/
theorem ymd_form_exists' (y : Int) (o : Nat) (hy : MIN_YEAR ≤ y ∧ y ≤ MAX_YEAR)
    (ho : 1 ≤ o ∧ o ≤ yearLen y) :
    ∃ m dd, (dateOfYo y o).month = .ok m ∧ (dateOfYo y o).day = .ok dd ∧
      Date.from_ymd_opt (dateOfYo y o).year m dd = .ok (some (dateOfYo y o)) := by
  have hly := yearLen_ge y
  obtain ⟨h1, _, _, _, _, _⟩ := dateOfYo_fields y o (by omega)
  obtain ⟨m1, m2, m3, m4⟩ := month_day_spec y o ho.1 ho.2
  refine ⟨_, _, m1, m2, ?_⟩
  rw [h1, ctor_ymd', if_pos ⟨hy.1, hy.2, m3⟩, m4]

/-- … by `from_yo_opt` applied to its own year and ordinal -/
theorem yo_form_exists' (y : Int) (o : Nat) (hy : MIN_YEAR ≤ y ∧ y ≤ MAX_YEAR)
    (ho : 1 ≤ o ∧ o ≤ yearLen y) :
    Date.from_yo_opt (dateOfYo y o).year (dateOfYo y o).ordinal.toNat = .ok (some (dateOfYo y o)) := by
  have hly := yearLen_ge y
  obtain ⟨h1, h2, _, _, _, _⟩ := dateOfYo_fields y o (by omega)
  rw [h1, h2, Int.toNat_natCast, ctor_yo', if_pos ⟨hy.1, hy.2, ho.1, ho.2⟩]

/-- … and by `from_num_days_from_ce_opt` applied to its own day number -/
theorem days_form_exists' (y : Int) (o : Nat) (hy : MIN_YEAR ≤ y ∧ y ≤ MAX_YEAR)
    (ho : 1 ≤ o ∧ o ≤ yearLen y) :
    ∃ n, (dateOfYo y o).num_days_from_ce = .ok n ∧
      Date.from_num_days_from_ce_opt n = .ok (some (dateOfYo y o)) := by
  have hMIN : MIN_YEAR = -262143 := rfl
  have hMAX : MAX_YEAR = 262142 := rfl
  have hly := yearLen_ge y
  obtain ⟨h1, h2, _, _, _, _⟩ := dateOfYo_fields y o (by omega)
  have hn := num_days_spec (dateOfYo y o) (by rw [h1]; omega) (by rw [h1]; omega) (by rw [h2]; omega)
  rw [h1, h2] at hn
  refine ⟨_, hn, ?_⟩
  have hrange := (range_iff_iso y o ho).mp hy
  have c1 : dayNumYo MIN_YEAR 1 = -95746129 := by decide
  have c2 : dayNumYo MAX_YEAR 365 = 95745399 := by decide
  obtain ⟨r, hr, hsome, hnone⟩ := ctor_days' (dayNumYo y o) (by omega)
  rw [hr]
  cases r with
  | none => exact absurd (hnone.mp rfl) (by omega)
  | some d =>
    obtain ⟨Y', o', hd, _, _, p1, p2, hdn⟩ := hsome d rfl
    obtain ⟨u1, u2⟩ := yo_unique Y' y o' o ⟨p1, p2⟩ ho hdn
    subst u1 u2
    rw [hd]

/-! ### order on `Date.cmp` (the function the driver op `d.cmp` evaluates) -/

theorem cmp_spec (y1 y2 : Int) (o1 o2 : Nat) (h1 : 1 ≤ o1 ∧ o1 ≤ yearLen y1)
    (h2 : 1 ≤ o2 ∧ o2 ≤ yearLen y2) :
    Date.cmp (dateOfYo y1 o1) (dateOfYo y2 o2) =
      (if dayNumYo y1 o1 < dayNumYo y2 o2 then -1 else if dayNumYo y1 o1 > dayNumYo y2 o2 then 1 else 0) := by
  obtain ⟨a, b⟩ := order_spec y1 y2 o1 o2 h1 h2
  obtain ⟨a', b'⟩ := order_spec y2 y1 o2 o1 h2 h1
  unfold Date.cmp
  by_cases c1 : dayNumYo y1 o1 < dayNumYo y2 o2
  · rw [if_pos c1, if_pos (a.mpr c1)]
  · rw [if_neg c1, if_neg (fun h => c1 (a.mp h))]
    by_cases c2 : dayNumYo y1 o1 > dayNumYo y2 o2
    · rw [if_pos c2, if_pos (a'.mpr c2)]
    · rw [if_neg c2, if_neg (fun h => c2 (a'.mp h))]

/-! ### order on `IsoWeek.cmp` (the function the driver op `d.isocmp` evaluates) -/

theorem isocmp_spec (y1 y2 : Int) (o1 o2 : Nat) (hy1 : MIN_YEAR ≤ y1 ∧ y1 ≤ MAX_YEAR)
    (hy2 : MIN_YEAR ≤ y2 ∧ y2 ≤ MAX_YEAR) (h1 : 1 ≤ o1 ∧ o1 ≤ yearLen y1)
    (h2 : 1 ≤ o2 ∧ o2 ≤ yearLen y2) :
    Date.isocmp (dateOfYo y1 o1) (dateOfYo y2 o2) =
      .ok (if isoThursday (dayNumYo y1 o1) < isoThursday (dayNumYo y2 o2) then -1
           else if isoThursday (dayNumYo y1 o1) > isoThursday (dayNumYo y2 o2) then 1 else 0) := by
  obtain ⟨a, b, ha, hb, m1, _, e1⟩ := iso_week_order' y1 y2 o1 o2 hy1 hy2 h1 h2
  obtain ⟨b', a', hb', ha', m2, _, _⟩ := iso_week_order' y2 y1 o2 o1 hy2 hy1 h2 h1
  rw [hb'] at hb; rw [ha'] at ha
  cases Res.ok.inj hb; cases Res.ok.inj ha
  have t1 := isoThursday_mono (dayNumYo y1 o1) (dayNumYo y2 o2)
  have t2 := isoThursday_mono (dayNumYo y2 o2) (dayNumYo y1 o1)
  unfold Date.isocmp
  rw [ha', hb']
  dsimp only
  unfold IsoWeek.cmp
  congr 1
  by_cases c1 : isoThursday (dayNumYo y1 o1) < isoThursday (dayNumYo y2 o2)
  · have hle : dayNumYo y1 o1 ≤ dayNumYo y2 o2 := by
      rcases Int.le_total (dayNumYo y1 o1) (dayNumYo y2 o2) with h | h
      · exact h
      · have := t2 h; omega
    have hab := m1 hle
    have hne : a ≠ b := fun h => by have := e1.mp h; omega
    rw [if_pos c1, if_pos (by omega)]
  · rw [if_neg c1]
    by_cases c2 : isoThursday (dayNumYo y1 o1) > isoThursday (dayNumYo y2 o2)
    · have hle : dayNumYo y2 o2 ≤ dayNumYo y1 o1 := by
        rcases Int.le_total (dayNumYo y2 o2) (dayNumYo y1 o1) with h | h
        · exact h
        · have := t1 h; omega
      have hab := m2 hle
      have hne : a ≠ b := fun h => by have := e1.mp h; omega
      rw [if_pos c2, if_neg (by omega), if_pos (by omega)]
    · have heq : a = b := e1.mpr (by omega)
      rw [if_neg c2, if_neg (by omega), if_neg (by omega)]

/-! ### range ends -/

/-- no date of the range lies before MIN or after MAX, and the day numbers of the range are exactly
the 191,491,529 integers between the two -/
theorem range_ends (y : Int) (o : Nat) (hy : MIN_YEAR ≤ y ∧ y ≤ MAX_YEAR) (ho : 1 ≤ o ∧ o ≤ yearLen y) :
    dayNumYo MIN_YEAR 1 ≤ dayNumYo y o ∧ dayNumYo y o ≤ dayNumYo MAX_YEAR 365 :=
  (range_iff_iso y o ho).mp hy

/-- every day number between those of MIN and MAX is the day number of a date of the range -/
theorem range_onto (n : Int) (h : dayNumYo MIN_YEAR 1 ≤ n ∧ n ≤ dayNumYo MAX_YEAR 365) :
    ∃ y o, MIN_YEAR ≤ y ∧ y ≤ MAX_YEAR ∧ 1 ≤ o ∧ o ≤ yearLen y ∧ dayNumYo y o = n := by
  have c1 : dayNumYo MIN_YEAR 1 = -95746129 := by decide
  have c2 : dayNumYo MAX_YEAR 365 = 95745399 := by decide
  obtain ⟨r, _, hsome, hnone⟩ := ctor_days' n (by omega)
  cases r with
  | none => exact absurd (hnone.mp rfl) (by omega)
  | some d =>
    obtain ⟨y, o, _, a1, a2, a3, a4, a5⟩ := hsome d rfl
    exact ⟨y, o, a1, a2, a3, a4, a5⟩

/-! ### day shifts in year-ordinal form (the theorems themselves are C03's: Proofs/DateArithL.lean) -/

/-- C03's `IsDayShift` outcome of a date given as `dateOfYo y o`, unpacked into C01's vocabulary -/
theorem shift_yo (y : Int) (o : Nat) (k : Int) (r : Option Date) (hy : MIN_YEAR ≤ y ∧ y ≤ MAX_YEAR)
    (ho : 1 ≤ o ∧ o ≤ yearLen y) (h : IsDayShift (dateOfYo y o) k r) :
    (r = none ↔ (dayNumYo y o + k < dayNumYo MIN_YEAR 1 ∨ dayNumYo MAX_YEAR 365 < dayNumYo y o + k)) ∧
    (∀ d, r = some d → ∃ y' o', d = dateOfYo y' o' ∧ MIN_YEAR ≤ y' ∧ y' ≤ MAX_YEAR ∧ 1 ≤ o' ∧
      o' ≤ yearLen y' ∧ dayNumYo y' o' = dayNumYo y o + k) := by
  obtain ⟨c1, c2, c3, c4, _, _⟩ := dn_consts
  obtain ⟨_, hdn⟩ := inv_of_yo y o hy ho
  obtain ⟨hn, hs⟩ := h
  rw [hdn, c1, c2] at hn
  refine ⟨by rw [c3, c4]; exact hn, ?_⟩
  intro d hd
  obtain ⟨hinv, hd'⟩ := hs d hd
  obtain ⟨he, p1, p2, p3⟩ := inv_eq d hinv
  refine ⟨d.year, d.ordinal.toNat, he, hinv.1, hinv.2.1, p1, p2, ?_⟩
  rw [← hdn, ← hd']
  unfold dayNumOf
  rw [p3]

/-! ### 0-based twins -/

theorem zero_based' (y : Int) (o : Nat) (ho : 1 ≤ o ∧ o ≤ yearLen y) :
    (dateOfYo y o).month0 = .ok (monthOfYo y o - 1) ∧ (dateOfYo y o).day0 = .ok (dayOfYo y o - 1) ∧
    (dateOfYo y o).ordinal0 = .ok (o - 1) ∧ 1 ≤ monthOfYo y o ∧ 1 ≤ dayOfYo y o := by
  have hly := yearLen_ge y
  obtain ⟨_, h2, _, _, _, _⟩ := dateOfYo_fields y o (by omega)
  obtain ⟨m1, m2, m3, _⟩ := month_day_spec y o ho.1 ho.2
  unfold validYmd at m3
  simp only [Bool.and_eq_true, decide_eq_true_eq] at m3
  obtain ⟨⟨⟨v1, _⟩, v3⟩, _⟩ := m3
  unfold Date.month0 Date.day0 Date.ordinal0 Date.subOne
  rw [m1, m2, h2, Int.toNat_natCast]
  dsimp only
  rw [if_neg (by omega), if_neg (by omega), if_neg (by omega)]
  exact ⟨rfl, rfl, rfl, v1, v3⟩

/-! ### successor / predecessor on the user-visible weekday and order -/

theorem wd_succ_toNat (w : Weekday) : (w.succ.toNat : Int) = ((w.toNat : Int) + 1) % 7 := by
  cases w <;> decide

theorem wd_pred_toNat (w : Weekday) : (w.pred.toNat : Int) = ((w.toNat : Int) + 6) % 7 := by
  cases w <;> decide

theorem succ_weekday' (y : Int) (o : Nat) (hy : MIN_YEAR ≤ y ∧ y ≤ MAX_YEAR) (ho : 1 ≤ o ∧ o ≤ yearLen y)
    (d' : Date) (h : Date.succ_opt (dateOfYo y o) = .ok (some d')) :
    d'.weekday = (dateOfYo y o).weekday.succ ∧ Date.cmp (dateOfYo y o) d' = -1 := by
  obtain ⟨r, hr, _, hs⟩ := succ_ok' y o hy ho
  rw [hr] at h
  obtain ⟨y', o', hd, _, _, p1, p2, hdn, _⟩ := hs d' (Res.ok.inj h)
  have hl := yearLen_ge y
  have hl' := yearLen_ge y'
  have w1 := weekday_spec y o (by omega)
  have w2 := weekday_spec y' o' (by omega)
  subst hd
  refine ⟨?_, ?_⟩
  · apply wd_toNat_inj
    have := wd_succ_toNat (dateOfYo y o).weekday
    rw [hdn] at w2
    unfold weekdayOf at w1 w2
    omega
  · rw [cmp_spec y y' o o' ho ⟨p1, p2⟩, if_pos (by omega)]

theorem pred_weekday' (y : Int) (o : Nat) (hy : MIN_YEAR ≤ y ∧ y ≤ MAX_YEAR) (ho : 1 ≤ o ∧ o ≤ yearLen y)
    (d' : Date) (h : Date.pred_opt (dateOfYo y o) = .ok (some d')) :
    d'.weekday = (dateOfYo y o).weekday.pred ∧ Date.cmp (dateOfYo y o) d' = 1 := by
  obtain ⟨r, hr, _, hs⟩ := pred_ok' y o hy ho
  rw [hr] at h
  obtain ⟨y', o', hd, _, _, p1, p2, hdn⟩ := hs d' (Res.ok.inj h)
  have hl := yearLen_ge y
  have hl' := yearLen_ge y'
  have w1 := weekday_spec y o (by omega)
  have w2 := weekday_spec y' o' (by omega)
  subst hd
  refine ⟨?_, ?_⟩
  · apply wd_toNat_inj
    have := wd_pred_toNat (dateOfYo y o).weekday
    rw [hdn] at w2
    unfold weekdayOf at w1 w2
    omega
  · rw [cmp_spec y y' o o' ho ⟨p1, p2⟩, if_neg (by omega), if_pos (by omega)]

end Chrono.Proofs.C01Gaps
