/- Helper lemmas for the second-review gaps of C17: corollaries for leap-second inputs (unchanged iff
multiple, the second call), sub-second "multiples unchanged" / idempotence, and `DurationRound for
DateTime<Tz>` in an arbitrary zone related to the same call at the fixed offset the value carries. -/
import Chrono.Proofs.RoundSubDtL
import Chrono.Model.RoundTz

namespace Chrono.Proofs.RoundDt
open Chrono Chrono.M Chrono.M.Round Chrono.Spec Chrono.Spec.Round Chrono.Extracted Chrono.Extracted.Round
open Chrono.Proofs Chrono.Proofs.RoundL

/-! ### leap-second inputs -/

/-- a leap-second operand that is moved by `d` and comes back as itself was not moved -/
theorem moved_leap_self (dt : NaiveDT) (d : Int) (hl : ¬ NonLeap dt) (h : Moved dt d dt) : d = 0 := by
  obtain ⟨_, h2, h3, _⟩ := h
  unfold NonLeap at hl
  unfold stamp_after at h2
  by_cases hc : dt.time.frac ≥ 1000000000 ∧ dt.time.frac + d ≥ 2000000000
  · rw [if_pos hc] at h2; omega
  · rw [if_neg hc] at h2; omega

theorem dvd_of_sub_const (p m : Int) (h1 : p ∣ m) (h2 : p ∣ m - 1000000000) : p ∣ 1000000000 := by
  have := Int.dvd_sub h1 h2
  have e : m - (m - 1000000000) = 1000000000 := by omega
  rw [e] at this; exact this

theorem dvd_sub_const (p m : Int) (h1 : p ∣ m) (h2 : p ∣ 1000000000) : p ∣ m - 1000000000 :=
  Int.dvd_sub h1 h2

/-! ### sub-second: the specified field is a multiple; multiples are fixed -/

theorem digitSpan_pos (d : Nat) : 0 < digitSpan d := by
  have := digitSpan_cases d; omega

theorem leapBase_cases (frac : Int) (h0 : 0 ≤ frac) (h1 : frac < 2000000000) :
    (leapBase frac = 0 ∧ frac < 1000000000) ∨ (leapBase frac = 1000000000 ∧ 1000000000 ≤ frac) := by
  unfold leapBase; split <;> omega

/-- the specified field is a multiple of the span for the digit count, and a valid field -/
theorem subsecSpec_field (round : Bool) (frac : Int) (d : Nat) (h0 : 0 ≤ frac) (h1 : frac < 2000000000) :
    digitSpan d ∣ (subsecSpec round frac d).1 ∧ 0 ≤ (subsecSpec round frac d).1 ∧
    (subsecSpec round frac d).1 < 2000000000 ∧
    ((subsecSpec round frac d).2 = 0 ∨ (subsecSpec round frac d).2 = 1) ∧
    ((subsecSpec round frac d).2 = 1 → (subsecSpec round frac d).1 = 0 ∧ 0 < frac) := by
  have hp := digitSpan_pos d
  obtain ⟨⟨t1, t2, t3, t4, _⟩, hr, _⟩ := subsec_meaning' frac d h0 h1
  have hb := leapBase_cases frac h0 h1
  cases round
  · simp only [subsecSpec, Bool.false_eq_true, if_false]
    refine ⟨by rw [t2]; exact spec_dvd .trunc frac _ hp, by omega, by omega, Or.inl t1, fun h => by omega⟩
  · simp only [subsecSpec, if_true]
    rcases hr with ⟨r1, r2, r3, r4⟩ | ⟨r1, r2, r3⟩
    · exact ⟨by rw [r2]; exact spec_dvd .round frac _ hp, by omega, by omega, Or.inl r1, fun h => by omega⟩
    · refine ⟨by rw [r2]; exact Int.dvd_zero _, by omega, by omega, Or.inr r1, fun _ => ⟨r2, ?_⟩⟩
      have := (spec_sides frac (digitSpan d) hp).2.2
      have := digitSpan_cases d
      omega

/-- a field that is a multiple is specified to stay, and the move is zero -/
theorem subsecSpec_of_dvd (round : Bool) (frac : Int) (d : Nat) (h0 : 0 ≤ frac) (h1 : frac < 2000000000)
    (h : digitSpan d ∣ frac) : subsecSpec round frac d = (frac, 0) ∧ subsecMove round frac d = 0 := by
  have hp := digitSpan_pos d
  have hb := leapBase_cases frac h0 h1
  have e1 := (spec_fixed_iff .trunc frac _ hp).mp h
  have e2 := (spec_fixed_iff .round frac _ hp).mp h
  simp only [specOf] at e1 e2
  have hf : fieldOf (leapBase frac) frac = (frac, 0) := by
    unfold fieldOf; rw [if_neg (by omega)]
  cases round
  · simp only [subsecSpec, subsecMove, truncSubsecSpec, Bool.false_eq_true, if_false, e1, hf]
    refine ⟨?_, ?_⟩ <;> first | trivial | rfl | omega
  · simp only [subsecSpec, subsecMove, roundSubsecSpec, if_true, e2, hf]
    refine ⟨?_, ?_⟩ <;> first | trivial | rfl | omega

/-- the generic `SubsecRound` function returns `self` when the field is a multiple -/
theorem subsec_generic_fixed {α : Type} (round : Bool) (frac : Int) (orig : α)
    (add sub : α → Delta → Res α) (d : Nat) (h0 : 0 ≤ frac) (h1 : frac < 2000000000)
    (h : digitSpan d ∣ frac) : subsec_generic round (.ok frac) orig add sub d = .ok orig := by
  unfold subsec_generic
  simp only []
  rw [subsec_move_eq round frac d h0 h1, (subsecSpec_of_dvd round frac d h0 h1 h).2]
  simp only []
  unfold apply_move
  rw [if_pos rfl]

theorem zoned_nanosecond_eq (z : Zoned) (hz : ZInv z) : Zoned.nanosecond z = .ok z.utc.time.frac := by
  obtain ⟨l, hl, _, _, hfrac, _, _⟩ := naive_local_spec z hz
  unfold Zoned.nanosecond
  rw [hl]
  simp only [Res.bind, Time.nanosecond]
  rw [hfrac]

/-! ### any zone -/

theorem apply_move_tz (offAt : NaiveDT → Int) (z : Zoned) (d : Int) :
    apply_move (tz_add offAt) (tz_sub offAt) z d =
      match apply_move Zoned.add Zoned.sub z d with
      | .panic => .panic
      | .ok v => .ok (retag offAt z d v) := by
  unfold apply_move retag
  by_cases h0 : d = 0
  · rw [if_pos h0, if_pos h0]; simp only []; rw [if_pos h0]
  · rw [if_neg h0, if_neg h0]
    by_cases hp : d > 0
    · rw [if_pos hp, if_pos hp]
      unfold Zoned.add tz_add
      rw [zoned_add_eq]
      cases z.utc.checked_add_signed (Delta.nanoseconds d) with
      | panic => rfl
      | ok r =>
        cases r with
        | none => rfl
        | some u => simp only [Res.bind, Option.map, expectSome]; rw [if_neg h0]
    · rw [if_neg hp, if_neg hp]
      unfold Zoned.sub tz_sub
      rw [zoned_sub_eq]
      cases z.utc.checked_sub_signed (Delta.nanoseconds (-d)) with
      | panic => rfl
      | ok r =>
        cases r with
        | none => rfl
        | some u => simp only [Res.bind, Option.map, expectSome]; rw [if_neg h0]

/-- the call in any zone, from the same call at the fixed offset the value carries: the same error, the
same absence of a panic, and the same UTC reading — seen at the zone's offset there when the value was
moved (`retag`) -/
theorem tz_vs_fixed' (offAt : NaiveDT → Int) (op : Op) (z : Zoned) (dur : Delta) (hz : ZInv z)
    (hd : DInv dur) :
    tz_duration offAt op z dur =
      match zoned_duration op z dur with
      | .panic => .panic
      | .ok (.err e) => .ok (.err e)
      | .ok (.ok v) =>
        .ok (.ok (retag offAt z (specOf (kindOf op) (wallNs z) (ns dur) - wallNs z) v)) := by
  obtain ⟨l, hl, hext, hsecs, hfrac, _, _⟩ := naive_local_spec z hz
  have hint := on_datetime_eq2 op (instSecs l) l.time.frac 0 dur hd
  rw [Int.add_zero, hsecs, hfrac] at hint
  have hwall : wallSecs z * 1000000000 + z.utc.time.frac = wallNs z := by
    unfold wallSecs wallNs instNs; omega
  rw [hwall] at hint
  unfold tz_duration zoned_duration
  rw [hl]
  simp only []
  rw [generic_eq op l hext z Zoned.add Zoned.sub dur, generic_eq op l hext z _ _ dur, hsecs, hfrac, hint]
  by_cases hb : ns dur ≤ 0 ∨ 9223372036854775807 < ns dur
  · rw [if_pos hb]; rfl
  · rw [if_neg hb]
    by_cases hw : ¬ InI64 (wallNs z)
    · rw [if_pos hw]; rfl
    · rw [if_neg hw]
      unfold finish
      simp only []
      rw [apply_move_tz]
      cases apply_move Zoned.add Zoned.sub z (specOf (kindOf op) (wallNs z) (ns dur) - wallNs z) <;> rfl

/-- `SubsecRound for DateTime<Tz>` in any zone, from the same call at the fixed offset -/
theorem tz_subsecs_vs_fixed' (offAt : NaiveDT → Int) (round : Bool) (z : Zoned) (digits : Nat)
    (hz : ZInv z) :
    tz_subsecs offAt round z digits =
      match zoned_subsecs round z digits with
      | .panic => .panic
      | .ok v => .ok (retag offAt z (subsecMove round z.utc.time.frac digits) v) := by
  have hf := hz.1.2.2.2
  unfold tz_subsecs zoned_subsecs
  rw [zoned_nanosecond_eq z hz]
  unfold subsec_generic
  simp only []
  rw [subsec_move_eq round z.utc.time.frac digits hf.1 hf.2]
  simp only []
  rw [apply_move_tz]

end Chrono.Proofs.RoundDt
