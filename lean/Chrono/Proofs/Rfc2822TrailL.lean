/-
  Helper lemmas for C11, part 10: every string of the specification relation ends in a digit, a letter
  or a closing parenthesis (the end of its zone or of its last comment) — never in white space.
-/
import Chrono.Proofs.Rfc2822ScanL
namespace Chrono.Proofs.Rfc2822
open Chrono Chrono.M Chrono.Spec Chrono.Spec.Rfc2822

/-- a byte a string of the relation can end with -/
def EndByte (b : Nat) : Prop := (48 ≤ b ∧ b ≤ 57) ∨ isAlpha b ∨ b = 41
instance (b : Nat) : Decidable (EndByte b) := by unfold EndByte; exact inferInstance

theorem getLast_append_some {b : Nat} (l₁ l₂ : List Nat) (h : l₂.getLast? = some b) :
    (l₁ ++ l₂).getLast? = some b := by
  rw [List.getLast?_append, h]; rfl

theorem getLast_cons_some {b : Nat} (a : Nat) (l : List Nat) (h : l.getLast? = some b) :
    (a :: l).getLast? = some b := getLast_append_some [a] l h

theorem comments_last {cc : List Nat} (h : Comments cc) : cc = [] ∨ cc.getLast? = some 41 := by
  induction h with
  | nil => exact Or.inl rfl
  | cons w a r _ _ _ ih =>
    right
    apply getLast_append_some
    apply getLast_cons_some
    apply getLast_append_some
    rcases ih with rfl | ih
    · rfl
    · exact getLast_cons_some 41 r ih

theorem zone_last {zz : List Nat} {off : Int} (h : Zone zz off) :
    ∃ b, zz.getLast? = some b ∧ ((48 ≤ b ∧ b ≤ 57) ∨ isAlpha b) := by
  cases h with
  | num neg h1 h2 m1 m2 _ _ _ hm2 => exact ⟨m2, rfl, Or.inl hm2⟩
  | name _ nm hours hmem hcase =>
    obtain ⟨_, hne, hl⟩ := zone_table_secs (nm, hours) hmem
    have hal := caseOf_alpha hl hcase
    cases hlast : zz.getLast? with
    | none =>
      exfalso
      rw [List.getLast?_eq_none_iff] at hlast
      subst hlast
      unfold CaseOf at hcase
      simp at hcase
      exact hne hcase
    | some b => exact ⟨b, rfl, Or.inr (hal b (List.mem_of_getLast? hlast))⟩
  | military c ha _ => exact ⟨c, rfl, Or.inr ha⟩

theorem rfc2822_last {s : List Nat} {f : Fields} (h : Rfc2822 s f) : ∃ b, s.getLast? = some b ∧ EndByte b := by
  obtain ⟨w0, dn, w1, dd, w2, mn, w3, yy, w4, hh, w5, w6, mm, ss, w7, zz, cc,
    _, _, _, _, _, _, _, _, _, _, _, _, _, _, _, _, _, _, _, _, _, _, _, hz, hc, rfl⟩ := h
  obtain ⟨b, hb, hbk⟩ := zone_last hz
  have key : ∃ b, (zz ++ cc).getLast? = some b ∧ EndByte b := by
    rcases comments_last hc with rfl | hl
    · exact ⟨b, by rw [List.append_nil]; exact hb, by unfold EndByte; rcases hbk with h | h <;> simp [h]⟩
    · exact ⟨41, getLast_append_some _ _ hl, Or.inr (Or.inr rfl)⟩
  obtain ⟨b', hb', he⟩ := key
  refine ⟨b', ?_, he⟩
  generalize zz ++ cc = tl at hb' ⊢
  repeat (first | apply getLast_append_some | apply getLast_cons_some)
  exact hb'

theorem ws_last_not_end : ∀ w ∈ WS, ∃ b, w.getLast? = some b ∧ ¬ EndByte b := by decide

end Chrono.Proofs.Rfc2822
