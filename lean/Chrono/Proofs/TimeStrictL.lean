/-
  Helper lemmas for C08's audit gap MEDIUM-2: `NaiveTime::with_*` against the constructors' notion of
  an existing time of day (`TStrict`: leap representation only on second :59; `okFields` / `ofFields`:
  the acceptance rule and the value of `from_hms_nano_opt`).
-/
import Chrono.Proofs.DateTimeOpsL
import Chrono.Spec.MonthsOpsSpec

namespace Chrono.Proofs.TStrictL
open Chrono Chrono.M Chrono.Spec Chrono.Proofs

/-- the four accessors of a well-formed time, in closed form -/
theorem fields_eq (t : Time) (ht : TValid t) :
    t.hour = t.secs / 3600 ∧ t.minute = t.secs / 60 % 60 ∧ t.second = t.secs % 60 ∧ t.nanosecond = t.frac := by
  obtain ⟨a1, a2, a3, a4, _⟩ := accessors' t ht
  exact ⟨a1, a2, a3, a4⟩

/-- which results of the four replacements satisfy the constructors' rule -/
theorem strict_iff (t : Time) (ht : TStrict t) (v : Int) (hv : 0 ≤ v) :
    (∀ t', t.with_nanosecond v = some t' → (TStrict t' ↔ (v < 1000000000 ∨ t.secs % 60 = 59))) ∧
    (∀ t', t.with_second v = some t' → (TStrict t' ↔ (t.frac < 1000000000 ∨ v = 59))) ∧
    (∀ t', t.with_minute v = some t' → TStrict t') ∧ (∀ t', t.with_hour v = some t' → TStrict t') := by
  obtain ⟨⟨h1, h2, h3, h4⟩, h5⟩ := ht
  refine ⟨?_, ?_, ?_, ?_⟩
  · intro t' h
    unfold Time.with_nanosecond at h
    by_cases c : v ≥ 2000000000
    · rw [if_pos c] at h; cases h
    · rw [if_neg c] at h
      have := Option.some.inj h
      subst this
      unfold TStrict TValid
      dsimp only
      omega
  · intro t' h
    unfold Time.with_second at h
    by_cases c : v ≥ 60
    · rw [if_pos c] at h; cases h
    · rw [if_neg c] at h
      have := Option.some.inj h
      subst this
      unfold TStrict TValid
      dsimp only
      omega
  · intro t' h
    unfold Time.with_minute at h
    by_cases c : v ≥ 60
    · rw [if_pos c] at h; cases h
    · rw [if_neg c] at h
      have := Option.some.inj h
      subst this
      unfold TStrict TValid
      dsimp only
      omega
  · intro t' h
    unfold Time.with_hour at h
    by_cases c : v ≥ 24
    · rw [if_pos c] at h; cases h
    · rw [if_neg c] at h
      have := Option.some.inj h
      subst this
      unfold TStrict TValid
      dsimp only
      omega

theorem ctorTime_eq_model (h m s n : Int) : ctorTime h m s n = Time.from_hms_nano_opt h m s n := by
  unfold ctorTime Time.from_hms_nano_opt ofFields
  by_cases c : (h ≥ 24 ∨ m ≥ 60 ∨ s ≥ 60) ∨ (n ≥ 1000000000 ∧ s ≠ 59) ∨ n ≥ 2000000000
  · rw [if_pos c, if_neg (by unfold okFields; omega)]
  · rw [if_neg c, if_pos (by unfold okFields; omega)]

/-- on a constructor-built time, `with_hour` / `with_minute` ARE the constructor on the new fields;
`with_second` / `with_nanosecond` are too, outside the deviation set -/
theorem with_vs_ctor (t : Time) (ht : TStrict t) (v : Int) (hv : 0 ≤ v) :
    t.with_hour v = ctorTime v t.minute t.second t.nanosecond ∧
    t.with_minute v = ctorTime t.hour v t.second t.nanosecond ∧
    (¬ (1000000000 ≤ t.frac ∧ v < 59) → t.with_second v = ctorTime t.hour t.minute v t.nanosecond) ∧
    (¬ (1000000000 ≤ v ∧ v < 2000000000 ∧ t.secs % 60 ≠ 59) →
      t.with_nanosecond v = ctorTime t.hour t.minute t.second v) := by
  obtain ⟨f1, f2, f3, f4⟩ := fields_eq t ht.1
  obtain ⟨⟨h1, h2, h3, h4⟩, h5⟩ := ht
  rw [f1, f2, f3, f4]
  unfold ctorTime ofFields
  refine ⟨?_, ?_, ?_, ?_⟩
  · unfold Time.with_hour
    by_cases c : v ≥ 24
    · rw [if_pos c, if_neg (by unfold okFields; omega)]
    · rw [if_neg c, if_pos (by unfold okFields; omega)]
      refine congrArg some ?_
      simp only [Time.mk.injEq, and_true]
      omega
  · unfold Time.with_minute
    by_cases c : v ≥ 60
    · rw [if_pos c, if_neg (by unfold okFields; omega)]
    · rw [if_neg c, if_pos (by unfold okFields; omega)]
  · intro hd
    unfold Time.with_second
    by_cases c : v ≥ 60
    · rw [if_pos c, if_neg (by unfold okFields; omega)]
    · rw [if_neg c, if_pos (by unfold okFields; omega)]
      refine congrArg some ?_
      simp only [Time.mk.injEq, and_true]
      omega
  · intro hd
    unfold Time.with_nanosecond
    by_cases c : v ≥ 2000000000
    · rw [if_pos c, if_neg (by unfold okFields; omega)]
    · rw [if_neg c, if_pos (by unfold okFields; omega)]
      refine congrArg some ?_
      have hsum := (accessors' t ⟨h1, h2, h3, h4⟩).2.2.2.2.2.2.2.2.2.2.1
      unfold hourOf minuteOf secondOf at hsum
      simp only [Time.mk.injEq, and_true]
      omega

/-- the deviation set: a value is returned that the constructor refuses -/
theorem off59 (t : Time) (ht : TStrict t) (v : Int) (hv : 0 ≤ v) :
    (1000000000 ≤ t.frac → v < 59 →
      t.with_second v = some ⟨t.secs / 60 * 60 + v, t.frac⟩ ∧
      ctorTime t.hour t.minute v t.nanosecond = none ∧ ¬ TStrict ⟨t.secs / 60 * 60 + v, t.frac⟩) ∧
    (1000000000 ≤ v → v < 2000000000 → t.secs % 60 ≠ 59 →
      t.with_nanosecond v = some ⟨t.secs, v⟩ ∧
      ctorTime t.hour t.minute t.second v = none ∧ ¬ TStrict ⟨t.secs, v⟩) := by
  obtain ⟨f1, f2, f3, f4⟩ := fields_eq t ht.1
  obtain ⟨⟨h1, h2, h3, h4⟩, h5⟩ := ht
  rw [f1, f2, f3, f4]
  unfold ctorTime
  refine ⟨?_, ?_⟩
  · intro a b
    refine ⟨?_, ?_, ?_⟩
    · unfold Time.with_second; rw [if_neg (by omega)]
    · rw [if_neg (by unfold okFields; omega)]
    · unfold TStrict TValid; dsimp only; omega
  · intro a b c
    refine ⟨?_, ?_, ?_⟩
    · unfold Time.with_nanosecond; rw [if_neg (by omega)]
    · rw [if_neg (by unfold okFields; omega)]
    · unfold TStrict TValid; dsimp only; omega

end Chrono.Proofs.TStrictL
