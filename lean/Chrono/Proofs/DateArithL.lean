/- Helper lemmas for C03: day arithmetic on the packed date (proofs for Props/C03.lean). -/
import Chrono.Spec.ArithSpec
import Chrono.Proofs.DateL
import Chrono.Proofs.DeltaL

namespace Chrono.Proofs
open Chrono Chrono.M Chrono.Spec Chrono.Extracted

/-! ### the invariant in terms of `dateOfYo` -/

theorem inv_eq (d : Date) (h : DateInv d) :
    d = dateOfYo d.year d.ordinal.toNat ∧ 1 ≤ d.ordinal.toNat ∧ d.ordinal.toNat ≤ yearLen d.year ∧
    (d.ordinal.toNat : Int) = d.ordinal := by
  obtain ⟨_, _, h3, h4, h5⟩ := h
  have hyl := yearLen_ge d.year
  refine ⟨?_, by omega, by omega, by omega⟩
  apply date_eq_of_yof
  unfold dateOfYo
  dsimp only
  unfold Date.year Date.ordinal at *
  omega

theorem inv_of_yo (y : Int) (o : Nat) (hy : MIN_YEAR ≤ y ∧ y ≤ MAX_YEAR) (ho : 1 ≤ o ∧ o ≤ yearLen y) :
    DateInv (dateOfYo y o) ∧ dayNumOf (dateOfYo y o) = dayNumYo y o := by
  have hyl := yearLen_ge y
  obtain ⟨h1, h2, _, h4, _, _⟩ := dateOfYo_fields y o (by omega)
  unfold DateInv dayNumOf
  rw [h1, h2]
  refine ⟨⟨hy.1, hy.2, by omega, by omega, h4⟩, rfl⟩

theorem dn_consts : DN_MIN = -95746129 ∧ DN_MAX = 95745399 ∧ dayNumYo MIN_YEAR 1 = -95746129 ∧
    dayNumYo MAX_YEAR 365 = 95745399 ∧ daysBeforeYear MIN_YEAR = -95746130 ∧
    daysBeforeYear (MAX_YEAR + 1) = 95745399 := by decide

/-- a valid ordinal of year `y` lies in the supported range iff the year does -/
theorem year_range_iff (y : Int) (o : Int) (ho : 1 ≤ o ∧ o ≤ yearLen y) :
    (MIN_YEAR ≤ y ∧ y ≤ MAX_YEAR) ↔ (-95746129 ≤ dayNumYo y o ∧ dayNumYo y o ≤ 95745399) := by
  obtain ⟨_, _, _, _, c5, c6⟩ := dn_consts
  have hMIN : MIN_YEAR = -262143 := rfl
  have hMAX : MAX_YEAR = 262142 := rfl
  have hs := dby_step y
  unfold dayNumYo
  constructor
  · intro ⟨h1, h2⟩
    have m1 := dby_mono MIN_YEAR y h1
    have m2 := dby_mono (y + 1) (MAX_YEAR + 1) (by omega)
    omega
  · intro ⟨h1, h2⟩
    constructor
    · by_cases h : MIN_YEAR ≤ y
      · exact h
      · have m := dby_mono (y + 1) MIN_YEAR (by omega)
        omega
    · by_cases h : y ≤ MAX_YEAR
      · exact h
      · have m := dby_mono (MAX_YEAR + 1) y (by omega)
        omega

/-- the 400-year-cycle reconstruction shared by `add_days` and `from_num_days_from_ce_opt`:
cycle `Q`, day `c` of the cycle ↦ the date with day number `146097·Q + c − 365` -/
theorem cycle_path (Q : Int) (c : Nat) (hc : c < 146097) :
    Date.from_ordinal_and_flags (Q * 400 + (Date.cycle_to_yo c).1) (Date.cycle_to_yo c).2
        (YearFlags.from_year_mod_400 (Date.cycle_to_yo c).1) =
      .ok (if MIN_YEAR ≤ Q * 400 + (Date.cycle_to_yo c).1 ∧ Q * 400 + (Date.cycle_to_yo c).1 ≤ MAX_YEAR
           then some (dateOfYo (Q * 400 + (Date.cycle_to_yo c).1) (Date.cycle_to_yo c).2) else none) ∧
    1 ≤ (Date.cycle_to_yo c).2 ∧ (Date.cycle_to_yo c).2 ≤ yearLen (Q * 400 + (Date.cycle_to_yo c).1) ∧
    dayNumYo (Q * 400 + (Date.cycle_to_yo c).1) (Date.cycle_to_yo c).2 = 146097 * Q + c - 365 := by
  obtain ⟨s1, s2, s3, s4⟩ := cycle_to_yo_spec c hc
  generalize Date.cycle_to_yo c = p at *
  obtain ⟨ym, ord⟩ := p
  dsimp only at *
  have hymod : (Q * 400 + (ym : Int)) % 400 = ym := by omega
  have hflags : YearFlags.from_year_mod_400 (ym : Int) = flagsOf (Q * 400 + ym) := by
    have := from_year_spec (Q * 400 + ym)
    unfold YearFlags.from_year at this
    rw [hymod] at this
    exact this
  have hlf := (leaps_fin ym (by omega)).2.2
  have hyl : yearLen (Q * 400 + (ym : Int)) = 365 + (leapsBefore (ym + 1) - leapsBefore ym) := by
    rw [← yearLen_mod400, hymod, hlf]
    unfold yearLen; split <;> rfl
  have hdn : dayNumYo (Q * 400 + (ym : Int)) ord = 146097 * Q + c - 365 := by
    unfold dayNumYo
    rw [dby_mod400, hymod, dby_small ym (by omega)]
    have : (Q * 400 + (ym : Int)) / 400 = Q := by omega
    rw [this]
    have hle := (leaps_fin ym (by omega)).2.1
    omega
  have hord : ord ≤ yearLen (Q * 400 + (ym : Int)) := by rw [hyl]; exact s3
  refine ⟨?_, s2, hord, hdn⟩
  rw [hflags, from_oaf_spec]
  congr 1
  apply ite_same
  constructor
  · intro h; exact ⟨h.1, h.2.1⟩
  · intro h; exact ⟨h.1, h.2, s2, hord⟩

theorem optI32_some {x : Int} (h1 : -2147483648 ≤ x) (h2 : x ≤ 2147483647) : optI32 x = some x := by
  simp [optI32, inI32, I32_MIN, I32_MAX, h1, h2]
theorem optI32_none {x : Int} (h : x < -2147483648 ∨ 2147483647 < x) : optI32 x = none := by
  unfold optI32 inI32 I32_MIN I32_MAX
  rcases h with h | h
  · have : ¬ (-2147483648 ≤ x) := by omega
    simp [this]
  · have : ¬ (x ≤ 2147483647) := by omega
    simp [this]

/-- the fast-path test of `add_days` -/
def fastOrd (o : Int) (leap : Bool) (n : Int) : Option Int :=
  match optI32 (o + n) with
  | some o' => if o' > 0 ∧ o' ≤ 365 + (if leap then 1 else 0) then some o' else none
  | none => none

theorem fastOrd_spec (y : Int) (o n : Int) (ho : 1 ≤ o ∧ o ≤ 366)
    (hn : -2147483648 ≤ n ∧ n ≤ 2147483647) :
    fastOrd o (isLeap y) n = if 1 ≤ o + n ∧ o + n ≤ yearLen y then some (o + n) else none := by
  unfold fastOrd
  have hyl : (yearLen y : Int) = 365 + (if isLeap y then 1 else 0) := by
    unfold yearLen; cases isLeap y <;> simp
  by_cases hov : o + n ≤ 2147483647
  · rw [optI32_some (by omega) hov]
    dsimp only
    apply ite_same
    rw [hyl]
    cases isLeap y <;> simp <;> omega
  · rw [optI32_none (by omega)]
    dsimp only
    have hl := yearLen_ge y
    rw [ite_neg' _ _ (by omega)]

/-- the full (400-year cycle) path of `add_days`, verbatim -/
def cyclePath (d : Date) (days : Int) : Res (Option Date) :=
  let year := d.year
  let year_div_400 := year / 400
  let year_mod_400 := year % 400
  let cycle : Int := Date.yo_to_cycle year_mod_400.toNat d.ordinal.toNat
  match optI32 (cycle + days) with
  | none => .ok none
  | some cycle =>
    let cycle_div := cycle / 146097
    let cycle := cycle % 146097
    match ckI32 (year_div_400 + cycle_div) with
    | .panic => .panic
    | .ok yd =>
      let (ym, ordinal) := Date.cycle_to_yo cycle.toNat
      let flags := YearFlags.from_year_mod_400 ym
      match ckI32 (yd * 400) with
      | .panic => .panic
      | .ok y4 => match ckI32 (y4 + ym) with
        | .panic => .panic
        | .ok y => Date.from_ordinal_and_flags y ordinal flags

theorem add_days_eq (d : Date) (days : Int) : Date.add_days d days =
    match fastOrd d.ordinal d.leap_year days with
    | some o => (match Date.from_yof (d.yof - d.ordinal * 16 + o * 16) with
      | .ok r => .ok (some r) | .panic => .panic)
    | none => cyclePath d days := rfl

/-- the cycle path on the `o`-th day of year `y`, for every `i32` count -/
theorem cyclePath_spec (y : Int) (o : Nat) (n : Int) (hy : MIN_YEAR ≤ y ∧ y ≤ MAX_YEAR)
    (ho : 1 ≤ o ∧ o ≤ yearLen y) (hn : -2147483648 ≤ n ∧ n ≤ 2147483647) :
    ∃ r, cyclePath (dateOfYo y o) n = .ok r ∧
      (∀ d, r = some d → ∃ y' o', d = dateOfYo y' o' ∧ MIN_YEAR ≤ y' ∧ y' ≤ MAX_YEAR ∧ 1 ≤ o' ∧
        o' ≤ yearLen y' ∧ dayNumYo y' o' = dayNumYo y o + n) ∧
      (r = none ↔ (dayNumYo y o + n < -95746129 ∨ dayNumYo y o + n > 95745399)) := by
  have hyl := yearLen_ge y
  have hMIN : MIN_YEAR = -262143 := rfl
  have hMAX : MAX_YEAR = 262142 := rfl
  obtain ⟨hyear, hord, _, _, _, _⟩ := dateOfYo_fields y o (by omega)
  unfold cyclePath
  rw [hyear, hord]
  dsimp only
  -- the position in the cycle
  have hm0 : 0 ≤ y % 400 := Int.emod_nonneg _ (by decide)
  have hm1 : y % 400 < 400 := Int.emod_lt_of_pos _ (by decide)
  obtain ⟨ym, hym⟩ := Int.eq_ofNat_of_zero_le hm0
  rw [hym]
  simp only [Int.toNat_natCast]
  have hymlt : ym < 400 := by omega
  have hcyc : ((Date.yo_to_cycle ym o : Nat) : Int) = (ym : Int) * 365 + leapsBefore ym + o - 1 := by
    unfold Date.yo_to_cycle
    rw [table_yd.2 ym (by omega)]
    omega
  have hle := (leaps_fin ym (by omega)).2.1
  have hdn0 : dayNumYo y o = 146097 * (y / 400) + (Date.yo_to_cycle ym o : Nat) - 365 := by
    unfold dayNumYo
    rw [dby_mod400, hym, dby_small ym (by omega), hcyc]
    omega
  have hcb : 0 ≤ ((Date.yo_to_cycle ym o : Nat) : Int) ∧ ((Date.yo_to_cycle ym o : Nat) : Int) < 146097 := by
    rw [hcyc]
    have hl400 : leapsBefore 400 = 97 := by decide
    have hmono := (leaps_fin ym (by omega)).1
    have hylm : yearLen y = 365 + (leapsBefore (ym + 1) - leapsBefore ym) := by
      have := (leaps_fin ym (by omega)).2.2
      rw [← yearLen_mod400, hym, this]
      unfold yearLen; split <;> rfl
    have hmono2 : leapsBefore (ym + 1) ≤ 97 := by
      by_cases h : ym + 1 < 401
      · exact (leaps_fin (ym + 1) h).2.1
      · omega
    omega
  generalize ((Date.yo_to_cycle ym o : Nat) : Int) = C at *
  by_cases hov : C + n ≤ 2147483647
  · rw [optI32_some (by omega) hov]
    dsimp only
    generalize hq : (C + n) / 146097 = q
    generalize hc : (C + n) % 146097 = c
    have hc0 : 0 ≤ c := by rw [← hc]; exact Int.emod_nonneg _ (by decide)
    have hc1 : c < 146097 := by rw [← hc]; exact Int.emod_lt_of_pos _ (by decide)
    have hdecomp : C + n = 146097 * q + c := by rw [← hq, ← hc]; omega
    obtain ⟨k, hk⟩ := Int.eq_ofNat_of_zero_le hc0
    subst hk
    simp only [Int.toNat_natCast]
    have hqb : -14700 ≤ q ∧ q ≤ 14700 := by omega
    rw [ckI32_ok (by omega) (by omega)]
    dsimp only
    obtain ⟨p1, p2, p3, p4⟩ := cycle_path (y / 400 + q) k (by omega)
    have s1 := (cycle_to_yo_spec k (by omega)).1
    generalize Date.cycle_to_yo k = p at *
    obtain ⟨ym', ord'⟩ := p
    dsimp only at *
    rw [ckI32_ok (by omega) (by omega)]
    dsimp only
    rw [ckI32_ok (by omega) (by omega)]
    dsimp only
    rw [p1]
    have hdn : dayNumYo ((y / 400 + q) * 400 + ↑ym') ↑ord' = dayNumYo y o + n := by omega
    have hr := year_range_iff ((y / 400 + q) * 400 + ↑ym') ord' ⟨by omega, by omega⟩
    rw [hdn] at hr
    refine ⟨_, rfl, ?_, ?_⟩
    · intro d hd
      by_cases hcond : MIN_YEAR ≤ (y / 400 + q) * 400 + ↑ym' ∧ (y / 400 + q) * 400 + ↑ym' ≤ MAX_YEAR
      · rw [if_pos hcond] at hd
        exact ⟨_, _, (Option.some.inj hd).symm, hcond.1, hcond.2, p2, p3, hdn⟩
      · rw [if_neg hcond] at hd; cases hd
    · constructor
      · intro h
        by_cases hcond : MIN_YEAR ≤ (y / 400 + q) * 400 + ↑ym' ∧ (y / 400 + q) * 400 + ↑ym' ≤ MAX_YEAR
        · rw [if_pos hcond] at h; cases h
        · have := mt hr.mpr hcond
          omega
      · intro h
        apply ite_neg'
        intro hcond
        have := hr.mp hcond
        omega
  · rw [optI32_none (by omega)]
    refine ⟨none, rfl, ?_, ?_⟩
    · intro d h; cases h
    · constructor <;> intro _ <;> first | rfl | omega

/-- `add_days` on the `o`-th day of year `y`, for every `i32` count: both paths -/
theorem add_days_yo (y : Int) (o : Nat) (n : Int) (hy : MIN_YEAR ≤ y ∧ y ≤ MAX_YEAR)
    (ho : 1 ≤ o ∧ o ≤ yearLen y) (hn : -2147483648 ≤ n ∧ n ≤ 2147483647) :
    ∃ r, Date.add_days (dateOfYo y o) n = .ok r ∧
      (∀ d, r = some d → ∃ y' o', d = dateOfYo y' o' ∧ MIN_YEAR ≤ y' ∧ y' ≤ MAX_YEAR ∧ 1 ≤ o' ∧
        o' ≤ yearLen y' ∧ dayNumYo y' o' = dayNumYo y o + n) ∧
      (r = none ↔ (dayNumYo y o + n < -95746129 ∨ dayNumYo y o + n > 95745399)) := by
  have hyl := yearLen_ge y
  obtain ⟨hyear, hord, _, hf, _, hleap⟩ := dateOfYo_fields y o (by omega)
  obtain ⟨hf16, hf8, hfl, _⟩ := flagsOf_facts y
  rw [add_days_eq, hord, hleap, fastOrd_spec y o n (by omega) hn]
  by_cases hfast : 1 ≤ (o : Int) + n ∧ (o : Int) + n ≤ yearLen y
  · rw [if_pos hfast]
    dsimp only
    obtain ⟨o2, ho2⟩ := Int.eq_ofNat_of_zero_le (show 0 ≤ (o : Int) + n by omega)
    have hyo : (dateOfYo y o).yof - (o : Int) * 16 + ((o : Int) + n) * 16
        = y * 8192 + ((o2 * 16 + flagsOf y : Nat) : Int) := by
      unfold dateOfYo; dsimp only; push_cast; omega
    have h366 : o2 = 366 → flagsOf y / 8 = 0 := by
      intro h
      rw [hfl]
      have : yearLen y = 366 := by omega
      unfold yearLen at this
      cases hl : isLeap y
      · rw [hl] at this; simp at this
      · simp
    rw [hyo, from_yof_ok y o2 (flagsOf y) (by omega) (by omega) hf16 hf8 h366]
    dsimp only
    have hr := (year_range_iff y o2 ⟨by omega, by omega⟩).mp hy
    have hdn : dayNumYo y o2 = dayNumYo y o + n := by unfold dayNumYo; omega
    refine ⟨_, rfl, ?_, ?_⟩
    · intro d hd
      refine ⟨y, o2, ?_, hy.1, hy.2, by omega, by omega, hdn⟩
      rw [← Option.some.inj hd]
      unfold dateOfYo; congr 1; push_cast; omega
    · constructor
      · intro h; cases h
      · intro h; omega
  · rw [if_neg hfast]
    exact cyclePath_spec y o n hy ho hn

/-- `add_days` for every valid date and every `i32` count -/
theorem add_days_spec (d : Date) (n : Int) (hd : DateInv d) (hn : -2147483648 ≤ n ∧ n ≤ 2147483647) :
    ∃ r, Date.add_days d n = .ok r ∧ IsDayShift d n r := by
  obtain ⟨he, ho1, ho2, hoc⟩ := inv_eq d hd
  obtain ⟨r, h1, h2, h3⟩ := add_days_yo d.year d.ordinal.toNat n ⟨hd.1, hd.2.1⟩ ⟨ho1, ho2⟩ hn
  rw [← he] at h1
  obtain ⟨c1, c2, _, _, _, _⟩ := dn_consts
  have hdn : dayNumOf d = dayNumYo d.year d.ordinal.toNat := by unfold dayNumOf; rw [hoc]
  refine ⟨r, h1, ?_, ?_⟩
  · rw [c1, c2, hdn]
    exact h3
  · intro d' hd'
    obtain ⟨y', o', e, b1, b2, b3, b4, b5⟩ := h2 d' hd'
    obtain ⟨i1, i2⟩ := inv_of_yo y' o' ⟨b1, b2⟩ ⟨b3, b4⟩
    rw [e, i2, hdn]
    exact ⟨i1, b5⟩

/-- every valid date has its day number in `[DN_MIN, DN_MAX]` -/
theorem dn_bounds (d : Date) (hd : DateInv d) : -95746129 ≤ dayNumOf d ∧ dayNumOf d ≤ 95745399 := by
  unfold dayNumOf
  exact (year_range_iff d.year d.ordinal ⟨hd.2.2.1, hd.2.2.2.1⟩).mp ⟨hd.1, hd.2.1⟩

/-- a shift that is certainly out of range is correctly refused -/
theorem shift_none (d : Date) (k : Int) (hd : DateInv d) (hk : k < -191491528 ∨ 191491528 < k) :
    IsDayShift d k none := by
  obtain ⟨c1, c2, _⟩ := dn_consts
  have hb := dn_bounds d hd
  refine ⟨?_, ?_⟩
  · rw [c1, c2]; constructor <;> intro _ <;> first | rfl | omega
  · intro d' h; cases h

theorem checked_add_days_spec (d : Date) (c : Int) (hd : DateInv d) (hc : 0 ≤ c ∧ c ≤ 18446744073709551615) :
    ∃ r, Date.checked_add_days d c = .ok r ∧ IsDayShift d c r := by
  unfold Date.checked_add_days
  have hI : I32_MAX = 2147483647 := rfl
  by_cases h : c ≤ I32_MAX
  · rw [if_pos h, asI32_id (by omega) (by omega)]
    exact add_days_spec d c hd (by omega)
  · rw [if_neg h]
    exact ⟨none, rfl, shift_none d c hd (by omega)⟩

theorem checked_sub_days_spec (d : Date) (c : Int) (hd : DateInv d) (hc : 0 ≤ c ∧ c ≤ 18446744073709551615) :
    ∃ r, Date.checked_sub_days d c = .ok r ∧ IsDayShift d (-c) r := by
  unfold Date.checked_sub_days
  have hI : I32_MAX = 2147483647 := rfl
  by_cases h : c ≤ I32_MAX
  · rw [if_pos h, asI32_id (by omega) (by omega), ckI32_ok (by omega) (by omega)]
    exact add_days_spec d (-c) hd (by omega)
  · rw [if_neg h]
    exact ⟨none, rfl, shift_none d (-c) hd (by omega)⟩

/-- whole days of a duration: bounded by the `TimeDelta` range -/
theorem num_days_bound (δ : Delta) (hδ : DInv δ) :
    δ.num_days = wholeDays (ns δ) ∧ -106751991168 ≤ δ.num_days ∧ δ.num_days ≤ 106751991168 := by
  have h := (accessors_spec' δ hδ).2.2.2.2.2.2.2.1
  have hr := hδ.2.2
  simp only [nsInRange, NS_MAX] at hr
  refine ⟨h, ?_, ?_⟩ <;> (rw [h, tdiv_eq]; split <;> omega)

theorem date_add_signed_spec (d : Date) (δ : Delta) (hd : DateInv d) (hδ : DInv δ) :
    ∃ r, Date.checked_add_signed d δ = .ok r ∧ IsDayShift d (wholeDays (ns δ)) r := by
  obtain ⟨h1, h2, h3⟩ := num_days_bound δ hδ
  unfold Date.checked_add_signed
  dsimp only
  rw [← h1]
  have hI : I32_MAX = 2147483647 := rfl
  have hJ : I32_MIN = -2147483648 := rfl
  by_cases h : δ.num_days < I32_MIN ∨ δ.num_days > I32_MAX
  · rw [if_pos h]
    exact ⟨none, rfl, shift_none d _ hd (by omega)⟩
  · rw [if_neg h, asI32_id (by omega) (by omega)]
    exact add_days_spec d _ hd (by omega)

theorem date_sub_signed_spec (d : Date) (δ : Delta) (hd : DateInv d) (hδ : DInv δ) :
    ∃ r, Date.checked_sub_signed d δ = .ok r ∧ IsDayShift d (-(wholeDays (ns δ))) r := by
  obtain ⟨h1, h2, h3⟩ := num_days_bound δ hδ
  unfold Date.checked_sub_signed
  rw [← h1, ckI64_ok (by omega) (by omega)]
  dsimp only
  have hI : I32_MAX = 2147483647 := rfl
  have hJ : I32_MIN = -2147483648 := rfl
  by_cases h : -δ.num_days < I32_MIN ∨ -δ.num_days > I32_MAX
  · rw [if_pos h]
    exact ⟨none, rfl, shift_none d _ hd (by omega)⟩
  · rw [if_neg h, asI32_id (by omega) (by omega)]
    exact add_days_spec d _ hd (by omega)

/-- day number through the 400-year cycle position used by `signed_duration_since` -/
theorem dn_cycle (d : Date) (hd : DateInv d) :
    dayNumOf d = 146097 * (d.year / 400) + (Date.yo_to_cycle (d.year % 400).toNat d.ordinal.toNat : Nat) - 365 := by
  obtain ⟨_, ho1, ho2, hoc⟩ := inv_eq d hd
  unfold dayNumOf
  rw [← hoc]
  generalize d.ordinal.toNat = o at *
  generalize d.year = y at *
  have hm0 : 0 ≤ y % 400 := Int.emod_nonneg _ (by decide)
  have hm1 : y % 400 < 400 := Int.emod_lt_of_pos _ (by decide)
  obtain ⟨ym, hym⟩ := Int.eq_ofNat_of_zero_le hm0
  rw [hym]
  simp only [Int.toNat_natCast]
  have hcyc : ((Date.yo_to_cycle ym o : Nat) : Int) = (ym : Int) * 365 + leapsBefore ym + o - 1 := by
    unfold Date.yo_to_cycle
    rw [table_yd.2 ym (by omega)]
    omega
  unfold dayNumYo
  rw [dby_mod400, hym, dby_small ym (by omega), hcyc]
  omega

theorem date_diff_spec (a b : Date) (ha : DateInv a) (hb : DateInv b) :
    Date.signed_duration_since a b = .ok (ofNs ((dayNumOf a - dayNumOf b) * NS_PER_DAY)) ∧
    DInv (ofNs ((dayNumOf a - dayNumOf b) * NS_PER_DAY)) := by
  have ba := dn_bounds a ha
  have bb := dn_bounds b hb
  have ca := dn_cycle a ha
  have cb := dn_cycle b hb
  have hN : NS_PER_DAY = 86400000000000 := rfl
  have hr : nsInRange ((dayNumOf a - dayNumOf b) * 86400 * 1000000000) := by
    simp only [nsInRange, NS_MAX]; omega
  have e : (dayNumOf a - dayNumOf b) * NS_PER_DAY = (dayNumOf a - dayNumOf b) * 86400 * 1000000000 := by
    rw [hN]; omega
  rw [e]
  refine ⟨?_, (ofNs_spec' _ hr).1⟩
  unfold Date.signed_duration_since
  dsimp only
  have hdays : (a.year / 400 - b.year / 400) * 146097 +
      (((Date.yo_to_cycle (a.year % 400).toNat a.ordinal.toNat : Nat) : Int) -
        ((Date.yo_to_cycle (b.year % 400).toNat b.ordinal.toNat : Nat) : Int)) = dayNumOf a - dayNumOf b := by
    omega
  rw [hdays, ckI64_ok (by omega) (by omega)]
  dsimp only
  unfold Delta.try_days
  rw [try_unit_exact' SECS_PER_DAY _ (by right; right; right; left; rfl) (by omega)]
  have hS : SECS_PER_DAY = 86400 := rfl
  rw [hS, if_pos hr]

end Chrono.Proofs
