/-
  C04, stepping: the failure set of `checked_add_days / checked_sub_days / checked_add_months /
  checked_sub_months` measured against a rule that does not mention the implementation's filters:

      a step succeeds  iff  the stepped INSTANT lies in `MIN_UTC ..= MAX_UTC`
                       and  the stepped WALL CLOCK is a reading of the nominal range.

  The implementation's own conditions (`zoned_add_days`, `zoned_sub_days`, `zoned_months` of
  Proofs/ZonedStepL.lean: a one-sided filter plus the date validation of `NaiveDate::add_days` /
  `checked_add_months`) are proved equivalent to that rule for day steps with `n > 0`; for month
  steps the only difference is a leap-second representation in the last second of the range.
  Namespace `Chrono.Proofs.ZNR`.
-/
import Chrono.Proofs.ZonedStepL

namespace Chrono.Proofs.ZNR
open Chrono Chrono.M Chrono.Spec Chrono.Proofs Chrono.Proofs.ZN Chrono.Extracted

/-- arithmetic core: a wall clock `w = i + off` whose day number is `dl`, second of day `sod` -/
theorem add_core (i off dl sod f n : Int) (hw : (dl - 719163) * 86400 + sod = i + off)
    (hsod : 0 ≤ sod ∧ sod < 86400) (hoff : -86400 < off ∧ off < 86400)
    (hi : (-95746129 - 719163) * 86400 ≤ i ∧ i ≤ (95745399 - 719163) * 86400 + 86399) (hn : 0 < n) :
    ((-95746129 ≤ dl + n ∧ dl + n ≤ 95745399) ∧
      (i + n * 86400 < (95745399 - 719163) * 86400 + 86399 ∨
        (i + n * 86400 = (95745399 - 719163) * 86400 + 86399 ∧ f < 1000000000))) ↔
    ((((-95746129 - 719163) * 86400 ≤ i + n * 86400 ∧ i + n * 86400 ≤ (95745399 - 719163) * 86400 + 86399) ∧
        ¬ (i + n * 86400 = (95745399 - 719163) * 86400 + 86399 ∧ f ≥ 1000000000)) ∧
      ((-95746129 - 719163) * 86400 ≤ i + off + n * 86400 ∧
        i + off + n * 86400 ≤ (95745399 - 719163) * 86400 + 86399)) := by
  omega

theorem sub_core (i off dl sod f n : Int) (hw : (dl - 719163) * 86400 + sod = i + off)
    (hsod : 0 ≤ sod ∧ sod < 86400) (_hoff : -86400 < off ∧ off < 86400)
    (hi : (-95746129 - 719163) * 86400 ≤ i ∧ i ≤ (95745399 - 719163) * 86400 + 86399) (hn : 0 < n) :
    ((n = 0 ∨ (-95746129 ≤ dl - n ∧ dl - n ≤ 95745399)) ∧ (-95746129 - 719163) * 86400 ≤ i - n * 86400) ↔
    ((((-95746129 - 719163) * 86400 ≤ i - n * 86400 ∧ i - n * 86400 ≤ (95745399 - 719163) * 86400 + 86399) ∧
        ¬ (i - n * 86400 = (95745399 - 719163) * 86400 + 86399 ∧ f ≥ 1000000000)) ∧
      ((-95746129 - 719163) * 86400 ≤ i + off - n * 86400 ∧
        i + off - n * 86400 ≤ (95745399 - 719163) * 86400 + 86399)) := by
  omega

/-- facts about the wall clock `l` of `z` in the form the cores need -/
theorem wall_facts (z : Zoned) (hz : ZInv z) (l : NaiveDT) (hl : Zoned.overflowing_naive_local z = .ok l) :
    (dayNumOf l.date - 719163) * 86400 + l.time.secs = instSecs z.utc + z.off ∧
    (0 ≤ l.time.secs ∧ l.time.secs < 86400) ∧ (-86400 < z.off ∧ z.off < 86400) ∧
    ((-95746129 - 719163) * 86400 ≤ instSecs z.utc ∧ instSecs z.utc ≤ (95745399 - 719163) * 86400 + 86399) := by
  obtain ⟨hext, hls, _, _, _, _, hur⟩ := wall_date_cases z hz l hl
  obtain ⟨dm, dM, _⟩ := day_consts
  have ht := hext.2
  unfold TValid at ht
  have hoff := hz.2
  unfold OffValid at hoff
  unfold InRangeSecs SECS_MIN SECS_MAX at hur
  rw [dm, dM] at hur
  have hE : EPOCH_DAY = 719163 := rfl
  rw [hE] at hur
  have hdef : instSecs l = (dayNumOf l.date - 719163) * 86400 + l.time.secs := rfl
  unfold wallSecs at hls
  exact ⟨by omega, ⟨ht.1, ht.2.1⟩, hoff, hur⟩

/-- **day steps forwards, `n > 0`**: the implementation's success condition is the rule -/
theorem add_days_rule (z : Zoned) (hz : ZInv z) (l : NaiveDT) (hl : Zoned.overflowing_naive_local z = .ok l)
    (n : Int) (hn : 0 < n) :
    ((DAY_MIN ≤ dayNumOf l.date + n ∧ dayNumOf l.date + n ≤ DAY_MAX) ∧
      LeMaxUtc (instSecs z.utc + n * 86400) z.utc.time.frac) ↔
    (InUtcRange (instSecs z.utc + n * 86400) z.utc.time.frac ∧ InRangeSecs (wallSecs z + n * 86400)) := by
  obtain ⟨h1, h2, h3, h4⟩ := wall_facts z hz l hl
  obtain ⟨dm, dM, _⟩ := day_consts
  have hE : EPOCH_DAY = 719163 := rfl
  unfold LeMaxUtc InUtcRange InRangeSecs wallSecs SECS_MIN SECS_MAX
  rw [dm, dM, hE]
  exact add_core _ _ _ _ _ n h1 h2 h3 h4 hn

/-- **day steps backwards, `n > 0`** -/
theorem sub_days_rule (z : Zoned) (hz : ZInv z) (l : NaiveDT) (hl : Zoned.overflowing_naive_local z = .ok l)
    (n : Int) (hn : 0 < n) :
    ((n = 0 ∨ (DAY_MIN ≤ dayNumOf l.date - n ∧ dayNumOf l.date - n ≤ DAY_MAX)) ∧
      GeMinUtc (instSecs z.utc - n * 86400)) ↔
    (InUtcRange (instSecs z.utc - n * 86400) z.utc.time.frac ∧ InRangeSecs (wallSecs z - n * 86400)) := by
  obtain ⟨h1, h2, h3, h4⟩ := wall_facts z hz l hl
  obtain ⟨dm, dM, _⟩ := day_consts
  have hE : EPOCH_DAY = 719163 := rfl
  unfold GeMinUtc InUtcRange InRangeSecs wallSecs SECS_MIN SECS_MAX
  rw [dm, dM, hE]
  exact sub_core _ _ _ _ z.utc.time.frac n h1 h2 h3 h4 hn

/-- when can the two halves of the rule disagree: the stepped instant in `MIN_UTC ..= MAX_UTC` while
the stepped wall clock is outside the nominal range — only within a day of a range end and only
with the offset pointing outwards -/
theorem exception_shape (i off f : Int) (hoff : -86400 < off ∧ off < 86400)
    (hin : InUtcRange i f) (hout : ¬ InRangeSecs (i + off)) :
    (0 < off ∧ SECS_MAX - off < i ∧ SECS_MAX < i + off ∧ i + off ≤ SECS_MAX + 86399) ∨
    (off < 0 ∧ i < SECS_MIN - off ∧ i + off < SECS_MIN ∧ SECS_MIN - 86399 ≤ i + off) := by
  unfold InUtcRange InRangeSecs at *
  omega

/-- `¬ InRangeSecs` against `¬ InUtcRange`: they differ exactly on a leap-second representation in
the last second of the range -/
theorem inrange_vs_utc (s f : Int) :
    InRangeSecs s ↔ (InUtcRange s f ∨ (s = SECS_MAX ∧ f ≥ 1000000000)) := by
  obtain ⟨dm, dM, _⟩ := day_consts
  have hE : EPOCH_DAY = 719163 := rfl
  unfold InUtcRange InRangeSecs SECS_MIN SECS_MAX
  rw [dm, dM, hE]
  omega

end Chrono.Proofs.ZNR
