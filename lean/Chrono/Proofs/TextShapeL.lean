/-
  C09, audit gap L1: the specification's texts (`Spec.Text.yearText`, `dateText`, `fracText`,
  `timeText`, `offsetText`) have the shape the property statement describes (`Spec.Shape.*`,
  Spec/TextShapeSpec.lean).  Composed in Props/C09 with the `*_debug = wok (…Text …)` theorems, this
  gives the shape of what the writers print.
-/
import Chrono.Spec.TextShapeSpec
import Chrono.Proofs.TextFormsRtL
namespace Chrono.Proofs.TextShape
open Chrono Chrono.M Chrono.Proofs.TextForms Chrono.Proofs.RenderScan Chrono.Spec Chrono.Spec.Text
open Chrono.Spec.Shape

theorem digitsVal_eq (ds : List Nat) : digitsVal ds = valOf ds := rfl

theorem isDigits_of_all {ds : List Nat} (h : AllDigits ds) : IsDigits ds :=
  fun c hc => (isDigit_iff c).mp (h c hc)

theorem isDigits_decN (w n : Nat) : IsDigits (decN w n) := isDigits_of_all (decN_allDigits w n)

theorem digitsVal_decN (w n : Nat) (h : n < 10 ^ w) : digitsVal (decN w n) = n := by
  rw [digitsVal_eq, decN_val, Nat.mod_eq_of_lt h]

theorem twoDigits_decN (v : Nat) (h : v < 100) : TwoDigits v (decN 2 v) :=
  ⟨decN_length 2 v, isDigits_decN 2 v, digitsVal_decN 2 v (by omega)⟩

/-- the leading digit of a `w+1`-digit rendering -/
theorem decN_head (w n : Nat) : (decN (w + 1) n).head? = some (48 + n / 10 ^ w % 10) := by
  induction w generalizing n with
  | zero => simp [decN]
  | succ w ih =>
    have hne : decN (w + 1) (n / 10) ≠ [] := by
      intro h; have := decN_length (w + 1) (n / 10); rw [h] at this; simp at this
    have happ : ∀ (a b : List Nat), a ≠ [] → (a ++ b).head? = a.head? := by
      intro a b ha; cases a with
      | nil => exact absurd rfl ha
      | cons _ _ => rfl
    rw [show decN (w + 1 + 1) n = decN (w + 1) (n / 10) ++ [48 + n % 10] from rfl,
      happ _ _ hne, ih, Nat.div_div_eq_div_mul, Nat.pow_succ, Nat.mul_comm]

/-- the specification's year text has the stated shape -/
theorem yearShape_yearText (y : Int) (hy : -1000000 < y ∧ y < 1000000) : YearShape y (yearText y) := by
  unfold yearText
  by_cases h4 : 0 ≤ y ∧ y ≤ 9999
  · rw [if_pos h4]
    refine ⟨[], decN 4 y.toNat, rfl, isDigits_decN _ _, ?_, by rw [decN_length],
      by rw [decN_length]; intro h; omega, ?_, ?_, ?_⟩
    · rw [digitsVal_decN 4 _ (by omega)]; omega
    · exact ⟨fun h => (by cases h), fun h => by omega⟩
    · exact ⟨fun h => (by cases h), fun h => by omega⟩
    · exact ⟨fun _ => h4, fun _ => rfl⟩
  · rw [if_neg h4]
    obtain ⟨w4, w6, wlt⟩ := yearWidth_spec y.natAbs (by omega)
    have hhead : 4 < yearWidth y.natAbs → (decN (yearWidth y.natAbs) y.natAbs).head? ≠ some 48 := by
      intro hw
      unfold yearWidth at hw ⊢
      split
      · rename_i h; rw [if_pos h] at hw; omega
      · rename_i h
        split
        · rw [decN_head 4]; intro hh; injection hh with hh; norm_num at hh; omega
        · rw [decN_head 5]; intro hh; injection hh with hh; norm_num at hh; omega
    refine ⟨[if y < 0 then 45 else 43], decN (yearWidth y.natAbs) y.natAbs, rfl, isDigits_decN _ _,
      digitsVal_decN _ _ wlt, by rw [decN_length]; exact w4, by rw [decN_length]; exact hhead, ?_, ?_, ?_⟩
    · constructor
      · intro h; injection h with h _; split at h <;> omega
      · intro h; rw [if_pos h]
    · constructor
      · intro h; injection h with h _; split at h <;> omega
      · intro h; rw [if_neg (by omega)]
    · exact ⟨fun h => (by cases h), fun h => absurd h h4⟩

theorem dateShape_dateText (y : Int) (hy : -1000000 < y ∧ y < 1000000) (m d : Nat) (hm : m < 100)
    (hd : d < 100) : DateShape y m d (dateText y m d) :=
  ⟨yearText y, decN 2 m, decN 2 d, by simp only [dateText, List.append_assoc, List.cons_append, List.nil_append],
    yearShape_yearText y hy, twoDigits_decN m hm, twoDigits_decN d hd⟩

/-- the specification's fraction text has the stated shape -/
theorem fracShape_fracText (nano : Nat) (h : nano < 1000000000) : FracShape nano (fracText nano) := by
  unfold fracText
  by_cases h0 : nano = 0
  · subst h0; left; exact ⟨rfl, rfl⟩
  · right
    have hcases := fracDigits_cases nano
    have hk : fracDigits nano ≠ 0 := by rcases hcases with h' | h' | h' | h' <;> omega
    rw [if_neg hk]
    refine ⟨h0, fracDigits nano, _, rfl, isDigits_decN _ _, decN_length _ _, by
      rcases hcases with h' | h' | h' | h' <;> omega, ?_, ?_⟩
    · rcases hcases with h' | h' | h' | h'
      · omega
      · rw [h'.1, digitsVal_decN _ _ (by norm_num; omega)]; norm_num; omega
      · rw [h'.1, digitsVal_decN _ _ (by norm_num; omega)]; norm_num; omega
      · rw [h', digitsVal_decN _ _ (by norm_num; omega)]; norm_num
    · intro k' hk' hlt
      unfold fracDigits at hlt
      rcases hk' with rfl | rfl | rfl <;> norm_num <;> repeat' split at hlt
      all_goals omega

/-- the specification's time text has the stated shape -/
theorem timeShape_timeText (t : Time) (ht : TStrict t) : TimeShapeOf t (timeText t) := by
  obtain ⟨b1, b2, b3, b4⟩ := time_bounds t ht
  obtain ⟨⟨t0, t1, t2, t3⟩, hl⟩ := ht
  have e1 : (t.secs / 3600).toNat = (hourOf t).toNat := rfl
  have e2 : (t.secs / 60 % 60).toNat = (minuteOf t).toNat := rfl
  have e3 : (if t.frac ≥ 1000000000 then 60 else (t.secs % 60).toNat) = shownSecond t := by
    unfold shownSecond secondOf; split <;> omega
  have e4 : (if t.frac ≥ 1000000000 then (t.frac - 1000000000).toNat else t.frac.toNat) = shownNano t := by
    unfold shownNano; split <;> omega
  unfold TimeShapeOf
  rw [e1, e2, e3, e4]
  exact ⟨decN 2 (hourOf t).toNat, decN 2 (minuteOf t).toNat, decN 2 (shownSecond t), fracText (shownNano t),
    by simp only [timeText, List.append_assoc, List.cons_append, List.nil_append],
    twoDigits_decN _ (by omega), twoDigits_decN _ (by omega), twoDigits_decN _ (by omega),
    fracShape_fracText _ b4⟩

/-- the specification's offset text has the stated shape -/
theorem offsetShape_offsetText (off : Int) (h : -86400 < off ∧ off < 86400) :
    OffsetShape off (offsetText off) := by
  refine ⟨if off < 0 then 45 else 43, decN 2 (off.natAbs / 3600), decN 2 (off.natAbs / 60 % 60), ?_, ?_, ?_,
    twoDigits_decN _ (by omega), twoDigits_decN _ (by omega)⟩
  · simp only [offsetText, List.append_assoc, List.cons_append, List.nil_append]
  · split <;> omega
  · split <;> omega

end Chrono.Proofs.TextShape
