/-
  Helper lemmas for C11, part 8: a string of the grammar whose fields are OUTSIDE the setter ranges
  (day 0 or > 31, year > i32::MAX or not even an i64, hour > 23, minute > 59, second > 60) makes the
  scanner `Parse.parse_rfc2822` itself fail — stage by stage, the first out-of-range setter (or the
  overflowing `scan::number`) returns the error.  With `parse_rfc2822_complete` this removes the
  `SetterRanges` hypothesis from the Props theorems.
-/
import Chrono.Proofs.Rfc2822ScanL
namespace Chrono.Proofs.Rfc2822
open Chrono Chrono.M Chrono.Spec Chrono.Spec.Rfc2822 Chrono.M.Scan Chrono.M.Parse

/-! ### `scan::number` on digits that overflow an `i64` -/

theorem numberAux_overflow (ds rest : List Nat) (min : Nat) :
    ∀ (i : Nat) (n : Int), Digits ds → 0 ≤ n → n ≤ I64_MAX → valAcc n ds > I64_MAX →
      Scan.numberAux (ds ++ rest) i min none n = .error .outOfRange := by
  induction ds with
  | nil =>
    intro i n _ _ h1 h2
    simp only [valAcc, List.foldl_nil] at h2
    omega
  | cons d t ih =>
    intro i n hd hn h1 h2
    have hd0 : 48 ≤ d ∧ d ≤ 57 := hd d (by simp)
    have hdt : Digits t := fun b hb => hd b (by simp [hb])
    have hval : valAcc n (d :: t) = valAcc (n * 10 + ((d - 48 : Nat) : Int)) t := by
      simp [valAcc]
    rw [hval] at h2
    rw [List.cons_append, Scan.numberAux.eq_2, Scan.numberAux.step.eq_2]
    simp only [isDigit_of hd0, Bool.not_true, Bool.false_eq_true, if_false]
    by_cases hov : n * 10 + ((d - 48 : Nat) : Int) > I64_MAX
    · rw [if_pos hov]
    · rw [if_neg hov]
      exact ih (i + 1) _ hdt (by omega) (by omega) h2

theorem number_overflow (ds rest : List Nat) (min : Nat) (hd : Digits ds) (hmin : min ≤ ds.length)
    (hv : (decVal ds : Int) > I64_MAX) :
    Scan.number (ds ++ rest) min none = .error .outOfRange := by
  unfold Scan.number
  rw [if_neg (by simp only [List.length_append]; omega)]
  rw [← valAcc_zero] at hv
  exact numberAux_overflow ds rest min 0 0 hd (Int.le_refl _) (by unfold I64_MAX; omega) hv

/-- every zone of the specification denotes an offset an `i32` holds -/
theorem zone_off_i32 {zz : List Nat} {off : Int} (h : Zone zz off) :
    -2147483648 ≤ off ∧ off ≤ 2147483647 := by
  cases h with
  | num neg h1 h2 m1 m2 hh1 hh2 hm1 hm2 => cases neg <;> simp <;> omega
  | name _ nm hours hmem _ =>
    have : ∀ e ∈ zoneTable, -8 ≤ e.2 ∧ e.2 ≤ 0 := by decide
    have := this _ hmem
    simp only [] at this
    omega
  | military _ _ _ => omega

/-! ### the stages, failing -/

theorem secPart_err (p : Parsed) (w d tail : List Nat) (hw : Ws w) (hd : Digits d) (hl : d.length = 2)
    (hx : 60 < decVal d) :
    ∃ e, secPart p (w ++ (58 :: (d ++ tail))) = .error e := by
  unfold secPart
  rw [trimStart_ws hw _ (wsLen_head 58 _ (by omega) (by omega) (by omega))]
  simp only [Scan.char, if_true, number_two d _ hd hl, setField, Parsed.set_second, Parsed.inRange,
    bind, Except.bind]
  rw [if_neg (by omega)]
  exact ⟨_, rfl⟩

/-- the time fields are inside the setter ranges -/
def TimeOk (H M : Nat) (sec : Option Nat) : Prop := H ≤ 23 ∧ M ≤ 59 ∧ ∀ x, sec = some x → x ≤ 60

theorem timePart_err (p : Parsed) (w4 hh w5 w6 mm ss tail : List Nat) (sec : Option Nat)
    (hw4 : Ws1 w4) (hhd : Digits hh) (hhl : hh.length = 2) (hw5 : Ws w5) (hw6 : Ws w6)
    (hmd : Digits mm) (hml : mm.length = 2) (hs : Seconds ss sec)
    (hbad : ¬ TimeOk (decVal hh) (decVal mm) sec)
    (hp1 : p.hour_div_12 = none) (hp2 : p.hour_mod_12 = none) (hp3 : p.minute = none) :
    ∃ e, timePart p (w4 ++ (hh ++ (w5 ++ (58 :: (w6 ++ (mm ++ (ss ++ tail))))))) = .error e := by
  unfold timePart
  rw [space_ws hw4 _ (digits_head hhd (by omega) _)]
  by_cases hH : decVal hh ≤ 23
  · simp only [bind, Except.bind, number_two hh _ hhd hhl, setField, set_hour_fresh p _ hH hp1 hp2, Except.map]
    rw [trimStart_ws hw5 _ (wsLen_head 58 _ (by omega) (by omega) (by omega))]
    simp only [Scan.char, if_true]
    rw [trimStart_ws hw6 _ (digits_head hmd (by omega) _)]
    by_cases hM : decVal mm ≤ 59
    · simp only [number_two mm _ hmd hml, Parsed.set_minute, Parsed.inRange, bind, Except.bind, Parsed.setIf, hp3,
        pure, Except.pure]
      rw [if_pos ⟨by omega, by omega⟩]
      simp only []
      rcases hs with ⟨rfl, rfl⟩ | ⟨w, d, hw', hd, hdl, rfl, rfl⟩
      · exact absurd ⟨hH, hM, fun x hx => by cases hx⟩ hbad
      · have hx : 60 < decVal d := by
          apply Nat.lt_of_not_le
          intro hle
          exact hbad ⟨hH, hM, fun x hx => by injection hx with hx; omega⟩
        simp only [List.append_assoc, List.cons_append]
        exact secPart_err _ w d tail hw' hd hdl hx
    · simp only [number_two mm _ hmd hml, Parsed.set_minute, Parsed.inRange, bind, Except.bind]
      rw [if_neg (by omega)]
      exact ⟨_, rfl⟩
  · simp only [bind, Except.bind, number_two hh _ hhd hhl, setField, Parsed.set_hour, Parsed.inRange]
    rw [if_neg (by omega)]
    exact ⟨_, rfl⟩

theorem yearPart_err (p : Parsed) (w3 yy w4 hh w5 w6 mm ss tail : List Nat) (sec : Option Nat)
    (hw3 : Ws1 w3) (hyd : Digits yy) (hyl : 2 ≤ yy.length)
    (hw4 : Ws1 w4) (hhd : Digits hh) (hhl : hh.length = 2) (hw5 : Ws w5) (hw6 : Ws w6)
    (hmd : Digits mm) (hml : mm.length = 2) (hs : Seconds ss sec)
    (hbad : ¬ (yearOf yy ≤ 2147483647 ∧ TimeOk (decVal hh) (decVal mm) sec))
    (hp0 : p.year = none)
    (hp1 : p.hour_div_12 = none) (hp2 : p.hour_mod_12 = none) (hp3 : p.minute = none) :
    ∃ e, yearPart p (w3 ++ (yy ++ (w4 ++ (hh ++ (w5 ++ (58 :: (w6 ++ (mm ++ (ss ++ tail))))))))) = .error e := by
  have hge := yearOf_ge yy
  obtain ⟨c, t, hct, hcd, _⟩ := ws1_head hw4 (hh ++ (w5 ++ (58 :: (w6 ++ (mm ++ (ss ++ tail))))))
  unfold yearPart
  rw [space_ws hw3 _ (digits_head hyd (by omega) _)]
  by_cases h64 : (decVal yy : Int) ≤ I64_MAX
  · have hnum := number_digits yy _ 2 none hyd hyl (by intro m hm; cases hm)
      (Or.inr (Or.inr ⟨c, t, hct, hcd⟩)) h64
    simp only [bind, Except.bind, hnum, List.length_append, Nat.add_sub_cancel]
    rw [year_rule_eq yy hyd]
    by_cases hY : yearOf yy ≤ 2147483647
    · have h32 : Parsed.toI32 (yearOf yy) = .ok (yearOf yy) :=
        (Chrono.Proofs.ParsedRes.toI32_ok _ _).mpr ⟨⟨by omega, by omega⟩, rfl⟩
      simp only [Parsed.set_year, h32, bind, Except.bind, hp0, Parsed.setIf, pure, Except.pure]
      exact timePart_err _ w4 hh w5 w6 mm ss tail sec hw4 hhd hhl hw5 hw6 hmd hml hs
        (fun h => hbad ⟨hY, h⟩) hp1 hp2 hp3
    · have h32 : Parsed.toI32 (yearOf yy) = .error .outOfRange := by
        unfold Parsed.toI32 inI32
        have h2 : I32_MAX = 2147483647 := rfl
        rw [if_neg]
        simp only [Bool.and_eq_true, decide_eq_true_eq]
        omega
      simp only [Parsed.set_year, h32, bind, Except.bind]
      exact ⟨_, rfl⟩
  · have hnum := number_overflow yy (w4 ++ (hh ++ (w5 ++ (58 :: (w6 ++ (mm ++ (ss ++ tail))))))) 2 hyd hyl (by omega)
    simp only [bind, Except.bind, hnum]
    exact ⟨_, rfl⟩

theorem datePart_err (p : Parsed) (w1 dd w2 mn w3 yy w4 hh w5 w6 mm ss tail : List Nat)
    (m : Nat) (sec : Option Nat)
    (hw1 : Ws w1) (hdd : Digits dd) (hdl : dd.length = 1 ∨ dd.length = 2) (hw2 : Ws1 w2)
    (hmn : MonthName mn m)
    (hw3 : Ws1 w3) (hyd : Digits yy) (hyl : 2 ≤ yy.length)
    (hw4 : Ws1 w4) (hhd : Digits hh) (hhl : hh.length = 2) (hw5 : Ws w5) (hw6 : Ws w6)
    (hmd : Digits mm) (hml : mm.length = 2) (hs : Seconds ss sec)
    (hbad : ¬ ((1 ≤ decVal dd ∧ decVal dd ≤ 31) ∧ yearOf yy ≤ 2147483647 ∧ TimeOk (decVal hh) (decVal mm) sec))
    (hq1 : p.day = none) (hq2 : p.month = none) (hp0 : p.year = none)
    (hp1 : p.hour_div_12 = none) (hp2 : p.hour_mod_12 = none) (hp3 : p.minute = none) :
    ∃ e, datePart p (w1 ++ (dd ++ (w2 ++ (mn ++ (w3 ++ (yy ++ (w4 ++ (hh ++ (w5 ++ (58 :: (w6 ++ (mm ++ (ss ++
        tail))))))))))))) = .error e := by
  obtain ⟨i, hi, hcase, rfl⟩ := hmn
  obtain ⟨_, _, _, _, _, t5, _⟩ := name_tables
  have hal := caseOf_alpha (t5 i hi).2 hcase
  obtain ⟨a, b, c, hmn3, _⟩ := caseOf3 _ mn (t5 i hi) hcase
  have hmnhead : ∀ r, Scan.wsLen (mn ++ r) = 0 := by
    intro r; subst hmn3; exact alpha_head a _ (hal a (by simp))
  have hdlen : 0 < dd.length := by omega
  have hd99 : decVal dd ≤ 99 := by
    rcases hdl with h | h
    · match dd, h with
      | [x], _ =>
        have := hdd x (by simp)
        simp only [decVal, List.foldl_cons, List.foldl_nil]; omega
    · exact decVal_two dd hdd h
  obtain ⟨c2, t2, hct, hcd, _⟩ := ws1_head hw2 (mn ++ (w3 ++ (yy ++ (w4 ++ (hh ++ (w5 ++ (58 :: (w6 ++ (mm ++ (ss ++
        tail))))))))))
  have hnum := number_digits dd _ 1 (some 2) hdd (by omega) (by intro x hx; injection hx with hx; omega)
    (by
      rcases hdl with h | h
      · exact Or.inr (Or.inr ⟨c2, t2, hct, hcd⟩)
      · exact Or.inl (by rw [h])) (by unfold I64_MAX; omega)
  unfold datePart
  simp only []
  rw [trimStart_ws hw1 _ (digits_head hdd hdlen _)]
  by_cases hD : 1 ≤ decVal dd ∧ decVal dd ≤ 31
  · simp only [bind, Except.bind, hnum, setField, Parsed.set_day, Parsed.inRange, hq1, Parsed.setIf, pure, Except.pure,
      Except.map]
    rw [if_pos ⟨by omega, by omega⟩]
    simp only []
    rw [space_ws hw2 _ (hmnhead _)]
    simp only []
    rw [short_month_name i hi mn _ hcase]
    simp only [Parsed.set_month, Parsed.inRange, bind, Except.bind, hq2, Parsed.setIf, pure, Except.pure]
    rw [if_pos ⟨by omega, by omega⟩]
    simp only []
    exact yearPart_err _ w3 yy w4 hh w5 w6 mm ss tail sec hw3 hyd hyl hw4 hhd hhl hw5 hw6 hmd hml hs
      (fun h => hbad ⟨hD, h⟩) hp0 hp1 hp2 hp3
  · simp only [bind, Except.bind, hnum, setField, Parsed.set_day, Parsed.inRange]
    rw [if_neg (by omega)]
    exact ⟨_, rfl⟩

/-- **the scanner rejects what is outside the setter ranges**: a string of the grammar whose fields
are not all inside the setter ranges makes `parse_rfc2822` return an error -/
theorem parse_rfc2822_rejects (s : List Nat) (f : Fields) (h : Rfc2822 s f) (hr : ¬ SetterRanges f) :
    ∃ e, Parse.parse_rfc2822 Parsed.new s = .error e := by
  obtain ⟨w0, dn, w1, dd, w2, mn, w3, yy, w4, hh, w5, w6, mm, ss, w7, zz, cc,
    hw0, hdn, hw1, hdd, hdl, hdv, hw2, hmn, hw3, hyd, hyl, hyv, hw4, hhd, hhl, hhv, hw5, hw6, hmd, hml, hmv,
    hs, hw7, hz, hc, rfl⟩ := h
  have hoff := zone_off_i32 hz
  have hbad : ¬ ((1 ≤ decVal dd ∧ decVal dd ≤ 31) ∧ yearOf yy ≤ 2147483647 ∧ TimeOk (decVal hh) (decVal mm) f.sec) := by
    rintro ⟨⟨d1, d2⟩, hy, h1, h2, h3⟩
    apply hr
    refine ⟨by omega, by omega, by omega, by omega, by omega, ?_, hoff.1, hoff.2⟩
    unfold secOf
    cases hsec : f.sec with
    | none => simp
    | some x => simpa using h3 x hsec
  have hdlen : 0 < dd.length := by omega
  rw [parse_eq]
  unfold parseCopy
  simp only []
  have key := fun (p : Parsed) (w : List Nat) (hw : Ws w) (a1 a2 a3 a4 a5 a6) =>
    datePart_err p w dd w2 mn w3 yy w4 hh w5 w6 mm ss (w7 ++ (zz ++ cc)) f.month f.sec hw hdd hdl hw2 hmn hw3 hyd hyl
      hw4 hhd hhl hw5 hw6 hmd hml hs hbad a1 a2 a3 a4 a5 a6
  rcases hdn with ⟨rfl, hwd⟩ | ⟨i, v, hi, hcase, rfl, hwd⟩
  · simp only [List.nil_append]
    rw [← List.append_assoc, trimStart_ws (Ws.append hw0 hw1) _ (digits_head hdd hdlen _)]
    cases dd with
    | nil => simp at hdlen
    | cons d t =>
      obtain ⟨e, he⟩ := short_weekday_digit d (t ++ (w2 ++ (mn ++ (w3 ++ (yy ++ (w4 ++ (hh ++ (w5 ++ (58 :: (w6 ++
        (mm ++ (ss ++ (w7 ++ (zz ++ cc)))))))))))))) (hdd d (by simp))
      simp only [List.cons_append] at he ⊢
      rw [he]
      simp only [bind, Except.bind]
      have := key Parsed.new [] Ws.nil rfl rfl rfl rfl rfl rfl
      simp only [List.nil_append, List.cons_append] at this
      exact this
  · obtain ⟨_, _, _, _, t5, _, _⟩ := name_tables
    have hal := caseOf_alpha (t5 i hi).2 hcase
    obtain ⟨a, b, c, hv3, _⟩ := caseOf3 _ v (t5 i hi) hcase
    obtain ⟨w, hwi, hsw⟩ := short_weekday_name i hi v
      (44 :: (w1 ++ (dd ++ (w2 ++ (mn ++ (w3 ++ (yy ++ (w4 ++ (hh ++ (w5 ++ (58 :: (w6 ++
        (mm ++ (ss ++ (w7 ++ (zz ++ cc)))))))))))))))) hcase
    simp only [List.append_assoc, List.cons_append, List.nil_append]
    rw [trimStart_ws hw0 _ (by subst hv3; exact alpha_head a _ (hal a (by simp)))]
    rw [hsw]
    simp only [bind, Except.bind, Parsed.set_weekday, Parsed.setIf, Parsed.new, pure, Except.pure, Except.map]
    exact key { weekday := some w } w1 hw1 rfl rfl rfl rfl rfl rfl

/-- the field record determines the fields (hours below 24 on both sides) -/
theorem parsedOf_inj (f g : Fields) (hf : f.hour ≤ 23) (hg : g.hour ≤ 23) (h : parsedOf f = parsedOf g) : f = g := by
  obtain ⟨a1, a2, a3, a4, a5, a6, a7, a8⟩ := f
  obtain ⟨b1, b2, b3, b4, b5, b6, b7, b8⟩ := g
  have e1 := congrArg Parsed.weekday h
  have e2 := congrArg Parsed.day h
  have e3 := congrArg Parsed.month h
  have e4 := congrArg Parsed.year h
  have e5 := congrArg Parsed.hour_div_12 h
  have e5' := congrArg Parsed.hour_mod_12 h
  have e6 := congrArg Parsed.minute h
  have e7 := congrArg Parsed.second h
  have e8 := congrArg Parsed.offset h
  simp only [parsedOf, Option.some.injEq] at e1 e2 e3 e4 e5 e5' e6 e7 e8
  simp only [] at hf hg
  have e7' : a7 = b7 := by
    cases a7 <;> cases b7 <;> simp at e7 ⊢
    omega
  simp only [Fields.mk.injEq]
  exact ⟨e1, by omega, by omega, e4, by omega, by omega, e7', e8⟩

end Chrono.Proofs.Rfc2822
