/-
  C15, byte level: every scanning primitive of src/format/scan.rs and every slicing step of
  src/format/parse.rs consumes a whole number of characters of a well-formed UTF-8 input — matched ASCII
  bytes, whole white-space characters, U+2212, a well-formed literal, or bytes up to and including an ASCII
  byte — so the byte offset at which Rust slices (`&s[k..]`) is a char boundary and the slice cannot
  panic; the rest handed to the next primitive is again well-formed UTF-8.
  Namespace `Chrono.Proofs.ScanBoundary`.
-/
import Chrono.Proofs.Utf8L
import Chrono.Proofs.Rfc2822InvL
import Chrono.Proofs.Rfc3339L
import Chrono.Model.Parse

namespace Chrono.Proofs.ScanBoundary
open Chrono Chrono.M Chrono.M.Scan Chrono.M.Parse Chrono.M.Tz Chrono.Spec.Utf8 Chrono.Proofs.Utf8
open Chrono.Spec.Rfc2822 Chrono.Proofs.Rfc2822

/-! ### white space, colons, digits -/

theorem ws_valid : ∀ w ∈ WS, validUtf8 w = true := by decide

theorem Ws_valid (w : List Nat) (h : Ws w) : validUtf8 w = true := by
  induction h with
  | nil => rfl
  | cons w r hw _ ih => exact valid_append _ w r (Nat.le_refl _) (ws_valid w hw) ih

theorem trimStart_bs (s : List Nat) : BoundarySuffix s (trimStart s) := by
  obtain ⟨w, hw, hs, _⟩ := trimStart_inv s
  exact ⟨w, hs, Ws_valid w hw⟩

theorem space_bs (s r : List Nat) (h : space s = .ok r) : BoundarySuffix s r := by
  obtain ⟨w, ⟨x, y, hx, hy, rfl⟩, hs, _⟩ := space_inv s r h
  exact ⟨x ++ y, hs, Ws_valid _ (Ws.cons x y hx hy)⟩

theorem char_bs (s r : List Nat) (c : Nat) (hc : c < 128) (h : Scan.char s c = .ok r) : BoundarySuffix s r := by
  rw [char_inv s r c h]; exact bs_cons c r hc

theorem wsLen_bs (s : List Nat) (h : wsLen s ≠ 0) : BoundarySuffix s (s.drop (wsLen s)) := by
  obtain ⟨w, r, hw, hs, hl⟩ := wsLen_inv s h
  rw [hl, hs, List.drop_left]
  exact ⟨w, rfl, ws_valid w hw⟩

theorem colonOrSpaceAux_bs : ∀ (fuel : Nat) (s : List Nat), BoundarySuffix s (colonOrSpaceAux fuel s) := by
  intro fuel
  induction fuel with
  | zero => intro s; exact bs_refl s
  | succ f ih =>
    intro s
    unfold colonOrSpaceAux
    split
    · rename_i rest
      exact bs_trans (bs_cons 58 rest (by omega)) (ih rest)
    · simp only
      split
      · exact bs_refl s
      · rename_i h0
        exact bs_trans (wsLen_bs s h0) (ih _)

theorem colon_or_space_bs (s : List Nat) : BoundarySuffix s (colon_or_space s) := colonOrSpaceAux_bs _ s

theorem digits_lt (ds : List Nat) (h : Digits ds) : ∀ b ∈ ds, b < 128 := by
  intro b hb; have := h b hb; omega

theorem numberAux_bs (s : List Nat) (i min : Nat) (max : Option Nat) (n : Int) (rest : List Nat) (v : Int)
    (hm : ∀ m, max = some m → i ≤ m ∧ min ≤ m) (h : numberAux s i min max n = .ok (rest, v)) :
    BoundarySuffix s rest := by
  obtain ⟨ds, hd, hs, _⟩ := numberAux_inv s i min max n rest v hm h
  rw [hs]; exact bs_ascii ds rest (digits_lt ds hd)

/-- `scan::number` (called with `min ≤ max`, asserted in the Rust code) -/
theorem number_bs (s : List Nat) (min : Nat) (max : Option Nat) (rest : List Nat) (v : Int)
    (hmm : ∀ m, max = some m → min ≤ m) (h : number s min max = .ok (rest, v)) : BoundarySuffix s rest := by
  obtain ⟨ds, hd, hs, _⟩ := number_inv s min max rest v hmm h
  rw [hs]; exact bs_ascii ds rest (digits_lt ds hd)

theorem dropDigits_bs : ∀ s : List Nat, BoundarySuffix s (dropDigits s) := by
  intro s
  induction s with
  | nil => exact bs_refl []
  | cons b t ih =>
    unfold dropDigits
    split
    · rename_i hb
      have := digit_of_isDigit hb
      exact bs_trans (bs_cons b t (by omega)) ih
    · exact bs_refl _

theorem nanosecond_bs (s rest : List Nat) (v : Int) (h : nanosecond s = .ok (rest, v)) : BoundarySuffix s rest := by
  unfold nanosecond at h
  split at h
  · cases h
  · rename_i r1 v1 hn
    simp only at h
    split at h
    · cases h
    · injection h with h; injection h with h1 _
      rw [← h1]
      exact bs_trans (number_bs s 1 (some 9) r1 v1 (by intro m hm; injection hm with hm; omega) hn) (dropDigits_bs r1)

theorem nanosecond_fixed_bs (s : List Nat) (d : Nat) (rest : List Nat) (v : Int)
    (h : nanosecond_fixed s d = .ok (rest, v)) : BoundarySuffix s rest := by
  unfold nanosecond_fixed at h
  split at h
  · cases h
  · rename_i r1 v1 hn
    simp only at h
    split at h
    · cases h
    · injection h with h; injection h with h1 _
      rw [← h1]
      exact number_bs s d (some d) r1 v1 (by intro m hm; injection hm with hm; omega) hn

/-! ### names -/

theorem getD_oob (l : List (List Nat)) (i : Nat) (h : l.length ≤ i) : l.getD i [] = [] := by
  rw [List.getD_eq_getElem?_getD, List.getElem?_eq_none h]; rfl

theorem lower_lt (b : Nat) (h : lower b < 128) : b < 128 := by
  unfold lower at h; split at h <;> omega

theorem lowerB_lt (b : Nat) (h : lowerB b < 128) : b < 128 := by
  unfold lowerB at h; split at h <;> omega

theorem caseOf_ascii (word v : List Nat) (hw : ∀ b ∈ word, b < 128) (h : CaseOf word v) : ∀ b ∈ v, b < 128 := by
  intro b hb
  unfold CaseOf at h
  have : lower b ∈ word := by rw [← h]; exact List.mem_map_of_mem hb
  exact lower_lt b (hw _ this)

theorem names_ascii : (∀ i, ∀ b ∈ dayNames.getD i [], b < 128) ∧ (∀ i, ∀ b ∈ monthNames.getD i [], b < 128) := by
  constructor
  · intro i
    by_cases hi : i < 7
    · revert i; decide
    · rw [getD_oob _ _ (by simp [dayNames]; omega)]; intro b hb; cases hb
  · intro i
    by_cases hi : i < 12
    · revert i; decide
    · rw [getD_oob _ _ (by simp [monthNames]; omega)]; intro b hb; cases hb

theorem short_weekday_bs (s rest : List Nat) (w : Weekday) (h : short_weekday s = .ok (rest, w)) :
    BoundarySuffix s rest := by
  obtain ⟨i, v, _, hc, hs, _⟩ := short_weekday_inv s rest w h
  rw [hs]; exact bs_ascii v rest (caseOf_ascii _ v (names_ascii.1 i) hc)

theorem short_month0_bs (s rest : List Nat) (i : Nat) (h : short_month0 s = .ok (rest, i)) :
    BoundarySuffix s rest := by
  obtain ⟨_, v, hc, hs⟩ := short_month0_inv s rest i h
  rw [hs]; exact bs_ascii v rest (caseOf_ascii _ v (names_ascii.2 i) hc)

theorem eatSuffix_bs (s suffix : List Nat) (hs : ∀ b ∈ suffix, b < 128) : BoundarySuffix s (eatSuffix s suffix) := by
  unfold eatSuffix
  split
  · rename_i hc
    have hsplit : s = s.take suffix.length ++ s.drop suffix.length := (List.take_append_drop _ _).symm
    refine ⟨s.take suffix.length, hsplit, valid_ascii _ ?_⟩
    intro b hb
    have hm : lowerB b ∈ lowerS suffix := by rw [← hc.2]; exact List.mem_map_of_mem hb
    obtain ⟨x, hx, hxe⟩ := List.mem_map.mp hm
    have hxl := hs x hx
    refine lowerB_lt b ?_
    rw [← hxe]
    unfold lowerB; split <;> omega
  · exact bs_refl s

theorem suffix_tables_ascii :
    (∀ i, ∀ b ∈ Extracted.LONG_MONTH_SUFFIXES.getD i [], b < 128) ∧
    (∀ i, ∀ b ∈ Extracted.LONG_WEEKDAY_SUFFIXES.getD i [], b < 128) := by
  constructor
  · intro i
    by_cases hi : i < 12
    · revert i; decide
    · rw [getD_oob _ _ (by simp [Extracted.LONG_MONTH_SUFFIXES]; omega)]; intro b hb; cases hb
  · intro i
    by_cases hi : i < 7
    · revert i; decide
    · rw [getD_oob _ _ (by simp [Extracted.LONG_WEEKDAY_SUFFIXES]; omega)]; intro b hb; cases hb

theorem short_or_long_month0_bs (s rest : List Nat) (i : Nat) (h : short_or_long_month0 s = .ok (rest, i)) :
    BoundarySuffix s rest := by
  unfold short_or_long_month0 at h
  split at h
  · rename_i r j hj
    injection h with h; injection h with h1 _
    rw [← h1]
    exact bs_trans (short_month0_bs s r j hj) (eatSuffix_bs r _ (suffix_tables_ascii.1 j))
  · cases h

theorem short_or_long_weekday_bs (s rest : List Nat) (w : Weekday) (h : short_or_long_weekday s = .ok (rest, w)) :
    BoundarySuffix s rest := by
  unfold short_or_long_weekday at h
  split at h
  · rename_i r j hj
    injection h with h; injection h with h1 _
    rw [← h1]
    exact bs_trans (short_weekday_bs s r j hj) (eatSuffix_bs r _ (suffix_tables_ascii.2 _))
  · cases h

/-! ### offsets -/

/-- the stages of `scan::timezone_offset`, named -/
def tzZulu (s : List Nat) (allow_zulu : Bool) : Option (List Nat) :=
  if allow_zulu then match s with
    | 90 :: rest => some rest | 122 :: rest => some rest | _ => none
  else none
def tzSign (s : List Nat) (allow_tz_minus_sign : Bool) : PRes (List Nat × Bool) :=
  match s with
  | 43 :: rest => .ok (rest, false)
  | 45 :: rest => .ok (rest, true)
  | 226 :: 136 :: 146 :: rest => if allow_tz_minus_sign then .ok (rest, true) else .error .invalid
  | _ :: _ => .error .invalid
  | [] => .error .tooShort
def tzMins (s : List Nat) (allow_missing_minutes : Bool) : PRes Int :=
  match s with
  | m1 :: m2 :: _ =>
    if 48 ≤ m1 ∧ m1 ≤ 53 ∧ Scan.isDigit m2 then .ok (((m1 - 48) * 10 + (m2 - 48) : Nat) : Int)
    else if 54 ≤ m1 ∧ m1 ≤ 57 ∧ Scan.isDigit m2 then .error .outOfRange
    else .error .invalid
  | _ => if allow_missing_minutes then .ok 0 else .error .tooShort
def tzRest (s : List Nat) : PRes (List Nat) :=
  if s.length ≥ 2 then .ok (s.drop 2) else if s.length = 0 then .ok s else .error .tooShort

theorem timezone_offset_eq (s : List Nat) (cm : ColonMode) (z mm ms : Bool) :
    timezone_offset s cm z mm ms =
      match tzZulu s z with
      | some rest => .ok (rest, 0)
      | none =>
        match tzSign s ms with
        | .error e => .error e
        | .ok (s, negative) =>
          match s with
          | h1 :: h2 :: s =>
            if Scan.isDigit h1 && Scan.isDigit h2 then
              match consumeColon cm s with
              | .error e => .error e
              | .ok s =>
                match tzMins s mm with
                | .error e => .error e
                | .ok minutes =>
                  match tzRest s with
                  | .error e => .error e
                  | .ok s' =>
                    .ok (s', if negative
                      then -((((h1 - 48) * 10 + (h2 - 48) : Nat) : Int) * 3600 + minutes * 60)
                      else (((h1 - 48) * 10 + (h2 - 48) : Nat) : Int) * 3600 + minutes * 60)
            else .error .invalid
          | _ => .error .tooShort := rfl

theorem tzZulu_bs (s : List Nat) (z : Bool) (r : List Nat) (h : tzZulu s z = some r) : BoundarySuffix s r := by
  unfold tzZulu at h
  split at h
  · split at h
    · injection h with h; subst h; exact bs_cons 90 _ (by omega)
    · injection h with h; subst h; exact bs_cons 122 _ (by omega)
    · cases h
  · cases h

theorem minus_sign_valid : validUtf8 [226, 136, 146] = true := by decide

theorem tzSign_bs (s : List Nat) (ms : Bool) (r : List Nat) (neg : Bool) (h : tzSign s ms = .ok (r, neg)) :
    BoundarySuffix s r := by
  unfold tzSign at h
  split at h
  · injection h with h; injection h with h _; subst h; exact bs_cons 43 _ (by omega)
  · injection h with h; injection h with h _; subst h; exact bs_cons 45 _ (by omega)
  · split at h
    · injection h with h; injection h with h _; subst h
      exact ⟨[226, 136, 146], rfl, minus_sign_valid⟩
    · cases h
  · cases h
  · cases h

theorem consumeColon_bs (cm : ColonMode) (s r : List Nat) (h : consumeColon cm s = .ok r) : BoundarySuffix s r := by
  cases cm
  · exact char_bs s r 58 (by omega) h
  · injection h with h; subst h; exact colon_or_space_bs s
  · injection h with h; subst h; exact bs_refl s

theorem tzRest_bs (s : List Nat) (mm : Bool) (v : Int) (r : List Nat) (hm : tzMins s mm = .ok v)
    (h : tzRest s = .ok r) : BoundarySuffix s r := by
  unfold tzRest at h
  split at h
  · rename_i hl
    injection h with h; subst h
    match s, hl, hm with
    | m1 :: m2 :: t, _, hm =>
      unfold tzMins at hm
      simp only at hm
      split at hm
      · rename_i hd
        have := digit_of_isDigit hd.2.2
        exact bs_ascii [m1, m2] t (by intro b hb; simp at hb; rcases hb with rfl | rfl <;> omega)
      · split at hm <;> cases hm
  · split at h
    · injection h with h; subst h; exact bs_refl _
    · cases h

/-- `scan::timezone_offset`, every colon mode and every flag combination -/
theorem timezone_offset_bs (s : List Nat) (cm : ColonMode) (z mm ms : Bool) (rest : List Nat) (off : Int)
    (h : timezone_offset s cm z mm ms = .ok (rest, off)) : BoundarySuffix s rest := by
  rw [timezone_offset_eq] at h
  split at h
  · rename_i r hz
    injection h with h; injection h with h _; subst h
    exact tzZulu_bs s z _ hz
  · split at h
    · cases h
    · rename_i s1 neg hs
      have b1 := tzSign_bs s ms s1 neg hs
      split at h
      · rename_i h1 h2 s2
        split at h
        · rename_i hd
          simp only [Bool.and_eq_true] at hd
          have d1 := digit_of_isDigit hd.1
          have d2 := digit_of_isDigit hd.2
          have b2 : BoundarySuffix (h1 :: h2 :: s2) s2 :=
            bs_ascii [h1, h2] s2 (by intro b hb; simp at hb; rcases hb with rfl | rfl <;> omega)
          split at h
          · cases h
          · rename_i s3 hc
            have b3 := consumeColon_bs cm s2 s3 hc
            split at h
            · cases h
            · rename_i mins hmin
              split at h
              · cases h
              · rename_i s4 hr
                injection h with h; injection h with h _; subst h
                exact bs_trans b1 (bs_trans b2 (bs_trans b3 (tzRest_bs s3 mm mins _ hmin hr)))
        · cases h
      · cases h

theorem takeAlpha_ascii (s : List Nat) : ∀ b ∈ (takeAlpha s).1, b < 128 := by
  intro b hb
  have := (takeAlpha_inv s).2 b hb
  unfold Spec.Rfc2822.isAlpha at this; omega

/-- `scan::timezone_offset_2822` -/
theorem timezone_offset_2822_bs (s rest : List Nat) (off : Int) (h : timezone_offset_2822 s = .ok (rest, off)) :
    BoundarySuffix s rest := by
  have hsplit := (takeAlpha_inv s).1
  have hasc := takeAlpha_ascii s
  unfold timezone_offset_2822 at h
  cases hta : takeAlpha s with
  | mk name r0 =>
    rw [hta] at h hsplit hasc
    simp only at h hsplit hasc
    have hb : BoundarySuffix s r0 := by rw [hsplit]; exact bs_ascii name r0 hasc
    split at h
    · repeat' split at h
      all_goals first
        | (injection h with h; injection h with h _; subst h; exact hb)
        | cases h
    · exact timezone_offset_bs s _ _ _ _ rest off h

/-! ### comments -/

/-- `scan::comment_2822`: the slice is taken right after the closing `)` — an ASCII byte — of a
well-formed input; the comment text before it may contain any characters -/
theorem comment_2822_bs (s rest : List Nat) (hv : validUtf8 s = true) (h : comment_2822 s = .ok rest) :
    BoundarySuffix s rest := by
  obtain ⟨w, a, _, _, hs⟩ := comment_inv s rest h
  have e : s = (w ++ 40 :: a) ++ 41 :: rest := by rw [hs]; simp
  refine ⟨(w ++ 40 :: a) ++ [41], by rw [e]; simp, ?_⟩
  rw [e] at hv
  exact valid_upto_ascii _ (w ++ 40 :: a) 41 rest (Nat.le_refl _) hv (by omega)

theorem commentsAux_bs : ∀ (fuel : Nat) (s : List Nat), validUtf8 s = true → BoundarySuffix s (commentsAux fuel s) := by
  intro fuel
  induction fuel with
  | zero => intro s _; exact bs_refl s
  | succ f ih =>
    intro s hv
    unfold commentsAux
    split
    · rename_i s' hc
      have b := comment_2822_bs s s' hv hc
      exact bs_trans b (ih s' (bs_valid_rest hv b))
    · exact bs_refl s

/-! ### `trim_start_matches(|c| !c.is_whitespace())`: whole characters -/

theorem drop_char_bs (b : Nat) (t : List Nat) (hv : validUtf8 (b :: t) = true) :
    BoundarySuffix (b :: t) ((b :: t).drop (charLen b)) := by
  obtain ⟨c, t', he, hc, _⟩ := (valid_cons_iff (b :: t) (by simp)).mp hv
  obtain ⟨b0, tl, hce, hl⟩ := isChar_len c hc
  have hb : b0 = b := by rw [hce] at he; injection he with he _; exact he.symm
  subst hb
  have : charLen b0 = c.length := by rw [hl]; rfl
  rw [this, he, List.drop_left]
  refine ⟨c, rfl, ?_⟩
  have := valid_char_append c [] hc
  rw [List.append_nil] at this
  rw [this]; rfl

theorem skipNonWsAux_bs : ∀ (fuel : Nat) (s : List Nat), validUtf8 s = true → BoundarySuffix s (skipNonWsAux fuel s) := by
  intro fuel
  induction fuel with
  | zero => intro s _; exact bs_refl s
  | succ f ih =>
    intro s hv
    unfold skipNonWsAux
    split
    · exact bs_refl _
    · rename_i b t
      split
      · exact bs_refl _
      · have b1 := drop_char_bs b t hv
        exact bs_trans b1 (ih _ (bs_valid_rest hv b1))

theorem skipNonWs_bs (s : List Nat) (hv : validUtf8 s = true) : BoundarySuffix s (skipNonWs s) :=
  skipNonWsAux_bs _ s hv

/-! ### src/format/parse.rs -/

theorem numericSpec_width (n : Numeric) : ∀ m, (numericSpec n).1 = some m → 1 ≤ m := by
  cases n <;> (intro m hm; simp only [numericSpec] at hm; first | (injection hm with hm; omega) | cases hm)

theorem parseNumeric_bs (p : Parsed) (s : List Nat) (n : Numeric) (p' : Parsed) (s' : List Nat)
    (h : parseNumeric p s n = .ok (p', s')) : BoundarySuffix s s' := by
  have hw := numericSpec_width n
  unfold parseNumeric at h
  generalize numericSpec n = spec at h hw
  obtain ⟨width, signed, set⟩ := spec
  simp only at h hw
  split at h
  · cases h
  · rename_i s1 v hr
    have key : BoundarySuffix (trimStart s) s1 := by
      split at hr
      · split at hr
        · rename_i rest heq
          rw [heq]
          split at hr
          · rename_i s2 w hn
            injection hr with hr; injection hr with hr _
            subst hr
            exact bs_trans (bs_cons 45 rest (by omega)) (number_bs rest 1 none s2 w (by intro m hm; cases hm) hn)
          · cases hr
        · rename_i rest heq
          rw [heq]
          exact bs_trans (bs_cons 43 rest (by omega)) (number_bs rest 1 none s1 v (by intro m hm; cases hm) hr)
        · exact number_bs _ 1 width s1 v hw hr
      · exact number_bs _ 1 width s1 v hw hr
    split at h
    · injection h with h; injection h with _ h2
      subst h2
      exact bs_trans (trimStart_bs s) key
    · cases h

/-- a literal item: `s.starts_with(prefix)` then `&s[prefix.len()..]`, `prefix` being a `&str` -/
theorem parseLiteral_bs (s lit s' : List Nat) (hl : validUtf8 lit = true) (h : parseLiteral s lit = .ok s') :
    BoundarySuffix s s' := by
  unfold parseLiteral at h
  split at h
  · cases h
  · split at h
    · cases h
    · rename_i hne
      injection h with h
      subst h
      have ht : s.take lit.length = lit := Classical.not_not.mp hne
      refine ⟨lit, ?_, hl⟩
      conv => lhs; rw [← List.take_append_drop lit.length s]
      rw [ht]

theorem map_pair_inv' {α : Type} (r : PRes α) (a : List Nat) (x : α) (b : List Nat)
    (h : (r.map fun q => (q, a)) = .ok (x, b)) : a = b := by
  cases r with
  | error e => cases h
  | ok q => injection h with h; injection h with _ h2

theorem setNano_bs (p : Parsed) (r : PRes (List Nat × Int)) (p' : Parsed) (s' : List Nat)
    (h : setNano p r = .ok (p', s')) : ∃ v, r = .ok (s', v) := by
  unfold setNano at h
  cases r with
  | error e => cases h
  | ok a =>
    obtain ⟨s1, v⟩ := a
    simp only at h
    split at h
    · injection h with h; injection h with _ h2; subst h2; exact ⟨v, rfl⟩
    · cases h

theorem setOffset_bs (p : Parsed) (r : PRes (List Nat × Int)) (p' : Parsed) (s' : List Nat)
    (h : setOffset p r = .ok (p', s')) : ∃ v, r = .ok (s', v) := by
  unfold setOffset at h
  cases r with
  | error e => cases h
  | ok a =>
    obtain ⟨s1, v⟩ := a
    simp only at h
    split at h
    · injection h with h; injection h with _ h2; subst h2; exact ⟨v, rfl⟩
    · cases h

theorem or32_lt (b : Nat) (h : or32 b < 128) : b < 128 := by
  unfold or32 at h; split at h <;> omega

theorem parseFixedBase_bs (p : Parsed) (s : List Nat) (f : Fixed) (p' : Parsed) (s' : List Nat)
    (hv : validUtf8 s = true) (h : parseFixedBase p s f = .ok (p', s')) : BoundarySuffix s s' := by
  have tz : ∀ (z mm ms : Bool), setOffset p (timezone_offset (trimStart s) .colonOrSpace z mm ms) = .ok (p', s') →
      BoundarySuffix s s' := by
    intro z mm ms h
    obtain ⟨v, hv⟩ := setOffset_bs _ _ _ _ h
    exact bs_trans (trimStart_bs s) (timezone_offset_bs _ _ _ _ _ _ _ hv)
  have nf : ∀ d, setNano p (nanosecond_fixed s d) = .ok (p', s') → BoundarySuffix s s' := by
    intro d h
    obtain ⟨v, hv⟩ := setNano_bs _ _ _ _ h
    exact nanosecond_fixed_bs _ _ _ _ hv
  have ampm : ∀ (a b : Nat) (rest : List Nat), (or32 a = 97 ∨ or32 a = 112) ∧ or32 b = 109 →
      BoundarySuffix (a :: b :: rest) rest := by
    intro a b rest hc
    refine bs_ascii [a, b] rest ?_
    intro x hx; simp at hx
    rcases hx with rfl | rfl
    · exact or32_lt _ (by omega)
    · exact or32_lt _ (by omega)
  cases f <;> unfold parseFixedBase at h <;> simp only at h
  all_goals repeat' split at h
  all_goals first
    | exact tz _ _ _ h
    | exact nf _ h
    | (rename_i r m hm; have e := map_pair_inv' _ _ _ _ h; subst e; exact short_month0_bs _ _ _ hm)
    | (rename_i r m hm; have e := map_pair_inv' _ _ _ _ h; subst e; exact short_or_long_month0_bs _ _ _ hm)
    | (rename_i r m hm; have e := map_pair_inv' _ _ _ _ h; subst e; exact short_weekday_bs _ _ _ hm)
    | (rename_i r m hm; have e := map_pair_inv' _ _ _ _ h; subst e; exact short_or_long_weekday_bs _ _ _ hm)
    | (rename_i a b rest hc; have e := map_pair_inv' _ _ _ _ h; subst e; exact ampm a b _ ⟨Or.inl hc.1, hc.2⟩)
    | (rename_i a b rest _ hc; have e := map_pair_inv' _ _ _ _ h; subst e; exact ampm a b _ ⟨Or.inr hc.1, hc.2⟩)
    | (rename_i rest; obtain ⟨v, hn⟩ := setNano_bs _ _ _ _ h
       exact bs_trans (bs_cons 46 rest (by omega)) (nanosecond_bs _ _ _ hn))
    | (injection h with h; injection h with _ h2; subst h2; exact skipNonWs_bs s hv)
    | (injection h with h; injection h with _ h2; subst h2; exact bs_refl _)
    | cases h

/-- the literals of an item list are `&str`s -/
def ItemsUtf8 (items : List Item) : Prop := ∀ lit, Item.literal lit ∈ items → validUtf8 lit = true

theorem parseItemBase_bs (p : Parsed) (s : List Nat) (it : Item) (p' : Parsed) (s' : List Nat)
    (hv : validUtf8 s = true) (hl : ∀ lit, it = .literal lit → validUtf8 lit = true)
    (h : parseItemBase p s it = .ok (p', s')) : BoundarySuffix s s' := by
  unfold parseItemBase at h
  split at h
  · rename_i lit
    cases hp : parseLiteral s lit with
    | error e => rw [hp] at h; cases h
    | ok q =>
      rw [hp] at h; injection h with h; injection h with _ h2; subst h2
      exact parseLiteral_bs s lit _ (hl lit rfl) hp
  · injection h with h; injection h with _ h2; subst h2; exact trimStart_bs s
  · exact parseNumeric_bs _ _ _ _ _ h
  · exact parseFixedBase_bs _ _ _ _ _ hv h
  · cases h

theorem parseItemsBase_bs : ∀ (items : List Item) (p : Parsed) (s : List Nat) (p' : Parsed) (s' : List Nat),
    validUtf8 s = true → ItemsUtf8 items → parseItemsBase p s items = .ok (p', s') → BoundarySuffix s s' := by
  intro items
  induction items with
  | nil =>
    intro p s p' s' _ _ h
    unfold parseItemsBase at h
    injection h with h; injection h with _ h2; subst h2; exact bs_refl _
  | cons it rest ih =>
    intro p s p' s' hv hl h
    unfold parseItemsBase at h
    split at h
    · rename_i p1 s1 h1
      have b1 := parseItemBase_bs p s it p1 s1 hv (fun lit he => hl lit (by rw [he]; simp)) h1
      exact bs_trans b1 (ih p1 s1 p' s' (bs_valid_rest hv b1)
        (fun lit hm => hl lit (List.mem_cons_of_mem _ hm)) h)
    · cases h

theorem field_bs (set : Parsed → Int → PRes Parsed) (p : Parsed) (s : List Nat) (k : Nat) (mx : Option Nat)
    (hk : ∀ m, mx = some m → k ≤ m) (p' : Parsed) (s' : List Nat)
    (h : setField set p (number s k mx) = .ok (p', s')) : BoundarySuffix s s' := by
  obtain ⟨v, hn, _⟩ := (Rfc3339.setField_ok_iff set p _ p' s').mp h
  exact number_bs s k mx s' v hk hn

theorem sep_bs (s r : List Nat)
    (h : (match s with
      | c :: rest => if c = 116 ∨ c = 84 ∨ c = 32 then .ok rest else .error PErr.invalid
      | [] => .error PErr.tooShort : PRes (List Nat)) = .ok r) : BoundarySuffix s r := by
  split at h
  · rename_i c rest
    split at h
    · rename_i hc
      injection h with h; subst h
      exact bs_cons c _ (by omega)
    · cases h
  · cases h

theorem dotNano_bs (p : Parsed) (s : List Nat) (p' : Parsed) (s' : List Nat)
    (h : (match s with
      | 46 :: rest => setNano p (nanosecond rest)
      | _ => .ok (p, s) : PRes (Parsed × List Nat)) = .ok (p', s')) : BoundarySuffix s s' := by
  split at h
  · rename_i rest
    obtain ⟨v, hn⟩ := setNano_bs _ _ _ _ h
    exact bs_trans (bs_cons 46 rest (by omega)) (nanosecond_bs _ _ _ hn)
  · injection h with h; injection h with _ h2; subst h2; exact bs_refl _

theorem two (m : Nat) (h : some 2 = some m) : 2 ≤ m := by injection h with h; omega
theorem four (m : Nat) (h : some 4 = some m) : 4 ≤ m := by injection h with h; omega

/-- the strict RFC 3339 scanner -/
theorem parse_rfc3339_bs (p : Parsed) (s : List Nat) (p' : Parsed) (s' : List Nat)
    (h : parse_rfc3339 p s = .ok (p', s')) : BoundarySuffix s s' := by
  unfold parse_rfc3339 at h
  obtain ⟨⟨p1, s1⟩, h1, h⟩ := (Rfc3339.bind_ok_iff _ _ _).mp h
  have b1 := field_bs _ _ _ _ _ four _ _ h1
  simp only at h
  obtain ⟨s2, h2, h⟩ := (Rfc3339.bind_ok_iff _ _ _).mp h
  have b2 := char_bs _ _ 45 (by omega) h2
  obtain ⟨⟨p3, s3⟩, h3, h⟩ := (Rfc3339.bind_ok_iff _ _ _).mp h
  have b3 := field_bs _ _ _ _ _ two _ _ h3
  simp only at h
  obtain ⟨s4, h4, h⟩ := (Rfc3339.bind_ok_iff _ _ _).mp h
  have b4 := char_bs _ _ 45 (by omega) h4
  obtain ⟨⟨p5, s5⟩, h5, h⟩ := (Rfc3339.bind_ok_iff _ _ _).mp h
  have b5 := field_bs _ _ _ _ _ two _ _ h5
  simp only at h
  obtain ⟨s6, h6, h⟩ := (Rfc3339.bind_ok_iff _ _ _).mp h
  have b6 := sep_bs _ _ h6
  obtain ⟨⟨p7, s7⟩, h7, h⟩ := (Rfc3339.bind_ok_iff _ _ _).mp h
  have b7 := field_bs _ _ _ _ _ two _ _ h7
  simp only at h
  obtain ⟨s8, h8, h⟩ := (Rfc3339.bind_ok_iff _ _ _).mp h
  have b8 := char_bs _ _ 58 (by omega) h8
  obtain ⟨⟨p9, s9⟩, h9, h⟩ := (Rfc3339.bind_ok_iff _ _ _).mp h
  have b9 := field_bs _ _ _ _ _ two _ _ h9
  simp only at h
  obtain ⟨s10, h10, h⟩ := (Rfc3339.bind_ok_iff _ _ _).mp h
  have b10 := char_bs _ _ 58 (by omega) h10
  obtain ⟨⟨p11, s11⟩, h11, h⟩ := (Rfc3339.bind_ok_iff _ _ _).mp h
  have b11 := field_bs _ _ _ _ _ two _ _ h11
  simp only at h
  obtain ⟨⟨p12, s12⟩, h12, h⟩ := (Rfc3339.bind_ok_iff _ _ _).mp h
  have b12 := dotNano_bs _ _ _ _ h12
  simp only at h
  obtain ⟨⟨s13, off⟩, h13, h⟩ := (Rfc3339.bind_ok_iff _ _ _).mp h
  have b13 := timezone_offset_bs _ _ _ _ _ _ _ h13
  simp only at h
  split at h
  · cases h
  · obtain ⟨p14, _, h⟩ := (Rfc3339.bind_ok_iff _ _ _).mp h
    injection h with h; injection h with _ hb
    subst hb
    exact bs_trans b1 (bs_trans b2 (bs_trans b3 (bs_trans b4 (bs_trans b5 (bs_trans b6 (bs_trans b7
      (bs_trans b8 (bs_trans b9 (bs_trans b10 (bs_trans b11 (bs_trans b12 b13)))))))))))

theorem date_time_items_utf8 : ItemsUtf8 DATE_ITEMS ∧ ItemsUtf8 TIME_ITEMS := by
  constructor <;> intro lit hm
  · simp [DATE_ITEMS] at hm; subst hm; decide
  · simp [TIME_ITEMS] at hm; subst hm; decide

/-- the relaxed RFC 3339 scanner (`FromStr for DateTime<FixedOffset>`, the `%+` item) -/
theorem parse_rfc3339_relaxed_bs (p : Parsed) (s : List Nat) (p' : Parsed) (s' : List Nat)
    (hv : validUtf8 s = true) (h : parse_rfc3339_relaxed p s = .ok (p', s')) : BoundarySuffix s s' := by
  unfold parse_rfc3339_relaxed at h
  obtain ⟨⟨p1, s1⟩, h1, h⟩ := (Rfc3339.bind_ok_iff _ _ _).mp h
  have b1 := parseItemsBase_bs _ _ _ _ _ hv date_time_items_utf8.1 h1
  have v1 := bs_valid_rest hv b1
  simp only at h
  obtain ⟨s2, h2, h⟩ := (Rfc3339.bind_ok_iff _ _ _).mp h
  have b2 := sep_bs _ _ h2
  have v2 := bs_valid_rest v1 b2
  obtain ⟨⟨p3, s3⟩, h3, h⟩ := (Rfc3339.bind_ok_iff _ _ _).mp h
  have b3 := parseItemsBase_bs _ _ _ _ _ v2 date_time_items_utf8.2 h3
  simp only at h
  obtain ⟨⟨s4, off⟩, h4, h⟩ := (Rfc3339.bind_ok_iff _ _ _).mp h
  have b4 : BoundarySuffix (trimStart s3) s4 := by
    split at h4
    · rename_i hc
      injection h4 with h4; injection h4 with h4 _
      subst h4
      refine ⟨(trimStart s3).take 3, (List.take_append_drop _ _).symm, valid_ascii _ ?_⟩
      intro b hb
      have hm : lowerB b ∈ lowerS ((trimStart s3).take 3) := List.mem_map_of_mem hb
      rw [hc.2] at hm
      refine lowerB_lt b ?_
      simp at hm
      omega
    · exact timezone_offset_bs _ _ _ _ _ _ _ h4
  simp only at h
  obtain ⟨p5, _, h⟩ := (Rfc3339.bind_ok_iff _ _ _).mp h
  injection h with h; injection h with _ hb
  subst hb
  exact bs_trans b1 (bs_trans b2 (bs_trans b3 (bs_trans (trimStart_bs s3) b4)))

theorem one_two (m : Nat) (h : some 2 = some m) : 1 ≤ m := by injection h with h; omega

/-- the RFC 2822 scanner (folding white space, names, legacy zones, trailing comments) -/
theorem parse_rfc2822_bs (p : Parsed) (s : List Nat) (p' : Parsed) (s' : List Nat)
    (hv : validUtf8 s = true) (h : parse_rfc2822 p s = .ok (p', s')) : BoundarySuffix s s' := by
  unfold parse_rfc2822 at h
  simp only at h
  have b0 := trimStart_bs s
  obtain ⟨⟨p1, s1⟩, h1, h⟩ := (Rfc3339.bind_ok_iff _ _ _).mp h
  have b1 : BoundarySuffix (trimStart s) s1 := by
    split at h1
    · rename_i r w hw
      split at h1
      · rename_i rest
        have e := map_pair_inv' _ _ _ _ h1; subst e
        exact bs_trans (short_weekday_bs _ _ _ hw) (bs_cons 44 _ (by omega))
      · cases h1
    · injection h1 with h1; injection h1 with _ h2; subst h2; exact bs_refl _
  simp only at h
  obtain ⟨⟨p2, s2⟩, h2, h⟩ := (Rfc3339.bind_ok_iff _ _ _).mp h
  have b2 := bs_trans (trimStart_bs s1) (field_bs _ _ _ _ _ one_two _ _ h2)
  simp only at h
  obtain ⟨s3, h3, h⟩ := (Rfc3339.bind_ok_iff _ _ _).mp h
  have b3 := space_bs _ _ h3
  obtain ⟨⟨p4, s4⟩, h4, h⟩ := (Rfc3339.bind_ok_iff _ _ _).mp h
  have b4 : BoundarySuffix s3 s4 := by
    split at h4
    · rename_i r m hm
      have e := map_pair_inv' _ _ _ _ h4; subst e
      exact short_month0_bs _ _ _ hm
    · cases h4
    · cases h4
  simp only at h
  obtain ⟨s5, h5, h⟩ := (Rfc3339.bind_ok_iff _ _ _).mp h
  have b5 := space_bs _ _ h5
  obtain ⟨⟨s6, year⟩, h6, h⟩ := (Rfc3339.bind_ok_iff _ _ _).mp h
  have b6 := number_bs _ _ _ _ _ (by intro m hm; cases hm) h6
  simp only at h
  obtain ⟨p7, _, h⟩ := (Rfc3339.bind_ok_iff _ _ _).mp h
  obtain ⟨s8, h8, h⟩ := (Rfc3339.bind_ok_iff _ _ _).mp h
  have b8 := space_bs _ _ h8
  obtain ⟨⟨p9, s9⟩, h9, h⟩ := (Rfc3339.bind_ok_iff _ _ _).mp h
  have b9 := field_bs _ _ _ _ _ two _ _ h9
  simp only at h
  obtain ⟨s10, h10, h⟩ := (Rfc3339.bind_ok_iff _ _ _).mp h
  have b10 := bs_trans (trimStart_bs s9) (char_bs _ _ 58 (by omega) h10)
  obtain ⟨⟨p11, s11⟩, h11, h⟩ := (Rfc3339.bind_ok_iff _ _ _).mp h
  have b11 := bs_trans (trimStart_bs s10) (field_bs _ _ _ _ _ two _ _ h11)
  simp only at h
  obtain ⟨⟨p12, s12⟩, h12, h⟩ := (Rfc3339.bind_ok_iff _ _ _).mp h
  have b12 : BoundarySuffix s11 s12 := by
    split at h12
    · rename_i s_ hc
      exact bs_trans (trimStart_bs s11) (bs_trans (char_bs _ _ 58 (by omega) hc) (field_bs _ _ _ _ _ two _ _ h12))
    · injection h12 with h12; injection h12 with _ h2; subst h2; exact bs_refl _
  simp only at h
  obtain ⟨s13, h13, h⟩ := (Rfc3339.bind_ok_iff _ _ _).mp h
  have b13 := space_bs _ _ h13
  obtain ⟨⟨s14, off⟩, h14, h⟩ := (Rfc3339.bind_ok_iff _ _ _).mp h
  have b14 := timezone_offset_2822_bs _ _ _ h14
  simp only at h
  obtain ⟨p15, _, h⟩ := (Rfc3339.bind_ok_iff _ _ _).mp h
  injection h with h; injection h with _ hb
  have ball : BoundarySuffix s s14 :=
    bs_trans b0 (bs_trans b1 (bs_trans b2 (bs_trans b3 (bs_trans b4 (bs_trans b5 (bs_trans b6 (bs_trans b8
      (bs_trans b9 (bs_trans b10 (bs_trans b11 (bs_trans b12 (bs_trans b13 b14))))))))))))
  rw [← hb]
  exact bs_trans ball (commentsAux_bs _ s14 (bs_valid_rest hv ball))

/-- **the item-driven parser**: on a `&str` text with `&str` literals, every item consumes a whole
number of characters; what is handed to the next item (and what `parse_and_remainder` returns) is a
`&str` taken at a char boundary -/
theorem parse_internal_bs : ∀ (items : List Item) (p : Parsed) (s : List Nat) (p' : Parsed) (s' : List Nat),
    validUtf8 s = true → ItemsUtf8 items → parse_internal p s items = .ok (p', s') → BoundarySuffix s s' := by
  intro items
  induction items with
  | nil =>
    intro p s p' s' _ _ h
    unfold parse_internal at h
    injection h with h; injection h with _ h2; subst h2; exact bs_refl _
  | cons it rest ih =>
    intro p s p' s' hv hl h
    unfold parse_internal at h
    simp only at h
    split at h
    · rename_i p1 s1 h1
      have b1 : BoundarySuffix s s1 := by
        split at h1
        · exact parse_rfc2822_bs _ _ _ _ hv h1
        · exact parse_rfc3339_relaxed_bs _ _ _ _ hv h1
        · exact parseItemBase_bs p s it p1 s1 hv (fun lit he => hl lit (by rw [he]; simp)) h1
      exact bs_trans b1 (ih p1 s1 p' s' (bs_valid_rest hv b1)
        (fun lit hm => hl lit (List.mem_cons_of_mem _ hm)) h)
    · cases h

end Chrono.Proofs.ScanBoundary
