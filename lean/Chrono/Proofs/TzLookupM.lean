/- Helper lemmas for C05, second file: what the wall-clock lookup guarantees WITHOUT any separation
   hypothesis (soundness of the earliest candidate), and the counterexample zones. -/
import Chrono.Proofs.TzLookupL

set_option linter.unusedSimpArgs false
set_option linter.unusedVariables false

namespace Chrono.Proofs.TzL
open Chrono Chrono.M.Tz Chrono.M.TzL Chrono.Spec.Zone Chrono.Extracted.TzL Chrono.Proofs

/-! ### no separation: the earliest candidate is always a genuine reading -/

theorem stepOff_lt (z : Zone) (p : Int) (ts : List Transition) (t : Int) (h : ∀ tr ∈ ts, t < tr.time) :
    stepOff z p ts t = p := by
  cases ts with
  | nil => rfl
  | cons x xs =>
    have := h x (List.mem_cons_self ..)
    have c : ¬ x.time ≤ t := by omega
    simp only [stepOff, c, if_false]

/-- the earliest candidate the loop reports at a single transition is either the type in force before
it, read strictly before the transition, or the new type read exactly at the transition -/
theorem one_earliest (z : Zone) (tr : Transition) (prev : Ltt) (ℓ : Int)
    (hT : -4611686018427387904 ≤ tr.time ∧ tr.time ≤ 4611686018427387904)
    (hp : -2147483648 ≤ prev.off ∧ prev.off ≤ 2147483647)
    (ha : -2147483648 ≤ (typeAt z tr.idx).off ∧ (typeAt z tr.idx).off ≤ 2147483647)
    (hx : prev.off ≠ (typeAt z tr.idx).off → ℓ ≠ tr.time + prev.off)
    (h : ℓ ≤ tr.time + max prev.off (typeAt z tr.idx).off) :
    ∀ x, (outMap (fromLocalLoop z [tr] prev ℓ)).earliest = some x →
      (x.off = prev.off ∧ ℓ - x.off < tr.time) ∨ (x.off = (typeAt z tr.idx).off ∧ ℓ - x.off = tr.time) := by
  unfold fromLocalLoop fromLocalLoop
  have s1 : satI64 (tr.time + (typeAt z tr.idx).off) = tr.time + (typeAt z tr.idx).off :=
    satI64_id (by omega) (by omega)
  have s2 : satI64 (tr.time + prev.off) = tr.time + prev.off :=
    satI64_id (by omega) (by omega)
  dsimp only
  simp only [s1, s2]
  generalize (typeAt z tr.idx) = after at *
  (repeat' split) <;> simp only [outMap, Mapped.earliest] <;> intro x hx' <;> cases hx' <;> omega

/-- the loop, any table, NO separation hypothesis: the earliest candidate reads `ℓ` under the table's
step function -/
theorem loop_earliest_sound (z : Zone) (ℓ : Int) (ts : List Transition) : ∀ (prev : Ltt),
    Sorted ts → NoBoundary' z prev.off ts ℓ → InRange z ts →
    (-2147483648 ≤ prev.off ∧ prev.off ≤ 2147483647) →
    ∀ x, (outMap (fromLocalLoop z ts prev ℓ)).earliest = some x →
      stepOff z prev.off ts (ℓ - x.off) = x.off := by
  induction ts with
  | nil =>
    intro prev _ _ _ _ x hx
    simp only [fromLocalLoop, outMap, Mapped.earliest] at hx
    injection hx with e; subst e; rfl
  | cons tr rest ih =>
    intro prev hs hnb hr hp x hx
    have hs' : Sorted rest := (List.pairwise_cons.mp hs).2
    have hx0 := (List.pairwise_cons.mp hs).1
    have hT := hr.2 tr (List.mem_cons_self ..)
    have ha := hr.1 tr.idx
    have hr' : InRange z rest := ⟨hr.1, fun x hx' => hr.2 x (List.mem_cons_of_mem _ hx')⟩
    by_cases c : ℓ ≤ tr.time + max prev.off (typeAt z tr.idx).off
    · rw [loop_cons_ret z tr rest prev ℓ hT hp ha c] at hx
      rcases one_earliest z tr prev ℓ hT hp ha hnb.1 c x hx with ⟨e, hlt⟩ | ⟨e, heq⟩
      · have c0 : ¬ tr.time ≤ ℓ - x.off := by omega
        simp only [stepOff, c0, if_false]; exact e.symm
      · have c1 : tr.time ≤ ℓ - x.off := by omega
        simp only [stepOff, c1, if_true]
        rw [stepOff_lt z _ rest _ (fun tr' h' => by have := hx0 tr' h'; omega)]; exact e.symm
    · have c' : tr.time + max prev.off (typeAt z tr.idx).off < ℓ := by omega
      rw [loop_cons_cont z tr rest prev ℓ hT hp ha c'] at hx
      have h1 := ih (typeAt z tr.idx) hs' hnb.2 hr' ha x hx
      by_cases ct : tr.time ≤ ℓ - x.off
      · simp only [stepOff, ct, if_true]; exact h1
      · exfalso
        rw [stepOff_lt z _ rest _ (fun tr' h' => by have := hx0 tr' h'; omega)] at h1
        omega

/-- the wall-clock lookup of a zone without a rule is the table loop -/
theorem from_local_no_rule (z : Zone) (ℓ : Int) (hrule : z.rule = none) :
    z.find_local_time_type_from_local ℓ = outMap (fromLocalLoop z z.transitions (typeAt z 0) ℓ) := by
  unfold Zone.find_local_time_type_from_local
  rw [hrule]
  cases htr : z.transitions with
  | nil => simp [fromLocalLoop, outMap]
  | cons x xs =>
    simp only [List.isEmpty_cons, Bool.false_eq_true, if_false]
    cases fromLocalLoop z (x :: xs) (typeAt z 0) ℓ <;> rfl

theorem from_local_earliest_sound' (z : Zone) (ℓ : Int) (hrule : z.rule = none) (hs : Sorted z.transitions)
    (hnb : NoBoundary' z (typeAt z 0).off z.transitions ℓ) (hr : InRange z z.transitions) :
    ∀ x, (z.find_local_time_type_from_local ℓ).earliest = some x →
      (ℓ - x.off) + offAt z (ℓ - x.off) = ℓ := by
  intro x hx
  rw [from_local_no_rule z ℓ hrule] at hx
  have := loop_earliest_sound z ℓ z.transitions (typeAt z 0) hs hnb hr (hr.1 0) x hx
  rw [offAt_table_stepOff z _ hrule hs, this]
  omega

end Chrono.Proofs.TzL
