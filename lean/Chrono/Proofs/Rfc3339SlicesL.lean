/-
  C10, gap G1: the slice-recording copy of the strict RFC 3339 scanner (Model/Rfc3339Slices.lean)
  (1) computes exactly the model's results and (2) on a well-formed UTF-8 input records only slices
  taken at char boundaries of well-formed strings — in every run, failing ones included.
  Built on C15's byte-level library (Proofs/Utf8L.lean, Proofs/ScanBoundaryL.lean).
  Namespace `Chrono.Proofs.Rfc3339Slices`.
-/
import Chrono.Model.Rfc3339Slices
import Chrono.Proofs.ScanBoundaryL

namespace Chrono.Proofs.Rfc3339Slices
open Chrono Chrono.M Chrono.M.Scan Chrono.M.Parse Chrono.M.Tz Chrono.Spec.Utf8 Chrono.Proofs.Utf8
open Chrono.M.Rfc3339Slices

/-! ### (1) the recording changes nothing -/

theorem bindT_fst {α β : Type} (x : T α) (f : α → T β) :
    (bindT x f).1 = x.1 >>= fun a => (f a).1 := by
  unfold bindT
  cases h : x.1 <;> rfl

theorem ok_bind {α β : Type} (a : α) (f : α → PRes β) : ((Except.ok a : PRes α) >>= f) = f a := rfl

theorem numberT_fst (s : List Nat) (min : Nat) (max : Option Nat) : (numberT s min max).1 = number s min max := by
  unfold numberT
  cases h : number s min max with
  | error e => rfl
  | ok a => obtain ⟨r, v⟩ := a; rfl

theorem charT_fst (s : List Nat) (c : Nat) : (charT s c).1 = Scan.char s c := by
  unfold charT Scan.char
  cases s with
  | nil => rfl
  | cons b t => dsimp only; split <;> rfl

theorem nanosecondT_fst (s : List Nat) : (nanosecondT s).1 = nanosecond s := by
  unfold nanosecondT nanosecond
  rw [bindT_fst, numberT_fst]
  cases h : number s 1 (some 9) with
  | error e => rfl
  | ok a =>
    obtain ⟨r, v⟩ := a
    show (if v * SCALE.getD (s.length - r.length) 0 > I64_MAX then _ else _ : T (List Nat × Int)).1 = _
    dsimp only
    split <;> rfl

theorem tzSignT_fst (s : List Nat) (ms : Bool) : (tzSignT s ms).1 = tzSign s ms := by
  unfold tzSignT
  cases h : tzSign s ms with
  | error e => rfl
  | ok a => obtain ⟨r, v⟩ := a; rfl

theorem tzRestT_fst (s : List Nat) :
    (tzRestT s).1 = (if s.length ≥ 2 then .ok (s.drop 2) else if s.length = 0 then .ok s else .error .tooShort) := by
  unfold tzRestT
  split
  · rfl
  · split <;> rfl

theorem consumeColonT_fst (cm : ColonMode) (s : List Nat) : (consumeColonT cm s).1 = consumeColon cm s := by
  cases cm
  · exact charT_fst s 58
  · rfl
  · rfl

/-- `scan::timezone_offset` in stages (the form the recording copy follows) -/
theorem timezone_offset_staged (s : List Nat) (cm : ColonMode) (z mm ms : Bool) :
    timezone_offset s cm z mm ms =
      match tzZulu s z with
      | some rest => .ok (rest, 0)
      | none =>
        match tzSign s ms with
        | .error e => .error e
        | .ok (s, negative) =>
          match s with
          | h1 :: h2 :: s =>
            if Scan.isDigit h1 && Scan.isDigit h2 then
              match consumeColon cm s with
              | .error e => .error e
              | .ok s =>
                match tzMins s mm with
                | .error e => .error e
                | .ok minutes =>
                  match (if s.length ≥ 2 then .ok (s.drop 2) else if s.length = 0 then .ok s else .error .tooShort :
                      PRes (List Nat)) with
                  | .error e => .error e
                  | .ok s' =>
                    .ok (s', if negative
                      then -((((h1 - 48) * 10 + (h2 - 48) : Nat) : Int) * 3600 + minutes * 60)
                      else (((h1 - 48) * 10 + (h2 - 48) : Nat) : Int) * 3600 + minutes * 60)
            else .error .invalid
          | _ => .error .tooShort := rfl

theorem timezone_offsetT_fst (s : List Nat) (cm : ColonMode) (z mm ms : Bool) :
    (timezone_offsetT s cm z mm ms).1 = timezone_offset s cm z mm ms := by
  rw [timezone_offset_staged]
  unfold timezone_offsetT
  cases hz : tzZulu s z with
  | some r => rfl
  | none =>
    dsimp only
    rw [bindT_fst, tzSignT_fst]
    cases hs : tzSign s ms with
    | error e => rfl
    | ok a =>
      obtain ⟨s1, neg⟩ := a
      rw [ok_bind]
      dsimp only
      match s1 with
      | [] => rfl
      | [_] => rfl
      | h1 :: h2 :: s2 =>
        dsimp only
        cases hd : (Scan.isDigit h1 && Scan.isDigit h2) with
        | false => rfl
        | true =>
          simp only [if_true]
          rw [bindT_fst]
          show (bindT (consumeColonT cm s2) _).1 = _
          rw [bindT_fst, consumeColonT_fst]
          cases hc : consumeColon cm s2 with
          | error e => rfl
          | ok s3 =>
            rw [ok_bind]
            show (bindT (lift (tzMins s3 mm)) _).1 = (match tzMins s3 mm with
              | .error e => .error e
              | .ok minutes => _ : PRes (List Nat × Int))
            rw [bindT_fst]
            show (tzMins s3 mm >>= _) = _
            cases hm : tzMins s3 mm with
            | error e => rfl
            | ok minutes =>
              rw [ok_bind]
              show (bindT (tzRestT s3) _).1 = _
              rw [bindT_fst, tzRestT_fst]
              dsimp only
              cases (if s3.length ≥ 2 then .ok (s3.drop 2) else if s3.length = 0 then .ok s3 else .error .tooShort :
                PRes (List Nat)) <;> rfl

theorem setFieldT_fst (set : Parsed → Int → PRes Parsed) (p : Parsed) (r : T (List Nat × Int)) :
    (setFieldT set p r).1 = setField set p r.1 := by
  unfold setFieldT setField
  rw [bindT_fst]
  cases r.1 with
  | error e => rfl
  | ok a => obtain ⟨s', v⟩ := a; rfl

theorem sepT_fst (s : List Nat) :
    (sepT s).1 = (match s with
      | c :: rest => if c = 116 ∨ c = 84 ∨ c = 32 then .ok rest else .error PErr.invalid
      | [] => .error PErr.tooShort : PRes (List Nat)) := by
  unfold sepT
  cases s with
  | nil => rfl
  | cons b t => dsimp only; split <;> rfl

theorem dotNanoT_fst (p : Parsed) (s : List Nat) :
    (dotNanoT p s).1 = (match s with
      | 46 :: rest => setNano p (nanosecond rest)
      | _ => .ok (p, s) : PRes (Parsed × List Nat)) := by
  have key : ∀ rest, (bindT (sliced (46 :: rest) rest rest) fun rest =>
        bindT (nanosecondT rest) fun (s', v) =>
        lift (match Parsed.set_nanosecond p v with
          | .ok p' => .ok (p', s')
          | .error e => .error e) : T (Parsed × List Nat)).1 = setNano p (nanosecond rest) := by
    intro rest
    rw [bindT_fst]
    show (bindT (nanosecondT rest) _).1 = _
    rw [bindT_fst, nanosecondT_fst]
    unfold setNano
    cases nanosecond rest with
    | error e => rfl
    | ok a => obtain ⟨s', v⟩ := a; rfl
  unfold dotNanoT
  split
  · rename_i rest
    exact key rest
  · rename_i hne
    split
    · rename_i rest; exact absurd rfl (hne rest)
    · rfl

theorem bind_congr' {α β : Type} (x : PRes α) (f g : α → PRes β) (h : ∀ a, f a = g a) : (x >>= f) = (x >>= g) := by
  have : f = g := funext h
  rw [this]

/-- the recording copy of `parse_rfc3339` returns what `parse_rfc3339` returns -/
theorem parse_rfc3339T_fst (p : Parsed) (s : List Nat) : (parse_rfc3339T p s).1 = parse_rfc3339 p s := by
  unfold parse_rfc3339T parse_rfc3339
  rw [bindT_fst, setFieldT_fst, numberT_fst]
  refine bind_congr' _ _ _ fun ⟨p, s⟩ => ?_
  dsimp only
  rw [bindT_fst, charT_fst]
  refine bind_congr' _ _ _ fun s => ?_
  rw [bindT_fst, setFieldT_fst, numberT_fst]
  refine bind_congr' _ _ _ fun ⟨p, s⟩ => ?_
  dsimp only
  rw [bindT_fst, charT_fst]
  refine bind_congr' _ _ _ fun s => ?_
  rw [bindT_fst, setFieldT_fst, numberT_fst]
  refine bind_congr' _ _ _ fun ⟨p, s⟩ => ?_
  dsimp only
  rw [bindT_fst, sepT_fst]
  refine bind_congr' _ _ _ fun s => ?_
  rw [bindT_fst, setFieldT_fst, numberT_fst]
  refine bind_congr' _ _ _ fun ⟨p, s⟩ => ?_
  dsimp only
  rw [bindT_fst, charT_fst]
  refine bind_congr' _ _ _ fun s => ?_
  rw [bindT_fst, setFieldT_fst, numberT_fst]
  refine bind_congr' _ _ _ fun ⟨p, s⟩ => ?_
  dsimp only
  rw [bindT_fst, charT_fst]
  refine bind_congr' _ _ _ fun s => ?_
  rw [bindT_fst, setFieldT_fst, numberT_fst]
  refine bind_congr' _ _ _ fun ⟨p, s⟩ => ?_
  dsimp only
  rw [bindT_fst, dotNanoT_fst]
  refine bind_congr' _ _ _ fun ⟨p, s⟩ => ?_
  dsimp only
  rw [bindT_fst, timezone_offsetT_fst]
  refine bind_congr' _ _ _ fun ⟨s, offset⟩ => ?_
  dsimp only
  split
  · rfl
  · rw [bindT_fst]
    rfl

/-! ### (2) every recorded slice is at a char boundary -/

/-- the slice was taken of a `&str` and what it skipped is whole characters -/
def GoodSlice (e : Slice) : Prop := validUtf8 e.src = true ∧ BoundarySuffix e.src e.rest

/-- every slice recorded is good, and the string handed on after a success is a `&str` -/
def GoodT {α : Type} (x : T α) (str : α → List Nat) : Prop :=
  (∀ e ∈ x.2, GoodSlice e) ∧ ∀ a, x.1 = .ok a → validUtf8 (str a) = true

theorem good_bindT {α β : Type} (x : T α) (f : α → T β) (sa : α → List Nat) (sb : β → List Nat)
    (hx : GoodT x sa) (hf : ∀ a, x.1 = .ok a → GoodT (f a) sb) : GoodT (bindT x f) sb := by
  unfold bindT
  cases h : x.1 with
  | error e => exact ⟨hx.1, fun a ha => by cases ha⟩
  | ok a =>
    obtain ⟨g1, g2⟩ := hf a h
    refine ⟨?_, g2⟩
    intro e he
    rcases List.mem_append.mp he with he | he
    · exact hx.1 e he
    · exact g1 e he

theorem good_fail {α : Type} (e : PErr) (str : α → List Nat) : GoodT (fail e : T α) str := by
  constructor
  · intro x hx; cases hx
  · intro a ha; cases ha

theorem good_ret {α : Type} (a : α) (str : α → List Nat) (h : validUtf8 (str a) = true) : GoodT (ret a) str := by
  constructor
  · intro x hx; cases hx
  · intro b hb; injection hb with hb; rw [← hb]; exact h

theorem good_lift {α : Type} (r : PRes α) (str : α → List Nat) (h : ∀ a, r = .ok a → validUtf8 (str a) = true) :
    GoodT (lift r) str := by
  constructor
  · intro x hx; cases hx
  · exact h

theorem good_sliced {α : Type} (src rest : List Nat) (a : α) (str : α → List Nat) (hv : validUtf8 src = true)
    (hb : BoundarySuffix src rest) (hs : str a = rest) : GoodT (sliced src rest a) str := by
  refine ⟨?_, ?_⟩
  · intro e he
    have : e = ⟨src, rest⟩ := by simpa [sliced] using he
    rw [this]; exact ⟨hv, hb⟩
  · intro b hb'
    injection hb' with hb'
    rw [← hb', hs]; exact bs_valid_rest hv hb

theorem numberT_good (s : List Nat) (min : Nat) (max : Option Nat) (hv : validUtf8 s = true)
    (hmm : ∀ m, max = some m → min ≤ m) : GoodT (numberT s min max) (·.1) := by
  unfold numberT
  cases h : number s min max with
  | error e => exact good_fail e _
  | ok a =>
    obtain ⟨r, v⟩ := a
    exact good_sliced s r _ _ hv (ScanBoundary.number_bs s min max r v hmm h) rfl

theorem charT_good (s : List Nat) (c : Nat) (hc : c < 128) (hv : validUtf8 s = true) : GoodT (charT s c) id := by
  unfold charT
  cases s with
  | nil => exact good_fail _ _
  | cons b t =>
    dsimp only
    split
    · rename_i hb
      exact good_sliced _ _ _ _ hv (bs_cons b t (by omega)) rfl
    · exact good_fail _ _

theorem nanosecondT_good (s : List Nat) (hv : validUtf8 s = true) : GoodT (nanosecondT s) (·.1) := by
  unfold nanosecondT
  refine good_bindT _ _ (·.1) _ (numberT_good s 1 (some 9) hv (by intro m hm; injection hm with hm; omega)) ?_
  rintro ⟨r, v⟩ ha
  have hr := (numberT_good s 1 (some 9) hv (by intro m hm; injection hm with hm; omega)).2 _ ha
  dsimp only at hr ⊢
  split
  · exact good_fail _ _
  · exact good_sliced _ _ _ _ hr (ScanBoundary.dropDigits_bs r) rfl

theorem tzSign_bs (s : List Nat) (ms : Bool) (r : List Nat) (neg : Bool) (h : tzSign s ms = .ok (r, neg)) :
    BoundarySuffix s r := by
  unfold tzSign at h
  split at h
  · injection h with h; injection h with h _; subst h; exact bs_cons 43 _ (by omega)
  · injection h with h; injection h with h _; subst h; exact bs_cons 45 _ (by omega)
  · split at h
    · injection h with h; injection h with h _; subst h
      exact ⟨[226, 136, 146], rfl, ScanBoundary.minus_sign_valid⟩
    · cases h
  · cases h
  · cases h

theorem tzSignT_good (s : List Nat) (ms : Bool) (hv : validUtf8 s = true) : GoodT (tzSignT s ms) (·.1) := by
  unfold tzSignT
  cases h : tzSign s ms with
  | error e => exact good_fail e _
  | ok a =>
    obtain ⟨r, neg⟩ := a
    exact good_sliced s r _ _ hv (tzSign_bs s ms r neg h) rfl

theorem tzZulu_bs (s : List Nat) (z : Bool) (r : List Nat) (h : tzZulu s z = some r) : BoundarySuffix s r := by
  unfold tzZulu at h
  split at h
  · split at h
    · injection h with h; subst h; exact bs_cons 90 _ (by omega)
    · injection h with h; subst h; exact bs_cons 122 _ (by omega)
    · cases h
  · cases h

theorem consumeColonT_good (cm : ColonMode) (s : List Nat) (hv : validUtf8 s = true) :
    GoodT (consumeColonT cm s) id := by
  cases cm
  · exact charT_good s 58 (by omega) hv
  · exact good_sliced _ _ _ _ hv (ScanBoundary.colon_or_space_bs s) rfl
  · exact good_ret _ _ hv

/-- after the minute digits have been matched, `&s[2..]` skips two ASCII bytes -/
theorem tzRestT_good (s : List Nat) (mm : Bool) (v : Int) (hv : validUtf8 s = true) (hm : tzMins s mm = .ok v) :
    GoodT (tzRestT s) id := by
  unfold tzRestT
  split
  · rename_i hl
    match s, hl, hm, hv with
    | m1 :: m2 :: t, _, hm, hv =>
      unfold tzMins at hm
      simp only at hm
      split at hm
      · rename_i hd
        have := Rfc2822.digit_of_isDigit hd.2.2
        exact good_sliced _ _ _ _ hv
          (bs_ascii [m1, m2] t (by intro b hb; simp at hb; rcases hb with rfl | rfl <;> omega)) rfl
      · split at hm <;> cases hm
  · split
    · exact good_ret _ _ hv
    · exact good_fail _ _

/-- `scan::timezone_offset`, every colon mode and flag combination, every run -/
theorem timezone_offsetT_good (s : List Nat) (cm : ColonMode) (z mm ms : Bool) (hv : validUtf8 s = true) :
    GoodT (timezone_offsetT s cm z mm ms) (·.1) := by
  unfold timezone_offsetT
  cases hz : tzZulu s z with
  | some r => exact good_sliced _ _ _ _ hv (tzZulu_bs s z r hz) rfl
  | none =>
    dsimp only
    refine good_bindT _ _ (·.1) _ (tzSignT_good s ms hv) ?_
    rintro ⟨s1, neg⟩ ha
    have hv1 := (tzSignT_good s ms hv).2 _ ha
    dsimp only at hv1 ⊢
    match s1, hv1 with
    | [], _ => exact good_fail _ _
    | [_], _ => exact good_fail _ _
    | h1 :: h2 :: s2, hv1 =>
      dsimp only
      cases hd : (Scan.isDigit h1 && Scan.isDigit h2) with
      | false => exact good_fail _ _
      | true =>
        simp only [if_true]
        simp only [Bool.and_eq_true] at hd
        have d1 := Rfc2822.digit_of_isDigit hd.1
        have d2 := Rfc2822.digit_of_isDigit hd.2
        have b2 : BoundarySuffix (h1 :: h2 :: s2) s2 :=
          bs_ascii [h1, h2] s2 (by intro b hb; simp at hb; rcases hb with rfl | rfl <;> omega)
        refine good_bindT _ _ id _ (good_sliced _ _ _ _ hv1 b2 rfl) ?_
        intro s2' ha2
        have hv2 : validUtf8 s2' = true := (good_sliced (α := List Nat) _ _ _ id hv1 b2 rfl).2 _ ha2
        refine good_bindT _ _ id _ (consumeColonT_good cm s2' hv2) ?_
        intro s3 ha3
        have hv3 : validUtf8 s3 = true := (consumeColonT_good cm s2' hv2).2 _ ha3
        refine good_bindT _ _ (fun _ => s3) _ (good_lift _ _ (fun _ _ => hv3)) ?_
        intro minutes hmin
        refine good_bindT _ _ id _ (tzRestT_good s3 mm minutes hv3 hmin) ?_
        intro s4 ha4
        exact good_ret _ _ ((tzRestT_good s3 mm minutes hv3 hmin).2 _ ha4)

theorem setFieldT_good (set : Parsed → Int → PRes Parsed) (p : Parsed) (r : T (List Nat × Int))
    (h : GoodT r (·.1)) : GoodT (setFieldT set p r) (·.2) := by
  unfold setFieldT
  refine good_bindT _ _ (·.1) _ h ?_
  rintro ⟨s', v⟩ ha
  have hv := h.2 _ ha
  refine good_lift _ _ ?_
  intro a hm
  cases hs : set p v with
  | error e => rw [hs] at hm; cases hm
  | ok p' => rw [hs] at hm; injection hm with hm; rw [← hm]; exact hv

theorem sepT_good (s : List Nat) (hv : validUtf8 s = true) : GoodT (sepT s) id := by
  unfold sepT
  cases s with
  | nil => exact good_fail _ _
  | cons b t =>
    dsimp only
    split
    · rename_i hb
      exact good_sliced _ _ _ _ hv (bs_cons b t (by omega)) rfl
    · exact good_fail _ _

theorem dotNanoT_good (p : Parsed) (s : List Nat) (hv : validUtf8 s = true) : GoodT (dotNanoT p s) (·.2) := by
  unfold dotNanoT
  split
  · rename_i rest
    have g0 : GoodT (sliced (46 :: rest) rest rest : T (List Nat)) id :=
      good_sliced _ _ _ _ hv (bs_cons 46 rest (by omega)) rfl
    refine good_bindT _ _ id _ g0 ?_
    intro r ha
    have hr : validUtf8 r = true := g0.2 _ ha
    refine good_bindT _ _ (·.1) _ (nanosecondT_good r hr) ?_
    rintro ⟨s', v⟩ ha'
    have hv' := (nanosecondT_good r hr).2 _ ha'
    refine good_lift _ _ ?_
    intro a hm
    cases hs : Parsed.set_nanosecond p v with
    | error e => rw [hs] at hm; cases hm
    | ok p' => rw [hs] at hm; injection hm with hm; rw [← hm]; exact hv'
  · exact good_ret _ _ hv

theorem two (m : Nat) (h : some 2 = some m) : 2 ≤ m := by injection h with h; omega
theorem four (m : Nat) (h : some 4 = some m) : 4 ≤ m := by injection h with h; omega

/-- **every run of the strict scanner on a `&str`**: all slices good, the remainder a `&str` -/
theorem parse_rfc3339T_good (p : Parsed) (s : List Nat) (hv : validUtf8 s = true) :
    GoodT (parse_rfc3339T p s) (·.2) := by
  unfold parse_rfc3339T
  have fld : ∀ (set : Parsed → Int → PRes Parsed) (p : Parsed) (s : List Nat) (k : Nat), validUtf8 s = true →
      GoodT (setFieldT set p (numberT s k (some k))) (·.2) := fun set p s k hv =>
    setFieldT_good set p _ (numberT_good s k (some k) hv (by intro m hm; injection hm with hm; omega))
  refine good_bindT _ _ (·.2) _ (fld _ p s 4 hv) ?_
  rintro ⟨p1, s1⟩ h1; have v1 := (fld _ p s 4 hv).2 _ h1; dsimp only at v1 ⊢
  refine good_bindT _ _ id _ (charT_good s1 45 (by omega) v1) ?_
  intro s2 h2; have v2 : validUtf8 s2 = true := (charT_good s1 45 (by omega) v1).2 _ h2
  refine good_bindT _ _ (·.2) _ (fld _ p1 s2 2 v2) ?_
  rintro ⟨p3, s3⟩ h3; have v3 := (fld _ p1 s2 2 v2).2 _ h3; dsimp only at v3 ⊢
  refine good_bindT _ _ id _ (charT_good s3 45 (by omega) v3) ?_
  intro s4 h4; have v4 : validUtf8 s4 = true := (charT_good s3 45 (by omega) v3).2 _ h4
  refine good_bindT _ _ (·.2) _ (fld _ p3 s4 2 v4) ?_
  rintro ⟨p5, s5⟩ h5; have v5 := (fld _ p3 s4 2 v4).2 _ h5; dsimp only at v5 ⊢
  refine good_bindT _ _ id _ (sepT_good s5 v5) ?_
  intro s6 h6; have v6 : validUtf8 s6 = true := (sepT_good s5 v5).2 _ h6
  refine good_bindT _ _ (·.2) _ (fld _ p5 s6 2 v6) ?_
  rintro ⟨p7, s7⟩ h7; have v7 := (fld _ p5 s6 2 v6).2 _ h7; dsimp only at v7 ⊢
  refine good_bindT _ _ id _ (charT_good s7 58 (by omega) v7) ?_
  intro s8 h8; have v8 : validUtf8 s8 = true := (charT_good s7 58 (by omega) v7).2 _ h8
  refine good_bindT _ _ (·.2) _ (fld _ p7 s8 2 v8) ?_
  rintro ⟨p9, s9⟩ h9; have v9 := (fld _ p7 s8 2 v8).2 _ h9; dsimp only at v9 ⊢
  refine good_bindT _ _ id _ (charT_good s9 58 (by omega) v9) ?_
  intro s10 h10; have v10 : validUtf8 s10 = true := (charT_good s9 58 (by omega) v9).2 _ h10
  refine good_bindT _ _ (·.2) _ (fld _ p9 s10 2 v10) ?_
  rintro ⟨p11, s11⟩ h11; have v11 := (fld _ p9 s10 2 v10).2 _ h11; dsimp only at v11 ⊢
  refine good_bindT _ _ (·.2) _ (dotNanoT_good p11 s11 v11) ?_
  rintro ⟨p12, s12⟩ h12; have v12 := (dotNanoT_good p11 s11 v11).2 _ h12; dsimp only at v12 ⊢
  refine good_bindT _ _ (·.1) _ (timezone_offsetT_good s12 .charColon true false true v12) ?_
  rintro ⟨s13, off⟩ h13; have v13 := (timezone_offsetT_good s12 .charColon true false true v12).2 _ h13
  dsimp only at v13 ⊢
  split
  · exact good_fail _ _
  · refine good_bindT _ _ (fun _ => s13) _ (good_lift _ _ (fun _ _ => v13)) ?_
    intro p14 _
    exact good_ret _ _ v13

end Chrono.Proofs.Rfc3339Slices
