/-
  C09 round trips of the zone-aware values: `DateTime<FixedOffset>` and `DateTime<Utc>`, both forms.
-/
import Chrono.Proofs.TextFormsRtL
import Chrono.Proofs.TextFormsFin
import Chrono.Props.C04
namespace Chrono.Proofs.TextForms
open Chrono Chrono.M Chrono.M.Scan Chrono.M.Format Chrono.M.TextForms
open Chrono.Proofs Chrono.Proofs.RenderScan Chrono.Spec Chrono.Spec.Text Chrono.Spec.Fields Chrono.Proofs.ParsedRes Chrono.Extracted

/-! ### writers -/

theorem naive_debug_text (y : Int) (o : Nat) (hvd : VD y o) (t : Time) (ht : TValid t) :
    naive_debug ⟨dateOfYo y o, t⟩ = wok (dateText y (monthOfYo y o) (dayOfYo y o) ++ (84 :: timeText t)) := by
  unfold naive_debug
  rw [date_debug_text y o ⟨hvd.1, hvd.2.1⟩ hvd.2.2, time_debug_text t ht]
  rfl

theorem naive_display_text (y : Int) (o : Nat) (hvd : VD y o) (t : Time) (ht : TValid t) :
    naive_display ⟨dateOfYo y o, t⟩ = wok (dateText y (monthOfYo y o) (dayOfYo y o) ++ (32 :: timeText t)) := by
  unfold naive_display
  rw [date_debug_text y o ⟨hvd.1, hvd.2.1⟩ hvd.2.2, time_debug_text t ht]
  rfl

/-! ### the wall clock of a zone-aware value -/

/-- a value whose wall clock is in range: the wall clock is an existing date and a time of day with
the same fraction field; with a whole-minute offset a leap second stays on second 59 -/
theorem local_facts (z : Zoned) (hz : ZInv z) (hm : z.off % 60 = 0) (hs : TStrict z.utc.time) (l : NaiveDT)
    (hl : Zoned.naive_local z = .ok l) :
    ∃ Y O, VD Y O ∧ l = ⟨dateOfYo Y O, l.time⟩ ∧ TStrict l.time ∧ Zoned.overflowing_naive_local z = .ok l := by
  obtain ⟨l', h1, h2, h3, h4, h5, h6⟩ := naive_local_spec z hz
  rw [hl] at h5
  by_cases hin : InRangeSecs (wallSecs z)
  · rw [if_pos hin] at h5
    injection h5 with h5
    subst h5
    have hdi := h6.mpr hin
    obtain ⟨hext, hy1, hy2⟩ := (dateInv_iff l.date).mp hdi
    obtain ⟨e1, e2⟩ := ext_eq l.date hext
    refine ⟨l.date.year, l.date.ordinal.toNat, ⟨hy1, hy2, e2.2.2.1, e2.2.2.2⟩, ?_, ?_, h1⟩
    · cases l with
      | mk d t => simp only [NaiveDT.mk.injEq, and_true]; exact e1
    · refine ⟨h2.2, ?_⟩
      obtain ⟨hv, hleap⟩ := hs
      rw [h4]
      rcases hleap with hleap | hleap
      · exact Or.inl hleap
      · right
        unfold instSecs wallSecs instSecs at h3
        generalize dayNumOf l.date = A at h3
        generalize dayNumOf z.utc.date = B at h3
        have : EPOCH_DAY = 719163 := rfl
        omega
  · rw [if_neg hin] at h5; cases h5

/-! ### the relaxed RFC 3339 reader on date, separator, time, offset tail -/

/-- `parse_rfc3339_relaxed` on the text of a date (any year of up to six digits, month 1–12, day
1–31), `T` or a space, the text of a time of day and a tail that the offset part of the reader (after
trimming white space) turns into `offv` -/
theorem relaxed_on_text (y : Int) (hy : -1000000 < y ∧ y < 1000000) (m d : Nat) (hm : 1 ≤ m ∧ m ≤ 12)
    (hd : 1 ≤ d ∧ d ≤ 31) (t : Time) (ht : TStrict t) (sep : Nat)
    (hsep : sep = 84 ∨ sep = 32) (tail tail' : List Nat) (offv : Int) (hoffv : -1000000 < offv ∧ offv < 1000000)
    (htail : TailOk tail) (htrim : trimStart (trimStart tail) = tail')
    (hT : (if tail'.length ≥ 3 ∧ lowerS (List.take 3 tail') = [117, 116, 99] then
             Except.ok (List.drop 3 tail', (0 : Int))
           else timezone_offset tail' .colonOrSpace true false true) = .ok ([], offv)) :
    Parse.parse_rfc3339_relaxed Parsed.new (dateText y m d ++ (sep :: (timeText t ++ tail))) =
      .ok (dtRecord y m d t (some offv), []) := by
  have hd := date_items Parsed.new rfl rfl rfl y hy m d hm hd (sep :: (timeText t ++ tail))
  have htm := time_items
    { Parsed.new with year := some y, month := some ((m : Nat) : Int), day := some ((d : Nat) : Int) }
    rfl rfl rfl rfl rfl t ht tail htail
  have hsepok : (if sep = 116 ∨ sep = 84 ∨ sep = 32 then (Except.ok (timeText t ++ tail) : PRes (List Nat))
      else Except.error PErr.invalid) = Except.ok (timeText t ++ tail) := by
    rw [if_pos (by omega)]
  unfold Parse.parse_rfc3339_relaxed
  simp only [bind, Except.bind, hd, hsepok, htm, htrim, hT]
  rw [set_offset_new _ rfl offv (by omega)]
  rfl

/-! ### resolution of the stored fields into the zone-aware value -/

theorem dateTextOf_yo (y : Int) (o : Nat) (hvd : VD y o) :
    dateTextOf (dateOfYo y o) = dateText y (monthOfYo y o) (dayOfYo y o) := by
  obtain ⟨h1, h2, _⟩ := dateOfYo_fields y o (by have := yearLen_ge y; have := hvd.2.2.2; omega)
  unfold dateTextOf
  rw [h1, h2, Int.toNat_natCast]

theorem to_datetime_record (z : Zoned) (hz : ZInv z) (l : NaiveDT) (hl : Zoned.naive_local z = .ok l)
    (Y : Int) (O : Nat) (hvd : VD Y O) (he : l = ⟨dateOfYo Y O, l.time⟩) (hst : TStrict l.time) :
    Parsed.to_datetime (dtRecord Y (monthOfYo Y O) (dayOfYo Y O) l.time (some z.off)) = .ok (.ok z) := by
  obtain ⟨a1, a2, a3, a4, a5, a6⟩ := vd_month_day Y O hvd
  obtain ⟨hu, ho⟩ := hz
  have ho' : -86400 < z.off ∧ z.off < 86400 := ho
  have hp := inType_dtRecord Y (monthOfYo Y O) (dayOfYo Y O) l.time hst (some z.off) ⟨a1, a2⟩ a4 a6
    (by intro x hx; injection hx with hx; omega)
  have hres := naive_resolves _ hp z.off (by omega) Y O hvd l.time hst
    ⟨rfl, rfl, rfl, rfl, rfl, rfl, rfl, rfl, rfl, rfl, rfl, rfl, rfl, rfl⟩ ⟨rfl, rfl, rfl, rfl, rfl⟩ rfl
  rw [← he] at hres
  have hback := (Chrono.Props.C04.utc_of_fromUtc z.off z.utc ho hu).2.2 l (by
    have : Zoned.from_utc_datetime z.off z.utc = z := by cases z; rfl
    rw [this]; exact hl)
  have hz' : Zoned.from_utc_datetime z.off z.utc = z := by cases z; rfl
  rw [hz'] at hback
  have heast : Zoned.east_opt z.off = some z.off := by
    unfold Zoned.east_opt; rw [if_pos ho']
  unfold Parsed.to_datetime
  have f1 : (dtRecord Y (monthOfYo Y O) (dayOfYo Y O) l.time (some z.off)).offset = some z.off := rfl
  simp only [f1, hres, Parsed.RP.bind, heast, hback]

/-- every text/offset pair accepted by the tail of the relaxed reader, packaged for the four forms -/
theorem fixed_from_text (z : Zoned) (hz : ZInv z) (hm : z.off % 60 = 0) (hs : TStrict z.utc.time) (l : NaiveDT)
    (hl : Zoned.naive_local z = .ok l) (sep : Nat) (hsep : sep = 84 ∨ sep = 32) (tail tail' : List Nat)
    (htail : TailOk tail) (htrim : trimStart (trimStart tail) = tail')
    (hT : (if tail'.length ≥ 3 ∧ lowerS (List.take 3 tail') = [117, 116, 99] then
             Except.ok (List.drop 3 tail', (0 : Int))
           else timezone_offset tail' .colonOrSpace true false true) = .ok ([], z.off)) :
    fixed_from_str (naiveText sep l ++ tail) = .ok (.ok z) := by
  obtain ⟨Y, O, hvd, he, hst, _⟩ := local_facts z hz hm hs l hl
  have ho : -86400 < z.off ∧ z.off < 86400 := hz.2
  have htext : naiveText sep l ++ tail =
      dateText Y (monthOfYo Y O) (dayOfYo Y O) ++ (sep :: (timeText l.time ++ tail)) := by
    unfold naiveText
    have : l.date = dateOfYo Y O := by rw [he]
    rw [this, dateTextOf_yo Y O hvd, List.append_assoc, List.cons_append]
  unfold fixed_from_str
  obtain ⟨a1, a2, a3, a4, a5, a6⟩ := vd_month_day Y O hvd
  rw [htext, relaxed_on_text Y ⟨a1, a2⟩ _ _ ⟨a3, a4⟩ ⟨a5, a6⟩ l.time hst sep hsep tail tail' z.off (by omega)
    htail htrim hT]
  simp only [trimStart_nil, ne_eq, not_true_eq_false, if_false]
  exact to_datetime_record z hz l hl Y O hvd he hst


/-! ### from the representation invariants to (year, ordinal) form -/

/-- a date satisfying the representation invariant is the `ordinal`-th day of its year -/
theorem date_of_inv (d : Date) (hd : DateInv d) :
    VD d.year d.ordinal.toNat ∧ d = dateOfYo d.year d.ordinal.toNat := by
  obtain ⟨hext, hy1, hy2⟩ := (dateInv_iff d).mp hd
  obtain ⟨e1, e2⟩ := ext_eq d hext
  exact ⟨⟨hy1, hy2, e2.2.2.1, e2.2.2.2⟩, e1⟩

/-- the same for a naive date-time, with the two texts spelled out -/
theorem naive_of_inv (dt : NaiveDT) (h : NDTInv dt) :
    VD dt.date.year dt.date.ordinal.toNat ∧ dt = ⟨dateOfYo dt.date.year dt.date.ordinal.toNat, dt.time⟩ ∧
    naiveText 84 dt = dateText dt.date.year (monthOfYo dt.date.year dt.date.ordinal.toNat)
        (dayOfYo dt.date.year dt.date.ordinal.toNat) ++ (84 :: timeText dt.time) ∧
    naiveText 32 dt = dateText dt.date.year (monthOfYo dt.date.year dt.date.ordinal.toNat)
        (dayOfYo dt.date.year dt.date.ordinal.toNat) ++ (32 :: timeText dt.time) := by
  obtain ⟨hvd, he⟩ := date_of_inv dt.date h.1
  refine ⟨hvd, ?_, rfl, rfl⟩
  cases dt with
  | mk d t => simp only [NaiveDT.mk.injEq, and_true]; exact he

end Chrono.Proofs.TextForms
