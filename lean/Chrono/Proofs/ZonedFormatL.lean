/-
  C04, clause "formatting acts on the wall-clock reading (also in the headroom day)": helper lemmas.

  * every text writer of a zone-aware value (`to_rfc3339`, `to_rfc3339_opts`, `to_rfc2822`, `Debug`,
    `Display`, `format` / `format_with_items`, `Serialize`) is the writer of the NAIVE value applied to
    `overflowing_naive_local` (never to the panicking `naive_local`);
  * the `Debug` / `Display` text of a naive reading is the specification text (`Spec.Text.naiveText`:
    signed year, month and day of the ordinal, clock fields of the second of day) on EVERY reading a
    wall clock can be — the dates of the range (C09's `date_debug_text`) and the two headroom days
    `BEFORE_MIN` / `AFTER_MAX` (kernel evaluation).
  Namespace `Chrono.Proofs.ZNF`.
-/
import Chrono.Proofs.ZonedStepL
import Chrono.Proofs.C15RenderL
import Chrono.Proofs.TextFormsL
import Chrono.Model.ParseFrom
import Chrono.Model.Rfc2822
import Chrono.Model.Rfc3339
import Chrono.Model.SerdeStr

namespace Chrono.Proofs.ZNF
open Chrono Chrono.M Chrono.M.Format Chrono.M.TextForms Chrono.Spec Chrono.Spec.Text Chrono.Proofs
open Chrono.Proofs.ZN Chrono.Extracted Chrono.Proofs.TextForms

/-- the text forms of the two headroom days are the specification text (`-262144-12-31`,
`+262143-01-01`) -/
theorem headroom_date_text :
    date_debug Date.BEFORE_MIN = wok (dateTextOf Date.BEFORE_MIN) ∧
    date_debug Date.AFTER_MAX = wok (dateTextOf Date.AFTER_MAX) ∧
    dateTextOf Date.BEFORE_MIN = [45, 50, 54, 50, 49, 52, 52, 45, 49, 50, 45, 51, 49] ∧
    dateTextOf Date.AFTER_MAX = [43, 50, 54, 50, 49, 52, 51, 45, 48, 49, 45, 48, 49] := by
  decide +kernel

/-- `Debug` of the date part, on every date a wall clock can have -/
theorem date_debug_wall (d : Date) (h : HeadOrIn d) : date_debug d = wok (dateTextOf d) := by
  rcases h with h | h | h
  · have he := (dateInv_iff d).mp h
    obtain ⟨e, _, _, v3, v4⟩ := ext_eq d he.1
    have hyl := yearLen_ge d.year
    obtain ⟨f1, f2, _⟩ := dateOfYo_fields d.year d.ordinal.toNat (by omega)
    have ht : dateTextOf d = dateText d.year (monthOfYo d.year d.ordinal.toNat) (dayOfYo d.year d.ordinal.toNat) := rfl
    rw [ht]
    conv => lhs; rw [e]
    exact date_debug_text d.year d.ordinal.toNat he.2 ⟨v3, v4⟩
  · rw [h]; exact headroom_date_text.1
  · rw [h]; exact headroom_date_text.2.1

/-- `Debug` / `Display` of a naive reading with a wall-clock date: date, `T` / space, time -/
theorem naive_text_wall (l : NaiveDT) (hd : HeadOrIn l.date) (ht : TValid l.time) :
    naive_debug l = wok (naiveText 84 l) ∧ naive_display l = wok (naiveText 32 l) := by
  constructor
  · unfold naive_debug
    rw [date_debug_wall l.date hd, time_debug_text l.time ht]
    rfl
  · unfold naive_display
    rw [date_debug_wall l.date hd, time_debug_text l.time ht]
    rfl

/-- `.expect(..)` of a writer that produced text -/
theorem expectText_wok (t : List Nat) : Rfc3339.expectText (wok t) = .ok t := rfl

/-- every text writer of a zone-aware value is the naive writer applied to `overflowing_naive_local` -/
theorem writers_of_wall (z : Zoned) (l : NaiveDT) (hl : Zoned.overflowing_naive_local z = .ok l) :
    (∀ sf use_z, Rfc3339.to_rfc3339_opts z sf use_z = Rfc3339.expectText (write_rfc3339 l z.off sf use_z)) ∧
    Rfc3339.to_rfc3339 z = Rfc3339.expectText (write_rfc3339 l z.off .autoSi false) ∧
    Rfc2822.to_rfc2822 z = Rfc3339.expectText (write_rfc2822 l z.off) ∧
    Serde.DateTimeStr.serialize z = write_rfc3339 l z.off .autoSi true ∧
    (∀ offText, zoned_debug z offText = (naive_debug l).seq (wok offText)) ∧
    (∀ offText, zoned_display z offText = (naive_display l).seq ((wok [32]).seq (wok offText))) ∧
    (∀ items, ParseFrom.formatItemsOf (.zoned z) items =
      formatItemsR (some l.date) (some l.time) (some (fixedOffsetName z.off, z.off)) items) ∧
    (∀ fmt, ParseFrom.format (.zoned z) fmt =
      formatItemsR (some l.date) (some l.time) (some (fixedOffsetName z.off, z.off)) (Strftime.items fmt)) := by
  refine ⟨?_, ?_, ?_, ?_, ?_, ?_, ?_, ?_⟩
  · intro sf use_z; unfold Rfc3339.to_rfc3339_opts; rw [hl]; rfl
  · unfold Rfc3339.to_rfc3339; rw [hl]; rfl
  · unfold Rfc2822.to_rfc2822 Rfc3339.expectText; rw [hl]; rfl
  · unfold Serde.DateTimeStr.serialize; rw [hl]
  · intro o; unfold zoned_debug; rw [hl]; rfl
  · intro o; unfold zoned_display; rw [hl]; rfl
  · intro items; show W.ofRes z.overflowing_naive_local _ = _; rw [hl]; rfl
  · intro fmt; show W.ofRes z.overflowing_naive_local _ = _; rw [hl]; rfl

end Chrono.Proofs.ZNF
