/- Helper lemmas for C03: date-time arithmetic = time-of-day arithmetic (C07) + day shift (this file's
   import) glued by the carry. -/
import Chrono.Proofs.DateArithL
import Chrono.Proofs.TimeL
import Chrono.Model.ArithOps

namespace Chrono.Proofs
open Chrono Chrono.M Chrono.Spec Chrono.Extracted

theorem wholeDays_secs (c : Int) (hc : c % 86400 = 0) : wholeDays (ns ⟨c, 0⟩) = c / 86400 := by
  unfold wholeDays ns NS_PER_DAY
  dsimp only
  rw [tdiv_eq]
  split <;> omega

theorem dshift_congr (d : Date) (k k' : Int) (r : Option Date) (h : k = k') (hs : IsDayShift d k r) :
    IsDayShift d k' r := by subst h; exact hs

/-- the carry of the time-of-day addition, applied to the date: the general statement (leap-second
operands included) -/
theorem dt_add_general (dt : NaiveDT) (δ : Delta) (hdt : NDTInv dt) (hδ : DInv δ) :
    ∃ r, NaiveDT.checked_add_signed dt δ = .ok r ∧
      IsDayShift dt.date ((addLeap dt.time (ns δ)).2 / 86400) (r.map (·.date)) ∧
      ∀ x, r = some x → x.time = (addLeap dt.time (ns δ)).1 := by
  obtain ⟨hd, ht⟩ := hdt
  unfold NaiveDT.checked_add_signed
  rw [add_spec' dt.time δ ht hδ, rbind_ok]
  have hm := (addLeap_facts dt.time (ns δ) ht).2.1
  have hr : -9223372036854775807000000 ≤ ns δ ∧ ns δ ≤ 9223372036854775807000000 := by
    have := hδ.2.2
    simp only [nsInRange, NS_MAX] at this
    omega
  have hb := addLeap_carry_bound dt.time (ns δ) ht hr
  generalize addLeap dt.time (ns δ) = p at *
  obtain ⟨t', c⟩ := p
  dsimp only at hm hb ⊢
  unfold Delta.try_seconds
  rw [new_iff' c 0 (by omega)]
  by_cases hin : (0:Int) < 1000000000 ∧ nsInRange (ns ⟨c, 0⟩)
  · rw [if_pos hin]
    dsimp only
    have hdc : DInv ⟨c, 0⟩ := ⟨by dsimp only; omega, by dsimp only; omega, hin.2⟩
    obtain ⟨r, h1, h2⟩ := date_add_signed_spec dt.date ⟨c, 0⟩ hd hdc
    rw [h1, rbind_ok]
    rw [wholeDays_secs c hm] at h2
    cases r with
    | none => exact ⟨none, rfl, h2, by intro x h; cases h⟩
    | some d' =>
      refine ⟨some ⟨d', t'⟩, rfl, h2, ?_⟩
      intro x h
      rw [← Option.some.inj h]
  · rw [if_neg hin]
    dsimp only
    refine ⟨none, rfl, ?_, by intro x h; cases h⟩
    apply shift_none dt.date _ hd
    simp only [nsInRange, ns, NS_MAX] at hin
    omega

theorem dt_sub_general (dt : NaiveDT) (δ : Delta) (hdt : NDTInv dt) (hδ : DInv δ) :
    ∃ r, NaiveDT.checked_sub_signed dt δ = .ok r ∧
      IsDayShift dt.date ((addLeap dt.time (-(ns δ))).2 / 86400) (r.map (·.date)) ∧
      ∀ x, r = some x → x.time = (addLeap dt.time (-(ns δ))).1 := by
  obtain ⟨hd, ht⟩ := hdt
  unfold NaiveDT.checked_sub_signed
  rw [sub_spec' dt.time δ ht hδ, rbind_ok]
  have hm := (addLeap_facts dt.time (-(ns δ)) ht).2.1
  have hr : -9223372036854775807000000 ≤ -(ns δ) ∧ -(ns δ) ≤ 9223372036854775807000000 := by
    have := hδ.2.2
    simp only [nsInRange, NS_MAX] at this
    omega
  have hb := addLeap_carry_bound dt.time (-(ns δ)) ht hr
  generalize addLeap dt.time (-(ns δ)) = p at *
  obtain ⟨t', c⟩ := p
  dsimp only at hm hb ⊢
  unfold Delta.try_seconds
  rw [new_iff' (-c) 0 (by omega)]
  by_cases hin : (0:Int) < 1000000000 ∧ nsInRange (ns ⟨-c, 0⟩)
  · rw [if_pos hin]
    dsimp only
    have hdc : DInv ⟨-c, 0⟩ := ⟨by dsimp only; omega, by dsimp only; omega, hin.2⟩
    obtain ⟨r, h1, h2⟩ := date_sub_signed_spec dt.date ⟨-c, 0⟩ hd hdc
    rw [h1, rbind_ok]
    rw [wholeDays_secs (-c) (by omega)] at h2
    have h2' := dshift_congr dt.date _ (c / 86400) r (by omega) h2
    cases r with
    | none => exact ⟨none, rfl, h2', by intro x h; cases h⟩
    | some d' =>
      refine ⟨some ⟨d', t'⟩, rfl, h2', ?_⟩
      intro x h
      rw [← Option.some.inj h]
  · rw [if_neg hin]
    dsimp only
    refine ⟨none, rfl, ?_, by intro x h; cases h⟩
    apply shift_none dt.date _ hd
    simp only [nsInRange, ns, NS_MAX] at hin
    omega

/-! ### non-leap operands: instants -/

theorem ns_consts : NS_MIN = -8334601228800000000000 ∧ NS_MAX_DT = 8210266876799999999999 ∧
    EPOCH_DAY = 719163 := by decide

/-- from the general statement to instants: a non-leap operand moved by `k` ns -/
theorem inst_of_general (dt : NaiveDT) (k : Int) (r : Option NaiveDT) (hdt : NDTInv dt) (hnl : NonLeap dt)
    (h1 : IsDayShift dt.date ((addLeap dt.time k).2 / 86400) (r.map (·.date)))
    (h2 : ∀ x, r = some x → x.time = (addLeap dt.time k).1) : IsInstShift dt k r := by
  obtain ⟨hd, ht⟩ := hdt
  obtain ⟨f1, f2, f3, _⟩ := addLeap_facts dt.time k ht
  obtain ⟨g1, g2⟩ := f3 hnl
  obtain ⟨c1, c2, _⟩ := dn_consts
  obtain ⟨n1, n2, n3⟩ := ns_consts
  have hb := dn_bounds dt.date hd
  unfold IsInstShift
  unfold IsDayShift at h1
  rw [c1, c2] at h1
  rw [n1, n2]
  unfold instNs instSecs
  rw [n3]
  unfold pos at g2
  unfold TValid at f1 ht
  unfold NonLeap at hnl
  generalize addLeap dt.time k = p at *
  obtain ⟨t', c⟩ := p
  dsimp only at *
  obtain ⟨h1a, h1b⟩ := h1
  constructor
  · cases r with
    | none =>
      have := h1a.mp rfl
      constructor
      · intro _; omega
      · intro _; rfl
    | some x =>
      have hx := h1b x.date rfl
      constructor
      · intro h; cases h
      · intro h
        exfalso
        have : ¬ ((some x : Option NaiveDT).map (·.date) = none) := by simp
        apply this
        apply h1a.mpr
        omega
  · intro x hx
    subst hx
    have hx := h1b x.date rfl
    have ht' := h2 x rfl
    unfold NDTInv NonLeap TValid
    rw [ht']
    refine ⟨⟨hx.1, f1⟩, g1, ?_⟩
    rw [hx.2]
    omega

theorem dt_add_exact (dt : NaiveDT) (δ : Delta) (hdt : NDTInv dt) (hnl : NonLeap dt) (hδ : DInv δ) :
    ∃ r, NaiveDT.checked_add_signed dt δ = .ok r ∧ IsInstShift dt (ns δ) r := by
  obtain ⟨r, h0, h1, h2⟩ := dt_add_general dt δ hdt hδ
  exact ⟨r, h0, inst_of_general dt (ns δ) r hdt hnl h1 h2⟩

theorem dt_sub_exact (dt : NaiveDT) (δ : Delta) (hdt : NDTInv dt) (hnl : NonLeap dt) (hδ : DInv δ) :
    ∃ r, NaiveDT.checked_sub_signed dt δ = .ok r ∧ IsInstShift dt (-(ns δ)) r := by
  obtain ⟨r, h0, h1, h2⟩ := dt_sub_general dt δ hdt hδ
  exact ⟨r, h0, inst_of_general dt (-(ns δ)) r hdt hnl h1 h2⟩

/-! ### uniqueness: day numbers and instants determine the value -/

theorem dayNum_inj (a b : Date) (ha : DateInv a) (hb : DateInv b) (h : dayNumOf a = dayNumOf b) : a = b := by
  obtain ⟨ea, a1, a2, a3⟩ := inv_eq a ha
  obtain ⟨eb, b1, b2, b3⟩ := inv_eq b hb
  have := (order_spec a.year b.year a.ordinal.toNat b.ordinal.toNat ⟨a1, a2⟩ ⟨b1, b2⟩).2
  apply date_eq_of_yof
  rw [ea, eb]
  apply this.mpr
  unfold dayNumOf at h
  rw [a3, b3]
  exact h

theorem dayShift_unique' (d : Date) (k : Int) (r r' : Option Date) (h : IsDayShift d k r)
    (h' : IsDayShift d k r') : r = r' := by
  cases r with
  | none =>
    cases r' with
    | none => rfl
    | some x' => have := h'.1.mpr (h.1.mp rfl); cases this
  | some x =>
    cases r' with
    | none => have := h.1.mpr (h'.1.mp rfl); cases this
    | some x' =>
      obtain ⟨i1, e1⟩ := h.2 x rfl
      obtain ⟨i2, e2⟩ := h'.2 x' rfl
      rw [dayNum_inj x x' i1 i2 (by omega)]

theorem inst_bounds (a : NaiveDT) (ha : NDTInv a) (hnl : NonLeap a) :
    NS_MIN ≤ instNs a ∧ instNs a ≤ NS_MAX_DT := by
  obtain ⟨n1, n2, n3⟩ := ns_consts
  have hb := dn_bounds a.date ha.1
  have ht := ha.2
  unfold TValid at ht
  unfold NonLeap at hnl
  rw [n1, n2]
  unfold instNs instSecs
  rw [n3]
  omega

theorem inst_inj (a b : NaiveDT) (ha : NDTInv a) (hb : NDTInv b) (la : NonLeap a) (lb : NonLeap b)
    (h : instNs a = instNs b) : a = b := by
  have ta := ha.2
  have tb := hb.2
  unfold TValid at ta tb
  unfold NonLeap at la lb
  unfold instNs instSecs at h
  have hd : dayNumOf a.date = dayNumOf b.date := by omega
  have hdate := dayNum_inj a.date b.date ha.1 hb.1 hd
  obtain ⟨da, ⟨sa, fa⟩⟩ := a
  obtain ⟨db, ⟨sb, fb⟩⟩ := b
  dsimp only at *
  subst hdate
  have : sa = sb := by omega
  subst this
  have : fa = fb := by omega
  subst this
  rfl

theorem instShift_unique' (dt : NaiveDT) (k : Int) (r r' : Option NaiveDT) (h : IsInstShift dt k r)
    (h' : IsInstShift dt k r') : r = r' := by
  cases r with
  | none =>
    cases r' with
    | none => rfl
    | some x' => have := h'.1.mpr (h.1.mp rfl); cases this
  | some x =>
    cases r' with
    | none => have := h.1.mpr (h'.1.mp rfl); cases this
    | some x' =>
      obtain ⟨i1, l1, e1⟩ := h.2 x rfl
      obtain ⟨i2, l2, e2⟩ := h'.2 x' rfl
      rw [inst_inj x x' i1 i2 l1 l2 (by omega)]

/-! ### differences -/

theorem dt_diff_general (a b : NaiveDT) (ha : NDTInv a) (hb : NDTInv b) :
    NaiveDT.signed_duration_since a b =
      .ok (ofNs ((dayNumOf a.date - dayNumOf b.date) * NS_PER_DAY + diffLeap a.time b.time)) ∧
    nsInRange ((dayNumOf a.date - dayNumOf b.date) * NS_PER_DAY + diffLeap a.time b.time) := by
  obtain ⟨d1, d2⟩ := date_diff_spec a.date b.date ha.1 hb.1
  obtain ⟨t1, t2, t3, t4⟩ := diff_spec' a.time b.time ha.2 hb.2
  have ba := dn_bounds a.date ha.1
  have bb := dn_bounds b.date hb.1
  have hN : NS_PER_DAY = 86400000000000 := rfl
  have hr1 : nsInRange ((dayNumOf a.date - dayNumOf b.date) * NS_PER_DAY) := by
    simp only [nsInRange, NS_MAX, hN]; omega
  have hr2 : nsInRange (diffLeap a.time b.time) := by simp only [nsInRange, NS_MAX]; omega
  have hr3 : nsInRange ((dayNumOf a.date - dayNumOf b.date) * NS_PER_DAY + diffLeap a.time b.time) := by
    simp only [nsInRange, NS_MAX, hN]; omega
  refine ⟨?_, hr3⟩
  unfold NaiveDT.signed_duration_since
  rw [d1, rbind_ok, t1, rbind_ok, add_exact' _ _ d2 t2, rbind_ok, (ofNs_spec' _ hr1).2,
    (ofNs_spec' _ hr2).2, if_pos hr3]

theorem diffLeap_nonleap (a b : Time) (ha : a.frac < 1000000000) (hb : b.frac < 1000000000) :
    diffLeap a b = pos a - pos b := by
  unfold diffLeap linePos
  rw [if_neg (by omega), if_neg (by omega)]
  omega

theorem dt_diff_exact (a b : NaiveDT) (ha : NDTInv a) (hb : NDTInv b) (la : NonLeap a) (lb : NonLeap b) :
    NaiveDT.signed_duration_since a b = .ok (ofNs (instNs a - instNs b)) ∧
    nsInRange (instNs a - instNs b) := by
  obtain ⟨h1, h2⟩ := dt_diff_general a b ha hb
  have e : (dayNumOf a.date - dayNumOf b.date) * NS_PER_DAY + diffLeap a.time b.time = instNs a - instNs b := by
    rw [diffLeap_nonleap a.time b.time la lb]
    unfold instNs instSecs pos NS_PER_DAY
    omega
  rw [e] at h1 h2
  exact ⟨h1, h2⟩

/-- `b + (a − b) = a` and `a − (a − b) = b` -/
theorem dt_add_diff (a b : NaiveDT) (ha : NDTInv a) (hb : NDTInv b) (la : NonLeap a) (lb : NonLeap b) :
    NaiveDT.checked_add_signed b (ofNs (instNs a - instNs b)) = .ok (some a) ∧
    NaiveDT.checked_sub_signed a (ofNs (instNs a - instNs b)) = .ok (some b) := by
  obtain ⟨_, hr⟩ := dt_diff_exact a b ha hb la lb
  obtain ⟨hi, hn⟩ := ofNs_spec' _ hr
  have iba := inst_bounds a ha la
  have ibb := inst_bounds b hb lb
  constructor
  · obtain ⟨r, h0, h1, h2⟩ := dt_add_exact b _ hb lb hi
    rw [hn] at h1 h2
    rw [h0]
    cases r with
    | none => have := h1.mp rfl; omega
    | some x =>
      obtain ⟨i1, l1, e1⟩ := h2 x rfl
      rw [inst_inj x a i1 ha l1 la (by omega)]
  · obtain ⟨r, h0, h1, h2⟩ := dt_sub_exact a _ ha la hi
    rw [hn] at h1 h2
    rw [h0]
    cases r with
    | none => have := h1.mp rfl; omega
    | some x =>
      obtain ⟨i1, l1, e1⟩ := h2 x rfl
      rw [inst_inj x b i1 hb l1 lb (by omega)]

/-! ### order -/

theorem date_cmp_spec (a b : Date) (ha : DateInv a) (hb : DateInv b) :
    Date.cmp a b = sgn (dayNumOf a - dayNumOf b) := by
  obtain ⟨ea, a1, a2, a3⟩ := inv_eq a ha
  obtain ⟨eb, b1, b2, b3⟩ := inv_eq b hb
  obtain ⟨o1, o2⟩ := order_spec a.year b.year a.ordinal.toNat b.ordinal.toNat ⟨a1, a2⟩ ⟨b1, b2⟩
  rw [← ea, ← eb, a3, b3] at o1 o2
  obtain ⟨p1, p2⟩ := order_spec b.year a.year b.ordinal.toNat a.ordinal.toNat ⟨b1, b2⟩ ⟨a1, a2⟩
  rw [← ea, ← eb, a3, b3] at p1
  unfold Date.cmp sgn dayNumOf
  by_cases h : a.yof < b.yof
  · rw [if_pos h, if_pos (by have := o1.mp h; omega)]
  · rw [if_neg h]
    by_cases h2 : a.yof > b.yof
    · have := p1.mp h2
      rw [if_pos h2, if_neg (by omega), if_pos (by omega)]
    · have : a.yof = b.yof := by omega
      have := o2.mp this
      rw [if_neg h2, if_neg (by omega), if_neg (by omega)]

theorem dt_cmp_spec (a b : NaiveDT) (ha : NDTInv a) (hb : NDTInv b) (la : NonLeap a) (lb : NonLeap b) :
    NaiveDT.cmp a b = sgn (instNs a - instNs b) := by
  have ta := ha.2
  have tb := hb.2
  unfold TValid at ta tb
  unfold NonLeap at la lb
  unfold NaiveDT.cmp
  dsimp only
  rw [date_cmp_spec a.date b.date ha.1 hb.1]
  unfold sgn Time.cmp instNs instSecs
  repeat' split
  all_goals omega

end Chrono.Proofs
