/- Helper lemmas for C06 (second audit, gap G3): the deserialising constructor `new(secs, nanos as u32)`. -/
import Chrono.Proofs.DeltaOpsL

namespace Chrono.Proofs.DeltaSerde
open Chrono Chrono.M Chrono.Spec Chrono.Proofs

/-- the `as u32` cast of an `i32`: the identity on non-negative values, at least 2³¹ on negative ones -/
theorem asU32_i32 (n : Int) (hn : -2147483648 ≤ n ∧ n ≤ 2147483647) :
    0 ≤ asU32 n ∧ (0 ≤ n → asU32 n = n) ∧ (n < 0 → 2147483648 ≤ asU32 n) := by
  unfold asU32; omega

theorem deserialize_spec' (secs nanos : Int) (hn : -2147483648 ≤ nanos ∧ nanos ≤ 2147483647) :
    Delta.deserialize secs nanos =
      if 0 ≤ nanos ∧ nanos < 1000000000 ∧ nsInRange (ns ⟨secs, nanos⟩) then some ⟨secs, nanos⟩ else none := by
  obtain ⟨h0, hid, hneg⟩ := asU32_i32 nanos hn
  unfold Delta.deserialize
  rw [new_iff' secs (asU32 nanos) h0]
  by_cases hs : 0 ≤ nanos
  · rw [hid hs]
    by_cases hc : nanos < 1000000000 ∧ nsInRange (ns ⟨secs, nanos⟩)
    · rw [ite_pos' _ _ hc, ite_pos' _ _ ⟨hs, hc.1, hc.2⟩]
    · rw [ite_neg' _ _ hc, ite_neg' _ _ (fun h => hc ⟨h.2.1, h.2.2⟩)]
  · have := hneg (by omega)
    rw [ite_neg' _ _ (fun h => by omega), ite_neg' _ _ (fun h => hs h.1)]

end Chrono.Proofs.DeltaSerde
