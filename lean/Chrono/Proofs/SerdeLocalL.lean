/-
  `Deserialize for DateTime<Local>` never panics when the process zone comes from the readers
  (F32 repaired): the hypothesis `htz : ∀ u, OffValid (tzOff u)` of `Props.C20.visit_str_never_panics`
  discharged from `Proofs.TzLocal.local_offset_ok`.
-/
import Chrono.Model.SerdeLocal
import Chrono.Proofs.SerdeVisitL
import Chrono.Proofs.TimestampL
import Chrono.Proofs.TzLocalL

namespace Chrono.Proofs.SerdeLocal
open Chrono Chrono.M Chrono.M.Serde Chrono.Spec Chrono.Spec.Ts

theorem ts_consts : TS_MIN = M.TzL.NDT_MIN_TS ∧ TS_MAX = M.TzL.NDT_MAX_TS := by decide +kernel

/-- for ANY zone that is `InstantSafe` with representable offsets: an error or a valid value whose
offset is the one the zone prescribes at its instant — never a panic -/
theorem local_zone_total (zn : M.Tz.Zone) (hi : Chrono.Proofs.TzLocal.InstantSafe zn)
    (hw : ∀ t ∈ Chrono.Proofs.TzLocal.zoneTypes zn, Spec.Tz.Within24h t.off) (s : List Nat) :
    ∃ r, DateTimeStr.deserialize_local_zone zn s = .ok r ∧
      ∀ z, r = .ok z → ZInv z ∧ M.TzL.local_offset_from_utc_datetime zn (instSecs z.utc) = .ok z.off := by
  obtain ⟨r, hr, hv⟩ := Chrono.Proofs.SerdeVisit.fixed_total s
  unfold DateTimeStr.deserialize_local_zone
  rw [hr]
  cases r with
  | err => exact ⟨_, rfl, fun z hz => by cases hz⟩
  | ok a =>
    have ha := (hv a rfl).1
    have hrng := Chrono.Proofs.Ts.instSecs_range a.utc ha
    rw [ts_consts.1, ts_consts.2] at hrng
    obtain ⟨o, ho, -, hwo, -⟩ := Chrono.Proofs.TzLocal.local_offset_ok zn hi hw (instSecs a.utc) hrng
    refine ⟨.ok (a.with_timezone o), ?_, ?_⟩
    · show (match M.TzL.local_offset_from_utc_datetime zn (instSecs a.utc) with
        | .panic => Res.panic
        | .ok o => Res.ok (SR.ok (a.with_timezone o))) = _
      rw [ho]
    · intro z hz
      injection hz with hz
      subst hz
      exact ⟨⟨ha, hwo⟩, ho⟩

end Chrono.Proofs.SerdeLocal
