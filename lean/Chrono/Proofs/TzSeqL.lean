/- C05, second review gaps 1 and 3:
   * the per-year rule decision (`ruleDst`) equals the transition-sequence reading (`ruleDstSeq`) exactly
     when the start/end order is the same every year (`OrderStable`); what happens when it flips;
   * the composed wall-clock statement with the footer rule's boundary seconds excepted only beyond the
     last table window. -/
import Chrono.Spec.ZoneSeqSpec
import Chrono.Proofs.TzYearlyL

set_option linter.unusedSimpArgs false
set_option linter.unusedVariables false

namespace Chrono.Proofs.TzL
open Chrono Chrono.M.Tz Chrono.M.TzL Chrono.Spec.Zone Chrono.Extracted.TzL Chrono.Proofs

/-! ### the day count is monotone -/

theorem dBY_step_le (y : Int) : daysBeforeYear y + 365 ≤ daysBeforeYear (y + 1) := by
  have r := (daysBeforeYear_rec y).2
  rw [r]; split <;> omega

/-! ### rule transitions are localised by `InsideYear` -/

theorem inside_before (a : Alt) (hin : InsideYear a) (y Y : Int) (h : y < Y) :
    startAt a y < daysBeforeYear Y * 86400 - 86400 ∧ endAt a y < daysBeforeYear Y * 86400 - 86400 := by
  have i := hin y
  have m := dBY_mono (y + 1) Y (by omega)
  constructor <;> omega

theorem inside_after (a : Alt) (hin : InsideYear a) (y Y : Int) (h : Y < y) :
    daysBeforeYear (Y + 1) * 86400 + 86400 < startAt a y ∧ daysBeforeYear (Y + 1) * 86400 + 86400 < endAt a y := by
  have i := hin y
  have m := dBY_mono (Y + 1) y (by omega)
  constructor <;> omega

/-- under `InsideYear` no rule transition of any year lies within a day of any year boundary -/
theorem inside_no_transition_near_boundary (a : Alt) (hin : InsideYear a) (Y y : Int) :
    ¬ (daysBeforeYear Y * 86400 - 86400 ≤ startAt a y ∧ startAt a y ≤ daysBeforeYear Y * 86400 + 86400) ∧
    ¬ (daysBeforeYear Y * 86400 - 86400 ≤ endAt a y ∧ endAt a y ≤ daysBeforeYear Y * 86400 + 86400) := by
  have s := dBY_step_le Y
  rcases Int.lt_trichotomy y Y with l | e | g
  · have := inside_before a hin y Y l
    constructor <;> omega
  · subst e
    have := hin y
    constructor <;> omega
  · have := inside_after a hin y Y g
    constructor <;> omega

/-! ### `OrderStable` holds between any two years -/

theorem orderStable_nat (a : Alt) (ho : OrderStable a) (y : Int) (n : Nat) :
    (startAt a (y + n) ≤ endAt a (y + n)) ↔ (startAt a y ≤ endAt a y) := by
  induction n with
  | zero => simp
  | succ k ih =>
    have e : y + ((k + 1 : Nat) : Int) = (y + k) + 1 := by omega
    rw [e, ← ho (y + k)]
    exact ih

theorem orderStable_all (a : Alt) (ho : OrderStable a) (y y' : Int) :
    (startAt a y ≤ endAt a y) ↔ (startAt a y' ≤ endAt a y') := by
  by_cases c : y ≤ y'
  · have := orderStable_nat a ho y (y' - y).toNat
    have e : y + ((y' - y).toNat : Int) = y' := by omega
    rw [e] at this
    exact this.symm
  · have := orderStable_nat a ho y' (y - y').toNat
    have e : y' + ((y - y').toNat : Int) = y := by omega
    rw [e] at this
    exact this

theorem orderStableAt_add400 (a : Alt) (y : Int) : OrderStableAt a (y + 400) ↔ OrderStableAt a y := by
  unfold OrderStableAt
  have e : y + 400 + 1 = (y + 1) + 400 := by omega
  rw [e]
  simp only [startAt_add400, endAt_add400]
  omega

/-! ### the per-year decision and the transition sequence -/

/-- `ruleDstSeq` is a step function of the rule's transitions: it cannot change between two instants
that have no rule transition of any year in between (no hypothesis on the rule at all) -/
theorem ruleDstSeq_const (a : Alt) (u v : Int) (huv : u ≤ v)
    (hS : ∀ y, ¬ (u < startAt a y ∧ startAt a y ≤ v)) (hE : ∀ y, ¬ (u < endAt a y ∧ endAt a y ≤ v)) :
    ruleDstSeq a u ↔ ruleDstSeq a v := by
  unfold ruleDstSeq
  constructor
  · rintro ⟨y, h1, h2⟩
    refine ⟨y, by omega, ?_⟩
    intro y' hy'
    have := hE y'
    exact h2 y' (by omega)
  · rintro ⟨y, h1, h2⟩
    have := hS y
    refine ⟨y, by omega, ?_⟩
    intro y' hy'
    exact h2 y' (by omega)

/-- the per-year decision `ruleDst` (the code's, and the spec `offAt`'s) IS the transition-sequence
reading whenever the start/end order is the same every year -/
theorem ruleDst_eq_seq' (a : Alt) (hin : InsideYear a) (ho : OrderStable a) (t : Int) :
    ruleDst a t = true ↔ ruleDstSeq a t := by
  have hY := yearOf_spec (t / 86400)
  unfold ruleDst
  generalize yearOf (t / 86400) = Y at *
  have bt := bounds_of_isYearOf t Y hY
  have iY := hin Y
  have iYm := hin (Y - 1)
  have em : Y - 1 + 1 = Y := by omega
  rw [em] at iYm
  unfold ruleDstIn ruleDstSeq
  by_cases c : startAt a Y ≤ endAt a Y
  · simp only [c, if_true, decide_eq_true_eq]
    constructor
    · intro h
      refine ⟨Y, h.1, ?_⟩
      intro y' hy'
      rcases Int.lt_trichotomy y' Y with l | e | g
      · have := inside_before a hin y' Y l; omega
      · subst e; omega
      · have := inside_after a hin y' Y g; omega
    · rintro ⟨y, hy, hall⟩
      rcases Int.lt_trichotomy y Y with l | e | g
      · have b := inside_before a hin y Y l
        have cy := (orderStable_all a ho Y y).mp c
        have := hall y (by omega)
        omega
      · subst e
        refine ⟨hy, ?_⟩
        by_cases hn : t < endAt a y
        · exact hn
        · have := hall y (by omega); omega
      · have := inside_after a hin y Y g; omega
  · simp only [c, if_false, Bool.not_eq_true', decide_eq_false_iff_not]
    constructor
    · intro h
      by_cases d : startAt a Y ≤ t
      · refine ⟨Y, d, ?_⟩
        intro y' hy'
        rcases Int.lt_trichotomy y' Y with l | e | g
        · have := inside_before a hin y' Y l; omega
        · subst e; omega
        · have := inside_after a hin y' Y g; omega
      · have d' : t < endAt a Y := by omega
        have cm : ¬ startAt a (Y - 1) ≤ endAt a (Y - 1) := fun hh => c ((orderStable_all a ho (Y - 1) Y).mp hh)
        refine ⟨Y - 1, by omega, ?_⟩
        intro y' hy'
        rcases Int.lt_trichotomy y' (Y - 1) with l | e | g
        · have := inside_before a hin y' (Y - 1) l; omega
        · subst e; omega
        · rcases Int.lt_trichotomy y' Y with l2 | e2 | g2
          · omega
          · subst e2; omega
          · have := inside_after a hin y' Y g2; omega
    · rintro ⟨y, hy, hall⟩ ⟨h1, h2⟩
      rcases Int.lt_trichotomy y Y with l | e | g
      · have b := inside_before a hin y Y l
        have := hall Y h1
        omega
      · subst e; omega
      · have := inside_after a hin y Y g; omega

/-- WHAT HAPPENS WHEN THE ORDER FLIPS, north-shaped year `Y-1` followed by a south-shaped year `Y`: the
per-year decision says standard time in the last second of `Y-1` and daylight time in the first second
of `Y`, although no rule transition of any year lies within a day of that boundary; the transition
sequence says standard time at both (the latest transition before the boundary is the end of `Y-1`) -/
theorem order_flip_north_south (a : Alt) (hin : InsideYear a) (Y : Int)
    (h1 : startAt a (Y - 1) ≤ endAt a (Y - 1)) (h2 : ¬ startAt a Y ≤ endAt a Y) :
    ruleDst a (daysBeforeYear Y * 86400 - 1) = false ∧ ruleDst a (daysBeforeYear Y * 86400) = true ∧
    ¬ ruleDstSeq a (daysBeforeYear Y * 86400 - 1) ∧ ¬ ruleDstSeq a (daysBeforeYear Y * 86400) := by
  have iY := hin Y
  have iYm := hin (Y - 1)
  have em : Y - 1 + 1 = Y := by omega
  rw [em] at iYm
  have s0 := dBY_step_le (Y - 1)
  rw [em] at s0
  have s1 := dBY_step_le Y
  generalize hB : daysBeforeYear Y * 86400 = B at *
  have y1 : yearOf ((B - 1) / 86400) = Y - 1 :=
    isYearOf_unique _ _ _ (yearOf_spec _) (isYearOf_of_bounds (B - 1) (Y - 1) (by omega) (by rw [em]; omega))
  have y2 : yearOf (B / 86400) = Y :=
    isYearOf_unique _ _ _ (yearOf_spec _) (isYearOf_of_bounds B Y (by omega) (by omega))
  have seqF : ∀ t, B - 86400 ≤ t → t ≤ B + 86400 → ¬ ruleDstSeq a t := by
    intro t ht1 ht2
    rintro ⟨y, hy, hall⟩
    have he := hall (Y - 1) (by omega)
    rcases Int.lt_trichotomy y (Y - 1) with l | e | g
    · have := inside_before a hin y (Y - 1) l; omega
    · subst e; omega
    · rcases Int.lt_trichotomy y Y with l2 | e2 | g2
      · omega
      · subst e2; omega
      · have := inside_after a hin y Y g2; omega
  refine ⟨?_, ?_, seqF _ (by omega) (by omega), seqF _ (by omega) (by omega)⟩
  · unfold ruleDst; rw [y1]; unfold ruleDstIn
    simp only [h1, if_true]
    have : ¬ (startAt a (Y - 1) ≤ B - 1 ∧ B - 1 < endAt a (Y - 1)) := by omega
    simp [this]
  · unfold ruleDst; rw [y2]; unfold ruleDstIn
    simp only [h2, if_false]
    have : ¬ (endAt a Y ≤ B ∧ B < startAt a Y) := by omega
    simp [this]

/-- the mirror image, south-shaped `Y-1` followed by north-shaped `Y`: the per-year decision drops from
daylight to standard time at the boundary; the transition sequence says daylight time at both -/
theorem order_flip_south_north (a : Alt) (hin : InsideYear a) (Y : Int)
    (h1 : ¬ startAt a (Y - 1) ≤ endAt a (Y - 1)) (h2 : startAt a Y ≤ endAt a Y) :
    ruleDst a (daysBeforeYear Y * 86400 - 1) = true ∧ ruleDst a (daysBeforeYear Y * 86400) = false ∧
    ruleDstSeq a (daysBeforeYear Y * 86400 - 1) ∧ ruleDstSeq a (daysBeforeYear Y * 86400) := by
  have iY := hin Y
  have iYm := hin (Y - 1)
  have em : Y - 1 + 1 = Y := by omega
  rw [em] at iYm
  have s0 := dBY_step_le (Y - 1)
  rw [em] at s0
  have s1 := dBY_step_le Y
  generalize hB : daysBeforeYear Y * 86400 = B at *
  have y1 : yearOf ((B - 1) / 86400) = Y - 1 :=
    isYearOf_unique _ _ _ (yearOf_spec _) (isYearOf_of_bounds (B - 1) (Y - 1) (by omega) (by rw [em]; omega))
  have y2 : yearOf (B / 86400) = Y :=
    isYearOf_unique _ _ _ (yearOf_spec _) (isYearOf_of_bounds B Y (by omega) (by omega))
  have seqT : ∀ t, B - 86400 ≤ t → t ≤ B + 86400 → ruleDstSeq a t := by
    intro t ht1 ht2
    refine ⟨Y - 1, by omega, ?_⟩
    intro y' hy'
    rcases Int.lt_trichotomy y' (Y - 1) with l | e | g
    · have := inside_before a hin y' (Y - 1) l; omega
    · subst e; omega
    · rcases Int.lt_trichotomy y' Y with l2 | e2 | g2
      · omega
      · subst e2; omega
      · have := inside_after a hin y' Y g2; omega
  refine ⟨?_, ?_, seqT _ (by omega) (by omega), seqT _ (by omega) (by omega)⟩
  · unfold ruleDst; rw [y1]; unfold ruleDstIn
    simp only [h1, if_false]
    have : ¬ (endAt a (Y - 1) ≤ B - 1 ∧ B - 1 < startAt a (Y - 1)) := by omega
    simp [this]
  · unfold ruleDst; rw [y2]; unfold ruleDstIn
    simp only [h2, if_true]
    have : ¬ (startAt a Y ≤ B ∧ B < endAt a Y) := by omega
    simp [this]

/-- `OrderStable` from the check of one Gregorian cycle -/
theorem orderStable_of_B' (a : Alt) (h : orderStableB a = true) : OrderStable a := by
  unfold orderStableB at h
  rw [List.all_eq_true] at h
  have base : ∀ k : Nat, k < 400 → OrderStableAt a (2000 + (k : Int)) := by
    intro k hk
    have := h k (List.mem_range.mpr hk)
    exact of_decide_eq_true this
  have up : ∀ (n : Nat) (y : Int), 2000 ≤ y → y < 2400 → OrderStableAt a (y + 400 * (n : Int)) ∧
      OrderStableAt a (y - 400 * (n : Int)) := by
    intro n
    induction n with
    | zero =>
      intro y h1 h2
      have := base (y - 2000).toNat (by omega)
      have e : 2000 + (((y - 2000).toNat : Nat) : Int) = y := by omega
      rw [e] at this
      simp only [Int.natCast_zero, Int.mul_zero, Int.add_zero, Int.sub_zero]
      exact ⟨this, this⟩
    | succ k ih =>
      intro y h1 h2
      have ⟨i1, i2⟩ := ih y h1 h2
      constructor
      · have e : y + 400 * ((k + 1 : Nat) : Int) = (y + 400 * (k : Int)) + 400 := by omega
        rw [e]; exact (orderStableAt_add400 a _).mpr i1
      · have e : y - 400 * (k : Int) = (y - 400 * ((k + 1 : Nat) : Int)) + 400 := by omega
        rw [e] at i2; exact (orderStableAt_add400 a _).mp i2
  intro y
  show OrderStableAt a y
  by_cases c : 2000 ≤ y
  · have := (up ((y - 2000) / 400).toNat (2000 + (y - 2000) % 400) (by omega) (by omega)).1
    have e : 2000 + (y - 2000) % 400 + 400 * ((((y - 2000) / 400).toNat : Nat) : Int) = y := by omega
    rw [e] at this; exact this
  · have := (up ((2399 - y) / 400).toNat (2399 - (2399 - y) % 400) (by omega) (by omega)).2
    have e : 2399 - (2399 - y) % 400 - 400 * ((((2399 - y) / 400).toNat : Nat) : Int) = y := by omega
    rw [e] at this; exact this

theorem orderStableB_of (a : Alt) (h : OrderStable a) : orderStableB a = true := by
  unfold orderStableB
  rw [List.all_eq_true]
  intro k _
  exact decide_eq_true (h _)

/-- `RuleYearly` contains `OrderStable` (its seventh conjunct) -/
theorem orderStable_of_yearly (a : Alt) (h : RuleYearly a) : OrderStable a :=
  fun y => (h y).2.2.2.2.2.2.1

/-! ### gap 3: the footer rule's boundary seconds are excepted only beyond the last table window -/

/-- table + alternate-time footer rule; `hS`/`hE` guarded by `hiLast … < ℓ`: a reading at or below the
upper end of the last table window is answered by the table loop, which never consults the rule -/
theorem composed_alt_guarded' (z : Zone) (a : Alt) (last : Transition) (ℓ : Int)
    (hrule : z.rule = some (.alt a)) (hl : z.transitions.getLast? = some last)
    (hs : Sorted z.transitions) (hsep : WellSeparated z) (hj : JoinSeparated z)
    (hvS : ValidDay a.dstStart) (hvE : ValidDay a.dstEnd) (hy : RuleYearly a)
    (hnb : NoBoundary' z (typeAt z 0).off z.transitions ℓ)
    (hS : a.std.off ≠ a.dst.off → hiLast z (typeAt z 0).off z.transitions < ℓ → ℓ ≠ wallStart a (naiveYear ℓ))
    (hE : a.std.off ≠ a.dst.off → hiLast z (typeAt z 0).off z.transitions < ℓ → ℓ ≠ wallEnd a (naiveYear ℓ))
    (hr : InRange z z.transitions) (hℓ : -36028797018963968 ≤ ℓ ∧ ℓ ≤ 36028797018963968) :
    Classifies (offAt z) ℓ (z.find_local_time_type_from_local ℓ) := by
  rw [from_local_with_rule z (.alt a) last ℓ hrule hl]
  have hc := compose z ℓ (ruleG a) (a.find_local_time_type_from_local (naiveYear ℓ) ℓ) last hl hs hsep hnb hr
    (join_J1 z a last hrule hl hj hy) (join_J2 z a last hrule hl hj hy)
    (fun hgt => rule_from_local_global a hvS hvE hy ℓ hℓ (fun h => hS h hgt) (fun h => hE h hgt))
  apply classifies_congr _ _ ℓ _ _ hc
  intro t
  rw [offAt_with_rule z (.alt a) last t hrule hl hs]
  rfl

end Chrono.Proofs.TzL
