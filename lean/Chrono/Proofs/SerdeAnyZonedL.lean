/-
  C20, zone-aware values of the WHOLE domain (any offset of less than a day, any well-formed time of day,
  wall clock inside or outside `NaiveDate`'s range): what serde writes and what the reader makes of it, in
  terms of Spec (`wallSecs`, `roundMin`, `shownWallSecs`, `InRangeSecs`).  Used by Props/C20.lean.
-/
import Chrono.Proofs.SerdeAnyL
namespace Chrono.Proofs.SerdeAny
open Chrono Chrono.M Chrono.M.Scan Chrono.M.Format Chrono.M.TextForms Chrono.M.Serde
open Chrono.Spec Chrono.Spec.Text Chrono.Spec.Serde Chrono.Spec.Fields Chrono.Proofs.TextForms Chrono.Proofs.RenderScan
open Chrono.Proofs Chrono.Proofs.SerdeStr Chrono.Extracted Chrono.Proofs.ParsedRes

theorem shown_secs_frac (t : Time) :
    (shownTime t).secs = t.secs + (if t.frac ≥ 1000000000 ∧ t.secs % 60 ≠ 59 then 1 else 0) ∧
    (shownTime t).frac = (if t.frac ≥ 1000000000 ∧ t.secs % 60 ≠ 59 then t.frac - 1000000000 else t.frac) := by
  unfold shownTime
  by_cases h : t.frac ≥ 1000000000 ∧ t.secs % 60 ≠ 59
  · rw [if_pos h, if_pos h, if_pos h]; exact ⟨rfl, rfl⟩
  · rw [if_neg h, if_neg h, if_neg h]; exact ⟨by omega, rfl⟩

/-- the wall clock of any well-formed zone-aware value, with the text serde writes for it -/
theorem serde_write_any (z : Zoned) (hz : ZInv z) :
    ∃ l Y O, Zoned.overflowing_naive_local z = .ok l ∧ ExtNDTInv l ∧ instSecs l = wallSecs z ∧
      l.time.frac = z.utc.time.frac ∧ (DateInv l.date ↔ InRangeSecs (wallSecs z)) ∧
      l.date = dateOfYo Y O ∧ VYO Y O ∧
      DateTimeStr.serialize z = wok (dateText Y (monthOfYo Y O) (dayOfYo Y O) ++
        (84 :: (timeText (shownTime l.time) ++ zoneTextAny z.off))) := by
  obtain ⟨l, h1, h2, h3, h4, _, h6⟩ := naive_local_spec z hz
  obtain ⟨e1, e2⟩ := ext_eq l.date h2.1
  have hMIN : MIN_YEAR = -262143 := rfl
  have hMAX : MAX_YEAR = 262142 := rfl
  obtain ⟨v1, v2, v3, v4⟩ := e2
  refine ⟨l, l.date.year, l.date.ordinal.toNat, h1, h2, h3, h4, h6, e1, ⟨v1, v2, v3, v4⟩, ?_⟩
  unfold DateTimeStr.serialize
  rw [h1]
  show write_rfc3339 l z.off .autoSi true = _
  rw [serde_write_wall l _ _ (by omega) ⟨v3, v4⟩ e1 h2.2 z.off hz.2, ← timeText_shown l.time h2.2]

/-- **wall clock inside `NaiveDate`'s range, any offset, any time of day**: the text, and what
`DateTimeVisitor::visit_str` answers for it -/
theorem serde_rt_in_range (z : Zoned) (hz : ZInv z) (hw : InRangeSecs (wallSecs z)) :
    ∃ l text, NDTInv l ∧ instSecs l = wallSecs z ∧ l.time.frac = z.utc.time.frac ∧
      Zoned.overflowing_naive_local z = .ok l ∧
      DateTimeStr.serialize z = wok text ∧ text = naiveText 84 l ++ zoneTextAny z.off ∧
      ∃ r, DateTimeStr.visit_str text = .ok r ∧
        (r = .err ↔ (86400 ≤ (roundMin z.off).natAbs ∨ ¬ InRangeSecs (shownWallSecs z - roundMin z.off))) ∧
        (∀ z', r = .ok z' → z'.off = roundMin z.off ∧ NDTInv z'.utc ∧
          instSecs z'.utc = shownWallSecs z - roundMin z.off ∧ z'.utc.time.frac = shownWallFrac z) := by
  obtain ⟨l, Y, O, h1, h2, h3, h4, h6, he, hv, htxt⟩ := serde_write_any z hz
  have hdi : DateInv l.date := h6.mpr hw
  obtain ⟨_, hy1, hy2⟩ := (dateInv_iff l.date).mp hdi
  obtain ⟨v1, v2, v3, v4⟩ := hv
  obtain ⟨fy, _⟩ := dateOfYo_fields Y O (by have := yearLen_ge Y; omega)
  rw [he, fy] at hy1 hy2
  have hvd : VD Y O := ⟨hy1, hy2, v3, v4⟩
  have hMIN : MIN_YEAR = -262143 := rfl
  have hMAX : MAX_YEAR = 262142 := rfl
  have hst := shownTime_strict l.time h2.2
  obtain ⟨b1, b2, b3, _, _⟩ := roundMin_bounds z.off hz.2
  -- the text in terms of the wall clock
  have htext : naiveText 84 l ++ zoneTextAny z.off =
      dateText Y (monthOfYo Y O) (dayOfYo Y O) ++ (84 :: (timeText (shownTime l.time) ++ zoneTextAny z.off)) := by
    unfold naiveText
    rw [he, dateTextOf_yo Y O hvd, ← timeText_shown l.time h2.2, List.append_assoc, List.cons_append]
  -- the shown wall clock
  obtain ⟨ss, sf⟩ := shown_secs_frac l.time
  have hl'ext : ExtNDTInv ⟨dateOfYo Y O, shownTime l.time⟩ := ⟨by rw [← he]; exact h2.1, hst.1⟩
  have hl'di : DateInv (⟨dateOfYo Y O, shownTime l.time⟩ : NaiveDT).date := by rw [← he]; exact hdi
  have hsecs : instSecs ⟨dateOfYo Y O, shownTime l.time⟩ = shownWallSecs z := by
    unfold shownWallSecs
    rw [← h3, ← h4]
    unfold instSecs
    dsimp only
    rw [ss, he]
    generalize dayNumOf (dateOfYo Y O) = D
    have : EPOCH_DAY = 719163 := rfl
    by_cases hc : l.time.frac ≥ 1000000000 ∧ l.time.secs % 60 ≠ 59
    · rw [if_pos hc, if_pos ⟨hc.1, by omega⟩]; omega
    · rw [if_neg hc, if_neg (by intro hh; apply hc; exact ⟨hh.1, by omega⟩)]; omega
  have hfrac : (shownTime l.time).frac = shownWallFrac z := by
    unfold shownWallFrac
    rw [← h3, ← h4, sf]
    unfold instSecs
    generalize dayNumOf l.date = D
    have : EPOCH_DAY = 719163 := rfl
    by_cases hc : l.time.frac ≥ 1000000000 ∧ l.time.secs % 60 ≠ 59
    · rw [if_pos hc, if_pos ⟨hc.1, by omega⟩]
    · rw [if_neg hc, if_neg (by intro hh; apply hc; exact ⟨hh.1, by omega⟩)]
  refine ⟨l, _, ⟨hdi, h2.2⟩, h3, h4, h1, htxt, htext.symm, ?_⟩
  have hread := fixed_read_wall Y O (by omega) ⟨v3, v4⟩ (shownTime l.time) hst z.off hz.2
  obtain ⟨w1, w2, w3⟩ := to_datetime_wall Y O hvd (shownTime l.time) hst (roundMin z.off) (by omega)
  unfold DateTimeStr.visit_str
  rw [hread]
  by_cases hR : OffValid (roundMin z.off)
  · have heast : Zoned.east_opt (roundMin z.off) = some (roundMin z.off) := by
      unfold Zoned.east_opt; exact if_pos hR
    obtain ⟨q, hq, q2, q3, q4⟩ := from_local_spec (roundMin z.off) _ hR hl'ext
    unfold OffValid at hR
    cases q with
    | none =>
      rw [w2 _ heast hq]
      refine ⟨.err, rfl, ⟨fun _ => Or.inr (by rw [← hsecs]; exact q3 rfl), fun _ => rfl⟩, fun z' h => by cases h⟩
    | some z' =>
      rw [w3 _ z' heast hq]
      obtain ⟨c1, c2, c3, c4, c5⟩ := q2 z' rfl
      refine ⟨.ok z', rfl, ⟨fun h => (by cases h), fun h => ?_⟩, fun z'' h => ?_⟩
      · exfalso
        rcases h with h | h
        · omega
        · apply h; rw [← hsecs]; exact q4 hl'di (by intro hh; cases hh)
      · injection h with h
        subst h
        exact ⟨c1, ⟨c5 hl'di, c2.2⟩, by rw [c3, hsecs], by rw [c4, hfrac]⟩
  · have heast : Zoned.east_opt (roundMin z.off) = none := by
      unfold Zoned.east_opt; exact if_neg hR
    rw [w1 heast]
    unfold OffValid at hR
    refine ⟨.err, rfl, ⟨fun _ => Or.inl (by omega), fun _ => rfl⟩, fun z' h => by cases h⟩

/-- **wall clock outside `NaiveDate`'s range** (possible within a day of either range end): serializing
succeeds, and `visit_str` answers `Err` for the text — never a value, never a panic; any offset, any time -/
theorem serde_rt_out_of_range (z : Zoned) (hz : ZInv z) (hw : ¬ InRangeSecs (wallSecs z)) :
    ∃ text, DateTimeStr.serialize z = wok text ∧ DateTimeStr.visit_str text = .ok .err := by
  obtain ⟨l, Y, O, h1, h2, h3, h4, h6, he, hv, htxt⟩ := serde_write_any z hz
  have hndi : ¬ DateInv l.date := fun h => hw (h6.mp h)
  obtain ⟨v1, v2, v3, v4⟩ := hv
  obtain ⟨fy, _⟩ := dateOfYo_fields Y O (by have := yearLen_ge Y; omega)
  have hout : Y < MIN_YEAR ∨ MAX_YEAR < Y := by
    by_contra hc
    apply hndi
    rw [dateInv_iff]
    refine ⟨h2.1, ?_, ?_⟩ <;> rw [he, fy] <;> omega
  have hMIN : MIN_YEAR = -262143 := rfl
  have hMAX : MAX_YEAR = 262142 := rfl
  have hst := shownTime_strict l.time h2.2
  obtain ⟨b1, b2, _⟩ := roundMin_bounds z.off hz.2
  refine ⟨_, htxt, ?_⟩
  obtain ⟨e, hee⟩ := to_datetime_wall_out Y O (by omega) hout ⟨v3, v4⟩ (shownTime l.time) hst (roundMin z.off)
    (by omega)
  unfold DateTimeStr.visit_str
  rw [fixed_read_wall Y O (by omega) ⟨v3, v4⟩ (shownTime l.time) hst z.off hz.2, hee]
  rfl

/-- a target that post-processes the visitor's value (`.map(|dt| dt.with_timezone(..))`): the round trip is
the round trip into the visitor's own type, post-processed -/
theorem strRoundTrip_map {α β γ : Type} (F : StrFormat) (w : α → W) (visit : List Nat → Res (SR β)) (f : β → γ)
    (v : α) :
    strRoundTrip F w (fun s => (visit s).bind fun r => .ok (r.map f)) v =
      (strRoundTrip F w visit v).bind fun r => .ok (r.map f) := by
  unfold strRoundTrip
  cases strSerializeW F w v with
  | panic => rfl
  | ok r =>
    cases r with
    | err => rfl
    | ok e =>
      show strDeserializeV F _ e = (strDeserializeV F visit e).bind _
      unfold strDeserializeV
      cases F.getStr e with
      | none => rfl
      | some s => rfl

end Chrono.Proofs.SerdeAny
