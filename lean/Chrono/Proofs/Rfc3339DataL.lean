/-
  C10, gap G6: the data re-extracted from `parse_rfc3339` and `write_rfc3339` (field widths, separator
  bytes, punctuation bytes, `timezone_offset` flags, the writer's integer literals) tied to the MODEL's
  own literals, not to a second copy of them: `parse_rfc3339_with` / `write_rfc3339_with` are the model
  bodies with every such literal replaced by a cell of a data list, and instantiating them with the
  extracted lists gives exactly `Parse.parse_rfc3339` / `Format.write_rfc3339`.  A change of a width, a
  separator, a flag or a divisor in the Rust source (re-extracted on every run) or in the model makes
  the equality fail.
  Namespace `Chrono.Proofs.Rfc3339Data`.
-/
import Chrono.Model.Rfc3339
import Chrono.Extracted.Rfc3339

namespace Chrono.Proofs.Rfc3339Data
open Chrono Chrono.M Chrono.M.Scan Chrono.M.Parse Chrono.M.Format

/-- `Parse.parse_rfc3339` with the (min, max) of the six `scan::number` calls read from `w`, the separator
bytes from `seps`, the bytes of the five `scan::char` calls from `ch` and the three flags of the
`timezone_offset` call from `fl` -/
def parse_rfc3339_with (w seps ch : List Nat) (fl : List Bool) (p : Parsed) (s : List Nat) :
    PRes (Parsed × List Nat) := do
  let (p, s) ← setField Parsed.set_year p (number s (w.getD 0 0) (some (w.getD 1 0)))
  let s ← char s (ch.getD 0 0)
  let (p, s) ← setField Parsed.set_month p (number s (w.getD 2 0) (some (w.getD 3 0)))
  let s ← char s (ch.getD 1 0)
  let (p, s) ← setField Parsed.set_day p (number s (w.getD 4 0) (some (w.getD 5 0)))
  let s ← (match s with
    | c :: rest => if c = seps.getD 0 0 ∨ c = seps.getD 1 0 ∨ c = seps.getD 2 0 then .ok rest else .error PErr.invalid
    | [] => .error PErr.tooShort : PRes (List Nat))
  let (p, s) ← setField Parsed.set_hour p (number s (w.getD 6 0) (some (w.getD 7 0)))
  let s ← char s (ch.getD 2 0)
  let (p, s) ← setField Parsed.set_minute p (number s (w.getD 8 0) (some (w.getD 9 0)))
  let s ← char s (ch.getD 3 0)
  let (p, s) ← setField Parsed.set_second p (number s (w.getD 10 0) (some (w.getD 11 0)))
  let (p, s) ← (match s with
    | 46 :: rest => setNano p (nanosecond rest)
    | _ => .ok (p, s) : PRes (Parsed × List Nat))
  let (s, offset) ← timezone_offset s .charColon (fl.getD 0 false) (fl.getD 1 false) (fl.getD 2 false)
  if offset < -MAX_RFC3339_OFFSET ∨ offset > MAX_RFC3339_OFFSET then .error .outOfRange
  else do
    let p ← Parsed.set_offset p offset
    pure (p, s)

/-- the reader model IS the model body instantiated with the data extracted from the Rust source (all
three separators and nothing else: the extracted list has exactly three cells) -/
theorem parse_rfc3339_uses_extracted :
    Extracted.RFC3339_WIDTHS.length = 12 ∧ Extracted.RFC3339_SEPARATORS.length = 3 ∧
    Extracted.RFC3339_CHARS.length = 5 ∧ Extracted.RFC3339_TZ_FLAGS.length = 3 ∧
    parse_rfc3339_with Extracted.RFC3339_WIDTHS Extracted.RFC3339_SEPARATORS Extracted.RFC3339_CHARS
      Extracted.RFC3339_TZ_FLAGS = parse_rfc3339 :=
  ⟨rfl, rfl, rfl, rfl, rfl⟩

/-- `Format.write_rfc3339` with its fifteen integer literals, in source order, read from `l`:
`(0..=9999)`, `year / 100`, `year % 100`, `nano >= 1_000_000_000`, `sec += 1`, `nano -= 1_000_000_000`,
`Millis: nano / 1_000_000`, `Micros: nano / 1000`, `AutoSi: nano == 0`, `nano % 1_000_000 == 0`,
`nano / 1_000_000`, `nano % 1_000 == 0`, `nano / 1_000` -/
def write_rfc3339_with (l : List Int) (dt : NaiveDT) (off : Int) (secform : SecondsFormat) (use_z : Bool) : W :=
  let year := dt.date.year
  let y : W :=
    if 0 ≤ year ∧ year ≤ l.getD 0 0 then
      (write_hundreds (asU8 (Int.tdiv year (l.getD 1 0)))).seq (write_hundreds (asU8 (Int.tmod year (l.getD 2 0))))
    else wok (fmtInt year 5 .zero true)
  W.ofRes dt.date.month fun month =>
  W.ofRes dt.date.day fun day =>
  let (hour, min, sec0) := dt.time.hms
  let nano0 := dt.time.nanosecond
  let sec := if nano0 ≥ l.getD 3 0 then sec0 + l.getD 4 0 else sec0
  let nano := if nano0 ≥ l.getD 3 0 then nano0 - l.getD 5 0 else nano0
  let frac : List Nat :=
    match secform with
    | .secs => []
    | .millis => [46] ++ fmtInt (nano / l.getD 6 0) 3 .zero false
    | .micros => [46] ++ fmtInt (nano / l.getD 7 0) 6 .zero false
    | .nanos => [46] ++ fmtInt nano 9 .zero false
    | .autoSi =>
      if nano = l.getD 8 0 then []
      else if nano % l.getD 9 0 = l.getD 10 0 then [46] ++ fmtInt (nano / l.getD 11 0) 3 .zero false
      else if nano % l.getD 12 0 = l.getD 13 0 then [46] ++ fmtInt (nano / l.getD 14 0) 6 .zero false
      else [46] ++ fmtInt nano 9 .zero false
  y.seq <| (wok [45]).seq <| (write_hundreds (asU8 month)).seq <| (wok [45]).seq <|
  (write_hundreds (asU8 day)).seq <| (wok [84]).seq <|
  (write_hundreds (asU8 hour)).seq <| (wok [58]).seq <| (write_hundreds (asU8 min)).seq <|
  (wok [58]).seq <| (write_hundreds (asU8 sec)).seq <| (wok frac).seq <|
  OffsetFormat.format ⟨.minutes, .colon, use_z, .zero⟩ off

/-- the writer model IS the model body instantiated with the literals extracted from `write_rfc3339` -/
theorem write_rfc3339_uses_extracted :
    Extracted.RFC3339_WRITE_LITS.length = 15 ∧
    write_rfc3339_with Extracted.RFC3339_WRITE_LITS = write_rfc3339 :=
  ⟨rfl, rfl⟩

end Chrono.Proofs.Rfc3339Data
