/-
  Helper lemmas for C14: `resolve_year`, the verifier closures and the date combinations of
  `Parsed::to_naive_date`.
-/
import Chrono.Proofs.ParsedL
import Chrono.Proofs.DateL
import Chrono.Spec.ParsedResolveSpec
namespace Chrono.Proofs.ParsedRes
open Chrono Chrono.M Chrono.Spec Chrono.Spec.Fields Chrono.Extracted

/- `VD`, `UsesCalendar`, `UsesIso`, `NaiveOk` are statement-level predicates: defined in
Spec/ParsedResolveSpec.lean (`Chrono.Spec.Fields`), re-exported here under their old names -/
export Chrono.Spec.Fields (VD UsesCalendar UsesIso NaiveOk)

theorem ordinal_bounds (y : Int) (m d : Nat) (h : validYmd y m d = true) :
    1 ≤ ordinalOf y m d ∧ ordinalOf y m d ≤ yearLen y := by
  obtain ⟨hf16, _, _, _⟩ := flagsOf_facts y
  have hrep := isLeap_repYear y
  obtain ⟨hv, ho, hyl⟩ := leap_congr (repYear (flagsOf y)) y m d hrep
  have hmd := valid_bounds y m d h
  have hb := ordinal_bounds_fin m hmd.1 d hmd.2 _ hf16 (by rw [hv]; exact h)
  rw [ho, hyl] at hb
  exact hb

/-! ### `resolve_year` -/

/-- what a successful `resolve_year` says about the group -/
theorem resolve_year_ok (y q r g : Option Int) (h : Parsed.resolve_year y q r = .ok g) :
    (g = none ∧ y = none ∧ q = none ∧ r = none) ∨
    (∃ Y, g = some Y ∧ optIs y Y ∧ centIs q r Y ∧ GroupHasYear y r) := by
  unfold Parsed.resolve_year at h
  unfold optIs centIs GroupHasYear
  cases y with
  | some yv =>
    simp only [] at h
    split at h
    · rename_i hqr
      cases h
      right
      refine ⟨yv, rfl, fun x hx => (Option.some.inj hx).symm, ?_, Or.inl (by simp)⟩
      rw [hqr.1, hqr.2]; simp
    · split at h
      · split at h
        · cases h
        · rename_i hneg
          split at h
          · rename_i hc
            cases h
            right
            have hy0 : 0 ≤ yv := by omega
            rw [Int.tdiv_eq_ediv_of_nonneg hy0] at hc
            have hmod : Int.tmod yv 100 = yv % 100 := by rw [tmod_eq, if_pos hy0]; omega
            rw [hmod] at hc
            refine ⟨yv, rfl, fun x hx => (Option.some.inj hx).symm, ⟨?_, ?_⟩, Or.inl (by simp)⟩
            · intro x hx; rw [hx] at hc; simp at hc; exact ⟨hy0, hc.1⟩
            · intro x hx; rw [hx] at hc; simp at hc; exact ⟨hy0, hc.2⟩
          · cases h
      · cases h
  | none =>
    simp only [] at h
    split at h
    · cases h; left; exact ⟨rfl, rfl, rfl, rfl⟩
    · rename_i qv rv
      split at h
      · rename_i hr
        split at h
        · cases h
        · rename_i hq
          split at h
          · rename_i Y hY
            cases h
            right
            have : Y = qv * 100 + rv := by
              unfold optI32 at hY
              cases h1 : inI32 (qv * 100) <;> simp [h1] at hY
              cases h2 : inI32 (qv * 100 + rv) <;> simp [h2] at hY
              omega
            refine ⟨Y, rfl, (fun x hx => by cases hx), ⟨?_, ?_⟩, Or.inr (by simp)⟩
            · intro x hx; cases hx; omega
            · intro x hx; cases hx; omega
          · cases h
      · cases h
    · rename_i rv
      split at h
      · rename_i hr
        cases h
        right
        refine ⟨_, rfl, (fun x hx => by cases hx), ⟨(fun x hx => by cases hx), ?_⟩, Or.inr (by simp)⟩
        intro x hx; cases hx
        split <;> omega
      · cases h
    · cases h

/-- what a failing `resolve_year` says about the group -/
theorem resolve_year_err (y q r : Option Int) (e : PErr) (h : Parsed.resolve_year y q r = .error e) :
    (e = .notEnough ∧ ¬ GroupUsable y q r) ∨
    ((e = .impossible ∨ e = .outOfRange) ∧ ¬ GroupCoherent y q r) := by
  unfold Parsed.resolve_year at h
  unfold GroupUsable GroupCoherent optIs
  cases y with
  | some yv =>
    simp only [] at h
    split at h
    · cases h
    · rename_i hqr
      have hqr' : q ≠ none ∨ r ≠ none := by
        cases q <;> cases r <;> simp at hqr ⊢
      split at h
      · rename_i hmod
        split at h
        · rename_i hneg
          cases h
          right
          refine ⟨Or.inl rfl, fun hc => ?_⟩
          have := (hc.2.1 yv rfl hqr').1
          omega
        · rename_i hneg
          split at h
          · cases h
          · rename_i hc
            cases h
            right
            refine ⟨Or.inl rfl, fun hco => ?_⟩
            have hy0 : 0 ≤ yv := by omega
            rw [Int.tdiv_eq_ediv_of_nonneg hy0] at hc
            have hmod' : Int.tmod yv 100 = yv % 100 := by rw [tmod_eq, if_pos hy0]; omega
            rw [hmod'] at hc
            obtain ⟨_, hq, hr⟩ := hco.2.1 yv rfl hqr'
            apply hc
            constructor
            · cases q with
              | none => rfl
              | some qv => simp [hq qv rfl]
            · cases r with
              | none => rfl
              | some rv => simp [hr rv rfl]
      · rename_i hmod
        cases h
        right
        refine ⟨Or.inr rfl, fun hco => ?_⟩
        cases r with
        | none => simp [Parsed.modOk] at hmod
        | some rv =>
          have := hco.1 rv rfl
          simp [Parsed.modOk] at hmod
          omega
  | none =>
    simp only [] at h
    split at h
    · cases h
    · rename_i qv rv
      split at h
      · rename_i hr
        split at h
        · rename_i hq
          cases h
          right
          refine ⟨Or.inl rfl, fun hco => ?_⟩
          have := hco.2.2 rfl qv rv rfl rfl
          omega
        · rename_i hq
          split at h
          · cases h
          · rename_i hY
            cases h
            right
            refine ⟨Or.inr rfl, fun hco => ?_⟩
            have hb := hco.2.2 rfl qv rv rfl rfl
            have h1 : optI32 (qv * 100) = some (qv * 100) := by
              unfold optI32 inI32
              have : I32_MIN ≤ qv * 100 ∧ qv * 100 ≤ I32_MAX := by
                have a : I32_MIN = -2147483648 := rfl
                have b : I32_MAX = 2147483647 := rfl
                omega
              simp [this.1, this.2]
            have h2 : optI32 (qv * 100 + rv) = some (qv * 100 + rv) := by
              unfold optI32 inI32
              have : I32_MIN ≤ qv * 100 + rv ∧ qv * 100 + rv ≤ I32_MAX := by
                have a : I32_MIN = -2147483648 := rfl
                have b : I32_MAX = 2147483647 := rfl
                omega
              simp [this.1, this.2]
            rw [h1] at hY
            simp [h2] at hY
      · rename_i hr
        cases h
        right
        refine ⟨Or.inr rfl, fun hco => ?_⟩
        exact hr (hco.1 rv rfl)
    · rename_i rv
      split at h
      · cases h
      · rename_i hr
        cases h
        right
        refine ⟨Or.inr rfl, fun hco => ?_⟩
        exact hr (hco.1 rv rfl)
    · cases h
      left
      refine ⟨rfl, fun hu => hu ⟨rfl, by simp, rfl⟩⟩

/-! ### the verifier closures on an existing day -/

theorem getD_beq_iff (o : Option Int) (v : Int) : (o.getD v == v) = true ↔ optIs o v := by
  unfold optIs
  cases o with
  | none => simp
  | some x => simp

theorem or_beq_iff (o c : Option Int) : ((o.or c) == c) = true ↔ ∀ x, o = some x → c = some x := by
  cases o with
  | none => simp
  | some x =>
    show ((some x == c) = true) ↔ _
    rw [beq_iff_eq]
    constructor
    · intro h y hy; cases hy; exact h.symm
    · intro h; exact (h x rfl).symm

theorem centuryParts_nonneg (Y : Int) (h : 0 ≤ Y) :
    Parsed.centuryParts Y = (some (Y / 100), some (Y % 100)) := by
  unfold Parsed.centuryParts
  have hmod : Int.tmod Y 100 = Y % 100 := by rw [tmod_eq, if_pos h]; omega
  rw [if_pos h, Int.tdiv_eq_ediv_of_nonneg h, hmod]
theorem centuryParts_neg (Y : Int) (h : ¬ 0 ≤ Y) : Parsed.centuryParts Y = (none, none) := by
  unfold Parsed.centuryParts
  rw [if_neg h]

theorem cent_iff (q r : Option Int) (Y : Int) :
    (((q.or (Parsed.centuryParts Y).1) == (Parsed.centuryParts Y).1) = true ∧
     ((r.or (Parsed.centuryParts Y).2) == (Parsed.centuryParts Y).2) = true) ↔ centIs q r Y := by
  rw [or_beq_iff, or_beq_iff]
  unfold centIs
  by_cases h0 : 0 ≤ Y
  · rw [centuryParts_nonneg Y h0]
    dsimp only
    constructor
    · rintro ⟨a, b⟩
      exact ⟨fun x hx => ⟨h0, (Option.some.inj (a x hx)).symm⟩, fun x hx => ⟨h0, (Option.some.inj (b x hx)).symm⟩⟩
    · rintro ⟨a, b⟩
      exact ⟨fun x hx => by rw [(a x hx).2], fun x hx => by rw [(b x hx).2]⟩
  · rw [centuryParts_neg Y h0]
    dsimp only
    constructor
    · rintro ⟨a, b⟩; exact ⟨(fun x hx => by cases a x hx), (fun x hx => by cases b x hx)⟩
    · rintro ⟨a, b⟩
      exact ⟨fun x hx => absurd (a x hx).1 h0, fun x hx => absurd (b x hx).1 h0⟩

theorem days_since_int (w day : Weekday) :
    ((w.days_since day : Nat) : Int) = ((w.toNat : Int) - (day.toNat : Int)) % 7 := by
  cases w <;> cases day <;> decide

/-- field accessors of an existing day -/
theorem vd_fields (Y : Int) (o : Nat) (h : VD Y o) :
    (dateOfYo Y o).year = Y ∧ (dateOfYo Y o).ordinal = o ∧ (dateOfYo Y o).flags = flagsOf Y ∧
    (dateOfYo Y o).month = .ok (monthOfYo Y o) ∧ (dateOfYo Y o).day = .ok (dayOfYo Y o) ∧
    ((dateOfYo Y o).weekday.toNat : Int) = weekdayOf (dayNumYo Y o) ∧ o ≤ 366 := by
  obtain ⟨h1, h2, h3, h4⟩ := h
  have hyl := yearLen_ge Y
  obtain ⟨a, b, c, _, _, _⟩ := dateOfYo_fields Y o (by omega)
  obtain ⟨m1, m2, _, _⟩ := month_day_spec Y o h3 h4
  exact ⟨a, b, c, m1, m2, weekday_spec Y o (by omega), by omega⟩

theorem weeks_from_spec (Y : Int) (o : Nat) (h : VD Y o) :
    Parsed.weeks_from (dateOfYo Y o) .sun = weekNo Y o 6 ∧
    Parsed.weeks_from (dateOfYo Y o) .mon = weekNo Y o 0 ∧
    0 ≤ weekNo Y o 6 ∧ weekNo Y o 6 ≤ 53 ∧ 0 ≤ weekNo Y o 0 ∧ weekNo Y o 0 ≤ 53 := by
  obtain ⟨_, hord, _, _, _, hwd, ho⟩ := vd_fields Y o h
  unfold Parsed.weeks_from weekNo
  rw [hord, days_since_int, days_since_int, hwd]
  have hw0 : 0 ≤ weekdayOf (dayNumYo Y o) ∧ weekdayOf (dayNumYo Y o) < 7 := by
    unfold weekdayOf; omega
  have : (Weekday.sun.toNat : Int) = 6 := rfl
  have : (Weekday.mon.toNat : Int) = 0 := rfl
  have ho1 := h.2.2.1
  generalize weekdayOf (dayNumYo Y o) = W at *
  rw [tdiv_eq, tdiv_eq]
  simp only [*]
  refine ⟨?_, ?_, ?_⟩ <;> omega

theorem asI32_week (v wk : Int) (hv : 0 ≤ v ∧ v ≤ 4294967295) (hw : 0 ≤ wk ∧ wk ≤ 53) :
    asI32 v = wk ↔ v = wk := by
  unfold asI32; simp only; split <;> omega

theorem week_beq_iff (o : Option Int) (wk : Int) (ho : optIn o 0 4294967295) (hw : 0 ≤ wk ∧ wk ≤ 53) :
    ((o.map asI32).getD wk == wk) = true ↔ optIs o wk := by
  unfold optIs
  cases o with
  | none => simp
  | some v =>
    have hv := ho v rfl
    simp only [Option.map_some, Option.getD_some, beq_iff_eq, Option.some.injEq]
    rw [asI32_week v wk hv hw]
    constructor
    · intro h x hx; rw [← hx]; exact h
    · intro h; exact h v rfl

theorem verify_ordinal_iff (p : Parsed) (Y : Int) (o : Nat) (hp : InType p) (h : VD Y o) :
    Parsed.verify_ordinal p (dateOfYo Y o) = true ↔
      optIs p.ordinal o ∧ optIs p.week_from_sun (weekNo Y o 6) ∧ optIs p.week_from_mon (weekNo Y o 0) := by
  obtain ⟨_, hord, _, _, _, _, _⟩ := vd_fields Y o h
  obtain ⟨w1, w2, b1, b2, b3, b4⟩ := weeks_from_spec Y o h
  unfold Parsed.verify_ordinal
  simp only [Bool.and_eq_true]
  rw [hord, w1, w2, getD_beq_iff, week_beq_iff _ _ hp.2.2.2.2.2.2.2.2.1 ⟨b1, b2⟩,
    week_beq_iff _ _ hp.2.2.2.2.2.2.2.2.2.1 ⟨b3, b4⟩]
  exact and_assoc

theorem verify_ymd_iff (p : Parsed) (Y : Int) (o : Nat) (h : VD Y o) :
    ∃ b, Parsed.verify_ymd p (dateOfYo Y o) = .ok b ∧
      (b = true ↔ optIs p.year Y ∧ centIs p.year_div_100 p.year_mod_100 Y ∧
        optIs p.month (monthOfYo Y o) ∧ optIs p.day (dayOfYo Y o)) := by
  obtain ⟨hy, _, _, hm, hd, _, _⟩ := vd_fields Y o h
  unfold Parsed.verify_ymd
  rw [hm, hd]
  simp only [Res.bind, hy]
  refine ⟨_, rfl, ?_⟩
  simp only [Bool.and_eq_true]
  rw [getD_beq_iff, getD_beq_iff, getD_beq_iff, and_assoc, and_assoc, and_assoc]
  constructor
  · rintro ⟨a, b, c, d, e⟩; exact ⟨a, (cent_iff _ _ _).mp ⟨b, c⟩, d, e⟩
  · rintro ⟨a, bc, d, e⟩; obtain ⟨b, c⟩ := (cent_iff _ _ _).mpr bc; exact ⟨a, b, c, d, e⟩

theorem iso_week_ok (Y : Int) (o : Nat) (h : VD Y o) : ∃ w, (dateOfYo Y o).iso_week = .ok w := by
  obtain ⟨hy, hord, hfl, _, _, _, _⟩ := vd_fields Y o h
  obtain ⟨h1, h2, _, _⟩ := h
  have hMIN : MIN_YEAR = -262143 := rfl
  have hMAX : MAX_YEAR = 262142 := rfl
  unfold Date.iso_week IsoWeek.from_yof
  rw [hy, hord, hfl]
  simp only [Int.toNat_natCast]
  rw [ckI32_ok (by omega) (by omega), ckI32_ok (by omega) (by omega)]
  by_cases c1 : (o + YearFlags.isoweek_delta (flagsOf Y)) / 7 < 1
  · rw [if_pos c1]; exact ⟨_, rfl⟩
  · rw [if_neg c1]
    by_cases c2 : (o + YearFlags.isoweek_delta (flagsOf Y)) / 7 > YearFlags.nisoweeks (flagsOf Y)
    · rw [if_pos c2]; exact ⟨_, rfl⟩
    · rw [if_neg c2]; exact ⟨_, rfl⟩

theorem verify_iso_iff (p : Parsed) (Y : Int) (o : Nat) (h : VD Y o) :
    ∃ b, Parsed.verify_isoweekdate p (dateOfYo Y o) = .ok b ∧
      (b = true ↔ IsoIs p (dateOfYo Y o) ∧
        (∀ w, p.weekday = some w → (w.toNat : Int) = weekdayOf (dayNumYo Y o))) := by
  obtain ⟨w, hw⟩ := iso_week_ok Y o h
  obtain ⟨_, _, _, _, _, hwd, _⟩ := vd_fields Y o h
  unfold Parsed.verify_isoweekdate IsoIs
  rw [hw]
  simp only [Res.bind]
  refine ⟨_, rfl, ?_⟩
  simp only [Bool.and_eq_true]
  rw [getD_beq_iff, getD_beq_iff, and_assoc, and_assoc, and_assoc]
  have hwk : (p.weekday.getD (dateOfYo Y o).weekday == (dateOfYo Y o).weekday) = true ↔
      (∀ w, p.weekday = some w → (w.toNat : Int) = weekdayOf (dayNumYo Y o)) := by
    rw [← hwd]
    cases p.weekday with
    | none => simp
    | some x =>
      simp only [Option.getD_some, beq_iff_eq, Option.some.injEq]
      constructor
      · intro e v hv; rw [← hv, e]
      · intro e
        have := e x rfl
        generalize (dateOfYo Y o).weekday = z at *
        cases x <;> cases z <;> first | rfl | (simp [Weekday.toNat] at this)
  constructor
  · rintro ⟨a, b, c, d, e⟩
    exact ⟨⟨w, rfl, a, (cent_iff _ _ _).mp ⟨b, c⟩, d⟩, hwk.mp e⟩
  · rintro ⟨⟨w', hw', a, bc, d⟩, e⟩
    cases hw'
    obtain ⟨b, c⟩ := (cent_iff _ _ _).mpr bc
    exact ⟨a, b, c, d, hwk.mpr e⟩


/-! ### the date constructors used by the combinations -/

theorem date_with_ordinal_spec (Y : Int) (ord : Int) (h1 : 1 ≤ ord) :
    Parsed.date_with_ordinal (dateOfYo Y 1) ord =
      .ok (if ord ≤ yearLen Y then some (dateOfYo Y ord.toNat) else none) := by
  have hyl := yearLen_ge Y
  obtain ⟨_, hord, hfl, _, _, _⟩ := dateOfYo_fields Y 1 (by omega)
  obtain ⟨hf16, hf8, hleap, _⟩ := flagsOf_facts Y
  have hD : DATE_MAX_OL = 5856 := rfl
  unfold Parsed.date_with_ordinal
  rw [hord, hfl, hD]
  by_cases hbig : ord = 0 ∨ ord > 366
  · rw [if_pos hbig, if_neg (by omega)]
  · rw [if_neg hbig]
    obtain ⟨n, rfl⟩ := Int.eq_ofNat_of_zero_le (by omega : 0 ≤ ord)
    simp only [Int.toNat_natCast]
    by_cases hle : (n : Int) ≤ yearLen Y
    · have hc : (n : Int) * 16 + ((flagsOf Y / 8 : Nat) : Int) * 8 ≤ 5856 := by
        rw [hleap]; unfold yearLen at hle; cases hl : isLeap Y <;> simp [hl] at hle ⊢ <;> omega
      rw [if_pos hc, if_pos hle]
      have h366 : n = 366 → flagsOf Y / 8 = 0 := by
        intro h; rw [hleap]; unfold yearLen at hle; cases hl : isLeap Y <;> simp [hl] at hle ⊢; omega
      have hyof : (dateOfYo Y 1).yof - ((1 : Nat) : Int) * 16 + (n : Int) * 16 =
          Y * 8192 + ((n * 16 + flagsOf Y : Nat) : Int) := by
        unfold dateOfYo; push_cast; omega
      rw [hyof, from_yof_ok Y n (flagsOf Y) (by omega) (by omega) hf16 hf8 h366]
      simp only []
      congr 2
      unfold dateOfYo
      congr 1
      push_cast; omega
    · have hc : ¬ ((n : Int) * 16 + ((flagsOf Y / 8 : Nat) : Int) * 8 ≤ 5856) := by
        rw [hleap]; unfold yearLen at hle; cases hl : isLeap Y <;> simp [hl] at hle ⊢ <;> omega
      rw [if_neg hc, if_neg hle]

/-- ordinal that `resolve_week_date` computes: week 1 starts on the first `start` weekday -/
def weekOrd (Y : Int) (w : Int) (wd start : Weekday) : Int :=
  1 + ((start.toNat : Int) - weekdayOf (dayNumYo Y 1)) % 7 + (w - 1) * 7 +
    ((wd.toNat : Int) - (start.toNat : Int)) % 7

theorem resolve_week_date_spec (Y w : Int) (wd start : Weekday) :
    Parsed.resolve_week_date Y w wd start =
      .ok (if w > 53 then .error .outOfRange
           else if ¬ (MIN_YEAR ≤ Y ∧ Y ≤ MAX_YEAR) then .error .outOfRange
           else if weekOrd Y w wd start ≤ 0 then .error .impossible
           else if weekOrd Y w wd start ≤ yearLen Y then .ok (dateOfYo Y (weekOrd Y w wd start).toNat)
           else .error .impossible) := by
  unfold Parsed.resolve_week_date
  by_cases hw : w > 53
  · rw [if_pos hw, if_pos hw]
  · rw [if_neg hw, if_neg hw, ctor_yo']
    have hyl := yearLen_ge Y
    by_cases hY : MIN_YEAR ≤ Y ∧ Y ≤ MAX_YEAR
    · have hc : MIN_YEAR ≤ Y ∧ Y ≤ MAX_YEAR ∧ 1 ≤ 1 ∧ 1 ≤ yearLen Y := ⟨hY.1, hY.2, by omega, by omega⟩
      rw [if_pos hc, if_neg (by intro h; exact h hY)]
      simp only [Parsed.okOr, Parsed.RP.bind]
      have hwd := weekday_spec Y 1 (by omega)
      rw [days_since_int, days_since_int, hwd]
      have hwo : (1 : Int) + ((start.toNat : Int) - weekdayOf (dayNumYo Y ((1 : Nat) : Int))) % 7 + (w - 1) * 7 +
          ((wd.toNat : Int) - (start.toNat : Int)) % 7 = weekOrd Y w wd start := by
        unfold weekOrd; simp
      rw [hwo]
      by_cases h0 : weekOrd Y w wd start ≤ 0
      · rw [if_pos h0, if_pos h0]
      · rw [if_neg h0, if_neg h0, date_with_ordinal_spec Y _ (by omega)]
        by_cases hle : weekOrd Y w wd start ≤ yearLen Y
        · rw [if_pos hle, if_pos hle]
        · rw [if_neg hle, if_neg hle]
    · have hc : ¬ (MIN_YEAR ≤ Y ∧ Y ≤ MAX_YEAR ∧ 1 ≤ 1 ∧ 1 ≤ yearLen Y) := fun h => hY ⟨h.1, h.2.1⟩
      rw [if_neg hc, if_pos hY]
      rfl

theorem isoywd_form (y : Int) (w : Nat) (wd : Weekday) :
    ∃ r, Date.from_isoywd_opt y w wd = .ok r ∧
      ∀ d, r = some d → ∃ Y o, VD Y o ∧ d = dateOfYo Y o := by
  unfold Date.from_isoywd_opt
  simp only [from_year_spec]
  have key : ∀ (Y : Int) (o : Nat), ∃ r, Date.from_ordinal_and_flags Y o (flagsOf Y) = .ok r ∧
      ∀ d, r = some d → ∃ Y o, VD Y o ∧ d = dateOfYo Y o := by
    intro Y o
    refine ⟨_, from_oaf_spec Y o, ?_⟩
    intro d hd
    split at hd
    · rename_i hc; cases hd; exact ⟨Y, o, hc, rfl⟩
    · cases hd
  split
  · exact ⟨none, rfl, fun d hd => by cases hd⟩
  · split
    · cases hpy : optI32 (y - 1) with
      | none => exact ⟨none, rfl, fun d hd => by cases hd⟩
      | some py => exact key py _
    · split
      · exact key y _
      · cases hny : optI32 (y + 1) with
        | none => exact ⟨none, rfl, fun d hd => by cases hd⟩
        | some ny => exact key ny _


/-! ### the combinations -/

/-- what the ISO-week constructor has to guarantee for the ISO combination (C01's ISO-week
constructor/accessor round trip) -/
def IsoCtorSpec : Prop :=
  ∀ (y : Int) (w : Nat) (wd : Weekday) (d : Date), Date.from_isoywd_opt y w wd = .ok (some d) →
    ∃ iw, d.iso_week = .ok iw ∧ IsoWeek.year iw = y ∧ IsoWeek.week iw = (w : Int) ∧ d.weekday = wd

/-- the conjunction of the three verifier closures, in specification terms -/
def AllOk (p : Parsed) (Y : Int) (o : Nat) : Prop :=
  (optIs p.year Y ∧ centIs p.year_div_100 p.year_mod_100 Y ∧
    optIs p.month (monthOfYo Y o) ∧ optIs p.day (dayOfYo Y o)) ∧
  (IsoIs p (dateOfYo Y o) ∧ (∀ w, p.weekday = some w → (w.toNat : Int) = weekdayOf (dayNumYo Y o))) ∧
  (optIs p.ordinal o ∧ optIs p.week_from_sun (weekNo Y o 6) ∧ optIs p.week_from_mon (weekNo Y o 0))

theorem andR_ok (a b : Bool) : Parsed.andR (.ok a) (.ok b) = .ok (a && b) := by cases a <;> rfl

/-- the case analysis `dateArm` performs -/
theorem dateArm_cases (p : Parsed) (gy gi : Option Int) :
    (∃ y m d, gy = some y ∧ p.month = some m ∧ p.day = some d ∧ Parsed.dateArm p gy gi = .ymd y m d) ∨
    (∃ y o, gy = some y ∧ p.ordinal = some o ∧ Parsed.dateArm p gy gi = .yo y o) ∨
    (∃ y w wd, gy = some y ∧ p.week_from_sun = some w ∧ p.weekday = some wd ∧
      Parsed.dateArm p gy gi = .ywSun y w wd) ∨
    (∃ y w wd, gy = some y ∧ p.week_from_mon = some w ∧ p.weekday = some wd ∧
      Parsed.dateArm p gy gi = .ywMon y w wd) ∨
    (∃ y w wd, gi = some y ∧ p.isoweek = some w ∧ p.weekday = some wd ∧
      Parsed.dateArm p gy gi = .iso y w wd) ∨
    (Parsed.dateArm p gy gi = .none ∧
      ¬ ((gy ≠ none ∧ ((p.month ≠ none ∧ p.day ≠ none) ∨ p.ordinal ≠ none ∨
            (p.week_from_sun ≠ none ∧ p.weekday ≠ none) ∨ (p.week_from_mon ≠ none ∧ p.weekday ≠ none))) ∨
         (gi ≠ none ∧ p.isoweek ≠ none ∧ p.weekday ≠ none))) := by
  unfold Parsed.dateArm
  cases gy <;> cases gi <;> cases p.month <;> cases p.day <;> cases p.ordinal <;>
    cases p.week_from_sun <;> cases p.week_from_mon <;> cases p.isoweek <;> cases p.weekday <;> simp

theorem toNat_of_u32 (o : Option Int) (v : Int) (ho : optIn o 0 4294967295) (h : o = some v) :
    ((v.toNat : Nat) : Int) = v := by
  have := ho v h; omega

/-- the result of running all applicable checks on an existing day -/
theorem checks_ok (p : Parsed) (Y : Int) (o : Nat) (hp : InType p) (h : VD Y o) :
    ∃ b1 b2, Parsed.verify_ymd p (dateOfYo Y o) = .ok b1 ∧
      Parsed.verify_isoweekdate p (dateOfYo Y o) = .ok b2 ∧
      ((b1 && b2 && Parsed.verify_ordinal p (dateOfYo Y o)) = true ↔ AllOk p Y o) ∧
      (b1 = true ↔ optIs p.year Y ∧ centIs p.year_div_100 p.year_mod_100 Y ∧
        optIs p.month (monthOfYo Y o) ∧ optIs p.day (dayOfYo Y o)) ∧
      (b2 = true ↔ IsoIs p (dateOfYo Y o) ∧
        (∀ w, p.weekday = some w → (w.toNat : Int) = weekdayOf (dayNumYo Y o))) := by
  obtain ⟨b1, h1, i1⟩ := verify_ymd_iff p Y o h
  obtain ⟨b2, h2, i2⟩ := verify_iso_iff p Y o h
  have i3 := verify_ordinal_iff p Y o hp h
  refine ⟨b1, b2, h1, h2, ?_, i1, i2⟩
  unfold AllOk
  rw [Bool.and_eq_true, Bool.and_eq_true, i1, i2, i3, and_assoc]



theorem dateArm_not_iso (p : Parsed) (gy gi : Option Int)
    (h : gy ≠ none ∧ ((p.month ≠ none ∧ p.day ≠ none) ∨ p.ordinal ≠ none ∨
      (p.week_from_sun ≠ none ∧ p.weekday ≠ none) ∨ (p.week_from_mon ≠ none ∧ p.weekday ≠ none))) :
    ∀ y w wd, Parsed.dateArm p gy gi ≠ .iso y w wd := by
  revert h
  unfold Parsed.dateArm
  cases gy <;> cases gi <;> cases p.month <;> cases p.day <;> cases p.ordinal <;>
    cases p.week_from_sun <;> cases p.week_from_mon <;> cases p.isoweek <;> cases p.weekday <;> simp

theorem armDate_spec (p : Parsed) (hp : InType p) (gy gi : Option Int)
    (hgy : Parsed.resolve_year p.year p.year_div_100 p.year_mod_100 = .ok gy)
    (hgi : Parsed.resolve_year p.isoyear p.isoyear_div_100 p.isoyear_mod_100 = .ok gi) :
    ∃ r, Parsed.armDate p (Parsed.dateArm p gy gi) = .ok r ∧
      (∀ b d, r = .ok (b, d) → ∃ Y o, VD Y o ∧ d = dateOfYo Y o ∧ (b = true → (IsoCtorSpec ∨ ∀ y w wd, Parsed.dateArm p gy gi ≠ .iso y w wd) → AllOk p Y o)) ∧
      (∀ e, r = .error e → (e = .notEnough ∧ Parsed.dateArm p gy gi = .none) ∨
        ((e = .outOfRange ∨ e = .impossible) ∧ Parsed.dateArm p gy gi ≠ .none)) := by
  have hY := resolve_year_ok _ _ _ _ hgy
  have hI := resolve_year_ok _ _ _ _ hgi
  rcases dateArm_cases p gy gi with ⟨y, m, d, e1, e2, e3, ha⟩ | ⟨y, o, e1, e2, ha⟩ |
      ⟨y, w, wd, e1, e2, e3, ha⟩ | ⟨y, w, wd, e1, e2, e3, ha⟩ | ⟨y, w, wd, e1, e2, e3, ha⟩ | ⟨ha, _⟩
  · -- year, month, day
    rw [ha]
    unfold Parsed.armDate
    simp only []
    rw [ctor_ymd']
    split
    · rename_i hc
      obtain ⟨hc1, hc2, hv⟩ := hc
      obtain ⟨ob1, ob2⟩ := ordinal_bounds y _ _ hv
      have hvd : VD y (ordinalOf y m.toNat d.toNat) := ⟨hc1, hc2, ob1, ob2⟩
      obtain ⟨b1, b2, h1, h2, iall, i1, i2⟩ := checks_ok p y _ hp hvd
      simp only [Parsed.okOr, Parsed.RP.bind]
      rw [h2, andR_ok]
      refine ⟨_, rfl, ?_, fun e he => by cases he⟩
      intro b dd hbd
      cases hbd
      refine ⟨y, _, hvd, rfl, fun hb _ => ?_⟩
      apply iall.mp
      rw [Bool.and_eq_true] at hb
      have hb1 : b1 = true := by
        apply i1.mpr
        rcases hY with ⟨hn, _⟩ | ⟨Y, hg, hy1, hy2, _⟩
        · rw [hn] at e1; cases e1
        · rw [hg] at e1; cases e1
          obtain ⟨um, ud⟩ := ymd_unique y _ _ hv
          refine ⟨hy1, hy2, ?_, ?_⟩
          · intro x hx; rw [e2] at hx; cases hx; rw [um]
            exact (toNat_of_u32 _ _ hp.2.2.2.2.2.2.2.1 e2).symm
          · intro x hx; rw [e3] at hx; cases hx; rw [ud]
            exact (toNat_of_u32 _ _ hp.2.2.2.2.2.2.2.2.2.2.2.2.1 e3).symm
      rw [hb1, hb.1, hb.2]; rfl
    · simp only [Parsed.okOr, Parsed.RP.bind]
      refine ⟨_, rfl, (fun b dd h => by cases h), fun e he => ?_⟩
      cases he
      right; exact ⟨Or.inl rfl, by simp⟩
  · -- year, ordinal
    rw [ha]
    unfold Parsed.armDate
    simp only []
    rw [ctor_yo']
    split
    · rename_i hc
      have hvd : VD y o.toNat := hc
      obtain ⟨b1, b2, h1, h2, iall, _, _⟩ := checks_ok p y _ hp hvd
      simp only [Parsed.okOr, Parsed.RP.bind]
      rw [h1, h2, andR_ok, andR_ok]
      refine ⟨_, rfl, ?_, fun e he => by cases he⟩
      intro b dd hbd
      cases hbd
      refine ⟨y, _, hvd, rfl, fun hb _ => ?_⟩
      apply iall.mp
      rw [Bool.and_assoc]; exact hb
    · simp only [Parsed.okOr, Parsed.RP.bind]
      refine ⟨_, rfl, (fun b dd h => by cases h), fun e he => ?_⟩
      cases he
      right; exact ⟨Or.inl rfl, by simp⟩
  · -- year, week from Sunday, weekday
    rw [ha]
    unfold Parsed.armDate
    simp only []
    rw [resolve_week_date_spec]
    have hyl := yearLen_ge y
    split
    · refine ⟨_, rfl, (fun b dd h => by cases h), fun e he => ?_⟩
      cases he; right; exact ⟨Or.inl rfl, by simp⟩
    split
    · refine ⟨_, rfl, (fun b dd h => by cases h), fun e he => ?_⟩
      cases he; right; exact ⟨Or.inl rfl, by simp⟩
    rename_i hyr
    split
    · refine ⟨_, rfl, (fun b dd h => by cases h), fun e he => ?_⟩
      cases he; right; exact ⟨Or.inr rfl, by simp⟩
    rename_i hpos
    split
    · rename_i hle
      have hyr' : MIN_YEAR ≤ y ∧ y ≤ MAX_YEAR := Decidable.not_not.mp hyr
      have hvd : VD y (weekOrd y w wd .sun).toNat := ⟨hyr'.1, hyr'.2, by omega, by omega⟩
      obtain ⟨b1, b2, h1, h2, iall, _, _⟩ := checks_ok p y _ hp hvd
      simp only [Parsed.RP.bind]
      rw [h1, h2, andR_ok, andR_ok]
      refine ⟨_, rfl, ?_, fun e he => by cases he⟩
      intro b dd hbd
      cases hbd
      refine ⟨y, _, hvd, rfl, fun hb _ => ?_⟩
      apply iall.mp
      rw [Bool.and_assoc]; exact hb
    · refine ⟨_, rfl, (fun b dd h => by cases h), fun e he => ?_⟩
      cases he; right; exact ⟨Or.inr rfl, by simp⟩
  · -- year, week from Monday, weekday
    rw [ha]
    unfold Parsed.armDate
    simp only []
    rw [resolve_week_date_spec]
    have hyl := yearLen_ge y
    split
    · refine ⟨_, rfl, (fun b dd h => by cases h), fun e he => ?_⟩
      cases he; right; exact ⟨Or.inl rfl, by simp⟩
    split
    · refine ⟨_, rfl, (fun b dd h => by cases h), fun e he => ?_⟩
      cases he; right; exact ⟨Or.inl rfl, by simp⟩
    rename_i hyr
    split
    · refine ⟨_, rfl, (fun b dd h => by cases h), fun e he => ?_⟩
      cases he; right; exact ⟨Or.inr rfl, by simp⟩
    rename_i hpos
    split
    · rename_i hle
      have hyr' : MIN_YEAR ≤ y ∧ y ≤ MAX_YEAR := Decidable.not_not.mp hyr
      have hvd : VD y (weekOrd y w wd .mon).toNat := ⟨hyr'.1, hyr'.2, by omega, by omega⟩
      obtain ⟨b1, b2, h1, h2, iall, _, _⟩ := checks_ok p y _ hp hvd
      simp only [Parsed.RP.bind]
      rw [h1, h2, andR_ok, andR_ok]
      refine ⟨_, rfl, ?_, fun e he => by cases he⟩
      intro b dd hbd
      cases hbd
      refine ⟨y, _, hvd, rfl, fun hb _ => ?_⟩
      apply iall.mp
      rw [Bool.and_assoc]; exact hb
    · refine ⟨_, rfl, (fun b dd h => by cases h), fun e he => ?_⟩
      cases he; right; exact ⟨Or.inr rfl, by simp⟩
  · -- ISO year, ISO week, weekday
    rw [ha]
    unfold Parsed.armDate
    simp only []
    obtain ⟨r', hr', hform⟩ := isoywd_form y w.toNat wd
    rw [hr']
    cases r' with
    | none =>
      simp only [Parsed.okOr, Parsed.RP.bind]
      refine ⟨_, rfl, (fun b dd h => by cases h), fun e he => ?_⟩
      cases he; right; exact ⟨Or.inl rfl, by simp⟩
    | some D =>
      obtain ⟨Y', o', hvd, rfl⟩ := hform D rfl
      obtain ⟨b1, b2, h1, h2, iall, _, i2⟩ := checks_ok p Y' o' hp hvd
      simp only [Parsed.okOr, Parsed.RP.bind]
      rw [h1, andR_ok]
      refine ⟨_, rfl, ?_, fun e he => by cases he⟩
      intro b dd hbd
      cases hbd
      refine ⟨Y', o', hvd, rfl, fun hb hiso => ?_⟩
      apply iall.mp
      rw [Bool.and_eq_true] at hb
      have hb2 : b2 = true := by
        apply i2.mpr
        have hiso : IsoCtorSpec := by
          rcases hiso with h | h
          · exact h
          · exact absurd rfl (h y w wd)
        obtain ⟨iw, hiw, hiy, hiwk, hwd⟩ := hiso y w.toNat wd _ hr'
        rcases hI with ⟨hn, _⟩ | ⟨Y, hg, hy1, hy2, _⟩
        · rw [hn] at e1; cases e1
        · rw [hg] at e1; cases e1
          refine ⟨⟨iw, hiw, ?_, ?_, ?_⟩, ?_⟩
          · rw [hiy]; exact hy1
          · rw [hiy]; exact hy2
          · intro x hx; rw [e2] at hx; cases hx; rw [hiwk]
            exact (toNat_of_u32 _ _ hp.2.2.2.2.2.2.2.2.2.2.1 e2).symm
          · intro x hx; rw [e3] at hx; cases hx
            rw [← (vd_fields Y' o' hvd).2.2.2.2.2.1, hwd]
      rw [hb.1, hb2, hb.2]; rfl
  · -- no combination applies
    rw [ha]
    refine ⟨_, rfl, (fun b dd h => by cases h), fun e he => ?_⟩
    cases he; left; exact ⟨rfl, rfl⟩

theorem quarter_eq (m : Nat) (h : 1 ≤ m) : Parsed.quarter_of m = quarterOfMonth m := by
  unfold Parsed.quarter_of quarterOfMonth; omega

/-- `to_naive_date`, all at once: no panic; a result is an existing day that agrees with every
supplied field; the error kinds -/
theorem date_main (p : Parsed) (hp : InType p) :
    ∃ r, Parsed.to_naive_date p = .ok r ∧
      (∀ d, r = .ok d → ∃ Y o, VD Y o ∧ d = dateOfYo Y o ∧ (IsoCtorSpec ∨ UsesCalendar p → DateAgrees p Y o)) ∧
      (∀ e, r = .error e → e = .notEnough ∨ e = .impossible ∨ e = .outOfRange) ∧
      (r = .error .notEnough → ¬ DateSufficient p) := by
  unfold Parsed.to_naive_date
  cases hgy : Parsed.resolve_year p.year p.year_div_100 p.year_mod_100 with
  | error e =>
    simp only []
    refine ⟨_, rfl, (fun d h => by cases h), fun e' he => ?_, fun he => ?_⟩
    · cases he
      rcases resolve_year_err _ _ _ _ hgy with ⟨h, _⟩ | ⟨h | h, _⟩ <;> simp [h]
    · cases he
      rcases resolve_year_err _ _ _ _ hgy with ⟨_, h⟩ | ⟨h | h, _⟩
      · exact fun hs => h hs.1
      · cases h
      · cases h
  | ok gy =>
    simp only []
    cases hgi : Parsed.resolve_year p.isoyear p.isoyear_div_100 p.isoyear_mod_100 with
    | error e =>
      simp only []
      refine ⟨_, rfl, (fun d h => by cases h), fun e' he => ?_, fun he => ?_⟩
      · cases he
        rcases resolve_year_err _ _ _ _ hgi with ⟨h, _⟩ | ⟨h | h, _⟩ <;> simp [h]
      · cases he
        rcases resolve_year_err _ _ _ _ hgi with ⟨_, h⟩ | ⟨h | h, _⟩
        · exact fun hs => h hs.2.1
        · cases h
        · cases h
    | ok gi =>
      simp only []
      obtain ⟨r, hr, hok, herr⟩ := armDate_spec p hp gy gi hgy hgi
      rw [hr]
      cases r with
      | error e =>
        simp only [Parsed.RP.bind]
        refine ⟨_, rfl, (fun d h => by cases h), fun e' he => ?_, fun he => ?_⟩
        · cases he
          rcases herr e rfl with ⟨h, _⟩ | ⟨h | h, _⟩ <;> simp [h]
        · cases he
          rcases herr _ rfl with ⟨_, harm⟩ | ⟨h | h, _⟩
          · rcases dateArm_cases p gy gi with ⟨_, _, _, _, _, _, ha⟩ | ⟨_, _, _, _, ha⟩ |
              ⟨_, _, _, _, _, _, ha⟩ | ⟨_, _, _, _, _, _, ha⟩ | ⟨_, _, _, _, _, _, ha⟩ | ⟨_, hn⟩
            · rw [ha] at harm; cases harm
            · rw [ha] at harm; cases harm
            · rw [ha] at harm; cases harm
            · rw [ha] at harm; cases harm
            · rw [ha] at harm; cases harm
            · intro hs
              apply hn
              rcases hs.2.2 with ⟨hy, hc⟩ | ⟨hy, hc⟩
              · left
                refine ⟨?_, hc⟩
                rcases resolve_year_ok _ _ _ _ hgy with ⟨_, h1, _, h3⟩ | ⟨Y, hg, _⟩
                · rcases hy with hy | hy
                  · exact absurd h1 hy
                  · exact absurd h3 hy
                · rw [hg]; simp
              · right
                refine ⟨?_, hc⟩
                rcases resolve_year_ok _ _ _ _ hgi with ⟨_, h1, _, h3⟩ | ⟨Y, hg, _⟩
                · rcases hy with hy | hy
                  · exact absurd h1 hy
                  · exact absurd h3 hy
                · rw [hg]; simp
          · cases h
          · cases h
      | ok bd =>
        obtain ⟨b, d⟩ := bd
        obtain ⟨Y, o, hvd, rfl, hall⟩ := hok b d rfl
        simp only [Parsed.RP.bind]
        cases b with
        | false =>
          simp only [Bool.not_false, if_true]
          exact ⟨_, rfl, (fun d h => by cases h), (fun e' he => by cases he; simp), (fun he => by cases he)⟩
        | true =>
          simp only [Bool.not_true, Bool.false_eq_true, if_false]
          obtain ⟨_, _, _, hm, _, _, _⟩ := vd_fields Y o hvd
          obtain ⟨_, _, hval, _⟩ := month_day_spec Y o hvd.2.2.1 hvd.2.2.2
          have hm1 : 1 ≤ monthOfYo Y o := by
            unfold validYmd at hval; simp at hval; omega
          have fin : ∀ (hq : optIs p.quarter (quarterOfMonth (monthOfYo Y o))),
              IsoCtorSpec ∨ UsesCalendar p → DateAgrees p Y o := by
            intro hq hiso
            have hiso' : IsoCtorSpec ∨ ∀ y w wd, Parsed.dateArm p gy gi ≠ .iso y w wd := by
              rcases hiso with h | h
              · exact Or.inl h
              · right
                apply dateArm_not_iso
                refine ⟨?_, h.2⟩
                rcases resolve_year_ok _ _ _ _ hgy with ⟨_, h1, _, h3⟩ | ⟨Y', hg, _⟩
                · rcases h.1 with hy | hy
                  · exact absurd h1 hy
                  · exact absurd h3 hy
                · rw [hg]; simp
            obtain ⟨⟨a1, a2, a3, a4⟩, ⟨a5, a6⟩, a7, a8, a9⟩ := hall rfl hiso'
            exact ⟨a1, a2, hq, a3, a8, a9, a6, a7, a4, a5⟩
          cases hq : p.quarter with
          | none =>
            simp only []
            refine ⟨_, rfl, ?_, (fun e' he => by cases he), (fun he => by cases he)⟩
            intro d hd; cases hd
            exact ⟨Y, o, hvd, rfl, fin (by intro x hx; rw [hq] at hx; cases hx)⟩
          | some q =>
            simp only []
            rw [hm]
            simp only []
            rw [quarter_eq _ hm1]
            split
            · exact ⟨_, rfl, (fun d _h => by cases _h), (fun e' he => by cases he; simp), (fun he => by cases he)⟩
            · rename_i hqq
              refine ⟨_, rfl, ?_, (fun e' he => by cases he), (fun he => by cases he)⟩
              intro d hd; cases hd
              refine ⟨Y, o, hvd, rfl, fin ?_⟩
              intro x hx; rw [hq] at hx; cases hx
              exact Decidable.not_not.mp hqq


/-- a usable, coherent group resolves -/
theorem resolve_year_total (y q r : Option Int) (hu : GroupUsable y q r) (hc : GroupCoherent y q r) :
    ∃ g, Parsed.resolve_year y q r = .ok g := by
  cases h : Parsed.resolve_year y q r with
  | ok g => exact ⟨g, rfl⟩
  | error e =>
    rcases resolve_year_err _ _ _ _ h with ⟨_, h1⟩ | ⟨_, h1⟩
    · exact absurd hu h1
    · exact absurd hc h1

/-- an unusable (century-only) group is reported as not enough -/
theorem resolve_year_unusable (y q r : Option Int) (hu : ¬ GroupUsable y q r) :
    Parsed.resolve_year y q r = .error .notEnough := by
  unfold GroupUsable at hu
  have hu' := Decidable.not_not.mp hu
  obtain ⟨rfl, hq, rfl⟩ := hu'
  cases q with
  | none => exact absurd rfl hq
  | some qv => rfl

theorem date_not_enough_iff (p : Parsed) (hp : InType p)
    (hc1 : GroupCoherent p.year p.year_div_100 p.year_mod_100)
    (hc2 : GroupCoherent p.isoyear p.isoyear_div_100 p.isoyear_mod_100) :
    Parsed.to_naive_date p = .ok (.error .notEnough) ↔ ¬ DateSufficient p := by
  constructor
  · intro h
    obtain ⟨r, hr, _, _, hne⟩ := date_main p hp
    rw [hr] at h
    cases h
    exact hne rfl
  · intro hns
    by_cases hu1 : GroupUsable p.year p.year_div_100 p.year_mod_100
    · obtain ⟨gy, hgy⟩ := resolve_year_total _ _ _ hu1 hc1
      by_cases hu2 : GroupUsable p.isoyear p.isoyear_div_100 p.isoyear_mod_100
      · obtain ⟨gi, hgi⟩ := resolve_year_total _ _ _ hu2 hc2
        unfold Parsed.to_naive_date
        rw [hgy, hgi]
        simp only []
        have harm : Parsed.dateArm p gy gi = .none := by
          have hYy : gy ≠ none → GroupHasYear p.year p.year_mod_100 := by
            intro hg
            rcases resolve_year_ok _ _ _ _ hgy with ⟨h, _⟩ | ⟨_, _, _, _, h⟩
            · exact absurd h hg
            · exact h
          have hIy : gi ≠ none → GroupHasYear p.isoyear p.isoyear_mod_100 := by
            intro hg
            rcases resolve_year_ok _ _ _ _ hgi with ⟨h, _⟩ | ⟨_, _, _, _, h⟩
            · exact absurd h hg
            · exact h
          have hno : ¬ ((gy ≠ none ∧ ((p.month ≠ none ∧ p.day ≠ none) ∨ p.ordinal ≠ none ∨
              (p.week_from_sun ≠ none ∧ p.weekday ≠ none) ∨ (p.week_from_mon ≠ none ∧ p.weekday ≠ none))) ∨
              (gi ≠ none ∧ p.isoweek ≠ none ∧ p.weekday ≠ none)) := by
            intro h
            apply hns
            refine ⟨hu1, hu2, ?_⟩
            rcases h with ⟨hg, hc⟩ | ⟨hg, hc⟩
            · exact Or.inl ⟨hYy hg, hc⟩
            · exact Or.inr ⟨hIy hg, hc⟩
          rcases dateArm_cases p gy gi with ⟨_, _, _, e1, e2, e3, _⟩ | ⟨_, _, e1, e2, _⟩ |
              ⟨_, _, _, e1, e2, e3, _⟩ | ⟨_, _, _, e1, e2, e3, _⟩ | ⟨_, _, _, e1, e2, e3, _⟩ | ⟨ha, _⟩
          · exact absurd (Or.inl ⟨by simp [e1], Or.inl ⟨by simp [e2], by simp [e3]⟩⟩) hno
          · exact absurd (Or.inl ⟨by simp [e1], Or.inr (Or.inl (by simp [e2]))⟩) hno
          · exact absurd (Or.inl ⟨by simp [e1], Or.inr (Or.inr (Or.inl ⟨by simp [e2], by simp [e3]⟩))⟩) hno
          · exact absurd (Or.inl ⟨by simp [e1], Or.inr (Or.inr (Or.inr ⟨by simp [e2], by simp [e3]⟩))⟩) hno
          · exact absurd (Or.inr ⟨by simp [e1], by simp [e2], by simp [e3]⟩) hno
          · exact ha
        rw [harm]
        rfl
      · unfold Parsed.to_naive_date
        rw [hgy, resolve_year_unusable _ _ _ hu2]
    · unfold Parsed.to_naive_date
      rw [resolve_year_unusable _ _ _ hu1]


end Chrono.Proofs.ParsedRes
