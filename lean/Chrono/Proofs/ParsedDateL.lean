/-
  Helper lemmas for C14: `resolve_year`, the verifier closures and the date combinations of
  `Parsed::to_naive_date`.
-/
import Chrono.Proofs.ParsedL
import Chrono.Proofs.DateL
namespace Chrono.Proofs
open Chrono Chrono.M Chrono.Spec Chrono.Extracted

/-- an existing day of a year of the supported range -/
def VD (y : Int) (o : Nat) : Prop := MIN_YEAR ≤ y ∧ y ≤ MAX_YEAR ∧ 1 ≤ o ∧ o ≤ yearLen y

theorem ordinal_bounds (y : Int) (m d : Nat) (h : validYmd y m d = true) :
    1 ≤ ordinalOf y m d ∧ ordinalOf y m d ≤ yearLen y := by
  obtain ⟨hf16, _, _, _⟩ := flagsOf_facts y
  have hrep := isLeap_repYear y
  obtain ⟨hv, ho, hyl⟩ := leap_congr (repYear (flagsOf y)) y m d hrep
  have hmd := valid_bounds y m d h
  have hb := ordinal_bounds_fin m hmd.1 d hmd.2 _ hf16 (by rw [hv]; exact h)
  rw [ho, hyl] at hb
  exact hb

/-! ### `resolve_year` -/

/-- what a successful `resolve_year` says about the group -/
theorem resolve_year_ok (y q r g : Option Int) (h : Parsed.resolve_year y q r = .ok g) :
    (g = none ∧ y = none ∧ q = none ∧ r = none) ∨
    (∃ Y, g = some Y ∧ optIs y Y ∧ centIs q r Y ∧ GroupHasYear y r) := by
  unfold Parsed.resolve_year at h
  unfold optIs centIs GroupHasYear
  cases y with
  | some yv =>
    simp only [] at h
    split at h
    · rename_i hqr
      cases h
      right
      refine ⟨yv, rfl, fun x hx => (Option.some.inj hx).symm, ?_, Or.inl (by simp)⟩
      rw [hqr.1, hqr.2]; simp
    · split at h
      · split at h
        · cases h
        · rename_i hneg
          split at h
          · rename_i hc
            cases h
            right
            have hy0 : 0 ≤ yv := by omega
            rw [Int.tdiv_eq_ediv_of_nonneg hy0] at hc
            have hmod : Int.tmod yv 100 = yv % 100 := by rw [tmod_eq, if_pos hy0]; omega
            rw [hmod] at hc
            refine ⟨yv, rfl, fun x hx => (Option.some.inj hx).symm, ⟨?_, ?_⟩, Or.inl (by simp)⟩
            · intro x hx; rw [hx] at hc; simp at hc; exact ⟨hy0, hc.1⟩
            · intro x hx; rw [hx] at hc; simp at hc; exact ⟨hy0, hc.2⟩
          · cases h
      · cases h
  | none =>
    simp only [] at h
    split at h
    · cases h; left; exact ⟨rfl, rfl, rfl, rfl⟩
    · rename_i qv rv
      split at h
      · rename_i hr
        split at h
        · cases h
        · rename_i hq
          split at h
          · rename_i Y hY
            cases h
            right
            have : Y = qv * 100 + rv := by
              unfold optI32 at hY
              cases h1 : inI32 (qv * 100) <;> simp [h1] at hY
              cases h2 : inI32 (qv * 100 + rv) <;> simp [h2] at hY
              omega
            refine ⟨Y, rfl, (fun x hx => by cases hx), ⟨?_, ?_⟩, Or.inr (by simp)⟩
            · intro x hx; cases hx; omega
            · intro x hx; cases hx; omega
          · cases h
      · cases h
    · rename_i rv
      split at h
      · rename_i hr
        cases h
        right
        refine ⟨_, rfl, (fun x hx => by cases hx), ⟨(fun x hx => by cases hx), ?_⟩, Or.inr (by simp)⟩
        intro x hx; cases hx
        split <;> omega
      · cases h
    · cases h

/-- what a failing `resolve_year` says about the group -/
theorem resolve_year_err (y q r : Option Int) (e : PErr) (h : Parsed.resolve_year y q r = .error e) :
    (e = .notEnough ∧ ¬ GroupUsable y q r) ∨
    ((e = .impossible ∨ e = .outOfRange) ∧ ¬ GroupCoherent y q r) := by
  unfold Parsed.resolve_year at h
  unfold GroupUsable GroupCoherent optIs
  cases y with
  | some yv =>
    simp only [] at h
    split at h
    · cases h
    · rename_i hqr
      have hqr' : q ≠ none ∨ r ≠ none := by
        cases q <;> cases r <;> simp at hqr ⊢
      split at h
      · rename_i hmod
        split at h
        · rename_i hneg
          cases h
          right
          refine ⟨Or.inl rfl, fun hc => ?_⟩
          have := (hc.2.1 yv rfl hqr').1
          omega
        · rename_i hneg
          split at h
          · cases h
          · rename_i hc
            cases h
            right
            refine ⟨Or.inl rfl, fun hco => ?_⟩
            have hy0 : 0 ≤ yv := by omega
            rw [Int.tdiv_eq_ediv_of_nonneg hy0] at hc
            have hmod' : Int.tmod yv 100 = yv % 100 := by rw [tmod_eq, if_pos hy0]; omega
            rw [hmod'] at hc
            obtain ⟨_, hq, hr⟩ := hco.2.1 yv rfl hqr'
            apply hc
            constructor
            · cases q with
              | none => rfl
              | some qv => simp [hq qv rfl]
            · cases r with
              | none => rfl
              | some rv => simp [hr rv rfl]
      · rename_i hmod
        cases h
        right
        refine ⟨Or.inr rfl, fun hco => ?_⟩
        cases r with
        | none => simp [Parsed.modOk] at hmod
        | some rv =>
          have := hco.1 rv rfl
          simp [Parsed.modOk] at hmod
          omega
  | none =>
    simp only [] at h
    split at h
    · cases h
    · rename_i qv rv
      split at h
      · rename_i hr
        split at h
        · rename_i hq
          cases h
          right
          refine ⟨Or.inl rfl, fun hco => ?_⟩
          have := hco.2.2 rfl qv rv rfl rfl
          omega
        · rename_i hq
          split at h
          · cases h
          · rename_i hY
            cases h
            right
            refine ⟨Or.inr rfl, fun hco => ?_⟩
            have hb := hco.2.2 rfl qv rv rfl rfl
            have h1 : optI32 (qv * 100) = some (qv * 100) := by
              unfold optI32 inI32
              have : I32_MIN ≤ qv * 100 ∧ qv * 100 ≤ I32_MAX := by
                have a : I32_MIN = -2147483648 := rfl
                have b : I32_MAX = 2147483647 := rfl
                omega
              simp [this.1, this.2]
            have h2 : optI32 (qv * 100 + rv) = some (qv * 100 + rv) := by
              unfold optI32 inI32
              have : I32_MIN ≤ qv * 100 + rv ∧ qv * 100 + rv ≤ I32_MAX := by
                have a : I32_MIN = -2147483648 := rfl
                have b : I32_MAX = 2147483647 := rfl
                omega
              simp [this.1, this.2]
            rw [h1] at hY
            simp [h2] at hY
      · rename_i hr
        cases h
        right
        refine ⟨Or.inr rfl, fun hco => ?_⟩
        exact hr (hco.1 rv rfl)
    · rename_i rv
      split at h
      · cases h
      · rename_i hr
        cases h
        right
        refine ⟨Or.inr rfl, fun hco => ?_⟩
        exact hr (hco.1 rv rfl)
    · cases h
      left
      refine ⟨rfl, fun hu => hu ⟨rfl, by simp, rfl⟩⟩

/-! ### the verifier closures on an existing day -/

theorem getD_beq_iff (o : Option Int) (v : Int) : (o.getD v == v) = true ↔ optIs o v := by
  unfold optIs
  cases o with
  | none => simp
  | some x => simp

theorem or_beq_iff (o c : Option Int) : ((o.or c) == c) = true ↔ ∀ x, o = some x → c = some x := by
  cases o with
  | none => simp
  | some x =>
    show ((some x == c) = true) ↔ _
    rw [beq_iff_eq]
    constructor
    · intro h y hy; cases hy; exact h.symm
    · intro h; exact (h x rfl).symm

theorem centuryParts_nonneg (Y : Int) (h : 0 ≤ Y) :
    Parsed.centuryParts Y = (some (Y / 100), some (Y % 100)) := by
  unfold Parsed.centuryParts
  have hmod : Int.tmod Y 100 = Y % 100 := by rw [tmod_eq, if_pos h]; omega
  rw [if_pos h, Int.tdiv_eq_ediv_of_nonneg h, hmod]
theorem centuryParts_neg (Y : Int) (h : ¬ 0 ≤ Y) : Parsed.centuryParts Y = (none, none) := by
  unfold Parsed.centuryParts
  rw [if_neg h]

theorem cent_iff (q r : Option Int) (Y : Int) :
    (((q.or (Parsed.centuryParts Y).1) == (Parsed.centuryParts Y).1) = true ∧
     ((r.or (Parsed.centuryParts Y).2) == (Parsed.centuryParts Y).2) = true) ↔ centIs q r Y := by
  rw [or_beq_iff, or_beq_iff]
  unfold centIs
  by_cases h0 : 0 ≤ Y
  · rw [centuryParts_nonneg Y h0]
    dsimp only
    constructor
    · rintro ⟨a, b⟩
      exact ⟨fun x hx => ⟨h0, (Option.some.inj (a x hx)).symm⟩, fun x hx => ⟨h0, (Option.some.inj (b x hx)).symm⟩⟩
    · rintro ⟨a, b⟩
      exact ⟨fun x hx => by rw [(a x hx).2], fun x hx => by rw [(b x hx).2]⟩
  · rw [centuryParts_neg Y h0]
    dsimp only
    constructor
    · rintro ⟨a, b⟩; exact ⟨(fun x hx => by cases a x hx), (fun x hx => by cases b x hx)⟩
    · rintro ⟨a, b⟩
      exact ⟨fun x hx => absurd (a x hx).1 h0, fun x hx => absurd (b x hx).1 h0⟩

theorem days_since_int (w day : Weekday) :
    ((w.days_since day : Nat) : Int) = ((w.toNat : Int) - (day.toNat : Int)) % 7 := by
  cases w <;> cases day <;> decide

/-- field accessors of an existing day -/
theorem vd_fields (Y : Int) (o : Nat) (h : VD Y o) :
    (dateOfYo Y o).year = Y ∧ (dateOfYo Y o).ordinal = o ∧ (dateOfYo Y o).flags = flagsOf Y ∧
    (dateOfYo Y o).month = .ok (monthOfYo Y o) ∧ (dateOfYo Y o).day = .ok (dayOfYo Y o) ∧
    ((dateOfYo Y o).weekday.toNat : Int) = weekdayOf (dayNumYo Y o) ∧ o ≤ 366 := by
  obtain ⟨h1, h2, h3, h4⟩ := h
  have hyl := yearLen_ge Y
  obtain ⟨a, b, c, _, _, _⟩ := dateOfYo_fields Y o (by omega)
  obtain ⟨m1, m2, _, _⟩ := month_day_spec Y o h3 h4
  exact ⟨a, b, c, m1, m2, weekday_spec Y o (by omega), by omega⟩

theorem weeks_from_spec (Y : Int) (o : Nat) (h : VD Y o) :
    Parsed.weeks_from (dateOfYo Y o) .sun = weekNo Y o 6 ∧
    Parsed.weeks_from (dateOfYo Y o) .mon = weekNo Y o 0 ∧
    0 ≤ weekNo Y o 6 ∧ weekNo Y o 6 ≤ 53 ∧ 0 ≤ weekNo Y o 0 ∧ weekNo Y o 0 ≤ 53 := by
  obtain ⟨_, hord, _, _, _, hwd, ho⟩ := vd_fields Y o h
  unfold Parsed.weeks_from weekNo
  rw [hord, days_since_int, days_since_int, hwd]
  have hw0 : 0 ≤ weekdayOf (dayNumYo Y o) ∧ weekdayOf (dayNumYo Y o) < 7 := by
    unfold weekdayOf; omega
  have : (Weekday.sun.toNat : Int) = 6 := rfl
  have : (Weekday.mon.toNat : Int) = 0 := rfl
  have ho1 := h.2.2.1
  generalize weekdayOf (dayNumYo Y o) = W at *
  rw [tdiv_eq, tdiv_eq]
  simp only [*]
  refine ⟨?_, ?_, ?_⟩ <;> omega

theorem asI32_week (v wk : Int) (hv : 0 ≤ v ∧ v ≤ 4294967295) (hw : 0 ≤ wk ∧ wk ≤ 53) :
    asI32 v = wk ↔ v = wk := by
  unfold asI32; simp only; split <;> omega

theorem week_beq_iff (o : Option Int) (wk : Int) (ho : optIn o 0 4294967295) (hw : 0 ≤ wk ∧ wk ≤ 53) :
    ((o.map asI32).getD wk == wk) = true ↔ optIs o wk := by
  unfold optIs
  cases o with
  | none => simp
  | some v =>
    have hv := ho v rfl
    simp only [Option.map_some, Option.getD_some, beq_iff_eq, Option.some.injEq]
    rw [asI32_week v wk hv hw]
    constructor
    · intro h x hx; rw [← hx]; exact h
    · intro h; exact h v rfl

theorem verify_ordinal_iff (p : Parsed) (Y : Int) (o : Nat) (hp : InType p) (h : VD Y o) :
    Parsed.verify_ordinal p (dateOfYo Y o) = true ↔
      optIs p.ordinal o ∧ optIs p.week_from_sun (weekNo Y o 6) ∧ optIs p.week_from_mon (weekNo Y o 0) := by
  obtain ⟨_, hord, _, _, _, _, _⟩ := vd_fields Y o h
  obtain ⟨w1, w2, b1, b2, b3, b4⟩ := weeks_from_spec Y o h
  unfold Parsed.verify_ordinal
  simp only [Bool.and_eq_true]
  rw [hord, w1, w2, getD_beq_iff, week_beq_iff _ _ hp.2.2.2.2.2.2.2.2.1 ⟨b1, b2⟩,
    week_beq_iff _ _ hp.2.2.2.2.2.2.2.2.2.1 ⟨b3, b4⟩]
  exact and_assoc

theorem verify_ymd_iff (p : Parsed) (Y : Int) (o : Nat) (h : VD Y o) :
    ∃ b, Parsed.verify_ymd p (dateOfYo Y o) = .ok b ∧
      (b = true ↔ optIs p.year Y ∧ centIs p.year_div_100 p.year_mod_100 Y ∧
        optIs p.month (monthOfYo Y o) ∧ optIs p.day (dayOfYo Y o)) := by
  obtain ⟨hy, _, _, hm, hd, _, _⟩ := vd_fields Y o h
  unfold Parsed.verify_ymd
  rw [hm, hd]
  simp only [Res.bind, hy]
  refine ⟨_, rfl, ?_⟩
  simp only [Bool.and_eq_true]
  rw [getD_beq_iff, getD_beq_iff, getD_beq_iff, and_assoc, and_assoc, and_assoc]
  constructor
  · rintro ⟨a, b, c, d, e⟩; exact ⟨a, (cent_iff _ _ _).mp ⟨b, c⟩, d, e⟩
  · rintro ⟨a, bc, d, e⟩; obtain ⟨b, c⟩ := (cent_iff _ _ _).mpr bc; exact ⟨a, b, c, d, e⟩

theorem iso_week_ok (Y : Int) (o : Nat) (h : VD Y o) : ∃ w, (dateOfYo Y o).iso_week = .ok w := by
  obtain ⟨hy, hord, hfl, _, _, _, _⟩ := vd_fields Y o h
  obtain ⟨h1, h2, _, _⟩ := h
  have hMIN : MIN_YEAR = -262143 := rfl
  have hMAX : MAX_YEAR = 262142 := rfl
  unfold Date.iso_week IsoWeek.from_yof
  rw [hy, hord, hfl]
  simp only [Int.toNat_natCast]
  rw [ckI32_ok (by omega) (by omega), ckI32_ok (by omega) (by omega)]
  by_cases c1 : (o + YearFlags.isoweek_delta (flagsOf Y)) / 7 < 1
  · rw [if_pos c1]; exact ⟨_, rfl⟩
  · rw [if_neg c1]
    by_cases c2 : (o + YearFlags.isoweek_delta (flagsOf Y)) / 7 > YearFlags.nisoweeks (flagsOf Y)
    · rw [if_pos c2]; exact ⟨_, rfl⟩
    · rw [if_neg c2]; exact ⟨_, rfl⟩

theorem verify_iso_iff (p : Parsed) (Y : Int) (o : Nat) (h : VD Y o) :
    ∃ b, Parsed.verify_isoweekdate p (dateOfYo Y o) = .ok b ∧
      (b = true ↔ IsoIs p (dateOfYo Y o) ∧
        (∀ w, p.weekday = some w → (w.toNat : Int) = weekdayOf (dayNumYo Y o))) := by
  obtain ⟨w, hw⟩ := iso_week_ok Y o h
  obtain ⟨_, _, _, _, _, hwd, _⟩ := vd_fields Y o h
  unfold Parsed.verify_isoweekdate IsoIs
  rw [hw]
  simp only [Res.bind]
  refine ⟨_, rfl, ?_⟩
  simp only [Bool.and_eq_true]
  rw [getD_beq_iff, getD_beq_iff, and_assoc, and_assoc, and_assoc]
  have hwk : (p.weekday.getD (dateOfYo Y o).weekday == (dateOfYo Y o).weekday) = true ↔
      (∀ w, p.weekday = some w → (w.toNat : Int) = weekdayOf (dayNumYo Y o)) := by
    rw [← hwd]
    cases p.weekday with
    | none => simp
    | some x =>
      simp only [Option.getD_some, beq_iff_eq, Option.some.injEq]
      constructor
      · intro e v hv; rw [← hv, e]
      · intro e
        have := e x rfl
        generalize (dateOfYo Y o).weekday = z at *
        cases x <;> cases z <;> first | rfl | (simp [Weekday.toNat] at this)
  constructor
  · rintro ⟨a, b, c, d, e⟩
    exact ⟨⟨w, rfl, a, (cent_iff _ _ _).mp ⟨b, c⟩, d⟩, hwk.mp e⟩
  · rintro ⟨⟨w', hw', a, bc, d⟩, e⟩
    cases hw'
    obtain ⟨b, c⟩ := (cent_iff _ _ _).mpr bc
    exact ⟨a, b, c, d, hwk.mpr e⟩


/-! ### the date constructors used by the combinations -/

theorem date_with_ordinal_spec (Y : Int) (ord : Int) (h1 : 1 ≤ ord) :
    Parsed.date_with_ordinal (dateOfYo Y 1) ord =
      .ok (if ord ≤ yearLen Y then some (dateOfYo Y ord.toNat) else none) := by
  have hyl := yearLen_ge Y
  obtain ⟨_, hord, hfl, _, _, _⟩ := dateOfYo_fields Y 1 (by omega)
  obtain ⟨hf16, hf8, hleap, _⟩ := flagsOf_facts Y
  have hD : DATE_MAX_OL = 5856 := rfl
  unfold Parsed.date_with_ordinal
  rw [hord, hfl, hD]
  by_cases hbig : ord = 0 ∨ ord > 366
  · rw [if_pos hbig, if_neg (by omega)]
  · rw [if_neg hbig]
    obtain ⟨n, rfl⟩ := Int.eq_ofNat_of_zero_le (by omega : 0 ≤ ord)
    simp only [Int.toNat_natCast]
    by_cases hle : (n : Int) ≤ yearLen Y
    · have hc : (n : Int) * 16 + ((flagsOf Y / 8 : Nat) : Int) * 8 ≤ 5856 := by
        rw [hleap]; unfold yearLen at hle; cases hl : isLeap Y <;> simp [hl] at hle ⊢ <;> omega
      rw [if_pos hc, if_pos hle]
      have h366 : n = 366 → flagsOf Y / 8 = 0 := by
        intro h; rw [hleap]; unfold yearLen at hle; cases hl : isLeap Y <;> simp [hl] at hle ⊢; omega
      have hyof : (dateOfYo Y 1).yof - ((1 : Nat) : Int) * 16 + (n : Int) * 16 =
          Y * 8192 + ((n * 16 + flagsOf Y : Nat) : Int) := by
        unfold dateOfYo; push_cast; omega
      rw [hyof, from_yof_ok Y n (flagsOf Y) (by omega) (by omega) hf16 hf8 h366]
      simp only []
      congr 2
      unfold dateOfYo
      congr 1
      push_cast; omega
    · have hc : ¬ ((n : Int) * 16 + ((flagsOf Y / 8 : Nat) : Int) * 8 ≤ 5856) := by
        rw [hleap]; unfold yearLen at hle; cases hl : isLeap Y <;> simp [hl] at hle ⊢ <;> omega
      rw [if_neg hc, if_neg hle]

/-- ordinal that `resolve_week_date` computes: week 1 starts on the first `start` weekday -/
def weekOrd (Y : Int) (w : Int) (wd start : Weekday) : Int :=
  1 + ((start.toNat : Int) - weekdayOf (dayNumYo Y 1)) % 7 + (w - 1) * 7 +
    ((wd.toNat : Int) - (start.toNat : Int)) % 7

theorem resolve_week_date_spec (Y w : Int) (wd start : Weekday) :
    Parsed.resolve_week_date Y w wd start =
      .ok (if w > 53 then .error .outOfRange
           else if ¬ (MIN_YEAR ≤ Y ∧ Y ≤ MAX_YEAR) then .error .outOfRange
           else if weekOrd Y w wd start ≤ 0 then .error .impossible
           else if weekOrd Y w wd start ≤ yearLen Y then .ok (dateOfYo Y (weekOrd Y w wd start).toNat)
           else .error .impossible) := by
  unfold Parsed.resolve_week_date
  by_cases hw : w > 53
  · rw [if_pos hw, if_pos hw]
  · rw [if_neg hw, if_neg hw, ctor_yo']
    have hyl := yearLen_ge Y
    by_cases hY : MIN_YEAR ≤ Y ∧ Y ≤ MAX_YEAR
    · have hc : MIN_YEAR ≤ Y ∧ Y ≤ MAX_YEAR ∧ 1 ≤ 1 ∧ 1 ≤ yearLen Y := ⟨hY.1, hY.2, by omega, by omega⟩
      rw [if_pos hc, if_neg (by intro h; exact h hY)]
      simp only [Parsed.okOr, Parsed.RP.bind]
      have hwd := weekday_spec Y 1 (by omega)
      rw [days_since_int, days_since_int, hwd]
      have hwo : (1 : Int) + ((start.toNat : Int) - weekdayOf (dayNumYo Y ((1 : Nat) : Int))) % 7 + (w - 1) * 7 +
          ((wd.toNat : Int) - (start.toNat : Int)) % 7 = weekOrd Y w wd start := by
        unfold weekOrd; simp
      rw [hwo]
      by_cases h0 : weekOrd Y w wd start ≤ 0
      · rw [if_pos h0, if_pos h0]
      · rw [if_neg h0, if_neg h0, date_with_ordinal_spec Y _ (by omega)]
        by_cases hle : weekOrd Y w wd start ≤ yearLen Y
        · rw [if_pos hle, if_pos hle]
        · rw [if_neg hle, if_neg hle]
    · have hc : ¬ (MIN_YEAR ≤ Y ∧ Y ≤ MAX_YEAR ∧ 1 ≤ 1 ∧ 1 ≤ yearLen Y) := fun h => hY ⟨h.1, h.2.1⟩
      rw [if_neg hc, if_pos hY]
      rfl

theorem isoywd_form (y : Int) (w : Nat) (wd : Weekday) :
    ∃ r, Date.from_isoywd_opt y w wd = .ok r ∧
      ∀ d, r = some d → ∃ Y o, VD Y o ∧ d = dateOfYo Y o := by
  unfold Date.from_isoywd_opt
  simp only [from_year_spec]
  have key : ∀ (Y : Int) (o : Nat), ∃ r, Date.from_ordinal_and_flags Y o (flagsOf Y) = .ok r ∧
      ∀ d, r = some d → ∃ Y o, VD Y o ∧ d = dateOfYo Y o := by
    intro Y o
    refine ⟨_, from_oaf_spec Y o, ?_⟩
    intro d hd
    split at hd
    · rename_i hc; cases hd; exact ⟨Y, o, hc, rfl⟩
    · cases hd
  split
  · exact ⟨none, rfl, fun d hd => by cases hd⟩
  · split
    · cases hpy : optI32 (y - 1) with
      | none => exact ⟨none, rfl, fun d hd => by cases hd⟩
      | some py => exact key py _
    · split
      · exact key y _
      · cases hny : optI32 (y + 1) with
        | none => exact ⟨none, rfl, fun d hd => by cases hd⟩
        | some ny => exact key ny _


end Chrono.Proofs
