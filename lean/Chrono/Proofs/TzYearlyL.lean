/- C05: the year-by-year hypotheses on rules (`InsideYear`, `RuleYearly`, both `∀ y : Int`) follow
   from a check of 400 consecutive years: the Gregorian cycle is 146097 days = 20871 weeks. -/
import Chrono.Proofs.TzLookupL

set_option linter.unusedSimpArgs false
set_option linter.unusedVariables false

namespace Chrono.Proofs.TzL
open Chrono Chrono.M.Tz Chrono.M.TzL Chrono.Spec.Zone Chrono.Extracted.TzL Chrono.Proofs

theorem leap_add400 (y : Int) : leap (y + 400) = leap y := by
  unfold leap
  apply decide_eq_decide.mpr
  omega

theorem dBY_add400 (y : Int) : daysBeforeYear (y + 400) = daysBeforeYear y + 146097 := by
  unfold daysBeforeYear leapsThrough
  omega

theorem dayNum_add400 (y : Int) (m : Nat) (d : Int) : dayNum (y + 400) m d = dayNum y m d + 146097 := by
  unfold dayNum
  rw [leap_add400, dBY_add400]; omega

/-- every POSIX rule day falls exactly 146097 days later 400 years later (146097 = 7 · 20871) -/
theorem ruleDayNum_add400 (d : RuleDay) (y : Int) : ruleDayNum d (y + 400) = ruleDayNum d y + 146097 := by
  cases d with
  | julian1 n =>
    unfold ruleDayNum
    simp only [leap_add400, dBY_add400]
    split <;> omega
  | julian0 n =>
    unfold ruleDayNum
    simp only [dBY_add400]; omega
  | mwd m w wd =>
    unfold ruleDayNum
    simp only [leap_add400, dayNum_add400]
    have e : weekdayOf (dayNum y m 1 + 146097) = weekdayOf (dayNum y m 1) := by unfold weekdayOf; omega
    rw [e]
    generalize dayNum y m 1 = first
    generalize ((wd : Int) - weekdayOf first) % 7 = k
    split <;> split <;> omega

theorem startAt_add400 (a : Alt) (y : Int) : startAt a (y + 400) = startAt a y + 12622780800 := by
  unfold startAt; rw [ruleDayNum_add400]; omega
theorem endAt_add400 (a : Alt) (y : Int) : endAt a (y + 400) = endAt a y + 12622780800 := by
  unfold endAt; rw [ruleDayNum_add400]; omega

theorem insideYearAt_add400 (a : Alt) (y : Int) : InsideYearAt a (y + 400) ↔ InsideYearAt a y := by
  unfold InsideYearAt
  have e : y + 400 + 1 = (y + 1) + 400 := by omega
  rw [e, startAt_add400, endAt_add400, dBY_add400, dBY_add400]
  omega

theorem ruleYearlyAt_add400 (a : Alt) (y : Int) : RuleYearlyAt a (y + 400) ↔ RuleYearlyAt a y := by
  unfold RuleYearlyAt inYear RuleSeparated
  have e : y + 400 + 1 = (y + 1) + 400 := by omega
  rw [e]
  simp only [startAt_add400, endAt_add400, dBY_add400]
  generalize startAt a y = s0
  generalize endAt a y = e0
  generalize startAt a (y + 1) = s1
  generalize endAt a (y + 1) = e1
  generalize daysBeforeYear y = d0
  generalize daysBeforeYear (y + 1) = d1
  omega

theorem shift_nat (P : Int → Prop) (hP : ∀ y, P (y + 400) ↔ P y) (y : Int) (n : Nat) :
    P (y + 400 * (n : Int)) ↔ P y := by
  induction n with
  | zero => simp
  | succ k ih =>
    have e : y + 400 * ((k + 1 : Nat) : Int) = (y + 400 * (k : Int)) + 400 := by omega
    rw [e, hP]; exact ih

/-- a year-indexed condition that is 400-periodic holds for every year as soon as it holds on 2000 … 2399 -/
theorem all_years (P : Int → Prop) (hP : ∀ y, P (y + 400) ↔ P y)
    (h : ∀ k : Nat, k < 400 → P (2000 + (k : Int))) : ∀ y : Int, P y := by
  intro y
  have hr : 0 ≤ (y - 2000) % 400 ∧ (y - 2000) % 400 < 400 := by omega
  have hk := h ((y - 2000) % 400).toNat (by omega)
  by_cases hq : 0 ≤ (y - 2000) / 400
  · have e : y = (2000 + ((((y - 2000) % 400).toNat : Nat) : Int)) + 400 * ((((y - 2000) / 400).toNat : Nat) : Int) := by
      omega
    rw [e]; exact (shift_nat P hP _ _).mpr hk
  · have e : 2000 + ((((y - 2000) % 400).toNat : Nat) : Int) = y + 400 * (((-((y - 2000) / 400)).toNat : Nat) : Int) := by
      omega
    rw [e] at hk; exact (shift_nat P hP _ _).mp hk

/-- soundness of the 400-year check of `RuleYearly` (any rule; no validity hypothesis is needed) -/
theorem ruleYearly_of_B' (a : Alt) (h : ruleYearlyB a = true) : RuleYearly a := by
  intro y
  show RuleYearlyAt a y
  apply all_years (RuleYearlyAt a) (ruleYearlyAt_add400 a)
  intro k hk
  have := List.all_eq_true.mp h k (List.mem_range.mpr hk)
  simpa using this

theorem ruleYearlyB_of (a : Alt) (h : RuleYearly a) : ruleYearlyB a = true := by
  unfold ruleYearlyB
  rw [List.all_eq_true]
  intro k _
  exact decide_eq_true (h (2000 + (k : Int)))

theorem insideYear_of_B' (a : Alt) (h : insideYearB a = true) : InsideYear a := by
  intro y
  show InsideYearAt a y
  apply all_years (InsideYearAt a) (insideYearAt_add400 a)
  intro k hk
  have := List.all_eq_true.mp h k (List.mem_range.mpr hk)
  simpa using this

theorem insideYearB_of (a : Alt) (h : InsideYear a) : insideYearB a = true := by
  unfold insideYearB
  rw [List.all_eq_true]
  intro k _
  exact decide_eq_true (h (2000 + (k : Int)))

end Chrono.Proofs.TzL
