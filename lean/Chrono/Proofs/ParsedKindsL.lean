/-
  C14: WHICH error the combined resolvers report (`to_naive_datetime_with_offset`, `to_datetime`,
  `to_datetime_with_timezone` for fixed zones): NOT_ENOUGH / IMPOSSIBLE / OUT_OF_RANGE characterised
  through the results of the component resolvers and the Spec predicates `DateSufficient`,
  `TimeSufficient`, `GroupUsable`.
-/
import Chrono.Proofs.ParsedZFieldsL
namespace Chrono.Proofs.ParsedKinds
open Chrono Chrono.M Chrono.M.TzL Chrono.Spec Chrono.Spec.Fields Chrono.Spec.Ts Chrono.Extracted
open Chrono.Proofs Chrono.Proofs.Ts Chrono.Proofs.ParsedRes Chrono.Proofs.ParsedZone Chrono.Proofs.ParsedZF

/-- the fall-back path reports NOT_ENOUGH only for a century-only ISO year group: everything else it
needs it takes from the timestamp -/
theorem ts_path_not_enough (p : Parsed) (hp : InType p) (off timestamp : Int)
    (h : Parsed.from_timestamp_path p off timestamp = .ok (.error .notEnough)) :
    ¬ GroupUsable p.isoyear p.isoyear_div_100 p.isoyear_mod_100 := by
  unfold Parsed.from_timestamp_path at h
  cases hopt : optI64 (timestamp + off) with
  | none => rw [hopt] at h; cases h
  | some ts =>
    rw [hopt] at h
    have hts' : ts = timestamp + off ∧ isI64 ts := by
      unfold optI64 at hopt
      split at hopt
      · rename_i hin
        cases hopt
        refine ⟨rfl, ?_⟩
        unfold inI64 at hin
        have a : I64_MIN = -9223372036854775808 := rfl
        have b : I64_MAX = 9223372036854775807 := rfl
        simp only [Bool.and_eq_true, decide_eq_true_eq] at hin
        unfold isI64; omega
      · cases hopt
    obtain ⟨rfl, hi64⟩ := hts'
    simp only [] at h
    obtain ⟨r0, hr0, _, hm0⟩ := from_timestamp_spec (timestamp + off) 0 hi64 (by omega)
    rw [hr0] at h
    cases r0 with
    | none => simp only [okOr_none, bind_err] at h; cases h
    | some dtm =>
      obtain ⟨hinv, _, hsecs, hfrac⟩ := hm0 dtm rfl
      simp only [okOr_some, bind_okok] at h
      obtain ⟨r1, hr1, he1, hok1⟩ := leap_adjust_spec p dtm hinv hfrac
      rw [hr1] at h
      cases r1 with
      | error e =>
        simp only [bind_err] at h
        cases h
        rcases he1 _ rfl with h' | h' <;> cases h'
      | ok dp =>
        obtain ⟨d', p'⟩ := dp
        obtain ⟨hinv', hfrac', ⟨s', rfl, hsold, hs'⟩, hinst⟩ := hok1 d' _ rfl
        simp only [bind_okok] at h
        obtain ⟨hdi, t0, t1, _, _⟩ := id hinv'
        obtain ⟨oN, hdeq, hoN, y1, y2, o1, o2⟩ := dateInv_repr d'.date hdi
        have hyl := yearLen_ge d'.date.year
        have hMIN : MIN_YEAR = -262143 := rfl
        have hMAX : MAX_YEAR = 262142 := rfl
        have hhour : d'.time.hour = d'.time.secs / 60 / 60 := rfl
        have hmin : d'.time.minute = d'.time.secs / 60 % 60 := rfl
        have hs60 : 0 ≤ s' ∧ s' ≤ 60 := by split at hs' <;> omega
        rw [fill_chain p s' d'.date.year d'.date.ordinal d'.time.hour d'.time.minute hsold
          (by omega) (by omega) (by omega) (by omega)] at h
        by_cases hfit : Fits p s' d'.date.year d'.date.ordinal d'.time.hour d'.time.minute
        · rw [if_pos hfit] at h
          have hp4 := inType_filled p hp s' d'.date.year d'.date.ordinal d'.time.hour d'.time.minute
            hs60 (by omega) (by omega) (by omega) (by omega)
          obtain ⟨r2, hr2, _, _, hne2⟩ := date_main _ hp4
          rw [hr2] at h
          cases r2 with
          | error e =>
            simp only [bind_err] at h
            cases h
            intro hu
            apply hne2 rfl
            exact ⟨fun hh => by simp [filled] at hh, hu,
              Or.inl ⟨Or.inl (by simp [filled]), Or.inr (Or.inl (by simp [filled]))⟩⟩
          | ok date =>
            simp only [bind_okok, Parsed.liftP] at h
            cases htm : Parsed.to_naive_time (filled p s' d'.date.year d'.date.ordinal d'.time.hour d'.time.minute) with
            | error e =>
              rw [htm] at h
              simp only [bind_err] at h
              cases h
              rcases time_err' _ _ htm with ⟨_, h'⟩ | ⟨h', _⟩
              · exfalso
                apply h'
                exact ⟨by simp [filled], by simp [filled], by simp [filled], fun _ => by simp [filled]⟩
              · cases h'
            | ok t => rw [htm] at h; simp only [bind_okok] at h; cases h
        · rw [if_neg hfit] at h; cases h

/-- `to_naive_datetime_with_offset` WITHOUT a timestamp field: the date resolver's error, else the
time resolver's error, else the pair -/
theorem dt_no_timestamp (p : Parsed) (hp : InType p) (off : Int)
    (hoff : -2147483648 ≤ off ∧ off ≤ 2147483647) (hts : p.timestamp = none) :
    ∃ rd, Parsed.to_naive_date p = .ok rd ∧
      Parsed.to_naive_datetime_with_offset p off = .ok (match rd, Parsed.to_naive_time p with
        | .error e, _ => .error e
        | .ok _, .error e => .error e
        | .ok d, .ok t => .ok ⟨d, t⟩) := by
  obtain ⟨rd, hrd, hokd, _, _⟩ := date_main p hp
  refine ⟨rd, hrd, ?_⟩
  cases rd with
  | error e =>
    unfold Parsed.to_naive_datetime_with_offset
    rw [hrd]
    simp only [hts]
  | ok d =>
    cases htm : Parsed.to_naive_time p with
    | error e =>
      unfold Parsed.to_naive_datetime_with_offset
      rw [hrd, htm]
      simp only [hts]
    | ok t =>
      obtain ⟨Y, o, hvd, rfl, _⟩ := hokd d rfl
      rw [dt_fields_path p off hoff Y o t hvd (time_sound' p t htm).1.1 hrd htm, hts]

/-- `to_naive_datetime_with_offset` WITH a timestamp field when date and time do not both resolve:
OUT_OF_RANGE if either resolver says so, else IMPOSSIBLE if either says so, else the fall-back path -/
theorem dt_with_timestamp (p : Parsed) (hp : InType p) (off ts : Int) (hts : p.timestamp = some ts)
    (hnb : ¬ ∃ d t, Parsed.to_naive_date p = .ok (.ok d) ∧ Parsed.to_naive_time p = .ok t) :
    ∃ rd, Parsed.to_naive_date p = .ok rd ∧
      Parsed.to_naive_datetime_with_offset p off =
        (if rd = .error .outOfRange ∨ Parsed.to_naive_time p = .error .outOfRange then .ok (.error .outOfRange)
         else if rd = .error .impossible ∨ Parsed.to_naive_time p = .error .impossible then .ok (.error .impossible)
         else Parsed.from_timestamp_path p off ts) := by
  obtain ⟨rd, hrd, _, _, _⟩ := date_main p hp
  refine ⟨rd, hrd, ?_⟩
  have errIs_iff : ∀ {α} [DecidableEq α] (x : PRes α) (k : PErr), Parsed.errIs x k = true ↔ x = .error k := by
    intro α _ x k
    cases x with
    | ok a => simp [Parsed.errIs]
    | error e => simp [Parsed.errIs]
  have tail : (match p.timestamp with
        | some timestamp =>
          if Parsed.errIs rd .outOfRange || Parsed.errIs (Parsed.to_naive_time p) .outOfRange then .ok (.error .outOfRange)
          else if Parsed.errIs rd .impossible || Parsed.errIs (Parsed.to_naive_time p) .impossible then .ok (.error .impossible)
          else Parsed.from_timestamp_path p off timestamp
        | none =>
          match rd with
          | .error e => .ok (.error e)
          | .ok _ => match Parsed.to_naive_time p with
            | .error e => .ok (.error e)
            | .ok _ => .panic : Parsed.RP NaiveDT) =
      (if rd = .error .outOfRange ∨ Parsed.to_naive_time p = .error .outOfRange then .ok (.error .outOfRange)
         else if rd = .error .impossible ∨ Parsed.to_naive_time p = .error .impossible then .ok (.error .impossible)
         else Parsed.from_timestamp_path p off ts) := by
    rw [hts]
    simp only [Bool.or_eq_true, errIs_iff]
  unfold Parsed.to_naive_datetime_with_offset
  rw [hrd]
  simp only []
  cases rd with
  | error e =>
    cases htm : Parsed.to_naive_time p with
    | error e2 => rw [htm] at tail; exact tail
    | ok t => rw [htm] at tail; exact tail
  | ok d =>
    cases htm : Parsed.to_naive_time p with
    | error e2 => rw [htm] at tail; exact tail
    | ok t => exact absurd ⟨d, t, hrd, htm⟩ hnb

/-- NOT_ENOUGH of the date-time resolver, EVERY record: it implies that the record does not hold a
sufficient date AND a sufficient time combination; and with a timestamp field it is reported only for
a century-only ISO year group (the timestamp supplies everything else) -/
theorem dt_not_enough_only (p : Parsed) (hp : InType p) (off : Int)
    (hoff : -2147483648 ≤ off ∧ off ≤ 2147483647)
    (h : Parsed.to_naive_datetime_with_offset p off = .ok (.error .notEnough)) :
    ¬ (DateSufficient p ∧ TimeSufficient p) ∧
    (p.timestamp ≠ none → ¬ GroupUsable p.isoyear p.isoyear_div_100 p.isoyear_mod_100) := by
  obtain ⟨rd0, hrd0, hokd, _, hned⟩ := date_main p hp
  cases hts : p.timestamp with
  | none =>
    refine ⟨?_, fun hh => absurd rfl hh⟩
    obtain ⟨rd, hrd, hres⟩ := dt_no_timestamp p hp off hoff hts
    rw [hrd0] at hrd; cases hrd
    rw [hres] at h
    cases rd0 with
    | error e =>
      simp only [] at h
      cases h
      exact fun hs => hned rfl hs.1
    | ok d =>
      cases htm : Parsed.to_naive_time p with
      | error e =>
        rw [htm] at h
        simp only [] at h
        cases h
        rcases time_err' p _ htm with ⟨_, h2⟩ | ⟨h1, _⟩
        · exact fun hs => h2 hs.2
        · cases h1
      | ok t => rw [htm] at h; cases h
  | some ts =>
    by_cases hb : ∃ d t, Parsed.to_naive_date p = .ok (.ok d) ∧ Parsed.to_naive_time p = .ok t
    · exfalso
      obtain ⟨d, t, hd, ht⟩ := hb
      obtain ⟨Y, o, hvd, rfl, _⟩ := hokd d (by rw [hrd0] at hd; cases hd; rfl)
      rw [dt_fields_path p off hoff Y o t hvd (time_sound' p t ht).1.1 hd ht, hts] at h
      simp only [] at h
      split at h <;> cases h
    · obtain ⟨rd, hrd, hres⟩ := dt_with_timestamp p hp off ts hts hb
      rw [hres] at h
      split at h
      · cases h
      · split at h
        · cases h
        · have hu := ts_path_not_enough p hp off ts h
          exact ⟨fun hs => hu hs.1.2.1, fun _ => hu⟩

/-- NOT_ENOUGH of the date-time resolver, exactly, when the year groups are coherent and the time
fields in range: reported iff there is no timestamp field, the record does not hold a sufficient date
and a sufficient time combination, and the date resolver does not itself report IMPOSSIBLE /
OUT_OF_RANGE (its error comes first) — or there is a timestamp and the fall-back path reports it
(then the ISO year group is century-only, `dt_not_enough_only`) -/
theorem dt_not_enough_iff (p : Parsed) (hp : InType p) (off : Int)
    (hoff : -2147483648 ≤ off ∧ off ≤ 2147483647)
    (hcY : GroupCoherent p.year p.year_div_100 p.year_mod_100)
    (hcI : GroupCoherent p.isoyear p.isoyear_div_100 p.isoyear_mod_100) (hr : TimeInRange p)
    (hts : p.timestamp = none) :
    Parsed.to_naive_datetime_with_offset p off = .ok (.error .notEnough) ↔
      (¬ (DateSufficient p ∧ TimeSufficient p) ∧
        ¬ ∃ e, e ≠ .notEnough ∧ Parsed.to_naive_date p = .ok (.error e)) := by
  obtain ⟨rd, hrd, hres⟩ := dt_no_timestamp p hp off hoff hts
  have hdne := date_not_enough_iff p hp hcY hcI
  constructor
  · intro h
    refine ⟨(dt_not_enough_only p hp off hoff h).1, ?_⟩
    rintro ⟨e, hne, he⟩
    rw [hrd] at he; cases he
    rw [hres] at h
    simp only [] at h
    cases h
    exact hne rfl
  · rintro ⟨hns, hnd⟩
    rw [hres]
    cases rd with
    | error e =>
      simp only []
      by_cases he : e = .notEnough
      · rw [he]
      · exact absurd ⟨e, he, hrd⟩ hnd
    | ok d =>
      have hds : DateSufficient p := by
        by_contra hc
        have := hdne.mpr hc
        rw [hrd] at this; cases this
      have hnt : ¬ TimeSufficient p := fun ht => hns ⟨hds, ht⟩
      cases htm : Parsed.to_naive_time p with
      | ok t => exact absurd (time_sound' p t htm).2.2.1 hnt
      | error e =>
        simp only []
        rcases time_err' p e htm with ⟨h1, _⟩ | ⟨_, h2⟩
        · rw [h1]
        · exact absurd hr h2

/-- `to_datetime` stage by stage -/
theorem to_datetime_stages (p : Parsed) (hp : InType p) :
    (p.offset = none → p.timestamp = none → Parsed.to_datetime p = .ok (.error .notEnough)) ∧
    ((p.offset ≠ none ∨ p.timestamp ≠ none) →
      ∃ r, Parsed.to_naive_datetime_with_offset p (p.offset.getD 0) = .ok r ∧
        (∀ e, r = .error e → Parsed.to_datetime p = .ok (.error e)) ∧
        (∀ dt, r = .ok dt →
          (¬ OffValid (p.offset.getD 0) → Parsed.to_datetime p = .ok (.error .outOfRange)) ∧
          (OffValid (p.offset.getD 0) → ¬ InRangeSecs (instSecs dt - p.offset.getD 0) →
            Parsed.to_datetime p = .ok (.error .impossible)) ∧
          (OffValid (p.offset.getD 0) → InRangeSecs (instSecs dt - p.offset.getD 0) →
            ∃ z, Parsed.to_datetime p = .ok (.ok z) ∧ z.off = p.offset.getD 0 ∧
              Zoned.naive_local z = .ok dt))) := by
  have hoffT := hp.2.2.2.2.2.2.2.2.2.2.2.2.2.2.2.2.2.2.2
  have core : ∀ (offset : Int), (-2147483648 ≤ offset ∧ offset ≤ 2147483647) →
      ∃ r, Parsed.to_naive_datetime_with_offset p offset = .ok r ∧
        (∀ e, r = .error e →
          (Parsed.RP.bind (Parsed.to_naive_datetime_with_offset p offset) fun datetime =>
            match Zoned.east_opt offset with
            | none => .ok (.error .outOfRange)
            | some off =>
              match Zoned.from_local_datetime off datetime with
              | .panic => .panic
              | .ok none => .ok (.error .impossible)
              | .ok (some t) => .ok (.ok t) : Parsed.RP Zoned) = .ok (.error e)) ∧
        (∀ dt, r = .ok dt →
          (¬ OffValid offset →
            (Parsed.RP.bind (Parsed.to_naive_datetime_with_offset p offset) fun datetime =>
            match Zoned.east_opt offset with
            | none => .ok (.error .outOfRange)
            | some off =>
              match Zoned.from_local_datetime off datetime with
              | .panic => .panic
              | .ok none => .ok (.error .impossible)
              | .ok (some t) => .ok (.ok t) : Parsed.RP Zoned) = .ok (.error .outOfRange)) ∧
          (OffValid offset → ¬ InRangeSecs (instSecs dt - offset) →
            (Parsed.RP.bind (Parsed.to_naive_datetime_with_offset p offset) fun datetime =>
            match Zoned.east_opt offset with
            | none => .ok (.error .outOfRange)
            | some off =>
              match Zoned.from_local_datetime off datetime with
              | .panic => .panic
              | .ok none => .ok (.error .impossible)
              | .ok (some t) => .ok (.ok t) : Parsed.RP Zoned) = .ok (.error .impossible)) ∧
          (OffValid offset → InRangeSecs (instSecs dt - offset) →
            ∃ z, (Parsed.RP.bind (Parsed.to_naive_datetime_with_offset p offset) fun datetime =>
            match Zoned.east_opt offset with
            | none => .ok (.error .outOfRange)
            | some off =>
              match Zoned.from_local_datetime off datetime with
              | .panic => .panic
              | .ok none => .ok (.error .impossible)
              | .ok (some t) => .ok (.ok t) : Parsed.RP Zoned) = .ok (.ok z) ∧ z.off = offset ∧
              Zoned.naive_local z = .ok dt)) := by
    intro offset hoff
    obtain ⟨r, hr, _, hok⟩ := dt_main' p hp offset hoff
    refine ⟨r, hr, ?_, ?_⟩
    · intro e he; subst he; rw [hr]; rfl
    · intro dt hdt
      subst hdt
      rw [hr]
      simp only [bind_okok]
      have hdi := naiveOk_inv p dt offset (hok dt rfl)
      unfold Zoned.east_opt OffValid
      refine ⟨fun hv => by rw [if_neg hv], fun hv hnr => ?_, fun hv hir => ?_⟩
      · rw [if_pos hv]
        simp only []
        obtain ⟨r2, hr2, hnone⟩ := Chrono.Props.C04.fromLocal_fails_iff offset dt hv hdi
        rw [hr2, hnone.mpr hnr]
      · rw [if_pos hv]
        simp only []
        obtain ⟨r2, hr2, hnone⟩ := Chrono.Props.C04.fromLocal_fails_iff offset dt hv hdi
        cases r2 with
        | none => exact absurd hir (hnone.mp rfl)
        | some z =>
          obtain ⟨a, _, c, _⟩ := Chrono.Props.C04.local_of_fromLocal offset dt hv hdi z hr2
          rw [hr2]
          exact ⟨z, rfl, a, c⟩
  refine ⟨fun h1 h2 => by simp only [Parsed.to_datetime, h1, h2], fun hsome => ?_⟩
  cases hoffs : p.offset with
  | some off =>
    obtain ⟨r, hr, h1, h2⟩ := core off (hoffT off hoffs)
    refine ⟨r, hr, ?_, ?_⟩
    · intro e he
      have := h1 e he
      simp only [Parsed.to_datetime, hoffs]
      exact this
    · intro dt hdt
      obtain ⟨a, b, c⟩ := h2 dt hdt
      simp only [Parsed.to_datetime, hoffs, Option.getD_some]
      exact ⟨a, b, c⟩
  | none =>
    have hts : p.timestamp ≠ none := by
      rcases hsome with h | h
      · exact absurd hoffs h
      · exact h
    obtain ⟨g, hg⟩ := Option.ne_none_iff_exists'.mp hts
    obtain ⟨r, hr, h1, h2⟩ := core 0 (by omega)
    refine ⟨r, hr, ?_, ?_⟩
    · intro e he
      have := h1 e he
      simp only [Parsed.to_datetime, hoffs, hg]
      exact this
    · intro dt hdt
      obtain ⟨a, b, c⟩ := h2 dt hdt
      simp only [Parsed.to_datetime, hoffs, hg, Option.getD_none]
      exact ⟨a, b, c⟩

/-- `to_datetime_with_timezone` (fixed zone) stage by stage: the guessed offset is 0 without a
timestamp field and the zone's offset with a representable one; an unrepresentable timestamp is
OUT_OF_RANGE; the naive stage's error is passed on -/
theorem to_datetime_tz_stages (p : Parsed) (hp : InType p) (zone : Int) (hz : OffValid zone) :
    (∀ ts, p.timestamp = some ts → ¬ tsOk ts (p.nanosecond.getD 0) →
      Parsed.to_datetime_with_timezone p zone = .ok (.error .outOfRange)) ∧
    (∀ g, (p.timestamp = none ∧ g = 0) ∨ (∃ ts, p.timestamp = some ts ∧ tsOk ts (p.nanosecond.getD 0) ∧ g = zone) →
      ∃ r, Parsed.to_naive_datetime_with_offset p g = .ok r ∧
        (∀ e, r = .error e → Parsed.to_datetime_with_timezone p zone = .ok (.error e)) ∧
        (∀ dt, r = .ok dt →
          ((¬ InRangeSecs (instSecs dt - zone) ∨ ∃ x, p.offset = some x ∧ x ≠ zone) →
            Parsed.to_datetime_with_timezone p zone = .ok (.error .impossible)) ∧
          (InRangeSecs (instSecs dt - zone) → (∀ x, p.offset = some x → x = zone) →
            ∃ z, Parsed.to_datetime_with_timezone p zone = .ok (.ok z) ∧ z.off = zone ∧
              Zoned.naive_local z = .ok dt))) := by
  have hnT := hp.2.2.2.2.2.2.2.2.2.2.2.2.2.2.2.2.2.1
  have htT := hp.2.2.2.2.2.2.2.2.2.2.2.2.2.2.2.2.2.2.1
  have hzr := offValid_i32 zone hz
  have tail : ∀ g, (-2147483648 ≤ g ∧ g ≤ 2147483647) →
      ∃ r, Parsed.to_naive_datetime_with_offset p g = .ok r ∧
        (∀ e, r = .error e →
          (Parsed.RP.bind (Parsed.to_naive_datetime_with_offset p g) fun datetime =>
            match Zoned.from_local_datetime zone datetime with
            | .panic => .panic
            | .ok none => .ok (.error .impossible)
            | .ok (some t) =>
              let check_offset : Bool := match p.offset with
                | some offset => t.off == offset
                | none => true
              if check_offset then .ok (.ok t) else .ok (.error .impossible) : Parsed.RP Zoned) = .ok (.error e)) ∧
        (∀ dt, r = .ok dt →
          ((¬ InRangeSecs (instSecs dt - zone) ∨ ∃ x, p.offset = some x ∧ x ≠ zone) →
            (Parsed.RP.bind (Parsed.to_naive_datetime_with_offset p g) fun datetime =>
            match Zoned.from_local_datetime zone datetime with
            | .panic => .panic
            | .ok none => .ok (.error .impossible)
            | .ok (some t) =>
              let check_offset : Bool := match p.offset with
                | some offset => t.off == offset
                | none => true
              if check_offset then .ok (.ok t) else .ok (.error .impossible) : Parsed.RP Zoned) = .ok (.error .impossible)) ∧
          (InRangeSecs (instSecs dt - zone) → (∀ x, p.offset = some x → x = zone) →
            ∃ z, (Parsed.RP.bind (Parsed.to_naive_datetime_with_offset p g) fun datetime =>
            match Zoned.from_local_datetime zone datetime with
            | .panic => .panic
            | .ok none => .ok (.error .impossible)
            | .ok (some t) =>
              let check_offset : Bool := match p.offset with
                | some offset => t.off == offset
                | none => true
              if check_offset then .ok (.ok t) else .ok (.error .impossible) : Parsed.RP Zoned) = .ok (.ok z) ∧
              z.off = zone ∧ Zoned.naive_local z = .ok dt)) := by
    intro g hg
    obtain ⟨r, hr, _, hok⟩ := dt_main' p hp g hg
    refine ⟨r, hr, ?_, ?_⟩
    · intro e he; subst he; rw [hr]; rfl
    · intro dt hdt
      subst hdt
      rw [hr]
      simp only [bind_okok]
      have hdi := naiveOk_inv p dt g (hok dt rfl)
      obtain ⟨r2, hr2, hnone⟩ := Chrono.Props.C04.fromLocal_fails_iff zone dt hz hdi
      rw [hr2]
      cases r2 with
      | none =>
        refine ⟨fun _ => rfl, fun hir _ => absurd hir (hnone.mp rfl)⟩
      | some z =>
        obtain ⟨a, _, c, _⟩ := Chrono.Props.C04.local_of_fromLocal zone dt hz hdi z hr2
        have hir : InRangeSecs (instSecs dt - zone) := by
          by_contra hc
          have := hnone.mpr hc
          cases this
        simp only []
        refine ⟨fun hbad => ?_, fun _ hoffs => ?_⟩
        · rcases hbad with hbad | ⟨x, hx, hne⟩
          · exact absurd hir hbad
          · rw [hx]
            simp only []
            have : (z.off == x) = false := by rw [a]; simp; exact fun h => hne h.symm
            simp [this]
        · refine ⟨z, ?_, a, c⟩
          cases hpo : p.offset with
          | none => rfl
          | some x =>
            simp only []
            have : (z.off == x) = true := by rw [a, hoffs x hpo]; simp
            simp [this]
  refine ⟨fun ts hts hbad => ?_, fun g hg => ?_⟩
  · obtain ⟨r0, hr0, hnone, _⟩ := from_timestamp_spec ts (p.nanosecond.getD 0)
      (by have := htT ts hts; unfold isI64; exact this) (nano_nonneg p hp)
    have : r0 = none := hnone.mpr hbad
    subst this
    simp only [Parsed.to_datetime_with_timezone, hts, hr0, okOr_none, bind_err]
  · rcases hg with ⟨hts, rfl⟩ | ⟨ts, hts, hok, rfl⟩
    · obtain ⟨r, hr, h1, h2⟩ := tail 0 (by omega)
      refine ⟨r, hr, ?_, ?_⟩
      · intro e he
        have := h1 e he
        simp only [Parsed.to_datetime_with_timezone, hts, bind_okok]
        exact this
      · intro dt hdt
        obtain ⟨a, b⟩ := h2 dt hdt
        simp only [Parsed.to_datetime_with_timezone, hts, bind_okok]
        exact ⟨a, b⟩
    · obtain ⟨r0, hr0, hnone, _⟩ := from_timestamp_spec ts (p.nanosecond.getD 0)
        (by have := htT ts hts; unfold isI64; exact this) (nano_nonneg p hp)
      have hsome : ∃ d0, r0 = some d0 := by
        cases r0 with
        | some d0 => exact ⟨d0, rfl⟩
        | none => exact absurd hok (hnone.mp rfl)
      obtain ⟨d0, rfl⟩ := hsome
      obtain ⟨r, hr, h1, h2⟩ := tail g hzr
      refine ⟨r, hr, ?_, ?_⟩
      · intro e he
        have := h1 e he
        simp only [Parsed.to_datetime_with_timezone, hts, hr0, okOr_some, bind_okok]
        exact this
      · intro dt hdt
        obtain ⟨a, b⟩ := h2 dt hdt
        simp only [Parsed.to_datetime_with_timezone, hts, hr0, okOr_some, bind_okok]
        exact ⟨a, b⟩

/-- supplied time fields that agree with a valid time of day (leap second or not) are in range -/
theorem timeInRange_of_supplied' (p : Parsed) (t : Time) (ht : TValid t)
    (h : TimeAgreesSupplied p t) : TimeInRange p := by
  obtain ⟨a1, a2, a3, a4, a5⟩ := h
  obtain ⟨t0, t1, f0, f1⟩ := ht
  unfold optIs hourOf minuteOf secondOf at *
  refine ⟨fun x hx => ?_, fun x hx => ?_, fun x hx => ?_, fun x hx => ?_, fun x hx => ?_⟩
  · have := a1 x hx; omega
  · have := a2 x hx; omega
  · have := a3 x hx; omega
  · have := a4 x hx
    by_cases c : x = 60
    · rw [if_pos c] at this; omega
    · rw [if_neg c] at this; omega
  · have := a5 x hx; omega

/-- the date resolver on fields derived from one day with determinate year groups: that day, or
NOT_ENOUGH — never IMPOSSIBLE / OUT_OF_RANGE -/
theorem date_of_derived (p : Parsed) (hp : InType p) (Y : Int) (o : Nat) (hvd : VD Y o)
    (hag : DateAgrees p Y o)
    (hdY : GroupDeterminate p.year p.year_div_100 p.year_mod_100 Y)
    (hdI : ∀ w, (dateOfYo Y o).iso_week = .ok w →
      GroupDeterminate p.isoyear p.isoyear_div_100 p.isoyear_mod_100 (IsoWeek.year w)) :
    (Parsed.to_naive_date p = .ok (.ok (dateOfYo Y o)) ∧ DateSufficient p) ∨
    (Parsed.to_naive_date p = .ok (.error .notEnough) ∧ ¬ DateSufficient p) := by
  have hMIN : MIN_YEAR = -262143 := rfl
  have hMAX : MAX_YEAR = 262142 := rfl
  obtain ⟨v1, v2, _, _⟩ := id hvd
  by_cases hds : DateSufficient p
  · left
    refine ⟨date_complete_full p hp Y o hvd hag hdY hdI ?_, hds⟩
    rcases hds.2.2 with h | h
    · exact Or.inl h
    · exact Or.inr h
  · right
    obtain ⟨a1, a2, _, _, _, _, _, _, _, ⟨w, hw, j1, j2, _⟩⟩ := id hag
    have hib := iso_year_bound Y o hvd w hw
    exact ⟨(date_not_enough_iff p hp (coherent_of_agrees _ _ _ Y (by omega) a1 a2)
      (coherent_of_agrees _ _ _ _ (by omega) j1 j2)).mpr hds, hds⟩

/-- NOT_ENOUGH of the date-time resolver on fields DERIVED from one local reading (any subset of the
fields, determinate year groups): reported exactly when there is no timestamp field and the record
does not hold a sufficient date and a sufficient time combination -/
theorem dt_not_enough_iff_derived (p : Parsed) (hp : InType p) (off : Int)
    (hoff : -2147483648 ≤ off ∧ off ≤ 2147483647) (Y : Int) (o : Nat) (t : Time) (hvd : VD Y o)
    (ht : TValid t) (hag : DateAgrees p Y o)
    (hdY : GroupDeterminate p.year p.year_div_100 p.year_mod_100 Y)
    (hdI : ∀ w, (dateOfYo Y o).iso_week = .ok w →
      GroupDeterminate p.isoyear p.isoyear_div_100 p.isoyear_mod_100 (IsoWeek.year w))
    (hta : TimeAgreesSupplied p t) :
    Parsed.to_naive_datetime_with_offset p off = .ok (.error .notEnough) ↔
      (p.timestamp = none ∧ ¬ (DateSufficient p ∧ TimeSufficient p)) := by
  have hMIN : MIN_YEAR = -262143 := rfl
  have hMAX : MAX_YEAR = 262142 := rfl
  obtain ⟨v1, v2, _, _⟩ := id hvd
  obtain ⟨a1, a2, _, _, _, _, _, _, _, ⟨w, hw, j1, j2, _⟩⟩ := id hag
  have hib := iso_year_bound Y o hvd w hw
  constructor
  · intro h
    obtain ⟨h1, h2⟩ := dt_not_enough_only p hp off hoff h
    refine ⟨?_, h1⟩
    by_contra hc
    exact h2 hc (hdI w hw).1
  · rintro ⟨hts, hns⟩
    refine (dt_not_enough_iff p hp off hoff (coherent_of_agrees _ _ _ Y (by omega) a1 a2)
      (coherent_of_agrees _ _ _ _ (by omega) j1 j2) (timeInRange_of_supplied' p t ht hta) hts).mpr
      ⟨hns, ?_⟩
    rintro ⟨e, hne, he⟩
    rcases date_of_derived p hp Y o hvd hag hdY hdI with ⟨h, _⟩ | ⟨h, _⟩
    · rw [h] at he; cases he
    · rw [h] at he; cases he; exact hne rfl

/-- NOT_ENOUGH of `to_datetime`, exactly: neither offset nor timestamp, or the naive stage (at the
supplied offset, 0 without one) reports it -/
theorem to_datetime_not_enough_iff' (p : Parsed) (hp : InType p) :
    Parsed.to_datetime p = .ok (.error .notEnough) ↔
      ((p.offset = none ∧ p.timestamp = none) ∨
       Parsed.to_naive_datetime_with_offset p (p.offset.getD 0) = .ok (.error .notEnough)) := by
  obtain ⟨h0, h1⟩ := to_datetime_stages p hp
  by_cases hn : p.offset = none ∧ p.timestamp = none
  · exact ⟨fun _ => Or.inl hn, fun _ => h0 hn.1 hn.2⟩
  · have hsome : p.offset ≠ none ∨ p.timestamp ≠ none := by
      by_cases ho : p.offset = none
      · exact Or.inr (fun h => hn ⟨ho, h⟩)
      · exact Or.inl ho
    obtain ⟨r, hr, he, hok⟩ := h1 hsome
    constructor
    · intro h
      right
      rw [hr]
      cases r with
      | error e =>
        rw [he e rfl] at h
        cases h; rfl
      | ok dt =>
        exfalso
        obtain ⟨a, b, c⟩ := hok dt rfl
        by_cases hv : OffValid (p.offset.getD 0)
        · by_cases hir : InRangeSecs (instSecs dt - p.offset.getD 0)
          · obtain ⟨z, hz, _⟩ := c hv hir
            rw [hz] at h; cases h
          · rw [b hv hir] at h; cases h
        · rw [a hv] at h; cases h
    · rintro (h | h)
      · exact absurd h hn
      · rw [hr] at h
        cases h
        exact he _ rfl

/-- NOT_ENOUGH of `to_datetime_with_timezone` (fixed zone), exactly: the naive stage at the guessed
offset reports it (guess: 0 without a timestamp field, the zone's offset with a representable one) -/
theorem to_datetime_tz_not_enough_iff (p : Parsed) (hp : InType p) (zone : Int) (hz : OffValid zone) :
    Parsed.to_datetime_with_timezone p zone = .ok (.error .notEnough) ↔
      ((p.timestamp = none ∧ Parsed.to_naive_datetime_with_offset p 0 = .ok (.error .notEnough)) ∨
       (∃ ts, p.timestamp = some ts ∧ tsOk ts (p.nanosecond.getD 0) ∧
         Parsed.to_naive_datetime_with_offset p zone = .ok (.error .notEnough))) := by
  obtain ⟨h0, h1⟩ := to_datetime_tz_stages p hp zone hz
  have fin : ∀ g, ((p.timestamp = none ∧ g = 0) ∨
      (∃ ts, p.timestamp = some ts ∧ tsOk ts (p.nanosecond.getD 0) ∧ g = zone)) →
      (Parsed.to_datetime_with_timezone p zone = .ok (.error .notEnough) ↔
        Parsed.to_naive_datetime_with_offset p g = .ok (.error .notEnough)) := by
    intro g hg
    obtain ⟨r, hr, he, hok⟩ := h1 g hg
    rw [hr]
    cases r with
    | error e =>
      rw [he e rfl]
      constructor <;> (intro h; cases h; rfl)
    | ok dt =>
      obtain ⟨a, b⟩ := hok dt rfl
      constructor
      · intro h
        exfalso
        by_cases hbad : ¬ InRangeSecs (instSecs dt - zone) ∨ ∃ x, p.offset = some x ∧ x ≠ zone
        · rw [a hbad] at h; cases h
        · have hir : InRangeSecs (instSecs dt - zone) := by
            by_contra hc; exact hbad (Or.inl hc)
          have hoffs : ∀ x, p.offset = some x → x = zone := by
            intro x hx
            by_contra hc; exact hbad (Or.inr ⟨x, hx, hc⟩)
          obtain ⟨z, hz', _⟩ := b hir hoffs
          rw [hz'] at h; cases h
      · intro h; cases h
  cases hts : p.timestamp with
  | none =>
    rw [fin 0 (Or.inl ⟨hts, rfl⟩)]
    constructor
    · intro h; exact Or.inl ⟨rfl, h⟩
    · rintro (⟨_, h⟩ | ⟨ts, h, _⟩)
      · exact h
      · cases h
  | some ts =>
    by_cases hok : tsOk ts (p.nanosecond.getD 0)
    · rw [fin zone (Or.inr ⟨ts, hts, hok, rfl⟩)]
      constructor
      · intro h; exact Or.inr ⟨ts, rfl, hok, h⟩
      · rintro (⟨h, _⟩ | ⟨_, _, _, h⟩)
        · cases h
        · exact h
    · rw [h0 ts hts hok]
      constructor
      · intro h; cases h
      · rintro (⟨h, _⟩ | ⟨ts', h, hok', _⟩)
        · cases h
        · cases h; exact absurd hok' hok

/-- `dt_with_timestamp` as three implications (free of `Decidable` instances) -/
theorem dt_with_timestamp' (p : Parsed) (hp : InType p) (off ts : Int) (hts : p.timestamp = some ts)
    (hnb : ¬ ∃ d t, Parsed.to_naive_date p = .ok (.ok d) ∧ Parsed.to_naive_time p = .ok t) :
    ∃ rd, Parsed.to_naive_date p = .ok rd ∧
      ((rd = .error .outOfRange ∨ Parsed.to_naive_time p = .error .outOfRange) →
        Parsed.to_naive_datetime_with_offset p off = .ok (.error .outOfRange)) ∧
      (¬ (rd = .error .outOfRange ∨ Parsed.to_naive_time p = .error .outOfRange) →
        (rd = .error .impossible ∨ Parsed.to_naive_time p = .error .impossible) →
        Parsed.to_naive_datetime_with_offset p off = .ok (.error .impossible)) ∧
      (¬ (rd = .error .outOfRange ∨ Parsed.to_naive_time p = .error .outOfRange) →
        ¬ (rd = .error .impossible ∨ Parsed.to_naive_time p = .error .impossible) →
        Parsed.to_naive_datetime_with_offset p off = Parsed.from_timestamp_path p off ts) := by
  obtain ⟨rd, hrd, h⟩ := dt_with_timestamp p hp off ts hts hnb
  refine ⟨rd, hrd, fun h1 => ?_, fun h1 h2 => ?_, fun h1 h2 => ?_⟩
  · rw [h, if_pos h1]
  · rw [h, if_neg h1, if_pos h2]
  · rw [h, if_neg h1, if_neg h2]

end Chrono.Proofs.ParsedKinds
