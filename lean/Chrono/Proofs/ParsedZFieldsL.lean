/-
  C14: COMPLETENESS of the zone-aware resolvers on the FIELD path (date fields + time fields sufficient
  on their own, offset field / zone, optional agreeing timestamp): `to_datetime`,
  `to_datetime_with_timezone` (fixed zone), `to_datetime_with_timezone_gen` (any zone) and the step
  zones.  Rests on `date_complete_full`, `time_complete'`, `dt_fields_path`, `zoned_stamp` (C04) and the
  three-stage decomposition of Proofs/ParsedZoneL.lean.
-/
import Chrono.Proofs.ParsedTsCompleteL
import Chrono.Proofs.ParsedZoneL
namespace Chrono.Proofs.ParsedZF
open Chrono Chrono.M Chrono.M.TzL Chrono.Spec Chrono.Spec.Fields Chrono.Spec.Ts Chrono.Extracted
open Chrono.Proofs Chrono.Proofs.Ts Chrono.Proofs.ParsedRes Chrono.Proofs.ParsedZone

/-- completeness of `to_naive_datetime_with_offset` on the field path (the Proofs-level form of
`Props.C14.datetime_complete_fields`) -/
theorem dt_complete_fields (p : Parsed) (hp : InType p) (off : Int)
    (hoff : -2147483648 ≤ off ∧ off ≤ 2147483647) (Y : Int) (o : Nat) (t : Time) (hvd : VD Y o)
    (hag : DateAgrees p Y o)
    (hdY : GroupDeterminate p.year p.year_div_100 p.year_mod_100 Y)
    (hdI : ∀ w, (dateOfYo Y o).iso_week = .ok w →
      GroupDeterminate p.isoyear p.isoyear_div_100 p.isoyear_mod_100 (IsoWeek.year w))
    (hc : UsesCalendar p ∨ UsesIso p) (ht : TStrict t) (hta : TimeAgrees p t) (hts : TimeSufficient p)
    (hstamp : timestampIs p.timestamp ⟨dateOfYo Y o, t⟩ off) :
    Parsed.to_naive_datetime_with_offset p off = .ok (.ok ⟨dateOfYo Y o, t⟩) := by
  have hd := date_complete_full p hp Y o hvd hag hdY hdI hc
  have htt := time_complete' p t ht hta hts
  rw [dt_fields_path p off hoff Y o t hvd ht.1 hd htt]
  cases hg : p.timestamp with
  | none => rfl
  | some g =>
    simp only []
    rw [if_neg]
    rintro ⟨h1, h2⟩
    rcases hstamp g hg with h | h
    · exact h1 h
    · exact h2 h

/-- the timestamp field agrees with the instant of `z` (one more is allowed for a leap second) —
the second half of `Consistent` -/
def StampOf (ts : Option Int) (z : Zoned) : Prop :=
  ∀ g, ts = some g → g = instSecs z.utc ∨ (1000000000 ≤ z.utc.time.frac ∧ g = instSecs z.utc + 1)

/-- a timestamp that agrees with `z` agrees with `z`'s wall clock at `z`'s offset -/
theorem stamp_local (ts : Option Int) (z : Zoned) (hz : ZInv z) (Y : Int) (o : Nat) (t : Time)
    (hvd : VD Y o) (ht : TValid t) (hl : Zoned.naive_local z = .ok ⟨dateOfYo Y o, t⟩)
    (h : StampOf ts z) : timestampIs ts ⟨dateOfYo Y o, t⟩ z.off := by
  obtain ⟨_, hst, hfr⟩ := zoned_stamp z hz Y o t hvd ht hl
  intro g hg
  rcases h g hg with h | ⟨h1, h2⟩
  · left; rw [h, hst]
  · right
    refine ⟨?_, by rw [h2, hst]⟩
    show 1000000000 ≤ t.frac
    rw [← hfr]; exact h1

/-- **field-path completeness of `to_datetime`** -/
theorem to_datetime_complete_fields' (p : Parsed) (hp : InType p) (z : Zoned) (hz : ZInv z)
    (Y : Int) (o : Nat) (t : Time) (hvd : VD Y o) (ht : TStrict t)
    (hl : Zoned.naive_local z = .ok ⟨dateOfYo Y o, t⟩)
    (hag : DateAgrees p Y o)
    (hdY : GroupDeterminate p.year p.year_div_100 p.year_mod_100 Y)
    (hdI : ∀ w, (dateOfYo Y o).iso_week = .ok w →
      GroupDeterminate p.isoyear p.isoyear_div_100 p.isoyear_mod_100 (IsoWeek.year w))
    (hc : UsesCalendar p ∨ UsesIso p) (hta : TimeAgrees p t) (hts : TimeSufficient p)
    (hoff : p.offset = some z.off ∨ (p.offset = none ∧ p.timestamp ≠ none ∧ z.off = 0))
    (hstamp : StampOf p.timestamp z) :
    Parsed.to_datetime p = .ok (.ok z) := by
  obtain ⟨hfl, _, _⟩ := zoned_stamp z hz Y o t hvd ht.1 hl
  have hzo := hz.2
  unfold OffValid at hzo
  have hn := dt_complete_fields p hp z.off (by omega) Y o t hvd hag hdY hdI hc ht hta hts
    (stamp_local _ z hz Y o t hvd ht.1 hl hstamp)
  have he : Zoned.east_opt z.off = some z.off := by unfold Zoned.east_opt; rw [if_pos hzo]
  rcases hoff with h | ⟨h1, h2, h3⟩
  · simp only [Parsed.to_datetime, h, hn, Parsed.RP.bind, he, hfl]
  · obtain ⟨g, hg⟩ := Option.ne_none_iff_exists'.mp h2
    rw [h3] at hn he hfl
    simp only [Parsed.to_datetime, h1, hg, hn, Parsed.RP.bind, he, hfl]

/-- the nanosecond field of a record agreeing with a time of day is a sub-second count -/
theorem nano_of_agrees (p : Parsed) (t : Time) (hta : TimeAgrees p t) :
    0 ≤ p.nanosecond.getD 0 ∧ p.nanosecond.getD 0 < 1000000000 := by
  cases hnn : p.nanosecond with
  | none => simp
  | some n =>
    have := hta.2.2.2.2.1 n hnn
    simp only [Option.getD_some]; omega

/-- `from_timestamp` on a timestamp of the representable range and a sub-second nanosecond count -/
theorem from_ts_some (g n : Int) (hg : TS_MIN ≤ g ∧ g ≤ TS_MAX) (hn : 0 ≤ n ∧ n < 1000000000) :
    ∃ u, NaiveDT.from_timestamp g n = .ok (some u) ∧ NDTInv u ∧ instSecs u = g := by
  obtain ⟨r0, hr0, hnone, hsome⟩ := from_timestamp_spec g n
    (by unfold isI64; rw [ts_min_val, ts_max_val] at hg; omega) hn.1
  cases r0 with
  | some d0 =>
    obtain ⟨hi, _, hs, _⟩ := hsome d0 rfl
    exact ⟨d0, hr0, hi, hs⟩
  | none =>
    exfalso
    apply hnone.mp rfl
    exact ⟨hg.1, hg.2, Or.inl hn.2⟩

/-- **field-path completeness of `to_datetime_with_timezone`, fixed zone** (`hrep`: the supplied
timestamp is a representable instant — automatic unless it is the `+1` reading of a leap second at
the very last representable second, see `tz_leap_at_max`) -/
theorem to_datetime_tz_complete_fields (p : Parsed) (hp : InType p) (z : Zoned) (hz : ZInv z)
    (Y : Int) (o : Nat) (t : Time) (hvd : VD Y o) (ht : TStrict t)
    (hl : Zoned.naive_local z = .ok ⟨dateOfYo Y o, t⟩)
    (hag : DateAgrees p Y o)
    (hdY : GroupDeterminate p.year p.year_div_100 p.year_mod_100 Y)
    (hdI : ∀ w, (dateOfYo Y o).iso_week = .ok w →
      GroupDeterminate p.isoyear p.isoyear_div_100 p.isoyear_mod_100 (IsoWeek.year w))
    (hc : UsesCalendar p ∨ UsesIso p) (hta : TimeAgrees p t) (hts : TimeSufficient p)
    (hoff : ∀ x, p.offset = some x → x = z.off)
    (hstamp : StampOf p.timestamp z) (hrep : ∀ g, p.timestamp = some g → g ≤ TS_MAX) :
    Parsed.to_datetime_with_timezone p z.off = .ok (.ok z) := by
  obtain ⟨hfl, _, _⟩ := zoned_stamp z hz Y o t hvd ht.1 hl
  have hzo := hz.2
  unfold OffValid at hzo
  cases hg : p.timestamp with
  | none =>
    have hn := dt_complete_fields p hp 0 (by omega) Y o t hvd hag hdY hdI hc ht hta hts
      (by rw [hg]; intro g h; cases h)
    simp only [Parsed.to_datetime_with_timezone, hg, bind_okok, hn, hfl]
    cases hpo : p.offset with
    | none => rfl
    | some x => simp [hoff x hpo]
  | some g =>
    have hn := dt_complete_fields p hp z.off (by omega) Y o t hvd hag hdY hdI hc ht hta hts
      (stamp_local _ z hz Y o t hvd ht.1 hl hstamp)
    have hrange := instSecs_range z.utc hz.1
    have hgr : TS_MIN ≤ g ∧ g ≤ TS_MAX := by
      refine ⟨?_, hrep g hg⟩
      rcases hstamp g hg with h | ⟨_, h⟩ <;> omega
    obtain ⟨u, hu, _, _⟩ := from_ts_some g (p.nanosecond.getD 0) hgr (nano_of_agrees p t hta)
    simp only [Parsed.to_datetime_with_timezone, hg, hu, okOr_some, bind_okok, hn, hfl]
    cases hpo : p.offset with
    | none => rfl
    | some x => simp [hoff x hpo]

/-! ### any zone -/

/-- the consistent candidates are exactly `[z]` when `z` is a candidate, consistent, the candidates
are pairwise different and no other candidate is consistent -/
theorem consistent_single (p : Parsed) (m : Mapped Zoned) (z : Zoned) (hmem : z ∈ m.toList)
    (hcons : Consistent p z) (hnd : ∀ a b, m = .ambiguous a b → a ≠ b)
    (hother : ∀ c ∈ m.toList, c ≠ z → ¬ Consistent p c) : consistent p m = [z] := by
  cases m with
  | none => simp [Mapped.toList] at hmem
  | single a =>
    simp only [Mapped.toList, List.mem_cons, List.not_mem_nil, or_false] at hmem
    subst hmem
    unfold consistent
    simp only [Mapped.toList, List.filter, (consistentB_iff p z).mpr hcons]
  | ambiguous a b =>
    have hab := hnd a b rfl
    rw [consistent_pair]
    simp only [Mapped.toList, List.mem_cons, List.not_mem_nil, or_false] at hmem
    rcases hmem with rfl | rfl
    · rw [(consistentB_iff p z).mpr hcons,
        consistentB_false p b (hother b (by simp [Mapped.toList]) (fun h => hab h.symm))]
      rfl
    · rw [(consistentB_iff p z).mpr hcons,
        consistentB_false p a (hother a (by simp [Mapped.toList]) hab)]
      rfl

/-- **field-path completeness for ANY zone**: `z` is a well-formed value whose wall clock is the
day `(Y, o)` at time `t`; the date and time fields agree with that wall clock and are sufficient; the
guessed offset is `z`'s offset whenever a timestamp is supplied (the zone reports `z`'s offset at the
instant of the timestamp — for the instant of `z` itself this says that `z` is a value of this zone);
`z` is among the candidates the zone returns for its wall clock, is consistent with the offset and
timestamp fields and no other candidate is ⇒ exactly `z`. -/
theorem gen_complete_fields (p : Parsed) (hp : InType p) (ofu : NaiveDT → Res Int)
    (fl : NaiveDT → Res (Mapped Zoned)) (z : Zoned) (hz : ZInv z)
    (Y : Int) (o : Nat) (t : Time) (hvd : VD Y o) (ht : TStrict t)
    (hl : Zoned.naive_local z = .ok ⟨dateOfYo Y o, t⟩)
    (hag : DateAgrees p Y o)
    (hdY : GroupDeterminate p.year p.year_div_100 p.year_mod_100 Y)
    (hdI : ∀ w, (dateOfYo Y o).iso_week = .ok w →
      GroupDeterminate p.isoyear p.isoyear_div_100 p.isoyear_mod_100 (IsoWeek.year w))
    (hc : UsesCalendar p ∨ UsesIso p) (hta : TimeAgrees p t) (hts : TimeSufficient p)
    (g : Int) (hg : GuessIs p ofu g) (hgz : p.timestamp ≠ none → g = z.off)
    (m : Mapped Zoned) (hm : fl ⟨dateOfYo Y o, t⟩ = .ok m) (hcand : ∀ c ∈ m.toList, ZInv c)
    (hmem : z ∈ m.toList) (hcons : Consistent p z) (hnd : ∀ a b, m = .ambiguous a b → a ≠ b)
    (hother : ∀ c ∈ m.toList, c ≠ z → ¬ Consistent p c) :
    Parsed.to_datetime_with_timezone_gen p ofu fl = .ok (.ok z) := by
  have hzo := hz.2
  unfold OffValid at hzo
  have hgr : -2147483648 ≤ g ∧ g ≤ 2147483647 := by
    rcases hg with ⟨_, rfl⟩ | ⟨ts, u, h, _⟩
    · omega
    · rw [hgz (by rw [h]; simp)]; omega
  have hst : timestampIs p.timestamp ⟨dateOfYo Y o, t⟩ g := by
    cases hts' : p.timestamp with
    | none => intro x hx; cases hx
    | some ts =>
      rw [hgz (by rw [hts']; simp), ← hts']
      exact stamp_local _ z hz Y o t hvd ht.1 hl hcons.2
  have hn := dt_complete_fields p hp g hgr Y o t hvd hag hdY hdI hc ht hta hts hst
  rw [gen_resolution p hp ofu fl g _ m hg hn hm hcand,
    consistent_single p m z hmem hcons hnd hother]
  rfl

/-! ### step zones -/

/-- every well-formed value that reads `l` on the wall clock of the step zone and carries the zone's
offset at its own instant is among the candidates `from_local_datetime` returns for `l`, provided
the UTC readings of all listed offsets are representable (`hrep`; chrono's provided
`from_local_datetime` turns the whole answer into `None` otherwise) -/
theorem step_candidate_mem (zn : StepZone) (h1 : OffValid zn.o1) (h2 : OffValid zn.o2)
    (l : NaiveDT) (hl : NDTInv l) (c : Zoned) (hc : StepCandidate zn l c)
    (hrep : ∀ o ∈ (zn.local_offsets (instSecs l)).toList, InRangeSecs (instSecs l - o)) :
    ∃ m, zn.from_local_datetime l = .ok m ∧ c ∈ m.toList ∧
      (∀ a b, m = .ambiguous a b → a ≠ b) := by
  obtain ⟨hzi, _, hinst, hfrac, hoffat⟩ := hc
  have hoff : c.off ∈ (zn.local_offsets (instSecs l)).toList := by
    have := (candidates_iff zn (instSecs l) (instSecs c.utc)).mp (by rw [hoffat, hinst]; omega)
    rw [hinst] at this
    have e : instSecs l - (instSecs l - c.off) = c.off := by omega
    rw [e] at this
    exact this
  have hov : ∀ o, o ∈ (zn.local_offsets (instSecs l)).toList → OffValid o := by
    intro o ho
    rcases (local_offsets_mem zn _ o ho).1 with rfl | rfl
    · exact h1
    · exact h2
  -- a listed offset has a representable reading: `checked_sub_offset` answers `some`
  have sub : ∀ o, o ∈ (zn.local_offsets (instSecs l)).toList →
      ∃ u, l.checked_sub_offset o = .ok (some u) ∧ NDTInv u ∧ instSecs u = instSecs l - o ∧
        u.time.frac = l.time.frac := by
    intro o ho
    obtain ⟨r, hr, hnone⟩ := Chrono.Props.C04.fromLocal_fails_iff o l (hov o ho) hl
    obtain ⟨r', hr', hs⟩ := csub_spec o l (hov o ho) hl
    cases r' with
    | none =>
      exfalso
      have : r = none := by
        unfold Zoned.from_local_datetime at hr
        rw [hr'] at hr
        cases hr; rfl
      exact (hnone.mp this) (hrep o ho)
    | some u =>
      obtain ⟨a, _, c', d⟩ := hs u rfl
      exact ⟨u, hr', a.1, c', d⟩
  have same : ∀ u, NDTInv u → instSecs u = instSecs l - c.off → u.time.frac = l.time.frac →
      (⟨u, c.off⟩ : Zoned) = c := by
    intro u hu hs hf
    have : u = c.utc := Ts.inst_inj u c.utc hu hzi.1 (by rw [hs, hinst]) (by rw [hf, hfrac])
    subst this
    cases c; rfl
  unfold StepZone.from_local_datetime StepZone.offset_from_local_datetime
  rw [timestamp_spec l hl]
  simp only [Res.bind]
  cases hm : zn.local_offsets (instSecs l) with
  | none => rw [hm] at hoff; simp [Mapped.toList] at hoff
  | single o =>
    rw [hm] at hoff
    simp only [Mapped.toList, List.mem_cons, List.not_mem_nil, or_false] at hoff
    subst hoff
    obtain ⟨u, hu, hui, hus, huf⟩ := sub c.off (by rw [hm]; simp [Mapped.toList])
    simp only [hu]
    refine ⟨_, rfl, ?_, fun a b h => by cases h⟩
    simp only [Mapped.toList, List.mem_cons, List.not_mem_nil, or_false]
    exact (same u hui hus huf).symm
  | ambiguous a b =>
    obtain ⟨ua, hua, huai, huas, huaf⟩ := sub a (by rw [hm]; simp [Mapped.toList])
    obtain ⟨ub, hub, hubi, hubs, hubf⟩ := sub b (by rw [hm]; simp [Mapped.toList])
    obtain ⟨_, _, _, _, hlt⟩ := ambiguous_order zn _ a b hm
    simp only [hua, hub]
    refine ⟨_, rfl, ?_, ?_⟩
    · rw [hm] at hoff
      simp only [Mapped.toList, List.mem_cons, List.not_mem_nil, or_false] at hoff ⊢
      rcases hoff with h | h
      · left; subst h; exact (same ua huai huas huaf).symm
      · right; subst h; exact (same ub hubi hubs hubf).symm
    · intro a' b' h
      cases h
      intro hab
      have : a = b := congrArg Zoned.off hab
      omega

/-- **field-path completeness for the step zones**: `z` is a value of the step zone `zn` (a
`StepCandidate` for its own wall clock `(Y, o, t)`), the date and time fields agree with that wall
clock and are sufficient, `z` is consistent with the offset and timestamp fields and no other value
of the zone with that wall clock is ⇒ exactly `z` (in a fold: whichever side the offset or the
timestamp field selects).  `hq` only concerns the `+1` reading of a leap second: that instant must be
representable and still on `z`'s side of the transition; `hrep`: see `step_candidate_mem`. -/
theorem step_complete_fields (p : Parsed) (hp : InType p) (zn : StepZone) (h1 : OffValid zn.o1)
    (h2 : OffValid zn.o2) (z : Zoned) (Y : Int) (o : Nat) (t : Time) (hvd : VD Y o) (ht : TStrict t)
    (hag : DateAgrees p Y o)
    (hdY : GroupDeterminate p.year p.year_div_100 p.year_mod_100 Y)
    (hdI : ∀ w, (dateOfYo Y o).iso_week = .ok w →
      GroupDeterminate p.isoyear p.isoyear_div_100 p.isoyear_mod_100 (IsoWeek.year w))
    (hc : UsesCalendar p ∨ UsesIso p) (hta : TimeAgrees p t) (hts : TimeSufficient p)
    (hcand : StepCandidate zn ⟨dateOfYo Y o, t⟩ z) (hcons : Consistent p z)
    (hq : ∀ ts, p.timestamp = some ts → ts ≠ instSecs z.utc → ts ≤ TS_MAX ∧ zn.offset_at ts = z.off)
    (hrep : ∀ o' ∈ (zn.local_offsets (instSecs ⟨dateOfYo Y o, t⟩)).toList,
      InRangeSecs (instSecs ⟨dateOfYo Y o, t⟩ - o'))
    (hother : ∀ c, StepCandidate zn ⟨dateOfYo Y o, t⟩ c → c ≠ z → ¬ Consistent p c) :
    Parsed.to_datetime_with_step_zone p zn = .ok (.ok z) := by
  obtain ⟨v1, v2, v3, v4⟩ := id hvd
  obtain ⟨i1, _⟩ := dateInv_of_yo Y o ⟨v1, v2⟩ ⟨v3, v4⟩
  have hdi : NDTInv ⟨dateOfYo Y o, t⟩ := ⟨i1, ht.1⟩
  have hz := hcand.1
  obtain ⟨m, hm, hmem, hnd⟩ := step_candidate_mem zn h1 h2 _ hdi z hcand hrep
  have hrange := instSecs_range z.utc hz.1
  have hguess : ∃ g, GuessIs p zn.offset_from_utc_datetime g ∧ (p.timestamp ≠ none → g = z.off) := by
    cases hts' : p.timestamp with
    | none => exact ⟨0, Or.inl ⟨hts', rfl⟩, fun h => absurd rfl h⟩
    | some ts =>
      have hts2 : ts ≤ TS_MAX ∧ zn.offset_at ts = z.off := by
        by_cases he : ts = instSecs z.utc
        · rw [he]; exact ⟨hrange.2, hcand.2.2.2.2⟩
        · exact hq ts hts' he
      have hlo : TS_MIN ≤ ts := by
        rcases hcons.2 ts hts' with h | ⟨_, h⟩ <;> omega
      obtain ⟨u, hu, hui, hus⟩ := from_ts_some ts (p.nanosecond.getD 0) ⟨hlo, hts2.1⟩
        (nano_of_agrees p t hta)
      refine ⟨z.off, Or.inr ⟨ts, u, hts', hu, hui, hus, ?_⟩, fun _ => rfl⟩
      rw [(step_ofu_spec zn h1 h2 u hui).1, hus, hts2.2]
  obtain ⟨g, hg, hgz⟩ := hguess
  unfold Parsed.to_datetime_with_step_zone
  exact gen_complete_fields p hp _ _ z hz Y o t hvd ht hcand.2.1 hag hdY hdI hc hta hts g hg hgz m hm
    (fun c hc' => (step_hcand zn h1 h2 _ m c hdi hm hc').1.1) hmem hcons hnd
    (fun c hc' hne => hother c (step_hcand zn h1 h2 _ m c hdi hm hc').1 hne)

end Chrono.Proofs.ParsedZF
