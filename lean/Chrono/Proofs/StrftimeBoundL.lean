/-
  C15: the sharp linear bound on the number of items of a format string.  A `parse_next_item` call that
  installs a non-empty queue (a composite specifier) has consumed at least two bytes (`%` and the
  specifier character) and yields at most 13 items; a call with an empty queue yields one item from at
  least one byte.  Hence `2 · items ≤ 13 · bytes`, attained by `%c`.
  Namespace `Chrono.Proofs.StrftimeBound`.
-/
import Chrono.Proofs.StrftimeL
namespace Chrono.Proofs.StrftimeBound
open Chrono Chrono.M Chrono.M.Format Chrono.M.Strftime Chrono.Extracted Chrono.Proofs.FormatL Chrono.Proofs.StrftimeL

/-- an arm that installs a queue has consumed two bytes -/
def Arm.q2 (l : Bool) (orig : List Nat) : Arm → Prop
  | .item _ r q el' => q ≠ [] → r.length + 2 ≤ orig.length ∧ (l = true → 2 ≤ el')
  | .ret _ _ => True

theorem fracArm_q2 (l : Bool) (orig rem : List Nat) (el : Nat) (ok : Item) :
    Arm.q2 l orig (fracArm l orig rem el ok) := by
  unfold fracArm
  cases nextCh rem with
  | none => trivial
  | some x =>
    obtain ⟨c, n, rem'⟩ := x
    dsimp only
    split
    · intro h; exact absurd rfl h
    · intro h; exact absurd rfl h

theorem specArm_q2 (l : Bool) (orig rem : List Nat) (el : Nat) (alt : Bool) (c n : Nat)
    (hrem : rem.length + 2 ≤ orig.length) (hel : l = true → 2 ≤ el) :
    Arm.q2 l orig (specArm l orig rem el alt c n) := by
  unfold specArm
  split
  · intro h; exact absurd rfl h
  split
  · split
    · intro h; exact absurd rfl h
    · split
      · intro h; exact absurd rfl h
      · split
        · intro h; exact absurd rfl h
        · intro h; exact absurd rfl h
  split
  · cases nextCh rem with
    | none => trivial
    | some x =>
      obtain ⟨c1, n1, rem1⟩ := x
      dsimp only
      split
      · exact fracArm_q2 _ _ _ _ _
      · split
        · exact fracArm_q2 _ _ _ _ _
        · split
          · exact fracArm_q2 _ _ _ _ _
          · split
            · intro h; exact absurd rfl h
            · intro h; exact absurd rfl h
  split
  · exact fracArm_q2 _ _ _ _ _
  split
  · exact fracArm_q2 _ _ _ _ _
  split
  · exact fracArm_q2 _ _ _ _ _
  cases specTable c with
  | some x =>
    obtain ⟨it, q⟩ := x
    exact fun _ => ⟨hrem, hel⟩
  | none => intro h; exact absurd rfl h

theorem error_rem2 (l : Bool) (orig : List Nat) (el : Nat) (ho : 2 ≤ orig.length) (hel : l = true → 2 ≤ el) :
    (error l orig el none).1.length + 2 ≤ orig.length := by
  unfold error
  cases l with
  | false => simp; exact ho
  | true =>
    have := hel rfl
    simp only [Bool.not_true, Bool.false_eq_true, if_false, List.length_drop, Option.getD_none]
    omega

/-- a call that installs a queue has consumed at least two bytes -/
theorem parse_next_item_q2 (l : Bool) (s : List Nat) (r : List Nat × Item × List Item)
    (h : parse_next_item l s = some r) (hq : r.2.2 ≠ []) : r.1.length + 2 ≤ s.length := by
  cases s with
  | nil => simp [parse_next_item] at h
  | cons b rest =>
    by_cases hb : b = 37
    · subst hb
      unfold parse_next_item at h
      simp only at h
      cases hn : nextCh rest with
      | none =>
        rw [hn] at h
        simp only [Option.some.injEq] at h
        subst h
        exact absurd rfl hq
      | some x =>
        obtain ⟨c0, n0, r1⟩ := x
        obtain ⟨g1, g2⟩ := nextCh_progress rest c0 n0 r1 hn
        have ho2 : 2 ≤ (37 :: rest).length := by simp only [List.length_cons]; omega
        rw [hn] at h
        dsimp only at h
        have hel1 : l = true → 2 ≤ (if l = true then (if l = true then 1 else 0) + n0 else if l = true then 1 else 0) := by
          intro hl; simp [hl]; omega
        generalize (if l = true then (if l = true then 1 else 0) + n0 else if l = true then 1 else 0) = el1 at h hel1
        generalize hsec : (if ((padOf c0).isSome || c0 == 35) = true then _ else _ :
          Option (Option (Nat × Nat × List Nat × Nat))) = sec at h
        have hsec' : ∀ c n rem el, sec = some (some (c, n, rem, el)) →
            rem.length + 2 ≤ (37 :: rest).length ∧ (l = true → 2 ≤ el) := by
          intro c n rem el hs
          rw [← hsec] at hs
          split at hs
          · cases hn2 : nextCh r1 with
            | none => rw [hn2] at hs; simp at hs
            | some x =>
              obtain ⟨c', n', r2⟩ := x
              obtain ⟨k1, k2⟩ := nextCh_progress r1 c' n' r2 hn2
              rw [hn2] at hs
              simp only [Option.some.injEq, Prod.mk.injEq] at hs
              obtain ⟨rfl, rfl, rfl, rfl⟩ := hs
              refine ⟨by simp only [List.length_cons]; omega, ?_⟩
              intro hl; have := hel1 hl; simp [hl]; omega
          · simp only [Option.some.injEq, Prod.mk.injEq] at hs
            obtain ⟨rfl, rfl, rfl, rfl⟩ := hs
            exact ⟨by simp only [List.length_cons]; omega, hel1⟩
        rcases sec with _ | _ | ⟨c, n, rem, el⟩
        · simp only [Option.some.injEq] at h; subst h; exact absurd rfl hq
        · simp only [Option.some.injEq] at h; subst h; exact absurd rfl hq
        · obtain ⟨k1, k2⟩ := hsec' c n rem el rfl
          dsimp only at h
          split at h
          · simp only [Option.some.injEq] at h; subst h; exact absurd rfl hq
          · have hg := specArm_q2 l (37 :: rest) rem el (c0 == 35) c n k1 k2
            cases ha : specArm l (37 :: rest) rem el (c0 == 35) c n with
            | ret rem' it =>
              rw [ha] at h
              simp only [Option.some.injEq] at h
              subst h
              exact absurd rfl hq
            | item it rem' queue el' =>
              rw [ha] at h hg
              dsimp only at h
              cases hp : padOf c0 with
              | none =>
                rw [hp] at h
                simp only [Option.some.injEq] at h
                subst h
                exact (hg hq).1
              | some np =>
                rw [hp] at h
                dsimp only at h
                split at h
                · split at h
                  · simp only [Option.some.injEq] at h
                    subst h
                    exact absurd rfl hq
                  · simp only [Option.some.injEq] at h
                    subst h
                    exact error_rem2 l _ el' ho2 (hg hq).2
                · simp only [Option.some.injEq] at h
                  subst h
                  exact error_rem2 l _ el' ho2 (hg hq).2
    · obtain ⟨n, hn, it, _, hp⟩ := parse_next_item_text l b rest hb
      rw [hp] at h
      simp only [Option.some.injEq] at h
      subst h
      exact absurd rfl hq

/-- **the sharp bound**: twice the number of items is at most 13 times the byte length -/
theorem itemsAux_length2 (l : Bool) : ∀ (f : Nat) (s : List Nat), 2 * (itemsAux l f s).length ≤ 13 * s.length := by
  intro f
  induction f with
  | zero => intro s; simp [itemsAux]
  | succ f ih =>
    intro s
    rw [itemsAux]
    cases hp : parse_next_item l s with
    | none => simp
    | some r =>
      obtain ⟨rem, it, q⟩ := r
      obtain ⟨h1, h2⟩ := parse_next_item_progress l s _ hp
      have h3 := parse_next_item_q2 l s _ hp
      have := ih rem
      dsimp only at h1 h2 h3 ⊢
      simp only [List.length_cons, List.length_append]
      by_cases hq : q = []
      · subst hq; simp only [List.length_nil]; omega
      · have := h3 hq; omega

end Chrono.Proofs.StrftimeBound
