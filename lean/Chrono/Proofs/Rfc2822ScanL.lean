/-
  Helper lemmas for C11, part 2: the reader `Parse.parse_rfc2822` cut into stages, and scanner
  completeness over the grammar of Spec/Rfc2822Spec.lean (`parse_rfc2822_complete`).
-/
import Chrono.Proofs.Rfc2822L
import Chrono.Proofs.ParsedL
namespace Chrono.Proofs.Rfc2822
open Chrono Chrono.M Chrono.Spec Chrono.Spec.Rfc2822 Chrono.M.Scan Chrono.M.Parse

/-! ### the reader cut into its stages (copies of the code of `Parse.parse_rfc2822`) -/

def zonePart (p : Parsed) (s : List Nat) : PRes (Parsed × List Nat) := do
  let s ← space s
  let (s, off) ← timezone_offset_2822 s
  let p ← Parsed.set_offset p off
  pure (p, commentsAux s.length s)

def secPart (p : Parsed) (s : List Nat) : PRes (Parsed × List Nat) := do
  let (p, s) ← (match char (trimStart s) 58 with
    | .ok s_ => setField Parsed.set_second p (number s_ 2 (some 2))
    | .error _ => .ok (p, s) : PRes (Parsed × List Nat))
  zonePart p s

def timePart (p : Parsed) (s : List Nat) : PRes (Parsed × List Nat) := do
  let s ← space s
  let (p, s) ← setField Parsed.set_hour p (number s 2 (some 2))
  let s ← char (trimStart s) 58
  let s := trimStart s
  let (p, s) ← setField Parsed.set_minute p (number s 2 (some 2))
  secPart p s

def yearPart (p : Parsed) (s : List Nat) : PRes (Parsed × List Nat) := do
  let s ← space s
  let prevlen := s.length
  let (s, year) ← number s 2 none
  let yearlen := prevlen - s.length
  let year :=
    if yearlen = 2 ∧ 0 ≤ year ∧ year ≤ 49 then year + 2000
    else if yearlen = 2 ∧ 50 ≤ year ∧ year ≤ 99 then year + 1900
    else if yearlen = 3 then year + 1900
    else year
  let p ← Parsed.set_year p year
  timePart p s

def datePart (p : Parsed) (s : List Nat) : PRes (Parsed × List Nat) := do
  let s := trimStart s
  let (p, s) ← setField Parsed.set_day p (number s 1 (some 2))
  let s ← space s
  let (p, s) ← (match short_month0 s with
    | .ok (s', m0) => (Parsed.set_month p (1 + (m0 : Int))).map fun p' => (p', s')
    | .error .tooShort => .error PErr.tooShort
    | .error .invalid => .error PErr.invalid : PRes (Parsed × List Nat))
  yearPart p s

def parseCopy (p : Parsed) (s : List Nat) : PRes (Parsed × List Nat) := do
  let s := trimStart s
  let (p, s) ← (match short_weekday s with
    | .ok (s', w) =>
      match s' with
      | 44 :: rest => (Parsed.set_weekday p w).map fun p' => (p', rest)
      | _ => .error PErr.invalid
    | .error _ => .ok (p, s) : PRes (Parsed × List Nat))
  datePart p s

theorem parse_eq (p : Parsed) (s : List Nat) : Parse.parse_rfc2822 p s = parseCopy p s := by
  unfold Parse.parse_rfc2822 parseCopy datePart yearPart timePart secPart zonePart
  rfl


/-! ### heads of the pieces -/

theorem ws_first : ∀ w ∈ WS, (match w with
    | c :: _ => !Scan.isDigit c && !Scan.isAsciiAlpha c && decide (c ≠ 58) && decide (c ≠ 40)
    | [] => false) = true := by decide

/-- after `1*S`: the next byte is no digit, no letter -/
theorem ws1_head {w : List Nat} (h : Ws1 w) (r : List Nat) :
    ∃ c t, w ++ r = c :: t ∧ Scan.isDigit c = false ∧ ¬ isAlpha c := by
  obtain ⟨x, y, hx, _, rfl⟩ := h
  have := ws_first x hx
  cases x with
  | nil => simp at this
  | cons c t =>
    simp only [Bool.and_eq_true, Bool.not_eq_true', decide_eq_true_eq] at this
    refine ⟨c, t ++ y ++ r, by simp, this.1.1.1, ?_⟩
    rw [← isAlpha_iff]; simp [this.1.1.2]

theorem digits_head {ds : List Nat} (hd : Digits ds) (hl : 0 < ds.length) (r : List Nat) :
    Scan.wsLen (ds ++ r) = 0 := by
  cases ds with
  | nil => simp at hl
  | cons d t =>
    have := hd d (by simp)
    exact wsLen_head d _ (by omega) (by omega) (by omega)

theorem alpha_head (c : Nat) (r : List Nat) (h : isAlpha c) : Scan.wsLen (c :: r) = 0 := by
  unfold isAlpha at h
  exact wsLen_head c _ (by omega) (by omega) (by omega)

theorem caseOf_alpha {word v : List Nat} (hw : ∀ b ∈ word, 97 ≤ b ∧ b ≤ 122) (h : CaseOf word v) :
    ∀ b ∈ v, isAlpha b := by
  intro b hb
  unfold CaseOf at h
  have : lower b ∈ word := by rw [← h]; exact List.mem_map.mpr ⟨b, hb, rfl⟩
  exact lower_alpha b _ rfl (hw _ this)

theorem comments_noAlpha {cc : List Nat} (h : Comments cc) : NoAlphaHead cc := by
  cases h with
  | nil => exact Or.inl rfl
  | cons w a r hw _ _ =>
    right
    cases hw with
    | nil => exact ⟨40, _, rfl, by unfold isAlpha; omega⟩
    | cons x y hx hy =>
      obtain ⟨c, t, h1, _, h3⟩ := ws1_head ⟨x, y, hx, hy, rfl⟩ (40 :: (a ++ 41 :: r))
      exact ⟨c, t, h1, h3⟩

/-- `timezone_offset_2822` reads every zone of the specification -/
theorem tz_spec {zz : List Nat} {off : Int} (hz : Zone zz off) (cc : List Nat) (hc : NoAlphaHead cc) :
    Scan.timezone_offset_2822 (zz ++ cc) = .ok (cc, off) ∧
    (∃ c t, zz = c :: t ∧ (c = 43 ∨ c = 45 ∨ isAlpha c)) := by
  cases hz with
  | num neg h1 h2 m1 m2 hh1 hh2 hm1 hm2 =>
    refine ⟨tz_numeric neg h1 h2 m1 m2 cc hh1 hh2 hm1 hm2, _, _, rfl, ?_⟩
    cases neg <;> simp
  | name _ nm hours hmem hcase =>
    obtain ⟨hs, hne, hl⟩ := zone_table_secs (nm, hours) hmem
    have hal := caseOf_alpha hl hcase
    have hvne : zz ≠ [] := by
      intro hv; subst hv; unfold CaseOf at hcase; simp at hcase; exact hne hcase
    refine ⟨?_, ?_⟩
    · rw [tz_name zz cc hal hvne hc]
      apply zoneRes_some
      rw [caseOf_lowerS hcase]; exact hs
    · cases zz with
      | nil => exact absurd rfl hvne
      | cons c t => exact ⟨c, t, rfl, Or.inr (Or.inr (hal c (by simp)))⟩
  | military c ha hj =>
    refine ⟨?_, c, [], rfl, Or.inr (Or.inr ha)⟩
    rw [tz_name [c] cc (by intro b hb; simp at hb; subst hb; exact ha) (by simp) hc]
    exact zoneRes_letter c cc ha hj

theorem zone_wsLen {zz : List Nat} (cc : List Nat) (h : ∃ c t, zz = c :: t ∧ (c = 43 ∨ c = 45 ∨ isAlpha c)) :
    Scan.wsLen (zz ++ cc) = 0 ∧ Scan.char (zz ++ cc) 58 = .error .invalid := by
  obtain ⟨c, t, rfl, hc⟩ := h
  unfold isAlpha at hc
  refine ⟨wsLen_head c _ (by omega) (by omega) (by omega), ?_⟩
  simp only [List.cons_append, Scan.char]
  rw [if_neg (by omega)]

theorem zonePart_spec (p : Parsed) (w7 zz cc : List Nat) (off : Int) (hw : Ws1 w7) (hz : Zone zz off)
    (hc : NoAlphaHead cc) (hp : p.offset = none) (hoff : -2147483648 ≤ off ∧ off ≤ 2147483647) :
    zonePart p (w7 ++ (zz ++ cc)) = .ok ({ p with offset := some off }, Parse.commentsAux cc.length cc) := by
  obtain ⟨htz, hhead⟩ := tz_spec hz cc hc
  obtain ⟨hws, _⟩ := zone_wsLen cc hhead
  unfold zonePart
  rw [space_ws hw _ hws]
  have h32 : Parsed.toI32 off = .ok off := (Chrono.Proofs.ParsedRes.toI32_ok _ _).mpr ⟨hoff, rfl⟩
  simp only [bind, Except.bind, htz, Parsed.set_offset, h32, hp, Parsed.setIf, pure, Except.pure]


theorem decVal_two (d : List Nat) (hd : Digits d) (hl : d.length = 2) : decVal d ≤ 99 := by
  match d, hl with
  | [a, b], _ =>
    have ha := hd a (by simp)
    have hb := hd b (by simp)
    simp only [decVal, List.foldl_cons, List.foldl_nil]
    omega

theorem number_two (d rest : List Nat) (hd : Digits d) (hl : d.length = 2) :
    Scan.number (d ++ rest) 2 (some 2) = .ok (rest, (decVal d : Int)) := by
  have := decVal_two d hd hl
  exact number_digits d rest 2 (some 2) hd (by omega) (by intro m hm; injection hm with hm; omega)
    (Or.inl (by rw [hl])) (by unfold I64_MAX; omega)

theorem secPart_spec (p : Parsed) (ss w7 zz cc : List Nat) (sec : Option Nat) (off : Int)
    (hs : Seconds ss sec) (hw : Ws1 w7) (hz : Zone zz off) (hc : NoAlphaHead cc)
    (hp1 : p.second = none) (hp2 : p.offset = none) (hsec : ∀ x, sec = some x → x ≤ 60)
    (hoff : -2147483648 ≤ off ∧ off ≤ 2147483647) :
    secPart p (ss ++ (w7 ++ (zz ++ cc))) =
      .ok ({ p with second := sec.map Int.ofNat, offset := some off }, Parse.commentsAux cc.length cc) := by
  obtain ⟨_, hhead⟩ := tz_spec hz cc hc
  obtain ⟨hws, hch⟩ := zone_wsLen cc hhead
  unfold secPart
  rcases hs with ⟨rfl, rfl⟩ | ⟨w, d, hw', hd, hdl, rfl, rfl⟩
  · simp only [List.nil_append]
    rw [trimStart_ws (ws1_ws hw) _ hws, hch]
    simp only [bind, Except.bind]
    rw [zonePart_spec p w7 zz cc off hw hz hc hp2 hoff]
    cases p
    simp only [Option.map_none] at hp1 ⊢
    subst hp1
    rfl
  · have hx := hsec _ rfl
    simp only [List.append_assoc, List.cons_append]
    rw [trimStart_ws hw' _ (wsLen_head 58 _ (by omega) (by omega) (by omega))]
    simp only [Scan.char, if_true, number_two d _ hd hdl, setField, Parsed.set_second, Parsed.inRange,
      bind, Except.bind, hp1, Parsed.setIf, pure, Except.pure, Except.map]
    rw [if_pos (by omega)]
    simp only []
    rw [zonePart_spec { p with second := some (decVal d : Int) } w7 zz cc off hw hz hc hp2 hoff]
    rfl


theorem set_hour_fresh (p : Parsed) (H : Nat) (hH : H ≤ 23) (h1 : p.hour_div_12 = none)
    (h2 : p.hour_mod_12 = none) :
    Parsed.set_hour p (H : Int) =
      .ok { p with hour_div_12 := some ((H : Int) / 12), hour_mod_12 := some ((H : Int) % 12) } := by
  unfold Parsed.set_hour
  simp only [Parsed.inRange, bind, Except.bind]
  rw [if_pos ⟨by omega, by omega⟩]
  by_cases h : (H : Int) ≤ 11
  · have e1 : (H : Int) / 12 = 0 := by omega
    have e2 : (H : Int) % 12 = H := by omega
    simp only [h, if_true, h1, h2, Parsed.setIf, pure, Except.pure, e1, e2]
  · have e1 : (H : Int) / 12 = 1 := by omega
    have e2 : (H : Int) % 12 = H - 12 := by omega
    simp only [h, if_false, h1, h2, Parsed.setIf, pure, Except.pure, e1, e2]

theorem timePart_spec (p : Parsed) (w4 hh w5 w6 mm ss w7 zz cc : List Nat) (sec : Option Nat) (off : Int)
    (hw4 : Ws1 w4) (hhd : Digits hh) (hhl : hh.length = 2) (hw5 : Ws w5) (hw6 : Ws w6)
    (hmd : Digits mm) (hml : mm.length = 2)
    (hs : Seconds ss sec) (hw : Ws1 w7) (hz : Zone zz off) (hc : NoAlphaHead cc)
    (hH : decVal hh ≤ 23) (hM : decVal mm ≤ 59) (hsec : ∀ x, sec = some x → x ≤ 60)
    (hoff : -2147483648 ≤ off ∧ off ≤ 2147483647)
    (hp1 : p.hour_div_12 = none) (hp2 : p.hour_mod_12 = none) (hp3 : p.minute = none)
    (hp4 : p.second = none) (hp5 : p.offset = none) :
    timePart p (w4 ++ (hh ++ (w5 ++ (58 :: (w6 ++ (mm ++ (ss ++ (w7 ++ (zz ++ cc)))))))))
      = .ok ({ p with hour_div_12 := some ((decVal hh : Int) / 12), hour_mod_12 := some ((decVal hh : Int) % 12),
                      minute := some (decVal mm : Int), second := sec.map Int.ofNat, offset := some off }, Parse.commentsAux cc.length cc) := by
  unfold timePart
  rw [space_ws hw4 _ (digits_head hhd (by omega) _)]
  simp only [bind, Except.bind, number_two hh _ hhd hhl, setField, set_hour_fresh p _ hH hp1 hp2, Except.map]
  rw [trimStart_ws hw5 _ (wsLen_head 58 _ (by omega) (by omega) (by omega))]
  simp only [Scan.char, if_true]
  rw [trimStart_ws hw6 _ (digits_head hmd (by omega) _)]
  simp only [number_two mm _ hmd hml, Parsed.set_minute, Parsed.inRange, bind, Except.bind, Parsed.setIf, hp3,
    pure, Except.pure]
  rw [if_pos ⟨by omega, by omega⟩]
  simp only []
  rw [secPart_spec (hs := hs) (hw := hw) (hz := hz) (hc := hc) (hsec := hsec) (hoff := hoff)]
  · exact hp4
  · exact hp5


theorem year_rule_eq (yy : List Nat) (hd : Digits yy) :
    (if yy.length = 2 ∧ (0 : Int) ≤ (decVal yy : Int) ∧ (decVal yy : Int) ≤ 49 then (decVal yy : Int) + 2000
     else if yy.length = 2 ∧ (50 : Int) ≤ (decVal yy : Int) ∧ (decVal yy : Int) ≤ 99 then (decVal yy : Int) + 1900
     else if yy.length = 3 then (decVal yy : Int) + 1900
     else (decVal yy : Int)) = yearOf yy := by
  unfold yearOf
  by_cases h2 : yy.length = 2
  · have := decVal_two yy hd h2
    simp only [h2, true_and, if_true]
    by_cases h49 : decVal yy ≤ 49
    · rw [if_pos (by omega), if_pos h49]
    · rw [if_neg (by omega), if_pos (by omega), if_neg h49]
  · simp only [h2, false_and, if_false]

theorem yearOf_ge (yy : List Nat) : (decVal yy : Int) ≤ yearOf yy := by
  unfold yearOf; split
  · split <;> omega
  · split <;> omega

theorem yearPart_spec (p : Parsed) (w3 yy w4 hh w5 w6 mm ss w7 zz cc : List Nat) (sec : Option Nat) (off : Int)
    (hw3 : Ws1 w3) (hyd : Digits yy) (hyl : 2 ≤ yy.length)
    (hw4 : Ws1 w4) (hhd : Digits hh) (hhl : hh.length = 2) (hw5 : Ws w5) (hw6 : Ws w6)
    (hmd : Digits mm) (hml : mm.length = 2)
    (hs : Seconds ss sec) (hw : Ws1 w7) (hz : Zone zz off) (hc : NoAlphaHead cc)
    (hY : yearOf yy ≤ 2147483647)
    (hH : decVal hh ≤ 23) (hM : decVal mm ≤ 59) (hsec : ∀ x, sec = some x → x ≤ 60)
    (hoff : -2147483648 ≤ off ∧ off ≤ 2147483647)
    (hp0 : p.year = none)
    (hp1 : p.hour_div_12 = none) (hp2 : p.hour_mod_12 = none) (hp3 : p.minute = none)
    (hp4 : p.second = none) (hp5 : p.offset = none) :
    yearPart p (w3 ++ (yy ++ (w4 ++ (hh ++ (w5 ++ (58 :: (w6 ++ (mm ++ (ss ++ (w7 ++ (zz ++ cc)))))))))))
      = .ok ({ p with year := some (yearOf yy),
                      hour_div_12 := some ((decVal hh : Int) / 12), hour_mod_12 := some ((decVal hh : Int) % 12),
                      minute := some (decVal mm : Int), second := sec.map Int.ofNat, offset := some off }, Parse.commentsAux cc.length cc) := by
  have hge := yearOf_ge yy
  obtain ⟨c, t, hct, hcd, _⟩ := ws1_head hw4 (hh ++ (w5 ++ (58 :: (w6 ++ (mm ++ (ss ++ (w7 ++ (zz ++ cc))))))))
  unfold yearPart
  rw [space_ws hw3 _ (digits_head hyd (by omega) _)]
  have hnum := number_digits yy _ 2 none hyd hyl (by intro m hm; cases hm)
    (Or.inr (Or.inr ⟨c, t, hct, hcd⟩)) (by unfold I64_MAX; omega)
  simp only [bind, Except.bind, hnum, List.length_append, Nat.add_sub_cancel]
  rw [year_rule_eq yy hyd]
  have hnn : (0 : Int) ≤ yearOf yy := by omega
  have h32 : Parsed.toI32 (yearOf yy) = .ok (yearOf yy) :=
    (Chrono.Proofs.ParsedRes.toI32_ok _ _).mpr ⟨⟨by omega, by omega⟩, rfl⟩
  simp only [Parsed.set_year, h32, bind, Except.bind, hp0, Parsed.setIf, pure, Except.pure]
  rw [timePart_spec (hw4 := hw4) (hhd := hhd) (hhl := hhl) (hw5 := hw5) (hw6 := hw6) (hmd := hmd) (hml := hml)
    (hs := hs) (hw := hw) (hz := hz) (hc := hc) (hH := hH) (hM := hM) (hsec := hsec) (hoff := hoff)]
  · exact hp1
  · exact hp2
  · exact hp3
  · exact hp4
  · exact hp5


theorem datePart_spec (p : Parsed) (w1 dd w2 mn w3 yy w4 hh w5 w6 mm ss w7 zz cc : List Nat)
    (m : Nat) (sec : Option Nat) (off : Int)
    (hw1 : Ws w1) (hdd : Digits dd) (hdl : dd.length = 1 ∨ dd.length = 2) (hw2 : Ws1 w2)
    (hmn : MonthName mn m)
    (hw3 : Ws1 w3) (hyd : Digits yy) (hyl : 2 ≤ yy.length)
    (hw4 : Ws1 w4) (hhd : Digits hh) (hhl : hh.length = 2) (hw5 : Ws w5) (hw6 : Ws w6)
    (hmd : Digits mm) (hml : mm.length = 2)
    (hs : Seconds ss sec) (hw : Ws1 w7) (hz : Zone zz off) (hc : NoAlphaHead cc)
    (hD : 1 ≤ decVal dd ∧ decVal dd ≤ 31) (hY : yearOf yy ≤ 2147483647)
    (hH : decVal hh ≤ 23) (hM : decVal mm ≤ 59) (hsec : ∀ x, sec = some x → x ≤ 60)
    (hoff : -2147483648 ≤ off ∧ off ≤ 2147483647)
    (hq1 : p.day = none) (hq2 : p.month = none) (hp0 : p.year = none)
    (hp1 : p.hour_div_12 = none) (hp2 : p.hour_mod_12 = none) (hp3 : p.minute = none)
    (hp4 : p.second = none) (hp5 : p.offset = none) :
    datePart p (w1 ++ (dd ++ (w2 ++ (mn ++ (w3 ++ (yy ++ (w4 ++ (hh ++ (w5 ++ (58 :: (w6 ++ (mm ++ (ss ++
        (w7 ++ (zz ++ cc)))))))))))))))
      = .ok ({ p with day := some (decVal dd : Int), month := some (m : Int), year := some (yearOf yy),
                      hour_div_12 := some ((decVal hh : Int) / 12), hour_mod_12 := some ((decVal hh : Int) % 12),
                      minute := some (decVal mm : Int), second := sec.map Int.ofNat, offset := some off }, Parse.commentsAux cc.length cc) := by
  obtain ⟨i, hi, hcase, rfl⟩ := hmn
  obtain ⟨_, _, _, _, _, t5, _⟩ := name_tables
  have hal := caseOf_alpha (t5 i hi).2 hcase
  obtain ⟨a, b, c, hmn3, _⟩ := caseOf3 _ mn (t5 i hi) hcase
  have hmnhead : ∀ r, Scan.wsLen (mn ++ r) = 0 := by
    intro r; subst hmn3; exact alpha_head a _ (hal a (by simp))
  have hdlen : 0 < dd.length := by omega
  obtain ⟨c2, t2, hct, hcd, _⟩ := ws1_head hw2 (mn ++ (w3 ++ (yy ++ (w4 ++ (hh ++ (w5 ++ (58 :: (w6 ++ (mm ++ (ss ++
        (w7 ++ (zz ++ cc)))))))))))) 
  have hnum := number_digits dd _ 1 (some 2) hdd (by omega) (by intro x hx; injection hx with hx; omega)
    (by
      rcases hdl with h | h
      · exact Or.inr (Or.inr ⟨c2, t2, hct, hcd⟩)
      · exact Or.inl (by rw [h])) (by unfold I64_MAX; omega)
  unfold datePart
  simp only []
  rw [trimStart_ws hw1 _ (digits_head hdd hdlen _)]
  simp only [bind, Except.bind, hnum, setField, Parsed.set_day, Parsed.inRange, hq1, Parsed.setIf, pure, Except.pure,
    Except.map]
  rw [if_pos ⟨by omega, by omega⟩]
  simp only []
  rw [space_ws hw2 _ (hmnhead _)]
  simp only []
  rw [short_month_name i hi mn _ hcase]
  simp only [Parsed.set_month, Parsed.inRange, bind, Except.bind, hq2, Parsed.setIf, pure, Except.pure, Except.map]
  rw [if_pos ⟨by omega, by omega⟩]
  simp only []
  rw [yearPart_spec (hw3 := hw3) (hyd := hyd) (hyl := hyl) (hw4 := hw4) (hhd := hhd) (hhl := hhl) (hw5 := hw5)
    (hw6 := hw6) (hmd := hmd) (hml := hml) (hs := hs) (hw := hw) (hz := hz) (hc := hc) (hY := hY) (hH := hH)
    (hM := hM) (hsec := hsec) (hoff := hoff)]
  · have : (1 : Int) + (i : Int) = ((i + 1 : Nat) : Int) := by omega
    simp only [this]
  · exact hp0
  · exact hp1
  · exact hp2
  · exact hp3
  · exact hp4
  · exact hp5


/-- the field record the reader builds from the fields a string spells -/
def parsedOf (f : Fields) : Parsed :=
  { weekday := f.weekday, day := some (f.day : Int), month := some (f.month : Int), year := some f.year,
    hour_div_12 := some ((f.hour : Int) / 12), hour_mod_12 := some ((f.hour : Int) % 12),
    minute := some (f.min : Int), second := f.sec.map Int.ofNat, offset := some f.off }

/-- the setter ranges: what makes the scanner itself (before field resolution) succeed -/
def SetterRanges (f : Fields) : Prop :=
  1 ≤ f.day ∧ f.day ≤ 31 ∧ f.year ≤ 2147483647 ∧ f.hour ≤ 23 ∧ f.min ≤ 59 ∧ secOf f ≤ 60 ∧
  -2147483648 ≤ f.off ∧ f.off ≤ 2147483647

/-- the grammar relation with an arbitrary text `tail` in the place of the trailing comments -/
def Rfc2822Pre (s : List Nat) (f : Fields) (tail : List Nat) : Prop :=
  ∃ w0 dn w1 dd w2 mn w3 yy w4 hh w5 w6 mm ss w7 zz,
    Ws w0 ∧ DayName dn f.weekday ∧ Ws w1 ∧
    Digits dd ∧ (dd.length = 1 ∨ dd.length = 2) ∧ decVal dd = f.day ∧
    Ws1 w2 ∧ MonthName mn f.month ∧ Ws1 w3 ∧
    Digits yy ∧ 2 ≤ yy.length ∧ yearOf yy = f.year ∧ Ws1 w4 ∧
    Digits hh ∧ hh.length = 2 ∧ decVal hh = f.hour ∧ Ws w5 ∧ Ws w6 ∧
    Digits mm ∧ mm.length = 2 ∧ decVal mm = f.min ∧
    Seconds ss f.sec ∧ Ws1 w7 ∧ Zone zz f.off ∧
    s = w0 ++ (dn ++ (w1 ++ (dd ++ (w2 ++ (mn ++ (w3 ++ (yy ++ (w4 ++ (hh ++ (w5 ++
          (58 :: (w6 ++ (mm ++ (ss ++ (w7 ++ (zz ++ tail))))))))))))))))

theorem rfc2822_pre {s : List Nat} {f : Fields} (h : Rfc2822 s f) : ∃ cc, Comments cc ∧ Rfc2822Pre s f cc := by
  obtain ⟨w0, dn, w1, dd, w2, mn, w3, yy, w4, hh, w5, w6, mm, ss, w7, zz, cc,
    hw0, hdn, hw1, hdd, hdl, hdv, hw2, hmn, hw3, hyd, hyl, hyv, hw4, hhd, hhl, hhv, hw5, hw6, hmd, hml, hmv,
    hs, hw7, hz, hc, rfl⟩ := h
  exact ⟨cc, hc, w0, dn, w1, dd, w2, mn, w3, yy, w4, hh, w5, w6, mm, ss, w7, zz,
    hw0, hdn, hw1, hdd, hdl, hdv, hw2, hmn, hw3, hyd, hyl, hyv, hw4, hhd, hhl, hhv, hw5, hw6, hmd, hml, hmv,
    hs, hw7, hz, rfl⟩

/-- scanner completeness with ANY text after the zone that does not start with a letter: everything up to
and including the zone is read as the fields it spells, then comments are skipped as far as they go -/
theorem parse_rfc2822_complete_tail (s : List Nat) (f : Fields) (cc : List Nat) (h : Rfc2822Pre s f cc)
    (hc : NoAlphaHead cc) (hr : SetterRanges f) :
    Parse.parse_rfc2822 Parsed.new s = .ok (parsedOf f, Parse.commentsAux cc.length cc) := by
  obtain ⟨w0, dn, w1, dd, w2, mn, w3, yy, w4, hh, w5, w6, mm, ss, w7, zz,
    hw0, hdn, hw1, hdd, hdl, hdv, hw2, hmn, hw3, hyd, hyl, hyv, hw4, hhd, hhl, hhv, hw5, hw6, hmd, hml, hmv,
    hs, hw7, hz, rfl⟩ := h
  obtain ⟨r1, r2, r3, r4, r5, r6, r7, r8⟩ := hr
  have hsec : ∀ x, f.sec = some x → x ≤ 60 := by
    intro x hx; unfold secOf at r6; rw [hx] at r6; exact r6
  have hdlen : 0 < dd.length := by omega
  rw [parse_eq]
  unfold parseCopy
  simp only []
  have key := fun (p : Parsed) (w : List Nat) (hw : Ws w) (a1 a2 a3 a4 a5 a6 a7 a8) =>
    datePart_spec p w dd w2 mn w3 yy w4 hh w5 w6 mm ss w7 zz cc f.month f.sec f.off hw hdd hdl hw2 hmn hw3 hyd hyl
      hw4 hhd hhl hw5 hw6 hmd hml hs hw7 hz hc (by omega) (by omega) (by omega) (by omega) hsec ⟨r7, r8⟩
      a1 a2 a3 a4 a5 a6 a7 a8
  rcases hdn with ⟨rfl, hwd⟩ | ⟨i, v, hi, hcase, rfl, hwd⟩
  · -- no day-name: the two white-space runs merge
    simp only [List.nil_append]
    rw [← List.append_assoc, trimStart_ws (Ws.append hw0 hw1) _ (digits_head hdd hdlen _)]
    cases dd with
    | nil => simp at hdlen
    | cons d t =>
      obtain ⟨e, he⟩ := short_weekday_digit d (t ++ (w2 ++ (mn ++ (w3 ++ (yy ++ (w4 ++ (hh ++ (w5 ++ (58 :: (w6 ++
        (mm ++ (ss ++ (w7 ++ (zz ++ cc)))))))))))))) (hdd d (by simp))
      simp only [List.cons_append] at he ⊢
      rw [he]
      simp only [bind, Except.bind]
      have := key Parsed.new [] Ws.nil rfl rfl rfl rfl rfl rfl rfl rfl
      simp only [List.nil_append, List.cons_append] at this
      rw [this]
      unfold parsedOf
      rw [hwd, hdv, hyv, hhv, hmv]
      rfl
  · obtain ⟨_, _, _, _, t5, _, _⟩ := name_tables
    have hal := caseOf_alpha (t5 i hi).2 hcase
    obtain ⟨a, b, c, hv3, _⟩ := caseOf3 _ v (t5 i hi) hcase
    obtain ⟨w, hwi, hsw⟩ := short_weekday_name i hi v
      (44 :: (w1 ++ (dd ++ (w2 ++ (mn ++ (w3 ++ (yy ++ (w4 ++ (hh ++ (w5 ++ (58 :: (w6 ++
        (mm ++ (ss ++ (w7 ++ (zz ++ cc)))))))))))))))) hcase
    simp only [List.append_assoc, List.cons_append, List.nil_append]
    rw [trimStart_ws hw0 _ (by subst hv3; exact alpha_head a _ (hal a (by simp)))]
    rw [hsw]
    simp only [bind, Except.bind, Parsed.set_weekday, Parsed.setIf, Parsed.new, pure, Except.pure, Except.map]
    have := key { weekday := some w } w1 hw1 rfl rfl rfl rfl rfl rfl rfl rfl
    rw [this]
    unfold parsedOf
    rw [hwd, hwi, hdv, hyv, hhv, hmv]

/-- scanner completeness: every string of the grammar is consumed entirely and yields exactly the
fields it spells -/
theorem parse_rfc2822_complete (s : List Nat) (f : Fields) (h : Rfc2822 s f) (hr : SetterRanges f) :
    Parse.parse_rfc2822 Parsed.new s = .ok (parsedOf f, []) := by
  obtain ⟨cc, hc, hp⟩ := rfc2822_pre h
  rw [parse_rfc2822_complete_tail s f cc hp (comments_noAlpha hc) hr, commentsAux_all hc _ (Nat.le_refl _)]

/-- comments are skipped up to a text that starts no comment -/
theorem commentsAux_rest {cc : List Nat} (hc : Comments cc) (b : List Nat)
    (hb : ∃ e, Scan.comment_2822 b = .error e) :
    ∀ fuel, (cc ++ b).length ≤ fuel → Parse.commentsAux fuel (cc ++ b) = b := by
  obtain ⟨e, he⟩ := hb
  induction hc with
  | nil =>
    intro fuel _
    cases fuel with
    | zero => rfl
    | succ f => simp only [List.nil_append, Parse.commentsAux, he]
  | cons w a r hw ha _ ih =>
    intro fuel hf
    cases fuel with
    | zero => simp at hf
    | succ f =>
      have := comment_one hw ha (r ++ b)
      simp only [List.append_assoc, List.cons_append] at this ⊢
      simp only [Parse.commentsAux, this]
      apply ih
      simp only [List.length_append, List.length_cons] at hf ⊢
      omega

/-- **the item in front of more text**: a string of the grammar followed by a text `b` that starts neither
with a letter nor with a comment (`*S "("`): the scanner reads the fields and stops exactly in front of `b` -/
theorem parse_rfc2822_complete_rest (s : List Nat) (f : Fields) (h : Rfc2822 s f) (hr : SetterRanges f)
    (b : List Nat) (hb : NoAlphaHead b) (hcb : ∃ e, Scan.comment_2822 b = .error e) :
    Parse.parse_rfc2822 Parsed.new (s ++ b) = .ok (parsedOf f, b) := by
  obtain ⟨cc, hc, w0, dn, w1, dd, w2, mn, w3, yy, w4, hh, w5, w6, mm, ss, w7, zz,
    hw0, hdn, hw1, hdd, hdl, hdv, hw2, hmn, hw3, hyd, hyl, hyv, hw4, hhd, hhl, hhv, hw5, hw6, hmd, hml, hmv,
    hs, hw7, hz, rfl⟩ := rfc2822_pre h
  have hna : NoAlphaHead (cc ++ b) := by
    cases hc with
    | nil => exact hb
    | cons w a r hw ha hr' =>
      rcases comments_noAlpha (Comments.cons w a r hw ha hr') with h0 | ⟨c, t, h1, h2⟩
      · exact absurd (congrArg List.length h0) (by simp)
      · exact Or.inr ⟨c, t ++ b, by rw [h1]; rfl, h2⟩
  have hpre : Rfc2822Pre ((w0 ++ (dn ++ (w1 ++ (dd ++ (w2 ++ (mn ++ (w3 ++ (yy ++ (w4 ++ (hh ++ (w5 ++
      (58 :: (w6 ++ (mm ++ (ss ++ (w7 ++ (zz ++ cc))))))))))))))))) ++ b) f (cc ++ b) :=
    ⟨w0, dn, w1, dd, w2, mn, w3, yy, w4, hh, w5, w6, mm, ss, w7, zz,
      hw0, hdn, hw1, hdd, hdl, hdv, hw2, hmn, hw3, hyd, hyl, hyv, hw4, hhd, hhl, hhv, hw5, hw6, hmd, hml, hmv,
      hs, hw7, hz, by simp only [List.append_assoc, List.cons_append]⟩
  rw [parse_rfc2822_complete_tail _ f (cc ++ b) hpre hna hr, commentsAux_rest hc b hcb _ (Nat.le_refl _)]

end Chrono.Proofs.Rfc2822
