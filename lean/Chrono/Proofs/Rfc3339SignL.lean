/-
  C10, gap G2: the writer theorem with the SIGN of the offset pinned.  `writer_main`
  (Proofs/Rfc3339WriteL.lean) concludes `offsetOf f = z.off`, which for offset zero is satisfied by
  `+00:00` and by `-00:00` alike (RFC 3339 section 4.3 reads `-00:00` as "offset unknown").  Here the same
  derivation is carried to the sign and the hour/minute fields themselves.
  Namespace `Chrono.Proofs.Rfc3339` (same as Rfc3339WriteL).
-/
import Chrono.Proofs.Rfc3339WriteL

namespace Chrono.Proofs.Rfc3339
open Chrono Chrono.M Chrono.M.Scan Chrono.M.Format Chrono.Spec Chrono.Spec.Rfc3339 Chrono.Proofs.RenderScan
open Chrono.Extracted Chrono.Proofs

open Chrono.M.Rfc3339 in
/-- **the writer, with the sign and the hour/minute fields of the offset**: `writer_main` plus: the sign
shown is `-` exactly for a negative offset (so offset zero is `+00:00`, never `-00:00`), and the offset
fields are the hours and minutes of `|off|` -/
theorem writer_main_full (z : Zoned) (hz : ZInv z) (hoff : z.off % 60 = 0) (hy : WallYear0to9999 (wallSecs z))
    (sf : SecondsFormat) (use_z : Bool) :
    ∃ t f, to_rfc3339_opts z sf use_z = .ok t ∧ Matches t f ∧ Valid f ∧
      dayNum f.year f.month f.day = EPOCH_DAY + wallSecs z / 86400 ∧
      (f.hour : Int) = wallSecs z % 86400 / 3600 ∧ (f.minute : Int) = wallSecs z % 86400 / 60 % 60 ∧
      (f.second : Int) = wallSecs z % 86400 % 60 + (if z.utc.time.frac ≥ 1000000000 then 1 else 0) ∧
      (f.fracDigits.length, digitsVal f.fracDigits 0) = wantedFrac sf (z.utc.time.frac % 1000000000).toNat ∧
      (f.zulu = true ↔ (use_z = true ∧ z.off = 0)) ∧ offsetOf f = z.off ∧
      t.getD 10 0 = 84 ∧ (∀ c ∈ t, c < 128) ∧
      (f.neg = true ↔ z.off < 0) ∧ f.offH = z.off.natAbs / 3600 ∧ f.offM = z.off.natAbs / 60 % 60 := by
  obtain ⟨l, h1, h2, h3, h4, _, _⟩ := naive_local_spec z hz
  obtain ⟨he, v1, v2, v3, v4⟩ := ext_eq l.date h2.1
  obtain ⟨t1, t2, t3, t4⟩ := h2.2
  have hsecs := instSecs_ext l h2.1
  rw [h3] at hsecs
  generalize hyv : l.date.year = y at *
  generalize hov : l.date.ordinal.toNat = o at *
  have hyr := wall_year y o ⟨v3, v4⟩ l.time.secs ⟨t1, t2⟩ (hsecs ▸ hy)
  obtain ⟨m1, m2, m3, m4⟩ := month_day_spec y o v3 v4
  obtain ⟨b1, b2, b3, b4⟩ := validYmd_bounds _ _ _ m3
  have hr := hz.2
  unfold OffValid at hr
  have hw := write_rfc3339_eq l.date l.time z.off sf use_z (monthOfYo y o) (dayOfYo y o) (by rw [hyv]; exact hyr)
    (by rw [he]; exact m1) (by rw [he]; exact m2) (by omega) (by omega) ⟨t1, t2, t3, t4⟩ hr
  rw [hyv] at hw
  generalize hn : (if l.time.frac ≥ 1000000000 then l.time.frac - 1000000000 else l.time.frac) = n at hw
  have hnb : 0 ≤ n ∧ n < 1000000000 := by rw [← hn]; split <;> omega
  have hnm : n = z.utc.time.frac % 1000000000 := by rw [← hn, h4] at *; split <;> omega
  obtain ⟨q1, q2, q3⟩ := fracText_spec sf n hnb.1 hnb.2
  have hot := offText_spec use_z z.off hr hoff
  generalize hss : (l.time.secs % 60 + if l.time.frac ≥ 1000000000 then 1 else 0) = ss at hw
  have hssb : 0 ≤ ss ∧ ss ≤ 60 := by rw [← hss]; split <;> omega
  have hm := text_matches y.toNat (monthOfYo y o) (dayOfYo y o) (l.time.secs / 3600).toNat
    (l.time.secs / 60 % 60).toNat ss.toNat (by omega) (by omega) (by omega) (by omega) (by omega) (by omega)
    _ _ _ _ _ _ _ q1 hot
  rw [show (y / 100).toNat = y.toNat / 100 by omega, show (y % 100).toNat = y.toNat % 100 by omega] at hw
  refine ⟨_, _, ?_, hm, ?_, ?_, ?_, ?_, ?_, ?_, ?_, ?_, ?_, ?_, ?_, ?_, ?_⟩
  · unfold to_rfc3339_opts
    rw [h1]
    show expectText (write_rfc3339 ⟨l.date, l.time⟩ z.off sf use_z) = _
    rw [hw]; rfl
  · unfold Valid
    dsimp only
    rw [Int.toNat_of_nonneg hyr.1]
    refine ⟨m3, by omega, by omega, by omega, ?_, ?_⟩
    · unfold offHours; split <;> omega
    · unfold offMinutes; split <;> omega
  · dsimp only
    rw [Int.toNat_of_nonneg hyr.1]
    unfold dayNum
    rw [m4]
    omega
  · dsimp only; omega
  · dsimp only; omega
  · dsimp only; rw [← hss, h4] at *; omega
  · dsimp only
    rw [digitsVal_eq]
    rw [← hnm]
    exact q3
  · dsimp only
    unfold offZulu
    simp
  · unfold offsetOf
    dsimp only
    unfold offNeg offHours offMinutes offZulu
    by_cases hzz : use_z = true ∧ z.off = 0
    · simp [hzz.1, hzz.2]
    · have : (use_z && decide (z.off = 0)) = false := by
        cases use_z with
        | false => rfl
        | true => simp at hzz; simp [hzz]
      rw [this]
      simp only [Bool.not_false, Bool.true_and, Bool.false_eq_true, if_false, decide_eq_true_eq]
      split <;> omega
  · simp [two]
  · intro c hc
    have hq : ∀ c ∈ fracText sf n, c < 128 := by
      intro c hc
      generalize fracText sf n = ft at q1 hc
      generalize fracDigitsOf sf n = fd at q1 q2
      cases q1 with
      | absent => simp at hc
      | present _ hne hd =>
        rcases List.mem_cons.mp hc with rfl | hc
        · omega
        · have := (isDigit_iff c).mp (q2 c hc); omega
    have ho : ∀ c ∈ offText use_z z.off, c < 128 := by
      intro c hc
      unfold offText at hc
      split at hc
      · simp at hc; omega
      · simp only [two, List.mem_cons, List.mem_append, List.not_mem_nil, or_false] at hc
        rcases hc with h | h | h | h | h | h <;> (try split at h) <;> omega
    simp only [two, List.mem_cons, List.mem_append, List.cons_append, List.nil_append] at hc
    rcases hc with h | h | h | h | h | h | h | h | h | h | h | h | h | h | h | h | h | h | h | h | h
    all_goals first | omega | exact hq c h | exact ho c h
  · dsimp only
    unfold offNeg offZulu
    by_cases hzz : use_z = true ∧ z.off = 0
    · simp [hzz.1, hzz.2]
    · have : (use_z && decide (z.off = 0)) = false := by
        cases use_z with
        | false => rfl
        | true => simp at hzz; simp [hzz]
      rw [this]
      simp
  · dsimp only
    unfold offHours offZulu
    split
    · rename_i hzz
      simp only [Bool.and_eq_true, decide_eq_true_eq] at hzz
      rw [hzz.2]; rfl
    · rfl
  · dsimp only
    unfold offMinutes offZulu
    split
    · rename_i hzz
      simp only [Bool.and_eq_true, decide_eq_true_eq] at hzz
      rw [hzz.2]; rfl
    · rfl

end Chrono.Proofs.Rfc3339
