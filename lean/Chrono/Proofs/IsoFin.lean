/- Finite (kernel-evaluated) lemmas for the ISO-week part of C01: everything about the week number
inside a year depends only on (ordinal, year flags). -/
import Chrono.Model.Date
import Chrono.Spec.Calendar

namespace Chrono.Proofs
open Chrono Chrono.M Chrono.Spec Chrono.Extracted

/-- ordinal, relative to the year with flags `f`, of the Thursday of the Monday-based week that
contains the `o`-th day of that year (≤ 0: a day of the previous year; > year length: next year).
`(o + f % 8) % 7` is the weekday (Monday = 0) of the `o`-th day. -/
def otOf (o f : Nat) : Int := (o : Int) - (((o + f % 8) % 7 : Nat) : Int) + 3

def isoFinOk (o f : Nat) : Bool :=
  decide (1 ≤ o → o ≤ YearFlags.ndays f → f % 8 ≠ 0 →
    ((otOf o f < 1 → (o + YearFlags.isoweek_delta f) / 7 < 1) ∧
     ((YearFlags.ndays f : Int) < otOf o f →
        (o + YearFlags.isoweek_delta f) / 7 > YearFlags.nisoweeks f ∧ otOf o f - YearFlags.ndays f ≤ 3) ∧
     (1 ≤ otOf o f → otOf o f ≤ YearFlags.ndays f →
        1 ≤ (o + YearFlags.isoweek_delta f) / 7 ∧
        (o + YearFlags.isoweek_delta f) / 7 ≤ YearFlags.nisoweeks f ∧
        (((o + YearFlags.isoweek_delta f) / 7 : Nat) : Int) = (otOf o f - 1) / 7 + 1)))

/-- `rawweek`, `isoweek_delta` and `nisoweeks` against the Thursday's ordinal, every
(ordinal, flags) pair -/
theorem iso_fin : ∀ o < 367, ∀ f < 16, isoFinOk o f = true := by decide +kernel

def isoPrevOk (pf f o : Nat) : Bool :=
  decide (pf % 8 ≠ 0 → f % 8 ≠ 0 → (f % 8) % 7 = (pf % 8 + YearFlags.ndays pf) % 7 → 1 ≤ o →
    otOf o f < 1 →
      (1 ≤ otOf o f + YearFlags.ndays pf ∧ otOf o f + YearFlags.ndays pf ≤ YearFlags.ndays pf ∧
       ((YearFlags.nisoweeks pf : Nat) : Int) = (otOf o f + YearFlags.ndays pf - 1) / 7 + 1))

/-- a day whose Thursday falls in the previous year (flags `pf`) is in that year's last week, and
the last week's number is `nisoweeks pf` -/
theorem iso_prev_fin : ∀ pf < 16, ∀ f < 16, ∀ o < 8, isoPrevOk pf f o = true := by decide +kernel

/-- the 1030 bit mask: number of weeks against year length and start weekday, and the calendar
rule (53 weeks iff 31 December of the previous year is a Wednesday, or a Tuesday in a leap year) -/
theorem nisoweeks_fin : ∀ f < 16, f % 8 ≠ 0 →
    7 * YearFlags.nisoweeks f + 3 ≤ YearFlags.ndays f + YearFlags.isoweek_delta f ∧
    YearFlags.ndays f + YearFlags.isoweek_delta f < 7 * (YearFlags.nisoweeks f + 1) + 3 ∧
    3 ≤ YearFlags.isoweek_delta f ∧ YearFlags.isoweek_delta f ≤ 9 ∧
    365 ≤ YearFlags.ndays f ∧ YearFlags.ndays f ≤ 366 ∧
    YearFlags.nisoweeks f = (if f % 8 = 2 ∨ (f / 8 = 0 ∧ f % 8 = 1) then 53 else 52) := by
  decide +kernel

end Chrono.Proofs
