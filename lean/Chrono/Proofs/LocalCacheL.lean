/-
  Helper lemmas for C18: the model of zone selection equals the specification; the cache invariant
  over histories.  Core Lean only.
-/
import Chrono.Spec.LocalCacheSpec
namespace Chrono.Proofs.LocalCache
open Chrono.M.LocalCache Chrono.Spec.LocalCache Chrono.Extracted.LocalCache

/-! ### selection -/

theorem dirs_eq : ZONE_INFO_DIRECTORIES = zoneinfoDirs := by decide
theorem tzdb_eq : TZDB_LOCATION = usrShareZoneinfo := by decide
theorem ltname_eq : LOCALTIME_NAME = localtimeWord := by decide
theorem ltpath_eq : LOCALTIME_PATH = etcLocaltime := by decide
theorem unset_eq : UNSET_NAME = localtimeWord := by decide
theorem prefix_eq : FILE_PREFIX = colon := by decide

theorem opens_eq (W : World) (p : Bytes) : opens W p = exists_ W p := by
  unfold opens exists_
  cases h : W.fs p <;> simp

theorem from_file_eq (W : World) (p : Bytes) : from_file W p = zoneIn W p := rfl

theorem trim_eq (s : Bytes) : trim s = trimmed s := rfl

theorem find_in_dirs_eq (W : World) (ds : List Bytes) (p : Bytes) :
    find_in_dirs W ds p = (ds.map (fun d => d ++ slash :: p)).find? (exists_ W) := by
  induction ds with
  | nil => rfl
  | cons d ds ih =>
    simp only [find_in_dirs, List.map_cons, List.find?_cons, opens_eq, join, slash]
    cases h : exists_ W (d ++ 47 :: p)
    · simpa [slash] using ih
    · simp

theorem find_tz_file_eq (W : World) (p : Bytes) : find_tz_file W p = fileNamed W p := by
  unfold find_tz_file fileNamed candidates is_absolute
  by_cases h : p.head? = some slash
  · have h' : (p.head? == some 47) = true := by simpa [slash] using h
    rw [if_pos h', if_pos h, opens_eq]
    cases hx : exists_ W p <;> simp [hx]
  · have h' : ¬ (p.head? == some 47) = true := by simpa [slash] using h
    rw [if_neg h', if_neg h, find_in_dirs_eq, dirs_eq]

theorem named_cons (W : World) (c : Nat) (rest : Bytes) :
    named W (some (c :: rest)) =
      if c :: rest = localtimeWord then zoneIn W etcLocaltime
      else if c = colon then (fileNamed W rest).bind (zoneIn W)
      else match fileNamed W (c :: rest) with
        | some p => zoneIn W p
        | none => (W.rule (trimmed (c :: rest))).map (Zone.rule (trimmed (c :: rest))) := rfl

theorem from_posix_tz_eq (W : World) (tz : Bytes) : from_posix_tz W tz = named W (some tz) := by
  match tz with
  | [] => rfl
  | c :: rest =>
    rw [named_cons]
    unfold from_posix_tz
    rw [if_neg (List.cons_ne_nil c rest), ltname_eq, ltpath_eq, prefix_eq]
    by_cases h1 : c :: rest = localtimeWord
    · rw [if_pos h1, if_pos h1]; rfl
    · rw [if_neg h1, if_neg h1]
      by_cases h2 : c = colon
      · have h2' : (c :: rest).head? = some colon := by simp [h2]
        rw [if_pos h2', if_pos h2]
        simp only [List.tail_cons, find_tz_file_eq]
        cases fileNamed W rest <;> rfl
      · have h2' : ¬ (c :: rest).head? = some colon := by simpa using h2
        rw [if_neg h2', if_neg h2]
        simp only [find_tz_file_eq, trim_eq]
        cases fileNamed W (c :: rest) with
        | some p => rfl
        | none =>
          simp only
          cases W.rule (trimmed (c :: rest)) <;> rfl

theorem local_eq (W : World) (e : Option Bytes) : TimeZone.local W e = named W e := by
  cases e with
  | some tz => exact from_posix_tz_eq W tz
  | none =>
    show from_posix_tz W UNSET_NAME = zoneIn W etcLocaltime
    rw [from_posix_tz_eq, unset_eq]
    rfl

theorem fallback_eq (W : World) : fallback_timezone W = systemZone W := by
  unfold fallback_timezone systemZone
  rw [tzdb_eq]
  cases W.sysName <;> rfl

theorem current_zone_eq (W : World) (e : Option Bytes) : current_zone W e = zoneFor W e := by
  unfold current_zone zoneFor
  rw [local_eq, fallback_eq]
  cases named W e with
  | some z => rfl
  | none => cases systemZone W <;> rfl

/-! ### the refresh decision -/

theorem within_window_iff (last now : Nat) :
    within_window last now = true ↔ last ≤ now ∧ now - last < ONE_SECOND := by
  have h1 : REUSE_STRICT = true := rfl
  have h2 : REUSE_SECS = 1 := rfl
  have h3 : NANOS = 1000000000 := rfl
  have h4 : ONE_SECOND = 1000000000 := rfl
  unfold within_window
  rw [h1, h2, h3, h4]
  simp only [if_true, Bool.and_eq_true, decide_eq_true_eq]
  omega

theorem within_window_self (n : Nat) : within_window n n = true := by
  rw [within_window_iff]; exact ⟨Nat.le_refl n, by simp [ONE_SECOND]⟩

/-- two sources that do not look out of date against each other come from the same value of TZ
(the source holds the text itself: no assumption on any hash) -/
theorem not_out_of_date (W : World) (l n : Nat) (e' e : Option Bytes)
    (h : out_of_date (Source.new W l e') (Source.new W n e) = false) : e' = e := by
  cases e' with
  | none =>
    cases e with
    | none => rfl
    | some b =>
      exfalso
      unfold Source.new at h
      cases hm : W.ltMtime <;> simp [hm, out_of_date] at h
  | some a =>
    cases e with
    | none =>
      exfalso
      unfold Source.new at h
      cases hm : W.ltMtime <;> simp [hm, out_of_date] at h
    | some b =>
      simp [Source.new, out_of_date] at h
      rw [h]

/-- what is known about a cache: it was filled under some value `e'` of TZ (a member of `S`);
and either that is still the current value, or the cache was last checked before the ghost time
`g` (= 1 + clock at the last change of TZ; 0 if TZ never changed) -/
def CacheOK (W : World) (S : List Bytes) (cur : Option Bytes) (g : Nat) (c : Cache) : Prop :=
  ∃ e' : Option Bytes, (∀ a, e' = some a → a ∈ S) ∧ c.source = Source.new W c.last_checked e' ∧
    c.zone = current_zone W e' ∧ (e' = cur ∨ c.last_checked < g)

theorem default_ok (W : World) (S : List Bytes) (env : EnvVal) (g now : Nat)
    (hcur : ∀ a, env_var env = some a → a ∈ S) :
    CacheOK W S (env_var env) g (Cache.default W now env) :=
  ⟨env_var env, hcur, rfl, rfl, Or.inl rfl⟩

/-- one cache lookup: the invariant is kept, and the zone is the current one as soon as a second
has passed since the last change -/
theorem offset_ok (W : World) (S : List Bytes) (env : EnvVal) (g now : Nat) (c : Cache)
    (hcur : ∀ a, env_var env = some a → a ∈ S) (hc : CacheOK W S (env_var env) g c) :
    CacheOK W S (env_var env) g (Cache.offset W c now env).1 ∧
    ((Cache.offset W c now env).1.last_checked = c.last_checked ∨ (Cache.offset W c now env).1.last_checked = now) ∧
    ((g = 0 ∨ g + ONE_SECOND ≤ now + 1) → (Cache.offset W c now env).1.zone = current_zone W (env_var env)) := by
  obtain ⟨e', hS, hsrc, hzone, hfresh⟩ := hc
  unfold Cache.offset
  by_cases hw : within_window c.last_checked now = true
  · rw [if_pos hw]
    refine ⟨⟨e', hS, hsrc, hzone, hfresh⟩, Or.inl rfl, ?_⟩
    intro hg
    rcases hfresh with h | h
    · rw [hzone, h]
    · exfalso
      rw [within_window_iff] at hw
      omega
  · rw [if_neg hw]
    by_cases ho : out_of_date c.source (Source.new W now (env_var env)) = true
    · dsimp only
      rw [if_pos ho]
      exact ⟨⟨env_var env, hcur, rfl, rfl, Or.inl rfl⟩, Or.inr rfl, fun _ => rfl⟩
    · have ho' : out_of_date c.source (Source.new W now (env_var env)) = false := by
        cases h : out_of_date c.source (Source.new W now (env_var env)) <;> simp_all
      have hee : e' = env_var env := by
        rw [hsrc] at ho'
        exact not_out_of_date W _ _ _ _ ho'
      dsimp only
      rw [if_neg ho]
      refine ⟨⟨env_var env, hcur, rfl, ?_, Or.inl rfl⟩, Or.inr rfl, fun _ => ?_⟩
      · show c.zone = _; rw [hzone, hee]
      · show c.zone = _; rw [hzone, hee]

/-! ### the invariant over histories -/

def Inv (W : World) (S : List Bytes) (s : State) (g : Nat) : Prop :=
  (∀ a, env_var s.env = some a → a ∈ S) ∧
  ∀ t c, s.caches t = some c → c.last_checked ≤ s.clock ∧ CacheOK W S (env_var s.env) g c

/-- ghost time: 0 until TZ changes, then 1 + the clock at the last change -/
def ghost (s : State) (g : Nat) (x : Step) : Nat := if isChange x then s.clock + 1 else g

def StepIn (S : List Bytes) : Step → Prop
  | .setTZ v => v ∈ S
  | _ => True

def zoneOfStep (r : State × Option (Zone × Decision)) : Option Zone := r.2.map Prod.fst

theorem stale_ok {W : World} {S : List Bytes} {cur cur' : Option Bytes} {g clock : Nat} {c : Cache}
    (h : CacheOK W S cur g c) (hl : c.last_checked ≤ clock) : CacheOK W S cur' (clock + 1) c := by
  obtain ⟨e', hS, hsrc, hz, _⟩ := h
  exact ⟨e', hS, hsrc, hz, Or.inr (by omega)⟩

theorem inner_offset_ok (W : World) (S : List Bytes) (s : State) (g t : Nat)
    (hI : Inv W S s g) :
    Inv W S (inner_offset W s t).1 g ∧ (inner_offset W s t).1.clock = s.clock ∧
    (inner_offset W s t).1.env = s.env ∧
    ((g = 0 ∨ g + ONE_SECOND ≤ s.clock + 1) → (inner_offset W s t).2.1 = current_zone W (env_var s.env)) := by
  obtain ⟨henv, hcs⟩ := hI
  unfold inner_offset
  cases hc : s.caches t with
  | some c =>
    dsimp only
    obtain ⟨hl, hok⟩ := hcs t c hc
    obtain ⟨h1, h2, h3⟩ := offset_ok W S s.env g s.clock c henv hok
    refine ⟨⟨henv, ?_⟩, rfl, rfl, h3⟩
    intro t' c' hc'
    unfold update at hc'
    dsimp only at hc'
    by_cases ht : t' = t
    · rw [if_pos ht] at hc'
      injection hc' with hc'
      subst hc'
      refine ⟨?_, h1⟩
      show (Cache.offset W c s.clock s.env).1.last_checked ≤ s.clock
      rcases h2 with h | h <;> omega
    · rw [if_neg ht] at hc'
      exact hcs t' c' hc'
  | none =>
    dsimp only
    have hok := default_ok W S s.env g s.clock henv
    obtain ⟨h1, h2, h3⟩ := offset_ok W S s.env g s.clock (Cache.default W s.clock s.env) henv hok
    refine ⟨⟨henv, ?_⟩, rfl, rfl, h3⟩
    intro t' c' hc'
    unfold update at hc'
    dsimp only at hc'
    by_cases ht : t' = t
    · rw [if_pos ht] at hc'
      injection hc' with hc'
      subst hc'
      refine ⟨?_, h1⟩
      have : (Cache.default W s.clock s.env).last_checked = s.clock := rfl
      show (Cache.offset W (Cache.default W s.clock s.env) s.clock s.env).1.last_checked ≤ s.clock
      rcases h2 with h | h <;> omega
    · rw [if_neg ht] at hc'
      exact hcs t' c' hc'

theorem step_ok (W : World) (S : List Bytes) (s : State) (g : Nat) (x : Step)
    (hI : Inv W S s g) (hx : StepIn S x) : Inv W S (step W s x).1 (ghost s g x) := by
  obtain ⟨henv, hcs⟩ := hI
  cases x with
  | setTZ v =>
    refine ⟨?_, ?_⟩
    · intro a ha
      have : v = a := by simpa [step, env_var] using ha
      subst this; exact hx
    · intro t c hc
      obtain ⟨hl, hok⟩ := hcs t c hc
      exact ⟨hl, stale_ok hok hl⟩
  | setNotUnicode =>
    refine ⟨?_, ?_⟩
    · intro a ha; simp [step, env_var] at ha
    · intro t c hc
      obtain ⟨hl, hok⟩ := hcs t c hc
      exact ⟨hl, stale_ok hok hl⟩
  | unsetTZ =>
    refine ⟨?_, ?_⟩
    · intro a ha; simp [step, env_var] at ha
    · intro t c hc
      obtain ⟨hl, hok⟩ := hcs t c hc
      exact ⟨hl, stale_ok hok hl⟩
  | advance n =>
    refine ⟨henv, ?_⟩
    intro t c hc
    obtain ⟨hl, hok⟩ := hcs t c hc
    exact ⟨Nat.le_trans hl (Nat.le_add_right _ _), hok⟩
  | convert t l => exact (inner_offset_ok W S s g t ⟨henv, hcs⟩).1
  | spawn t =>
    refine ⟨henv, ?_⟩
    intro t' c hc
    have hc' : update s.caches t none t' = some c := hc
    unfold update at hc'
    by_cases ht : t' = t
    · rw [if_pos ht] at hc'; cases hc'
    · rw [if_neg ht] at hc'; exact hcs t' c hc'

def ghostRun (W : World) : State → Nat → List Step → Nat
  | _, g, [] => g
  | s, g, x :: xs => ghostRun W (step W s x).1 (ghost s g x) xs

theorem exec_ok (W : World) (S : List Bytes) (h : List Step) :
    ∀ (s : State) (g : Nat), Inv W S s g → (∀ x ∈ h, StepIn S x) →
      Inv W S (exec W s h) (ghostRun W s g h) := by
  induction h with
  | nil => intro s g hI _; exact hI
  | cons x xs ih =>
    intro s g hI hx
    exact ih _ _ (step_ok W S s g x hI (hx x (List.mem_cons_self ..)))
      (fun y hy => hx y (List.mem_cons_of_mem _ hy))

theorem exec_append (W : World) (a b : List Step) : ∀ s, exec W s (a ++ b) = exec W (exec W s a) b := by
  induction a with
  | nil => intro s; rfl
  | cons x xs ih => intro s; exact ih _

theorem ghostRun_append (W : World) (a b : List Step) :
    ∀ s g, ghostRun W s g (a ++ b) = ghostRun W (exec W s a) (ghostRun W s g a) b := by
  induction a with
  | nil => intro s g; rfl
  | cons x xs ih => intro s g; exact ih _ _

theorem step_clock_env (W : World) (s : State) (x : Step) :
    (step W s x).1.env = envAfter s.env [x] ∧
    (step W s x).1.clock = s.clock + elapsed [x] := by
  cases x <;> simp [step, envAfter, elapsed, inner_offset]
  all_goals (cases s.caches _ <;> simp)

theorem envAfter_cons (e : EnvVal) (x : Step) (xs : List Step) :
    envAfter e (x :: xs) = envAfter (envAfter e [x]) xs := by
  cases x <;> rfl

theorem elapsed_cons (x : Step) (xs : List Step) : elapsed (x :: xs) = elapsed [x] + elapsed xs := by
  cases x <;> simp [elapsed]

theorem exec_clock_env (W : World) (h : List Step) :
    ∀ s, (exec W s h).env = envAfter s.env h ∧ (exec W s h).clock = s.clock + elapsed h := by
  induction h with
  | nil => intro s; exact ⟨rfl, rfl⟩
  | cons x xs ih =>
    intro s
    obtain ⟨h1, h2⟩ := ih (step W s x).1
    obtain ⟨h3, h4⟩ := step_clock_env W s x
    refine ⟨?_, ?_⟩
    · show (exec W (step W s x).1 xs).env = _
      rw [h1, h3, ← envAfter_cons]
    · show (exec W (step W s x).1 xs).clock = _
      rw [h2, h4]; have := elapsed_cons x xs; omega

theorem ghostRun_nochange (W : World) (h : List Step) (hno : ∀ x ∈ h, isChange x = false) :
    ∀ s g, ghostRun W s g h = g := by
  induction h with
  | nil => intro s g; rfl
  | cons x xs ih =>
    intro s g
    show ghostRun W (step W s x).1 (ghost s g x) xs = g
    have hx : isChange x = false := hno x (List.mem_cons_self ..)
    rw [ih (fun y hy => hno y (List.mem_cons_of_mem _ hy))]
    unfold ghost; rw [hx]; rfl

theorem elapsed_change (x : Step) (h : isChange x = true) : elapsed [x] = 0 := by
  cases x <;> simp [isChange] at h <;> rfl

theorem mem_valuesOf (e : EnvVal) (h : List Step) (v : Bytes) (hv : Step.setTZ v ∈ h) : v ∈ valuesOf e h := by
  unfold valuesOf
  apply List.mem_append_right
  rw [List.mem_filterMap]
  exact ⟨_, hv, rfl⟩

theorem stepIn_valuesOf (e : EnvVal) (h : List Step) : ∀ x ∈ h, StepIn (valuesOf e h) x := by
  intro x hx
  cases x with
  | setTZ v => exact mem_valuesOf e h v hx
  | _ => trivial

theorem init_ok (W : World) (e : EnvVal) (k : Nat) (h : List Step) : Inv W (valuesOf e h) (init e k) 0 := by
  refine ⟨?_, ?_⟩
  · intro a ha
    unfold valuesOf
    apply List.mem_append_left
    cases e <;> simp [init, env_var, envValue] at ha ⊢
    exact ha.symm
  · intro t c hc; simp [init] at hc

/-- the conversion after a history: correct as soon as TZ never changed or changed ≥ 1 s ago -/
theorem convert_ok (W : World) (S : List Bytes) (s : State) (g t : Nat) (l : Bool)
    (hI : Inv W S s g) (hg : g = 0 ∨ g + ONE_SECOND ≤ s.clock + 1) :
    zoneOfStep (step W s (.convert t l)) = some (zoneFor W (env_var s.env)) := by
  have h := (inner_offset_ok W S s g t hI).2.2.2 hg
  unfold zoneOfStep step
  simp only [Option.map_some]
  rw [h, current_zone_eq]

theorem honoured_after_1s' (W : World) (e0 : EnvVal) (k0 : Nat) (p1 p2 : List Step) (chg : Step)
    (hchg : isChange chg = true) (hno : ∀ x ∈ p2, isChange x = false)
    (hwait : ONE_SECOND ≤ elapsed p2)
    (t : Nat) (l : Bool) :
    zoneOfStep (step W (exec W (init e0 k0) (p1 ++ chg :: p2)) (.convert t l)) =
      some (zoneFor W (env_var (envAfter e0 (p1 ++ chg :: p2)))) := by
  let S := valuesOf e0 (p1 ++ chg :: p2)
  have hI := exec_ok W S (p1 ++ chg :: p2) (init e0 k0) 0 (init_ok W e0 k0 _) (stepIn_valuesOf e0 _)
  have henv := (exec_clock_env W (p1 ++ chg :: p2) (init e0 k0)).1
  have henv' : (exec W (init e0 k0) (p1 ++ chg :: p2)).env = envAfter e0 (p1 ++ chg :: p2) := henv
  rw [← henv']
  refine convert_ok W S _ _ t l hI (Or.inr ?_)
  -- the ghost time is 1 + the clock at `chg`; the clock has advanced by `elapsed p2` since
  rw [ghostRun_append]
  show ghostRun W (step W (exec W (init e0 k0) p1) chg).1 (ghost (exec W (init e0 k0) p1) _ chg) p2 + ONE_SECOND ≤ _
  rw [ghostRun_nochange W p2 hno]
  unfold ghost
  rw [hchg, if_pos rfl, exec_append]
  show _ ≤ (exec W (step W (exec W (init e0 k0) p1) chg).1 p2).clock + 1
  rw [(exec_clock_env W p2 _).2, (step_clock_env W _ chg).2, elapsed_change chg hchg]
  omega

theorem honoured_without_change' (W : World) (e0 : EnvVal) (k0 : Nat) (h : List Step)
    (hno : ∀ x ∈ h, isChange x = false) (t : Nat) (l : Bool) :
    zoneOfStep (step W (exec W (init e0 k0) h) (.convert t l)) = some (zoneFor W (env_var e0)) := by
  have hI := exec_ok W _ h (init e0 k0) 0 (init_ok W e0 k0 _) (stepIn_valuesOf e0 _)
  rw [ghostRun_nochange W h hno] at hI
  have henv : (exec W (init e0 k0) h).env = envAfter e0 h := (exec_clock_env W h (init e0 k0)).1
  have hsame : envAfter e0 h = e0 := by
    clear hI henv
    induction h generalizing e0 with
    | nil => rfl
    | cons x xs ih =>
      have hx : isChange x = false := hno x (List.mem_cons_self ..)
      have := ih e0 (fun y hy => hno y (List.mem_cons_of_mem _ hy))
      cases x <;> simp [isChange] at hx <;> simpa [envAfter] using this
  have := convert_ok W _ _ 0 t l hI (Or.inl rfl)
  rw [henv, hsame] at this
  exact this

/-! ### new threads -/

theorem inner_offset_caches (W : World) (s : State) (t : Nat) :
    ∃ c : Cache, (inner_offset W s t).1.caches = update s.caches t (some c) ∧
      (inner_offset W s t).2.1 = c.zone := by
  unfold inner_offset
  split <;> exact ⟨_, rfl, rfl⟩

theorem convert_fresh (W : World) (s : State) (t : Nat) (l : Bool) (hnone : s.caches t = none) :
    (step W s (.convert t l)).2 = some (zoneFor W (env_var s.env), .created) := by
  unfold step inner_offset
  simp only [hnone]
  have hw : within_window (Cache.default W s.clock s.env).last_checked s.clock = true := within_window_self _
  unfold Cache.offset
  rw [if_pos hw, ← current_zone_eq]
  rfl

theorem step_keeps_none (W : World) (s : State) (t : Nat) (x : Step)
    (hx : noConvertOn t [x] = true) (hnone : s.caches t = none) : (step W s x).1.caches t = none := by
  cases x with
  | convert t' l =>
    have ht : t ≠ t' := by
      intro h; subst h; simp [noConvertOn] at hx
    obtain ⟨c, hc, _⟩ := inner_offset_caches W s t'
    show (inner_offset W s t').1.caches t = none
    rw [hc]
    simp [update, ht, hnone]
  | spawn t' =>
    unfold step update
    by_cases h : t = t' <;> simp [h, hnone]
  | _ => exact hnone

theorem exec_keeps_none (W : World) (t : Nat) (h : List Step) :
    ∀ s, noConvertOn t h = true → s.caches t = none → (exec W s h).caches t = none := by
  induction h with
  | nil => intro s _ hn; exact hn
  | cons x xs ih =>
    intro s hx hn
    have h1 : noConvertOn t [x] = true ∧ noConvertOn t xs = true := by
      cases x <;> simp_all [noConvertOn]
    exact ih _ h1.2 (step_keeps_none W s t x h1.1 hn)

theorem new_thread_immediate' (W : World) (s0 : State) (pre mid : List Step) (t : Nat) (l : Bool)
    (hmid : noConvertOn t mid = true) :
    (step W (exec W s0 (pre ++ .spawn t :: mid)) (.convert t l)).2 =
      some (zoneFor W (env_var (exec W s0 (pre ++ .spawn t :: mid)).env), .created) := by
  apply convert_fresh
  rw [exec_append]
  show (exec W (step W (exec W s0 pre) (.spawn t)).1 mid).caches t = none
  apply exec_keeps_none W t mid _ hmid
  simp [step, update]

/-! ### one zone per conversion -/

theorem one_zone' {β : Type} (L : Lookups β) (W : World) (s : State) (t : Nat) (d : Int) :
    ∃ z : Zone,
      (Local.offset_from_utc_datetime L W s t d).2 = L.utc z d ∧
      (Local.offset_from_local_datetime L W s t d).2 = L.loc z d ∧
      ((Local.offset_from_utc_datetime L W s t d).1.caches t).map Cache.zone = some z ∧
      ((Local.offset_from_local_datetime L W s t d).1.caches t).map Cache.zone = some z ∧
      zoneOfStep (step W s (.convert t false)) = some z ∧ zoneOfStep (step W s (.convert t true)) = some z := by
  obtain ⟨c, hc, hz⟩ := inner_offset_caches W s t
  have hcache : ((inner_offset W s t).1.caches t).map Cache.zone = some (inner_offset W s t).2.1 := by
    rw [hc, hz]; simp [update]
  exact ⟨(inner_offset W s t).2.1, rfl, rfl, hcache, hcache, rfl, rfl⟩

/-! ### the selection table, row by row -/

theorem row_colon_abs (W : World) (p : Bytes) :
    TimeZone.local W (some (colon :: slash :: p)) =
      if exists_ W (slash :: p) = true then zoneIn W (slash :: p) else none := by
  rw [local_eq, named_cons]
  have h1 : ¬ (colon :: slash :: p = localtimeWord) := by simp [colon, localtimeWord]
  rw [if_neg h1, if_pos rfl]
  unfold fileNamed candidates
  rw [if_pos (by simp)]
  simp only [List.find?_cons, List.find?_nil]
  cases exists_ W (slash :: p) <;> simp

theorem row_colon_rel (W : World) (n : Bytes) (hn : n.head? ≠ some slash) :
    TimeZone.local W (some (colon :: n)) =
      ((zoneinfoDirs.map (fun d => d ++ slash :: n)).find? (exists_ W)).bind (zoneIn W) := by
  rw [local_eq, named_cons]
  have h1 : ¬ (colon :: n = localtimeWord) := by simp [colon, localtimeWord]
  rw [if_neg h1, if_pos rfl]
  unfold fileNamed candidates
  rw [if_neg hn]

theorem row_plain_file (W : World) (tz p : Bytes) (h0 : tz ≠ []) (h1 : tz ≠ localtimeWord)
    (h2 : tz.head? ≠ some colon) (hf : fileNamed W tz = some p) :
    TimeZone.local W (some tz) = zoneIn W p := by
  match tz, h0 with
  | c :: rest, _ =>
    rw [local_eq, named_cons, if_neg h1, if_neg (by simpa using h2), hf]

theorem row_plain_rule (W : World) (tz : Bytes) (h0 : tz ≠ []) (h1 : tz ≠ localtimeWord)
    (h2 : tz.head? ≠ some colon) (hf : fileNamed W tz = none) :
    TimeZone.local W (some tz) = (W.rule (trimmed tz)).map (Zone.rule (trimmed tz)) := by
  match tz, h0 with
  | c :: rest, _ =>
    rw [local_eq, named_cons, if_neg h1, if_neg (by simpa using h2), hf]

theorem row_fallback (W : World) (e : Option Bytes) :
    (∀ z, TimeZone.local W e = some z → current_zone W e = z) ∧
    (TimeZone.local W e = none → current_zone W e = (systemZone W).getD .utc) := by
  refine ⟨fun z h => ?_, fun h => ?_⟩
  · unfold current_zone; rw [h]
  · unfold current_zone; rw [h, fallback_eq]; cases systemZone W <;> rfl
