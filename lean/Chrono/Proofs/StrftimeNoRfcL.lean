/-
  C12, round 3: `StrftimeItems` never yields the RFC 2822 item (`Fixed::RFC2822` is only produced by
  `to_rfc2822`), proved from the model of `parse_next_item` for EVERY format string, strict and
  lenient — the hypothesis `hf` of `entry_points_ok` holds for arbitrary strings.
  Namespace `Chrono.Proofs.StrftimeNoRfc`.
-/
import Chrono.Proofs.StrftimeL
namespace Chrono.Proofs.StrftimeNoRfc
open Chrono Chrono.M Chrono.M.Strftime

/-- the item is not the RFC 2822 item -/
def okB : Item → Bool
  | .fixed .rfc2822 => false
  | _ => true

theorem okB_iff (it : Item) : okB it = true ↔ it ≠ .fixed .rfc2822 := by
  constructor
  · intro h he; rw [he] at h; cases h
  · intro h
    cases it with
    | fixed f => cases f <;> first | rfl | exact absurd rfl h
    | _ => rfl

theorem error_ok (l : Bool) (orig : List Nat) (el : Nat) (ch : Option Nat) : okB (error l orig el ch).2.1 = true := by
  cases l <;> rfl

theorem specTable_ok (c : Nat) (it : Item) (q : List Item) (h : specTable c = some (it, q)) :
    okB it = true ∧ q.all okB = true := by
  unfold specTable at h
  split at h <;> first
    | (simp only [Option.some.injEq, Prod.mk.injEq] at h; obtain ⟨rfl, rfl⟩ := h; decide)
    | (simp only [fromSlice, T_FMT, D_T_FMT, T_FMT_AMPM, D_FMT, Option.some.injEq, Prod.mk.injEq] at h
       obtain ⟨rfl, rfl⟩ := h; decide)
    | (cases h)

def Arm.good : Arm → Prop
  | .item it _ q _ => okB it = true ∧ q.all okB = true
  | .ret _ it => okB it = true

theorem fracArm_ok (l : Bool) (orig rem : List Nat) (el : Nat) (ok : Item) (hok : okB ok = true) :
    Arm.good (fracArm l orig rem el ok) := by
  unfold fracArm
  cases hn : nextCh rem with
  | none => exact error_ok l orig el none
  | some x =>
    obtain ⟨c, n, rem'⟩ := x
    dsimp only
    split
    · exact ⟨hok, rfl⟩
    · exact ⟨error_ok _ _ _ _, rfl⟩

theorem specArm_ok (l : Bool) (orig rem : List Nat) (el : Nat) (alt : Bool) (c n : Nat) :
    Arm.good (specArm l orig rem el alt c n) := by
  unfold specArm
  split
  · exact ⟨by unfold zItem; split <;> rfl, rfl⟩
  split
  · split
    · exact ⟨rfl, rfl⟩
    · split
      · exact ⟨rfl, rfl⟩
      · split
        · exact ⟨rfl, rfl⟩
        · exact ⟨error_ok _ _ _ _, rfl⟩
  split
  · cases hn : nextCh rem with
    | none => exact error_ok l orig el none
    | some x =>
      obtain ⟨c1, n1, rem1⟩ := x
      dsimp only
      split
      · exact fracArm_ok _ _ _ _ _ rfl
      · split
        · exact fracArm_ok _ _ _ _ _ rfl
        · split
          · exact fracArm_ok _ _ _ _ _ rfl
          · split
            · exact ⟨rfl, rfl⟩
            · exact ⟨error_ok _ _ _ _, rfl⟩
  split
  · exact fracArm_ok _ _ _ _ _ rfl
  split
  · exact fracArm_ok _ _ _ _ _ rfl
  split
  · exact fracArm_ok _ _ _ _ _ rfl
  cases hs : specTable c with
  | some x =>
    obtain ⟨it, q⟩ := x
    exact specTable_ok c it q hs
  | none => exact ⟨error_ok _ _ _ _, rfl⟩

/-- one `parse_next_item` call, either mode, any input: neither the item nor the queue it installs
contains the RFC 2822 item -/
theorem parse_next_item_ok (l : Bool) (s : List Nat) (r : List Nat × Item × List Item)
    (h : parse_next_item l s = some r) : okB r.2.1 = true ∧ r.2.2.all okB = true := by
  cases s with
  | nil => simp [parse_next_item] at h
  | cons b rest =>
    by_cases hb : b = 37
    · subst hb
      unfold parse_next_item at h
      simp only at h
      cases hn : nextCh rest with
      | none =>
        rw [hn] at h
        simp only [Option.some.injEq] at h
        subst h
        exact ⟨error_ok _ _ _ _, rfl⟩
      | some x =>
        obtain ⟨c0, n0, r1⟩ := x
        rw [hn] at h
        dsimp only at h
        generalize (if l = true then (if l = true then 1 else 0) + n0 else if l = true then 1 else 0) = el1 at h
        generalize hsec : (if ((padOf c0).isSome || c0 == 35) = true then _ else _ :
          Option (Option (Nat × Nat × List Nat × Nat))) = sec at h
        rcases sec with _ | _ | ⟨c, n, rem, el⟩
        · simp only [Option.some.injEq] at h; subst h; exact ⟨error_ok _ _ _ _, rfl⟩
        · simp only [Option.some.injEq] at h; subst h; exact ⟨error_ok _ _ _ _, rfl⟩
        · dsimp only at h
          split at h
          · simp only [Option.some.injEq] at h; subst h; exact ⟨error_ok _ _ _ _, rfl⟩
          · have hg := specArm_ok l (37 :: rest) rem el (c0 == 35) c n
            cases ha : specArm l (37 :: rest) rem el (c0 == 35) c n with
            | ret rem' it =>
              rw [ha] at h hg
              simp only [Option.some.injEq] at h
              subst h
              exact ⟨hg, rfl⟩
            | item it rem' queue el' =>
              rw [ha] at h hg
              obtain ⟨q2, q3⟩ := hg
              dsimp only at h
              cases hp : padOf c0 with
              | none =>
                rw [hp] at h
                simp only [Option.some.injEq] at h
                subst h
                exact ⟨q2, q3⟩
              | some np =>
                rw [hp] at h
                dsimp only at h
                split at h
                · split at h
                  · simp only [Option.some.injEq] at h
                    subst h
                    exact ⟨rfl, rfl⟩
                  · simp only [Option.some.injEq] at h
                    subst h
                    exact ⟨error_ok _ _ _ _, q3⟩
                · simp only [Option.some.injEq] at h
                  subst h
                  exact ⟨error_ok _ _ _ _, q3⟩
    · obtain ⟨n, _, it, hit, hp⟩ := FormatL.parse_next_item_text l b rest hb
      rw [hp] at h
      simp only [Option.some.injEq] at h
      subst h
      rcases hit with rfl | rfl <;> exact ⟨rfl, rfl⟩

theorem itemsAux_ok (l : Bool) : ∀ (fuel : Nat) (s : List Nat), (itemsAux l fuel s).all okB = true := by
  intro fuel
  induction fuel with
  | zero => intro s; rfl
  | succ f ih =>
    intro s
    rw [itemsAux]
    cases hp : parse_next_item l s with
    | none => rfl
    | some r =>
      obtain ⟨rem, it, q⟩ := r
      obtain ⟨h1, h2⟩ := parse_next_item_ok l s _ hp
      dsimp only at h1 h2 ⊢
      rw [List.all_cons, List.all_append, h1, h2, ih rem]
      rfl

/-- **`StrftimeItems` never yields `Fixed::RFC2822`**, for any format string, in either mode -/
theorem no_rfc2822 (l : Bool) (fuel : Nat) (s : List Nat) : Item.fixed .rfc2822 ∉ itemsAux l fuel s := by
  intro hm
  have := List.all_eq_true.mp (itemsAux_ok l fuel s) _ hm
  cases this

end Chrono.Proofs.StrftimeNoRfc
