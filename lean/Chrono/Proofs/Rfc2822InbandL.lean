/-
  Helper lemmas for C11, part 6: the complementary case of `fieldsOf_facts` — a value carrying the
  leap-second representation (nanosecond field ≥ 10⁹) on a second OTHER than :59 of a minute (only
  `with_nanosecond` builds it).  The writer shows `second + 1` (≤ 59), so the text denotes the
  following whole second; that second lies on the same UTC day, hence always inside the range.
-/
import Chrono.Proofs.Rfc2822WriteL
namespace Chrono.Proofs.Rfc2822
open Chrono Chrono.M Chrono.Spec Chrono.Spec.Rfc2822 Chrono.Extracted Chrono.M.Format

/-- the following whole second of an in-band leap value is a well-formed value on the same UTC day,
one second later -/
theorem nextSec_facts (z : Zoned) (hz : ZInv z) (hl : InbandLeap z) :
    ZInv (nextSec z) ∧ instSecs (nextSec z).utc = instSecs z.utc + 1 ∧ (nextSec z).utc.time.frac = 0 ∧
    (nextSec z).off = z.off ∧ TStrict (nextSec z).utc.time := by
  obtain ⟨⟨hdi, t0, t1, f0, f1⟩, ho⟩ := hz
  obtain ⟨l1, l2⟩ := hl
  have hs : z.utc.time.secs + 1 < 86400 := by omega
  refine ⟨⟨⟨hdi, ?_, ?_, ?_, ?_⟩, ho⟩, ?_, rfl, rfl, ⟨?_, ?_, ?_, ?_⟩, Or.inl ?_⟩
  all_goals (unfold nextSec; (try unfold instSecs); dsimp only; omega)

/-- the wall-clock fields of a well-formed value with the in-band leap representation on a second
other than :59, wall-clock year 0–9999 and whole-minute offset: showable, valid, and denoting the
FOLLOWING whole second (`nextSec z`) — never out of range, because that second is on the same UTC day -/
theorem fieldsOf_facts_inband (z : Zoned) (hz : ZInv z) (hl : InbandLeap z) (Y : Int) (o : Nat)
    (hw : WallDate z Y o) (hr : 0 ≤ Y ∧ Y ≤ 9999) (hoff : z.off % 60 = 0) :
    StdFields (fieldsOf z Y o) ∧ Valid (fieldsOf z Y o) ∧ Denotes (fieldsOf z Y o) (nextSec z) := by
  obtain ⟨nz, nsecs, nfrac, noff, _⟩ := nextSec_facts z hz hl
  have hnr : InRangeSecs (instSecs (nextSec z).utc) := Ts.instSecs_range (nextSec z).utc nz.1
  obtain ⟨w1, w2, w3⟩ := hw
  obtain ⟨⟨hdi, t0, t1, f0, f1⟩, ho⟩ := hz
  obtain ⟨l1, l2⟩ := hl
  obtain ⟨hm, hd, hval, hord⟩ := month_day_spec Y o w1 w2
  have hmb := valid_bounds Y _ _ hval
  have hvb : 1 ≤ monthOfYo Y o ∧ 1 ≤ dayOfYo Y o := by
    unfold validYmd at hval; simp only [Bool.and_eq_true, decide_eq_true_eq] at hval
    exact ⟨hval.1.1.1, hval.1.2⟩
  have hext := instSecs_ext z.utc ((dateInv_iff _).mp hdi).1
  have hwk0 : 0 ≤ weekdayOf (dayNumYo Y o) ∧ weekdayOf (dayNumYo Y o) < 7 := by unfold weekdayOf; omega
  obtain ⟨wd, hwd1, hwd2⟩ := weekdays_idx (weekdayOf (dayNumYo Y o)).toNat (by omega)
  have hwat : weekdayAt (dayNumYo Y o) = some wd := hwd1
  have hMIN : MIN_YEAR = -262143 := rfl
  have hMAX : MAX_YEAR = 262142 := rfl
  unfold OffValid at ho
  have hsod0 : 0 ≤ wallSecs z % 86400 ∧ wallSecs z % 86400 < 86400 := by omega
  have hsod60 : wallSecs z % 86400 % 60 = z.utc.time.secs % 60 := by unfold wallSecs; omega
  have hwdiv : wallSecs z = wallSecs z / 86400 * 86400 + wallSecs z % 86400 := by omega
  generalize hS : wallSecs z % 86400 = S at *
  have hsec : (S % 60).toNat + (if z.utc.time.frac ≥ 1000000000 then 1 else 0) = (S % 60).toNat + 1 := by
    rw [if_pos l1]
  have hfields : fieldsOf z Y o = ⟨some wd, dayOfYo Y o, monthOfYo Y o, Y, (S / 3600).toNat, (S / 60 % 60).toNat,
      some ((S % 60).toNat + 1), z.off⟩ := by
    unfold fieldsOf wallFields; rw [hwat, hS, hsec]
  rw [hfields]
  have hlocal : localSecs ⟨some wd, dayOfYo Y o, monthOfYo Y o, Y, (S / 3600).toNat, (S / 60 % 60).toNat,
      some ((S % 60).toNat + 1), z.off⟩ = wallSecs z + 1 := by
    unfold localSecs secOf dayNum
    simp only [Option.getD_some, hord]
    rw [w3]
    have h60 : ¬ ((S % 60).toNat + 1 = 60) := by omega
    rw [if_neg h60]
    omega
  have hinst : wallSecs z + 1 - z.off = instSecs (nextSec z).utc := by
    rw [nsecs]; unfold wallSecs; omega
  refine ⟨?_, ?_, ?_⟩
  · exact ⟨⟨wd, rfl⟩, hvb.2, hmb.2, hvb.1, hmb.1, hr.1, hr.2, (by dsimp only; omega), (by dsimp only; omega),
      ⟨_, rfl, by omega⟩, hoff, ho.1, ho.2⟩
  · refine ⟨(by dsimp only; omega), (by dsimp only; omega), hval, ?_, (by dsimp only; omega), (by dsimp only; omega),
      (by unfold secOf; simp only [Option.getD_some]; omega), ho, ?_⟩
    · intro w hw
      cases hw
      unfold dayNum
      simp only [hord]
      omega
    · rw [hlocal, hinst]; exact hnr
  · refine ⟨noff, ?_, ?_, nz⟩
    · rw [hlocal, hinst]
    · rw [nfrac]
      unfold secOf
      simp only [Option.getD_some]
      rw [if_neg (by omega)]

end Chrono.Proofs.Rfc2822
