/-
  C15, byte level, format-string side (strict mode, the mode of `parse_from_str` / `format`): on a
  well-formed UTF-8 format string every `parse_next_item` call slices the remainder after whole
  characters, and every literal it cuts out is well-formed UTF-8 — so the `Item::Literal(&str)`s that
  `StrftimeItems::new(fmt)` yields are `&str`s (the hypothesis `ItemsUtf8` of `parse_internal_bs`).
  Namespace `Chrono.Proofs.StrftimeUtf8`.
-/
import Chrono.Proofs.ScanBoundaryL
import Chrono.Proofs.StrftimeL
namespace Chrono.Proofs.StrftimeUtf8
open Chrono Chrono.M Chrono.M.Strftime Chrono.M.Tz Chrono.Spec.Utf8 Chrono.Proofs.Utf8 Chrono.Proofs.ScanBoundary
open Chrono.Proofs.StrftimeL Chrono.Proofs.FormatL

/-- a literal item holds well-formed UTF-8 -/
def litOkB : Item → Bool
  | .literal l => validUtf8 l
  | _ => true

theorem itemsUtf8_of_all (q : List Item) (h : q.all litOkB = true) : ItemsUtf8 q := by
  intro lit hm
  have := List.all_eq_true.mp h _ hm
  exact this

theorem all_of_itemsUtf8 (q : List Item) (h : ItemsUtf8 q) : q.all litOkB = true := by
  rw [List.all_eq_true]
  intro it hit
  cases it with
  | literal l => exact h l hit
  | _ => rfl

theorem specTable_lit (c : Nat) (it : Item) (q : List Item) (h : specTable c = some (it, q)) :
    litOkB it = true ∧ q.all litOkB = true := by
  unfold specTable at h
  split at h <;> first
    | (simp only [Option.some.injEq, Prod.mk.injEq] at h; obtain ⟨rfl, rfl⟩ := h; decide)
    | (simp only [fromSlice, T_FMT, D_T_FMT, T_FMT_AMPM, D_FMT, Option.some.injEq, Prod.mk.injEq] at h
       obtain ⟨rfl, rfl⟩ := h; decide)
    | (cases h)

theorem nextCh_bs (s : List Nat) (hv : validUtf8 s = true) (c n : Nat) (r : List Nat)
    (h : nextCh s = some (c, n, r)) : BoundarySuffix s r := by
  unfold nextCh at h
  cases s with
  | nil => simp at h
  | cons b rest =>
    simp only [Option.some.injEq, Prod.mk.injEq] at h
    obtain ⟨_, _, rfl⟩ := h
    have := drop_char_bs b rest hv
    have hp := charLen_pos b
    have e : (b :: rest).drop (Scan.charLen b) = rest.drop (Scan.charLen b - 1) := by
      obtain ⟨k, hk⟩ : ∃ k, Scan.charLen b = k + 1 := ⟨Scan.charLen b - 1, by omega⟩
      rw [hk]; simp
    rw [e] at this; exact this

/-- strict mode: `error` ends the iteration with an `Item::Error` -/
theorem error_strict (orig : List Nat) (el : Nat) (ch : Option Nat) : error false orig el ch = ([], .error, el) := rfl

def Arm.good (s : List Nat) : Arm → Prop
  | .item it r q _ => BoundarySuffix s r ∧ litOkB it = true ∧ q.all litOkB = true
  | .ret r it => BoundarySuffix s r ∧ litOkB it = true

theorem bs_nil (s : List Nat) (hv : validUtf8 s = true) : BoundarySuffix s [] := ⟨s, by simp, hv⟩

theorem fracArm_good (s rem : List Nat) (hv : validUtf8 s = true) (hb : BoundarySuffix s rem) (el : Nat) (ok : Item)
    (hok : litOkB ok = true) : Arm.good s (fracArm false s rem el ok) := by
  unfold fracArm
  cases hn : nextCh rem with
  | none => exact ⟨bs_nil s hv, rfl⟩
  | some x =>
    obtain ⟨c, n, rem'⟩ := x
    have b1 := bs_trans hb (nextCh_bs rem (bs_valid_rest hv hb) c n rem' hn)
    dsimp only
    split
    · exact ⟨b1, hok, rfl⟩
    · exact ⟨bs_nil s hv, rfl, rfl⟩

theorem drop_ascii_bs (rem pre : List Nat) (hp : ∀ b ∈ pre, b < 128) (h : startsWith rem pre = true) :
    BoundarySuffix rem (rem.drop pre.length) := by
  unfold startsWith at h
  have ht : rem.take pre.length = pre := by simpa using h
  refine ⟨pre, ?_, valid_ascii pre hp⟩
  conv => lhs; rw [← List.take_append_drop pre.length rem]
  rw [ht]

theorem specArm_good (s rem : List Nat) (hv : validUtf8 s = true) (hb : BoundarySuffix s rem) (el : Nat)
    (alt : Bool) (c n : Nat) : Arm.good s (specArm false s rem el alt c n) := by
  have hfix : ∀ f, litOkB (fixed f) = true := fun _ => rfl
  unfold specArm
  split
  · exact ⟨hb, by unfold zItem; split <;> rfl, rfl⟩
  split
  · split
    · rename_i h; exact ⟨bs_trans hb (drop_ascii_bs rem [58, 58, 122] (by decide) h), rfl, rfl⟩
    · split
      · rename_i h; exact ⟨bs_trans hb (drop_ascii_bs rem [58, 122] (by decide) h), rfl, rfl⟩
      · split
        · rename_i h; exact ⟨bs_trans hb (drop_ascii_bs rem [122] (by decide) h), rfl, rfl⟩
        · exact ⟨hb, rfl, rfl⟩
  split
  · cases hn : nextCh rem with
    | none => exact ⟨bs_nil s hv, rfl⟩
    | some x =>
      obtain ⟨c1, n1, rem1⟩ := x
      have b1 := bs_trans hb (nextCh_bs rem (bs_valid_rest hv hb) c1 n1 rem1 hn)
      dsimp only
      split
      · exact fracArm_good s rem1 hv b1 _ _ rfl
      · split
        · exact fracArm_good s rem1 hv b1 _ _ rfl
        · split
          · exact fracArm_good s rem1 hv b1 _ _ rfl
          · split
            · exact ⟨b1, rfl, rfl⟩
            · exact ⟨bs_nil s hv, rfl, rfl⟩
  split
  · exact fracArm_good s rem hv hb _ _ rfl
  split
  · exact fracArm_good s rem hv hb _ _ rfl
  split
  · exact fracArm_good s rem hv hb _ _ rfl
  cases hs : specTable c with
  | some x =>
    obtain ⟨it, q⟩ := x
    obtain ⟨h1, h2⟩ := specTable_lit c it q hs
    exact ⟨hb, h1, h2⟩
  | none => exact ⟨bs_nil s hv, rfl, rfl⟩

/-! ### text runs: whole white-space characters, whole other characters -/

theorem wsSpanAux_bs : ∀ (fuel : Nat) (s : List Nat) (acc : Nat) (t : List Nat), t.drop acc = s →
    validUtf8 (t.take acc) = true → acc ≤ t.length →
    validUtf8 (t.take (wsSpanAux fuel s acc)) = true ∧ wsSpanAux fuel s acc ≤ t.length := by
  intro fuel
  induction fuel with
  | zero => intro s acc t _ hv hl; exact ⟨hv, hl⟩
  | succ f ih =>
    intro s acc t hd hv hl
    unfold wsSpanAux
    simp only
    split
    · exact ⟨hv, hl⟩
    · rename_i h0
      obtain ⟨w, r, hw, hs, hlen⟩ := Rfc2822.wsLen_inv s h0
      have ht : t = t.take acc ++ (w ++ r) := by rw [← hs, ← hd, List.take_append_drop]
      have hacc : (t.take acc).length = acc := by rw [List.length_take]; omega
      have htake : t.take (acc + Scan.wsLen s) = t.take acc ++ w := by
        rw [hlen]
        conv => lhs; rw [ht]
        rw [← List.append_assoc]
        have : acc + w.length = (t.take acc ++ w).length := by rw [List.length_append, hacc]
        rw [this, List.take_left]
      refine ih (s.drop (Scan.wsLen s)) (acc + Scan.wsLen s) t ?_ ?_ ?_
      · rw [← hd, List.drop_drop]
      · rw [htake]; exact valid_append _ _ w (Nat.le_refl _) hv (ws_valid w hw)
      · have : (t.take acc ++ (w ++ r)).length = t.length := by rw [← ht]
        rw [List.length_append, List.length_append, hacc] at this
        omega

theorem litSpanAux_bs : ∀ (fuel : Nat) (s : List Nat) (acc : Nat) (t : List Nat), t.drop acc = s →
    validUtf8 t = true → validUtf8 (t.take acc) = true → acc ≤ t.length →
    validUtf8 (t.take (litSpanAux fuel s acc)) = true ∧ litSpanAux fuel s acc ≤ t.length := by
  intro fuel
  induction fuel with
  | zero => intro s acc t _ _ hv hl; exact ⟨hv, hl⟩
  | succ f ih =>
    intro s acc t hd hvt hv hl
    unfold litSpanAux
    split
    · exact ⟨hv, hl⟩
    · rename_i b tl
      split
      · exact ⟨hv, hl⟩
      · have ht : t = t.take acc ++ (b :: tl) := by rw [← hd, List.take_append_drop]
        have hvs : validUtf8 (b :: tl) = true := by
          rw [ht] at hvt; exact valid_split _ _ _ (Nat.le_refl _) hvt hv
        obtain ⟨c, t', he, hc, _⟩ := (valid_cons_iff (b :: tl) (by simp)).mp hvs
        obtain ⟨b0, tl0, hce, hcl⟩ := isChar_len c hc
        have hb0 : b0 = b := by rw [hce] at he; injection he with he _; exact he.symm
        subst hb0
        have hlen : Scan.charLen b0 = c.length := by rw [hcl]; rfl
        have hacc : (t.take acc).length = acc := by rw [List.length_take]; omega
        have hcv : validUtf8 c = true := by
          have := valid_char_append c [] hc
          rw [List.append_nil] at this; rw [this]; rfl
        have ht2 : t = t.take acc ++ (c ++ t') := by rw [← he]; exact ht
        have htake : t.take (acc + Scan.charLen b0) = t.take acc ++ c := by
          rw [hlen]
          conv => lhs; rw [ht2]
          rw [← List.append_assoc]
          have : acc + c.length = (t.take acc ++ c).length := by rw [List.length_append, hacc]
          rw [this, List.take_left]
        refine ih _ (acc + Scan.charLen b0) t ?_ hvt ?_ ?_
        · rw [← hd, List.drop_drop]
        · rw [htake]; exact valid_append _ _ c (Nat.le_refl _) hv hcv
        · have : (t.take acc ++ (c ++ t')).length = t.length := by rw [← ht2]
          rw [List.length_append, List.length_append, hacc] at this
          omega

theorem take_drop_bs (s : List Nat) (n : Nat) (h : validUtf8 (s.take n) = true) : BoundarySuffix s (s.drop n) :=
  ⟨s.take n, (List.take_append_drop n s).symm, h⟩

/-- one `parse_next_item` call in strict mode on a well-formed format string -/
theorem parse_next_item_good (s : List Nat) (hv : validUtf8 s = true) (r : List Nat × Item × List Item)
    (h : parse_next_item false s = some r) :
    BoundarySuffix s r.1 ∧ litOkB r.2.1 = true ∧ r.2.2.all litOkB = true := by
  cases s with
  | nil => simp [parse_next_item] at h
  | cons b rest =>
    by_cases hb : b = 37
    · subst hb
      have hnil := bs_nil (37 :: rest) hv
      have hrest : BoundarySuffix (37 :: rest) rest := bs_cons 37 rest (by omega)
      have hvr := bs_valid_rest hv hrest
      unfold parse_next_item at h
      simp only [error_strict] at h
      cases hn : nextCh rest with
      | none =>
        rw [hn] at h
        simp only [Option.some.injEq] at h
        subst h
        exact ⟨hnil, rfl, rfl⟩
      | some x =>
        obtain ⟨c0, n0, r1⟩ := x
        have b1 := bs_trans hrest (nextCh_bs rest hvr c0 n0 r1 hn)
        rw [hn] at h
        dsimp only at h
        generalize hsec : (if ((padOf c0).isSome || c0 == 35) = true then _ else _ :
          Option (Option (Nat × Nat × List Nat × Nat))) = sec at h
        have hsec' : ∀ c n rem el, sec = some (some (c, n, rem, el)) → BoundarySuffix (37 :: rest) rem := by
          intro c n rem el hs
          rw [← hsec] at hs
          split at hs
          · cases hn2 : nextCh r1 with
            | none => rw [hn2] at hs; simp at hs
            | some x =>
              obtain ⟨c', n', r2⟩ := x
              rw [hn2] at hs
              simp only [Option.some.injEq, Prod.mk.injEq] at hs
              obtain ⟨_, _, rfl, _⟩ := hs
              exact bs_trans b1 (nextCh_bs r1 (bs_valid_rest hv b1) c' n' r2 hn2)
          · simp only [Option.some.injEq, Prod.mk.injEq] at hs
            obtain ⟨_, _, rfl, _⟩ := hs
            exact b1
        rcases sec with _ | _ | ⟨c, n, rem, el⟩
        · simp only [Option.some.injEq] at h; subst h; exact ⟨hnil, rfl, rfl⟩
        · simp only [Option.some.injEq] at h; subst h; exact ⟨hnil, rfl, rfl⟩
        · have k1 := hsec' c n rem el rfl
          dsimp only at h
          split at h
          · simp only [Option.some.injEq] at h; subst h; exact ⟨hnil, rfl, rfl⟩
          · have hg := specArm_good (37 :: rest) rem hv k1 el (c0 == 35) c n
            cases ha : specArm false (37 :: rest) rem el (c0 == 35) c n with
            | ret rem' it =>
              rw [ha] at h hg
              simp only [Option.some.injEq] at h
              subst h
              exact ⟨hg.1, hg.2, rfl⟩
            | item it rem' queue el' =>
              rw [ha] at h hg
              obtain ⟨q1, q2, q3⟩ := hg
              dsimp only at h
              cases hp : padOf c0 with
              | none =>
                rw [hp] at h
                simp only [Option.some.injEq] at h
                subst h
                exact ⟨q1, q2, q3⟩
              | some np =>
                rw [hp] at h
                dsimp only at h
                split at h
                · split at h
                  · simp only [Option.some.injEq] at h
                    subst h
                    exact ⟨q1, rfl, rfl⟩
                  · simp only [Option.some.injEq] at h
                    subst h
                    exact ⟨hnil, rfl, q3⟩
                · simp only [Option.some.injEq] at h
                  subst h
                  exact ⟨hnil, rfl, q3⟩
    · unfold parse_next_item at h
      split at h
      · rename_i he; cases he
      · rename_i r0 he; injection he with h1 _; exact absurd h1 hb
      · rename_i b' tl he
        injection he with h1 h2
        subst h1; subst h2
        split at h
        · rename_i hw
          simp only [Option.some.injEq] at h
          subst h
          obtain ⟨w, r', hwm, hs, hlen⟩ := Rfc2822.wsLen_inv (b :: rest) hw
          have hl0 : Scan.wsLen (b :: rest) ≤ (b :: rest).length := by
            rw [hlen, hs, List.length_append]; omega
          have hv0 : validUtf8 ((b :: rest).take (Scan.wsLen (b :: rest))) = true := by
            rw [hlen]; conv => arg 1; arg 1; rw [hs]
            rw [List.take_left]; exact ws_valid w hwm
          have key := wsSpanAux_bs ((b :: rest).drop (Scan.wsLen (b :: rest))).length
            ((b :: rest).drop (Scan.wsLen (b :: rest))) (Scan.wsLen (b :: rest)) (b :: rest) rfl hv0 hl0
          have e : ∀ (fuel : Nat) (s : List Nat) (acc : Nat), wsSpanAux fuel s acc = acc + wsSpanAux fuel s 0 := by
            intro fuel
            induction fuel with
            | zero => intro s acc; simp [wsSpanAux]
            | succ f ih =>
              intro s acc
              simp only [wsSpanAux]
              split
              · simp
              · rw [ih _ (acc + _), ih _ (0 + _)]; omega
          rw [e] at key
          exact ⟨take_drop_bs _ _ key.1, rfl, rfl⟩
        · simp only [Option.some.injEq] at h
          subst h
          obtain ⟨c, t', he, hc, _⟩ := (valid_cons_iff (b :: rest) (by simp)).mp hv
          obtain ⟨b0, tl0, hce, hcl⟩ := isChar_len c hc
          have hb0 : b0 = b := by rw [hce] at he; injection he with he _; exact he.symm
          subst hb0
          have hlen : Scan.charLen b0 = c.length := by rw [hcl]; rfl
          have hcv : validUtf8 c = true := by
            have := valid_char_append c [] hc
            rw [List.append_nil] at this; rw [this]; rfl
          have hl0 : Scan.charLen b0 ≤ (b0 :: rest).length := by rw [hlen, he, List.length_append]; omega
          have hv0 : validUtf8 ((b0 :: rest).take (Scan.charLen b0)) = true := by
            rw [hlen]; conv => arg 1; arg 1; rw [he]
            rw [List.take_left]; exact hcv
          have key := litSpanAux_bs ((b0 :: rest).drop (Scan.charLen b0)).length
            ((b0 :: rest).drop (Scan.charLen b0)) (Scan.charLen b0) (b0 :: rest) rfl hv hv0 hl0
          have e : ∀ (fuel : Nat) (s : List Nat) (acc : Nat), litSpanAux fuel s acc = acc + litSpanAux fuel s 0 := by
            intro fuel
            induction fuel with
            | zero => intro s acc; simp [litSpanAux]
            | succ f ih =>
              intro s acc
              simp only [litSpanAux]
              split
              · simp
              · split
                · simp
                · rw [ih _ (acc + _), ih _ (0 + _)]; omega
          rw [e] at key
          exact ⟨take_drop_bs _ _ key.1, key.1, rfl⟩

/-- **the literals of `StrftimeItems::new(fmt)` are `&str`s** for every well-formed format string -/
theorem itemsAux_utf8 : ∀ (fuel : Nat) (s : List Nat), validUtf8 s = true → ItemsUtf8 (itemsAux false fuel s) := by
  intro fuel
  induction fuel with
  | zero => intro s _ lit hm; simp [itemsAux] at hm
  | succ f ih =>
    intro s hv
    rw [itemsAux]
    cases hp : parse_next_item false s with
    | none => intro lit hm; simp at hm
    | some r =>
      obtain ⟨rem, it, q⟩ := r
      obtain ⟨h1, h2, h3⟩ := parse_next_item_good s hv _ hp
      dsimp only at h1 h2 h3 ⊢
      apply itemsUtf8_of_all
      rw [List.all_cons, List.all_append, h2, h3, all_of_itemsUtf8 _ (ih rem (bs_valid_rest hv h1))]
      rfl

theorem items_utf8 (fmt : List Nat) (hv : validUtf8 fmt = true) : ItemsUtf8 (items fmt) :=
  itemsAux_utf8 _ fmt hv

end Chrono.Proofs.StrftimeUtf8
