/-
  C13, eighth lemma file: FORMATTING SUCCEEDS.  For a context that has everything an item needs
  (`Spec.itemNeeds`) every proved item is written without error or panic, hence every item list of proved
  items that the target type can print (`Spec.showsFor`) is; so "formatting succeeded" is a conclusion of
  the family theorems, not a hypothesis.  Namespace `Chrono.Proofs.RoundTrip`.
-/
import Chrono.Proofs.RoundTripRfc3339L

namespace Chrono.Proofs.RoundTrip
open Chrono Chrono.M Chrono.M.Scan Chrono.Spec Chrono.Spec.Fields Chrono.Extracted Chrono.Proofs
open Chrono.Proofs.ParsedRes

/-- the numeric items that read the date, on an existing day -/
theorem date_numeric_ok (Y : Int) (o : Nat) (hvd : VD Y o) (ot : Option Time) (off : Option Int)
    (n : Numeric) (pad : Pad) (hn : itemNeeds (.numeric n pad) = (true, false, false)) :
    ∃ text, Format.format_numeric (some (dateOfYo Y o)) ot off n pad = Format.wok text := by
  obtain ⟨fy, _, _, _, y1, y2, fm, fd, _, _, _, _, _, _, _, _, _, _, w, hw, _, _, w3, w4⟩ := date_facts Y o hvd
  cases n with
  | year =>
    obtain ⟨text, h, _⟩ := write_year_text Y pad (by omega)
    refine ⟨text, ?_⟩
    simp only [Format.format_numeric, fy, h]
  | isoYear =>
    obtain ⟨text, h, _⟩ := write_year_text (IsoWeek.year w) pad (by omega)
    refine ⟨text, ?_⟩
    simp only [Format.format_numeric, hw, Format.W.ofRes, h]
  | yearDiv100 | yearMod100 | weekFromSun | weekFromMon | numDaysFromSun | weekdayFromMon | ordinal =>
    exact ⟨_, rfl⟩
  | isoYearDiv100 | isoYearMod100 | isoWeek =>
    simp only [Format.format_numeric, hw, Format.W.ofRes]
    exact ⟨_, rfl⟩
  | quarter | month =>
    simp only [Format.format_numeric, fm, Format.W.ofRes]
    exact ⟨_, rfl⟩
  | day =>
    simp only [Format.format_numeric, fd, Format.W.ofRes]
    exact ⟨_, rfl⟩
  | hour | hour12 | minute | second | nanosecond | timestamp => cases hn

/-- the numeric items that read the time of day -/
theorem time_numeric_ok (od : Option Date) (t : Time) (off : Option Int)
    (n : Numeric) (pad : Pad) (hn : itemNeeds (.numeric n pad) = (false, true, false)) :
    ∃ text, Format.format_numeric od (some t) off n pad = Format.wok text := by
  cases n <;> first
    | (cases hn; done)
    | (cases od <;> exact ⟨_, rfl⟩)

/-- `%s` on an existing day, a valid time of day and an offset of less than a day -/
theorem timestamp_numeric_ok (Y : Int) (o : Nat) (hvd : VD Y o) (t : Time) (ht : TValid t) (off : Option Int)
    (hoff : ∀ x, off = some x → -86400 < x ∧ x < 86400) (pad : Pad) :
    ∃ text, Format.format_numeric (some (dateOfYo Y o)) (some t) off .timestamp pad = Format.wok text := by
  obtain ⟨s1, s2, s3⟩ := ParsedRes.timestamp_spec Y o t hvd ht
  have hb : -86400 < off.getD 0 ∧ off.getD 0 < 86400 := by
    cases off with
    | none => simp
    | some x => simpa using hoff x rfl
  simp only [Format.format_numeric, s1, Format.W.ofRes]
  rw [Chrono.Proofs.ckI64_ok (by omega) (by omega)]
  exact ⟨_, rfl⟩

/-- **every proved item is written**, for a context that has what the item needs -/
theorem format_item_ok (c : Ctx) (hc : CtxOk c) (it : Item) (hp : provedItem it = true)
    (hd : (itemNeeds it).1 = true → c.date ≠ none) (ht : (itemNeeds it).2.1 = true → c.time ≠ none)
    (ho : (itemNeeds it).2.2 = true → c.off ≠ none) :
    ∃ text, Format.format_item c.date c.time c.off it = Format.wok text := by
  obtain ⟨cd, ct, co⟩ := c
  obtain ⟨hcd, hct, hco⟩ := hc
  dsimp only at hcd hct hco hd ht ho ⊢
  cases it with
  | literal s => exact ⟨s, rfl⟩
  | space s => exact ⟨s, rfl⟩
  | error => cases hp
  | numeric n pad =>
    simp only [Format.format_item]
    have hoff : ∀ x, co.map (·.2) = some x → -86400 < x ∧ x < 86400 := by
      intro x hx
      cases co with
      | none => cases hx
      | some y => simp only [Option.map_some, Option.some.injEq] at hx; rw [← hx]; exact hco y rfl
    rcases hneeds : itemNeeds (.numeric n pad) with ⟨nd, nt, no⟩
    rw [hneeds] at hd ht ho
    dsimp only at hd ht ho
    cases nd <;> cases nt <;> cases no
    all_goals first
      | (cases n <;> cases hneeds; done)
      | skip
    · -- time only
      obtain ⟨t, rfl⟩ := Option.ne_none_iff_exists'.mp (ht rfl)
      exact time_numeric_ok cd t _ n pad hneeds
    · -- date only
      obtain ⟨d, rfl⟩ := Option.ne_none_iff_exists'.mp (hd rfl)
      obtain ⟨Y, o, hvd, rfl⟩ := hcd d rfl
      exact date_numeric_ok Y o hvd ct _ n pad hneeds
    · -- date and time: the timestamp
      obtain ⟨d, rfl⟩ := Option.ne_none_iff_exists'.mp (hd rfl)
      obtain ⟨t, rfl⟩ := Option.ne_none_iff_exists'.mp (ht rfl)
      obtain ⟨Y, o, hvd, rfl⟩ := hcd d rfl
      have hn : n = .timestamp := by cases n <;> first | rfl | (cases hneeds)
      subst hn
      exact timestamp_numeric_ok Y o hvd t (hct t rfl) _ hoff pad
  | fixed f =>
    simp only [Format.format_item]
    have names : ∀ g : Fixed, (g = .shortMonthName ∨ g = .longMonthName ∨ g = .shortWeekdayName ∨
        g = .longWeekdayName) → cd ≠ none → ∃ text, Format.format_fixed cd ct co g = Format.wok text := by
      intro g hg hne
      obtain ⟨d, rfl⟩ := Option.ne_none_iff_exists'.mp hne
      obtain ⟨Y, o, hvd, rfl⟩ := hcd d rfl
      obtain ⟨_, _, _, _, _, _, fm, _⟩ := date_facts Y o hvd
      rcases hg with rfl | rfl | rfl | rfl
      · simp only [Format.format_fixed, fm, Format.W.ofRes]; exact ⟨_, rfl⟩
      · simp only [Format.format_fixed, fm, Format.W.ofRes]; exact ⟨_, rfl⟩
      · exact ⟨_, rfl⟩
      · exact ⟨_, rfl⟩
    have offs : ∀ g : Fixed, (g = .timezoneOffset ∨ g = .timezoneOffsetColon) → co ≠ none →
        ∃ text, Format.format_fixed cd ct co g = Format.wok text := by
      intro g hg hne
      obtain ⟨x, rfl⟩ := Option.ne_none_iff_exists'.mp hne
      obtain ⟨name, off⟩ := x
      obtain ⟨sg, body, _, h, _⟩ := offset_inverts g hg cd ct name off (hco (name, off) rfl) []
      exact ⟨_, h⟩
    cases f with
    | shortMonthName => exact names _ (Or.inl rfl) (hd rfl)
    | longMonthName => exact names _ (Or.inr (Or.inl rfl)) (hd rfl)
    | shortWeekdayName => exact names _ (Or.inr (Or.inr (Or.inl rfl))) (hd rfl)
    | longWeekdayName => exact names _ (Or.inr (Or.inr (Or.inr rfl))) (hd rfl)
    | timezoneOffset => exact offs _ (Or.inl rfl) (ho rfl)
    | timezoneOffsetColon => exact offs _ (Or.inr rfl) (ho rfl)
    | lowerAmPm | upperAmPm | nanosecond3 | nanosecond6 | nanosecond9 | nanosecond3NoDot | nanosecond6NoDot
    | nanosecond9NoDot =>
      obtain ⟨t, rfl⟩ := Option.ne_none_iff_exists'.mp (ht rfl)
      cases cd <;> exact ⟨_, rfl⟩
    | nanosecond =>
      obtain ⟨t, rfl⟩ := Option.ne_none_iff_exists'.mp (ht rfl)
      cases cd <;> simp only [Format.format_fixed] <;> split <;> (try split) <;> (try split) <;>
        exact ⟨_, rfl⟩
    | timezoneName | timezoneOffsetDoubleColon | timezoneOffsetTripleColon | timezoneOffsetColonZ
    | timezoneOffsetZ | rfc2822 | rfc3339 | timezoneOffsetPermissive => cases hp

/-- **every item list of proved items is written**, for a context that has what its items need -/
theorem format_items_ok (c : Ctx) (hc : CtxOk c) : ∀ (is : List Item),
    (∀ it ∈ is, provedItem it = true) →
    (∀ it ∈ is, ((itemNeeds it).1 = true → c.date ≠ none) ∧ ((itemNeeds it).2.1 = true → c.time ≠ none) ∧
      ((itemNeeds it).2.2 = true → c.off ≠ none)) →
    ∃ text, Format.formatItemsR c.date c.time c.off is = Format.wok text := by
  intro is
  induction is with
  | nil => intro _ _; exact ⟨[], rfl⟩
  | cons it is ih =>
    intro hp hn
    obtain ⟨t1, h1⟩ := format_item_ok c hc it (hp it (List.mem_cons_self)) (hn it (List.mem_cons_self)).1
      (hn it (List.mem_cons_self)).2.1 (hn it (List.mem_cons_self)).2.2
    obtain ⟨t2, h2⟩ := ih (fun x hx => hp x (List.mem_cons_of_mem _ hx)) (fun x hx => hn x (List.mem_cons_of_mem _ hx))
    exact ⟨t1 ++ t2, by simp only [Format.formatItemsR, h1, h2]; rfl⟩

/-- the needs of an item the target type can print are met by a context that shows what the target has -/
theorem needs_of_shows (T : ParseFrom.Target) (c : Ctx) (it : Item) (h : showsFor T it = true)
    (hd : (targetShows T).1 = true → c.date ≠ none) (ht : (targetShows T).2.1 = true → c.time ≠ none)
    (ho : (targetShows T).2.2 = true → c.off ≠ none) :
    ((itemNeeds it).1 = true → c.date ≠ none) ∧ ((itemNeeds it).2.1 = true → c.time ≠ none) ∧
      ((itemNeeds it).2.2 = true → c.off ≠ none) := by
  simp only [showsFor, Bool.and_eq_true, Bool.or_eq_true, Bool.not_eq_true'] at h
  obtain ⟨⟨h1, h2⟩, h3⟩ := h
  refine ⟨fun hn => hd ?_, fun hn => ht ?_, fun hn => ho ?_⟩
  · rcases h1 with h | h
    · rw [hn] at h; cases h
    · exact h
  · rcases h2 with h | h
    · rw [hn] at h; cases h
    · exact h
  · rcases h3 with h | h
    · rw [hn] at h; cases h
    · exact h

/-- **formatting a member of the family succeeds**: for every value of the target type (existing day,
valid time of day, offset of less than a day, wall clock in range) and every item list of proved items
the target can print, `format` returns a text -/
theorem format_family_ok (is : List Item) (v : ParseFrom.Value)
    (hv : match v with
      | .date d => ∃ Y o, VD Y o ∧ d = dateOfYo Y o
      | .time t => TValid t
      | .naive dt => (∃ Y o, VD Y o ∧ dt.date = dateOfYo Y o) ∧ TValid dt.time
      | .zoned z => ∃ Y o t, VD Y o ∧ TValid t ∧ z.overflowing_naive_local = .ok ⟨dateOfYo Y o, t⟩ ∧
          -86400 < z.off ∧ z.off < 86400)
    (hp : ∀ it ∈ is, provedItem it = true) (hs : ∀ it ∈ is, showsFor v.target it = true) :
    ∃ text, ParseFrom.formatItemsOf v is = Format.wok text := by
  cases v with
  | date d =>
    obtain ⟨Y, o, hvd, rfl⟩ := hv
    exact format_items_ok ⟨some (dateOfYo Y o), none, none⟩
      ⟨fun d h => (by cases h; exact ⟨Y, o, hvd, rfl⟩), fun t h => (by cases h), fun x h => (by cases h)⟩ is hp
      (fun it hm => needs_of_shows .date _ it (hs it hm) (fun _ => by simp) (fun h => by cases h)
        (fun h => by cases h))
  | time t =>
    exact format_items_ok ⟨none, some t, none⟩
      ⟨fun d h => (by cases h), fun t' h => (by cases h; exact hv), fun x h => (by cases h)⟩ is hp
      (fun it hm => needs_of_shows .time _ it (hs it hm) (fun h => by cases h) (fun _ => by simp)
        (fun h => by cases h))
  | naive dt =>
    obtain ⟨⟨Y, o, hvd, hd⟩, htv⟩ := hv
    obtain ⟨d, t⟩ := dt
    simp only at hd htv
    subst hd
    exact format_items_ok ⟨some (dateOfYo Y o), some t, none⟩
      ⟨fun d h => (by cases h; exact ⟨Y, o, hvd, rfl⟩), fun t' h => (by cases h; exact htv),
        fun x h => (by cases h)⟩ is hp
      (fun it hm => needs_of_shows .naive _ it (hs it hm) (fun _ => by simp) (fun _ => by simp)
        (fun h => by cases h))
  | zoned z =>
    obtain ⟨Y, o, t, hvd, htv, hl, hzo⟩ := hv
    simp only [ParseFrom.formatItemsOf, hl, Format.W.ofRes]
    exact format_items_ok ⟨some (dateOfYo Y o), some t, some (Format.fixedOffsetName z.off, z.off)⟩
      ⟨fun d h => (by cases h; exact ⟨Y, o, hvd, rfl⟩), fun t' h => (by cases h; exact htv),
        fun x h => (by cases h; exact hzo)⟩ is hp
      (fun it hm => needs_of_shows .zoned _ it (hs it hm) (fun _ => by simp) (fun _ => by simp)
        (fun _ => by simp))

end Chrono.Proofs.RoundTrip
