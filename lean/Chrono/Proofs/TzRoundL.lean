/- Helper lemmas for C16, part 3: the canonical text of a rule reads back as that rule. -/
import Chrono.Proofs.TzL

namespace Chrono.Proofs.Tz
open Chrono Chrono.M.Tz Chrono.Spec.Tz Chrono.Extracted.TzP

/-! ### lists -/
/-- `s` is empty or starts with a byte failing `p` -/
def StopAt (p : Nat → Bool) (s : List Nat) : Prop := ∀ b t, s = b :: t → p b = false

theorem stopAt_nil (p : Nat → Bool) : StopAt p [] := by intro b t h; cases h
theorem stopAt_cons {p : Nat → Bool} {b : Nat} {t : List Nat} (h : p b = false) : StopAt p (b :: t) := by
  intro b' t' e; cases e; exact h

theorem takeWhile_append_stop (p : Nat → Bool) (ds rest : List Nat) (h1 : ∀ d ∈ ds, p d = true)
    (h2 : StopAt p rest) : (ds ++ rest).takeWhile p = ds := by
  induction ds with
  | nil =>
    cases rest with
    | nil => rfl
    | cons b t => simp [List.takeWhile_cons, h2 b t rfl]
  | cons d ds ih =>
    have hd : p d = true := h1 d (by simp)
    simp only [List.cons_append, List.takeWhile_cons, hd, if_true]
    rw [ih (fun x hx => h1 x (List.mem_cons_of_mem _ hx))]

theorem read_exact_append (ds rest : List Nat) : read_exact (ds ++ rest) ds.length = .ok (ds, rest) := by
  unfold read_exact
  simp

theorem read_while_append (p : Nat → Bool) (ds rest : List Nat) (h1 : ∀ d ∈ ds, p d = true)
    (h2 : StopAt p rest) : read_while (ds ++ rest) p = .ok (ds, rest) := by
  unfold read_while
  rw [takeWhile_append_stop p ds rest h1 h2]
  exact read_exact_append ds rest

/-! ### decimal numbers -/
def stepD (a d : Nat) : Nat := a * 10 + (d - 48)

theorem isDigit_digitChar (d : Nat) (h : d < 10) : isDigit (digitChar d) = true := by
  unfold isDigit digitChar
  have a : decide (48 ≤ 48 + d) = true := decide_eq_true (by omega)
  have b : decide (48 + d ≤ 57) = true := decide_eq_true (by omega)
  rw [a, b]; rfl

theorem renderNatAux_spec (fuel : Nat) : ∀ n, n < fuel →
    ∃ ds, ds ≠ [] ∧ (∀ d ∈ ds, isDigit d = true) ∧ ds.foldl stepD 0 = n
      ∧ ∀ acc, renderNatAux fuel n acc = ds ++ acc := by
  induction fuel with
  | zero => intro n h; omega
  | succ fuel ih =>
    intro n hn
    by_cases h10 : n < 10
    · refine ⟨[digitChar n], by simp, ?_, ?_, ?_⟩
      · intro d hd; simp at hd; subst hd; exact isDigit_digitChar n h10
      · simp [stepD, digitChar]
      · intro acc; simp [renderNatAux, h10]
    · obtain ⟨ds, h1, h2, h3, h4⟩ := ih (n / 10) (by omega)
      refine ⟨ds ++ [digitChar (n % 10)], by simp, ?_, ?_, ?_⟩
      · intro d hd
        simp only [List.mem_append, List.mem_singleton] at hd
        rcases hd with hd | rfl
        · exact h2 d hd
        · exact isDigit_digitChar _ (by omega)
      · rw [List.foldl_append, h3]
        simp [stepD, digitChar]; omega
      · intro acc
        simp only [renderNatAux, h10, if_false]
        rw [h4]; simp

theorem renderNat_spec (n : Nat) :
    renderNat n ≠ [] ∧ (∀ d ∈ renderNat n, isDigit d = true) ∧ digitsVal (renderNat n) = n := by
  obtain ⟨ds, h1, h2, h3, h4⟩ := renderNatAux_spec (n + 1) n (by omega)
  have e : renderNat n = ds := by unfold renderNat; rw [h4]; simp
  rw [e]
  exact ⟨h1, h2, h3⟩

/-- rendering a number, then anything that does not start with a digit, scans back to the number -/
theorem read_int_render (n max : Nat) (rest : List Nat) (hn : n ≤ max) (hs : StopAt isDigit rest) :
    read_int (renderNat n ++ rest) max = .ok ((n : Int), rest) := by
  obtain ⟨h1, h2, h3⟩ := renderNat_spec n
  unfold read_int
  rw [read_while_append isDigit _ rest h2 hs]
  have hne : (renderNat n).isEmpty = false := by
    cases h : renderNat n with
    | nil => exact absurd h h1
    | cons _ _ => rfl
  simp only [hne, h3]
  simp
  omega

/-- the first byte of a rendered number is a digit -/
theorem renderNat_head (n : Nat) : ∃ d t, renderNat n = d :: t ∧ isDigit d = true := by
  obtain ⟨h1, h2, _⟩ := renderNat_spec n
  cases h : renderNat n with
  | nil => exact absurd h h1
  | cons d t => exact ⟨d, t, rfl, h2 d (by rw [h]; simp)⟩

/-! ### `hh[:mm[:ss]]` -/
def isColon (b : Nat) : Bool := b == 58

theorem rot_colon_yes (t : List Nat) : read_optional_tag (58 :: t) [58] = .ok (true, t) := by
  simp [read_optional_tag, List.isPrefixOf, read_exact]

theorem rot_no (tag : Nat) (rest : List Nat) (h : StopAt (fun b => b == tag) rest) :
    read_optional_tag rest [tag] = .ok (false, rest) := by
  cases rest with
  | nil => simp [read_optional_tag, List.isPrefixOf]
  | cons b t =>
    have hb : (b == tag) = false := h b t rfl
    have hne : ¬ tag = b := by
      intro e; subst e; simp at hb
    simp [read_optional_tag, List.isPrefixOf, hne]

theorem digit_ne_colon : isDigit 58 = false := by decide

theorem parse_hhmmss_3 (h m s : Nat) (rest : List Nat) (hh : h ≤ I32MAXN) (hm : m ≤ I32MAXN)
    (hs : s ≤ I32MAXN) (st : StopAt isDigit rest) :
    parse_hhmmss (renderNat h ++ 58 :: (renderNat m ++ 58 :: (renderNat s ++ rest)))
      = .ok (((h : Int), (m : Int), (s : Int)), rest) := by
  unfold parse_hhmmss
  rw [read_int_render h _ _ hh (stopAt_cons digit_ne_colon)]
  simp only [P.bind_ok, rot_colon_yes, if_true]
  rw [read_int_render m _ _ hm (stopAt_cons digit_ne_colon)]
  simp only [P.bind_ok, rot_colon_yes, if_true]
  rw [read_int_render s _ _ hs st]
  simp only [P.bind_ok]

theorem parse_hhmmss_2 (h m : Nat) (rest : List Nat) (hh : h ≤ I32MAXN) (hm : m ≤ I32MAXN)
    (st : StopAt isDigit rest) (sc : StopAt (fun b => b == 58) rest) :
    parse_hhmmss (renderNat h ++ 58 :: (renderNat m ++ rest))
      = .ok (((h : Int), (m : Int), 0), rest) := by
  unfold parse_hhmmss
  rw [read_int_render h _ _ hh (stopAt_cons digit_ne_colon)]
  simp only [P.bind_ok, rot_colon_yes, if_true]
  rw [read_int_render m _ _ hm st]
  simp only [P.bind_ok, rot_no 58 rest sc]
  rfl

theorem parse_hhmmss_1 (h : Nat) (rest : List Nat) (hh : h ≤ I32MAXN)
    (st : StopAt isDigit rest) (sc : StopAt (fun b => b == 58) rest) :
    parse_hhmmss (renderNat h ++ rest) = .ok (((h : Int), 0, 0), rest) := by
  unfold parse_hhmmss
  rw [read_int_render h _ _ hh st]
  simp only [P.bind_ok, rot_no 58 rest sc]
  rfl

/-- `rest` starts neither with a digit nor with a colon (or is empty) -/
def StopH (rest : List Nat) : Prop := StopAt isDigit rest ∧ StopAt (fun b => b == 58) rest

theorem parse_hhmmss_render (a : Nat) (rest : List Nat) (ha : a ≤ 604799) (st : StopH rest) :
    parse_hhmmss (renderHmsAbs a ++ rest)
      = .ok ((((a / 3600 : Nat) : Int), ((a / 60 % 60 : Nat) : Int), ((a % 60 : Nat) : Int)), rest) := by
  have k : I32MAXN = 2147483647 := rfl
  unfold renderHmsAbs
  split
  · have e : renderNat (a / 3600) ++ ([58] ++ renderNat (a / 60 % 60) ++ [58] ++ renderNat (a % 60)) ++ rest
        = renderNat (a / 3600) ++ 58 :: (renderNat (a / 60 % 60) ++ 58 :: (renderNat (a % 60) ++ rest)) := by
      simp [List.append_assoc]
    rw [e]
    exact parse_hhmmss_3 _ _ _ _ (by omega) (by omega) (by omega) st.1
  · split
    · have e : renderNat (a / 3600) ++ ([58] ++ renderNat (a / 60 % 60)) ++ rest
          = renderNat (a / 3600) ++ 58 :: (renderNat (a / 60 % 60) ++ rest) := by
        simp [List.append_assoc]
      rw [e, parse_hhmmss_2 _ _ _ (by omega) (by omega) st.1 st.2]
      rename_i h1 h2
      have : a % 60 = 0 := by omega
      rw [this]; rfl
    · rename_i h1 h2
      have e : renderNat (a / 3600) ++ [] ++ rest = renderNat (a / 3600) ++ rest := by simp
      rw [e, parse_hhmmss_1 _ _ (by omega) st.1 st.2]
      have h3 : a % 60 = 0 := by omega
      have h4 : a / 60 % 60 = 0 := by omega
      rw [h3, h4]; rfl

/-! ### signed forms -/
theorem peek_cons (b : Nat) (t : List Nat) : peek (b :: t) = some b := rfl

theorem parse_sign_minus (t : List Nat) : parse_sign (45 :: t) = .ok (-1, t) := by
  simp [parse_sign, peek, read_exact]

theorem parse_sign_other (b : Nat) (t : List Nat) (h1 : b ≠ 43) (h2 : b ≠ 45) :
    parse_sign (b :: t) = .ok (1, b :: t) := by
  unfold parse_sign
  rw [peek_cons]
  split
  · rename_i e; injection e with e; exact absurd e h1
  · rename_i e; injection e with e; exact absurd e h2
  · rfl

theorem isDigit_bounds {d : Nat} (h : isDigit d = true) : 48 ≤ d ∧ d ≤ 57 := by
  unfold isDigit at h
  simp only [Bool.and_eq_true] at h
  exact ⟨of_decide_eq_true h.1, of_decide_eq_true h.2⟩

theorem renderHmsAbs_head (a : Nat) : ∃ d t, renderHmsAbs a = d :: t ∧ isDigit d = true := by
  obtain ⟨d, t, e, hd⟩ := renderNat_head (a / 3600)
  unfold renderHmsAbs
  rw [e]
  exact ⟨d, _, rfl, hd⟩

theorem parse_signed_render (v : Int) (rest : List Nat) (hv : -604799 ≤ v ∧ v ≤ 604799) (st : StopH rest) :
    parse_signed_hhmmss (renderHms v ++ rest)
      = .ok (((if v < 0 then -1 else 1 : Int), ((v.natAbs / 3600 : Nat) : Int),
              ((v.natAbs / 60 % 60 : Nat) : Int), ((v.natAbs % 60 : Nat) : Int)), rest) := by
  unfold parse_signed_hhmmss renderHms
  have ha : v.natAbs ≤ 604799 := by omega
  split
  · simp only [List.cons_append, List.nil_append, parse_sign_minus, P.bind_ok]
    rw [parse_hhmmss_render _ _ ha st]
    simp only [P.bind_ok]
  · obtain ⟨d, t, e, hd⟩ := renderHmsAbs_head v.natAbs
    have hb := isDigit_bounds hd
    have e2 : [] ++ renderHmsAbs v.natAbs ++ rest = d :: (t ++ rest) := by rw [e]; simp
    rw [e2, parse_sign_other d _ (by omega) (by omega)]
    simp only [P.bind_ok]
    rw [← e2]
    simp only [List.nil_append]
    rw [parse_hhmmss_render _ _ ha st]
    simp only [P.bind_ok]

theorem parse_offset_render (v : Int) (rest : List Nat) (hv : -89999 ≤ v ∧ v ≤ 89999) (st : StopH rest) :
    parse_offset (renderHms v ++ rest) = .ok (v, rest) := by
  unfold parse_offset
  rw [parse_signed_render v rest (by omega) st]
  simp only [P.bind_ok]
  have k1 : OFFSET_HOUR_MAX = 24 := rfl
  have k2 : OFFSET_MINUTE_MAX = 59 := rfl
  have k3 : OFFSET_SECOND_MAX = 59 := rfl
  rw [if_neg (by simp only [Bool.not_eq_true', Bool.not_eq_false, Bool.and_eq_true, decide_eq_true_eq]; omega)]
  rw [if_neg (by simp only [Bool.not_eq_true', Bool.not_eq_false, Bool.and_eq_true, decide_eq_true_eq]; omega)]
  rw [if_neg (by simp only [Bool.not_eq_true', Bool.not_eq_false, Bool.and_eq_true, decide_eq_true_eq]; omega)]
  have hval : (if v < 0 then -1 else 1 : Int) * (((v.natAbs / 3600 : Nat) : Int) * 3600
      + ((v.natAbs / 60 % 60 : Nat) : Int) * 60 + ((v.natAbs % 60 : Nat) : Int)) = v := by
    split <;> omega
  rw [hval, ck32_ok (by omega) (by omega)]
  rfl

theorem parse_rule_time_extended_render (v : Int) (rest : List Nat) (hv : -604799 ≤ v ∧ v ≤ 604799)
    (st : StopH rest) : parse_rule_time_extended (renderHms v ++ rest) = .ok (v, rest) := by
  unfold parse_rule_time_extended
  rw [parse_signed_render v rest hv st]
  simp only [P.bind_ok]
  have k0 : EXT_HOUR_MIN = -167 := rfl
  have k1 : EXT_HOUR_MAX = 167 := rfl
  have k2 : EXT_MINUTE_MAX = 59 := rfl
  have k3 : EXT_SECOND_MAX = 59 := rfl
  rw [if_neg (by simp only [Bool.not_eq_true', Bool.not_eq_false, Bool.and_eq_true, decide_eq_true_eq]; omega)]
  rw [if_neg (by simp only [Bool.not_eq_true', Bool.not_eq_false, Bool.and_eq_true, decide_eq_true_eq]; omega)]
  rw [if_neg (by simp only [Bool.not_eq_true', Bool.not_eq_false, Bool.and_eq_true, decide_eq_true_eq]; omega)]
  have hval : (if v < 0 then -1 else 1 : Int) * (((v.natAbs / 3600 : Nat) : Int) * 3600
      + ((v.natAbs / 60 % 60 : Nat) : Int) * 60 + ((v.natAbs % 60 : Nat) : Int)) = v := by
    split <;> omega
  rw [hval, ck32_ok (by omega) (by omega)]
  rfl

theorem parse_rule_time_render (v : Int) (rest : List Nat) (hv : 0 ≤ v ∧ v ≤ 89999) (st : StopH rest) :
    parse_rule_time (renderHms v ++ rest) = .ok (v, rest) := by
  unfold parse_rule_time renderHms
  rw [if_neg (by omega)]
  simp only [List.nil_append]
  rw [parse_hhmmss_render _ _ (by omega) st]
  simp only [P.bind_ok]
  have k1 : RULE_HOUR_MAX = 24 := rfl
  have k2 : RULE_MINUTE_MAX = 59 := rfl
  have k3 : RULE_SECOND_MAX = 59 := rfl
  rw [if_neg (by simp only [Bool.not_eq_true', Bool.not_eq_false, Bool.and_eq_true, decide_eq_true_eq]; omega)]
  rw [if_neg (by simp only [Bool.not_eq_true', Bool.not_eq_false, Bool.and_eq_true, decide_eq_true_eq]; omega)]
  rw [if_neg (by simp only [Bool.not_eq_true', Bool.not_eq_false, Bool.and_eq_true, decide_eq_true_eq]; omega)]
  have hval : ((v.natAbs / 3600 : Nat) : Int) * 3600
      + ((v.natAbs / 60 % 60 : Nat) : Int) * 60 + ((v.natAbs % 60 : Nat) : Int) = v := by omega
  rw [hval, ck32_ok (by omega) (by omega)]
  rfl

/-! ### designations -/
theorem alpha_ne_lt {a : Nat} (h : isAlpha a = true) : a ≠ 60 := by
  intro e; subst e; revert h; decide

theorem nameChar_ne_gt {a : Nat} (h : nameChar a = true) : a ≠ 62 := by
  intro e; subst e; revert h; decide

theorem parse_name_bare (n rest : List Nat) (hne : n ≠ []) (ha : ∀ d ∈ n, isAlpha d = true)
    (st : StopAt isAlpha rest) : parse_name (n ++ rest) = .ok (n, rest) := by
  cases n with
  | nil => exact absurd rfl hne
  | cons a n' =>
    have ha0 : isAlpha a = true := ha a (by simp)
    unfold parse_name
    simp only [List.cons_append, peek_cons]
    split
    · rename_i e; injection e with e; exact absurd e (alpha_ne_lt ha0)
    · exact read_while_append isAlpha (a :: n') rest ha st

theorem read_exact_one (b : Nat) (t : List Nat) : read_exact (b :: t) 1 = .ok ([b], t) := by
  simp [read_exact]

theorem parse_name_quoted (n rest : List Nat) (hn : ∀ d ∈ n, nameChar d = true) :
    parse_name (60 :: (n ++ 62 :: rest)) = .ok (n, rest) := by
  unfold parse_name
  simp only [peek_cons]
  have hu : read_until (n ++ 62 :: rest) (fun x => x == 62) = .ok (n, 62 :: rest) := by
    unfold read_until
    rw [takeWhile_append_stop (fun b => !(b == 62)) n (62 :: rest) ?_ (stopAt_cons (by decide))]
    · exact read_exact_append n _
    · intro d hd
      have := nameChar_ne_gt (hn d hd)
      simp [this]
  simp only [read_exact_one, hu, bind, P.bind]

theorem parse_name_render (n rest : List Nat) (hn : NameOk n) (st : StopAt isAlpha rest) :
    parse_name (renderName n ++ rest) = .ok (n, rest) := by
  obtain ⟨h1, _, h3⟩ := hn
  unfold renderName
  split
  · rename_i ha
    rw [List.all_eq_true] at ha
    exact parse_name_bare n rest (by intro e; subst e; simp at h1) ha st
  · rw [List.all_eq_true] at h3
    have e : [60] ++ n ++ [62] ++ rest = 60 :: (n ++ 62 :: rest) := by simp
    rw [e]
    exact parse_name_quoted n rest h3

theorem ltt_new_ok (off : Int) (dst : Bool) (n : List Nat) (ho : -86400 < off ∧ off < 86400) (hn : NameOk n) :
    Ltt.new off dst (some n) = .ok ⟨off, dst, some n⟩ := by
  obtain ⟨h1, h2, h3⟩ := hn
  have k1 : NAME_MIN = 3 := rfl
  have k2 : NAME_MAX = 7 := rfl
  unfold Ltt.new TimeZoneName.new
  rw [if_neg (by omega)]
  simp only
  rw [if_neg (by simp only [Bool.not_eq_true', Bool.not_eq_false, Bool.and_eq_true, decide_eq_true_eq]; omega)]
  rw [if_pos h3]

/-! ### rule days -/
theorem digit_ne_dot : isDigit 46 = false := by decide
theorem digit_ne_slash : isDigit 47 = false := by decide
theorem digit_ne_comma : isDigit 44 = false := by decide

theorem read_tag_one (b : Nat) (t : List Nat) : read_tag (b :: t) [b] = .ok t := by
  simp [read_tag, read_exact]

theorem parse_date_render (d : RuleDay) (rest : List Nat) (hd : DayOk d) (st : StopAt isDigit rest) :
    RuleDay.parse_date (renderDay d ++ rest) = .ok (d, rest) := by
  have j1 : JULIAN1_MIN = 1 := rfl
  have j2 : JULIAN1_MAX = 365 := rfl
  have j3 : JULIAN0_MAX = 365 := rfl
  have m1 : MONTH_MIN = 1 := rfl
  have m2 : MONTH_MAX = 12 := rfl
  have w1 : WEEK_MIN = 1 := rfl
  have w2 : WEEK_MAX = 5 := rfl
  have w3 : WEEKDAY_MAX = 6 := rfl
  have u8 : U8MAXN = 255 := rfl
  have u16 : U16MAXN = 65535 := rfl
  cases d with
  | julian1 n =>
    simp only [DayOk] at hd
    simp only [renderDay, List.cons_append, List.nil_append]
    unfold RuleDay.parse_date
    simp only [peek_cons, read_exact_one, P.bind_ok]
    rw [read_int_render n _ rest (by omega) st]
    simp only [P.bind_ok, RuleDay.julian_1]
    rw [if_neg (by simp only [Bool.not_eq_true', Bool.not_eq_false, Bool.and_eq_true, decide_eq_true_eq]; omega)]
    simp
  | julian0 n =>
    simp only [DayOk] at hd
    simp only [renderDay]
    obtain ⟨dg, t, e, hdg⟩ := renderNat_head n
    have hb := isDigit_bounds hdg
    unfold RuleDay.parse_date
    have hp : peek (renderNat n ++ rest) = some dg := by rw [e]; rfl
    rw [hp]
    split
    · rename_i h; injection h with h; omega
    · rename_i h; injection h with h; omega
    · rw [read_int_render n _ rest (by omega) st]
      simp only [P.bind_ok, RuleDay.julian_0]
      rw [if_neg (by omega)]
      simp
  | mwd m w wd =>
    simp only [DayOk] at hd
    have e : renderDay (.mwd m w wd) ++ rest
        = 77 :: (renderNat m ++ 46 :: (renderNat w ++ 46 :: (renderNat wd ++ rest))) := by
      simp [renderDay, List.append_assoc]
    rw [e]
    unfold RuleDay.parse_date
    simp only [peek_cons, read_exact_one, P.bind_ok]
    rw [read_int_render m _ _ (by omega) (stopAt_cons digit_ne_dot)]
    simp only [P.bind_ok, read_tag_one]
    rw [read_int_render w _ _ (by omega) (stopAt_cons digit_ne_dot)]
    simp only [P.bind_ok, read_tag_one]
    rw [read_int_render wd _ _ (by omega) st]
    simp only [P.bind_ok, RuleDay.month_weekday]
    rw [if_neg (by simp only [Bool.not_eq_true', Bool.not_eq_false, Bool.and_eq_true, decide_eq_true_eq]; omega)]
    rw [if_neg (by simp only [Bool.not_eq_true', Bool.not_eq_false, Bool.and_eq_true, decide_eq_true_eq]; omega)]
    rw [if_neg (by omega)]
    simp

theorem rot_slash_yes (t : List Nat) : read_optional_tag (47 :: t) [47] = .ok (true, t) := by
  simp [read_optional_tag, List.isPrefixOf, read_exact]

theorem ruleday_parse_render (d : RuleDay) (t : Int) (ext : Bool) (rest : List Nat) (hd : DayOk d)
    (ht : TimeOk ext t) (st : StopH rest) :
    RuleDay.parse (renderDay d ++ 47 :: (renderHms t ++ rest)) ext = .ok ((d, t), rest) := by
  unfold RuleDay.parse
  rw [parse_date_render d _ hd (stopAt_cons digit_ne_slash)]
  simp only [P.bind_ok, rot_slash_yes]
  cases ext with
  | true =>
    have := ht.1 rfl
    simp only
    rw [parse_rule_time_extended_render t rest this st]
    rfl
  | false =>
    have := ht.2 rfl
    simp only
    rw [parse_rule_time_render t rest this st]
    rfl

/-! ### assembling the whole text -/
theorem digit_not_alpha {b : Nat} (h : isDigit b = true) : isAlpha b = false := by
  have hb := isDigit_bounds h
  cases ha : isAlpha b with
  | false => rfl
  | true =>
    exfalso
    unfold isAlpha at ha
    simp only [Bool.or_eq_true, Bool.and_eq_true] at ha
    rcases ha with ⟨h1, _⟩ | ⟨h1, _⟩
    · have := of_decide_eq_true h1; omega
    · have := of_decide_eq_true h1; omega

theorem alpha_not_digit {b : Nat} (h : isAlpha b = true) : isDigit b = false := by
  cases hd : isDigit b with
  | false => rfl
  | true => rw [digit_not_alpha hd] at h; cases h

/-- the first byte of a rendered `[-]h…` -/
theorem renderHms_head (v : Int) (X : List Nat) :
    ∃ b t, renderHms v ++ X = b :: t ∧ (b = 45 ∨ isDigit b = true) := by
  unfold renderHms
  split
  · exact ⟨45, _, rfl, Or.inl rfl⟩
  · obtain ⟨d, t, e, hd⟩ := renderHmsAbs_head v.natAbs
    rw [e]
    exact ⟨d, _, rfl, Or.inr hd⟩

theorem renderHms_stop_alpha (v : Int) (X : List Nat) : StopAt isAlpha (renderHms v ++ X) := by
  obtain ⟨b, t, e, hb⟩ := renderHms_head v X
  rw [e]
  apply stopAt_cons
  rcases hb with rfl | hb
  · decide
  · exact digit_not_alpha hb

/-- the first byte of a rendered designation -/
theorem renderName_head (n X : List Nat) (hn : NameOk n) :
    ∃ b t, renderName n ++ X = b :: t ∧ (b = 60 ∨ isAlpha b = true) := by
  unfold renderName
  split
  · rename_i ha
    rw [List.all_eq_true] at ha
    cases n with
    | nil => have := hn.1; simp at this
    | cons a n' => exact ⟨a, _, rfl, Or.inr (ha a (by simp))⟩
  · exact ⟨60, _, rfl, Or.inl rfl⟩

theorem renderName_stopH (n X : List Nat) (hn : NameOk n) : StopH (renderName n ++ X) := by
  obtain ⟨b, t, e, hb⟩ := renderName_head n X hn
  rw [e]
  rcases hb with rfl | hb
  · exact ⟨stopAt_cons (by decide), stopAt_cons (by decide)⟩
  · refine ⟨stopAt_cons (alpha_not_digit hb), stopAt_cons ?_⟩
    cases h : (b == 58) with
    | false => rfl
    | true =>
      have : b = 58 := by simpa using h
      subst this
      revert hb; decide

theorem stopH_nil : StopH [] := ⟨stopAt_nil _, stopAt_nil _⟩
theorem stopH_comma (t : List Nat) : StopH (44 :: t) :=
  ⟨stopAt_cons (by decide), stopAt_cons (by decide)⟩

theorem parse_dst_offset_render (so v : Int) (rest : List Nat) (hv : -89999 ≤ v ∧ v ≤ 89999)
    (st : StopH rest) : parse_dst_offset so (renderHms v ++ rest) = .ok (v, rest) := by
  obtain ⟨b, t, e, hb⟩ := renderHms_head v rest
  have hne : b ≠ 44 := by
    rcases hb with rfl | hb
    · decide
    · have := isDigit_bounds hb; omega
  unfold parse_dst_offset
  rw [e, peek_cons]
  split
  · rename_i h; injection h with h; exact absurd h hne
  · rw [← e]; exact parse_offset_render v rest hv st
  · rename_i h; cases h

theorem lttOk_elim {t : Ltt} {dst : Bool} (h : LttOk t dst) :
    ∃ n, t = ⟨t.off, dst, some n⟩ ∧ NameOk n ∧ -86400 < t.off ∧ t.off < 86400 := by
  obtain ⟨off, d, name⟩ := t
  obtain ⟨h1, h2, h3, h4⟩ := h
  dsimp only at h1 h2 h3 h4
  cases name with
  | none => exact h2.elim
  | some n => subst h1; exact ⟨n, rfl, h2, h3, h4⟩

theorem tz_roundtrip_fixed (t : Ltt) (ext : Bool) (h : LttOk t false) :
    from_tz_string (renderTz (.fixed t)) ext = .ok (.fixed t) := by
  obtain ⟨n, e, hn, h1, h2⟩ := lttOk_elim h
  rw [e]
  simp only [renderTz, Option.getD_some]
  unfold from_tz_string
  have st : StopAt isAlpha (renderHms (-t.off)) := by
    have := renderHms_stop_alpha (-t.off) []
    simpa using this
  rw [parse_name_render n _ hn st]
  simp only [P.bind_ok]
  have e2 : renderHms (-t.off) = renderHms (-t.off) ++ [] := by simp
  rw [e2, parse_offset_render (-t.off) [] (by omega) stopH_nil]
  simp only [P.bind_ok, List.isEmpty_nil, if_true]
  rw [ck32_ok (by omega) (by omega)]
  simp only [P.bind_ok, Int.neg_neg]
  rw [ltt_new_ok t.off false n (by omega) hn]
  rfl

theorem tz_roundtrip_alt (a : Alt) (ext : Bool) (h : RuleOk ext (.alt a)) :
    from_tz_string (renderTz (.alt a)) ext = .ok (.alt a) := by
  obtain ⟨std, dst, d1, t1, d2, t2⟩ := a
  obtain ⟨hs, hd, hd1, hd2, ht1, ht2⟩ := h
  dsimp only at hs hd hd1 hd2 ht1 ht2
  obtain ⟨sn, es, hsn, s1, s2⟩ := lttOk_elim hs
  obtain ⟨dn, ed, hdn, o1, o2⟩ := lttOk_elim hd
  have etext : renderTz (.alt ⟨std, dst, d1, t1, d2, t2⟩) =
      renderName sn ++ (renderHms (-std.off) ++ (renderName dn ++ (renderHms (-dst.off) ++
        44 :: (renderDay d1 ++ 47 :: (renderHms t1 ++ 44 :: (renderDay d2 ++ 47 :: (renderHms t2 ++ []))))))) := by
    conv => lhs; rw [es, ed]
    simp [renderTz, List.append_assoc]
  rw [etext]
  unfold from_tz_string
  rw [parse_name_render sn _ hsn (renderHms_stop_alpha _ _)]
  simp only [P.bind_ok]
  rw [parse_offset_render (-std.off) _ (by omega) (renderName_stopH dn _ hdn)]
  simp only [P.bind_ok]
  obtain ⟨b, tl, eh, _⟩ := renderName_head dn (renderHms (-dst.off) ++
        44 :: (renderDay d1 ++ 47 :: (renderHms t1 ++ 44 :: (renderDay d2 ++ 47 :: (renderHms t2 ++ []))))) hdn
  have hne : (renderName dn ++ (renderHms (-dst.off) ++
        44 :: (renderDay d1 ++ 47 :: (renderHms t1 ++ 44 :: (renderDay d2 ++ 47 :: (renderHms t2 ++ [])))))).isEmpty = false := by
    rw [eh]; rfl
  rw [if_neg (by rw [hne]; simp)]
  rw [parse_name_render dn _ hdn (renderHms_stop_alpha _ _)]
  simp only [P.bind_ok]
  rw [parse_dst_offset_render _ (-dst.off) _ (by omega) (stopH_comma _)]
  simp only [P.bind_ok, List.isEmpty_cons, Bool.false_eq_true, if_false, read_tag_one]
  rw [ruleday_parse_render d1 t1 ext _ hd1 ht1 (stopH_comma _)]
  simp only [P.bind_ok, read_tag_one]
  rw [ruleday_parse_render d2 t2 ext _ hd2 ht2 stopH_nil]
  simp only [P.bind_ok, List.isEmpty_nil, Bool.not_true, Bool.false_eq_true, if_false]
  rw [ck32_ok (by omega) (by omega)]
  simp only [P.bind_ok, Int.neg_neg]
  rw [ltt_new_ok std.off false sn (by omega) hsn]
  simp only [P.bind_ok]
  rw [ck32_ok (by omega) (by omega)]
  simp only [P.bind_ok, Int.neg_neg]
  rw [ltt_new_ok dst.off true dn (by omega) hdn]
  simp only [P.bind_ok]
  have hw : SECONDS_PER_WEEK = 604800 := rfl
  have b1 : iabs t1 < 604800 := by
    unfold iabs
    cases ext with
    | true => have := ht1.1 rfl; split <;> omega
    | false => have := ht1.2 rfl; split <;> omega
  have b2 : iabs t2 < 604800 := by
    unfold iabs
    cases ext with
    | true => have := ht2.1 rfl; split <;> omega
    | false => have := ht2.2 rfl; split <;> omega
  unfold Alt.new
  rw [if_neg (by simp only [Bool.not_eq_true', Bool.not_eq_false, Bool.and_eq_true, decide_eq_true_eq, hw]; exact ⟨b1, b2⟩)]
  simp only [P.bind_ok]
  rw [← es, ← ed]

theorem tz_roundtrip' (r : Rule) (ext : Bool) (h : RuleOk ext r) :
    from_tz_string (renderTz r) ext = .ok r := by
  cases r with
  | fixed t => exact tz_roundtrip_fixed t ext h
  | alt a => exact tz_roundtrip_alt a ext h

end Chrono.Proofs.Tz
