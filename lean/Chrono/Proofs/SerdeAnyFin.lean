/-
  C20, finite part checked by kernel evaluation: the offset tail `±hh:mm` the RFC 3339 writer can produce
  for ANY offset of less than a day (0 … 1440 minutes after rounding, either sign: 2 882 texts, `±24:00`
  included) is read by the tail of the relaxed reader as that many minutes, with nothing left over.
-/
import Chrono.Model.TextForms
import Chrono.Spec.SerdeStrAnySpec
namespace Chrono.Proofs.SerdeAny
open Chrono Chrono.M Chrono.M.Scan Chrono.M.Format Chrono.Spec.Serde

/-- the offset (seconds) denoted by sign and minutes -/
def signedSecs (neg : Bool) (m : Nat) : Int := if neg then -((m : Int) * 60) else (m : Int) * 60

/-- everything the reader proofs need to know about one tail -/
def tailReadOk (neg : Bool) (m : Nat) : Bool :=
  let s := signedHhmm neg m
  (match timezone_offset s .colonOrSpace true false true with
   | .ok ([], v) => v == signedSecs neg m
   | _ => false) &&
  (wsLen s == 0) &&
  !(decide (s.length ≥ 3) && (lowerS (s.take 3) == [117, 116, 99]))

theorem tails_pos : ∀ m < 1441, tailReadOk false m = true := by decide +kernel
theorem tails_neg : ∀ m < 1441, tailReadOk true m = true := by decide +kernel

end Chrono.Proofs.SerdeAny
