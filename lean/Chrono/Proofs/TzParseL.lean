/- Helper lemmas for C16, part 2: the TZif reader (no panic, validity of accepted zones). -/
import Chrono.Proofs.TzL

namespace Chrono.Proofs.Tz
open Chrono Chrono.M.Tz Chrono.Spec.Tz Chrono.Extracted.TzP

/-! ### primitives -/
theorem beNat_aux_lt (bs : List Nat) (a : Nat) :
    bs.foldl (fun a b => a * 256 + b % 256) a < (a + 1) * 256 ^ bs.length := by
  induction bs generalizing a with
  | nil => simp
  | cons b t ih =>
    simp only [List.foldl_cons, List.length_cons]
    have h := ih (a * 256 + b % 256)
    have h2 : (a * 256 + b % 256 + 1) ≤ (a + 1) * 256 := by omega
    calc _ < (a * 256 + b % 256 + 1) * 256 ^ t.length := h
      _ ≤ ((a + 1) * 256) * 256 ^ t.length := Nat.mul_le_mul_right _ h2
      _ = (a + 1) * 256 ^ (t.length + 1) := by rw [Nat.pow_succ, Nat.mul_assoc, Nat.mul_comm 256]

theorem beNat_lt (bs : List Nat) : beNat bs < 256 ^ bs.length := by
  have := beNat_aux_lt bs 0
  simpa [beNat] using this

theorem post_read_exact (c : Cursor) (n : Nat) :
    Post (read_exact c n) (fun r => r.1.length = n ∧ r.2.length + n = c.length ∧ r.1 = c.take n ∧ r.2 = c.drop n) := by
  rcases read_exact_cases c n with ⟨h1, h⟩ | h <;> rw [h]
  · refine post_ok ⟨?_, ?_, rfl, rfl⟩
    · simp [List.length_take]; omega
    · simp [List.length_drop]; omega
  · exact post_err

theorem post_read_be_u32 (c : Cursor) :
    Post (read_be_u32 c) (fun r => r.1 < 4294967296 ∧ r.2.length + 4 = c.length) := by
  unfold read_be_u32
  have h := post_read_exact c 4
  cases hr : read_exact c 4 with
  | err => exact post_err
  | panic => rw [hr] at h; exact h.elim
  | ok a =>
    rw [hr] at h
    obtain ⟨bs, c'⟩ := a
    obtain ⟨h1, h2, -, -⟩ := h
    dsimp only at h1 h2 ⊢
    refine post_ok ⟨?_, h2⟩
    have := beNat_lt bs
    rw [h1] at this
    simpa using this

/-! ### header and data blocks -/
def HeaderV (h : Header) : Prop :=
  h.ut_local_count < 4294967296 ∧ h.std_wall_count < 4294967296 ∧ h.leap_count < 4294967296
    ∧ h.transition_count < 4294967296 ∧ h.type_count < 4294967296 ∧ h.char_count < 4294967296
    ∧ h.type_count ≠ 0 ∧ h.char_count ≠ 0

theorem post_header_new (c : Cursor) :
    Post (Header.new c) (fun r => HeaderV r.1 ∧ r.2.length ≤ c.length) := by
  unfold Header.new
  refine post_bind (post_read_exact _ _) ?_
  rintro ⟨magic, c1⟩ - ⟨-, l1, -, -⟩
  dsimp only at l1 ⊢
  split
  · exact post_err
  · refine post_bind (post_read_exact _ _) ?_
    rintro ⟨vb, c2⟩ - ⟨-, l2, -, -⟩
    dsimp only at l2 ⊢
    split
    · exact post_err
    · refine post_bind (post_read_exact _ _) ?_
      rintro ⟨rs, c3⟩ - ⟨-, l3, -, -⟩
      refine post_bind (post_read_be_u32 _) ?_
      rintro ⟨n1, c4⟩ - ⟨b1, l4⟩
      refine post_bind (post_read_be_u32 _) ?_
      rintro ⟨n2, c5⟩ - ⟨b2, l5⟩
      refine post_bind (post_read_be_u32 _) ?_
      rintro ⟨n3, c6⟩ - ⟨b3, l6⟩
      refine post_bind (post_read_be_u32 _) ?_
      rintro ⟨n4, c7⟩ - ⟨b4, l7⟩
      refine post_bind (post_read_be_u32 _) ?_
      rintro ⟨n5, c8⟩ - ⟨b5, l8⟩
      refine post_bind (post_read_be_u32 _) ?_
      rintro ⟨n6, c9⟩ - ⟨b6, l9⟩
      dsimp only at l3 l4 l5 l6 l7 l8 l9 b1 b2 b3 b4 b5 b6 ⊢
      split
      · exact post_err
      · rename_i g
        simp only [Bool.not_eq_true', Bool.not_eq_false, Bool.and_eq_true, bne_iff_ne, ne_eq] at g
        refine post_ok ⟨⟨b1, b2, b3, b4, b5, b6, g.1.1.1, g.1.1.2⟩, ?_⟩
        dsimp only
        omega

/-- the shape of a decoded pair of blocks -/
def StateV (first : Bool) (st : State) (total : Nat) : Prop :=
  HeaderV st.header ∧ st.time_size = (if first then 4 else 8)
    ∧ st.transition_times.length = st.header.transition_count * st.time_size
    ∧ st.transition_types.length = st.header.transition_count
    ∧ st.local_time_types.length = st.header.type_count * 6
    ∧ st.names.length = st.header.char_count
    ∧ st.leap_seconds.length = st.header.leap_count * (st.time_size + 4)
    ∧ st.header.transition_count * st.time_size ≤ total
    ∧ st.header.type_count * 6 ≤ total
    ∧ st.header.leap_count * (st.time_size + 4) ≤ total

theorem ckUsz_ok {x : Nat} (h : x < 18446744073709551616) : ckUsz x = .ok x := by
  simp [ckUsz, h]

theorem post_state_new (c : Cursor) (first : Bool) :
    Post (State.new c first) (fun r => StateV first r.1 c.length ∧ r.2.length ≤ c.length) := by
  unfold State.new
  refine post_bind (post_header_new _) ?_
  rintro ⟨hd, c0⟩ - ⟨hv, l0⟩
  obtain ⟨b1, b2, b3, b4, b5, b6, nz1, nz2⟩ := hv
  dsimp only at b1 b2 b3 b4 b5 b6 nz1 nz2
  have k : TYPE_RECORD = 6 := rfl
  have hts : (if first = true then 4 else 8) ≤ 8 := by split <;> omega
  dsimp only at l0 ⊢
  generalize hT : (if first = true then 4 else 8) = ts at hts ⊢
  rw [ckUsz_ok (by
    have : hd.transition_count * ts ≤ 4294967296 * 8 := Nat.mul_le_mul (by omega) hts
    omega)]
  simp only [P.bind_ok]
  refine post_bind (post_read_exact _ _) ?_
  rintro ⟨tt, c1⟩ - ⟨e1, l1, -, -⟩
  refine post_bind (post_read_exact _ _) ?_
  rintro ⟨ty, c2⟩ - ⟨e2, l2, -, -⟩
  rw [k, ckUsz_ok (by omega)]
  simp only [P.bind_ok]
  refine post_bind (post_read_exact _ _) ?_
  rintro ⟨lt, c3⟩ - ⟨e3, l3, -, -⟩
  refine post_bind (post_read_exact _ _) ?_
  rintro ⟨nm, c4⟩ - ⟨e4, l4, -, -⟩
  rw [ckUsz_ok (by
    have : hd.leap_count * (ts + 4) ≤ 4294967296 * 12 := Nat.mul_le_mul (by omega) (by omega)
    omega)]
  simp only [P.bind_ok]
  refine post_bind (post_read_exact _ _) ?_
  rintro ⟨ls, c5⟩ - ⟨e5, l5, -, -⟩
  refine post_bind (post_read_exact _ _) ?_
  rintro ⟨sw, c6⟩ - ⟨e6, l6, -, -⟩
  refine post_bind (post_read_exact _ _) ?_
  rintro ⟨ul, c7⟩ - ⟨e7, l7, -, -⟩
  dsimp only at e1 e2 e3 e4 e5 e6 e7 l1 l2 l3 l4 l5 l6 l7 ⊢
  refine post_ok ⟨⟨⟨b1, b2, b3, b4, b5, b6, nz1, nz2⟩, hT.symm ▸ rfl, e1, e2, e3, e4, e5, ?_, ?_, ?_⟩, ?_⟩
  all_goals dsimp only
  all_goals omega

/-! ### the record loops -/
theorem chunksN_len (k n : Nat) (l : List Nat) (h : k * n ≤ l.length) :
    ∀ a ∈ chunksN k n l, a.length = n := by
  induction k generalizing l with
  | zero => intro a ha; simp [chunksN] at ha
  | succ k ih =>
    intro a ha
    simp only [chunksN, List.mem_cons] at ha
    have hn : n ≤ l.length := by
      have : n ≤ (k + 1) * n := Nat.le_mul_of_pos_left n (by omega)
      omega
    rcases ha with rfl | ha
    · simp [List.length_take]; omega
    · refine ih (l.drop n) ?_ a ha
      simp only [List.length_drop]
      have : (k + 1) * n = k * n + n := by rw [Nat.add_mul, Nat.one_mul]
      omega

theorem chunks_exact_len (n : Nat) (l : List Nat) : ∀ a ∈ chunks_exact n l, a.length = n :=
  chunksN_len _ _ _ (Nat.div_mul_le_self _ _)

theorem slice_ok (l : List Nat) (a b : Nat) (h1 : a ≤ b) (h2 : b ≤ l.length) :
    slice l a b = .ok ((l.drop a).take (b - a)) := by
  simp [slice, h1, h2]

theorem slice_len (l : List Nat) (a b : Nat) (h1 : a ≤ b) (h2 : b ≤ l.length) :
    ((l.drop a).take (b - a)).length = b - a := by
  simp [List.length_take, List.length_drop]; omega

def I64r (x : Int) : Prop := -9223372036854775808 ≤ x ∧ x ≤ 9223372036854775807

theorem asI32_range (x : Int) : I32r (asI32 x) := by
  unfold I32r asI32
  dsimp only
  split <;> omega

theorem asI64_range (x : Int) : I64r (asI64 x) := by
  unfold I64r asI64
  dsimp only
  split <;> omega

theorem post_read_be_i32 (bs : List Nat) : Post (read_be_i32 bs) I32r := by
  unfold read_be_i32
  split
  · exact post_err
  · exact post_ok (asI32_range _)

theorem post_read_be_i64 (bs : List Nat) : Post (read_be_i64 bs) I64r := by
  unfold read_be_i64
  split
  · exact post_err
  · exact post_ok (asI64_range _)

theorem post_parse_time (arr : List Nat) (v : Version) (h : 4 ≤ arr.length) :
    Post (parse_time arr v) I64r := by
  unfold parse_time
  cases v with
  | V1 =>
    dsimp only
    rw [slice_ok _ _ _ (by omega) h]
    simp only [P.bind_ok]
    exact post_mono (post_read_be_i32 _) (fun a ha => by unfold I32r at ha; unfold I64r; omega)
  | V2 => exact post_read_be_i64 _
  | V3 => exact post_read_be_i64 _

theorem post_parseTransitions (ts : Nat) (v : Version) (hts : 4 ≤ ts)
    (l : List (List Nat × Nat)) (hl : ∀ p ∈ l, p.1.length = ts) :
    Post (parseTransitions ts v l) (fun r => ∀ t ∈ r, I64r t.time) := by
  induction l with
  | nil => exact post_ok (by simp)
  | cons p rest ih =>
    obtain ⟨arr, ty⟩ := p
    simp only [parseTransitions]
    have ha : arr.length = ts := hl (arr, ty) (by simp)
    rw [slice_ok _ _ _ (by omega) (by omega)]
    simp only [P.bind_ok]
    refine post_bind (post_parse_time _ v ?_) ?_
    · simp [List.length_take]; omega
    · intro t _ ht
      refine post_bind (ih (fun p hp => hl p (List.mem_cons_of_mem _ hp))) ?_
      intro ts' _ hts'
      refine post_ok ?_
      intro x hx
      simp only [List.mem_cons] at hx
      rcases hx with rfl | hx
      · exact ht
      · exact hts' x hx

theorem nulPos_lt (l : List Nat) (p : Nat) (h : nulPos l = some p) : p < l.length := by
  induction l generalizing p with
  | nil => simp [nulPos] at h
  | cons c t ih =>
    simp only [nulPos] at h
    split at h
    · simp at h; subst h; simp
    · cases hn : nulPos t with
      | none => simp [hn] at h
      | some q =>
        simp [hn] at h
        subst h
        have := ih q hn
        simp; omega

/-- a decoded local time type: offset in `i32` and strictly within 24 h, designation legal -/
def LttOkZ (t : Ltt) : Prop := I32r t.off ∧ (-86400 < t.off ∧ t.off < 86400) ∧ ∀ n, t.name = some n → NameOk n

theorem idx_ok (l : List Nat) (i : Nat) (h : i < l.length) : ∃ b, idx l i = .ok b := by
  unfold idx
  rw [List.getElem?_eq_getElem h]
  exact ⟨_, rfl⟩

theorem post_parseType (cc : Nat) (names arr : List Nat) (hn : names.length = cc)
    (hcc : cc < 4294967296) (ha : arr.length = 6) :
    Post (parseType cc names arr) LttOkZ := by
  unfold parseType
  rw [slice_ok _ _ _ (by omega) (by omega)]
  simp only [P.bind_ok]
  refine post_bind (post_read_be_i32 _) ?_
  intro off _ hoff
  obtain ⟨b4, h4⟩ := idx_ok arr 4 (by omega)
  rw [h4]; simp only [P.bind_ok]
  refine post_bind (Q := fun _ => True) ?_ ?_
  · split <;> trivial
  · intro dst _ _
    obtain ⟨b5, h5⟩ := idx_ok arr 5 (by omega)
    rw [h5]; simp only [P.bind_ok]
    split
    · exact post_err
    · rename_i g
      have hs : sliceFrom names b5 = .ok (names.drop b5) := by simp [sliceFrom]; omega
      rw [hs]; simp only [P.bind_ok]
      split
      · exact post_err
      · rename_i pos hp
        have hpos := nulPos_lt _ _ hp
        simp only [List.length_drop] at hpos
        rw [ckUsz_ok (by omega)]
        simp only [P.bind_ok]
        rw [slice_ok _ _ _ (by omega) (by omega)]
        simp only [P.bind_ok]
        refine post_mono (post_ltt_new _ _ _) ?_
        rintro t ⟨rfl, h1, h2⟩
        exact ⟨hoff, h1, h2⟩

theorem post_parseTypes (cc : Nat) (names : List Nat) (hn : names.length = cc) (hcc : cc < 4294967296)
    (l : List (List Nat)) (hl : ∀ a ∈ l, a.length = 6) :
    Post (parseTypes cc names l) (fun r => r.length = l.length ∧ ∀ t ∈ r, LttOkZ t) := by
  induction l with
  | nil => exact post_ok (by simp)
  | cons arr rest ih =>
    simp only [parseTypes]
    refine post_bind (post_parseType cc names arr hn hcc (hl arr (by simp))) ?_
    intro t _ ht
    refine post_bind (ih (fun a ha => hl a (List.mem_cons_of_mem _ ha))) ?_
    intro ts _ ⟨hlen, hts⟩
    refine post_ok ⟨by simp [hlen], ?_⟩
    intro x hx
    simp only [List.mem_cons] at hx
    rcases hx with rfl | hx
    · exact ht
    · exact hts x hx

def LeapOkZ (l : LeapSecond) : Prop := I64r l.time ∧ I32r l.corr

theorem post_parseLeap (ts : Nat) (v : Version) (hts : ts = 4 ∨ ts = 8) (arr : List Nat)
    (ha : arr.length = ts + 4) : Post (parseLeap ts v arr) LeapOkZ := by
  unfold parseLeap
  rw [slice_ok _ _ _ (by omega) (by omega)]
  simp only [P.bind_ok]
  refine post_bind (post_parse_time _ v ?_) ?_
  · simp [List.length_take]; omega
  · intro t _ ht
    rw [ckUsz_ok (by omega)]
    simp only [P.bind_ok]
    rw [slice_ok _ _ _ (by omega) (by omega)]
    simp only [P.bind_ok]
    refine post_bind (post_read_be_i32 _) ?_
    intro corr _ hc
    exact post_ok ⟨ht, hc⟩

theorem post_parseLeaps (ts : Nat) (v : Version) (hts : ts = 4 ∨ ts = 8) (l : List (List Nat))
    (hl : ∀ a ∈ l, a.length = ts + 4) :
    Post (parseLeaps ts v l) (fun r => ∀ x ∈ r, LeapOkZ x) := by
  induction l with
  | nil => exact post_ok (by simp)
  | cons arr rest ih =>
    simp only [parseLeaps]
    refine post_bind (post_parseLeap ts v hts arr (hl arr (by simp))) ?_
    intro t _ ht
    refine post_bind (ih (fun a ha => hl a (List.mem_cons_of_mem _ ha))) ?_
    intro ls _ hls
    refine post_ok ?_
    intro x hx
    simp only [List.mem_cons] at hx
    rcases hx with rfl | hx
    · exact ht
    · exact hls x hx

theorem post_parseFooter (f : List Nat) (v : Version) :
    Post (parseFooter f v) (fun r => ∀ x, r = some x → RuleV x) := by
  unfold parseFooter
  split
  · exact post_err
  · split
    · exact post_err
    · dsimp only
      split
      · exact post_err
      · split
        · exact post_ok (by simp)
        · refine post_bind (post_from_tz_string _ _) ?_
          intro r _ hr
          exact post_ok (by intro x hx; cases hx; exact hr)

/-! ### `validate` -/
theorem takeWhile_len_le {α} (p : α → Bool) (l : List α) : (l.takeWhile p).length ≤ l.length := by
  induction l with
  | nil => simp
  | cons a t ih =>
    simp only [List.takeWhile_cons]
    split
    · simp; omega
    · simp

theorem checkTransitions_spec (n : Nat) (l : List Transition) (h : checkTransitions n l = true) :
    SortedStrict l ∧ ∀ t ∈ l, t.idx < n := by
  induction l with
  | nil => exact ⟨trivial, by simp⟩
  | cons t rest ih =>
    simp only [checkTransitions, Bool.and_eq_true, decide_eq_true_eq] at h
    obtain ⟨⟨h1, h2⟩, h3⟩ := h
    obtain ⟨ih1, ih2⟩ := ih h3
    refine ⟨?_, ?_⟩
    · cases rest with
      | nil => trivial
      | cons u r2 =>
        simp only [decide_eq_true_eq] at h2
        exact ⟨h2, ih1⟩
    · intro x hx
      simp only [List.mem_cons] at hx
      rcases hx with rfl | hx
      · exact h1
      · exact ih2 x hx

theorem post_ulttut (leaps : List LeapSecond) (t : Int) (ht : I64r t) :
    Post (unix_leap_time_to_unix_time leaps t) (fun _ => True) := by
  unfold unix_leap_time_to_unix_time
  unfold I64r at ht
  split
  · exact post_err
  · rename_i g
    simp only [I64_MIN] at g
    rw [ck64_ok (by omega) (by omega)]
    simp only [P.bind_ok]
    refine post_bind (Q := fun _ => True) ?_ ?_
    · split
      · rename_i hi
        have hle : bsearchUpper (leaps.map (·.time)) (t - 1) ≤ leaps.length := by
          unfold bsearchUpper
          have := takeWhile_len_le (fun k => decide (k ≤ t - 1)) (leaps.map (·.time))
          simpa using this
        have hlt : bsearchUpper (leaps.map (·.time)) (t - 1) - 1 < leaps.length := by omega
        rw [List.getElem?_eq_getElem hlt]
        trivial
      · trivial
    · intro corr _ _
      split <;> trivial

theorem post_validate (z : Zone) (ht : ∀ t ∈ z.transitions, I64r t.time)
    (hr : ∀ r, z.rule = some r → RuleV r) :
    Post (validate z) (fun _ => z.types ≠ [] ∧ SortedStrict z.transitions
      ∧ ∀ t ∈ z.transitions, t.idx < z.types.length) := by
  unfold validate
  split
  · exact post_err
  · rename_i g0
    split
    · exact post_err
    · rename_i g1
      simp only [Bool.not_eq_true', Bool.not_eq_false] at g1
      have hv := checkTransitions_spec _ _ g1
      have hne : z.types ≠ [] := by
        intro h; apply g0; rw [h]; rfl
      split
      · exact post_err
      · split
        · rename_i rule last hrule hlast
          have hmem : last ∈ z.transitions := List.mem_of_getLast? hlast
          have hidx := hv.2 last hmem
          rw [List.getElem?_eq_getElem hidx]
          simp only [P.bind_ok]
          refine post_bind (post_ulttut _ _ (ht last hmem)) ?_
          intro ut _ _
          refine post_bind (post_rule_find rule ut (hr rule hrule)) ?_
          intro rl _ _
          split
          · exact post_ok ⟨hne, hv⟩
          · exact post_err
        · exact post_ok ⟨hne, hv⟩

/-! ### the whole reader -/
theorem stateV_mono {first : Bool} {st : State} {n m : Nat} (h : StateV first st n) (hnm : n ≤ m) :
    StateV first st m := by
  obtain ⟨a, b, c, d, e, f, g, h1, h2, h3⟩ := h
  exact ⟨a, b, c, d, e, f, g, by omega, by omega, by omega⟩

theorem post_parseBlocks (bytes : List Nat) :
    Post (parseBlocks bytes) (fun r => StateV true r.1 bytes.length ∨ StateV false r.1 bytes.length) := by
  unfold parseBlocks
  refine post_bind (post_state_new _ _) ?_
  rintro ⟨st1, c1⟩ - ⟨hv1, l1⟩
  dsimp only at l1 ⊢
  split
  · split
    · exact post_ok (Or.inl hv1)
    · exact post_err
  · refine post_bind (post_state_new _ _) ?_
    rintro ⟨st2, c2⟩ - ⟨hv2, -⟩
    dsimp only
    split
    · exact post_err
    · exact post_ok (Or.inr (stateV_mono hv2 l1))

theorem post_zone_new (tr : List Transition) (ty : List Ltt) (lp : List LeapSecond) (r : Option Rule)
    (ht : ∀ t ∈ tr, I64r t.time) (hty : ∀ t ∈ ty, LttOkZ t) (hr : ∀ x, r = some x → RuleV x) :
    Post (Zone.new tr ty lp r) ZoneValid := by
  unfold Zone.new
  refine post_bind (post_validate ⟨tr, ty, lp, r⟩ ht hr) ?_
  rintro _ - ⟨h1, h2, h3⟩
  exact post_ok ⟨h1, h2, h3, fun t htm => ⟨(hty t htm).2.1, (hty t htm).2.2⟩⟩

theorem post_parse_of_state (st : State) (footer : Option (List Nat))
    (hs : StateV true st n ∨ StateV false st n) : Post (parseRest st footer) ZoneValid := by
  unfold parseRest
  have hts : st.time_size = 4 ∨ st.time_size = 8 := by
    rcases hs with h | h
    · exact Or.inl (by simpa using h.2.1)
    · exact Or.inr (by simpa using h.2.1)
  have hh : HeaderV st.header ∧ st.names.length = st.header.char_count := by
    rcases hs with h | h <;> exact ⟨h.1, h.2.2.2.2.2.1⟩
  obtain ⟨hhv, hnames⟩ := hh
  refine post_bind (post_parseTransitions _ _ (by omega) _ ?_) ?_
  · rintro ⟨a, ty⟩ hp
    exact chunks_exact_len _ _ a (List.of_mem_zip hp).1
  · intro tr _ htr
    refine post_bind (post_parseTypes _ _ hnames hhv.2.2.2.2.2.1 _ (chunks_exact_len 6 _)) ?_
    intro ty _ ⟨_, hty⟩
    refine post_bind (post_parseLeaps _ _ hts _ (chunks_exact_len _ _)) ?_
    intro lp _ _
    split
    · exact post_err
    · refine post_bind (Q := fun r => ∀ x, r = some x → RuleV x) ?_ ?_
      · cases footer with
        | none => exact post_ok (by simp)
        | some f => exact post_parseFooter _ _
      · intro r _ hr
        exact post_zone_new _ _ _ _ htr hty hr

theorem post_parse (bytes : List Nat) : Post (parse bytes) ZoneValid := by
  unfold parse
  refine post_bind (post_parseBlocks bytes) ?_
  rintro ⟨st, footer⟩ - hs
  exact post_parse_of_state st footer hs

theorem capacities_le (bytes : List Nat) : ∀ c ∈ capacities bytes, c ≤ bytes.length := by
  unfold capacities
  have h := post_parseBlocks bytes
  cases hp : parseBlocks bytes with
  | err => simp
  | panic => simp
  | ok a =>
    obtain ⟨st, f⟩ := a
    rw [hp] at h
    have key : st.header.transition_count ≤ bytes.length ∧ st.header.type_count ≤ bytes.length
        ∧ st.header.leap_count ≤ bytes.length := by
      rcases h with h | h
      all_goals
        obtain ⟨_, hts, _, _, _, _, _, b1, b2, b3⟩ := h
        dsimp only at hts b1 b2 b3
        simp only [if_true, Bool.false_eq_true, if_false] at hts
        rw [hts] at b1 b3
        refine ⟨?_, ?_, ?_⟩ <;> omega
    intro c hc
    simp only [List.mem_cons, List.mem_nil_iff, or_false] at hc
    rcases hc with rfl | rfl | rfl
    · exact key.1
    · exact key.2.1
    · exact key.2.2

/-! ### rejections -/
theorem parse_err_of_header (bytes : List Nat) (h : Header.new bytes = .err) : parse bytes = .err := by
  simp [parse, parseBlocks, State.new, h]

theorem rejects_bad_magic' (bytes : List Nat) (h : bytes.take 4 ≠ MAGIC) : parse bytes = .err := by
  apply parse_err_of_header
  unfold Header.new
  rcases read_exact_cases bytes 4 with ⟨_, e⟩ | e <;> rw [e]
  · simp [h]
  · rfl

theorem rejects_bad_version' (bytes : List Nat) (h : versionOf ((bytes.drop 4).take 1) = none) :
    parse bytes = .err := by
  apply parse_err_of_header
  unfold Header.new
  rcases read_exact_cases bytes 4 with ⟨_, e⟩ | e <;> rw [e]
  · simp only [P.bind_ok]
    split
    · rfl
    · rcases read_exact_cases (bytes.drop 4) 1 with ⟨_, e2⟩ | e2 <;> rw [e2]
      · simp only [P.bind_ok, h]
      · rfl
  · rfl

theorem footer_framing' (f : List Nat) (v : Version)
    (h : ¬ (f.head? = some 10 ∧ f.getLast? = some 10)) : parseFooter f v = .err := by
  unfold parseFooter
  split
  · rfl
  · split
    · rfl
    · rename_i g
      simp only [Bool.or_eq_true, decide_eq_true_eq, Bool.not_eq_true', Bool.and_eq_false_iff, not_or,
        Bool.not_eq_false, beq_iff_eq] at g
      exact absurd g.2 h

/-- repair of finding F36: a footer shorter than two bytes is refused, whatever it is -/
theorem footer_short' (f : List Nat) (v : Version) (h : f.length < 2) : parseFooter f v = .err := by
  unfold parseFooter
  split
  · rfl
  · rw [if_pos (by simp [h])]

theorem footer_colon_nul' (f : List Nat) (v : Version)
    (h : (trimWs f).head? = some 58 ∨ 0 ∈ trimWs f) : parseFooter f v = .err := by
  unfold parseFooter
  split
  · rfl
  · split
    · rfl
    · dsimp only
      split
      · rfl
      · rename_i g
        simp only [Bool.or_eq_true, beq_iff_eq, List.contains_iff_mem, not_or] at g
        rcases h with h | h
        · exact absurd h g.1
        · exact absurd h g.2

end Chrono.Proofs.Tz
