/- Helper lemmas for C17: corollaries (meaning of the closed forms, bounds, fixed points, errors). -/
import Chrono.Proofs.RoundTdL
import Chrono.Proofs.RoundSubL

namespace Chrono.Proofs.RoundL
open Chrono Chrono.M Chrono.M.Round Chrono.Spec Chrono.Spec.Round Chrono.Extracted.Round

/-- the closed forms are what the property statement says -/
theorem spec_meaning' (s span : Int) (hp : 0 < span) :
    (span ∣ truncSpec s span ∧ truncSpec s span ≤ s ∧
      ∀ m, span ∣ m → m ≤ s → m ≤ truncSpec s span) ∧
    (span ∣ upSpec s span ∧ s ≤ upSpec s span ∧
      ∀ m, span ∣ m → s ≤ m → upSpec s span ≤ m) ∧
    ((roundSpec s span = truncSpec s span ∨ roundSpec s span = upSpec s span) ∧
      (∀ m, span ∣ m → m ≤ s → roundSpec s span - s ≤ s - m ∧ s - roundSpec s span ≤ s - m) ∧
      (∀ m, span ∣ m → s ≤ m → roundSpec s span - s ≤ m - s ∧ s - roundSpec s span ≤ m - s) ∧
      (upSpec s span - s = s - truncSpec s span → roundSpec s span = upSpec s span)) := by
  obtain ⟨hr0, hr1⟩ := emod_bounds s span hp
  obtain ⟨hu0, hu1⟩ := emod_bounds (-s) span hp
  have ht : truncSpec s span = s - s % span := rfl
  have hu : upSpec s span = s + (-s) % span := rfl
  have hround : (upSpec s span - s ≤ s - truncSpec s span ∧ roundSpec s span = upSpec s span) ∨
      (¬ (upSpec s span - s ≤ s - truncSpec s span) ∧ roundSpec s span = truncSpec s span) := by
    unfold roundSpec
    by_cases h : upSpec s span - s ≤ s - truncSpec s span
    · exact Or.inl ⟨h, if_pos h⟩
    · exact Or.inr ⟨h, if_neg h⟩
  refine ⟨⟨truncSpec_dvd s span, by omega, fun m hm hle => dvd_le_truncSpec s span m hp hm hle⟩,
    ⟨upSpec_dvd s span, by omega, fun m hm hle => upSpec_le_dvd s span m hp hm hle⟩, ?_, ?_, ?_, ?_⟩
  · rcases hround with h | h
    · exact Or.inr h.2
    · exact Or.inl h.2
  · intro m hm hle
    have := dvd_le_truncSpec s span m hp hm hle
    rcases hround with h | h <;> omega
  · intro m hm hle
    have := upSpec_le_dvd s span m hp hm hle
    rcases hround with h | h <;> omega
  · intro h
    rcases hround with h' | h'
    · exact h'.2
    · omega

theorem spec_bounds (k : Kind) (s span : Int) (hp : 0 < span) :
    -span < specOf k s span - s ∧ specOf k s span - s < span := by
  obtain ⟨hr0, hr1⟩ := emod_bounds s span hp
  have hn := neg_emod' s span hp
  have hr := roundSpec_eq s span hp
  cases k
  · show -span < truncSpec s span - s ∧ truncSpec s span - s < span
    unfold truncSpec; omega
  · show -span < roundSpec s span - s ∧ roundSpec s span - s < span
    rw [hr]; split <;> omega
  · show -span < upSpec s span - s ∧ upSpec s span - s < span
    unfold upSpec
    by_cases hz : s % span = 0
    · rw [if_pos hz] at hn; omega
    · rw [if_neg hz] at hn; omega

theorem spec_sides (s span : Int) (hp : 0 < span) :
    truncSpec s span ≤ s ∧ s ≤ upSpec s span ∧
    2 * (roundSpec s span - s) ≤ span ∧ -span < 2 * (roundSpec s span - s) := by
  obtain ⟨hr0, hr1⟩ := emod_bounds s span hp
  obtain ⟨hu0, hu1⟩ := emod_bounds (-s) span hp
  have hr := roundSpec_eq s span hp
  rw [hr]
  unfold truncSpec upSpec
  refine ⟨by omega, by omega, ?_, ?_⟩
  all_goals split <;> omega

/-- a stamp is a multiple exactly when the operation leaves it alone -/
theorem spec_fixed_iff (k : Kind) (s span : Int) (hp : 0 < span) :
    span ∣ s ↔ specOf k s span = s := by
  obtain ⟨hr0, hr1⟩ := emod_bounds s span hp
  have hn := neg_emod' s span hp
  have hr := roundSpec_eq s span hp
  constructor
  · intro h
    have hz := Int.emod_eq_zero_of_dvd h
    rw [if_pos hz] at hn
    cases k
    · simp only [specOf, truncSpec]; omega
    · simp only [specOf]; rw [hr, if_neg (by omega)]; omega
    · simp only [specOf, upSpec]; omega
  · intro h
    apply Int.dvd_of_emod_eq_zero
    cases k
    · simp only [specOf, truncSpec] at h; omega
    · simp only [specOf] at h
      rw [hr] at h
      by_cases hc : s % span ≠ 0 ∧ span - s % span ≤ s % span
      · rw [if_pos hc] at h; omega
      · rw [if_neg hc] at h; omega
    · simp only [specOf, upSpec] at h
      by_cases hz : s % span = 0
      · exact hz
      · rw [if_neg hz] at hn; omega

theorem spec_dvd (k : Kind) (s span : Int) (hp : 0 < span) : span ∣ specOf k s span := by
  cases k
  · exact truncSpec_dvd s span
  · have := (spec_meaning' s span hp).2.2.1
    rcases this with h | h
    · simp only [specOf]; rw [h]; exact truncSpec_dvd s span
    · simp only [specOf]; rw [h]; exact upSpec_dvd s span
  · exact upSpec_dvd s span

theorem spec_idem (k : Kind) (s span : Int) (hp : 0 < span) :
    specOf k (specOf k s span) span = specOf k s span :=
  (spec_fixed_iff k _ span hp).mp (spec_dvd k s span hp)

/-- the three results are ordered and at most one span apart -/
theorem spec_order (s span : Int) (hp : 0 < span) :
    truncSpec s span ≤ roundSpec s span ∧ roundSpec s span ≤ upSpec s span ∧
    (upSpec s span - truncSpec s span = 0 ∨ upSpec s span - truncSpec s span = span) := by
  obtain ⟨hr0, hr1⟩ := emod_bounds s span hp
  have hn := neg_emod' s span hp
  have hr := roundSpec_eq s span hp
  rw [hr]
  simp only [truncSpec, upSpec]
  by_cases hz : s % span = 0
  · rw [if_pos hz] at hn
    rw [if_neg (by omega)]
    omega
  · rw [if_neg hz] at hn
    refine ⟨?_, ?_, by omega⟩
    all_goals split <;> omega

/-- errors, exactly; never a panic -/
theorem err_iff' (op : Op) (stamp span : Option Int)
    (hspan : ∀ p, span = some p → p ≤ 9223372036854775807) :
    (run op stamp span = .ok (.err .DurationExceedsLimit) ↔
        (span = none ∨ ∃ p, span = some p ∧ p ≤ 0)) ∧
    (run op stamp span = .ok (.err .TimestampExceedsLimit) ↔
        ((∃ p, span = some p ∧ 0 < p) ∧ stamp = none)) ∧
    ((∃ d, run op stamp span = .ok (.ok d)) ↔
        ((∃ p, span = some p ∧ 0 < p) ∧ ∃ s, stamp = some s)) ∧
    run op stamp span ≠ .panic ∧
    run op stamp span ≠ .ok (.err .DurationExceedsTimestamp) := by
  cases span with
  | none =>
    rw [run_span_none]
    refine ⟨⟨fun _ => Or.inl rfl, fun _ => rfl⟩, ⟨fun h => (by cases h), fun h => ?_⟩,
      ⟨fun h => ?_, fun h => ?_⟩, (by intro h; cases h), (by intro h; cases h)⟩
    · obtain ⟨⟨p, hp, _⟩, _⟩ := h; cases hp
    · obtain ⟨d, hd⟩ := h; cases hd
    · obtain ⟨⟨p, hp, _⟩, _⟩ := h; cases hp
  | some p =>
    by_cases hp : p ≤ 0
    · rw [run_span_nonpos op stamp p hp]
      refine ⟨⟨fun _ => Or.inr ⟨p, rfl, hp⟩, fun _ => rfl⟩, ⟨fun h => (by cases h), fun h => ?_⟩,
        ⟨fun h => ?_, fun h => ?_⟩, (by intro h; cases h), (by intro h; cases h)⟩
      · obtain ⟨⟨q, hq, hq2⟩, _⟩ := h; cases hq; omega
      · obtain ⟨d, hd⟩ := h; cases hd
      · obtain ⟨⟨q, hq, hq2⟩, _⟩ := h; cases hq; omega
    · have hp' : 0 < p := by omega
      cases stamp with
      | none =>
        rw [run_stamp_none op p hp']
        refine ⟨⟨fun h => (by cases h), fun h => ?_⟩, ⟨fun _ => ⟨⟨p, rfl, hp'⟩, rfl⟩, fun _ => rfl⟩,
          ⟨fun h => ?_, fun h => ?_⟩, (by intro h; cases h), (by intro h; cases h)⟩
        · rcases h with h | ⟨q, hq, hq2⟩
          · cases h
          · cases hq; omega
        · obtain ⟨d, hd⟩ := h; cases hd
        · obtain ⟨_, s, hs⟩ := h; cases hs
      | some s =>
        rw [run_eval' op s p hp' (hspan p rfl)]
        refine ⟨⟨fun h => (by cases h), fun h => ?_⟩, ⟨fun h => (by cases h), fun h => ?_⟩,
          ⟨fun _ => ⟨⟨p, rfl, hp'⟩, s, rfl⟩, fun _ => ⟨_, rfl⟩⟩, (by intro h; cases h), (by intro h; cases h)⟩
        · rcases h with h | ⟨q, hq, hq2⟩
          · cases h
          · cases hq; omega
        · obtain ⟨_, h⟩ := h; cases h

/-- the meaning of the sub-second results: the field stays in its second (leap fraction kept) or is
exactly the start of the next second -/
theorem subsec_meaning' (frac : Int) (d : Nat) (h0 : 0 ≤ frac) (h1 : frac < 2000000000) :
    let base := leapBase frac
    let t := truncSubsecSpec frac d
    let r := roundSubsecSpec frac d
    (t.2 = 0 ∧ t.1 = truncSpec frac (digitSpan d) ∧ base ≤ t.1 ∧ t.1 ≤ frac ∧ frac - t.1 < digitSpan d) ∧
    ((r.2 = 0 ∧ r.1 = roundSpec frac (digitSpan d) ∧ base ≤ r.1 ∧ r.1 < base + 1000000000) ∨
     (r.2 = 1 ∧ r.1 = 0 ∧ roundSpec frac (digitSpan d) = base + 1000000000)) ∧
    (9 ≤ d → t = (frac, 0) ∧ r = (frac, 0)) := by
  intro base t r
  have hlit := digitSpan_cases d
  have hd9 : 9 ≤ d → digitSpan d = 1 := by
    intro h; unfold digitSpan
    have hm : min 9 d = 9 := by omega
    rw [hm]; decide
  have hpos : 0 < digitSpan d := by omega
  have hr := roundSpec_eq frac (digitSpan d) hpos
  have ht : truncSpec frac (digitSpan d) = frac - frac % digitSpan d := rfl
  have et : t = fieldOf (leapBase frac) (truncSpec frac (digitSpan d)) := rfl
  have er : r = fieldOf (leapBase frac) (roundSpec frac (digitSpan d)) := rfl
  have eb : base = leapBase frac := rfl
  rw [et, er, eb, hr, ht]
  clear et er eb hr ht hpos
  generalize digitSpan d = K at *
  unfold fieldOf leapBase
  refine ⟨?_, ?_, ?_⟩
  · rcases hlit with h | h | h | h | h | h | h | h | h | h <;> subst h <;>
    · repeat' split
      all_goals omega
  · rcases hlit with h | h | h | h | h | h | h | h | h | h <;> subst h <;>
    · repeat' split
      all_goals omega
  · intro h9
    have := hd9 h9
    subst this
    repeat' split
    all_goals first
      | omega
      | (simp only [Prod.mk.injEq, and_true]; omega)

end Chrono.Proofs.RoundL
