/-
  Helper lemmas for Props/GenDate.lean that do not mention the generated definitions' equalities: ranges of what
  the model's table look-ups return, and the packed date / ISO-week words as sums of their fields.
-/
import Chrono.Proofs.GenL
import Chrono.Model.DateOps

namespace Chrono.Proofs.GenDateL
open Chrono Chrono.M Chrono.Extracted Chrono.Extracted.DateOps Chrono.Proofs.GenL

theorem from_year_lt (year : Int) : YearFlags.from_year year < 16 := by
  unfold YearFlags.from_year YearFlags.from_year_mod_400
  exact tbl_y2f.2 _ (by omega)

/-- the packed word: `(year << 13) | (ordinal << 4) as i32 | flags as i32` is the sum of its fields -/
theorem yof_pack (year : Int) (ordinal flags : Nat) (hy : -262144 ≤ year ∧ year ≤ 262143)
    (ho : ordinal ≤ 511) (hf : flags < 16) :
    GenRt.lorI 32 asI32 (GenRt.lorI 32 asI32 (asI32 (year * 8192)) (asI32 ((ordinal : Int) * 16 % 4294967296))) flags
      = year * 8192 + ordinal * 16 + flags := by
  have e0 : (ordinal : Int) * 16 % 4294967296 = ordinal * 16 := by omega
  have e1 : asI32 (year * 8192) = year * 8192 := Proofs.asI32_id (by omega) (by omega)
  have e2 : asI32 ((ordinal : Int) * 16) = ordinal * 16 := Proofs.asI32_id (by omega) (by omega)
  have e3 : GenRt.lorI 32 asI32 (year * 8192) ((ordinal : Int) * 16) = year * 8192 + ordinal * 16 :=
    lorI_field_4_9 _ _ (by omega) (by omega) (by omega) (by omega) (by omega)
  rw [e0, e1, e2, e3]
  exact lorI_field_0_4 _ _ (by omega) (by omega) (by omega) (by omega) (by omega)

/-- what `Mdf::ordinal_and_flags` returns fits the low 13 bits and is a valid ordinal-leap word -/
theorem mdf_oaf_range (mdf oaf : Nat) (h : Mdf.ordinal_and_flags mdf = .ok (some oaf)) :
    oaf < 6656 ∧ 2 ≤ oaf / 8 ∧ oaf / 8 ≤ 732 := by
  unfold Mdf.ordinal_and_flags at h
  have hl := tbl_mdl.1
  simp only [] at h
  by_cases hm : mdf / 8 < MDL_TO_OL.length
  · rw [if_pos hm] at h
    have hv := tbl_mdl.2 (mdf / 8) (by omega)
    generalize MDL_TO_OL.getD (mdf / 8) 0 = v at h hv
    by_cases hz : v = 0
    · rw [if_pos hz] at h; cases h
    · rw [if_neg hz] at h
      have : mdf - v * 8 = oaf := by injection h with h; injection h
      omega
  · rw [if_neg hm] at h; cases h

theorem mdf_new_range (month day flags mdf : Nat) (hf : flags < 16) (h : Mdf.new month day flags = some mdf) :
    mdf < 8192 := by
  unfold Mdf.new at h
  by_cases hc : month ≤ 12 ∧ day ≤ 31
  · rw [if_pos hc] at h; injection h with h; omega
  · rw [if_neg hc] at h; cases h

/-- the year-in-cycle and ordinal that `cycle_to_yo` returns -/
theorem cycle_to_yo_range (cycle : Nat) (h : cycle < 146097) :
    (Date.cycle_to_yo cycle).1 < 400 ∧ 1 ≤ (Date.cycle_to_yo cycle).2 ∧ (Date.cycle_to_yo cycle).2 ≤ 500 := by
  unfold Date.cycle_to_yo
  obtain ⟨hl, h0, hb⟩ := tbl_yd
  have h400 := tbl_yd400
  have hv := hb (cycle / 365) (by omega)
  simp only []
  by_cases hc : cycle % 365 < YEAR_DELTAS.getD (cycle / 365) 0
  · have hne : cycle / 365 ≠ 0 := by
      intro hz; rw [hz, h0] at hc; omega
    have hv2 := hb (cycle / 365 - 1) (by omega)
    rw [if_pos hc]
    dsimp only
    omega
  · rw [if_neg hc]
    dsimp only
    have : cycle / 365 ≠ 400 := by
      intro hz; rw [hz, h400] at hc; omega
    omega

theorem bind_assoc_res {α β γ} (m : Res α) (f : α → Res β) (g : β → Res γ) :
    (m >>= f) >>= g = m >>= fun x => f x >>= g := by cases m <;> rfl

theorem nisoweeks_range : ∀ f : Nat, f < 16 → 52 ≤ YearFlags.nisoweeks f ∧ YearFlags.nisoweeks f ≤ 53 := by
  decide

/-- `(year << 10) | (week << 4) as i32 | flags`: the packed ISO week is the sum of its fields -/
theorem ywf_pack (year : Int) (week flags : Nat) (hy : -2097152 ≤ year ∧ year ≤ 2097151)
    (hw : week ≤ 63) (hf : flags < 16) :
    GenRt.lorI 32 asI32 (GenRt.lorI 32 asI32 (asI32 (year * 1024)) (asI32 ((week : Int) * 16 % 4294967296))) flags
      = year * 1024 + week * 16 + flags := by
  have e0 : (week : Int) * 16 % 4294967296 = week * 16 := by omega
  have e1 : asI32 (year * 1024) = year * 1024 := Proofs.asI32_id (by omega) (by omega)
  have e2 : asI32 ((week : Int) * 16) = week * 16 := Proofs.asI32_id (by omega) (by omega)
  have e3 : GenRt.lorI 32 asI32 (year * 1024) ((week : Int) * 16) = year * 1024 + week * 16 :=
    lorI_field_4_6 _ _ (by omega) (by omega) (by omega) (by omega) (by omega)
  rw [e0, e1, e2, e3]
  exact lorI_field_0_4 _ _ (by omega) (by omega) (by omega) (by omega) (by omega)

/-- what `Mdf::ordinal` returns: at most 366, and 366 only for a leap-year `Mdf` -/
theorem mdf_ordinal_range (mdf ord : Nat) (h : Mdf.ordinal mdf = .ok (some ord)) :
    1 ≤ ord ∧ ord * 2 + mdf / 8 % 2 ≤ 732 := by
  unfold Mdf.ordinal at h
  have hl := tbl_mdl.1
  simp only [] at h
  by_cases hm : mdf / 8 < MDL_TO_OL.length
  · rw [if_pos hm] at h
    have hv := tbl_mdl.2 (mdf / 8) (by omega)
    generalize MDL_TO_OL.getD (mdf / 8) 0 = v at h hv
    by_cases hz : v = 0
    · rw [if_pos hz] at h; cases h
    · rw [if_neg hz] at h
      have : (mdf / 8 - v) / 2 = ord := by injection h with h; injection h
      omega
  · rw [if_neg hm] at h; cases h

theorem month_day_range (d : Date) (m day : Nat) (hm : d.month = .ok m) (hdy : d.day = .ok day) :
    m ≤ 63 ∧ day ≤ 31 := by
  unfold Date.month at hm
  unfold Date.day at hdy
  cases hx : d.mdf with
  | panic => rw [hx] at hm; cases hm
  | ok x =>
    rw [hx] at hm hdy
    injection hm with hm; injection hdy with hdy
    unfold Date.mdf Mdf.from_ol at hx
    have hM : MAX_OL = 732 := rfl
    have hv := tbl_ol.2
    by_cases hc : 1 < d.ol ∧ (d.ol : Int) ≤ MAX_OL
    · rw [if_pos hc] at hx
      have := hv d.ol (by omega)
      generalize OL_TO_MDL.getD d.ol 0 = v at hx this
      simp only [] at hx
      injection hx with hx
      unfold Mdf.month at hm; unfold Mdf.day at hdy
      have hmx : max ((d.ol + v) % 2) (d.flags / 8 % 2) ≤ 1 := by
        rw [Nat.max_def]; split <;> omega
      omega
    · rw [if_neg hc] at hx; cases hx

/-- the local `days` array of `diff_months`, indexed by `month - 1` -/
theorem days_idx (k N : Nat) (hk : k < 12) :
    GenRt.idxL ([31, if (N : Int) = 366 then 29 else 28, 31, 30, 31, 30, 31, 31, 30, 31, 30, 31] : List Int) (k : Int)
      = .ok ((if k = DM_FEB_INDEX then (if N = DM_NDAYS_LEAP then DM_FEB_LEAP else DM_FEB_COMMON)
          else DM_DAYS.getD k 0 : Nat) : Int) := by
  have : k = 0 ∨ k = 1 ∨ k = 2 ∨ k = 3 ∨ k = 4 ∨ k = 5 ∨ k = 6 ∨ k = 7 ∨ k = 8 ∨ k = 9 ∨ k = 10 ∨ k = 11 := by
    omega
  rcases this with h | h | h | h | h | h | h | h | h | h | h | h <;> subst h <;> try rfl
  by_cases hn : N = 366
  · subst hn; rfl
  · have : ¬ ((N : Int) = 366) := by omega
    unfold GenRt.idxL
    simp [this, hn, DM_FEB_INDEX, DM_NDAYS_LEAP, DM_FEB_COMMON]

end Chrono.Proofs.GenDateL
