/- Helper lemmas for C16, part 6: the reader accepts exactly the strings of the TZ grammar
   (`Spec.Tz.Denotes`, Spec/TzGrammar.lean) and returns the rule they denote. -/
import Chrono.Proofs.TzRoundL
import Chrono.Spec.TzGrammar

namespace Chrono.Proofs.Tz
open Chrono Chrono.M.Tz Chrono.Spec.Tz Chrono.Spec.Tz.Gr Chrono.Extracted.TzP

/-! ### character classes -/
theorem isDigit_iff (b : Nat) : isDigit b = true ↔ Digit b := by
  unfold isDigit Digit
  simp only [Bool.and_eq_true, decide_eq_true_eq]

theorem isAlpha_iff (b : Nat) : isAlpha b = true ↔ Alpha b := by
  unfold isAlpha Alpha
  simp only [Bool.or_eq_true, Bool.and_eq_true, decide_eq_true_eq]

theorem nameChar_iff (b : Nat) : nameChar b = true ↔ NameCh b := by
  unfold nameChar NameCh
  simp only [Bool.or_eq_true, beq_iff_eq, isDigit_iff, isAlpha_iff]
  constructor
  · rintro (((h | h) | h) | h)
    · exact Or.inl h
    · exact Or.inr (Or.inl h)
    · exact Or.inr (Or.inr (Or.inl h))
    · exact Or.inr (Or.inr (Or.inr h))
  · rintro (h | h | h | h)
    · exact Or.inl (Or.inl (Or.inl h))
    · exact Or.inl (Or.inl (Or.inr h))
    · exact Or.inl (Or.inr h)
    · exact Or.inr h

/-! ### numerals -/
theorem digitsVal_snoc (s : List Nat) (x : Nat) : digitsVal (s ++ [x]) = digitsVal s * 10 + (x - 48) := by
  unfold digitsVal
  rw [List.foldl_append]
  rfl

theorem num_spec {s : List Nat} {n : Nat} (h : Num s n) :
    s ≠ [] ∧ (∀ d ∈ s, isDigit d = true) ∧ digitsVal s = n := by
  induction h with
  | one d hd =>
    refine ⟨by simp, ?_, ?_⟩
    · intro x hx
      simp only [List.mem_singleton] at hx
      subst hx
      exact (isDigit_iff _).mpr ⟨by omega, by omega⟩
    · simp [digitsVal]
  | snoc d hd p ih =>
    obtain ⟨_, h2, h3⟩ := ih
    refine ⟨by simp, ?_, ?_⟩
    · intro x hx
      simp only [List.mem_append, List.mem_singleton] at hx
      rcases hx with hx | rfl
      · exact h2 x hx
      · exact (isDigit_iff _).mpr ⟨by omega, by omega⟩
    · rw [digitsVal_snoc, h3]; omega

theorem num_head {s : List Nat} {n : Nat} (h : Num s n) : ∃ d t, s = d :: t ∧ isDigit d = true := by
  obtain ⟨h1, h2, _⟩ := num_spec h
  cases s with
  | nil => exact absurd rfl h1
  | cons d t => exact ⟨d, t, rfl, h2 d (by simp)⟩

/-- every non-empty digit string is a numeral of its value -/
theorem num_of_digits_rev : ∀ l : List Nat, l ≠ [] → (∀ d ∈ l, isDigit d = true) →
    Num l.reverse (digitsVal l.reverse) := by
  intro l
  induction l with
  | nil => intro h; exact absurd rfl h
  | cons a t ih =>
    intro _ hd
    have ha := isDigit_bounds (hd a (by simp))
    have ea : a = 48 + (a - 48) := by omega
    cases t with
    | nil =>
      have : digitsVal [a] = a - 48 := by simp [digitsVal]
      simp only [List.reverse_cons, List.reverse_nil, List.nil_append]
      rw [this]
      conv => lhs; rw [ea]
      exact Num.one (a - 48) (by omega)
    | cons b t' =>
      have ih' := ih (by simp) (fun d hd' => hd d (List.mem_cons_of_mem _ hd'))
      rw [List.reverse_cons, digitsVal_snoc]
      have e2 : digitsVal (b :: t').reverse * 10 + (a - 48) = 10 * digitsVal (b :: t').reverse + (a - 48) := by
        omega
      rw [e2]
      conv => lhs; rw [ea]
      exact Num.snoc (a - 48) (by omega) ih'

theorem num_of_digits (ds : List Nat) (h0 : ds ≠ []) (hd : ∀ d ∈ ds, isDigit d = true) :
    Num ds (digitsVal ds) := by
  have := num_of_digits_rev ds.reverse (by simpa using h0) (fun d h => hd d (List.mem_reverse.mp h))
  simpa using this

theorem read_int_num {s : List Nat} {n : Nat} (p : Num s n) (max : Nat) (rest : List Nat) (hn : n ≤ max)
    (hs : StopAt isDigit rest) : read_int (s ++ rest) max = .ok ((n : Int), rest) := by
  obtain ⟨h1, h2, h3⟩ := num_spec p
  unfold read_int
  rw [read_while_append isDigit _ rest h2 hs]
  have hne : s.isEmpty = false := by
    cases s with
    | nil => exact absurd rfl h1
    | cons _ _ => rfl
  simp only [hne, h3]
  simp
  omega

/-! ### `hh[:mm[:ss]]` -/
theorem hms_head {s : List Nat} {h m sec : Nat} (p : Hms s h m sec) :
    ∃ d t, s = d :: t ∧ isDigit d = true := by
  cases p with
  | h ph => exact num_head ph
  | hm ph pm =>
    obtain ⟨d, t, e, hd⟩ := num_head ph
    exact ⟨d, t ++ _, by rw [e]; rfl, hd⟩
  | hms ph pm ps =>
    obtain ⟨d, t, e, hd⟩ := num_head ph
    exact ⟨d, t ++ _, by rw [e]; rfl, hd⟩

theorem parse_hhmmss_gr {s : List Nat} {h m sec : Nat} (p : Hms s h m sec) (rest : List Nat)
    (hh : h ≤ I32MAXN) (hm : m ≤ I32MAXN) (hs : sec ≤ I32MAXN) (st : StopH rest) :
    parse_hhmmss (s ++ rest) = .ok (((h : Int), (m : Int), (sec : Int)), rest) := by
  cases p with
  | h ph =>
    unfold parse_hhmmss
    rw [read_int_num ph _ _ hh st.1]
    simp only [P.bind_ok, rot_no 58 rest st.2]
    rfl
  | hm ph pm =>
    rename_i a b
    have e : a ++ 58 :: b ++ rest = a ++ 58 :: (b ++ rest) := by simp
    unfold parse_hhmmss
    rw [e, read_int_num ph _ _ hh (stopAt_cons digit_ne_colon)]
    simp only [P.bind_ok, rot_colon_yes, if_true]
    rw [read_int_num pm _ _ hm st.1]
    simp only [P.bind_ok, rot_no 58 rest st.2]
    rfl
  | hms ph pm ps =>
    rename_i a b c
    have e : a ++ 58 :: (b ++ 58 :: c) ++ rest = a ++ 58 :: (b ++ 58 :: (c ++ rest)) := by simp
    unfold parse_hhmmss
    rw [e, read_int_num ph _ _ hh (stopAt_cons digit_ne_colon)]
    simp only [P.bind_ok, rot_colon_yes, if_true]
    rw [read_int_num pm _ _ hm (stopAt_cons digit_ne_colon)]
    simp only [P.bind_ok, rot_colon_yes, if_true]
    rw [read_int_num ps _ _ hs st.1]
    simp only [P.bind_ok]

theorem parse_sign_gr {ss : List Nat} {sg : Int} (p : Sign ss sg) (d : Nat) (t : List Nat)
    (hd : isDigit d = true) : parse_sign (ss ++ d :: t) = .ok (sg, d :: t) := by
  have hb := isDigit_bounds hd
  cases p with
  | none => exact parse_sign_other d t (by omega) (by omega)
  | plus => simp [parse_sign, peek, read_exact]
  | minus => exact parse_sign_minus _

theorem sign_pm {ss : List Nat} {sg : Int} (p : Sign ss sg) : sg = 1 ∨ sg = -1 := by
  cases p <;> simp

theorem parse_signed_gr {ss sb : List Nat} {sg : Int} {h m sec : Nat} (psg : Sign ss sg)
    (pb : Hms sb h m sec) (rest : List Nat) (hh : h ≤ I32MAXN) (hm : m ≤ I32MAXN) (hs : sec ≤ I32MAXN)
    (st : StopH rest) :
    parse_signed_hhmmss (ss ++ sb ++ rest) = .ok ((sg, (h : Int), (m : Int), (sec : Int)), rest) := by
  obtain ⟨d, t, e, hd⟩ := hms_head pb
  unfold parse_signed_hhmmss
  have e1 : ss ++ sb ++ rest = ss ++ d :: (t ++ rest) := by rw [e]; simp
  rw [e1, parse_sign_gr psg d _ hd]
  simp only [P.bind_ok]
  have e2 : d :: (t ++ rest) = sb ++ rest := by rw [e]; rfl
  rw [e2, parse_hhmmss_gr pb rest hh hm hs st]
  simp only [P.bind_ok]

theorem secs_eq (h m s : Nat) : secs h m s = (h : Int) * 3600 + (m : Int) * 60 + (s : Int) := by
  unfold secs; omega

theorem offset_bounds {s : List Nat} {o : Int} (p : Offset s o) : -89999 ≤ o ∧ o ≤ 89999 := by
  cases p with
  | mk psg pb hh hm hs =>
    rw [secs_eq]
    rcases sign_pm psg with rfl | rfl <;> omega

theorem parse_offset_gr {s : List Nat} {o : Int} (p : Offset s o) (rest : List Nat) (st : StopH rest) :
    parse_offset (s ++ rest) = .ok (o, rest) := by
  have hb := offset_bounds p
  cases p with
  | mk psg pb hh hm hs =>
    rename_i ss sb sg h m sec
    have k : I32MAXN = 2147483647 := rfl
    unfold parse_offset
    rw [parse_signed_gr psg pb rest (by omega) (by omega) (by omega) st]
    simp only [P.bind_ok]
    have k1 : OFFSET_HOUR_MAX = 24 := rfl
    have k2 : OFFSET_MINUTE_MAX = 59 := rfl
    have k3 : OFFSET_SECOND_MAX = 59 := rfl
    rw [if_neg (by simp only [Bool.not_eq_true', Bool.not_eq_false, Bool.and_eq_true, decide_eq_true_eq]; omega)]
    rw [if_neg (by simp only [Bool.not_eq_true', Bool.not_eq_false, Bool.and_eq_true, decide_eq_true_eq]; omega)]
    rw [if_neg (by simp only [Bool.not_eq_true', Bool.not_eq_false, Bool.and_eq_true, decide_eq_true_eq]; omega)]
    rw [← secs_eq, ck32_ok (by omega) (by omega)]
    rfl

theorem time_bounds {ext : Bool} {s : List Nat} {t : Int} (p : Time ext s t) :
    -604799 ≤ t ∧ t ≤ 604799 ∧ (ext = false → 0 ≤ t ∧ t ≤ 89999) := by
  cases p with
  | posix pb hh hm hs => rw [secs_eq]; omega
  | ext psg pb hh hm hs =>
    rw [secs_eq]
    rcases sign_pm psg with rfl | rfl <;> simp <;> omega

theorem parse_rule_time_gr {s : List Nat} {t : Int} (p : Time false s t) (rest : List Nat) (st : StopH rest) :
    parse_rule_time (s ++ rest) = .ok (t, rest) := by
  cases p with
  | posix pb hh hm hs =>
    rename_i h m sec
    have k : I32MAXN = 2147483647 := rfl
    unfold parse_rule_time
    rw [parse_hhmmss_gr pb rest (by omega) (by omega) (by omega) st]
    simp only [P.bind_ok]
    have k1 : RULE_HOUR_MAX = 24 := rfl
    have k2 : RULE_MINUTE_MAX = 59 := rfl
    have k3 : RULE_SECOND_MAX = 59 := rfl
    rw [if_neg (by simp only [Bool.not_eq_true', Bool.not_eq_false, Bool.and_eq_true, decide_eq_true_eq]; omega)]
    rw [if_neg (by simp only [Bool.not_eq_true', Bool.not_eq_false, Bool.and_eq_true, decide_eq_true_eq]; omega)]
    rw [if_neg (by simp only [Bool.not_eq_true', Bool.not_eq_false, Bool.and_eq_true, decide_eq_true_eq]; omega)]
    rw [← secs_eq, ck32_ok (by rw [secs_eq]; omega) (by rw [secs_eq]; omega)]
    rfl

theorem parse_rule_time_extended_gr {s : List Nat} {t : Int} (p : Time true s t) (rest : List Nat)
    (st : StopH rest) : parse_rule_time_extended (s ++ rest) = .ok (t, rest) := by
  have hb := time_bounds p
  cases p with
  | ext psg pb hh hm hs =>
    rename_i ss sb sg h m sec
    have k : I32MAXN = 2147483647 := rfl
    unfold parse_rule_time_extended
    rw [parse_signed_gr psg pb rest (by omega) (by omega) (by omega) st]
    simp only [P.bind_ok]
    have k0 : EXT_HOUR_MIN = -167 := rfl
    have k1 : EXT_HOUR_MAX = 167 := rfl
    have k2 : EXT_MINUTE_MAX = 59 := rfl
    have k3 : EXT_SECOND_MAX = 59 := rfl
    rw [if_neg (by simp only [Bool.not_eq_true', Bool.not_eq_false, Bool.and_eq_true, decide_eq_true_eq]; omega)]
    rw [if_neg (by simp only [Bool.not_eq_true', Bool.not_eq_false, Bool.and_eq_true, decide_eq_true_eq]; omega)]
    rw [if_neg (by simp only [Bool.not_eq_true', Bool.not_eq_false, Bool.and_eq_true, decide_eq_true_eq]; omega)]
    rw [← secs_eq, ck32_ok (by omega) (by omega)]
    rfl

/-! ### designations -/
theorem name_nameOk {s n : List Nat} (p : Name s n) : NameOk n := by
  cases p with
  | bare h3 h7 ha =>
    refine ⟨h3, h7, ?_⟩
    rw [List.all_eq_true]
    intro b hb
    exact (nameChar_iff b).mpr (Or.inr (Or.inl (ha b hb)))
  | quoted h3 h7 ha =>
    refine ⟨h3, h7, ?_⟩
    rw [List.all_eq_true]
    intro b hb
    exact (nameChar_iff b).mpr (ha b hb)

theorem parse_name_gr {s n : List Nat} (p : Name s n) (rest : List Nat) (st : StopAt isAlpha rest) :
    parse_name (s ++ rest) = .ok (n, rest) := by
  cases p with
  | bare h3 h7 ha =>
    exact parse_name_bare _ rest (by intro e; subst e; simp at h3)
      (fun d hd => (isAlpha_iff d).mpr (ha d hd)) st
  | quoted h3 h7 ha =>
    have e : 60 :: (n ++ [62]) ++ rest = 60 :: (n ++ 62 :: rest) := by simp
    rw [e]
    exact parse_name_quoted n rest (fun d hd => (nameChar_iff d).mpr (ha d hd))

/-- the first byte of a written designation: `<` or a letter -/
theorem name_head {s n : List Nat} (p : Name s n) (X : List Nat) :
    ∃ b t, s ++ X = b :: t ∧ (b = 60 ∨ isAlpha b = true) := by
  cases p with
  | bare h3 h7 ha =>
    cases s with
    | nil => simp at h3
    | cons a n' => exact ⟨a, _, rfl, Or.inr ((isAlpha_iff a).mpr (ha a (by simp)))⟩
  | quoted h3 h7 ha => exact ⟨60, _, rfl, Or.inl rfl⟩

theorem name_stopH {s n : List Nat} (p : Name s n) (X : List Nat) : StopH (s ++ X) := by
  obtain ⟨b, t, e, hb⟩ := name_head p X
  rw [e]
  rcases hb with rfl | hb
  · exact ⟨stopAt_cons (by decide), stopAt_cons (by decide)⟩
  · refine ⟨stopAt_cons (alpha_not_digit hb), stopAt_cons ?_⟩
    cases h : (b == 58) with
    | false => rfl
    | true =>
      have : b = 58 := by simpa using h
      subst this
      revert hb; decide

/-- the first byte of a written offset: a sign or a digit -/
theorem offset_head {s : List Nat} {o : Int} (p : Offset s o) (X : List Nat) :
    ∃ b t, s ++ X = b :: t ∧ (b = 43 ∨ b = 45 ∨ isDigit b = true) := by
  cases p with
  | mk psg pb hh hm hs =>
    obtain ⟨d, t, e, hd⟩ := hms_head pb
    cases psg with
    | none => exact ⟨d, t ++ X, by rw [e]; rfl, Or.inr (Or.inr hd)⟩
    | plus => exact ⟨43, _, rfl, Or.inl rfl⟩
    | minus => exact ⟨45, _, rfl, Or.inr (Or.inl rfl)⟩

theorem offset_stop_alpha {s : List Nat} {o : Int} (p : Offset s o) (X : List Nat) :
    StopAt isAlpha (s ++ X) := by
  obtain ⟨b, t, e, hb⟩ := offset_head p X
  rw [e]
  apply stopAt_cons
  rcases hb with rfl | rfl | hb
  · decide
  · decide
  · exact digit_not_alpha hb

/-! ### rule days -/
theorem parse_date_gr {s : List Nat} {d : RuleDay} (p : Day s d) (rest : List Nat)
    (st : StopAt isDigit rest) : RuleDay.parse_date (s ++ rest) = .ok (d, rest) := by
  have j1 : JULIAN1_MIN = 1 := rfl
  have j2 : JULIAN1_MAX = 365 := rfl
  have j3 : JULIAN0_MAX = 365 := rfl
  have m1' : MONTH_MIN = 1 := rfl
  have m2' : MONTH_MAX = 12 := rfl
  have w1' : WEEK_MIN = 1 := rfl
  have w2' : WEEK_MAX = 5 := rfl
  have w3' : WEEKDAY_MAX = 6 := rfl
  have u8 : U8MAXN = 255 := rfl
  have u16 : U16MAXN = 65535 := rfl
  cases p with
  | j1 p h1 h2 =>
    rename_i s' n
    simp only [List.cons_append]
    unfold RuleDay.parse_date
    simp only [peek_cons, read_exact_one, P.bind_ok]
    rw [read_int_num p _ rest (by omega) st]
    simp only [P.bind_ok, RuleDay.julian_1]
    rw [if_neg (by simp only [Bool.not_eq_true', Bool.not_eq_false, Bool.and_eq_true, decide_eq_true_eq]; omega)]
    simp
  | j0 p h2 =>
    rename_i n
    obtain ⟨dg, t, e, hdg⟩ := num_head p
    have hb := isDigit_bounds hdg
    unfold RuleDay.parse_date
    have hp : peek (s ++ rest) = some dg := by rw [e]; rfl
    rw [hp]
    split
    · rename_i h; injection h with h; omega
    · rename_i h; injection h with h; omega
    · rw [read_int_num p _ rest (by omega) st]
      simp only [P.bind_ok, RuleDay.julian_0]
      rw [if_neg (by omega)]
      simp
  | mwd pm pw pd m1 m2 w1 w2 d2 =>
    rename_i a b c m w wd
    have e : 77 :: (a ++ 46 :: (b ++ 46 :: c)) ++ rest
        = 77 :: (a ++ 46 :: (b ++ 46 :: (c ++ rest))) := by simp
    rw [e]
    unfold RuleDay.parse_date
    simp only [peek_cons, read_exact_one, P.bind_ok]
    rw [read_int_num pm _ _ (by omega) (stopAt_cons digit_ne_dot)]
    simp only [P.bind_ok, read_tag_one]
    rw [read_int_num pw _ _ (by omega) (stopAt_cons digit_ne_dot)]
    simp only [P.bind_ok, read_tag_one]
    rw [read_int_num pd _ _ (by omega) st]
    simp only [P.bind_ok, RuleDay.month_weekday]
    rw [if_neg (by simp only [Bool.not_eq_true', Bool.not_eq_false, Bool.and_eq_true, decide_eq_true_eq]; omega)]
    rw [if_neg (by simp only [Bool.not_eq_true', Bool.not_eq_false, Bool.and_eq_true, decide_eq_true_eq]; omega)]
    rw [if_neg (by omega)]
    simp

/-- `rest` is empty or starts with a byte that is neither a digit, nor `:`, nor `/` -/
def StopD (rest : List Nat) : Prop := StopH rest ∧ StopAt (fun b => b == 47) rest

theorem stopD_nil : StopD [] := ⟨stopH_nil, stopAt_nil _⟩
theorem stopD_comma (t : List Nat) : StopD (44 :: t) := ⟨stopH_comma t, stopAt_cons (by decide)⟩

theorem ruleday_parse_gr {ext : Bool} {s : List Nat} {d : RuleDay} {t : Int} (p : DayTime ext s d t)
    (rest : List Nat) (st : StopD rest) : RuleDay.parse (s ++ rest) ext = .ok ((d, t), rest) := by
  cases p with
  | default pd =>
    unfold RuleDay.parse
    rw [parse_date_gr pd rest st.1.1]
    simp only [P.bind_ok, rot_no 47 rest st.2]
    rfl
  | timed pd pt =>
    rename_i s' st' 
    have e : s' ++ 47 :: st' ++ rest = s' ++ 47 :: (st' ++ rest) := by simp
    unfold RuleDay.parse
    rw [e, parse_date_gr pd _ (stopAt_cons digit_ne_slash)]
    simp only [P.bind_ok, rot_slash_yes]
    cases ext with
    | true =>
      simp only
      rw [parse_rule_time_extended_gr pt rest st.1]
      rfl
    | false =>
      simp only
      rw [parse_rule_time_gr pt rest st.1]
      rfl

theorem parse_dst_offset_gr {so : Int} {s : List Nat} {o : Int} (p : DstOffset so s o)
    (hso : -89999 ≤ so ∧ so ≤ 89999) (t : List Nat) :
    parse_dst_offset so (s ++ 44 :: t) = .ok (o, 44 :: t) := by
  cases p with
  | default =>
    have k : DEFAULT_DST_DELTA = 3600 := rfl
    unfold parse_dst_offset
    simp only [List.nil_append, peek_cons]
    rw [k, ck32_ok (by omega) (by omega)]
    rfl
  | given p =>
    obtain ⟨b, tl, e, hb⟩ := offset_head p (44 :: t)
    have hne : b ≠ 44 := by
      rcases hb with rfl | rfl | hb
      · decide
      · decide
      · have := isDigit_bounds hb; omega
    unfold parse_dst_offset
    rw [e, peek_cons]
    split
    · rename_i h; injection h with h; exact absurd h hne
    · rw [← e]; exact parse_offset_gr p _ (stopH_comma t)
    · rename_i h; cases h

theorem dstOffset_bounds {so : Int} {s : List Nat} {o : Int} (p : DstOffset so s o)
    (hso : -89999 ≤ so ∧ so ≤ 89999) : -93599 ≤ o ∧ o ≤ 89999 := by
  cases p with
  | default => omega
  | given p => have := offset_bounds p; omega

theorem dstOffset_stop_alpha {so : Int} {s : List Nat} {o : Int} (p : DstOffset so s o) (t : List Nat) :
    StopAt isAlpha (s ++ 44 :: t) := by
  cases p with
  | default => exact stopAt_cons (by decide)
  | given p => exact offset_stop_alpha p _

/-! ### every string of the grammar is read as the rule it denotes -/
theorem tz_accepts_all' (ext : Bool) (s : List Nat) (r : Rule) (h : Denotes ext s r) :
    from_tz_string s ext = .ok r := by
  cases h with
  | fixed pn po ho =>
    rename_i s1 s2 n o
    unfold Within24h at ho
    have hb := offset_bounds po
    unfold from_tz_string
    have st : StopAt isAlpha s2 := by simpa using offset_stop_alpha po []
    rw [parse_name_gr pn _ st]
    simp only [P.bind_ok]
    have e2 : s2 = s2 ++ [] := by simp
    rw [e2, parse_offset_gr po [] stopH_nil]
    simp only [P.bind_ok, List.isEmpty_nil, if_true]
    rw [ck32_ok (by omega) (by omega)]
    simp only [P.bind_ok]
    rw [ltt_new_ok (-o) false n (by omega) (name_nameOk pn)]
    rfl
  | alt pn1 po1 pn2 po2 pd1 pd2 ho1 ho2 =>
    rename_i s1 s2 s3 s4 s5 s6 n1 n2 o1 o2 t1 t2 d1 d2
    unfold Within24h at ho1 ho2
    have hb1 := offset_bounds po1
    have hb2 := dstOffset_bounds po2 hb1
    unfold from_tz_string
    rw [parse_name_gr pn1 _ (offset_stop_alpha po1 _)]
    simp only [P.bind_ok]
    rw [parse_offset_gr po1 _ (name_stopH pn2 _)]
    simp only [P.bind_ok]
    obtain ⟨b, tl, eh, _⟩ := name_head pn2 (s4 ++ 44 :: (s5 ++ 44 :: s6))
    have hne : (s3 ++ (s4 ++ 44 :: (s5 ++ 44 :: s6))).isEmpty = false := by rw [eh]; rfl
    rw [if_neg (by rw [hne]; simp)]
    rw [parse_name_gr pn2 _ (dstOffset_stop_alpha po2 _)]
    simp only [P.bind_ok]
    rw [parse_dst_offset_gr po2 hb1 _]
    simp only [P.bind_ok, List.isEmpty_cons, Bool.false_eq_true, if_false, read_tag_one]
    rw [ruleday_parse_gr pd1 _ (stopD_comma _)]
    simp only [P.bind_ok, read_tag_one]
    have e6 : s6 = s6 ++ [] := by simp
    rw [e6, ruleday_parse_gr pd2 [] stopD_nil]
    simp only [P.bind_ok, List.isEmpty_nil, Bool.not_true, Bool.false_eq_true, if_false]
    rw [ck32_ok (by omega) (by omega)]
    simp only [P.bind_ok]
    rw [ltt_new_ok (-o1) false n1 (by omega) (name_nameOk pn1)]
    simp only [P.bind_ok]
    rw [ck32_ok (by omega) (by omega)]
    simp only [P.bind_ok]
    rw [ltt_new_ok (-o2) true n2 (by omega) (name_nameOk pn2)]
    simp only [P.bind_ok]
    have hw : SECONDS_PER_WEEK = 604800 := rfl
    have dt_bounds : ∀ {sx : List Nat} {dx : RuleDay} {tx : Int}, DayTime ext sx dx tx → iabs tx < 604800 := by
      intro sx dx tx p
      unfold iabs
      cases p with
      | default _ => split <;> omega
      | timed _ pt => have := time_bounds pt; split <;> omega
    have b1 := dt_bounds pd1
    have b2 := dt_bounds pd2
    unfold Alt.new
    rw [if_neg (by simp only [Bool.not_eq_true', Bool.not_eq_false, Bool.and_eq_true, decide_eq_true_eq, hw]; exact ⟨b1, b2⟩)]
    rfl

/-! ### inversion: whatever a sub-reader consumes is a word of the corresponding grammar category -/
theorem take_len_takeWhile (p : Nat → Bool) (l : List Nat) :
    l.take (l.takeWhile p).length = l.takeWhile p := by
  induction l with
  | nil => rfl
  | cons a t ih =>
    by_cases h : p a = true
    · simp [h, ih]
    · simp [h]

theorem takeWhile_all (p : Nat → Bool) (l : List Nat) : ∀ d ∈ l.takeWhile p, p d = true := by
  induction l with
  | nil => intro d hd; cases hd
  | cons a t ih =>
    by_cases h : p a = true
    · intro d hd
      simp only [List.takeWhile_cons, h, if_true, List.mem_cons] at hd
      rcases hd with rfl | hd
      · exact h
      · exact ih d hd
    · intro d hd
      simp [h] at hd

theorem read_exact_inv {c : Cursor} {k : Nat} {a c' : List Nat} (e : read_exact c k = .ok (a, c')) :
    c = a ++ c' ∧ a = c.take k := by
  rcases read_exact_cases c k with ⟨_, h⟩ | h
  · rw [h] at e
    simp only [P.ok.injEq, Prod.mk.injEq] at e
    obtain ⟨rfl, rfl⟩ := e
    exact ⟨(List.take_append_drop k c).symm, rfl⟩
  · rw [h] at e; cases e

theorem read_while_inv {c : Cursor} {p : Nat → Bool} {ds c' : List Nat}
    (e : read_while c p = .ok (ds, c')) : c = ds ++ c' ∧ ∀ d ∈ ds, p d = true := by
  unfold read_while at e
  obtain ⟨h1, h2⟩ := read_exact_inv e
  rw [take_len_takeWhile] at h2
  exact ⟨h1, by rw [h2]; exact takeWhile_all p c⟩

theorem read_int_inv {c : Cursor} {max : Nat} {v : Int} {c' : Cursor}
    (e : read_int c max = .ok (v, c')) : ∃ ds n, c = ds ++ c' ∧ Num ds n ∧ v = (n : Int) := by
  unfold read_int at e
  cases h1 : read_while c isDigit with
  | err => simp [h1] at e
  | panic => simp [h1] at e
  | ok a =>
    obtain ⟨ds, c1⟩ := a
    obtain ⟨hc, hd⟩ := read_while_inv h1
    simp only [h1] at e
    split at e
    · cases e
    · rename_i hne
      split at e
      · cases e
      · simp only [P.ok.injEq, Prod.mk.injEq] at e
        obtain ⟨rfl, rfl⟩ := e
        have : ds ≠ [] := by intro h; subst h; simp at hne
        exact ⟨ds, digitsVal ds, hc, num_of_digits ds this hd, rfl⟩

theorem rot_inv {c : Cursor} {t : Nat} {b : Bool} {c' : Cursor}
    (e : read_optional_tag c [t] = .ok (b, c')) : (b = true ∧ c = t :: c') ∨ (b = false ∧ c' = c) := by
  unfold read_optional_tag at e
  split at e
  · rename_i hp
    cases c with
    | nil => simp [List.isPrefixOf] at hp
    | cons x xs =>
      simp only [List.isPrefixOf, Bool.and_eq_true, beq_iff_eq] at hp
      obtain ⟨rfl, _⟩ := hp
      simp [read_exact] at e
      obtain ⟨rfl, rfl⟩ := e
      exact Or.inl ⟨rfl, rfl⟩
  · simp only [P.ok.injEq, Prod.mk.injEq] at e
    obtain ⟨rfl, rfl⟩ := e
    exact Or.inr ⟨rfl, rfl⟩

theorem read_tag_inv {c : Cursor} {t : Nat} {c' : Cursor} (e : read_tag c [t] = .ok c') : c = t :: c' := by
  unfold read_tag at e
  have hl : [t].length = 1 := rfl
  rw [hl] at e
  cases h : read_exact c 1 with
  | err => simp [h] at e
  | panic => simp [h] at e
  | ok a =>
    obtain ⟨bs, c1⟩ := a
    obtain ⟨hc, _⟩ := read_exact_inv h
    simp only [h] at e
    split at e
    · rename_i hb
      simp only [P.ok.injEq] at e
      subst e
      rw [hc, hb]; rfl
    · cases e

/-- what a sub-reader returns, together with the word it consumed -/
def Took {α} (c : Cursor) (G : List Nat → α → Prop) (r : α × Cursor) : Prop :=
  ∃ s, c = s ++ r.2 ∧ G s r.1

theorem post_read_int_g (c : Cursor) (max : Nat) :
    Post (read_int c max) (Took c (fun s v => ∃ n, Num s n ∧ v = (n : Int))) :=
  post_of (np_read_int c max) (fun ⟨v, c'⟩ e => by
    obtain ⟨ds, n, h1, h2, h3⟩ := read_int_inv e
    exact ⟨ds, h1, n, h2, h3⟩)

theorem post_rot_g (c : Cursor) (t : Nat) :
    Post (read_optional_tag c [t]) (fun r => (r.1 = true ∧ c = t :: r.2) ∨ (r.1 = false ∧ r.2 = c)) :=
  post_of (np_read_optional_tag c [t]) (fun ⟨_, _⟩ e => rot_inv e)

theorem post_read_tag_g (c : Cursor) (t : Nat) : Post (read_tag c [t]) (fun c' => c = t :: c') :=
  post_of (np_read_tag c [t]) (fun _ e => read_tag_inv e)

theorem post_parse_hhmmss_g (c : Cursor) :
    Post (parse_hhmmss c)
      (Took c (fun s v => ∃ h m sec, Hms s h m sec ∧ v = ((h : Int), (m : Int), (sec : Int)))) := by
  unfold parse_hhmmss
  refine post_bind (post_read_int_g _ _) ?_
  rintro ⟨hour, c1⟩ - ⟨a, ea, h, ph, rfl⟩
  dsimp only at ea
  refine post_bind (post_rot_g _ _) ?_
  rintro ⟨col, c2⟩ - hcol
  dsimp only at hcol
  rcases hcol with ⟨rfl, e1⟩ | ⟨rfl, rfl⟩
  · simp only [if_true]
    refine post_bind (post_read_int_g _ _) ?_
    rintro ⟨minute, c3⟩ - ⟨b, eb, m, pm, rfl⟩
    dsimp only at eb
    refine post_bind (post_rot_g _ _) ?_
    rintro ⟨col2, c4⟩ - hcol2
    dsimp only at hcol2
    rcases hcol2 with ⟨rfl, e3⟩ | ⟨rfl, rfl⟩
    · simp only [if_true]
      refine post_bind (post_read_int_g _ _) ?_
      rintro ⟨second, c5⟩ - ⟨d, ed, sec, ps, rfl⟩
      dsimp only at ed
      refine post_ok ⟨a ++ 58 :: (b ++ 58 :: d), ?_, h, m, sec, Hms.hms ph pm ps, rfl⟩
      rw [ea, e1, eb, e3, ed]; simp
    · refine post_ok ⟨a ++ 58 :: b, ?_, h, m, 0, Hms.hm ph pm, rfl⟩
      rw [ea, e1, eb]; simp
  · exact post_ok ⟨a, ea, h, 0, 0, Hms.h ph, rfl⟩

theorem post_parse_sign_g (c : Cursor) : Post (parse_sign c) (Took c Sign) := by
  unfold parse_sign
  split
  · rename_i hp
    cases c with
    | nil => cases hp
    | cons x xs =>
      simp only [peek, List.head?_cons, Option.some.injEq] at hp
      subst hp
      simp only [read_exact_one, P.bind_ok]
      exact post_ok ⟨[43], rfl, Sign.plus⟩
  · rename_i hp
    cases c with
    | nil => cases hp
    | cons x xs =>
      simp only [peek, List.head?_cons, Option.some.injEq] at hp
      subst hp
      simp only [read_exact_one, P.bind_ok]
      exact post_ok ⟨[45], rfl, Sign.minus⟩
  · exact post_ok ⟨[], rfl, Sign.none⟩

theorem post_parse_signed_g (c : Cursor) :
    Post (parse_signed_hhmmss c)
      (Took c (fun s v => ∃ ss sb sg h m sec, s = ss ++ sb ∧ Sign ss sg ∧ Hms sb h m sec
        ∧ v = (sg, (h : Int), (m : Int), (sec : Int)))) := by
  unfold parse_signed_hhmmss
  refine post_bind (post_parse_sign_g _) ?_
  rintro ⟨sg, c1⟩ - ⟨ss, e1, psg⟩
  dsimp only at e1 psg
  refine post_bind (post_parse_hhmmss_g _) ?_
  rintro ⟨⟨h', m', s'⟩, c2⟩ - ⟨sb, e2, h, m, sec, pb, ev⟩
  dsimp only at e2 ev
  simp only [Prod.mk.injEq] at ev
  obtain ⟨rfl, rfl, rfl⟩ := ev
  refine post_ok ⟨ss ++ sb, ?_, ss, sb, sg, h, m, sec, rfl, psg, pb, rfl⟩
  dsimp only
  rw [e1, e2]; simp

theorem post_parse_offset_g (c : Cursor) : Post (parse_offset c) (Took c Offset) := by
  unfold parse_offset
  refine post_bind (post_parse_signed_g _) ?_
  rintro ⟨⟨sg, h', m', s'⟩, c1⟩ - ⟨s, e1, ss, sb, sg0, h, m, sec, rfl, psg, pb, ev⟩
  dsimp only at e1 ev
  simp only [Prod.mk.injEq] at ev
  obtain ⟨rfl, rfl, rfl, rfl⟩ := ev
  have k1 : OFFSET_HOUR_MAX = 24 := rfl
  have k2 : OFFSET_MINUTE_MAX = 59 := rfl
  have k3 : OFFSET_SECOND_MAX = 59 := rfl
  dsimp only
  split
  · exact post_err
  · split
    · exact post_err
    · split
      · exact post_err
      · rename_i g1 g2 g3
        simp only [Bool.not_eq_true', Bool.not_eq_false, Bool.and_eq_true, decide_eq_true_eq] at g1 g2 g3
        have po : Offset (ss ++ sb) (sg * secs h m sec) := Offset.mk psg pb (by omega) (by omega) (by omega)
        have hb := offset_bounds po
        rw [← secs_eq, ck32_ok (by omega) (by omega)]
        exact post_ok ⟨ss ++ sb, e1, po⟩

theorem post_parse_rule_time_g (c : Cursor) : Post (parse_rule_time c) (Took c (Time false)) := by
  unfold parse_rule_time
  refine post_bind (post_parse_hhmmss_g _) ?_
  rintro ⟨⟨h', m', s'⟩, c1⟩ - ⟨sb, e1, h, m, sec, pb, ev⟩
  dsimp only at e1 ev
  simp only [Prod.mk.injEq] at ev
  obtain ⟨rfl, rfl, rfl⟩ := ev
  have k1 : RULE_HOUR_MAX = 24 := rfl
  have k2 : RULE_MINUTE_MAX = 59 := rfl
  have k3 : RULE_SECOND_MAX = 59 := rfl
  dsimp only
  split
  · exact post_err
  · split
    · exact post_err
    · split
      · exact post_err
      · rename_i g1 g2 g3
        simp only [Bool.not_eq_true', Bool.not_eq_false, Bool.and_eq_true, decide_eq_true_eq] at g1 g2 g3
        have pt : Time false sb (secs h m sec) := Time.posix pb (by omega) (by omega) (by omega)
        have hb := time_bounds pt
        rw [← secs_eq, ck32_ok (by omega) (by omega)]
        exact post_ok ⟨sb, e1, pt⟩

theorem post_parse_rule_time_extended_g (c : Cursor) :
    Post (parse_rule_time_extended c) (Took c (Time true)) := by
  unfold parse_rule_time_extended
  refine post_bind (post_parse_signed_g _) ?_
  rintro ⟨⟨sg, h', m', s'⟩, c1⟩ - ⟨s, e1, ss, sb, sg0, h, m, sec, rfl, psg, pb, ev⟩
  dsimp only at e1 ev
  simp only [Prod.mk.injEq] at ev
  obtain ⟨rfl, rfl, rfl, rfl⟩ := ev
  have k0 : EXT_HOUR_MIN = -167 := rfl
  have k1 : EXT_HOUR_MAX = 167 := rfl
  have k2 : EXT_MINUTE_MAX = 59 := rfl
  have k3 : EXT_SECOND_MAX = 59 := rfl
  dsimp only
  split
  · exact post_err
  · split
    · exact post_err
    · split
      · exact post_err
      · rename_i g1 g2 g3
        simp only [Bool.not_eq_true', Bool.not_eq_false, Bool.and_eq_true, decide_eq_true_eq] at g1 g2 g3
        have pt : Time true (ss ++ sb) (sg * secs h m sec) := Time.ext psg pb (by omega) (by omega) (by omega)
        have hb := time_bounds pt
        rw [← secs_eq, ck32_ok (by omega) (by omega)]
        exact post_ok ⟨ss ++ sb, e1, pt⟩

theorem drop_takeWhile_head (p : Nat → Bool) (l : List Nat) (y : Nat) (t : List Nat)
    (h : l.drop (l.takeWhile p).length = y :: t) : p y = false := by
  induction l with
  | nil => simp at h
  | cons a r ih =>
    by_cases ha : p a = true
    · simp only [List.takeWhile_cons, ha, if_true, List.length_cons, List.drop_succ_cons] at h
      exact ih h
    · simp only [List.takeWhile_cons, ha] at h
      simp only [Bool.false_eq_true, if_false, List.length_nil, List.drop_zero, List.cons.injEq] at h
      obtain ⟨rfl, _⟩ := h
      simpa using ha

/-- the written form of a designation the reader took: bare letters, or anything between `<` and `>` -/
def NameTok (s n : List Nat) : Prop := (s = n ∧ ∀ b ∈ n, isAlpha b = true) ∨ s = 60 :: (n ++ [62])

theorem post_parse_name_g (c : Cursor) : Post (parse_name c) (Took c NameTok) := by
  unfold parse_name
  split
  · rename_i hp
    cases c with
    | nil => cases hp
    | cons x c1 =>
      simp only [peek, List.head?_cons, Option.some.injEq] at hp
      subst hp
      simp only [read_exact_one]
      show Post (read_until c1 (fun x => x == 62) >>= _) _
      unfold read_until
      rcases read_exact_cases c1 (c1.takeWhile (fun b => !(b == 62))).length with ⟨_, h1⟩ | h1
      · rw [h1]
        simp only [P.bind_ok]
        rcases read_exact_cases (c1.drop (c1.takeWhile (fun b => !(b == 62))).length) 1 with ⟨hl, h2⟩ | h2
        · rw [h2]
          simp only [P.bind_ok]
          rw [take_len_takeWhile]
          cases hd : c1.drop (c1.takeWhile (fun b => !(b == 62))).length with
          | nil => rw [hd] at hl; simp at hl
          | cons y t =>
            have hy := drop_takeWhile_head _ _ _ _ hd
            have hy62 : y = 62 := by simpa using hy
            subst hy62
            refine post_ok ⟨60 :: (c1.takeWhile (fun b => !(b == 62)) ++ [62]), ?_, Or.inr rfl⟩
            dsimp only
            have := List.take_append_drop (c1.takeWhile (fun b => !(b == 62))).length c1
            rw [take_len_takeWhile, hd] at this
            simp [this]
        · rw [h2]; exact post_err
      · rw [h1]; exact post_err
  · refine post_of (np_read_while _ _) ?_
    rintro ⟨n, c'⟩ e
    obtain ⟨h1, h2⟩ := read_while_inv e
    exact ⟨n, h1, Or.inl ⟨rfl, h2⟩⟩

theorem name_of_tok {s n : List Nat} (h : NameTok s n) (hn : NameOk n) : Name s n := by
  obtain ⟨h3, h7, ha⟩ := hn
  rw [List.all_eq_true] at ha
  rcases h with ⟨rfl, hb⟩ | rfl
  · exact Name.bare h3 h7 (fun b hb' => (isAlpha_iff b).mp (hb b hb'))
  · exact Name.quoted h3 h7 (fun b hb' => (nameChar_iff b).mp (ha b hb'))

theorem peek_inv {c : Cursor} {b : Nat} (h : peek c = some b) : ∃ t, c = b :: t := by
  cases c with
  | nil => cases h
  | cons x t =>
    simp only [peek, List.head?_cons, Option.some.injEq] at h
    exact ⟨t, by rw [h]⟩

theorem post_parse_date_g (c : Cursor) : Post (RuleDay.parse_date c) (Took c Day) := by
  have j1 : JULIAN1_MIN = 1 := rfl
  have j2 : JULIAN1_MAX = 365 := rfl
  have j3 : JULIAN0_MAX = 365 := rfl
  have m1' : MONTH_MIN = 1 := rfl
  have m2' : MONTH_MAX = 12 := rfl
  have w1' : WEEK_MIN = 1 := rfl
  have w2' : WEEK_MAX = 5 := rfl
  have w3' : WEEKDAY_MAX = 6 := rfl
  unfold RuleDay.parse_date
  split
  · rename_i hp
    obtain ⟨c1, rfl⟩ := peek_inv hp
    simp only [read_exact_one, P.bind_ok]
    refine post_bind (post_read_int_g _ _) ?_
    rintro ⟨month, c2⟩ - ⟨a, ea, m, pm, rfl⟩
    dsimp only at ea
    refine post_bind (post_read_tag_g _ _) ?_
    rintro c3 - e3
    dsimp only at e3
    refine post_bind (post_read_int_g _ _) ?_
    rintro ⟨week, c4⟩ - ⟨b, eb, w, pw, rfl⟩
    dsimp only at eb
    refine post_bind (post_read_tag_g _ _) ?_
    rintro c5 - e5
    dsimp only at e5
    refine post_bind (post_read_int_g _ _) ?_
    rintro ⟨wd, c6⟩ - ⟨cc, ec, d, pd, rfl⟩
    dsimp only at ec
    unfold RuleDay.month_weekday
    split
    · exact post_err
    · split
      · exact post_err
      · split
        · exact post_err
        · rename_i g1 g2 g3
          simp only [Bool.not_eq_true', Bool.not_eq_false, Bool.and_eq_true, decide_eq_true_eq] at g1 g2
          simp only [P.bind_ok, Int.toNat_natCast]
          refine post_ok ⟨77 :: (a ++ 46 :: (b ++ 46 :: cc)), ?_,
            Day.mwd pm pw pd (by omega) (by omega) (by omega) (by omega) (by omega)⟩
          dsimp only
          rw [ea, e3, eb, e5, ec]; simp
  · rename_i hp
    obtain ⟨c1, rfl⟩ := peek_inv hp
    simp only [read_exact_one, P.bind_ok]
    refine post_bind (post_read_int_g _ _) ?_
    rintro ⟨nn, c2⟩ - ⟨a, ea, n, pn, rfl⟩
    dsimp only at ea
    unfold RuleDay.julian_1
    split
    · exact post_err
    · rename_i g
      simp only [Bool.not_eq_true', Bool.not_eq_false, Bool.and_eq_true, decide_eq_true_eq] at g
      simp only [P.bind_ok, Int.toNat_natCast]
      refine post_ok ⟨74 :: a, ?_, Day.j1 pn (by omega) (by omega)⟩
      dsimp only
      rw [ea]; rfl
  · refine post_bind (post_read_int_g _ _) ?_
    rintro ⟨nn, c2⟩ - ⟨a, ea, n, pn, rfl⟩
    dsimp only at ea ⊢
    unfold RuleDay.julian_0
    split
    · exact post_err
    · rename_i g
      simp only [P.bind_ok, Int.toNat_natCast]
      exact post_ok ⟨a, ea, Day.j0 pn (by omega)⟩

theorem post_ruleday_parse_g (c : Cursor) (ext : Bool) :
    Post (RuleDay.parse c ext) (Took c (fun s v => DayTime ext s v.1 v.2)) := by
  unfold RuleDay.parse
  refine post_bind (post_parse_date_g _) ?_
  rintro ⟨date, c1⟩ - ⟨s, e1, pd⟩
  dsimp only at e1 pd
  refine post_bind (post_rot_g _ _) ?_
  rintro ⟨slash, c2⟩ - hs
  dsimp only at hs
  have k : DEFAULT_RULE_TIME = 7200 := rfl
  rcases hs with ⟨rfl, e2⟩ | ⟨rfl, rfl⟩
  · cases ext <;> dsimp only
    · refine post_bind (post_parse_rule_time_g _) ?_
      rintro ⟨t, c3⟩ - ⟨st, e3, pt⟩
      dsimp only at e3 pt
      refine post_ok ⟨s ++ 47 :: st, ?_, DayTime.timed pd pt⟩
      dsimp only
      rw [e1, e2, e3]; simp
    · refine post_bind (post_parse_rule_time_extended_g _) ?_
      rintro ⟨t, c3⟩ - ⟨st, e3, pt⟩
      dsimp only at e3 pt
      refine post_ok ⟨s ++ 47 :: st, ?_, DayTime.timed pd pt⟩
      dsimp only
      rw [e1, e2, e3]; simp
  · dsimp only
    rw [k]
    exact post_ok ⟨s, e1, DayTime.default pd⟩

theorem post_parse_dst_offset_g (so : Int) (hso : -89999 ≤ so ∧ so ≤ 89999) (c : Cursor) :
    Post (parse_dst_offset so c) (Took c (DstOffset so)) := by
  unfold parse_dst_offset
  have k : DEFAULT_DST_DELTA = 3600 := rfl
  split
  · rw [k, ck32_ok (by omega) (by omega)]
    exact post_ok ⟨[], rfl, DstOffset.default⟩
  · refine post_mono (post_parse_offset_g c) ?_
    rintro ⟨o, c'⟩ ⟨s, e, po⟩
    exact ⟨s, e, DstOffset.given po⟩
  · exact post_err

/-! ### whatever the reader accepts is a string of the grammar, denoting the rule returned -/
theorem post_from_tz_string_g (s : List Nat) (ext : Bool) :
    Post (from_tz_string s ext) (Denotes ext s) := by
  unfold from_tz_string
  refine post_bind (post_parse_name_g _) ?_
  rintro ⟨stdn, c1⟩ - ⟨s1, e1, pn1⟩
  dsimp only at e1 pn1
  refine post_bind (post_parse_offset_g _) ?_
  rintro ⟨so, c2⟩ - ⟨s2, e2, po1⟩
  dsimp only at e2 po1
  have hso := offset_bounds po1
  dsimp only
  split
  · rename_i hemp
    have hc2 : c2 = [] := by simpa using hemp
    rw [ck32_ok (by omega) (by omega)]
    simp only [P.bind_ok]
    refine post_bind (post_ltt_new _ _ _) ?_
    rintro t - ⟨rfl, ho, hn⟩
    have := Denotes.fixed (ext := ext) (name_of_tok pn1 (hn _ rfl)) po1 (by unfold Within24h; omega)
    rw [e1, e2, hc2, List.append_nil]
    exact post_ok this
  · refine post_bind (post_parse_name_g _) ?_
    rintro ⟨dstn, c3⟩ - ⟨s3, e3, pn2⟩
    dsimp only at e3 pn2
    refine post_bind (post_parse_dst_offset_g so hso _) ?_
    rintro ⟨d_o, c4⟩ - ⟨s4, e4, po2⟩
    dsimp only at e4 po2
    have hdo := dstOffset_bounds po2 hso
    dsimp only
    split
    · exact post_err
    · refine post_bind (post_read_tag_g _ _) ?_
      rintro c5 - e5
      refine post_bind (post_ruleday_parse_g _ _) ?_
      rintro ⟨⟨d1, t1⟩, c6⟩ - ⟨s5, e6, pd1⟩
      dsimp only at e6 pd1
      refine post_bind (post_read_tag_g _ _) ?_
      rintro c7 - e7
      dsimp only at e7
      refine post_bind (post_ruleday_parse_g _ _) ?_
      rintro ⟨⟨d2, t2⟩, c8⟩ - ⟨s6, e8, pd2⟩
      dsimp only at e8 pd2
      dsimp only
      split
      · exact post_err
      · rename_i hemp
        have hc8 : c8 = [] := by simpa using hemp
        rw [ck32_ok (by omega) (by omega)]
        simp only [P.bind_ok]
        refine post_bind (post_ltt_new _ _ _) ?_
        rintro std - ⟨rfl, ho1, hn1⟩
        rw [ck32_ok (by omega) (by omega)]
        simp only [P.bind_ok]
        refine post_bind (post_ltt_new _ _ _) ?_
        rintro dst - ⟨rfl, ho2, hn2⟩
        refine post_bind (post_alt_new _ _ _ _ _ _) ?_
        rintro a - rfl
        have := Denotes.alt (ext := ext) (name_of_tok pn1 (hn1 _ rfl)) po1 (name_of_tok pn2 (hn2 _ rfl))
          po2 pd1 pd2 (by unfold Within24h; omega) (by unfold Within24h; omega)
        have es : s = s1 ++ (s2 ++ (s3 ++ (s4 ++ 44 :: (s5 ++ 44 :: s6)))) := by
          rw [e1, e2, e3, e4, e5, e6, e7, e8, hc8, List.append_nil]
        rw [es]
        exact post_ok this

theorem tz_accepts_only' (ext : Bool) (s : List Nat) (r : Rule) (h : from_tz_string s ext = .ok r) :
    Denotes ext s r :=
  post_spec (post_from_tz_string_g s ext) h

end Chrono.Proofs.Tz
