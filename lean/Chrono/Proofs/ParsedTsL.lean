/-
  C14 with C02/C03: the timestamp fall-back path of `to_naive_datetime_with_offset` (fields
  reconstructed from the timestamp, second-60 allowance, the repaired checked subtraction), and the
  resolver as a whole (`dt_main`).
-/
import Chrono.Proofs.ParsedIsoL
import Chrono.Proofs.TimestampL
import Chrono.Proofs.DateTimeArithL
import Chrono.Proofs.ZonedL
namespace Chrono.Proofs.ParsedRes
open Chrono Chrono.M Chrono.Spec Chrono.Spec.Fields Chrono.Spec.Ts Chrono.Extracted Chrono.Proofs Chrono.Proofs.Ts

theorem set_year_ok (p p1 : Parsed) (v : Int) :
    p.set_year v = .ok p1 ↔ ∃ x, Parsed.toI32 v = .ok x ∧ (p.year = none ∨ p.year = some x) ∧
      p1 = { p with year := some x } := setShape _ _ (fun f => { p with year := f }) p1
theorem set_ordinal_ok (p p1 : Parsed) (v : Int) :
    p.set_ordinal v = .ok p1 ↔ ∃ x, Parsed.inRange v 1 366 = .ok x ∧ (p.ordinal = none ∨ p.ordinal = some x) ∧
      p1 = { p with ordinal := some x } := setShape _ _ (fun f => { p with ordinal := f }) p1
theorem set_minute_ok (p p1 : Parsed) (v : Int) :
    p.set_minute v = .ok p1 ↔ ∃ x, Parsed.inRange v 0 59 = .ok x ∧ (p.minute = none ∨ p.minute = some x) ∧
      p1 = { p with minute := some x } := setShape _ _ (fun f => { p with minute := f }) p1
theorem set_second_ok (p p1 : Parsed) (v : Int) :
    p.set_second v = .ok p1 ↔ ∃ x, Parsed.inRange v 0 60 = .ok x ∧ (p.second = none ∨ p.second = some x) ∧
      p1 = { p with second := some x } := setShape _ _ (fun f => { p with second := f }) p1

/-- a setter fails only with IMPOSSIBLE or OUT_OF_RANGE -/
theorem setIf_err {α} [DecidableEq α] (old : Option α) (v : α) (e : PErr)
    (h : Parsed.setIf old v = .error e) : e = .impossible := by
  unfold Parsed.setIf at h
  split at h
  · split at h
    · cases h; rfl
    · cases h
  · cases h

theorem one_second : Delta.try_seconds 1 = some ⟨1, 0⟩ ∧ DInv ⟨1, 0⟩ ∧ ns ⟨1, 0⟩ = 1000000000 := by
  decide

/-- the leap-second allowance of the fall-back path -/
theorem leap_adjust_spec (p : Parsed) (dt : NaiveDT) (hdt : NDTInv dt) (hf : dt.time.frac = 0) :
    ∃ r, Parsed.leap_adjust p dt = .ok r ∧
      (∀ e, r = .error e → e = .impossible ∨ e = .outOfRange) ∧
      (∀ d' p', r = .ok (d', p') →
        NDTInv d' ∧ d'.time.frac = 0 ∧
        (∃ s', p' = { p with second := some s' } ∧ (p.second = none ∨ p.second = some s') ∧
          (if s' = 60 then d'.time.secs % 60 = 59 else s' = d'.time.secs % 60)) ∧
        (instSecs d' = instSecs dt ∨ (instSecs d' = instSecs dt - 1 ∧ p.second = some 60))) := by
  unfold Parsed.leap_adjust
  have hsec : dt.time.second = dt.time.secs % 60 := rfl
  obtain ⟨hdi, t0, t1, _, _⟩ := hdt
  by_cases h60 : p.second = some 60
  · rw [if_pos h60]
    by_cases h59 : dt.time.second = 59
    · rw [if_pos h59]
      refine ⟨_, rfl, (fun e h => by cases h), ?_⟩
      intro d' p' h
      cases h
      refine ⟨⟨hdi, t0, t1, by omega, by omega⟩, hf, ⟨60, ?_, Or.inr h60, ?_⟩, Or.inl rfl⟩
      · cases p; simp_all
      · rw [if_pos rfl, ← hsec]; exact h59
    · rw [if_neg h59]
      by_cases h0 : dt.time.second = 0
      · rw [if_pos h0, one_second.1]
        simp only []
        obtain ⟨r, hr, hnone, hsome⟩ := dt_sub_exact dt ⟨1, 0⟩ ⟨hdi, t0, t1, by omega, by omega⟩
          (by unfold NonLeap; omega) one_second.2.1
        rw [hr]
        cases r with
        | none =>
          simp only [Parsed.okOr, Parsed.RP.bind]
          exact ⟨_, rfl, (fun e h => by cases h; right; rfl), (fun d' p' h => by cases h)⟩
        | some d1 =>
          simp only [Parsed.okOr, Parsed.RP.bind]
          refine ⟨_, rfl, (fun e h => by cases h), ?_⟩
          intro d' p' h
          cases h
          obtain ⟨i1, i2, i3⟩ := hsome d1 rfl
          rw [one_second.2.2] at i3
          unfold instNs at i3
          unfold NonLeap at i2
          obtain ⟨_, u0, u1, u2, u3⟩ := id i1
          have hs1 : instSecs d1 = instSecs dt - 1 ∧ d1.time.frac = 0 := by
            rw [hf] at i3; omega
          have hd59 : d1.time.secs % 60 = 59 := by
            have e1 : instSecs d1 = (dayNumOf d1.date - EPOCH_DAY) * 86400 + d1.time.secs := rfl
            have e2 : instSecs dt = (dayNumOf dt.date - EPOCH_DAY) * 86400 + dt.time.secs := rfl
            rw [hsec] at h0
            omega
          refine ⟨i1, hs1.2, ⟨60, ?_, Or.inr h60, ?_⟩, Or.inr ⟨hs1.1, h60⟩⟩
          · cases p; simp_all
          · rw [if_pos rfl]; exact hd59
      · rw [if_neg h0]
        exact ⟨_, rfl, (fun e h => by cases h; left; rfl), (fun d' p' h => by cases h)⟩
  · rw [if_neg h60]
    cases hs : p.set_second dt.time.second with
    | error e =>
      simp only [Parsed.liftP, Parsed.RP.bind]
      refine ⟨_, rfl, ?_, (fun d' p' h => by cases h)⟩
      intro e' h
      cases h
      unfold Parsed.set_second at hs
      have hr : Parsed.inRange dt.time.second 0 60 = .ok dt.time.second :=
        (inRange_ok _ _ _ _).mpr ⟨by rw [hsec]; omega, rfl⟩
      rw [hr] at hs
      simp only [bind, Except.bind] at hs
      cases hsi : Parsed.setIf p.second dt.time.second with
      | error e2 =>
        rw [hsi] at hs
        cases hs
        left; exact setIf_err _ _ _ hsi
      | ok f => rw [hsi] at hs; cases hs
    | ok p1 =>
      simp only [Parsed.liftP, Parsed.RP.bind]
      refine ⟨_, rfl, (fun e h => by cases h), ?_⟩
      intro d' p' h
      cases h
      obtain ⟨x, hx, hold, rfl⟩ := (set_second_ok _ _ _).mp hs
      obtain ⟨_, rfl⟩ := (inRange_ok _ _ _ _).mp hx
      refine ⟨⟨hdi, t0, t1, by omega, by omega⟩, hf, ⟨dt.time.second, rfl, hold, ?_⟩, Or.inl rfl⟩
      rw [if_neg (by rw [hsec]; omega)]
      exact hsec

theorem toI32_err (v : Int) (e : PErr) (h : Parsed.toI32 v = .error e) : e = .outOfRange := by
  unfold Parsed.toI32 at h; split at h <;> cases h; rfl
theorem inRange_err (v lo hi : Int) (e : PErr) (h : Parsed.inRange v lo hi = .error e) : e = .outOfRange := by
  unfold Parsed.inRange at h; split at h <;> cases h; rfl

/-- the record after the fall-back path has filled in second, year, ordinal, hour and minute -/
def filled (p : Parsed) (s y o h mi : Int) : Parsed :=
  { p with second := some s, year := some y, ordinal := some o,
           hour_div_12 := some (if h ≤ 11 then 0 else 1),
           hour_mod_12 := some (if h ≤ 11 then h else h - 12), minute := some mi }

/-- the fields of `p` that are overwritten were absent or already had that value -/
def Fits (p : Parsed) (s y o h mi : Int) : Prop :=
  (p.second = none ∨ p.second = some s) ∧ (p.year = none ∨ p.year = some y) ∧
  (p.ordinal = none ∨ p.ordinal = some o) ∧
  (p.hour_div_12 = none ∨ p.hour_div_12 = some (if h ≤ 11 then 0 else 1)) ∧
  (p.hour_mod_12 = none ∨ p.hour_mod_12 = some (if h ≤ 11 then h else h - 12)) ∧
  (p.minute = none ∨ p.minute = some mi)

instance (p : Parsed) (s y o h mi : Int) : Decidable (Fits p s y o h mi) := by
  unfold Fits; exact inferInstance

theorem bind_setShape (g : PRes Int) (x : Int) (hg : g = .ok x) (old : Option Int)
    (upd : Option Int → Parsed) {β : Type} (k : Parsed → Parsed.RP β) :
    Parsed.RP.bind (Parsed.liftP (do let a ← g; let f ← Parsed.setIf old a; pure (upd f))) k =
      if old = none ∨ old = some x then k (upd (some x)) else .ok (.error .impossible) := by
  subst hg
  cases old with
  | none => simp [Parsed.liftP, Parsed.RP.bind, Parsed.setIf, bind, Except.bind, pure, Except.pure]
  | some v =>
    by_cases hv : v = x
    · subst hv
      simp [Parsed.liftP, Parsed.RP.bind, Parsed.setIf, bind, Except.bind, pure, Except.pure]
    · simp [Parsed.liftP, Parsed.RP.bind, Parsed.setIf, bind, Except.bind, hv]

theorem bind_set_hour (q : Parsed) (h : Int) (hh : 0 ≤ h ∧ h ≤ 23) {β : Type}
    (k : Parsed → Parsed.RP β) :
    Parsed.RP.bind (Parsed.liftP (Parsed.set_hour q h)) k =
      if (q.hour_div_12 = none ∨ q.hour_div_12 = some (if h ≤ 11 then 0 else 1)) ∧
         (q.hour_mod_12 = none ∨ q.hour_mod_12 = some (if h ≤ 11 then h else h - 12))
      then k { q with hour_div_12 := some (if h ≤ 11 then 0 else 1),
                      hour_mod_12 := some (if h ≤ 11 then h else h - 12) }
      else .ok (.error .impossible) := by
  cases hr : Parsed.set_hour q h with
  | ok p1 =>
    obtain ⟨_, c1, c2, rfl⟩ := (set_hour_ok q p1 h).mp hr
    rw [if_pos (And.intro c1 c2)]
    rfl
  | error e =>
    have hnc : ¬ ((q.hour_div_12 = none ∨ q.hour_div_12 = some (if h ≤ 11 then 0 else 1)) ∧
         (q.hour_mod_12 = none ∨ q.hour_mod_12 = some (if h ≤ 11 then h else h - 12))) := by
      intro hc
      have := (set_hour_ok q _ h).mpr ⟨hh, hc.1, hc.2, rfl⟩
      rw [this] at hr; cases hr
    rw [if_neg hnc]
    have he : e = .impossible := by
      unfold Parsed.set_hour at hr
      rw [(inRange_ok h 0 23 h).mpr ⟨hh, rfl⟩] at hr
      simp only [bind, Except.bind] at hr
      by_cases h11 : h ≤ 11
      · simp only [h11, if_true] at hr
        cases h1 : Parsed.setIf q.hour_div_12 (0 : Int) with
        | error e1 => rw [h1] at hr; cases hr; exact setIf_err _ _ _ h1
        | ok f =>
          rw [h1] at hr
          simp only [] at hr
          cases h2 : Parsed.setIf q.hour_mod_12 h with
          | error e2 => rw [h2] at hr; cases hr; exact setIf_err _ _ _ h2
          | ok g => rw [h2] at hr; cases hr
      · simp only [h11, if_false] at hr
        cases h1 : Parsed.setIf q.hour_div_12 (1 : Int) with
        | error e1 => rw [h1] at hr; cases hr; exact setIf_err _ _ _ h1
        | ok f =>
          rw [h1] at hr
          simp only [] at hr
          cases h2 : Parsed.setIf q.hour_mod_12 (h - 12) with
          | error e2 => rw [h2] at hr; cases hr; exact setIf_err _ _ _ h2
          | ok g => rw [h2] at hr; cases hr
    rw [he]
    rfl

/-- the four setters after the second: a filled record, or IMPOSSIBLE (values are in range) -/
theorem fill_chain (p : Parsed) (s y o h mi : Int) (hs : p.second = none ∨ p.second = some s)
    (hy : -2147483648 ≤ y ∧ y ≤ 2147483647) (ho : 1 ≤ o ∧ o ≤ 366) (hh : 0 ≤ h ∧ h ≤ 23)
    (hmi : 0 ≤ mi ∧ mi ≤ 59) {β : Type} (k : Parsed → Parsed.RP β) :
    (Parsed.RP.bind (Parsed.liftP (Parsed.set_year { p with second := some s } y)) fun p1 =>
     Parsed.RP.bind (Parsed.liftP (Parsed.set_ordinal p1 o)) fun p2 =>
     Parsed.RP.bind (Parsed.liftP (Parsed.set_hour p2 h)) fun p3 =>
     Parsed.RP.bind (Parsed.liftP (Parsed.set_minute p3 mi)) fun p4 => k p4) =
    (if Fits p s y o h mi then k (filled p s y o h mi) else .ok (.error .impossible)) := by
  unfold Parsed.set_year Parsed.set_ordinal Parsed.set_minute
  rw [bind_setShape _ y ((toI32_ok y y).mpr ⟨hy, rfl⟩)]
  try dsimp only
  by_cases c2 : p.year = none ∨ p.year = some y
  · rw [if_pos c2, bind_setShape _ o ((inRange_ok o 1 366 o).mpr ⟨ho, rfl⟩)]
    try dsimp only
    by_cases c3 : p.ordinal = none ∨ p.ordinal = some o
    · rw [if_pos c3, bind_set_hour _ h hh]
      try dsimp only
      by_cases c4 : (p.hour_div_12 = none ∨ p.hour_div_12 = some (if h ≤ 11 then 0 else 1)) ∧
          (p.hour_mod_12 = none ∨ p.hour_mod_12 = some (if h ≤ 11 then h else h - 12))
      · rw [if_pos c4, bind_setShape _ mi ((inRange_ok mi 0 59 mi).mpr ⟨hmi, rfl⟩)]
        try dsimp only
        by_cases c5 : p.minute = none ∨ p.minute = some mi
        · rw [if_pos c5, if_pos (show Fits p s y o h mi from ⟨hs, c2, c3, c4.1, c4.2, c5⟩)]
          rfl
        · rw [if_neg c5, if_neg (fun (hf : Fits p s y o h mi) => c5 hf.2.2.2.2.2)]
      · rw [if_neg c4, if_neg (fun (hf : Fits p s y o h mi) => c4 ⟨hf.2.2.2.1, hf.2.2.2.2.1⟩)]
    · rw [if_neg c3, if_neg (fun (hf : Fits p s y o h mi) => c3 hf.2.2.1)]
  · rw [if_neg c2, if_neg (fun (hf : Fits p s y o h mi) => c2 hf.2.1)]

theorem okOr_some {α} (a : α) (e : PErr) : Parsed.okOr (.ok (some a)) e = .ok (.ok a) := rfl
theorem okOr_none {α} (e : PErr) : Parsed.okOr (.ok (none : Option α)) e = .ok (.error e) := rfl
theorem bind_okok {α β} (a : α) (f : α → Parsed.RP β) : Parsed.RP.bind (.ok (.ok a)) f = f a := rfl
theorem bind_err {α β} (e : PErr) (f : α → Parsed.RP β) :
    Parsed.RP.bind (.ok (.error e)) f = .ok (.error e) := rfl

theorem optIn_some (v lo hi : Int) (h : lo ≤ v ∧ v ≤ hi) : optIn (some v) lo hi := by
  intro x hx; cases hx; exact h

theorem inType_filled (p : Parsed) (hp : InType p) (s y o h mi : Int) (hs : 0 ≤ s ∧ s ≤ 60)
    (hy : -2147483648 ≤ y ∧ y ≤ 2147483647) (ho : 1 ≤ o ∧ o ≤ 366) (hh : 0 ≤ h ∧ h ≤ 23)
    (hmi : 0 ≤ mi ∧ mi ≤ 59) : InType (filled p s y o h mi) := by
  obtain ⟨h1, h2, h3, h4, h5, h6, h7, h8, h9, h10, h11, h12, h13, h14, h15, h16, h17, h18, h19, h20⟩ := hp
  unfold filled
  exact ⟨optIn_some _ _ _ hy, h2, h3, h4, h5, h6, h7, h8, h9, h10, h11,
    optIn_some _ _ _ (by omega), h13,
    optIn_some _ _ _ (by split <;> omega), optIn_some _ _ _ (by split <;> omega),
    optIn_some _ _ _ (by omega), optIn_some _ _ _ (by omega), h18, h19, h20⟩

/-- the fall-back path of `to_naive_datetime_with_offset`: never panics; a result is an existing day
and a constructible time that agree with every supplied field, and its timestamp (local reading
minus offset) is the supplied one, or one less when the result is a leap second -/
theorem ts_path_spec (p : Parsed) (hp : InType p) (off timestamp : Int) :
    ∃ r, Parsed.from_timestamp_path p off timestamp = .ok r ∧
      (∀ e, r = .error e → e = .notEnough ∨ e = .impossible ∨ e = .outOfRange) ∧
      (∀ dt, r = .ok dt → ∃ Y o, VD Y o ∧ dt.date = dateOfYo Y o ∧ DateAgrees p Y o ∧
        TStrict dt.time ∧ TimeAgreesSupplied p dt.time ∧
        (timestamp = timestampIs.instSecsLocal dt - off ∨
          (1000000000 ≤ dt.time.frac ∧ timestamp = timestampIs.instSecsLocal dt - off + 1))) := by
  unfold Parsed.from_timestamp_path
  cases hopt : optI64 (timestamp + off) with
  | none => exact ⟨_, rfl, (fun e h => by cases h; simp), (fun dt h => by cases h)⟩
  | some ts =>
    have hts' : ts = timestamp + off ∧ isI64 ts := by
      unfold optI64 at hopt
      split at hopt
      · rename_i hin
        cases hopt
        refine ⟨rfl, ?_⟩
        unfold inI64 at hin
        have a : I64_MIN = -9223372036854775808 := rfl
        have b : I64_MAX = 9223372036854775807 := rfl
        simp only [Bool.and_eq_true, decide_eq_true_eq] at hin
        unfold isI64; omega
      · cases hopt
    obtain ⟨rfl, hi64⟩ := hts'
    simp only []
    obtain ⟨r0, hr0, _, hm0⟩ := from_timestamp_spec (timestamp + off) 0 hi64 (by omega)
    rw [hr0]
    cases r0 with
    | none =>
      simp only [okOr_some, okOr_none, bind_okok, bind_err]
      exact ⟨_, rfl, (fun e h => by cases h; simp), (fun dt h => by cases h)⟩
    | some dtm =>
      obtain ⟨hinv, _, hsecs, hfrac⟩ := hm0 dtm rfl
      simp only [okOr_some, okOr_none, bind_okok, bind_err]
      obtain ⟨r1, hr1, he1, hok1⟩ := leap_adjust_spec p dtm hinv hfrac
      rw [hr1]
      cases r1 with
      | error e =>
        simp only [bind_err]
        refine ⟨_, rfl, ?_, (fun dt h => by cases h)⟩
        intro e' h; cases h
        rcases he1 e rfl with h | h <;> simp [h]
      | ok dp =>
        obtain ⟨d', p'⟩ := dp
        obtain ⟨hinv', hfrac', ⟨s', rfl, hsold, hs'⟩, hinst⟩ := hok1 d' _ rfl
        simp only [bind_okok]
        obtain ⟨hdi, t0, t1, _, _⟩ := id hinv'
        obtain ⟨oN, hdeq, hoN, y1, y2, o1, o2⟩ := dateInv_repr d'.date hdi
        have hyl := yearLen_ge d'.date.year
        have hMIN : MIN_YEAR = -262143 := rfl
        have hMAX : MAX_YEAR = 262142 := rfl
        have hhour : d'.time.hour = d'.time.secs / 60 / 60 := rfl
        have hmin : d'.time.minute = d'.time.secs / 60 % 60 := rfl
        have hs60 : 0 ≤ s' ∧ s' ≤ 60 := by split at hs' <;> omega
        rw [fill_chain p s' d'.date.year d'.date.ordinal d'.time.hour d'.time.minute hsold
          (by omega) (by omega) (by omega) (by omega)]
        by_cases hfit : Fits p s' d'.date.year d'.date.ordinal d'.time.hour d'.time.minute
        · rw [if_pos hfit]
          have hp4 := inType_filled p hp s' d'.date.year d'.date.ordinal d'.time.hour d'.time.minute
            hs60 (by omega) (by omega) (by omega) (by omega)
          obtain ⟨r2, hr2, hok2, hk2, _⟩ := date_main _ hp4
          rw [hr2]
          cases r2 with
          | error e =>
            simp only [bind_okok, bind_err]
            exact ⟨_, rfl, (fun e' h => by cases h; exact hk2 e rfl), (fun dt h => by cases h)⟩
          | ok date =>
            simp only [bind_okok, bind_err, Parsed.liftP]
            cases htm : Parsed.to_naive_time (filled p s' d'.date.year d'.date.ordinal d'.time.hour d'.time.minute) with
            | error e =>
              simp only [bind_err]
              refine ⟨_, rfl, ?_, (fun dt h => by cases h)⟩
              intro e' h; cases h
              rcases time_err' _ e htm with ⟨h, _⟩ | ⟨h, _⟩ <;> simp [h]
            | ok t =>
              simp only [bind_okok]
              refine ⟨_, rfl, (fun e h => by cases h), ?_⟩
              intro dt h
              cases h
              obtain ⟨Y, o, hvd, hdate, hag⟩ := hok2 date rfl
              have hag := hag (Or.inl isoCtorSpec_holds)
              obtain ⟨a1, a2, a3, a4, a5, a6, a7, a8, a9, a10⟩ := hag
              obtain ⟨ts1, ta, _, _⟩ := time_sound' _ t htm
              obtain ⟨b1, b2, b3, ⟨b4, _⟩, ⟨b5, _⟩⟩ := ta
              obtain ⟨f1, f2, f3, f4, f5, f6⟩ := hfit
              have eY : d'.date.year = Y := a1 _ rfl
              have eO : d'.date.ordinal = (o : Int) := a8 _ rfl
              have e1 := b1 _ rfl
              have e2 := b2 _ rfl
              have e3 := b3 _ rfl
              have e4 := b4 s' rfl
              unfold hourOf minuteOf secondOf at *
              obtain ⟨⟨tv0, tv1, tv2, tv3⟩, _⟩ := id ts1
              have hsecs_eq : t.secs = d'.time.secs := by
                rw [hhour] at e1 e2
                rw [hmin] at e3
                by_cases c60 : s' = 60
                · rw [if_pos c60] at hs' e4; split at e1 <;> split at e2 <;> omega
                · rw [if_neg c60] at hs' e4; split at e1 <;> split at e2 <;> omega
              refine ⟨Y, o, hvd, hdate, ⟨?_, a2, a3, a4, a5, a6, a7, ?_, a9, a10⟩, ts1,
                ⟨?_, ?_, ?_, ?_, b5⟩, ?_⟩
              · intro x hx; rcases f2 with g | g <;> rw [g] at hx <;> cases hx; exact eY
              · intro x hx; rcases f3 with g | g <;> rw [g] at hx <;> cases hx; exact eO
              · intro x hx; rcases f4 with g | g <;> rw [g] at hx <;> cases hx; exact e1
              · intro x hx; rcases f5 with g | g <;> rw [g] at hx <;> cases hx; exact e2
              · intro x hx; rcases f6 with g | g <;> rw [g] at hx <;> cases hx; exact e3
              · intro x hx; rcases f1 with g | g <;> rw [g] at hx <;> cases hx; exact e4
              · -- the timestamp
                have hS : timestampIs.instSecsLocal ⟨date, t⟩ = instSecs d' := by
                  unfold timestampIs.instSecsLocal instSecs dayNumOf
                  have hE : EPOCH_DAY = 719163 := rfl
                  obtain ⟨g1, g2, _⟩ := vd_fields Y o hvd
                  rw [hdate, g1, g2, eY, eO, hE]
                  simp only []
                  rw [hsecs_eq]
                rw [hS]
                rcases hinst with hi | ⟨hi, h60⟩
                · left; omega
                · right
                  have c60 : s' = 60 := by
                    rcases hsold with g | g
                    · rw [g] at h60; cases h60
                    · rw [g] at h60; cases h60; rfl
                  rw [if_pos c60] at e4
                  exact ⟨e4.2, by omega⟩
        · rw [if_neg hfit]
          exact ⟨_, rfl, (fun e h => by cases h; simp), (fun dt h => by cases h)⟩

theorem timeSupplied_of_agrees (p : Parsed) (t : Time) (h : TimeAgrees p t) : TimeAgreesSupplied p t :=
  ⟨h.1, h.2.1, h.2.2.1, h.2.2.2.1.1, h.2.2.2.2.1⟩

/-- `to_naive_datetime_with_offset`, both paths, every record and every `i32` offset: never panics;
errors by value (three kinds); a result is an existing day and a constructible time of day that agree
with every supplied date and time field, and with the supplied timestamp at that offset (one-second
allowance for a leap-second result) -/
theorem dt_main (p : Parsed) (hp : InType p) (off : Int) (hoff : -2147483648 ≤ off ∧ off ≤ 2147483647) :
    ∃ r, Parsed.to_naive_datetime_with_offset p off = .ok r ∧
      (∀ e, r = .error e → e = .notEnough ∨ e = .impossible ∨ e = .outOfRange) ∧
      (∀ dt, r = .ok dt → ∃ Y o, VD Y o ∧ dt.date = dateOfYo Y o ∧ DateAgrees p Y o ∧
        TStrict dt.time ∧ TimeAgreesSupplied p dt.time ∧ timestampIs p.timestamp dt off) := by
  obtain ⟨rd, hrd, hokd, hkd, _⟩ := date_main p hp
  have tkinds : ∀ e, Parsed.to_naive_time p = .error e →
      e = .notEnough ∨ e = .impossible ∨ e = .outOfRange := by
    intro e h; rcases time_err' p e h with ⟨h, _⟩ | ⟨h, _⟩ <;> simp [h]
  have fallback : ∀ (g : Int), p.timestamp = some g →
      ∃ r, Parsed.from_timestamp_path p off g = .ok r ∧
      (∀ e, r = .error e → e = .notEnough ∨ e = .impossible ∨ e = .outOfRange) ∧
      (∀ dt, r = .ok dt → ∃ Y o, VD Y o ∧ dt.date = dateOfYo Y o ∧ DateAgrees p Y o ∧
        TStrict dt.time ∧ TimeAgreesSupplied p dt.time ∧ timestampIs p.timestamp dt off) := by
    intro g hg
    obtain ⟨r, hr, hk, hok⟩ := ts_path_spec p hp off g
    refine ⟨r, hr, hk, ?_⟩
    intro dt hdt
    obtain ⟨Y, o, h1, h2, h3, h4, h5, h6⟩ := hok dt hdt
    refine ⟨Y, o, h1, h2, h3, h4, h5, ?_⟩
    intro g' hg'
    rw [hg] at hg'; cases hg'
    exact h6
  -- what the second branch does once date/time are known not to be both Ok
  have second : ∀ (date : PRes Date) (time : PRes Time),
      (∀ e, date = .error e → e = .notEnough ∨ e = .impossible ∨ e = .outOfRange) →
      (∀ e, time = .error e → e = .notEnough ∨ e = .impossible ∨ e = .outOfRange) →
      (∀ d t, ¬ (date = .ok d ∧ time = .ok t)) →
      ∃ r, (match p.timestamp with
        | some timestamp =>
          if Parsed.errIs date .outOfRange || Parsed.errIs time .outOfRange then .ok (.error .outOfRange)
          else if Parsed.errIs date .impossible || Parsed.errIs time .impossible then .ok (.error .impossible)
          else Parsed.from_timestamp_path p off timestamp
        | none =>
          match date with
          | .error e => .ok (.error e)
          | .ok _ => match time with
            | .error e => .ok (.error e)
            | .ok _ => .panic : Parsed.RP NaiveDT) = .ok r ∧
      (∀ e, r = .error e → e = .notEnough ∨ e = .impossible ∨ e = .outOfRange) ∧
      (∀ dt, r = .ok dt → ∃ Y o, VD Y o ∧ dt.date = dateOfYo Y o ∧ DateAgrees p Y o ∧
        TStrict dt.time ∧ TimeAgreesSupplied p dt.time ∧ timestampIs p.timestamp dt off) := by
    intro date time kd kt hnb
    cases hts : p.timestamp with
    | some g =>
      simp only []
      split
      · exact ⟨_, rfl, (fun e h => by cases h; simp), (fun dt h => by cases h)⟩
      · split
        · exact ⟨_, rfl, (fun e h => by cases h; simp), (fun dt h => by cases h)⟩
        · have := fallback g hts
          rw [hts] at this
          exact this
    | none =>
      simp only []
      cases date with
      | error e => exact ⟨_, rfl, (fun e' h => by cases h; exact kd e rfl), (fun dt h => by cases h)⟩
      | ok d =>
        cases time with
        | error e => exact ⟨_, rfl, (fun e' h => by cases h; exact kt e rfl), (fun dt h => by cases h)⟩
        | ok t => exact absurd ⟨rfl, rfl⟩ (hnb d t)
  cases rd with
  | error e =>
    unfold Parsed.to_naive_datetime_with_offset
    rw [hrd]
    simp only []
    cases htm : Parsed.to_naive_time p with
    | error e2 =>
      exact second (.error e) (.error e2) (fun e' h => by cases h; exact hkd e rfl)
        (fun e' h => by cases h; exact tkinds e2 htm) (fun d t h => by cases h.1)
    | ok t =>
      exact second (.error e) (.ok t) (fun e' h => by cases h; exact hkd e rfl)
        (fun e' h => by cases h) (fun d t h => by cases h.1)
  | ok d =>
    cases htm : Parsed.to_naive_time p with
    | error e2 =>
      unfold Parsed.to_naive_datetime_with_offset
      rw [hrd, htm]
      simp only []
      exact second (.ok d) (.error e2) (fun e' h => by cases h)
        (fun e' h => by cases h; exact tkinds e2 htm) (fun d t h => by cases h.2)
    | ok t =>
      obtain ⟨Y, o, hvd, rfl, hag⟩ := hokd d rfl
      have hag := hag (Or.inl isoCtorSpec_holds)
      obtain ⟨ts1, ta, _, _⟩ := time_sound' p t htm
      have hpath := dt_fields_path p off hoff Y o t hvd ts1.1 hrd htm
      rw [hpath]
      refine ⟨_, rfl, ?_, ?_⟩
      · intro e h
        cases hts : p.timestamp with
        | none => rw [hts] at h; cases h
        | some g =>
          rw [hts] at h
          simp only [] at h
          split at h
          · cases h; simp
          · cases h
      · intro dt h
        cases hts : p.timestamp with
        | none =>
          rw [hts] at h
          cases h
          exact ⟨Y, o, hvd, rfl, hag, ts1, timeSupplied_of_agrees p t ta, fun g hg => by cases hg⟩
        | some g =>
          rw [hts] at h
          simp only [] at h
          split at h
          · cases h
          · rename_i hc
            cases h
            refine ⟨Y, o, hvd, rfl, hag, ts1, timeSupplied_of_agrees p t ta, ?_⟩
            intro g' hg'
            cases hg'
            by_cases h1 : g = timestampIs.instSecsLocal ⟨dateOfYo Y o, t⟩ - off
            · exact Or.inl h1
            · right
              have : ¬ ¬ (t.frac ≥ 1000000000 ∧ g = timestampIs.instSecsLocal ⟨dateOfYo Y o, t⟩ - off + 1) :=
                fun hn => hc ⟨h1, hn⟩
              exact Decidable.not_not.mp this

end Chrono.Proofs.ParsedRes
