/-
  C20, audit2 gap 2: the bodies of the sixteen serde timestamp modules, re-extracted on every run as terms
  (Extracted/SerdeBodies.lean: every operator, cast, comparison and callee), given their meaning by the generic
  evaluator of Model/SerdeTsEval.lean, ARE the hand-written functions of Model/SerdeTs.lean.

  `visRows` / `optRows` collect, per target, what the extractor found in each module: the struct the
  `de::Visitor` impl is for and the bodies of its methods; a visitor NAME in a `deserialize` / `visit_some`
  body is resolved through these rows (so `d.deserialize_i64(MicroSecondsTimestampVisitor)` inside
  `ts_milliseconds_option::visit_some` would select the microsecond bodies and the equality below would fail).
  Namespace `Chrono.Proofs.SerdeTsBodies`.
-/
import Chrono.Model.SerdeTsEval
import Chrono.Extracted.SerdeBodies
import Chrono.Spec.SerdeSpec
import Chrono.Spec.TimestampSpec
import Chrono.Proofs.PrimL

namespace Chrono.Proofs.SerdeTsBodies
open Chrono Chrono.M Chrono.M.Serde Chrono.M.Serde.Code Chrono.Extracted Chrono.Spec Chrono.Spec.Ts Chrono.Spec.Serde

/-- per target: (struct the `de::Visitor` impl of the plain module is for, `visit_i64` body, `visit_u64` body) -/
def visRows : Target → List (Vis × Visit × Visit)
  | .utc => [(SB_utc_ts_seconds_impl, SB_utc_ts_seconds_i64, SB_utc_ts_seconds_u64),
      (SB_utc_ts_milliseconds_impl, SB_utc_ts_milliseconds_i64, SB_utc_ts_milliseconds_u64),
      (SB_utc_ts_microseconds_impl, SB_utc_ts_microseconds_i64, SB_utc_ts_microseconds_u64),
      (SB_utc_ts_nanoseconds_impl, SB_utc_ts_nanoseconds_i64, SB_utc_ts_nanoseconds_u64)]
  | .naive => [(SB_naive_ts_seconds_impl, SB_naive_ts_seconds_i64, SB_naive_ts_seconds_u64),
      (SB_naive_ts_milliseconds_impl, SB_naive_ts_milliseconds_i64, SB_naive_ts_milliseconds_u64),
      (SB_naive_ts_microseconds_impl, SB_naive_ts_microseconds_i64, SB_naive_ts_microseconds_u64),
      (SB_naive_ts_nanoseconds_impl, SB_naive_ts_nanoseconds_i64, SB_naive_ts_nanoseconds_u64)]

/-- the integer visitor of that name in the target's file -/
def visOf (tg : Target) (n : Vis) : WInt → Res (SR NaiveDT) :=
  match (visRows tg).find? (fun r => decide (r.1 = n)) with
  | some (_, bi, bu) => visitor bi bu
  | none => fun _ => .panic

/-- per target: (struct the impl of the `_option` module is for, `visit_some`, `visit_none`, `visit_unit` bodies) -/
def optRows : Target → List (Vis × De × Unitish × Unitish)
  | .utc => [(SB_utc_ts_seconds_option_impl, SB_utc_ts_seconds_option_some, SB_utc_ts_seconds_option_none, SB_utc_ts_seconds_option_unit),
      (SB_utc_ts_milliseconds_option_impl, SB_utc_ts_milliseconds_option_some, SB_utc_ts_milliseconds_option_none, SB_utc_ts_milliseconds_option_unit),
      (SB_utc_ts_microseconds_option_impl, SB_utc_ts_microseconds_option_some, SB_utc_ts_microseconds_option_none, SB_utc_ts_microseconds_option_unit),
      (SB_utc_ts_nanoseconds_option_impl, SB_utc_ts_nanoseconds_option_some, SB_utc_ts_nanoseconds_option_none, SB_utc_ts_nanoseconds_option_unit)]
  | .naive => [(SB_naive_ts_seconds_option_impl, SB_naive_ts_seconds_option_some, SB_naive_ts_seconds_option_none, SB_naive_ts_seconds_option_unit),
      (SB_naive_ts_milliseconds_option_impl, SB_naive_ts_milliseconds_option_some, SB_naive_ts_milliseconds_option_none, SB_naive_ts_milliseconds_option_unit),
      (SB_naive_ts_microseconds_option_impl, SB_naive_ts_microseconds_option_some, SB_naive_ts_microseconds_option_none, SB_naive_ts_microseconds_option_unit),
      (SB_naive_ts_nanoseconds_option_impl, SB_naive_ts_nanoseconds_option_some, SB_naive_ts_nanoseconds_option_none, SB_naive_ts_nanoseconds_option_unit)]

def optVisOf (tg : Target) (n : Vis) : WOpt → Res (SR (Option NaiveDT)) :=
  match (optRows tg).find? (fun r => decide (r.1 = n)) with
  | some (_, s, nn, u) => optVisitor s nn u (visOf tg)
  | none => fun _ => .panic

def serRow : Target → TsUnit → Ser
  | .utc, .secs => SB_utc_ts_seconds_ser
  | .utc, .millis => SB_utc_ts_milliseconds_ser
  | .utc, .micros => SB_utc_ts_microseconds_ser
  | .utc, .nanos => SB_utc_ts_nanoseconds_ser
  | .naive, .secs => SB_naive_ts_seconds_ser
  | .naive, .millis => SB_naive_ts_milliseconds_ser
  | .naive, .micros => SB_naive_ts_microseconds_ser
  | .naive, .nanos => SB_naive_ts_nanoseconds_ser

def serOptRow : Target → TsUnit → Ser
  | .utc, .secs => SB_utc_ts_seconds_option_ser
  | .utc, .millis => SB_utc_ts_milliseconds_option_ser
  | .utc, .micros => SB_utc_ts_microseconds_option_ser
  | .utc, .nanos => SB_utc_ts_nanoseconds_option_ser
  | .naive, .secs => SB_naive_ts_seconds_option_ser
  | .naive, .millis => SB_naive_ts_milliseconds_option_ser
  | .naive, .micros => SB_naive_ts_microseconds_option_ser
  | .naive, .nanos => SB_naive_ts_nanoseconds_option_ser

def deRow : Target → TsUnit → De
  | .utc, .secs => SB_utc_ts_seconds_de
  | .utc, .millis => SB_utc_ts_milliseconds_de
  | .utc, .micros => SB_utc_ts_microseconds_de
  | .utc, .nanos => SB_utc_ts_nanoseconds_de
  | .naive, .secs => SB_naive_ts_seconds_de
  | .naive, .millis => SB_naive_ts_milliseconds_de
  | .naive, .micros => SB_naive_ts_microseconds_de
  | .naive, .nanos => SB_naive_ts_nanoseconds_de

def deOptRow : Target → TsUnit → De
  | .utc, .secs => SB_utc_ts_seconds_option_de
  | .utc, .millis => SB_utc_ts_milliseconds_option_de
  | .utc, .micros => SB_utc_ts_microseconds_option_de
  | .utc, .nanos => SB_utc_ts_nanoseconds_option_de
  | .naive, .secs => SB_naive_ts_seconds_option_de
  | .naive, .millis => SB_naive_ts_milliseconds_option_de
  | .naive, .micros => SB_naive_ts_microseconds_option_de
  | .naive, .nanos => SB_naive_ts_nanoseconds_option_de

def someRow : Target → TsUnit → De
  | .utc, .secs => SB_utc_ts_seconds_option_some
  | .utc, .millis => SB_utc_ts_milliseconds_option_some
  | .utc, .micros => SB_utc_ts_microseconds_option_some
  | .utc, .nanos => SB_utc_ts_nanoseconds_option_some
  | .naive, .secs => SB_naive_ts_seconds_option_some
  | .naive, .millis => SB_naive_ts_milliseconds_option_some
  | .naive, .micros => SB_naive_ts_microseconds_option_some
  | .naive, .nanos => SB_naive_ts_nanoseconds_option_some

/-- `<target>::ts_<unit>::serialize`, read off the extracted body -/
def genSerialize (tg : Target) (u : TsUnit) : NaiveDT → Res (SR SOut) := evalSer (serRow tg u)
/-- `<target>::ts_<unit>_option::serialize` -/
def genSerializeOption (tg : Target) (u : TsUnit) : Option NaiveDT → Res (SR SOut) := evalSerOpt (serOptRow tg u)
/-- `<target>::ts_<unit>::deserialize` -/
def genDeserialize (tg : Target) (u : TsUnit) : WInt → Res (SR NaiveDT) := evalDe (deRow tg u) (visOf tg)
/-- `<target>::ts_<unit>_option::deserialize` -/
def genDeserializeOption (tg : Target) (u : TsUnit) : WOpt → Res (SR (Option NaiveDT)) :=
  evalDeOpt (deOptRow tg u) (optVisOf tg)

/-- the payload of a wire integer fits the type of the visitor method it is delivered to -/
def WIntOk : WInt → Prop
  | .i64 v => isI64 v
  | .u64 v => isU64 v
  | .other => True
def WOptOk : WOpt → Prop
  | .some w => WIntOk w
  | _ => True

theorem bind_ok' {α β} (a : α) (f : α → Res β) : (Res.ok a).bind f = f a := rfl
theorem bind_panic' {α β} (f : α → Res β) : (Res.panic : Res α).bind f = .panic := rfl
theorem bind_assoc' {α β γ} (r : Res α) (f : α → Res β) (g : β → Res γ) :
    (r.bind f).bind g = r.bind fun x => (f x).bind g := by cases r <;> rfl

macro "visit_tac" h0:term : tactic => `(tactic|
  (simp [evalVisit, evalArgs, evalE, Ctor.call, from_ts_or_invalid, bind_ok', bind_panic', bind_assoc', asT, asU64,
      Cmp.holds, I64_MAX, divGuard, tyOf, ck, naive_utc,
      Int.tdiv_eq_ediv_of_nonneg $h0, Int.tmod_eq_emod_of_nonneg $h0]
   <;> (try split) <;> (try simp [Ctor.call])))

/-! ### the 32 visitor bodies -/

theorem utc_secs_i64 (v : Int) : evalVisit .i64 v SB_utc_ts_seconds_i64 = Utc.SecondsTimestampVisitor.visit_i64 v := by
  have h0 : (0 : Int) ≤ 0 := by omega
  unfold SB_utc_ts_seconds_i64 Utc.SecondsTimestampVisitor.visit_i64
  visit_tac h0
theorem utc_secs_u64 (v : Int) (h : isU64 v) : evalVisit .u64 v SB_utc_ts_seconds_u64 = Utc.SecondsTimestampVisitor.visit_u64 v := by
  have h0 : 0 ≤ v := h.1
  unfold SB_utc_ts_seconds_u64 Utc.SecondsTimestampVisitor.visit_u64
  visit_tac h0
theorem utc_millis_i64 (v : Int) : evalVisit .i64 v SB_utc_ts_milliseconds_i64 = Utc.MilliSecondsTimestampVisitor.visit_i64 v := by
  have h0 : (0 : Int) ≤ 0 := by omega
  unfold SB_utc_ts_milliseconds_i64 Utc.MilliSecondsTimestampVisitor.visit_i64
  visit_tac h0
theorem utc_millis_u64 (v : Int) (h : isU64 v) : evalVisit .u64 v SB_utc_ts_milliseconds_u64 = Utc.MilliSecondsTimestampVisitor.visit_u64 v := by
  have h0 : 0 ≤ v := h.1
  unfold SB_utc_ts_milliseconds_u64 Utc.MilliSecondsTimestampVisitor.visit_u64
  visit_tac h0
theorem utc_micros_i64 (v : Int) : evalVisit .i64 v SB_utc_ts_microseconds_i64 = Utc.MicroSecondsTimestampVisitor.visit_i64 v := by
  have h0 : (0 : Int) ≤ 0 := by omega
  unfold SB_utc_ts_microseconds_i64 Utc.MicroSecondsTimestampVisitor.visit_i64
  visit_tac h0
theorem utc_micros_u64 (v : Int) (h : isU64 v) : evalVisit .u64 v SB_utc_ts_microseconds_u64 = Utc.MicroSecondsTimestampVisitor.visit_u64 v := by
  have h0 : 0 ≤ v := h.1
  unfold SB_utc_ts_microseconds_u64 Utc.MicroSecondsTimestampVisitor.visit_u64
  visit_tac h0
theorem utc_nanos_i64 (v : Int) : evalVisit .i64 v SB_utc_ts_nanoseconds_i64 = Utc.NanoSecondsTimestampVisitor.visit_i64 v := by
  have h0 : (0 : Int) ≤ 0 := by omega
  unfold SB_utc_ts_nanoseconds_i64 Utc.NanoSecondsTimestampVisitor.visit_i64
  visit_tac h0
theorem utc_nanos_u64 (v : Int) (h : isU64 v) : evalVisit .u64 v SB_utc_ts_nanoseconds_u64 = Utc.NanoSecondsTimestampVisitor.visit_u64 v := by
  have h0 : 0 ≤ v := h.1
  unfold SB_utc_ts_nanoseconds_u64 Utc.NanoSecondsTimestampVisitor.visit_u64
  visit_tac h0
theorem naive_secs_i64 (v : Int) : evalVisit .i64 v SB_naive_ts_seconds_i64 = Naive.SecondsTimestampVisitor.visit_i64 v := by
  have h0 : (0 : Int) ≤ 0 := by omega
  unfold SB_naive_ts_seconds_i64 Naive.SecondsTimestampVisitor.visit_i64
  visit_tac h0
theorem naive_secs_u64 (v : Int) (h : isU64 v) : evalVisit .u64 v SB_naive_ts_seconds_u64 = Naive.SecondsTimestampVisitor.visit_u64 v := by
  have h0 : 0 ≤ v := h.1
  unfold SB_naive_ts_seconds_u64 Naive.SecondsTimestampVisitor.visit_u64
  visit_tac h0
theorem naive_millis_i64 (v : Int) : evalVisit .i64 v SB_naive_ts_milliseconds_i64 = Naive.MilliSecondsTimestampVisitor.visit_i64 v := by
  have h0 : (0 : Int) ≤ 0 := by omega
  unfold SB_naive_ts_milliseconds_i64 Naive.MilliSecondsTimestampVisitor.visit_i64
  visit_tac h0
theorem naive_millis_u64 (v : Int) (h : isU64 v) : evalVisit .u64 v SB_naive_ts_milliseconds_u64 = Naive.MilliSecondsTimestampVisitor.visit_u64 v := by
  have h0 : 0 ≤ v := h.1
  unfold SB_naive_ts_milliseconds_u64 Naive.MilliSecondsTimestampVisitor.visit_u64
  visit_tac h0
theorem naive_micros_i64 (v : Int) : evalVisit .i64 v SB_naive_ts_microseconds_i64 = Naive.MicroSecondsTimestampVisitor.visit_i64 v := by
  have h0 : (0 : Int) ≤ 0 := by omega
  unfold SB_naive_ts_microseconds_i64 Naive.MicroSecondsTimestampVisitor.visit_i64
  visit_tac h0
theorem naive_micros_u64 (v : Int) (h : isU64 v) : evalVisit .u64 v SB_naive_ts_microseconds_u64 = Naive.MicroSecondsTimestampVisitor.visit_u64 v := by
  have h0 : 0 ≤ v := h.1
  unfold SB_naive_ts_microseconds_u64 Naive.MicroSecondsTimestampVisitor.visit_u64
  visit_tac h0
theorem naive_nanos_i64 (v : Int) : evalVisit .i64 v SB_naive_ts_nanoseconds_i64 = Naive.NanoSecondsTimestampVisitor.visit_i64 v := by
  have h0 : (0 : Int) ≤ 0 := by omega
  unfold SB_naive_ts_nanoseconds_i64 Naive.NanoSecondsTimestampVisitor.visit_i64
  visit_tac h0
theorem naive_nanos_u64 (v : Int) (h : isU64 v) : evalVisit .u64 v SB_naive_ts_nanoseconds_u64 = Naive.NanoSecondsTimestampVisitor.visit_u64 v := by
  have h0 : 0 ≤ v := h.1
  unfold SB_naive_ts_nanoseconds_u64 Naive.NanoSecondsTimestampVisitor.visit_u64
  visit_tac h0

/-! ### visitor names resolve to the bodies of the module whose impl carries that name -/

theorem visOf_utc_secs : visOf .utc .SecondsTimestampVisitor = visitor SB_utc_ts_seconds_i64 SB_utc_ts_seconds_u64 := rfl
theorem optVisOf_utc_secs : optVisOf .utc .OptionSecondsTimestampVisitor = optVisitor SB_utc_ts_seconds_option_some SB_utc_ts_seconds_option_none SB_utc_ts_seconds_option_unit (visOf .utc) := rfl
theorem visOf_utc_millis : visOf .utc .MilliSecondsTimestampVisitor = visitor SB_utc_ts_milliseconds_i64 SB_utc_ts_milliseconds_u64 := rfl
theorem optVisOf_utc_millis : optVisOf .utc .OptionMilliSecondsTimestampVisitor = optVisitor SB_utc_ts_milliseconds_option_some SB_utc_ts_milliseconds_option_none SB_utc_ts_milliseconds_option_unit (visOf .utc) := rfl
theorem visOf_utc_micros : visOf .utc .MicroSecondsTimestampVisitor = visitor SB_utc_ts_microseconds_i64 SB_utc_ts_microseconds_u64 := rfl
theorem optVisOf_utc_micros : optVisOf .utc .OptionMicroSecondsTimestampVisitor = optVisitor SB_utc_ts_microseconds_option_some SB_utc_ts_microseconds_option_none SB_utc_ts_microseconds_option_unit (visOf .utc) := rfl
theorem visOf_utc_nanos : visOf .utc .NanoSecondsTimestampVisitor = visitor SB_utc_ts_nanoseconds_i64 SB_utc_ts_nanoseconds_u64 := rfl
theorem optVisOf_utc_nanos : optVisOf .utc .OptionNanoSecondsTimestampVisitor = optVisitor SB_utc_ts_nanoseconds_option_some SB_utc_ts_nanoseconds_option_none SB_utc_ts_nanoseconds_option_unit (visOf .utc) := rfl
theorem visOf_naive_secs : visOf .naive .SecondsTimestampVisitor = visitor SB_naive_ts_seconds_i64 SB_naive_ts_seconds_u64 := rfl
theorem optVisOf_naive_secs : optVisOf .naive .OptionSecondsTimestampVisitor = optVisitor SB_naive_ts_seconds_option_some SB_naive_ts_seconds_option_none SB_naive_ts_seconds_option_unit (visOf .naive) := rfl
theorem visOf_naive_millis : visOf .naive .MilliSecondsTimestampVisitor = visitor SB_naive_ts_milliseconds_i64 SB_naive_ts_milliseconds_u64 := rfl
theorem optVisOf_naive_millis : optVisOf .naive .OptionMilliSecondsTimestampVisitor = optVisitor SB_naive_ts_milliseconds_option_some SB_naive_ts_milliseconds_option_none SB_naive_ts_milliseconds_option_unit (visOf .naive) := rfl
theorem visOf_naive_micros : visOf .naive .MicroSecondsTimestampVisitor = visitor SB_naive_ts_microseconds_i64 SB_naive_ts_microseconds_u64 := rfl
theorem optVisOf_naive_micros : optVisOf .naive .OptionMicroSecondsTimestampVisitor = optVisitor SB_naive_ts_microseconds_option_some SB_naive_ts_microseconds_option_none SB_naive_ts_microseconds_option_unit (visOf .naive) := rfl
theorem visOf_naive_nanos : visOf .naive .NanoSecondsTimestampVisitor = visitor SB_naive_ts_nanoseconds_i64 SB_naive_ts_nanoseconds_u64 := rfl
theorem optVisOf_naive_nanos : optVisOf .naive .OptionNanoSecondsTimestampVisitor = optVisitor SB_naive_ts_nanoseconds_option_some SB_naive_ts_nanoseconds_option_none SB_naive_ts_nanoseconds_option_unit (visOf .naive) := rfl

/-- the visitor of the name, on a wire integer whose payload fits: the model's two methods -/
theorem vis_utc_secs (w : WInt) (hw : WIntOk w) : visOf .utc .SecondsTimestampVisitor w =
    (match w with
     | .i64 v => Utc.SecondsTimestampVisitor.visit_i64 v
     | .u64 v => Utc.SecondsTimestampVisitor.visit_u64 v
     | .other => .ok .err) := by
  rw [visOf_utc_secs]
  cases w with
  | i64 v => exact utc_secs_i64 v
  | u64 v => exact utc_secs_u64 v hw
  | other => rfl
theorem vis_utc_millis (w : WInt) (hw : WIntOk w) : visOf .utc .MilliSecondsTimestampVisitor w =
    (match w with
     | .i64 v => Utc.MilliSecondsTimestampVisitor.visit_i64 v
     | .u64 v => Utc.MilliSecondsTimestampVisitor.visit_u64 v
     | .other => .ok .err) := by
  rw [visOf_utc_millis]
  cases w with
  | i64 v => exact utc_millis_i64 v
  | u64 v => exact utc_millis_u64 v hw
  | other => rfl
theorem vis_utc_micros (w : WInt) (hw : WIntOk w) : visOf .utc .MicroSecondsTimestampVisitor w =
    (match w with
     | .i64 v => Utc.MicroSecondsTimestampVisitor.visit_i64 v
     | .u64 v => Utc.MicroSecondsTimestampVisitor.visit_u64 v
     | .other => .ok .err) := by
  rw [visOf_utc_micros]
  cases w with
  | i64 v => exact utc_micros_i64 v
  | u64 v => exact utc_micros_u64 v hw
  | other => rfl
theorem vis_utc_nanos (w : WInt) (hw : WIntOk w) : visOf .utc .NanoSecondsTimestampVisitor w =
    (match w with
     | .i64 v => Utc.NanoSecondsTimestampVisitor.visit_i64 v
     | .u64 v => Utc.NanoSecondsTimestampVisitor.visit_u64 v
     | .other => .ok .err) := by
  rw [visOf_utc_nanos]
  cases w with
  | i64 v => exact utc_nanos_i64 v
  | u64 v => exact utc_nanos_u64 v hw
  | other => rfl
theorem vis_naive_secs (w : WInt) (hw : WIntOk w) : visOf .naive .SecondsTimestampVisitor w =
    (match w with
     | .i64 v => Naive.SecondsTimestampVisitor.visit_i64 v
     | .u64 v => Naive.SecondsTimestampVisitor.visit_u64 v
     | .other => .ok .err) := by
  rw [visOf_naive_secs]
  cases w with
  | i64 v => exact naive_secs_i64 v
  | u64 v => exact naive_secs_u64 v hw
  | other => rfl
theorem vis_naive_millis (w : WInt) (hw : WIntOk w) : visOf .naive .MilliSecondsTimestampVisitor w =
    (match w with
     | .i64 v => Naive.MilliSecondsTimestampVisitor.visit_i64 v
     | .u64 v => Naive.MilliSecondsTimestampVisitor.visit_u64 v
     | .other => .ok .err) := by
  rw [visOf_naive_millis]
  cases w with
  | i64 v => exact naive_millis_i64 v
  | u64 v => exact naive_millis_u64 v hw
  | other => rfl
theorem vis_naive_micros (w : WInt) (hw : WIntOk w) : visOf .naive .MicroSecondsTimestampVisitor w =
    (match w with
     | .i64 v => Naive.MicroSecondsTimestampVisitor.visit_i64 v
     | .u64 v => Naive.MicroSecondsTimestampVisitor.visit_u64 v
     | .other => .ok .err) := by
  rw [visOf_naive_micros]
  cases w with
  | i64 v => exact naive_micros_i64 v
  | u64 v => exact naive_micros_u64 v hw
  | other => rfl
theorem vis_naive_nanos (w : WInt) (hw : WIntOk w) : visOf .naive .NanoSecondsTimestampVisitor w =
    (match w with
     | .i64 v => Naive.NanoSecondsTimestampVisitor.visit_i64 v
     | .u64 v => Naive.NanoSecondsTimestampVisitor.visit_u64 v
     | .other => .ok .err) := by
  rw [visOf_naive_nanos]
  cases w with
  | i64 v => exact naive_nanos_i64 v
  | u64 v => exact naive_nanos_u64 v hw
  | other => rfl

/-! ### the sixteen modules -/

theorem gen_serialize_eq (tg : Target) (u : TsUnit) (dt : NaiveDT) : genSerialize tg u dt = serialize tg u dt := by
  cases tg <;> cases u <;> rfl

theorem gen_serialize_option_eq (tg : Target) (u : TsUnit) (o : Option NaiveDT) :
    genSerializeOption tg u o = serialize_option tg u o := by
  cases tg <;> cases u <;> cases o <;> rfl

/-- the method each body requests from the deserializer -/
theorem methods_ok (tg : Target) (u : TsUnit) :
    (deRow tg u).m = .deserialize_i64 ∧ (deOptRow tg u).m = .deserialize_option ∧
    (someRow tg u).m = .deserialize_i64 := by
  cases tg <;> cases u <;> decide

theorem gen_deserialize_eq (tg : Target) (u : TsUnit) (w : WInt) (hw : WIntOk w) :
    genDeserialize tg u w = deserialize tg u w := by
  cases tg <;> cases u
  · show evalDe SB_utc_ts_seconds_de (visOf .utc) w = _
    simp only [evalDe, SB_utc_ts_seconds_de]
    rw [vis_utc_secs w hw]
    cases w <;> rfl
  · show evalDe SB_utc_ts_milliseconds_de (visOf .utc) w = _
    simp only [evalDe, SB_utc_ts_milliseconds_de]
    rw [vis_utc_millis w hw]
    cases w <;> rfl
  · show evalDe SB_utc_ts_microseconds_de (visOf .utc) w = _
    simp only [evalDe, SB_utc_ts_microseconds_de]
    rw [vis_utc_micros w hw]
    cases w <;> rfl
  · show evalDe SB_utc_ts_nanoseconds_de (visOf .utc) w = _
    simp only [evalDe, SB_utc_ts_nanoseconds_de]
    rw [vis_utc_nanos w hw]
    cases w <;> rfl
  · show evalDe SB_naive_ts_seconds_de (visOf .naive) w = _
    simp only [evalDe, SB_naive_ts_seconds_de]
    rw [vis_naive_secs w hw]
    cases w <;> rfl
  · show evalDe SB_naive_ts_milliseconds_de (visOf .naive) w = _
    simp only [evalDe, SB_naive_ts_milliseconds_de]
    rw [vis_naive_millis w hw]
    cases w <;> rfl
  · show evalDe SB_naive_ts_microseconds_de (visOf .naive) w = _
    simp only [evalDe, SB_naive_ts_microseconds_de]
    rw [vis_naive_micros w hw]
    cases w <;> rfl
  · show evalDe SB_naive_ts_nanoseconds_de (visOf .naive) w = _
    simp only [evalDe, SB_naive_ts_nanoseconds_de]
    rw [vis_naive_nanos w hw]
    cases w <;> rfl

theorem gen_deserialize_option_eq (tg : Target) (u : TsUnit) (w : WOpt) (hw : WOptOk w) :
    genDeserializeOption tg u w = deserialize_option tg u w := by
  cases tg <;> cases u
  · show evalDeOpt SB_utc_ts_seconds_option_de (optVisOf .utc) w = _
    simp only [evalDeOpt, SB_utc_ts_seconds_option_de]
    rw [optVisOf_utc_secs]
    cases w with
    | some x =>
      simp only [optVisitor, SB_utc_ts_seconds_option_some]
      rw [vis_utc_secs x hw]
      cases x <;> rfl
    | none => rfl
    | unit => rfl
    | other => rfl
  · show evalDeOpt SB_utc_ts_milliseconds_option_de (optVisOf .utc) w = _
    simp only [evalDeOpt, SB_utc_ts_milliseconds_option_de]
    rw [optVisOf_utc_millis]
    cases w with
    | some x =>
      simp only [optVisitor, SB_utc_ts_milliseconds_option_some]
      rw [vis_utc_millis x hw]
      cases x <;> rfl
    | none => rfl
    | unit => rfl
    | other => rfl
  · show evalDeOpt SB_utc_ts_microseconds_option_de (optVisOf .utc) w = _
    simp only [evalDeOpt, SB_utc_ts_microseconds_option_de]
    rw [optVisOf_utc_micros]
    cases w with
    | some x =>
      simp only [optVisitor, SB_utc_ts_microseconds_option_some]
      rw [vis_utc_micros x hw]
      cases x <;> rfl
    | none => rfl
    | unit => rfl
    | other => rfl
  · show evalDeOpt SB_utc_ts_nanoseconds_option_de (optVisOf .utc) w = _
    simp only [evalDeOpt, SB_utc_ts_nanoseconds_option_de]
    rw [optVisOf_utc_nanos]
    cases w with
    | some x =>
      simp only [optVisitor, SB_utc_ts_nanoseconds_option_some]
      rw [vis_utc_nanos x hw]
      cases x <;> rfl
    | none => rfl
    | unit => rfl
    | other => rfl
  · show evalDeOpt SB_naive_ts_seconds_option_de (optVisOf .naive) w = _
    simp only [evalDeOpt, SB_naive_ts_seconds_option_de]
    rw [optVisOf_naive_secs]
    cases w with
    | some x =>
      simp only [optVisitor, SB_naive_ts_seconds_option_some]
      rw [vis_naive_secs x hw]
      cases x <;> rfl
    | none => rfl
    | unit => rfl
    | other => rfl
  · show evalDeOpt SB_naive_ts_milliseconds_option_de (optVisOf .naive) w = _
    simp only [evalDeOpt, SB_naive_ts_milliseconds_option_de]
    rw [optVisOf_naive_millis]
    cases w with
    | some x =>
      simp only [optVisitor, SB_naive_ts_milliseconds_option_some]
      rw [vis_naive_millis x hw]
      cases x <;> rfl
    | none => rfl
    | unit => rfl
    | other => rfl
  · show evalDeOpt SB_naive_ts_microseconds_option_de (optVisOf .naive) w = _
    simp only [evalDeOpt, SB_naive_ts_microseconds_option_de]
    rw [optVisOf_naive_micros]
    cases w with
    | some x =>
      simp only [optVisitor, SB_naive_ts_microseconds_option_some]
      rw [vis_naive_micros x hw]
      cases x <;> rfl
    | none => rfl
    | unit => rfl
    | other => rfl
  · show evalDeOpt SB_naive_ts_nanoseconds_option_de (optVisOf .naive) w = _
    simp only [evalDeOpt, SB_naive_ts_nanoseconds_option_de]
    rw [optVisOf_naive_nanos]
    cases w with
    | some x =>
      simp only [optVisitor, SB_naive_ts_nanoseconds_option_some]
      rw [vis_naive_nanos x hw]
      cases x <;> rfl
    | none => rfl
    | unit => rfl
    | other => rfl

/-- the eight extracted `visit_i64` bodies evaluated on `v` / the eight model methods -/
def evalVisitRows (v : Int) : List (Res (SR NaiveDT)) :=
  [evalVisit .i64 v SB_utc_ts_seconds_i64,
   evalVisit .i64 v SB_utc_ts_milliseconds_i64,
   evalVisit .i64 v SB_utc_ts_microseconds_i64,
   evalVisit .i64 v SB_utc_ts_nanoseconds_i64,
   evalVisit .i64 v SB_naive_ts_seconds_i64,
   evalVisit .i64 v SB_naive_ts_milliseconds_i64,
   evalVisit .i64 v SB_naive_ts_microseconds_i64,
   evalVisit .i64 v SB_naive_ts_nanoseconds_i64]
def modelVisitRows (v : Int) : List (Res (SR NaiveDT)) :=
  [Utc.SecondsTimestampVisitor.visit_i64 v,
   Utc.MilliSecondsTimestampVisitor.visit_i64 v,
   Utc.MicroSecondsTimestampVisitor.visit_i64 v,
   Utc.NanoSecondsTimestampVisitor.visit_i64 v,
   Naive.SecondsTimestampVisitor.visit_i64 v,
   Naive.MilliSecondsTimestampVisitor.visit_i64 v,
   Naive.MicroSecondsTimestampVisitor.visit_i64 v,
   Naive.NanoSecondsTimestampVisitor.visit_i64 v]
def evalVisitRowsU (v : Int) : List (Res (SR NaiveDT)) :=
  [evalVisit .u64 v SB_utc_ts_seconds_u64,
   evalVisit .u64 v SB_utc_ts_milliseconds_u64,
   evalVisit .u64 v SB_utc_ts_microseconds_u64,
   evalVisit .u64 v SB_utc_ts_nanoseconds_u64,
   evalVisit .u64 v SB_naive_ts_seconds_u64,
   evalVisit .u64 v SB_naive_ts_milliseconds_u64,
   evalVisit .u64 v SB_naive_ts_microseconds_u64,
   evalVisit .u64 v SB_naive_ts_nanoseconds_u64]
def modelVisitRowsU (v : Int) : List (Res (SR NaiveDT)) :=
  [Utc.SecondsTimestampVisitor.visit_u64 v,
   Utc.MilliSecondsTimestampVisitor.visit_u64 v,
   Utc.MicroSecondsTimestampVisitor.visit_u64 v,
   Utc.NanoSecondsTimestampVisitor.visit_u64 v,
   Naive.SecondsTimestampVisitor.visit_u64 v,
   Naive.MilliSecondsTimestampVisitor.visit_u64 v,
   Naive.MicroSecondsTimestampVisitor.visit_u64 v,
   Naive.NanoSecondsTimestampVisitor.visit_u64 v]

theorem visit_rows_eq (v : Int) :
    evalVisitRows v = modelVisitRows v ∧ (isU64 v → evalVisitRowsU v = modelVisitRowsU v) :=
  ⟨by
    simp only [evalVisitRows, modelVisitRows, utc_secs_i64, utc_millis_i64, utc_micros_i64, utc_nanos_i64,
      naive_secs_i64, naive_millis_i64, naive_micros_i64, naive_nanos_i64],
   fun h => by
    simp only [evalVisitRowsU, modelVisitRowsU, utc_secs_u64 v h, utc_millis_u64 v h, utc_micros_u64 v h,
      utc_nanos_u64 v h, naive_secs_u64 v h, naive_millis_u64 v h, naive_micros_u64 v h, naive_nanos_u64 v h]⟩

end Chrono.Proofs.SerdeTsBodies
