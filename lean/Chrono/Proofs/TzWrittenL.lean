/-
  C16, part 4: the reader's value on EVERY written file — rejection stated on the input.
  For a file written by the specification's writer whose values merely fit their fields
  (`BlockFits`: nothing about order, indices, designations or agreement with the rule), `parse`
  returns the written zone exactly when the written data are `Consistent`, and `Err` otherwise.
-/
import Chrono.Proofs.TzValidL

set_option linter.unusedSimpArgs false
set_option linter.unusedVariables false

namespace Chrono.Proofs.TzValid
open Chrono Chrono.M.Tz Chrono.Spec.Tz Chrono.Proofs Chrono.Proofs.Tz Chrono.Extracted.TzP

/-- every value of the block fits the field it is written into; no consistency condition -/
structure BlockFits (v : Version) (ts : Nat) (b : Block) : Prop where
  trans : ∀ t ∈ b.trans, TimeFits v ts t.1
  types : ∀ t ∈ b.types, I32r t.off
  leaps : ∀ l ∈ b.leaps, TimeFits v ts l.1 ∧ I32r l.2

/-- what makes written data acceptable, `rule` being what the footer denotes: every type record
legal (offset strictly within 24 h of UTC, designation index inside the table and followed by a NUL, designation
empty or 3–7 legal characters), no forbidden indicator couple, transitions strictly increasing with
type indices in range, the leap-second table constraints, and the rule agreeing with the last
transition -/
def Consistent (b : Block) (rule : Option Rule) : Prop :=
  (∀ t ∈ b.types, TyRecOk b.names t)
    ∧ badIndicators b.types.length b.stdWalls b.utLocals = false
    ∧ SortedStrict (absBlock b rule).transitions
    ∧ (∀ t ∈ (absBlock b rule).transitions, t.idx < (absBlock b rule).types.length)
    ∧ checkLeaps (absBlock b rule).leaps = true
    ∧ RuleAgrees (absBlock b rule)

theorem nulPos_some_mem (l : List Nat) (p : Nat) (h : nulPos l = some p) : 0 ∈ l := by
  induction l generalizing p with
  | nil => simp [nulPos] at h
  | cons c t ih =>
    simp only [nulPos] at h
    by_cases hc : c = 0
    · subst hc; simp
    · rw [if_neg hc] at h
      cases hn : nulPos t with
      | none => rw [hn] at h; simp at h
      | some q => exact List.mem_cons_of_mem _ (ih q hn)

/-- a written type record that the reader accepts is a legal one -/
theorem parseType_enc_inv (names : List Nat) (t : TyRec) (hn : names.length < 4294967296)
    (h1 : I32r t.off) (l : Ltt)
    (h : parseType names.length names (beBytes 4 t.off ++ [if t.dst then 1 else 0, t.abbr]) = .ok l) :
    TyRecOk names t := by
  obtain ⟨off, dst, abbr⟩ := t
  dsimp only at h1 h ⊢
  have i4 : ∀ (a b c d x y : Nat), idx [a, b, c, d, x, y] 4 = .ok x := fun _ _ _ _ _ _ => rfl
  have i5 : ∀ (a b c d x y : Nat), idx [a, b, c, d, x, y] 5 = .ok y := fun _ _ _ _ _ _ => rfl
  have hs : ∀ d : Nat, slice (beBytes 4 off ++ [d, abbr]) 0 4 = .ok (beBytes 4 off) := by
    intro d
    rw [slice_ok _ _ _ (by omega) (by simp [beBytes_len])]
    simp [List.take_left' (beBytes_len 4 off)]
  have e : ∀ d : Nat, beBytes 4 off ++ [d, abbr]
      = [(off / 16777216 % 256).toNat, (off / 65536 % 256).toNat, (off / 256 % 256).toNat,
         (off % 256).toNat, d, abbr] := by
    intro d; simp [beBytes]
  have key : ∀ d : Nat, (d = 0 ∨ d = 1) →
      parseType names.length names (beBytes 4 off ++ [d, abbr]) = .ok l → TyRecOk names ⟨off, dst, abbr⟩ := by
    intro d hd h
    unfold parseType at h
    rw [hs] at h
    simp only [P.bind_ok] at h
    rw [read_i32_beBytes _ h1] at h
    simp only [P.bind_ok] at h
    rw [e, i4, i5] at h
    simp only [P.bind_ok] at h
    have h' : ∃ bb : Bool,
        (if abbr ≥ names.length then (.err : P Ltt) else
          sliceFrom names abbr >>= fun tail =>
          match nulPos tail with
          | none => .err
          | some position =>
            ckUsz (abbr + position) >>= fun e =>
            slice names abbr e >>= fun name =>
            Ltt.new off bb (if !name.isEmpty then some name else none)) = .ok l := by
      rcases hd with rfl | rfl
      · exact ⟨false, h⟩
      · exact ⟨true, h⟩
    clear h
    obtain ⟨bb, h⟩ := h'
    by_cases hge : abbr ≥ names.length
    · rw [if_pos hge] at h; cases h
    · rw [if_neg hge] at h
      have hsf : sliceFrom names abbr = .ok (names.drop abbr) := by
        simp [sliceFrom]; omega
      rw [hsf] at h
      simp only [P.bind_ok] at h
      cases hnp : nulPos (names.drop abbr) with
      | none => rw [hnp] at h; cases h
      | some pos =>
        have hmem := nulPos_some_mem _ _ hnp
        rw [nulPos_takeWhile _ hmem] at h
        simp only at h
        have hpos : ((names.drop abbr).takeWhile (fun c => c != 0)).length ≤ names.length - abbr := by
          have := takeWhile_len_le (fun c => c != 0) (names.drop abbr)
          simpa using this
        have e2 : abbr + ((names.drop abbr).takeWhile (fun c => c != 0)).length - abbr
            = ((names.drop abbr).takeWhile (fun c => c != 0)).length := by omega
        rw [ckUsz_ok (by omega)] at h
        simp only [P.bind_ok] at h
        rw [slice_ok _ _ _ (by omega) (by omega)] at h
        simp only [P.bind_ok] at h
        rw [e2, take_takeWhile_len] at h
        have hp := post_spec (post_ltt_new _ _ _) h
        obtain ⟨-, hmin, hname⟩ := hp
        refine ⟨h1, hmin, (by show abbr < names.length; omega), hmem, ?_⟩
        unfold nameAt
        simp only
        cases hemp : ((names.drop abbr).takeWhile (fun c => c != 0)).isEmpty with
        | true => simp
        | false =>
          simp only [Bool.false_eq_true, if_false]
          exact hname _ (by simp [hemp])
  cases dst
  · exact key 0 (Or.inl rfl) (by simpa using h)
  · exact key 1 (Or.inr rfl) (by simpa using h)

theorem parseTypes_enc_inv (names : List Nat) (l : List TyRec) (hn : names.length < 4294967296)
    (h1 : ∀ t ∈ l, I32r t.off) (out : List Ltt)
    (h : parseTypes names.length names (l.map fun t => beBytes 4 t.off ++ [if t.dst then 1 else 0, t.abbr])
      = .ok out) : ∀ t ∈ l, TyRecOk names t := by
  induction l generalizing out with
  | nil => intro t ht; cases ht
  | cons t rest ih =>
    simp only [List.map_cons, parseTypes] at h
    obtain ⟨a, ha, h⟩ := bind_eq_ok h
    obtain ⟨ts, hts, _⟩ := bind_eq_ok h
    intro x hx
    rcases List.mem_cons.mp hx with rfl | hx
    · exact parseType_enc_inv names _ hn (h1 _ (by simp)) a ha
    · exact ih (fun y hy => h1 y (List.mem_cons_of_mem _ hy)) ts hts x hx

/-- the part of `parse` after the blocks have been sliced, on a written block: an `Ok` means the
type records are legal, the indicators admissible, `validate` accepts the written zone, and the
result is the written zone -/
theorem parseRest_enc_inv (v : Version) (ts : Nat) (b : Block) (fo : Option (List Nat)) (rule : Option Rule)
    (hs : BlockShape b) (hfit : BlockFits v ts b) (hts : ts = 4 ∨ ts = 8)
    (hf : parseFooterOpt fo v = .ok rule) (z : Zone)
    (h : parseRest (stateOf v ts b) fo = .ok z) :
    (∀ t ∈ b.types, TyRecOk b.names t) ∧ badIndicators b.types.length b.stdWalls b.utLocals = false
      ∧ validate (absBlock b rule) = .ok () ∧ z = absBlock b rule := by
  have k : TYPE_RECORD = 6 := rfl
  unfold parseRest at h
  simp only [stateOf, hdrOf] at h
  have c1 : chunks_exact ts (encTrans ts b) = b.trans.map fun t => beBytes ts t.1 :=
    chunks_exact_flatMap _ _ _ (by omega) (fun _ => beBytes_len _ _)
  have c2 : chunks_exact TYPE_RECORD (encTypes b)
      = b.types.map fun t => beBytes 4 t.off ++ [if t.dst then 1 else 0, t.abbr] := by
    rw [k]; exact chunks_exact_flatMap _ _ _ (by omega) (fun _ => by simp [beBytes_len])
  have c3 : chunks_exact (ts + 4) (encLeaps ts b) = b.leaps.map fun l => beBytes ts l.1 ++ beBytes 4 l.2 :=
    chunks_exact_flatMap _ _ _ (by omega) (fun _ => by simp [beBytes_len])
  rw [c1, c2, c3, parseTransitions_enc v ts b.trans hfit.trans] at h
  simp only [P.bind_ok] at h
  obtain ⟨tys, htys, h⟩ := bind_eq_ok h
  have hty := parseTypes_enc_inv b.names b.types hs.nn hfit.types tys htys
  rw [parseTypes_enc b.names b.types hs.nn hty] at htys
  cases htys
  rw [parseLeaps_enc v ts b.leaps hfit.leaps] at h
  simp only [P.bind_ok] at h
  by_cases hind : badIndicators b.types.length b.stdWalls b.utLocals = true
  · have := (ite_pos' _ _ hind).symm.trans h; cases this
  · replace h := (ite_neg' _ _ hind).symm.trans h
    have hind' : badIndicators b.types.length b.stdWalls b.utLocals = false := by simpa using hind
    rw [hf] at h
    simp only [P.bind_ok] at h
    unfold Zone.new at h
    obtain ⟨u, hu, h⟩ := bind_eq_ok h
    cases u
    simp only [P.ok.injEq] at h
    exact ⟨hty, hind', hu, h.symm⟩

theorem blockVals_of (v : Version) (ts : Nat) (b : Block) (hfit : BlockFits v ts b)
    (h1 : ∀ t ∈ b.types, TyRecOk b.names t)
    (h2 : badIndicators b.types.length b.stdWalls b.utLocals = false) : BlockVals v ts b :=
  ⟨hfit.trans, h1, hfit.leaps, h2⟩

theorem abs_times_i64 (v : Version) (ts : Nat) (b : Block) (rule : Option Rule) (hfit : BlockFits v ts b) :
    ∀ t ∈ (absBlock b rule).transitions, I64r t.time := by
  intro t ht
  simp only [absBlock, List.mem_map] at ht
  obtain ⟨p, hp, rfl⟩ := ht
  rcases hfit.trans p hp with ⟨-, -, h32⟩ | ⟨-, -, h64⟩
  · unfold I32r at h32; unfold I64r; dsimp only; omega
  · exact h64

theorem abs_types_ne (b : Block) (rule : Option Rule) (hs : BlockShape b) : (absBlock b rule).types ≠ [] := by
  intro e
  have : b.types.length = 0 := by
    simp only [absBlock] at e
    simpa using congrArg List.length e
  exact hs.ty0 this

/-- versions 2 and 3: the reader's value on every written file -/
theorem parse_written_v2' (f : TzFile) (hver : f.version ≠ .V1) (hs1 : BlockShape f.v1)
    (hs2 : BlockShape f.v2) (hfit : BlockFits f.version 8 f.v2) (rule : Option Rule)
    (hfoot : FooterOk f.version f.footer rule) :
    (Consistent f.v2 rule → parse (encodeTzif f) = .ok (absBlock f.v2 rule))
      ∧ (¬ Consistent f.v2 rule → parse (encodeTzif f) = .err) := by
  have hrule : ∀ r, rule = some r → RuleV r := by
    intro r hr
    rcases hfoot with ⟨-, e⟩ | ⟨r', e, hden⟩
    · rw [e] at hr; cases hr
    · rw [e] at hr; cases hr
      exact post_spec (post_from_tz_string _ _) (tz_accepts_all' _ _ _ hden)
  have hfo : parseFooterOpt (some (10 :: (f.footer ++ [10]))) f.version = .ok rule := by
    show parseFooter _ _ = _
    rcases hfoot with ⟨h1, h2⟩ | ⟨r, h1, h2⟩
    · rw [h1, h2]; exact parseFooter_empty _
    · rw [h1]; exact parseFooter_rule _ _ r h2
  constructor
  · rintro ⟨c1, c2, c3, c4, c5, c6⟩
    exact tzif_roundtrip_v2_full' f hver hs1 hs2 (blockVals_of _ _ _ hfit c1 c2) rule hfoot c3 c4 c5 c6
  · intro hnc
    apply err_of_not_ok
    intro z hz
    rw [parse_of_blocks (parseBlocks_enc_v2 f hver hs1 hs2)] at hz
    obtain ⟨t1, t2, t3, -⟩ := parseRest_enc_inv f.version 8 f.v2 _ rule hs2 hfit (Or.inr rfl) hfo z hz
    obtain ⟨-, v1, v2, v3, v4⟩ := (validate_iff' _ (abs_times_i64 _ _ _ rule hfit) hrule).mp t3
    exact hnc ⟨t1, t2, v1, v2, v3, v4⟩

/-- version 1 (no footer, no rule) -/
theorem parse_written_v1' (f : TzFile) (hver : f.version = .V1) (hs : BlockShape f.v1)
    (hfit : BlockFits .V1 4 f.v1) :
    (Consistent f.v1 none → parse (encodeTzif f) = .ok (absBlock f.v1 none))
      ∧ (¬ Consistent f.v1 none → parse (encodeTzif f) = .err) := by
  constructor
  · rintro ⟨c1, c2, c3, c4, c5, -⟩
    exact tzif_roundtrip_v1' f hver hs (blockVals_of _ _ _ hfit c1 c2)
      (validate_ok_of _ (abs_types_ne _ _ hs) c3 c4 c5 (Or.inl rfl))
  · intro hnc
    apply err_of_not_ok
    intro z hz
    rw [parse_of_blocks (parseBlocks_enc_v1 f hver hs)] at hz
    obtain ⟨t1, t2, t3, -⟩ := parseRest_enc_inv .V1 4 f.v1 none none hs hfit (Or.inl rfl) rfl z hz
    obtain ⟨-, v1, v2, v3, v4⟩ :=
      (validate_iff' _ (abs_times_i64 _ _ _ none hfit) (by intro r hr; cases hr)).mp t3
    exact hnc ⟨t1, t2, v1, v2, v3, v4⟩

/-! ### the leap-second check without its saturating arithmetic -/
theorem satAbs_diff_one (x : Int) (h : -4294967296 ≤ x ∧ x ≤ 4294967296) :
    (satAbs32 (satI32 x) == 1) = true ↔ x.natAbs = 1 := by
  unfold satAbs32 satI32 iabs
  simp only [beq_iff_eq, I32_MAX, I32_MIN]
  omega

theorem satAbs_one (x : Int) : (satAbs32 x == 1) = true ↔ x.natAbs = 1 := by
  unfold satAbs32 satI32 iabs
  simp only [beq_iff_eq, I32_MAX, I32_MIN]
  omega

theorem sat_diff_ge (x : Int) :
    decide (M.Tz.satI64 x ≥ SECONDS_PER_28_DAYS - 1) = true ↔ x ≥ 2419199 := by
  unfold M.Tz.satI64
  have k : SECONDS_PER_28_DAYS = 2419200 := rfl
  simp only [decide_eq_true_eq, I64_MAX, I64_MIN, k]
  omega

theorem checkLeapPairs_cons2 (x0 x1 : LeapSecond) (r : List LeapSecond) :
    checkLeapPairs (x0 :: x1 :: r)
      = ((decide (M.Tz.satI64 (x1.time - x0.time) ≥ SECONDS_PER_28_DAYS - 1)
          && satAbs32 (satI32 (x1.corr - x0.corr)) == 1) && checkLeapPairs (x1 :: r)) := rfl

theorem checkLeapPairs_iff (ls : List LeapSecond) (hr : ∀ l ∈ ls, I32r l.corr) :
    checkLeapPairs ls = true ↔ LeapPairsOk ls := by
  induction ls with
  | nil => simp [checkLeapPairs, LeapPairsOk]
  | cons x0 rest ih =>
    have ih' := ih (fun l hl => hr l (List.mem_cons_of_mem _ hl))
    cases rest with
    | nil => simp [checkLeapPairs, LeapPairsOk]
    | cons x1 r2 =>
      have h0 := hr x0 (by simp)
      have h1 := hr x1 (by simp)
      unfold I32r at h0 h1
      rw [checkLeapPairs_cons2, Bool.and_eq_true, Bool.and_eq_true, sat_diff_ge,
        satAbs_diff_one _ (by omega), ih']
      simp only [LeapPairsOk]
      exact ⟨fun ⟨⟨a, b⟩, c⟩ => ⟨a, b, c⟩, fun ⟨a, b, c⟩ => ⟨⟨a, b⟩, c⟩⟩

/-- `validate`'s leap-second loop (saturating subtraction, saturating absolute value) accepts
exactly the tables satisfying the plain-arithmetic constraints, for `i32` corrections -/
theorem checkLeaps_iff' (ls : List LeapSecond) (hr : ∀ l ∈ ls, I32r l.corr) :
    checkLeaps ls = true ↔ LeapsOk ls := by
  unfold checkLeaps LeapsOk
  rw [Bool.and_eq_true, checkLeapPairs_iff ls hr]
  cases ls with
  | nil => simp
  | cons l0 rest =>
    simp only [Bool.and_eq_true, decide_eq_true_eq]
    rw [satAbs_one]

theorem abs_leaps_i32 (v : Version) (ts : Nat) (b : Block) (rule : Option Rule)
    (h : ∀ l ∈ b.leaps, TimeFits v ts l.1 ∧ I32r l.2) : ∀ l ∈ (absBlock b rule).leaps, I32r l.corr := by
  intro l hl
  simp only [absBlock, List.mem_map] at hl
  obtain ⟨p, hp, rfl⟩ := hl
  exact (h p hp).2

end Chrono.Proofs.TzValid
