/-
  THE OLD READER — copies of the two checks of `parser::parse` AS THEY WERE BEFORE the repairs of
  findings F35 (8cebd0e: the two headers' versions are compared) and F36 (4daf52d: a footer has at
  least two bytes).  Used ONLY by the pinned-behaviour theorems `Props.C16.*_pinned_before_F35` /
  `*_pinned_before_F36`; nothing else may refer to these definitions.  The current reader is
  `M.Tz.parse` (Model/TzParse.lean).
-/
import Chrono.Model.TzParse
namespace Chrono.Proofs.TzOld
open Chrono Chrono.M.Tz Chrono.Extracted.TzP

/-- `parseBlocks` before F35: the second header's version is not compared with the first's -/
def parseBlocks_before_F35 (bytes : List Nat) : P (State × Option (List Nat)) :=
  State.new bytes true >>= fun (state1, c1) =>
  match state1.header.version with
  | .V1 => if c1.isEmpty then .ok (state1, none) else .err
  | _ => State.new c1 false >>= fun (state2, c2) => .ok (state2, some c2)

/-- the footer arm before F36: `starts_with('\n') && ends_with('\n')` only -/
def parseFooter_before_F36 (footer : List Nat) (version : Version) : P (Option Rule) :=
  if !validUtf8 footer then .err
  else if !(footer.head? == some 10 && footer.getLast? == some 10) then .err
  else
    let tz_string := trimWs footer
    if tz_string.head? == some 58 || tz_string.contains 0 then .err
    else if tz_string.isEmpty then .ok none
    else from_tz_string tz_string (version == .V3) >>= fun r => .ok (some r)

def parseFooterOpt_before_F36 (footer : Option (List Nat)) (version : Version) : P (Option Rule) :=
  match footer with
  | some f => parseFooter_before_F36 f version
  | none => .ok none

/-- `parseRest` with the old footer arm (everything else as it is) -/
def parseRest_before_F36 (state : State) (footer : Option (List Nat)) : P Zone :=
  parseTransitions state.time_size state.header.version
      ((chunks_exact state.time_size state.transition_times).zip state.transition_types) >>= fun transitions =>
  parseTypes state.header.char_count state.names (chunks_exact TYPE_RECORD state.local_time_types) >>= fun types =>
  parseLeaps state.time_size state.header.version
      (chunks_exact (state.time_size + 4) state.leap_seconds) >>= fun leaps =>
  if badIndicators state.header.type_count state.std_walls state.ut_locals then .err else
  parseFooterOpt_before_F36 footer state.header.version >>= fun extra_rule =>
  Zone.new transitions types leaps extra_rule

/-- the reader before F35 (and hence before F36, which came later) -/
def parse_before_F35 (bytes : List Nat) : P Zone :=
  parseBlocks_before_F35 bytes >>= fun (state, footer) => parseRest_before_F36 state footer

/-- the reader after F35 and before F36 -/
def parse_before_F36 (bytes : List Nat) : P Zone :=
  parseBlocks bytes >>= fun (state, footer) => parseRest_before_F36 state footer

end Chrono.Proofs.TzOld
