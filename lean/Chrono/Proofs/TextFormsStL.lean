/-
  C09, audit gap L4: `impl FromStr for NaiveTime` continues after a failed seconds run with the
  `Parsed` record as that run left it.  The stateful model (`TextForms.time_from_str_st`,
  Model/TextFormsExt.lean) and the state-dropping one used in the round-trip theorems
  (`TextForms.time_from_str`) agree on every input.
-/
import Chrono.Model.TextFormsExt
import Chrono.Proofs.TextFormsRtL
namespace Chrono.Proofs.TextFormsSt
open Chrono Chrono.M Chrono.M.Scan Chrono.M.TextForms Chrono.Proofs.TextForms

/-- a successful stateful run is the successful run of the item parser -/
theorem st_of_ok (items : List Item) (p : Parsed) (s : List Nat) (p' : Parsed) (s' : List Nat)
    (h : Parse.parseItemsBase p s items = .ok (p', s')) : parseItemsSt p s items = (p', .ok s') := by
  induction items generalizing p s with
  | nil =>
    simp only [Parse.parseItemsBase] at h
    injection h with h; injection h with h1 h2
    subst h1; subst h2; rfl
  | cons it rest ih =>
    unfold Parse.parseItemsBase at h
    unfold parseItemsSt
    cases hit : Parse.parseItemBase p s it with
    | error e => rw [hit] at h; cases h
    | ok r =>
      obtain ⟨q, t⟩ := r
      rw [hit] at h
      exact ih q t h

/-- a failed stateful run fails with the same error -/
theorem st_of_error (items : List Item) (p : Parsed) (s : List Nat) (e : PErr)
    (h : Parse.parseItemsBase p s items = .error e) : (parseItemsSt p s items).2 = .error e := by
  induction items generalizing p s with
  | nil => simp only [Parse.parseItemsBase] at h; cases h
  | cons it rest ih =>
    unfold Parse.parseItemsBase at h
    unfold parseItemsSt
    cases hit : Parse.parseItemBase p s it with
    | error e' => rw [hit] at h; injection h with h; subst h; rfl
    | ok r =>
      obtain ⟨q, t⟩ := r
      rw [hit] at h
      exact ih q t h

/-- the seconds run on text that is empty after white space: the literal `:` fails, nothing stored -/
theorem sn_st_blank (p : Parsed) (s : List Nat) (h : trimStart s = []) :
    (parseItemsSt p s SECOND_AND_NANOS).1 = p := by
  unfold SECOND_AND_NANOS parseItemsSt
  rw [item_space p s, h]
  rfl

/-- the trailing-white-space parse: all that is left must be white space -/
theorem parse_ws (q : Parsed) (s : List Nat) :
    Parse.parse q s TRAILING_WHITESPACE = if trimStart s = [] then .ok q else .error .tooLong := by
  unfold Parse.parse
  rw [parse_internal_base TRAILING_WHITESPACE ws_items_plain]
  have : Parse.parseItemsBase q s TRAILING_WHITESPACE = .ok (q, trimStart s) := rfl
  rw [this]
  cases trimStart s with
  | nil => rfl
  | cons c t => simp

/-- **L4**: threading the record of a failed seconds run through the rest of `from_str` changes
nothing — a failed run has stored something only if the text after the minutes, trimmed, starts with
`:`; then the trailing-white-space parse answers `TooLong` before the record is looked at -/
theorem time_from_str_st_eq (s : List Nat) : time_from_str_st s = time_from_str s := by
  unfold time_from_str_st time_from_str
  rw [parse_internal_base _ hm_items_plain]
  cases h1 : Parse.parseItemsBase Parsed.new s HOUR_AND_MINUTE with
  | error e =>
    have := st_of_error _ _ _ _ h1
    cases hh : parseItemsSt Parsed.new s HOUR_AND_MINUTE with
    | mk q r =>
      rw [hh] at this
      dsimp only at this
      subst this
      rfl
  | ok r1 =>
    obtain ⟨p, s1⟩ := r1
    rw [st_of_ok _ _ _ _ _ h1]
    dsimp only
    rw [parse_internal_base _ sn_items_plain]
    cases h2 : Parse.parseItemsBase p s1 SECOND_AND_NANOS with
    | ok r2 =>
      obtain ⟨p2, s2⟩ := r2
      rw [st_of_ok _ _ _ _ _ h2]
      rfl
    | error e =>
      have hE := st_of_error _ _ _ _ h2
      rw [hE]
      dsimp only
      rw [parse_ws, parse_ws]
      by_cases hb : trimStart s1 = []
      · rw [if_pos hb, if_pos hb, sn_st_blank p s1 hb]
      · rw [if_neg hb, if_neg hb]

end Chrono.Proofs.TextFormsSt
