/-
  Helper definitions and lemmas for the `gen_*_eq` theorems of Props/GenTime.lean (src/naive/time/mod.rs,
  src/offset/fixed.rs, the `Timelike` defaults of src/traits.rs read at `Self = NaiveTime`).
-/
import Chrono.Proofs.GenL
import Chrono.Model.Time

namespace Chrono.Proofs.GenTimeL
open Chrono Chrono.M Chrono.Extracted Chrono.Proofs.GenL

/-- the generated `NaiveTime` structure and the model's `Time` have the same two fields -/
abbrev tG (t : Time) : Gen.naive_time.NaiveTime := ⟨t.secs, t.frac⟩
/-- a `(NaiveTime, carry)` pair of the model in the generated representation -/
abbrev pG (p : Time × Int) : Gen.naive_time.NaiveTime × Int := (tG p.1, p.2)

/-- both fields of a `NaiveTime` are `u32`s -/
def U32Fields (t : Time) : Prop := (0 ≤ t.secs ∧ t.secs ≤ 4294967295) ∧ (0 ≤ t.frac ∧ t.frac ≤ 4294967295)
/-- the type invariant of `NaiveTime` (`secs < 86400`, `frac < 2·10^9`) -/
def Inv (t : Time) : Prop := (0 ≤ t.secs ∧ t.secs < 86400) ∧ (0 ≤ t.frac ∧ t.frac < 2000000000)
/-- the fields of a `TimeDelta` are an `i64` and an `i32` -/
def DFields (d : Delta) : Prop :=
  (-9223372036854775808 ≤ d.secs ∧ d.secs ≤ 9223372036854775807) ∧ (-2147483648 ≤ d.nanos ∧ d.nanos ≤ 2147483647)

theorem ckU32_def' (x : Int) : ckU32 x = if 0 ≤ x ∧ x ≤ 4294967295 then .ok x else .panic := ckU32_def x

theorem optU32_def (x : Int) : optU32 x = if 0 ≤ x ∧ x ≤ 4294967295 then some x else none := by
  unfold optU32 inU32 U32_MAX
  by_cases h1 : (0 : Int) ≤ x <;> by_cases h2 : x ≤ 4294967295 <;> simp [h1, h2]

theorem asI32_range (x : Int) : -2147483648 ≤ asI32 x ∧ asI32 x ≤ 2147483647 := by
  unfold asI32; simp only; split <;> omega

theorem ok_pair_eq {a b c d e f : Int} (h1 : a = d) (h2 : b = e) (h3 : c = f) :
    (Res.ok (Gen.naive_time.NaiveTime.mk a b, c) : Res (Gen.naive_time.NaiveTime × Int))
      = Res.ok (pG (⟨d, e⟩, f)) := by
  subst h1; subst h2; subst h3; rfl

/-- the text that the translator emits (three times: Rust code after an assigning `if` is duplicated into the
branches) for the part of `overflowing_add_signed` after the leap-second preamble -/
def genTail (secs frac sa fa : Int) : Res (Gen.naive_time.NaiveTime × Int) :=
  Res.bind (ckI64 (secs + sa)) fun secs =>
  Res.bind (ckI32 (frac + fa)) fun frac =>
  if frac < 0 then
    Res.bind (ckI32 (frac + 1000000000)) fun frac =>
    Res.bind (ckI64 (secs - 1)) fun secs =>
    let secs_in_day : Int := secs % 86400
    Res.bind (ckI64 (secs - secs_in_day)) fun remaining =>
    .ok (Gen.naive_time.NaiveTime.mk (asU32 secs_in_day) (asU32 frac), remaining)
  else
    if frac ≥ 1000000000 then
      Res.bind (ckI32 (frac - 1000000000)) fun frac =>
      Res.bind (ckI64 (secs + 1)) fun secs =>
      let secs_in_day : Int := secs % 86400
      Res.bind (ckI64 (secs - secs_in_day)) fun remaining =>
      .ok (Gen.naive_time.NaiveTime.mk (asU32 secs_in_day) (asU32 frac), remaining)
    else
      let secs_in_day : Int := secs % 86400
      Res.bind (ckI64 (secs - secs_in_day)) fun remaining =>
      .ok (Gen.naive_time.NaiveTime.mk (asU32 secs_in_day) (asU32 frac), remaining)

theorem genTail_eq (secs frac sa fa : Int) :
    genTail secs frac sa fa = rmap pG (Time.add_tail secs frac sa fa) := by
  unfold genTail Time.add_tail
  dsimp only
  gen_split
  all_goals (first | rfl | (exfalso; omega))

/-- the generated `overflowing_add_signed` with its three copies of the tail folded into `genTail` -/
theorem gen_oas_unfold (self : Gen.naive_time.NaiveTime) (rhs : Gen.time_delta.TimeDelta) :
    Gen.naive_time.NaiveTime.overflowing_add_signed self rhs =
      (let secs : Int := self.secs
       let frac : Int := asI32 self.frac
       Res.bind (Gen.time_delta.TimeDelta.num_seconds rhs) fun secs_to_add =>
       Res.bind (Gen.time_delta.TimeDelta.subsec_nanos rhs) fun frac_to_add =>
       if frac ≥ 1000000000 then
         Res.bind (if secs_to_add > 0 then .ok true
           else if frac_to_add > 0 then
               Res.bind (ckI32 (2000000000 - frac_to_add)) fun r1 =>
               .ok (decide (frac ≥ r1))
             else
               .ok false) fun r3 =>
         if r3 = true then
           Res.bind (ckI32 (frac - 1000000000)) fun frac => genTail secs frac secs_to_add frac_to_add
         else
           if secs_to_add < 0 then
             Res.bind (ckI32 (frac - 1000000000)) fun frac =>
             Res.bind (ckI64 (secs + 1)) fun secs => genTail secs frac secs_to_add frac_to_add
           else
             Res.bind (ckI32 (frac + frac_to_add)) fun r4 =>
             .ok (Gen.naive_time.NaiveTime.mk self.secs (asU32 r4), 0)
       else genTail secs frac secs_to_add frac_to_add) := rfl

/-- the fields of a negated `TimeDelta` are machine integers (they come out of `ckI64` / `ckI32`) -/
theorem neg_fields (a n : Delta) (h : Delta.neg a = .ok n) : DFields n := by
  unfold Delta.neg at h
  gdfacts
  revert h
  gen_split
  all_goals (intro h; first | (cases h; unfold DFields; dsimp only; omega) | (exact absurd h (by simp)))

end Chrono.Proofs.GenTimeL
