/- Helper lemmas for the C07 audit gap G1: the date-time difference taken after a date-time addition. -/
import Chrono.Proofs.TimeCarryL
import Chrono.Proofs.TimeGapsL

namespace Chrono.Proofs.TimeGaps
open Chrono Chrono.M Chrono.Spec Chrono.Proofs Chrono.Extracted

theorem carry_ns (c : Int) (hc : c % 86400 = 0) : c / 86400 * 86400000000000 = c * 1000000000 := by
  omega

/-- `b = a + d` (accepted) ⇒ `b − a = d` up to `diffAddErr` of the time of day -/
theorem dt_diff_after_add (a b : NaiveDT) (d : Delta) (ha : NDTInv a) (hd : DInv d)
    (h : NaiveDT.checked_add_signed a d = .ok (some b)) :
    NDTInv b ∧
    NaiveDT.signed_duration_since b a = .ok (ofNs (ns d + diffAddErr a.time (ns d))) ∧
    NaiveDT.signed_duration_since a b = .ok (ofNs (-(ns d + diffAddErr a.time (ns d)))) := by
  obtain ⟨⟨r, h0, hs, hx⟩, _⟩ :=
    (⟨Proofs.TimeCarry.add_outcome a d ha hd, trivial⟩ :
      (∃ r, NaiveDT.checked_add_signed a d = .ok r ∧
        IsDayShift a.date ((addLeap a.time (ns d)).2 / 86400) (r.map (·.date)) ∧
        ∀ x, r = some x → x.time = (addLeap a.time (ns d)).1 ∧ NDTInv x) ∧ True)
  rw [h] at h0
  have hr : r = some b := (Res.ok.inj h0).symm
  obtain ⟨ht, hb⟩ := hx b hr
  have hday : dayNumOf b.date = dayNumOf a.date + (addLeap a.time (ns d)).2 / 86400 :=
    (hs.2 b.date (by rw [hr]; rfl)).2
  have hm := (addLeap_facts a.time (ns d) ha.2).2.1
  have hc := carry_ns _ hm
  have key := diff_after_add a.time (ns d) ha.2
  obtain ⟨f1, _, _, f4⟩ := Proofs.TimeCarry.diff_full b a hb ha
  obtain ⟨g1, _⟩ := Proofs.TimeCarry.diff_full a b ha hb
  have e1 : (dayNumOf b.date - dayNumOf a.date) * 86400000000000 + diffLeap b.time a.time =
      ns d + diffAddErr a.time (ns d) := by
    rw [ht]; omega
  refine ⟨hb, ?_, ?_⟩
  · rw [f1, e1]
  · rw [g1, f4, e1]

/-- the implementation's closed form (`datetime_diff`) against the extended-line distance of
date-times: they differ by the two cross terms -/
theorem dt_diff_vs_line (a b : NaiveDT) :
    (dayNumOf a.date - dayNumOf b.date) * 86400000000000 + diffLeap a.time b.time =
      dtDiffLine a b + crossErr a b - crossErr b a := by
  unfold dtDiffLine dtLinePos crossErr diffLeap linePos instNs instSecs pos
  generalize dayNumOf a.date = da
  generalize dayNumOf b.date = db
  omega

/-- the cross term vanishes on one date, and whenever `o` is not a leap second -/
theorem crossErr_zero (x o : NaiveDT)
    (h : o.time.frac < 1000000000 ∨ dayNumOf x.date = dayNumOf o.date) : crossErr x o = 0 := by
  unfold crossErr instSecs
  rcases h with h | h
  · rw [if_neg (by omega), if_neg (by omega)]; rfl
  · rw [h]
    split <;> split <;> omega

/-- exactly when the cross term does not vanish -/
theorem crossErr_cases (x o : NaiveDT) (hx : TValid x.time) (ho : TValid o.time) :
    crossErr x o =
      if o.time.frac ≥ 1000000000 ∧ dayNumOf o.date < dayNumOf x.date ∧ x.time.secs ≤ o.time.secs
      then -1000000000
      else if o.time.frac ≥ 1000000000 ∧ dayNumOf x.date < dayNumOf o.date ∧
        o.time.secs < x.time.secs
      then 1000000000 else 0 := by
  simp only [TValid] at hx ho
  unfold crossErr instSecs
  generalize dayNumOf x.date = dx
  generalize dayNumOf o.date = d0
  (repeat' split) <;> omega

/-- the derived order of date-times is the order on the extended line of date-times, leap-second
operands included -/
theorem dt_cmp_line (a b : NaiveDT) (ha : NDTInv a) (hb : NDTInv b) :
    NaiveDT.cmp a b = sgn (dtDiffLine a b) := by
  have ta := ha.2
  have tb := hb.2
  unfold TValid at ta tb
  unfold NaiveDT.cmp
  dsimp only
  rw [date_cmp_spec a.date b.date ha.1 hb.1]
  unfold sgn Time.cmp dtDiffLine dtLinePos instNs instSecs
  generalize dayNumOf a.date = da
  generalize dayNumOf b.date = db
  repeat' split
  all_goals omega

end Chrono.Proofs.TimeGaps
