/- Helper lemmas for C16 (proofs of the statements in Props/C16.lean). -/
import Chrono.Spec.TzSpec
import Chrono.Proofs.PrimL

namespace Chrono.Proofs.Tz
open Chrono Chrono.M.Tz Chrono.Spec.Tz Chrono.Extracted.TzP

/-- "does not panic" -/
def NP {α} (r : P α) : Prop := r ≠ .panic

theorem np_ok {α} (a : α) : NP (P.ok a) := by simp [NP]
theorem np_err {α} : NP (P.err : P α) := by simp [NP]

theorem np_bind {α β} {r : P α} {f : α → P β} (h1 : NP r) (h2 : ∀ a, r = .ok a → NP (f a)) :
    NP (r >>= f) := by
  cases r with
  | ok a => exact h2 a rfl
  | err => simp [NP]
  | panic => exact absurd rfl h1

theorem np_ite {α} {c : Prop} [Decidable c] {x y : P α} (hx : c → NP x) (hy : ¬ c → NP y) :
    NP (if c then x else y) := by
  split
  · exact hx ‹_›
  · exact hy ‹_›

/-! ### cursor primitives -/
theorem read_exact_cases (c : Cursor) (n : Nat) :
    (n ≤ c.length ∧ read_exact c n = .ok (c.take n, c.drop n)) ∨ read_exact c n = .err := by
  unfold read_exact
  split
  · exact Or.inl ⟨‹_›, rfl⟩
  · exact Or.inr rfl

theorem np_read_exact (c : Cursor) (n : Nat) : NP (read_exact c n) := by
  rcases read_exact_cases c n with ⟨_, h⟩ | h <;> simp [NP, h]

theorem np_read_be_u32 (c : Cursor) : NP (read_be_u32 c) := by
  unfold read_be_u32
  rcases read_exact_cases c 4 with ⟨_, h⟩ | h <;> simp [NP, h]

theorem np_read_tag (c : Cursor) (t : List Nat) : NP (read_tag c t) := by
  unfold read_tag
  rcases read_exact_cases c t.length with ⟨_, h⟩ | h <;> simp only [h]
  · split <;> simp [NP]
  · simp [NP]

theorem np_read_optional_tag (c : Cursor) (t : List Nat) : NP (read_optional_tag c t) := by
  unfold read_optional_tag
  split
  · rcases read_exact_cases c t.length with ⟨_, h⟩ | h <;> simp [NP, h]
  · simp [NP]

theorem np_read_while (c : Cursor) (f : Nat → Bool) : NP (read_while c f) := np_read_exact _ _
theorem np_read_until (c : Cursor) (f : Nat → Bool) : NP (read_until c f) := np_read_exact _ _

/-- what `read_int` returns is a natural number not above the type's maximum -/
theorem read_int_spec {c : Cursor} {max : Nat} {v : Int} {c' : Cursor}
    (h : read_int c max = .ok (v, c')) : 0 ≤ v ∧ v ≤ max := by
  unfold read_int read_while at h
  rcases read_exact_cases c (c.takeWhile isDigit).length with ⟨_, h1⟩ | h1 <;> simp only [h1] at h
  · split at h
    · cases h
    · split at h
      · cases h
      · simp only [P.ok.injEq, Prod.mk.injEq] at h
        obtain ⟨hv, _⟩ := h
        subst hv
        omega
  · cases h

theorem np_read_int (c : Cursor) (max : Nat) : NP (read_int c max) := by
  unfold read_int read_while
  rcases read_exact_cases c (c.takeWhile isDigit).length with ⟨_, h1⟩ | h1 <;> simp only [h1]
  · split
    · simp [NP]
    · split <;> simp [NP]
  · simp [NP]

/-! ### TZ string pieces never panic -/
theorem np_parse_name (c : Cursor) : NP (parse_name c) := by
  unfold parse_name
  split
  · refine np_bind (np_read_exact _ _) ?_
    rintro ⟨x, c1⟩ -
    refine np_bind (np_read_until _ _) ?_
    rintro ⟨u, c2⟩ -
    refine np_bind (np_read_exact _ _) ?_
    rintro ⟨y, c3⟩ -
    exact np_ok _
  · exact np_read_while _ _

/-- `parse_hhmmss` returns three naturals (digits only) -/
theorem parse_hhmmss_spec {c c' : Cursor} {h m s : Int} (e : parse_hhmmss c = .ok ((h, m, s), c')) :
    0 ≤ h ∧ 0 ≤ m ∧ 0 ≤ s := by
  unfold parse_hhmmss at e
  cases h1 : read_int c I32MAXN with
  | err => simp [h1] at e
  | panic => simp [h1] at e
  | ok a1 =>
    obtain ⟨hh, c1⟩ := a1
    have b1 := (read_int_spec h1).1
    simp only [h1, P.bind_ok] at e
    cases h2 : read_optional_tag c1 [58] with
    | err => simp [h2] at e
    | panic => simp [h2] at e
    | ok a2 =>
      obtain ⟨col, c2⟩ := a2
      simp only [h2, P.bind_ok] at e
      cases col with
      | false =>
        simp at e
        obtain ⟨⟨rfl, rfl, rfl⟩, _⟩ := e
        omega
      | true =>
        simp only [if_true] at e
        cases h3 : read_int c2 I32MAXN with
        | err => simp [h3] at e
        | panic => simp [h3] at e
        | ok a3 =>
          obtain ⟨mm, c3⟩ := a3
          have b3 := (read_int_spec h3).1
          simp only [h3, P.bind_ok] at e
          cases h4 : read_optional_tag c3 [58] with
          | err => simp [h4] at e
          | panic => simp [h4] at e
          | ok a4 =>
            obtain ⟨col2, c4⟩ := a4
            simp only [h4, P.bind_ok] at e
            cases col2 with
            | false =>
              simp at e
              obtain ⟨⟨rfl, rfl, rfl⟩, _⟩ := e
              omega
            | true =>
              simp only [if_true] at e
              cases h5 : read_int c4 I32MAXN with
              | err => simp [h5] at e
              | panic => simp [h5] at e
              | ok a5 =>
                obtain ⟨ss, c5⟩ := a5
                have b5 := (read_int_spec h5).1
                simp [h5] at e
                obtain ⟨⟨rfl, rfl, rfl⟩, _⟩ := e
                omega

theorem np_parse_hhmmss (c : Cursor) : NP (parse_hhmmss c) := by
  unfold parse_hhmmss
  refine np_bind (np_read_int _ _) ?_
  rintro ⟨hh, c1⟩ -
  refine np_bind (np_read_optional_tag _ _) ?_
  rintro ⟨col, c2⟩ -
  cases col
  · exact np_ok _
  · simp only [if_true]
    refine np_bind (np_read_int _ _) ?_
    rintro ⟨mm, c3⟩ -
    refine np_bind (np_read_optional_tag _ _) ?_
    rintro ⟨col2, c4⟩ -
    cases col2
    · exact np_ok _
    · simp only [if_true]
      refine np_bind (np_read_int _ _) ?_
      rintro ⟨ss, c5⟩ -
      exact np_ok _

theorem parse_sign_spec {c c1 : Cursor} {sg : Int} (e : parse_sign c = .ok (sg, c1)) :
    sg = 1 ∨ sg = -1 := by
  unfold parse_sign at e
  split at e
  · rcases read_exact_cases c 1 with ⟨_, h2⟩ | h2 <;> simp [h2] at e
    exact Or.inl e.1.symm
  · rcases read_exact_cases c 1 with ⟨_, h2⟩ | h2 <;> simp [h2] at e
    exact Or.inr e.1.symm
  · simp at e
    exact Or.inl e.1.symm

theorem np_parse_sign (c : Cursor) : NP (parse_sign c) := by
  unfold parse_sign
  split
  · refine np_bind (np_read_exact _ _) ?_
    rintro ⟨x, c1⟩ -
    exact np_ok _
  · refine np_bind (np_read_exact _ _) ?_
    rintro ⟨x, c1⟩ -
    exact np_ok _
  · exact np_ok _

theorem parse_signed_hhmmss_spec {c c' : Cursor} {sg h m s : Int}
    (e : parse_signed_hhmmss c = .ok ((sg, h, m, s), c')) :
    (sg = 1 ∨ sg = -1) ∧ 0 ≤ h ∧ 0 ≤ m ∧ 0 ≤ s := by
  unfold parse_signed_hhmmss at e
  cases h0 : parse_sign c with
  | err => simp [h0] at e
  | panic => simp [h0] at e
  | ok a =>
    obtain ⟨sg1, c1⟩ := a
    simp only [h0, P.bind_ok] at e
    cases h3 : parse_hhmmss c1 with
    | err => simp [h3] at e
    | panic => simp [h3] at e
    | ok b =>
      obtain ⟨⟨h', m', s'⟩, c2⟩ := b
      simp [h3] at e
      obtain ⟨⟨rfl, rfl, rfl, rfl⟩, _⟩ := e
      exact ⟨parse_sign_spec h0, parse_hhmmss_spec h3⟩

theorem np_parse_signed_hhmmss (c : Cursor) : NP (parse_signed_hhmmss c) := by
  unfold parse_signed_hhmmss
  refine np_bind (np_parse_sign _) ?_
  rintro ⟨sg, c1⟩ -
  refine np_bind (np_parse_hhmmss _) ?_
  rintro ⟨⟨h, m, s⟩, c2⟩ -
  exact np_ok _

theorem ck32_ok {x : Int} (h1 : -2147483648 ≤ x) (h2 : x ≤ 2147483647) : ck32 x = .ok x := by
  simp [ck32, inI32, I32_MIN, I32_MAX, h1, h2]
theorem ck64_ok {x : Int} (h1 : -9223372036854775808 ≤ x) (h2 : x ≤ 9223372036854775807) :
    ck64 x = .ok x := by
  simp [ck64, inI64, I64_MIN, I64_MAX, h1, h2]

/-- a parsed offset is at most 24:59:59 in magnitude, and the multiplication cannot overflow -/
theorem parse_offset_spec {c c' : Cursor} {v : Int} (e : parse_offset c = .ok (v, c')) :
    -89999 ≤ v ∧ v ≤ 89999 := by
  unfold parse_offset at e
  cases h1 : parse_signed_hhmmss c with
  | err => simp [h1] at e
  | panic => simp [h1] at e
  | ok a =>
    obtain ⟨⟨sg, h, m, s⟩, c1⟩ := a
    obtain ⟨hsg, hh, hm, hs⟩ := parse_signed_hhmmss_spec h1
    simp only [h1, P.bind_ok] at e
    have k1 : OFFSET_HOUR_MAX = 24 := rfl
    have k2 : OFFSET_MINUTE_MAX = 59 := rfl
    have k3 : OFFSET_SECOND_MAX = 59 := rfl
    split at e
    · cases e
    · split at e
      · cases e
      · split at e
        · cases e
        · rename_i g1 g2 g3
          simp only [Bool.not_eq_true', Bool.not_eq_false, Bool.and_eq_true, decide_eq_true_eq] at g1 g2 g3
          have hb : -89999 ≤ sg * (h * 3600 + m * 60 + s) ∧ sg * (h * 3600 + m * 60 + s) ≤ 89999 := by
            rcases hsg with rfl | rfl <;> omega
          rw [ck32_ok (by omega) (by omega)] at e
          simp at e
          obtain ⟨rfl, _⟩ := e
          exact hb

theorem np_parse_offset (c : Cursor) : NP (parse_offset c) := by
  unfold parse_offset
  refine np_bind (np_parse_signed_hhmmss _) ?_
  rintro ⟨⟨sg, h, m, s⟩, c1⟩ e
  obtain ⟨hsg, hh, hm, hs⟩ := parse_signed_hhmmss_spec e
  have k1 : OFFSET_HOUR_MAX = 24 := rfl
  have k2 : OFFSET_MINUTE_MAX = 59 := rfl
  have k3 : OFFSET_SECOND_MAX = 59 := rfl
  dsimp only
  split
  · exact np_err
  · split
    · exact np_err
    · split
      · exact np_err
      · rename_i g1 g2 g3
        simp only [Bool.not_eq_true', Bool.not_eq_false, Bool.and_eq_true, decide_eq_true_eq] at g1 g2 g3
        have hb : -89999 ≤ sg * (h * 3600 + m * 60 + s) ∧ sg * (h * 3600 + m * 60 + s) ≤ 89999 := by
          rcases hsg with rfl | rfl <;> omega
        rw [ck32_ok (by omega) (by omega)]
        exact np_ok _

theorem parse_rule_time_spec {c c' : Cursor} {v : Int} (e : parse_rule_time c = .ok (v, c')) :
    0 ≤ v ∧ v ≤ 89999 := by
  unfold parse_rule_time at e
  cases h1 : parse_hhmmss c with
  | err => simp [h1] at e
  | panic => simp [h1] at e
  | ok a =>
    obtain ⟨⟨h, m, s⟩, c1⟩ := a
    obtain ⟨hh, hm, hs⟩ := parse_hhmmss_spec h1
    simp only [h1, P.bind_ok] at e
    have k1 : RULE_HOUR_MAX = 24 := rfl
    have k2 : RULE_MINUTE_MAX = 59 := rfl
    have k3 : RULE_SECOND_MAX = 59 := rfl
    split at e
    · cases e
    · split at e
      · cases e
      · split at e
        · cases e
        · rename_i g1 g2 g3
          simp only [Bool.not_eq_true', Bool.not_eq_false, Bool.and_eq_true, decide_eq_true_eq] at g1 g2 g3
          rw [ck32_ok (by omega) (by omega)] at e
          simp at e
          obtain ⟨rfl, _⟩ := e
          omega

theorem np_parse_rule_time (c : Cursor) : NP (parse_rule_time c) := by
  unfold parse_rule_time
  refine np_bind (np_parse_hhmmss _) ?_
  rintro ⟨⟨h, m, s⟩, c1⟩ e
  obtain ⟨hh, hm, hs⟩ := parse_hhmmss_spec e
  have k1 : RULE_HOUR_MAX = 24 := rfl
  have k2 : RULE_MINUTE_MAX = 59 := rfl
  have k3 : RULE_SECOND_MAX = 59 := rfl
  dsimp only
  split
  · exact np_err
  · split
    · exact np_err
    · split
      · exact np_err
      · rename_i g1 g2 g3
        simp only [Bool.not_eq_true', Bool.not_eq_false, Bool.and_eq_true, decide_eq_true_eq] at g1 g2 g3
        rw [ck32_ok (by omega) (by omega)]
        exact np_ok _

theorem parse_rule_time_extended_spec {c c' : Cursor} {v : Int}
    (e : parse_rule_time_extended c = .ok (v, c')) : -604799 ≤ v ∧ v ≤ 604799 := by
  unfold parse_rule_time_extended at e
  cases h1 : parse_signed_hhmmss c with
  | err => simp [h1] at e
  | panic => simp [h1] at e
  | ok a =>
    obtain ⟨⟨sg, h, m, s⟩, c1⟩ := a
    obtain ⟨hsg, hh, hm, hs⟩ := parse_signed_hhmmss_spec h1
    simp only [h1, P.bind_ok] at e
    have k1 : EXT_HOUR_MAX = 167 := rfl
    have k2 : EXT_MINUTE_MAX = 59 := rfl
    have k3 : EXT_SECOND_MAX = 59 := rfl
    split at e
    · cases e
    · split at e
      · cases e
      · split at e
        · cases e
        · rename_i g1 g2 g3
          simp only [Bool.not_eq_true', Bool.not_eq_false, Bool.and_eq_true, decide_eq_true_eq] at g1 g2 g3
          have hb : -604799 ≤ sg * (h * 3600 + m * 60 + s) ∧ sg * (h * 3600 + m * 60 + s) ≤ 604799 := by
            rcases hsg with rfl | rfl <;> omega
          rw [ck32_ok (by omega) (by omega)] at e
          simp at e
          obtain ⟨rfl, _⟩ := e
          exact hb

theorem np_parse_rule_time_extended (c : Cursor) : NP (parse_rule_time_extended c) := by
  unfold parse_rule_time_extended
  refine np_bind (np_parse_signed_hhmmss _) ?_
  rintro ⟨⟨sg, h, m, s⟩, c1⟩ e
  obtain ⟨hsg, hh, hm, hs⟩ := parse_signed_hhmmss_spec e
  have k1 : EXT_HOUR_MAX = 167 := rfl
  have k2 : EXT_MINUTE_MAX = 59 := rfl
  have k3 : EXT_SECOND_MAX = 59 := rfl
  dsimp only
  split
  · exact np_err
  · split
    · exact np_err
    · split
      · exact np_err
      · rename_i g1 g2 g3
        simp only [Bool.not_eq_true', Bool.not_eq_false, Bool.and_eq_true, decide_eq_true_eq] at g1 g2 g3
        have hb : -604799 ≤ sg * (h * 3600 + m * 60 + s) ∧ sg * (h * 3600 + m * 60 + s) ≤ 604799 := by
          rcases hsg with rfl | rfl <;> omega
        rw [ck32_ok (by omega) (by omega)]
        exact np_ok _

/-! ### rule days -/
theorem julian_1_spec {d : Int} {r : RuleDay} (e : RuleDay.julian_1 d = .ok r) : DayOk r := by
  unfold RuleDay.julian_1 at e
  have k1 : JULIAN1_MIN = 1 := rfl
  have k2 : JULIAN1_MAX = 365 := rfl
  split at e
  · cases e
  · rename_i g
    simp only [Bool.not_eq_true', Bool.not_eq_false, Bool.and_eq_true, decide_eq_true_eq] at g
    simp only [P.ok.injEq] at e
    subst e
    simp only [DayOk]
    omega

theorem julian_0_spec {d : Int} {r : RuleDay} (_h0 : 0 ≤ d) (e : RuleDay.julian_0 d = .ok r) : DayOk r := by
  unfold RuleDay.julian_0 at e
  have k2 : JULIAN0_MAX = 365 := rfl
  split at e
  · cases e
  · simp only [P.ok.injEq] at e
    subst e
    simp only [DayOk]
    omega

theorem month_weekday_spec {m w d : Int} {r : RuleDay} (_h0 : 0 ≤ d)
    (e : RuleDay.month_weekday m w d = .ok r) : DayOk r := by
  unfold RuleDay.month_weekday at e
  have k1 : MONTH_MIN = 1 := rfl
  have k2 : MONTH_MAX = 12 := rfl
  have k3 : WEEK_MIN = 1 := rfl
  have k4 : WEEK_MAX = 5 := rfl
  have k5 : WEEKDAY_MAX = 6 := rfl
  split at e
  · cases e
  · split at e
    · cases e
    · split at e
      · cases e
      · rename_i g1 g2 g3
        simp only [Bool.not_eq_true', Bool.not_eq_false, Bool.and_eq_true, decide_eq_true_eq] at g1 g2
        simp only [P.ok.injEq] at e
        subst e
        simp only [DayOk]
        omega

theorem np_julian_1 (d : Int) : NP (RuleDay.julian_1 d) := by
  unfold RuleDay.julian_1; split <;> simp [NP]
theorem np_julian_0 (d : Int) : NP (RuleDay.julian_0 d) := by
  unfold RuleDay.julian_0; split <;> simp [NP]
theorem np_month_weekday (m w d : Int) : NP (RuleDay.month_weekday m w d) := by
  unfold RuleDay.month_weekday
  split
  · exact np_err
  · split
    · exact np_err
    · split <;> simp [NP]

/-! ### Hoare-style postconditions: no panic, and `Q` on the value if there is one -/
def Post {α} (r : P α) (Q : α → Prop) : Prop :=
  match r with
  | .ok a => Q a
  | .err => True
  | .panic => False

theorem post_of {α} {r : P α} {Q : α → Prop} (h1 : NP r) (h2 : ∀ a, r = .ok a → Q a) : Post r Q := by
  cases r with
  | ok a => exact h2 a rfl
  | err => trivial
  | panic => exact absurd rfl h1

theorem post_np {α} {r : P α} {Q : α → Prop} (h : Post r Q) : NP r := by
  cases r <;> simp_all [Post, NP]

theorem post_spec {α} {r : P α} {Q : α → Prop} (h : Post r Q) {a : α} (e : r = .ok a) : Q a := by
  subst e; exact h

theorem post_ok {α} {Q : α → Prop} {a : α} (h : Q a) : Post (.ok a) Q := h
theorem post_err {α} {Q : α → Prop} : Post (.err : P α) Q := trivial

theorem post_bind {α β} {r : P α} {f : α → P β} {Q : α → Prop} {R : β → Prop}
    (h1 : Post r Q) (h2 : ∀ a, r = .ok a → Q a → Post (f a) R) : Post (r >>= f) R := by
  cases r with
  | ok a => exact h2 a rfl h1
  | err => trivial
  | panic => exact h1.elim

theorem post_mono {α} {r : P α} {Q R : α → Prop} (h : Post r Q) (i : ∀ a, Q a → R a) : Post r R := by
  cases r with
  | ok a => exact i a h
  | err => trivial
  | panic => exact h.elim

/-- plain no-panic as a postcondition -/
theorem post_true {α} {r : P α} (h : NP r) : Post r (fun _ => True) := post_of h (fun _ _ => trivial)

theorem post_read_int (c : Cursor) (max : Nat) :
    Post (read_int c max) (fun r => 0 ≤ r.1 ∧ r.1 ≤ max) :=
  post_of (np_read_int c max) (fun ⟨_, _⟩ e => read_int_spec e)

theorem post_parse_date (c : Cursor) : Post (RuleDay.parse_date c) (fun r => DayOk r.1) := by
  unfold RuleDay.parse_date
  split
  · refine post_bind (post_true (np_read_exact _ _)) ?_
    rintro ⟨x, c1⟩ - -
    refine post_bind (post_read_int _ _) ?_
    rintro ⟨month, c2⟩ - -
    refine post_bind (post_true (np_read_tag _ _)) ?_
    rintro c3 - -
    refine post_bind (post_read_int _ _) ?_
    rintro ⟨week, c4⟩ - -
    refine post_bind (post_true (np_read_tag _ _)) ?_
    rintro c5 - -
    refine post_bind (post_read_int _ _) ?_
    rintro ⟨wd, c6⟩ - hwd
    refine post_bind (post_of (np_month_weekday _ _ _) (fun a e => month_weekday_spec hwd.1 e)) ?_
    rintro d - hd
    exact post_ok hd
  · refine post_bind (post_true (np_read_exact _ _)) ?_
    rintro ⟨x, c1⟩ - -
    refine post_bind (post_read_int _ _) ?_
    rintro ⟨n, c2⟩ - -
    refine post_bind (post_of (np_julian_1 _) (fun a e => julian_1_spec e)) ?_
    rintro d - hd
    exact post_ok hd
  · refine post_bind (post_read_int _ _) ?_
    rintro ⟨n, c2⟩ - hn
    refine post_bind (post_of (np_julian_0 _) (fun a e => julian_0_spec hn.1 e)) ?_
    rintro d - hd
    exact post_ok hd

/-- rule-time magnitude below one week -/
def TimeV (t : Int) : Prop := -604799 ≤ t ∧ t ≤ 604799

theorem post_ruleday_parse (c : Cursor) (ext : Bool) :
    Post (RuleDay.parse c ext) (fun r => DayOk r.1.1 ∧ TimeV r.1.2) := by
  unfold RuleDay.parse
  refine post_bind (post_parse_date _) ?_
  rintro ⟨date, c1⟩ - hd
  refine post_bind (post_true (np_read_optional_tag _ _)) ?_
  rintro ⟨slash, c2⟩ - -
  have k : DEFAULT_RULE_TIME = 7200 := rfl
  cases slash <;> cases ext <;> dsimp only
  · exact post_ok ⟨hd, by unfold TimeV; dsimp only; omega⟩
  · exact post_ok ⟨hd, by unfold TimeV; dsimp only; omega⟩
  · refine post_bind (post_of (np_parse_rule_time _) (fun a e => parse_rule_time_spec (v := a.1) (c' := a.2) e)) ?_
    rintro ⟨t, c3⟩ - ht
    exact post_ok ⟨hd, by unfold TimeV; dsimp only at ht ⊢; omega⟩
  · refine post_bind (post_of (np_parse_rule_time_extended _) (fun a e => parse_rule_time_extended_spec (v := a.1) (c' := a.2) e)) ?_
    rintro ⟨t, c3⟩ - ht
    exact post_ok ⟨hd, ht⟩

/-! ### local time types -/
theorem post_name_new (n : List Nat) : Post (TimeZoneName.new n) (fun r => r = n ∧ NameOk n) := by
  unfold TimeZoneName.new
  have k1 : NAME_MIN = 3 := rfl
  have k2 : NAME_MAX = 7 := rfl
  split
  · exact post_err
  · split
    · rename_i g1 g2
      simp only [Bool.not_eq_true', Bool.not_eq_false, Bool.and_eq_true, decide_eq_true_eq] at g1
      refine post_ok ⟨rfl, ?_, ?_, g2⟩ <;> omega
    · exact post_err

/-- a constructed local time type: fields as given, offset strictly within 24 h, name legal -/
theorem post_ltt_new (off : Int) (dst : Bool) (name : Option (List Nat)) :
    Post (Ltt.new off dst name)
      (fun t => t = ⟨off, dst, name⟩ ∧ (-86400 < off ∧ off < 86400) ∧ ∀ n, name = some n → NameOk n) := by
  unfold Ltt.new
  split
  · exact post_err
  · rename_i g0
    have g : -86400 < off ∧ off < 86400 := by omega
    cases name with
    | none => exact post_ok ⟨rfl, g, by simp⟩
    | some n =>
      dsimp only
      have h := post_name_new n
      cases hn : TimeZoneName.new n with
      | err => exact post_err
      | panic => rw [hn] at h; exact h.elim
      | ok n' =>
        rw [hn] at h
        obtain ⟨rfl, h2⟩ := h
        exact post_ok ⟨rfl, g, by intro m hm; cases hm; exact h2⟩

/-! ### the whole TZ string -/
def LttV (t : Ltt) : Prop := -100000 ≤ t.off ∧ t.off ≤ 100000
/-- DST flag as stated and a legal designation -/
def LttN (t : Ltt) (dst : Bool) : Prop := t.dst = dst ∧ ∃ n, t.name = some n ∧ NameOk n
/-- what `from_tz_string` guarantees about its result (enough for the lookup in `validate`) -/
def RuleV : Rule → Prop
  | .fixed t => LttV t ∧ LttN t false
  | .alt a => LttV a.std ∧ LttV a.dst ∧ DayOk a.dstStart ∧ DayOk a.dstEnd
      ∧ TimeV a.dstStartTime ∧ TimeV a.dstEndTime ∧ LttN a.std false ∧ LttN a.dst true

theorem post_parse_offset (c : Cursor) :
    Post (parse_offset c) (fun r => -89999 ≤ r.1 ∧ r.1 ≤ 89999) :=
  post_of (np_parse_offset c) (fun ⟨_, _⟩ e => parse_offset_spec e)

theorem post_parse_dst_offset (so : Int) (hso : -89999 ≤ so ∧ so ≤ 89999) (c : Cursor) :
    Post (parse_dst_offset so c) (fun r => -100000 ≤ r.1 ∧ r.1 ≤ 100000) := by
  unfold parse_dst_offset
  have k : DEFAULT_DST_DELTA = 3600 := rfl
  split
  · rw [ck32_ok (by omega) (by omega)]
    exact post_ok (by dsimp only; omega)
  · exact post_mono (post_parse_offset c) (fun a h => by omega)
  · exact post_err

theorem post_alt_new (std dst : Ltt) (d1 : RuleDay) (t1 : Int) (d2 : RuleDay) (t2 : Int) :
    Post (Alt.new std dst d1 t1 d2 t2) (fun a => a = ⟨std, dst, d1, t1, d2, t2⟩) := by
  unfold Alt.new
  split
  · exact post_err
  · exact post_ok rfl

theorem post_from_tz_string (s : List Nat) (ext : Bool) : Post (from_tz_string s ext) RuleV := by
  unfold from_tz_string
  refine post_bind (post_true (np_parse_name _)) ?_
  rintro ⟨stdn, c1⟩ - -
  refine post_bind (post_parse_offset _) ?_
  rintro ⟨so, c2⟩ - hso
  dsimp only at hso ⊢
  split
  · rw [ck32_ok (by omega) (by omega)]
    simp only [P.bind_ok]
    refine post_bind (post_ltt_new _ _ _) ?_
    rintro t - ⟨rfl, -, hn⟩
    exact post_ok ⟨by simp only [LttV]; omega, rfl, _, rfl, hn _ rfl⟩
  · refine post_bind (post_true (np_parse_name _)) ?_
    rintro ⟨dstn, c3⟩ - -
    refine post_bind (post_parse_dst_offset so hso _) ?_
    rintro ⟨d_o, c4⟩ - hdo
    dsimp only at hdo ⊢
    split
    · exact post_err
    · refine post_bind (post_true (np_read_tag _ _)) ?_
      rintro c5 - -
      refine post_bind (post_ruleday_parse _ _) ?_
      rintro ⟨⟨d1, t1⟩, c6⟩ - ⟨hd1, ht1⟩
      refine post_bind (post_true (np_read_tag _ _)) ?_
      rintro c7 - -
      refine post_bind (post_ruleday_parse _ _) ?_
      rintro ⟨⟨d2, t2⟩, c8⟩ - ⟨hd2, ht2⟩
      dsimp only at hd1 ht1 hd2 ht2 ⊢
      split
      · exact post_err
      · rw [ck32_ok (by omega) (by omega)]
        simp only [P.bind_ok]
        refine post_bind (post_ltt_new _ _ _) ?_
        rintro std - ⟨rfl, -, hn1⟩
        rw [ck32_ok (by omega) (by omega)]
        simp only [P.bind_ok]
        refine post_bind (post_ltt_new _ _ _) ?_
        rintro dst - ⟨rfl, -, hn2⟩
        refine post_bind (post_alt_new _ _ _ _ _ _) ?_
        rintro a - rfl
        exact post_ok ⟨by simp only [LttV]; omega, by simp only [LttV]; omega, hd1, hd2, ht1, ht2,
          ⟨rfl, _, rfl, hn1 _ rfl⟩, ⟨rfl, _, rfl, hn2 _ rfl⟩⟩

/-! ### the rule lookup used by `validate` never panics -/
theorem cumul_get : ∀ m, m < 12 →
    ∃ v, CUMUL_DAY_IN_MONTHS_NORMAL_YEAR[m]? = some v ∧ 0 ≤ v ∧ v ≤ 334 := by decide
theorem dim_get : ∀ m, m < 12 →
    ∃ v, DAY_IN_MONTHS_NORMAL_YEAR[m]? = some v ∧ 28 ≤ v ∧ v ≤ 31 := by decide

def I32r (x : Int) : Prop := -2147483648 ≤ x ∧ x ≤ 2147483647

theorem post_days (year : Int) (month : Nat) (md : Int) (hy : I32r year)
    (hm : 1 ≤ month ∧ month ≤ 12) (hd : -100 ≤ md ∧ md ≤ 100) :
    Post (days_since_unix_epoch year month md)
      (fun r => -800000000000 ≤ r ∧ r ≤ 800000000000) := by
  unfold days_since_unix_epoch
  unfold I32r at hy
  obtain ⟨v, hv, hv0, hv1⟩ := cumul_get (month - 1) (by omega)
  simp only [tdiv_eq]
  rw [if_neg (by omega)]
  simp only [idxI, hv, P.bind_ok]
  split
  · split
    · rw [ck64_ok (by omega) (by omega)]; exact post_ok (by omega)
    · rw [ck64_ok (by omega) (by omega)]; exact post_ok (by omega)
  · split
    · rw [ck64_ok (by omega) (by omega)]; exact post_ok (by omega)
    · rw [ck64_ok (by omega) (by omega)]; exact post_ok (by omega)

def DateV (r : Nat × Int) : Prop := 1 ≤ r.1 ∧ r.1 ≤ 12 ∧ 1 ≤ r.2 ∧ r.2 ≤ 40

def dateOkB (r : P (Nat × Int)) : Bool :=
  match r with
  | .ok (m, d) => decide (1 ≤ m) && decide (m ≤ 12) && decide (1 ≤ d) && decide (d ≤ 40)
  | _ => false

theorem dateOkB_post {r : P (Nat × Int)} (h : dateOkB r = true) : Post r DateV := by
  cases r with
  | ok a =>
    obtain ⟨m, d⟩ := a
    simp only [dateOkB, Bool.and_eq_true, decide_eq_true_eq] at h
    exact ⟨h.1.1.1, h.1.1.2, h.1.2, h.2⟩
  | err => simp [dateOkB] at h
  | panic => simp [dateOkB] at h

theorem julian1_all : ∀ n, n < 366 → 1 ≤ n → dateOkB (julian1Date (n : Nat)) = true := by
  decide +kernel
theorem julian0_all : ∀ n, n < 366 →
    dateOkB (julian0Date 0 (n : Nat)) = true ∧ dateOkB (julian0Date 1 (n : Nat)) = true := by
  decide +kernel

theorem mwdDay_bounds (dim week wd wd1 : Int) (h1 : 28 ≤ dim ∧ dim ≤ 32) (h2 : 1 ≤ week ∧ week ≤ 5)
    (_h3 : 0 ≤ wd ∧ wd ≤ 6) : 1 ≤ mwdDay dim week wd wd1 ∧ mwdDay dim week wd wd1 ≤ 40 := by
  unfold mwdDay
  have k : DAYS_PER_WEEK = 7 := rfl
  simp only [k]
  split <;> omega

theorem post_transition_date (d : RuleDay) (year : Int) (hd : DayOk d) (hy : I32r year) :
    Post (d.transition_date year) DateV := by
  cases d with
  | julian1 n =>
    simp only [DayOk] at hd
    exact dateOkB_post (julian1_all n (by omega) hd.1)
  | julian0 n =>
    simp only [DayOk] at hd
    simp only [RuleDay.transition_date]
    split
    · exact dateOkB_post (julian0_all n (by omega)).2
    · exact dateOkB_post (julian0_all n (by omega)).1
  | mwd m w wd =>
    simp only [DayOk] at hd
    simp only [RuleDay.transition_date]
    rw [if_neg (by omega)]
    obtain ⟨v, hv, hv0, hv1⟩ := dim_get (m - 1) (by omega)
    simp only [idxI, hv, P.bind_ok]
    refine post_bind (post_days year m 1 hy ⟨hd.1, hd.2.1⟩ (by omega)) ?_
    rintro d1 - -
    refine post_ok ?_
    have hb := mwdDay_bounds (if m = 2 then v + (if is_leap_year year = true then 1 else 0) else v) w wd
      ((4 + d1) % DAYS_PER_WEEK) (by split <;> first | omega | (split <;> omega)) (by omega) (by omega)
    unfold DateV
    exact ⟨hd.1, hd.2.1, hb.1, hb.2⟩

theorem post_unix_time (d : RuleDay) (year t : Int) (hd : DayOk d) (hy : I32r year)
    (ht : -1000000 ≤ t ∧ t ≤ 1000000) : Post (d.unix_time year t) (fun _ => True) := by
  unfold RuleDay.unix_time
  refine post_bind (post_transition_date d year hd hy) ?_
  rintro ⟨month, md⟩ - ⟨h1, h2, _h3, h4⟩
  dsimp only at h1 h2 h4 ⊢
  refine post_bind (post_days year month md hy ⟨h1, h2⟩ (by omega)) ?_
  rintro days - hdays
  have k : SECONDS_PER_DAY = 86400 := rfl
  rw [k, ck64_ok (by omega) (by omega)]
  simp only [P.bind_ok]
  rw [ck64_ok (by omega) (by omega)]
  trivial

theorem post_ite_inI32 (y : Int) : Post (if inI32 y then (P.ok y : P Int) else .err) I32r := by
  split
  · rename_i h
    simp only [inI32, I32_MIN, I32_MAX, Bool.and_eq_true] at h
    exact post_ok ⟨of_decide_eq_true h.1, of_decide_eq_true h.2⟩
  · exact post_err

theorem post_from_timespec_year (t : Int) : Post (from_timespec_year t) I32r := by
  unfold from_timespec_year
  split
  · exact post_err
  · exact post_ite_inI32 _

macro "alt_step" : tactic => `(tactic| first
  | exact post_ok trivial
  | exact post_err
  | (refine post_bind (post_unix_time _ _ _ (by assumption) (by unfold I32r at *; omega) (by omega)) ?_
     intro _ _ _)
  | (rw [ck32_ok (by unfold I32r at *; omega) (by unfold I32r at *; omega)]
     simp only [P.bind_ok])
  | split)

theorem post_alt_find (a : Alt) (t : Int) (h : RuleV (.alt a)) :
    Post (a.find_ltt_for_validate t) (fun _ => True) := by
  obtain ⟨hs, hd, hd1, hd2, ht1, ht2, -, -⟩ := h
  unfold LttV at hs hd
  unfold TimeV at ht1 ht2
  unfold Alt.find_ltt_for_validate
  refine post_bind (post_from_timespec_year t) ?_
  intro cy _ hcy
  dsimp only
  split
  · exact post_err
  · rename_i g
    simp only [Bool.not_eq_true', Bool.not_eq_false, Bool.and_eq_true, I32_MIN, I32_MAX] at g
    have g1 := of_decide_eq_true g.1
    have g2 := of_decide_eq_true g.2
    refine post_bind (post_unix_time _ _ _ hd1 hcy (by omega)) ?_
    intro cs _ _
    refine post_bind (post_unix_time _ _ _ hd2 hcy (by omega)) ?_
    intro ce _ _
    refine post_bind (Q := fun _ => True) ?_ (fun b _ _ => post_ok trivial)
    repeat' alt_step

theorem post_rule_find (r : Rule) (t : Int) (h : RuleV r) :
    Post (r.find_ltt_for_validate t) (fun _ => True) := by
  cases r with
  | fixed x => exact post_ok trivial
  | alt a => exact post_alt_find a t h

end Chrono.Proofs.Tz
