/- Helper lemmas for C16 (proofs of the statements in Props/C16.lean). -/
import Chrono.Spec.TzSpec
import Chrono.Proofs.PrimL

namespace Chrono.Proofs.Tz
open Chrono Chrono.M.Tz Chrono.Spec.Tz Chrono.Extracted.TzP

end Chrono.Proofs.Tz
