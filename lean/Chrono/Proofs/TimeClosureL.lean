/- Helper lemmas for the second C07 audit (audit2/C07.md): M3 (`TValid` is reachable and closed), L1 (date-time
   subtraction = addition of the negation), L4 (the cross term of a date-time difference as a case definition). -/
import Chrono.Proofs.TimeL
import Chrono.Proofs.TimeCarryL
import Chrono.Proofs.TimeCarryGapsL
import Chrono.Proofs.TimeOpsL
import Chrono.Model.ArithOps

namespace Chrono.Proofs.TimeClosure
open Chrono Chrono.M Chrono.Spec Chrono.Proofs Chrono.Extracted

/-! ### M3 (a): every valid representation is built by two public calls -/

theorem reachable (t : Time) (ht : TValid t) :
    (Time.from_num_seconds_from_midnight_opt t.secs 0).bind (fun u => u.with_nanosecond t.frac) = some t := by
  unfold TValid at ht
  rw [nsfm_iff', if_pos (by omega)]
  show Time.with_nanosecond ⟨t.secs, 0⟩ t.frac = some t
  unfold Time.with_nanosecond
  rw [if_neg (by omega)]

/-! ### M3 (b): closure, piece by piece -/

theorem ctor_nano (h m s n : Int) (r : Time) (h0 : 0 ≤ h) (m0 : 0 ≤ m) (s0 : 0 ≤ s) (n0 : 0 ≤ n)
    (e : Time.from_hms_nano_opt h m s n = some r) : TStrict r := by
  rw [hms_nano_iff'] at e
  by_cases hok : okFields h m s n
  · rw [if_pos hok] at e; cases e; exact (ofFields_ok h m s n h0 m0 s0 n0 hok).1
  · rw [if_neg hok] at e; cases e

theorem ctor_hms (h m s : Int) (r : Time) (h0 : 0 ≤ h) (m0 : 0 ≤ m) (s0 : 0 ≤ s)
    (e : Time.from_hms_opt h m s = some r) : TStrict r := by
  rw [hms_iff'] at e
  by_cases hok : h < 24 ∧ m < 60 ∧ s < 60
  · rw [if_pos hok] at e; cases e
    exact (ofFields_ok h m s 0 h0 m0 s0 (by omega) (by unfold okFields; omega)).1
  · rw [if_neg hok] at e; cases e

theorem ctor_milli (h m s ms : Int) (r : Time) (h0 : 0 ≤ h) (m0 : 0 ≤ m) (s0 : 0 ≤ s) (n0 : 0 ≤ ms)
    (e : Time.from_hms_milli_opt h m s ms = some r) : TStrict r := by
  rw [hms_milli_iff' h m s ms n0] at e
  by_cases hok : h < 24 ∧ m < 60 ∧ s < 60 ∧ (ms < 1000 ∨ (s = 59 ∧ ms < 2000))
  · rw [if_pos hok] at e; cases e
    exact (ofFields_ok h m s (ms * 1000000) h0 m0 s0 (by omega) (by unfold okFields; omega)).1
  · rw [if_neg hok] at e; cases e

theorem ctor_micro (h m s us : Int) (r : Time) (h0 : 0 ≤ h) (m0 : 0 ≤ m) (s0 : 0 ≤ s) (n0 : 0 ≤ us)
    (e : Time.from_hms_micro_opt h m s us = some r) : TStrict r := by
  rw [hms_micro_iff' h m s us n0] at e
  by_cases hok : h < 24 ∧ m < 60 ∧ s < 60 ∧ (us < 1000000 ∨ (s = 59 ∧ us < 2000000))
  · rw [if_pos hok] at e; cases e
    exact (ofFields_ok h m s (us * 1000) h0 m0 s0 (by omega) (by unfold okFields; omega)).1
  · rw [if_neg hok] at e; cases e

theorem with_any (t : Time) (v : Int) (r : Time) (ht : TValid t) (hv : 0 ≤ v)
    (e : t.with_hour v = some r ∨ t.with_minute v = some r ∨ t.with_second v = some r ∨
      t.with_nanosecond v = some r) : TValid r := by
  obtain ⟨⟨_, w1⟩, ⟨_, w2⟩, ⟨_, w3⟩, ⟨_, w4⟩⟩ := Proofs.TimeGaps.with_accessors t v ht hv
  rcases e with e | e | e | e
  · exact (w1 r e).1
  · exact (w2 r e).1
  · exact (w3 r e).1
  · exact (w4 r e).1

theorem add_any (t : Time) (d : Delta) (p : Time × Int) (ht : TValid t) (hd : DInv d)
    (e : Time.overflowing_add_signed t d = .ok p ∨ Time.overflowing_sub_signed t d = .ok p) :
    TValid p.1 ∧ p.2 % 86400 = 0 := by
  rcases e with e | e
  · rw [add_spec' t d ht hd] at e; cases e
    exact ⟨(addLeap_facts t (ns d) ht).1, (addLeap_facts t (ns d) ht).2.1⟩
  · rw [sub_spec' t d ht hd] at e; cases e
    refine ⟨(addLeap_facts t (-(ns d)) ht).1, ?_⟩
    have := (addLeap_facts t (-(ns d)) ht).2.1
    show (-(addLeap t (-(ns d))).2) % 86400 = 0
    omega

theorem op_any (t : Time) (d : Delta) (r : Time) (ht : TValid t) (hd : DInv d)
    (e : Time.add t d = .ok r ∨ Time.sub t d = .ok r ∨ Time.add_assign t d = .ok r ∨
      Time.sub_assign t d = .ok r) : TValid r := by
  have a := Proofs.TimeGaps.op_add t d ht hd
  have s := Proofs.TimeGaps.op_sub t d ht hd
  have a' : Time.add_assign t d = .ok (addLeap t (ns d)).1 := a
  have s' : Time.sub_assign t d = .ok (addLeap t (-(ns d))).1 := s
  rcases e with e | e | e | e
  · rw [a] at e; cases e; exact (addLeap_facts t (ns d) ht).1
  · rw [s] at e; cases e; exact (addLeap_facts t (-(ns d)) ht).1
  · rw [a'] at e; cases e; exact (addLeap_facts t (ns d) ht).1
  · rw [s'] at e; cases e; exact (addLeap_facts t (-(ns d)) ht).1

theorem std_any (t : Time) (secs nanos : Int) (r : Time) (ht : TValid t) (hs : 0 ≤ secs)
    (hn : 0 ≤ nanos ∧ nanos < 1000000000)
    (e : Time.add_std t secs nanos = .ok r ∨ Time.sub_std t secs nanos = .ok r) : TValid r := by
  obtain ⟨a, s⟩ := time_std_spec' t secs nanos ht hs hn
  rcases e with e | e
  · rw [a] at e; cases e; exact (addLeap_facts t _ ht).1
  · rw [s] at e; cases e; exact (addLeap_facts t _ ht).1

theorem offset_any (t : Time) (off : Int) (p : Time × Int) (ht : TValid t) (ho : -86400 < off ∧ off < 86400)
    (e : Time.overflowing_add_offset t off = .ok p ∨ Time.overflowing_sub_offset t off = .ok p) :
    TValid p.1 ∧ p.1.frac = t.frac := by
  obtain ⟨a, _, f, v, _⟩ := offset' t off ht ho
  obtain ⟨_, s, _⟩ := offset' t off ht ho
  obtain ⟨_, _, f', v', _⟩ := offset' t (-off) ht (by omega)
  rcases e with e | e
  · rw [a] at e; cases e; exact ⟨v, f⟩
  · rw [s] at e; cases e; exact ⟨v', f'⟩

/-! ### L1: date-time subtraction is addition of the negated duration -/

theorem dt_sub_is_add_neg (dt : NaiveDT) (d : Delta) (hdt : NDTInv dt) (hd : DInv d) :
    ∃ n, Delta.neg d = .ok n ∧ DInv n ∧ ns n = -(ns d) ∧
      NaiveDT.checked_sub_signed dt d = NaiveDT.checked_add_signed dt n := by
  obtain ⟨n, hn, hninv, hns, _⟩ := sub_is_add_neg' dt.time d hdt.2 hd
  obtain ⟨r2, e2, s2, v2⟩ := Proofs.TimeCarry.sub_outcome dt d hdt hd
  obtain ⟨r1, e1, s1, v1⟩ := Proofs.TimeCarry.add_outcome dt n hdt hninv
  refine ⟨n, hn, hninv, hns, ?_⟩
  rw [e1, e2]
  rw [hns] at s1 v1
  have hdate := dayShift_unique' _ _ _ _ s2 s1
  cases r1 with
  | none =>
    cases r2 with
    | none => rfl
    | some y => cases hdate
  | some x =>
    cases r2 with
    | none => cases hdate
    | some y =>
      have h1 := (v1 x rfl).1
      have h2 := (v2 y rfl).1
      have h3 : y.date = x.date := Option.some.inj hdate
      obtain ⟨xd, xt⟩ := x
      obtain ⟨yd, yt⟩ := y
      dsimp only at h1 h2 h3
      rw [h1, h2, h3]

/-! ### L2: the operator forms of `NaiveDateTime` panic exactly when the checked form refuses -/

theorem expect_char (dt : NaiveDT) (k : Int) (c : Res (Option NaiveDT)) (r : Option NaiveDT)
    (e : c = .ok r) (s : IsDayShift dt.date k (r.map (·.date))) :
    (expectSome c = .panic ↔ (dayNumOf dt.date + k < DN_MIN ∨ DN_MAX < dayNumOf dt.date + k)) ∧
    (∀ x, expectSome c = .ok x ↔ c = .ok (some x)) := by
  subst e
  cases r with
  | none =>
    refine ⟨⟨fun _ => s.1.mp rfl, fun _ => rfl⟩, ?_⟩
    intro x
    exact ⟨fun h => (by cases h), fun h => (by cases h)⟩
  | some y =>
    refine ⟨⟨fun h => (by cases h), fun h => ?_⟩, ?_⟩
    · have := s.1.mpr h; cases this
    · intro x
      constructor
      · intro h; have h' : y = x := Res.ok.inj h; rw [h']
      · intro h; have h' : y = x := Option.some.inj (Res.ok.inj h); rw [h']; rfl

/-! ### L4: the cross term as a case definition -/

theorem crossCase_eq (x o : NaiveDT) (hx : TValid x.time) (ho : TValid o.time) :
    crossErr x o = crossCase x o := by
  rw [Proofs.TimeGaps.crossErr_cases x o hx ho]; rfl

theorem dt_diff_vs_line_cases (a b : NaiveDT) (ha : NDTInv a) (hb : NDTInv b) :
    NaiveDT.signed_duration_since a b =
      .ok (ofNs (dtDiffLine a b + crossCase a b - crossCase b a)) := by
  rw [(Proofs.TimeCarry.diff_full a b ha hb).1, Proofs.TimeGaps.dt_diff_vs_line a b,
    crossCase_eq a b ha.2 hb.2, crossCase_eq b a hb.2 ha.2]

end Chrono.Proofs.TimeClosure
