/-
  C15 (audit2/C15.md, MEDIUM-3): lenient `StrftimeItems`.  On a well-formed UTF-8 format string
  * every call of `StrftimeItems::error` made by `parse_next_item` (lenient or strict) has a
    non-underflowing `*error_len -= c.len_utf8()` and legal slices `&original[*error_len..]`,
    `&original[..*error_len]`: `parse_next_itemR l s = .ok (parse_next_item l s)`
    (`parse_next_itemR` = Model/StrftimeLenient.lean, `error` with checked subtraction and checked slices);
  * every lenient `parse_next_item` call leaves a remainder after whole characters, cuts out only
    well-formed literals and queues only well-formed literals; hence all literals of
    `StrftimeItems::new_lenient(fmt)` are `&str`s.
  Namespace `Chrono.Proofs.StrftimeLenient`.
-/
import Chrono.Model.StrftimeLenient
import Chrono.Proofs.StrftimeUtf8L
namespace Chrono.Proofs.StrftimeLenient
open Chrono Chrono.M Chrono.M.Strftime Chrono.M.Tz Chrono.Spec.Utf8 Chrono.Proofs.Utf8 Chrono.Proofs.ScanBoundary
open Chrono.Proofs.StrftimeL Chrono.Proofs.FormatL Chrono.Proofs.StrftimeUtf8

/-- `error_len = el` is the byte position of `rem` in `original`, after whole characters -/
def At (o : List Nat) (el : Nat) (rem : List Nat) : Prop :=
  ∃ pre, o = pre ++ rem ∧ pre.length = el ∧ validUtf8 pre = true

/-- `el` is a byte position of `original` after whole characters -/
def Bd (o : List Nat) (el : Nat) : Prop := ∃ rem, At o el rem

theorem At.bs {o rem : List Nat} {el : Nat} (h : At o el rem) : BoundarySuffix o rem := by
  obtain ⟨pre, e, _, v⟩ := h; exact ⟨pre, e, v⟩

theorem At.bd {o rem : List Nat} {el : Nat} (h : At o el rem) : Bd o el := ⟨rem, h⟩

/-- **the slice at a whole-character position is legal** -/
theorem Bd.sliceOk {o : List Nat} {el : Nat} (hv : validUtf8 o = true) (h : Bd o el) : sliceOk o el = true := by
  obtain ⟨rem, pre, e, hl, v⟩ := h
  obtain ⟨_, _, h3, _⟩ := bs_boundary hv (⟨pre, e, v⟩ : BoundarySuffix o rem)
  have hk : o.length - rem.length = el := by rw [e, List.length_append]; omega
  rw [hk] at h3
  have : el ≤ o.length := by rw [e, List.length_append]; omega
  unfold Strftime.sliceOk
  rw [h3]; simp [this]

theorem Bd.drop_take {o : List Nat} {el : Nat} (h : Bd o el) :
    BoundarySuffix o (o.drop el) ∧ validUtf8 (o.take el) = true := by
  obtain ⟨rem, pre, e, hl, v⟩ := h
  subst hl
  rw [e, List.drop_left, List.take_left]
  exact ⟨⟨pre, rfl, v⟩, v⟩

/-- the call `error(original, &mut el, ch)` is panic-free: the checked subtraction succeeds and the
index it leaves is `≤ original.len()` and on a char boundary -/
def ErrCallOk (o : List Nat) (el : Nat) (ch : Option Nat) : Prop :=
  ch.getD 0 ≤ el ∧ el - ch.getD 0 ≤ o.length ∧ isCharBoundary o (el - ch.getD 0) = true

theorem sliceOk_len (o : List Nat) : sliceOk o o.length = true := by
  unfold Strftime.sliceOk isCharBoundary; simp

/-- strict mode: `error` slices at `original.len()` only -/
theorem errorR_strict (o : List Nat) (el : Nat) (ch : Option Nat) :
    errorR false o el ch = .ok (error false o el ch) := by
  unfold errorR error
  simp [sliceOk_len]

/-- `errorR` is `.ok` exactly when the call is panic-free (lenient mode) -/
theorem errorR_ok_iff (o : List Nat) (el : Nat) (ch : Option Nat) :
    errorR true o el ch = .ok (error true o el ch) ↔ ErrCallOk o el ch := by
  unfold errorR error ErrCallOk Strftime.sliceOk
  by_cases h1 : el < ch.getD 0
  · simp [h1]
  · by_cases h2 : el - ch.getD 0 ≤ o.length
    · cases h3 : isCharBoundary o (el - ch.getD 0) <;> simp [h1, h2, h3]
      omega
    · simp [h1, h2]

/-- lenient `error` at a whole-character position -/
theorem error_lenient (o : List Nat) (hv : validUtf8 o = true) (el : Nat) (ch : Option Nat)
    (hle : ch.getD 0 ≤ el) (hb : Bd o (el - ch.getD 0)) :
    errorR true o el ch = .ok (error true o el ch) ∧ BoundarySuffix o (error true o el ch).1 ∧
    litOkB (error true o el ch).2.1 = true ∧ Bd o (error true o el ch).2.2 := by
  have hs := hb.sliceOk hv
  obtain ⟨h1, h2⟩ := hb.drop_take
  refine ⟨?_, h1, h2, hb⟩
  rw [errorR_ok_iff]
  unfold Strftime.sliceOk at hs
  simp only [Bool.and_eq_true, decide_eq_true_eq] at hs
  exact ⟨hle, hs.1, hs.2⟩

theorem error_lenient_none (o : List Nat) (hv : validUtf8 o = true) (el : Nat) (hb : Bd o el) :
    errorR true o el none = .ok (error true o el none) ∧ BoundarySuffix o (error true o el none).1 ∧
    litOkB (error true o el none).2.1 = true ∧ Bd o (error true o el none).2.2 :=
  error_lenient o hv el none (Nat.zero_le _) hb

theorem error_lenient_some (o : List Nat) (hv : validUtf8 o = true) (el n : Nat) (hb : Bd o el) :
    errorR true o (el + n) (some n) = .ok (error true o (el + n) (some n)) ∧
    BoundarySuffix o (error true o (el + n) (some n)).1 ∧
    litOkB (error true o (el + n) (some n)).2.1 = true ∧ Bd o (error true o (el + n) (some n)).2.2 :=
  error_lenient o hv (el + n) (some n) (Nat.le_add_left _ _)
    (by show Bd o (el + n - n); rw [Nat.add_sub_cancel]; exact hb)

/-- `next!()`: the position advances by the length of the character taken -/
theorem nextCh_at (o rem : List Nat) (el : Nat) (hv : validUtf8 o = true) (ha : At o el rem) (c n : Nat)
    (r : List Nat) (h : nextCh rem = some (c, n, r)) : At o (el + n) r := by
  have hvr := bs_valid_rest hv ha.bs
  obtain ⟨pre, e, hl, v⟩ := ha
  unfold nextCh at h
  cases rem with
  | nil => simp at h
  | cons b rest =>
    simp only [Option.some.injEq, Prod.mk.injEq] at h
    obtain ⟨_, rfl, rfl⟩ := h
    obtain ⟨ch, t', he, hc, _⟩ := (valid_cons_iff (b :: rest) (by simp)).mp hvr
    obtain ⟨b0, tl, hce, hcl⟩ := isChar_len ch hc
    have hb : b0 = b := by rw [hce] at he; injection he with he _; exact he.symm
    subst hb
    have hlen : Scan.charLen b0 = ch.length := by rw [hcl]; rfl
    have hp := charLen_pos b0
    have e2 : rest.drop (Scan.charLen b0 - 1) = t' := by
      have : (b0 :: rest).drop (Scan.charLen b0) = rest.drop (Scan.charLen b0 - 1) := by
        obtain ⟨k, hk⟩ : ∃ k, Scan.charLen b0 = k + 1 := ⟨Scan.charLen b0 - 1, by omega⟩
        rw [hk]; simp
      rw [← this, he, hlen, List.drop_left]
    have hcv : validUtf8 ch = true := by
      have := valid_char_append ch [] hc
      rw [List.append_nil] at this; rw [this]; rfl
    refine ⟨pre ++ ch, ?_, ?_, valid_append _ pre ch (Nat.le_refl _) v hcv⟩
    · rw [e, he, e2, List.append_assoc]
    · rw [List.length_append, hl, hlen]

/-- invariant of the outcome of the `match spec` block in lenient mode -/
def ArmInv (o : List Nat) : Arm → Prop
  | .item it r q el => BoundarySuffix o r ∧ litOkB it = true ∧ q.all litOkB = true ∧ Bd o el
  | .ret r it => BoundarySuffix o r ∧ litOkB it = true

theorem fracArm_lenient (o rem : List Nat) (hv : validUtf8 o = true) (el : Nat) (ha : At o el rem) (ok : Item)
    (hok : litOkB ok = true) :
    fracArmR true o rem el ok = .ok (fracArm true o rem el ok) ∧ ArmInv o (fracArm true o rem el ok) := by
  unfold fracArmR fracArm
  cases hn : nextCh rem with
  | none =>
    obtain ⟨e1, e2, e3, _⟩ := error_lenient_none o hv el ha.bd
    dsimp only
    rw [e1]
    exact ⟨rfl, e2, e3⟩
  | some x =>
    obtain ⟨c, n, rem'⟩ := x
    have a1 := nextCh_at o rem el hv ha c n rem' hn
    dsimp only
    simp only [if_true]
    split
    · exact ⟨rfl, a1.bs, hok, rfl, a1.bd⟩
    · obtain ⟨e1, e2, e3, e4⟩ := error_lenient_some o hv el n ha.bd
      rw [e1]
      exact ⟨rfl, e2, e3, rfl, e4⟩

theorem specArm_lenient (o rem : List Nat) (hv : validUtf8 o = true) (el : Nat) (ha : At o el rem)
    (alt : Bool) (c n : Nat) (hn : n ≤ el) (hp : Bd o (el - n)) :
    specArmR true o rem el alt c n = .ok (specArm true o rem el alt c n) ∧
    ArmInv o (specArm true o rem el alt c n) := by
  have hb := ha.bs
  unfold specArmR specArm
  split
  · exact ⟨rfl, hb, by unfold zItem; split <;> rfl, rfl, ha.bd⟩
  split
  · split
    · rename_i h; exact ⟨rfl, bs_trans hb (drop_ascii_bs rem [58, 58, 122] (by decide) h), rfl, rfl, ha.bd⟩
    · split
      · rename_i h; exact ⟨rfl, bs_trans hb (drop_ascii_bs rem [58, 122] (by decide) h), rfl, rfl, ha.bd⟩
      · split
        · rename_i h; exact ⟨rfl, bs_trans hb (drop_ascii_bs rem [122] (by decide) h), rfl, rfl, ha.bd⟩
        · obtain ⟨e1, _, e3, _⟩ := error_lenient_none o hv el ha.bd
          rw [e1]
          exact ⟨rfl, hb, e3, rfl, ha.bd⟩
  split
  · cases hn1 : nextCh rem with
    | none =>
      obtain ⟨e1, e2, e3, _⟩ := error_lenient_none o hv el ha.bd
      dsimp only
      rw [e1]
      exact ⟨rfl, e2, e3⟩
    | some x =>
      obtain ⟨c1, n1, rem1⟩ := x
      have a1 := nextCh_at o rem el hv ha c1 n1 rem1 hn1
      dsimp only
      simp only [if_true]
      split
      · exact fracArm_lenient o rem1 hv _ a1 _ rfl
      · split
        · exact fracArm_lenient o rem1 hv _ a1 _ rfl
        · split
          · exact fracArm_lenient o rem1 hv _ a1 _ rfl
          · split
            · exact ⟨rfl, a1.bs, rfl, rfl, a1.bd⟩
            · obtain ⟨e1, e2, e3, e4⟩ := error_lenient_some o hv el n1 ha.bd
              rw [e1]
              exact ⟨rfl, e2, e3, rfl, e4⟩
  split
  · exact fracArm_lenient o rem hv el ha _ rfl
  split
  · exact fracArm_lenient o rem hv el ha _ rfl
  split
  · exact fracArm_lenient o rem hv el ha _ rfl
  cases hs : specTable c with
  | some x =>
    obtain ⟨it, q⟩ := x
    obtain ⟨h1, h2⟩ := specTable_lit c it q hs
    exact ⟨rfl, hb, h1, h2, ha.bd⟩
  | none =>
    obtain ⟨e1, e2, e3, e4⟩ := error_lenient o hv el (some n) hn hp
    dsimp only
    rw [e1]
    exact ⟨rfl, e2, e3, rfl, e4⟩

/-! ### strict mode: `error` never panics, whatever `error_len` is -/

theorem fracArm_strict (o rem : List Nat) (el : Nat) (ok : Item) :
    fracArmR false o rem el ok = .ok (fracArm false o rem el ok) := by
  unfold fracArmR fracArm
  simp only [errorR_strict]
  cases nextCh rem with
  | none => rfl
  | some x =>
    obtain ⟨c, n, rem'⟩ := x
    dsimp only
    split <;> rfl

theorem specArm_strict (o rem : List Nat) (el : Nat) (alt : Bool) (c n : Nat) :
    specArmR false o rem el alt c n = .ok (specArm false o rem el alt c n) := by
  unfold specArmR specArm
  simp only [errorR_strict, fracArm_strict]
  split
  · rfl
  split
  · split
    · rfl
    · split
      · rfl
      · split <;> rfl
  split
  · cases nextCh rem with
    | none => rfl
    | some x =>
      obtain ⟨c1, n1, rem1⟩ := x
      dsimp only
      split
      · rfl
      · split
        · rfl
        · split
          · rfl
          · split <;> rfl
  split
  · rfl
  split
  · rfl
  split
  · rfl
  cases specTable c with
  | some x => rfl
  | none => rfl

/-! ### one `parse_next_item` call -/

/-- what one `parse_next_item` call on `o` must deliver: a remainder after whole characters, a
well-formed literal (if the item is a literal), well-formed queued literals -/
def OGood (o : List Nat) : Option (List Nat × Item × List Item) → Prop
  | none => True
  | some r => BoundarySuffix o r.1 ∧ litOkB r.2.1 = true ∧ r.2.2.all litOkB = true

theorem errRet_lenient (o : List Nat) (hv : validUtf8 o = true) (el : Nat) (ch : Option Nat)
    (hle : ch.getD 0 ≤ el) (hb : Bd o (el - ch.getD 0)) (q : List Item) (hq : q.all litOkB = true) :
    errRet true o el ch q = .ok (some ((error true o el ch).1, (error true o el ch).2.1, q)) ∧
    OGood o (some ((error true o el ch).1, (error true o el ch).2.1, q)) := by
  obtain ⟨e1, e2, e3, _⟩ := error_lenient o hv el ch hle hb
  unfold errRet
  rw [e1]
  exact ⟨rfl, e2, e3, hq⟩

theorem errRet_strict (o : List Nat) (el : Nat) (ch : Option Nat) (q : List Item) :
    errRet false o el ch q = .ok (some ((error false o el ch).1, (error false o el ch).2.1, q)) := by
  unfold errRet
  rw [errorR_strict]

/-- the `%` branch in lenient mode -/
theorem pct_lenient (rest : List Nat) (hv : validUtf8 (37 :: rest) = true) :
    parse_next_itemR true (37 :: rest) = .ok (parse_next_item true (37 :: rest)) ∧
    OGood (37 :: rest) (parse_next_item true (37 :: rest)) := by
  have a0 : At (37 :: rest) 1 rest := ⟨[37], rfl, rfl, by decide⟩
  unfold parse_next_itemR parse_next_item
  simp only [if_true]
  cases hn : nextCh rest with
  | none =>
    dsimp only
    exact errRet_lenient _ hv 1 none (Nat.zero_le _) a0.bd [] rfl
  | some x =>
    obtain ⟨c0, n0, r1⟩ := x
    have a1 := nextCh_at _ rest 1 hv a0 c0 n0 r1 hn
    dsimp only
    generalize hsec : (if ((padOf c0).isSome || c0 == 35) = true then _ else _ :
      Option (Option (Nat × Nat × List Nat × Nat))) = sec
    have hsec' : ∀ c n rem el, sec = some (some (c, n, rem, el)) →
        At (37 :: rest) el rem ∧ n ≤ el ∧ Bd (37 :: rest) (el - n) := by
      intro c n rem el hs
      rw [← hsec] at hs
      split at hs
      · cases hn2 : nextCh r1 with
        | none => rw [hn2] at hs; simp at hs
        | some x =>
          obtain ⟨c', n', r2⟩ := x
          rw [hn2] at hs
          simp only [Option.some.injEq, Prod.mk.injEq] at hs
          obtain ⟨_, rfl, rfl, rfl⟩ := hs
          refine ⟨nextCh_at _ r1 _ hv a1 c' n' r2 hn2, Nat.le_add_left _ _, ?_⟩
          rw [Nat.add_sub_cancel]; exact a1.bd
      · simp only [Option.some.injEq, Prod.mk.injEq] at hs
        obtain ⟨_, rfl, rfl, rfl⟩ := hs
        refine ⟨a1, Nat.le_add_left _ _, ?_⟩
        rw [Nat.add_sub_cancel]; exact a0.bd
    rcases sec with _ | _ | ⟨c, n, rem, el⟩
    · exact errRet_lenient _ hv (1 + n0) none (Nat.zero_le _) a1.bd [] rfl
    · exact errRet_lenient _ hv (1 + n0) none (Nat.zero_le _) a1.bd [] rfl
    · obtain ⟨k1, k2, k3⟩ := hsec' c n rem el rfl
      dsimp only
      split
      · exact errRet_lenient _ hv el (some n) k2 k3 [] rfl
      · obtain ⟨s1, s2⟩ := specArm_lenient (37 :: rest) rem hv el k1 (c0 == 35) c n k2 k3
        rw [s1]
        generalize specArm true (37 :: rest) rem el (c0 == 35) c n = arm at s2 ⊢
        cases arm with
        | ret rem' it => exact ⟨rfl, s2.1, s2.2, rfl⟩
        | item it rem' queue el' =>
          obtain ⟨q1, q2, q3, q4⟩ := s2
          dsimp only
          cases hp : padOf c0 with
          | none => exact ⟨rfl, q1, q2, q3⟩
          | some np =>
            dsimp only
            cases it with
            | numeric kind pd =>
              dsimp only
              split
              · exact ⟨rfl, q1, rfl, rfl⟩
              · exact errRet_lenient _ hv el' none (Nat.zero_le _) q4 queue q3
            | _ => exact errRet_lenient _ hv el' none (Nat.zero_le _) q4 queue q3

/-- the `%` branch in strict mode: no hypothesis on the string is needed -/
theorem pct_strict (rest : List Nat) :
    parse_next_itemR false (37 :: rest) = .ok (parse_next_item false (37 :: rest)) := by
  unfold parse_next_itemR parse_next_item
  simp only [errRet_strict, specArm_strict]
  cases nextCh rest with
  | none => rfl
  | some x =>
    obtain ⟨c0, n0, r1⟩ := x
    dsimp only
    generalize (if ((padOf c0).isSome || c0 == 35) = true then _ else _ :
      Option (Option (Nat × Nat × List Nat × Nat))) = sec
    rcases sec with _ | _ | ⟨c, n, rem, el⟩
    · rfl
    · rfl
    · dsimp only
      split
      · rfl
      · generalize specArm false (37 :: rest) rem el (c0 == 35) c n = arm
        cases arm with
        | ret rem' it => rfl
        | item it rem' queue el' =>
          dsimp only
          cases padOf c0 with
          | none => rfl
          | some np =>
            dsimp only
            cases it with
            | numeric kind pd => dsimp only; split <;> rfl
            | _ => rfl

/-- the text branches (white space, literal) do not call `error` and do not look at the mode -/
theorem text_branch (l : Bool) (b : Nat) (rest : List Nat) (hb : b ≠ 37) :
    parse_next_itemR l (b :: rest) = .ok (parse_next_item l (b :: rest)) ∧
    parse_next_item l (b :: rest) = parse_next_item false (b :: rest) := by
  unfold parse_next_itemR
  split
  · rename_i he; cases he
  · rename_i r0 he; injection he with h1 _; exact absurd h1 hb
  · rename_i b' tl he
    injection he with h1 h2
    subst h1; subst h2
    have e : ∀ l', parse_next_item l' (b :: rest) =
        (if Scan.wsLen (b :: rest) ≠ 0 then
          some ((b :: rest).drop (Scan.wsLen (b :: rest) + wsSpan ((b :: rest).drop (Scan.wsLen (b :: rest)))),
            Item.space ((b :: rest).take (Scan.wsLen (b :: rest) + wsSpan ((b :: rest).drop (Scan.wsLen (b :: rest))))), [])
        else
          some ((b :: rest).drop (Scan.charLen b + litSpan ((b :: rest).drop (Scan.charLen b))),
            Item.literal ((b :: rest).take (Scan.charLen b + litSpan ((b :: rest).drop (Scan.charLen b)))), [])) := by
      intro l'
      unfold parse_next_item
      split
      · rename_i he; cases he
      · rename_i r0 he; injection he with h1 _; exact absurd h1 hb
      · rename_i b' tl he
        injection he with h1 h2
        subst h1; subst h2
        rfl
    rw [e l, e false]
    refine ⟨?_, rfl⟩
    split <;> rfl

/-- **(a) every `error` call of `parse_next_item` is panic-free**: with the subtraction
`*error_len -= c.len_utf8()` checked and both slices `&original[*error_len..]`, `&original[..*error_len]`
checked (`errorR`), `parse_next_item` on a well-formed UTF-8 string returns exactly what the unchecked
model returns — in lenient and in strict mode.  All call sites of `error` are covered. -/
theorem parse_next_itemR_ok (l : Bool) (s : List Nat) (hv : validUtf8 s = true) :
    parse_next_itemR l s = .ok (parse_next_item l s) := by
  cases s with
  | nil => rfl
  | cons b rest =>
    by_cases hb : b = 37
    · subst hb
      cases l with
      | true => exact (pct_lenient rest hv).1
      | false => exact pct_strict rest
    · exact (text_branch l b rest hb).1

/-- **(b) one lenient `parse_next_item` call** -/
theorem parse_next_item_lenient_good (s : List Nat) (hv : validUtf8 s = true)
    (r : List Nat × Item × List Item) (h : parse_next_item true s = some r) :
    BoundarySuffix s r.1 ∧ litOkB r.2.1 = true ∧ r.2.2.all litOkB = true := by
  cases s with
  | nil => simp [parse_next_item] at h
  | cons b rest =>
    by_cases hb : b = 37
    · subst hb
      have := (pct_lenient rest hv).2
      rw [h] at this
      exact this
    · rw [(text_branch true b rest hb).2] at h
      exact parse_next_item_good _ hv r h

theorem lenient_slices (s : List Nat) (hv : validUtf8 s = true) :
    ∀ r, parse_next_item true s = some r →
      BoundarySuffix s r.1 ∧ (∀ lit, r.2.1 = .literal lit → validUtf8 lit = true) ∧ ItemsUtf8 r.2.2 := by
  intro r h
  obtain ⟨h1, h2, h3⟩ := parse_next_item_lenient_good s hv r h
  refine ⟨h1, ?_, itemsUtf8_of_all _ h3⟩
  intro lit hl
  rw [hl] at h2
  exact h2

/-- the literals of the drained lenient iterator are `&str`s -/
theorem itemsAux_lenient_utf8 : ∀ (fuel : Nat) (s : List Nat), validUtf8 s = true →
    ItemsUtf8 (itemsAux true fuel s) := by
  intro fuel
  induction fuel with
  | zero => intro s _ lit hm; simp [itemsAux] at hm
  | succ f ih =>
    intro s hv
    rw [itemsAux]
    cases hp : parse_next_item true s with
    | none => intro lit hm; simp at hm
    | some r =>
      obtain ⟨rem, it, q⟩ := r
      obtain ⟨h1, h2, h3⟩ := parse_next_item_lenient_good s hv _ hp
      dsimp only at h1 h2 h3 ⊢
      apply itemsUtf8_of_all
      rw [List.all_cons, List.all_append, h2, h3, all_of_itemsUtf8 _ (ih rem (bs_valid_rest hv h1))]
      rfl

/-- **the literals of `StrftimeItems::new_lenient(fmt)` are `&str`s** -/
theorem lenient_items_utf8 (s : List Nat) (hv : validUtf8 s = true) : ItemsUtf8 (itemsLenient s) :=
  itemsAux_lenient_utf8 _ s hv

/-- one call, either mode: the new remainder is well formed -/
theorem parse_next_item_rest_valid (l : Bool) (s : List Nat) (hv : validUtf8 s = true)
    (r : List Nat × Item × List Item) (h : parse_next_item l s = some r) : validUtf8 r.1 = true := by
  cases l with
  | true => exact bs_valid_rest hv (parse_next_item_lenient_good s hv r h).1
  | false => exact bs_valid_rest hv (parse_next_item_good s hv r h).1

/-- **(a) for the whole iterator**: no `parse_next_item` call made while draining
`StrftimeItems::new_lenient(fmt)` / `StrftimeItems::new(fmt)` panics inside `error` -/
theorem itemsAuxR_ok (l : Bool) : ∀ (fuel : Nat) (s : List Nat), validUtf8 s = true →
    itemsAuxR l fuel s = .ok (itemsAux l fuel s) := by
  intro fuel
  induction fuel with
  | zero => intro s _; rfl
  | succ f ih =>
    intro s hv
    rw [itemsAuxR, itemsAux, parse_next_itemR_ok l s hv]
    cases hp : parse_next_item l s with
    | none => rfl
    | some r =>
      obtain ⟨rem, it, q⟩ := r
      dsimp only
      rw [ih rem (parse_next_item_rest_valid l s hv _ hp)]

theorem itemsLenientR_ok (s : List Nat) (hv : validUtf8 s = true) : itemsLenientR s = .ok (itemsLenient s) :=
  itemsAuxR_ok true _ s hv

theorem itemsR_ok (s : List Nat) (hv : validUtf8 s = true) : itemsR s = .ok (items s) :=
  itemsAuxR_ok false _ s hv

/-! ### non-vacuity -/

/-- the checks of `errorR` do fail: underflow of `-=`, an index beyond the end, an index inside `é` -/
example : errorR true [37, 195, 169] 2 (some 3) = .panic ∧ errorR true [37, 195, 169] 4 none = .panic ∧
    errorR true [37, 195, 169] 2 none = .panic ∧ errorR true [37, 195, 169] 3 (some 2) = .ok ([195, 169], .literal [37], 1) := by
  decide

/-- the hypothesis `validUtf8 s` is needed: on `%:` followed by a stray continuation byte the lenient
`error` slices inside a character -/
example : validUtf8 [37, 58, 169] = false ∧ parse_next_itemR true [37, 58, 169] = .panic := by decide

/-- "%é", "%-é", "%:é", "%.3é", "%#é", "%", "%-:z" (all well formed): lenient mode cuts a literal out
of the bad specifier, at the position before the offending character; the results are those of the
unchecked model -/
example :
    parse_next_itemR true [37, 195, 169] = .ok (some ([195, 169], .literal [37], [])) ∧
    parse_next_itemR true [37, 45, 195, 169] = .ok (some ([195, 169], .literal [37, 45], [])) ∧
    parse_next_itemR true [37, 58, 195, 169] = .ok (some ([195, 169], .literal [37, 58], [])) ∧
    parse_next_itemR true [37, 46, 51, 195, 169] = .ok (some ([195, 169], .literal [37, 46, 51], [])) ∧
    parse_next_itemR true [37, 35, 195, 169] = .ok (some ([195, 169], .literal [37, 35], [])) ∧
    parse_next_itemR true [37] = .ok (some ([], .literal [37], [])) ∧
    parse_next_itemR true [37, 45, 58, 122] = .ok (some ([122], .literal [37, 45, 58], [])) :=
  ⟨by decide, by decide, by decide, by decide, by decide, by decide, by decide⟩

example : validUtf8 [37, 46, 51, 195, 169, 37, 45, 195, 169, 37] = true ∧
    itemsLenientR [37, 46, 51, 195, 169, 37, 45, 195, 169, 37] =
      .ok [.literal [37, 46, 51], .literal [195, 169], .literal [37, 45], .literal [195, 169], .literal [37]] ∧
    itemsLenient [37, 46, 51, 195, 169, 37, 45, 195, 169, 37] =
      [.literal [37, 46, 51], .literal [195, 169], .literal [37, 45], .literal [195, 169], .literal [37]] :=
  ⟨by decide, by decide, by decide⟩

end Chrono.Proofs.StrftimeLenient
