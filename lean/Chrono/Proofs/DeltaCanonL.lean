/- Helper lemmas for C06: the Display text has the canonical shape of Spec/DeltaCanonSpec.lean. -/
import Chrono.Proofs.DeltaDisplayL
import Chrono.Spec.DeltaCanonSpec

namespace Chrono.Proofs.DeltaCanon
open Chrono Chrono.M Chrono.Spec Chrono.Proofs Chrono.Extracted

theorem digitChar_ne_48 (d : Nat) (h : d % 10 ≠ 0) : Delta.digitChar d ≠ 48 := by
  simp only [Delta.digitChar]; omega

/-- shape of what the digit printer produces -/
theorem natDigitsAux_canon : ∀ (fuel n : Nat), n < fuel → ∃ ds : List Nat,
    (∀ acc, Delta.natDigitsAux fuel n acc = ds ++ acc) ∧ ds ≠ [] ∧
    (∀ c ∈ ds, isDigit c = true) ∧ (n ≠ 0 → ds.head? ≠ some 48) ∧ (n = 0 → ds = [48]) ∧
    ds.getLast? = some (Delta.digitChar n) := by
  intro fuel
  induction fuel with
  | zero => intro n h; omega
  | succ f ih =>
    intro n hn
    by_cases h10 : n < 10
    · refine ⟨[Delta.digitChar n], ?_, by simp, ?_, ?_, ?_, by simp⟩
      · intro acc; simp only [Delta.natDigitsAux, h10, if_true, List.singleton_append]
      · intro c hc
        rw [List.mem_singleton] at hc
        subst hc; exact isDigit_digitChar n
      · intro h0
        simp only [List.head?_cons]
        intro hh
        exact digitChar_ne_48 n (by omega) (Option.some.inj hh)
      · intro h0; subst h0; rfl
    · obtain ⟨ds, h1, h2, h3, h4, _, _⟩ := ih (n / 10) (by omega)
      refine ⟨ds ++ [Delta.digitChar (n % 10)], ?_, by simp, ?_, ?_, ?_, ?_⟩
      · intro acc
        simp only [Delta.natDigitsAux, h10, if_false, h1, List.append_assoc, List.singleton_append]
      · intro c hc
        rw [List.mem_append, List.mem_singleton] at hc
        rcases hc with hc | hc
        · exact h3 c hc
        · subst hc; exact isDigit_digitChar _
      · intro _
        have : (ds ++ [Delta.digitChar (n % 10)]).head? = ds.head? := by
          cases ds with
          | nil => exact absurd rfl h2
          | cons x xs => rfl
        rw [this]; exact h4 (by omega)
      · intro h0; omega
      · rw [List.getLast?_append, List.getLast?_singleton]
        simp only [Option.some_or, Delta.digitChar]
        congr 2; omega

theorem natDigits_canon (n : Nat) :
    Delta.natDigits n ≠ [] ∧ (∀ c ∈ Delta.natDigits n, isDigit c = true) ∧
    (n ≠ 0 → (Delta.natDigits n).head? ≠ some 48) ∧ (n = 0 → Delta.natDigits n = [48]) ∧
    (Delta.natDigits n).getLast? = some (Delta.digitChar n) := by
  obtain ⟨ds, h1, h2⟩ := natDigitsAux_canon (n + 1) n (by omega)
  have : Delta.natDigits n = ds := by rw [Delta.natDigits, h1, List.append_nil]
  rw [this]; exact h2

theorem canonInt_natDigits (n : Nat) : canonInt (Delta.natDigits n) := by
  obtain ⟨h1, h2, h3, h4, _⟩ := natDigits_canon n
  refine ⟨h1, h2, fun hh => ?_⟩
  by_cases h0 : n = 0
  · exact h4 h0
  · exact absurd hh (h3 h0)

/-- the padded fraction: exactly `w` digits, the last one that of `n` -/
theorem padDigits_canon (n w : Nat) (hw : 1 ≤ w) (hn : n < 10 ^ w) :
    (Delta.padDigits n w).length = w ∧ (∀ c ∈ Delta.padDigits n w, isDigit c = true) ∧
    (Delta.padDigits n w).getLast? = some (Delta.digitChar n) := by
  obtain ⟨hl1, hl2⟩ := natDigits_len n
  have hl := hl2 w hw hn
  obtain ⟨c1, c2, _, _, c5⟩ := natDigits_canon n
  unfold Delta.padDigits
  refine ⟨?_, ?_, ?_⟩
  · simp only [List.length_append, List.length_replicate]; omega
  · intro c hc
    rw [List.mem_append] at hc
    rcases hc with hc | hc
    · rw [(List.mem_replicate.mp hc).2]; decide
    · exact c2 c hc
  · rw [List.getLast?_append, c5]; rfl

theorem bodyText_canon (ab : Delta) (h0 : 0 ≤ ab.secs) (h1 : 0 ≤ ab.nanos) (h2 : ab.nanos < 1000000000)
    (hnz : ¬ (ab.secs = 0 ∧ ab.nanos = 0)) :
    ∃ ip fr, bodyText ab = 84 :: (ip ++ fr ++ [83]) ∧ canonInt ip ∧ canonFrac fr ∧
      ¬ (ip = [48] ∧ fr = []) := by
  obtain ⟨S, N⟩ := ab
  dsimp only at h0 h1 h2 hnz
  unfold bodyText
  dsimp only
  rw [ite_neg' _ _ hnz]
  by_cases hN : N > 0
  · rw [ite_pos' _ _ hN]
    obtain ⟨t1, t2, t3, t4, t5⟩ := trimFraction_spec 9 N.toNat (by omega) (by omega)
    generalize Delta.trimFraction 9 N.toNat 9 = p at *
    obtain ⟨fd, figs⟩ := p
    dsimp only at *
    obtain ⟨p1, p2, p3⟩ := padDigits_canon fd figs t2 t4
    refine ⟨Delta.natDigits S.toNat, 46 :: Delta.padDigits fd figs, ?_, canonInt_natDigits _, ?_, ?_⟩
    · simp only [List.append_assoc, List.cons_append]
    · refine Or.inr ⟨_, rfl, by omega, by omega, p2, ?_⟩
      rw [p3]
      intro hh
      exact digitChar_ne_48 fd t5 (Option.some.inj hh)
    · intro hh; cases hh.2
  · rw [ite_neg' _ _ hN]
    refine ⟨Delta.natDigits S.toNat, [], by simp, canonInt_natDigits _, Or.inl rfl, ?_⟩
    intro hh
    have hS : S.toNat ≠ 0 := by omega
    have := (natDigits_canon S.toNat).2.2.1 hS
    rw [hh.1] at this
    exact this rfl

theorem display_canonical' (a : Delta) (ha : DInv a) :
    ∃ t, Delta.display a = .ok t ∧
      (ns a = 0 → t = [80, 48, 68]) ∧ (ns a ≠ 0 → canonText (decide (ns a < 0)) t) := by
  have hn0 := ha.1
  have hn1 := ha.2.1
  by_cases h : a.secs < 0
  · have hneg : ns a < 0 := by simp only [ns]; omega
    refine ⟨_, display_neg a ha h, fun hz => by omega, fun _ => ?_⟩
    have hr : nsInRange (-(ns a)) := by
      have := ha.2.2; simp only [nsInRange] at this ⊢; omega
    obtain ⟨hi, hv⟩ := ofNs_spec' _ hr
    have hs : 0 ≤ (ofNs (-(ns a))).secs := by simp only [ofNs]; omega
    have hnz : ¬ ((ofNs (-(ns a))).secs = 0 ∧ (ofNs (-(ns a))).nanos = 0) := by
      intro hh
      have hv' : (ofNs (-(ns a))).secs * 1000000000 + (ofNs (-(ns a))).nanos = -(ns a) := hv
      rw [hh.1, hh.2] at hv'
      omega
    obtain ⟨ip, fr, e, c1, c2, c3⟩ := bodyText_canon _ hs hi.1 hi.2.1 hnz
    refine ⟨ip, fr, ?_, c1, c2, c3⟩
    rw [e, decide_eq_true hneg]
    simp
  · have hpos : 0 ≤ ns a := by simp only [ns]; omega
    refine ⟨_, display_nonneg a h, fun hz => ?_, fun hnz => ?_⟩
    · have h1 : a.secs = 0 ∧ a.nanos = 0 := by simp only [ns] at hz; omega
      unfold bodyText
      rw [ite_pos' _ _ h1]
    · have hnz' : ¬ (a.secs = 0 ∧ a.nanos = 0) := by
        intro hh; apply hnz; simp only [ns]; rw [hh.1, hh.2]; rfl
      obtain ⟨ip, fr, e, c1, c2, c3⟩ := bodyText_canon a (by omega) hn0 hn1 hnz'
      refine ⟨ip, fr, ?_, c1, c2, c3⟩
      rw [e, decide_eq_false (by omega)]
      simp

theorem canonText_head (neg : Bool) (t : List Nat) (h : canonText neg t) :
    t ≠ [80, 48, 68] ∧ (t.head? = some 45 ↔ neg = true) := by
  obtain ⟨ip, fr, e, _⟩ := h
  subst e
  cases neg <;> simp

end Chrono.Proofs.DeltaCanon
