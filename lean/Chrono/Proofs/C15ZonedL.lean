/-
  C15: the zone-aware (`DateTime<FixedOffset>` / `DateTime<Utc>`) field replacements, `with_time` and
  the checked day / month steppers return normally for every well-formed value and every argument, and
  whatever they return is well formed (collected from C04 / C08).  Namespace `Chrono.Proofs.C15Zoned`.
-/
import Chrono.Props.C04
import Chrono.Props.C08

namespace Chrono.Proofs.C15Zoned
open Chrono Chrono.M Chrono.Spec Chrono.Proofs

/-- what a zone-aware operation on `z` may return: nothing, or a well-formed value at `z`'s offset that
passes the filter `ok` (on its instant in seconds and its nanosecond field) -/
def ZRes (ok : Int → Int → Prop) (z : Zoned) (r : Option Zoned) : Prop :=
  ∀ x, r = some x → ZInv x ∧ x.off = z.off ∧ ok (instSecs x.utc) x.utc.time.frac

theorem zres_of_acts (ok : Int → Int → Prop) (z : Zoned) (r0 : Option NaiveDT) (r : Option Zoned)
    (h : ActsOnWallWith ok z r0 r) : ZRes ok z r := by
  intro x hx
  obtain ⟨nl, _, ho, hi, _, _, _, hk⟩ := h.1 x hx
  exact ⟨hi, ho, hk⟩

/-- the eleven field replacements and the month steppers -/
theorem replace_total (z : Zoned) (hz : ZInv z) (v k : Nat) (y' w : Int) (hw : 0 ≤ w) :
    (∃ r, Zoned.with_year z y' = .ok r ∧ ZRes InUtcRange z r) ∧
    (∃ r, Zoned.with_month z v = .ok r ∧ ZRes InUtcRange z r) ∧
    (∃ r, Zoned.with_month0 z v = .ok r ∧ ZRes InUtcRange z r) ∧
    (∃ r, Zoned.with_day z v = .ok r ∧ ZRes InUtcRange z r) ∧
    (∃ r, Zoned.with_day0 z v = .ok r ∧ ZRes InUtcRange z r) ∧
    (∃ r, Zoned.with_ordinal z v = .ok r ∧ ZRes InUtcRange z r) ∧
    (∃ r, Zoned.with_ordinal0 z v = .ok r ∧ ZRes InUtcRange z r) ∧
    (∃ r, Zoned.with_hour z w = .ok r ∧ ZRes InUtcRange z r) ∧
    (∃ r, Zoned.with_minute z w = .ok r ∧ ZRes InUtcRange z r) ∧
    (∃ r, Zoned.with_second z w = .ok r ∧ ZRes InUtcRange z r) ∧
    (∃ r, Zoned.with_nanosecond z w = .ok r ∧ ZRes InUtcRange z r) ∧
    (∃ r, Zoned.checked_add_months z k = .ok r ∧ ZRes (fun s _ => InRangeSecs s) z r) ∧
    (∃ r, Zoned.checked_sub_months z k = .ok r ∧ ZRes (fun s _ => InRangeSecs s) z r) := by
  obtain ⟨l, _, _, _, _, _, ⟨_, r1, _, a1, b1⟩, ⟨_, r2, _, a2, b2⟩, ⟨_, r3, _, a3, b3⟩, ⟨_, r4, _, a4, b4⟩,
    ⟨_, r5, _, a5, b5⟩, ⟨_, r6, _, a6, b6⟩, ⟨_, r7, _, a7, b7⟩, ⟨_, r8, _, a8, b8⟩, ⟨_, r9, _, a9, b9⟩,
    ⟨_, r10, _, a10, b10⟩, ⟨_, r11, _, a11, b11⟩, ⟨_, r12, _, a12, b12⟩, ⟨_, r13, _, a13, b13⟩⟩ :=
    Chrono.Props.C08.zoned_ops_spec z hz v k y' w hw
  exact ⟨⟨r1, a1, zres_of_acts _ _ _ _ b1⟩, ⟨r2, a2, zres_of_acts _ _ _ _ b2⟩, ⟨r3, a3, zres_of_acts _ _ _ _ b3⟩,
    ⟨r4, a4, zres_of_acts _ _ _ _ b4⟩, ⟨r5, a5, zres_of_acts _ _ _ _ b5⟩, ⟨r6, a6, zres_of_acts _ _ _ _ b6⟩,
    ⟨r7, a7, zres_of_acts _ _ _ _ b7⟩, ⟨r10, a10, zres_of_acts _ _ _ _ b10⟩, ⟨r11, a11, zres_of_acts _ _ _ _ b11⟩,
    ⟨r12, a12, zres_of_acts _ _ _ _ b12⟩, ⟨r13, a13, zres_of_acts _ _ _ _ b13⟩,
    ⟨r8, a8, zres_of_acts _ _ _ _ b8⟩, ⟨r9, a9, zres_of_acts _ _ _ _ b9⟩⟩

/-- `with_time` on every valid time of day (leap representations included) -/
theorem with_time_total (z : Zoned) (hz : ZInv z) (t : Time) (ht : TValid t) :
    ∃ r, Zoned.with_time z t = .ok r ∧ ZRes InUtcRange z r := by
  obtain ⟨l, _, _, _, r, hr, hv, _⟩ := Chrono.Props.C04.with_time_spec z hz t ht
  refine ⟨r, hr, fun x hx => ?_⟩
  obtain ⟨a, b, _, _, _, c⟩ := hv x hx
  exact ⟨b, a, c⟩

/-- `checked_add_days` / `checked_sub_days` on every `u64` count: a result passes the one-sided filter
the code applies (`≤ MAX_UTC` resp. `≥ MIN_UTC`; `Days(0)` added returns the value itself, unfiltered) -/
theorem days_total (z : Zoned) (hz : ZInv z) (n : Int) (hn : 0 ≤ n ∧ n ≤ 18446744073709551615) :
    (∃ r, Zoned.checked_add_days z n = .ok r ∧ ZRes (fun s f => n = 0 ∨ LeMaxUtc s f) z r) ∧
    (∃ r, Zoned.checked_sub_days z n = .ok r ∧ ZRes (fun s _ => GeMinUtc s) z r) := by
  obtain ⟨l, _, _, _, h0, hadd, hsub, _⟩ := Chrono.Props.C04.stepping_spec z hz
  constructor
  · by_cases hz0 : n = 0
    · subst hz0
      exact ⟨_, h0, fun x hx => by injection hx with hx; subst hx; exact ⟨hz, rfl, Or.inl rfl⟩⟩
    · obtain ⟨r, hr, hnone, hv⟩ := hadd n (by omega) hn.2
      refine ⟨r, hr, fun x hx => ?_⟩
      obtain ⟨a, b, c, d, _⟩ := hv x hx
      refine ⟨b, a, Or.inr ?_⟩
      have : ¬ r = none := by rw [hx]; exact fun h => nomatch h
      rw [hnone, Classical.not_not] at this
      rw [c, d]; exact this.2
  · obtain ⟨r, hr, hnone, hv⟩ := hsub n hn.1 hn.2
    refine ⟨r, hr, fun x hx => ?_⟩
    obtain ⟨a, b, c, _⟩ := hv x hx
    refine ⟨b, a, ?_⟩
    have : ¬ r = none := by rw [hx]; exact fun h => nomatch h
    rw [hnone, Classical.not_not] at this
    show GeMinUtc (instSecs x.utc)
    rw [c]
    have e : instSecs z.utc + -n * 86400 = instSecs z.utc - n * 86400 := by omega
    rw [e]; exact this.2

end Chrono.Proofs.C15Zoned
