/-
  C12, whole format strings (audit gaps MEDIUM-2 and MEDIUM-4): the tokenizer on a string that starts
  with a complete documented specifier; unknown / malformed specifiers.
-/
import Chrono.Proofs.StrftimeL
import Chrono.Proofs.FormatL
import Chrono.Spec.StrftimeDocSpec
namespace Chrono.Proofs.StrftimeAppend
open Chrono Chrono.M Chrono.M.Format Chrono.M.Strftime Chrono.Spec Chrono.Spec.Strftime Chrono.Spec.StrftimeDoc

/-- `specTexts`, evaluated -/
def specTextsLit : List (List Nat) :=
  [[37, 89], [37, 67], [37, 121], [37, 113], [37, 109], [37, 98], [37, 66], [37, 104], [37, 100], [37, 101], [37, 97], [37, 65], [37, 119], [37, 117], [37, 85], [37, 87], [37, 71], [37, 103], [37, 86], [37, 106], [37, 68], [37, 120], [37, 70], [37, 118], [37, 72], [37, 107], [37, 73], [37, 108], [37, 80], [37, 112], [37, 77], [37, 83], [37, 102], [37, 46, 102], [37, 46, 51, 102], [37, 46, 54, 102], [37, 46, 57, 102], [37, 51, 102], [37, 54, 102], [37, 57, 102], [37, 82], [37, 84], [37, 88], [37, 114], [37, 90], [37, 122], [37, 58, 122], [37, 58, 58, 122], [37, 58, 58, 58, 122], [37, 35, 122], [37, 99], [37, 43], [37, 115], [37, 116], [37, 110], [37, 37], [37, 45, 89], [37, 95, 89], [37, 48, 89], [37, 45, 67], [37, 95, 67], [37, 48, 67], [37, 45, 121], [37, 95, 121], [37, 48, 121], [37, 45, 113], [37, 95, 113], [37, 48, 113], [37, 45, 109], [37, 95, 109], [37, 48, 109], [37, 45, 100], [37, 95, 100], [37, 48, 100], [37, 45, 101], [37, 95, 101], [37, 48, 101], [37, 45, 119], [37, 95, 119], [37, 48, 119], [37, 45, 117], [37, 95, 117], [37, 48, 117], [37, 45, 85], [37, 95, 85], [37, 48, 85], [37, 45, 87], [37, 95, 87], [37, 48, 87], [37, 45, 71], [37, 95, 71], [37, 48, 71], [37, 45, 103], [37, 95, 103], [37, 48, 103], [37, 45, 86], [37, 95, 86], [37, 48, 86], [37, 45, 106], [37, 95, 106], [37, 48, 106], [37, 45, 72], [37, 95, 72], [37, 48, 72], [37, 45, 107], [37, 95, 107], [37, 48, 107], [37, 45, 73], [37, 95, 73], [37, 48, 73], [37, 45, 108], [37, 95, 108], [37, 48, 108], [37, 45, 77], [37, 95, 77], [37, 48, 77], [37, 45, 83], [37, 95, 83], [37, 48, 83], [37, 45, 102], [37, 95, 102], [37, 48, 102], [37, 45, 115], [37, 95, 115], [37, 48, 115]]

theorem specTexts_eq : specTexts = specTextsLit := by decide +kernel

/-- one tokenizer step on a string that starts with a complete specifier: exactly the specifier is
consumed; item and queue do not depend on what follows -/
theorem step (b : List Nat) : ∀ a ∈ specTextsLit,
    parse_next_item false (a ++ b) = (parse_next_item false a).map (fun r => (b, r.2)) ∧
    (parse_next_item false a).map (·.1) = some [] := by
  intro a ha
  simp only [specTextsLit, List.mem_cons, List.mem_nil_iff, or_false] at ha
  rcases ha with rfl | rfl | rfl | rfl | rfl | rfl | rfl | rfl | rfl | rfl | rfl | rfl | rfl | rfl | rfl | rfl | rfl | rfl | rfl | rfl | rfl | rfl | rfl | rfl | rfl | rfl | rfl | rfl | rfl | rfl | rfl | rfl | rfl | rfl | rfl | rfl | rfl | rfl | rfl | rfl | rfl | rfl | rfl | rfl | rfl | rfl | rfl | rfl | rfl | rfl | rfl | rfl | rfl | rfl | rfl | rfl | rfl | rfl | rfl | rfl | rfl | rfl | rfl | rfl | rfl | rfl | rfl | rfl | rfl | rfl | rfl | rfl | rfl | rfl | rfl | rfl | rfl | rfl | rfl | rfl | rfl | rfl | rfl | rfl | rfl | rfl | rfl | rfl | rfl | rfl | rfl | rfl | rfl | rfl | rfl | rfl | rfl | rfl | rfl | rfl | rfl | rfl | rfl | rfl | rfl | rfl | rfl | rfl | rfl | rfl | rfl | rfl | rfl | rfl | rfl | rfl | rfl | rfl | rfl | rfl | rfl | rfl | rfl | rfl | rfl
  all_goals exact ⟨rfl, rfl⟩

theorem itemsAux_nil (l : Bool) (f : Nat) : itemsAux l f [] = [] := by
  cases f <;> rfl

/-- **the items of `specifier ++ rest` are the items of the specifier followed by the items of the rest** -/
theorem items_append (a b : List Nat) (ha : a ∈ specTexts) : items (a ++ b) = items a ++ items b := by
  rw [specTexts_eq] at ha
  obtain ⟨h1, h2⟩ := step b a ha
  have hlen : 1 ≤ a.length := by
    cases a with
    | nil => simp [parse_next_item] at h2
    | cons x r => simp
  unfold items
  rw [List.length_append, show a.length + b.length + 1 = (a.length + b.length) + 1 from rfl, itemsAux, h1]
  rw [show a.length + 1 = a.length + 1 from rfl, itemsAux]
  cases hp : parse_next_item false a with
  | none => rw [hp] at h2; cases h2
  | some r =>
    obtain ⟨rem, it, q⟩ := r
    rw [hp] at h2
    simp only [Option.map_some, Option.some.injEq] at h2
    subst h2
    simp only [Option.map_some, itemsAux_nil, List.append_nil, List.cons_append, List.append_assoc]
    rw [StrftimeL.itemsAux_fuel false (a.length + b.length) (b.length + 1) b (by omega) (by omega)]

end Chrono.Proofs.StrftimeAppend
