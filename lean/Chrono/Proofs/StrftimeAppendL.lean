/-
  C12, whole format strings (audit gaps MEDIUM-2 and MEDIUM-4): the tokenizer on a string that starts
  with a complete documented specifier; unknown / malformed specifiers.
-/
import Chrono.Proofs.StrftimeL
import Chrono.Proofs.FormatL
import Chrono.Spec.StrftimeDocSpec
namespace Chrono.Proofs.StrftimeAppend
open Chrono Chrono.M Chrono.M.Format Chrono.M.Strftime Chrono.Spec Chrono.Spec.Strftime Chrono.Spec.StrftimeDoc

/-- `specTexts`, evaluated -/
def specTextsLit : List (List Nat) :=
  [[37, 89], [37, 67], [37, 121], [37, 113], [37, 109], [37, 98], [37, 66], [37, 104], [37, 100], [37, 101], [37, 97], [37, 65], [37, 119], [37, 117], [37, 85], [37, 87], [37, 71], [37, 103], [37, 86], [37, 106], [37, 68], [37, 120], [37, 70], [37, 118], [37, 72], [37, 107], [37, 73], [37, 108], [37, 80], [37, 112], [37, 77], [37, 83], [37, 102], [37, 46, 102], [37, 46, 51, 102], [37, 46, 54, 102], [37, 46, 57, 102], [37, 51, 102], [37, 54, 102], [37, 57, 102], [37, 82], [37, 84], [37, 88], [37, 114], [37, 90], [37, 122], [37, 58, 122], [37, 58, 58, 122], [37, 58, 58, 58, 122], [37, 35, 122], [37, 99], [37, 43], [37, 115], [37, 116], [37, 110], [37, 37], [37, 45, 89], [37, 95, 89], [37, 48, 89], [37, 45, 67], [37, 95, 67], [37, 48, 67], [37, 45, 121], [37, 95, 121], [37, 48, 121], [37, 45, 113], [37, 95, 113], [37, 48, 113], [37, 45, 109], [37, 95, 109], [37, 48, 109], [37, 45, 100], [37, 95, 100], [37, 48, 100], [37, 45, 101], [37, 95, 101], [37, 48, 101], [37, 45, 119], [37, 95, 119], [37, 48, 119], [37, 45, 117], [37, 95, 117], [37, 48, 117], [37, 45, 85], [37, 95, 85], [37, 48, 85], [37, 45, 87], [37, 95, 87], [37, 48, 87], [37, 45, 71], [37, 95, 71], [37, 48, 71], [37, 45, 103], [37, 95, 103], [37, 48, 103], [37, 45, 86], [37, 95, 86], [37, 48, 86], [37, 45, 106], [37, 95, 106], [37, 48, 106], [37, 45, 72], [37, 95, 72], [37, 48, 72], [37, 45, 107], [37, 95, 107], [37, 48, 107], [37, 45, 73], [37, 95, 73], [37, 48, 73], [37, 45, 108], [37, 95, 108], [37, 48, 108], [37, 45, 77], [37, 95, 77], [37, 48, 77], [37, 45, 83], [37, 95, 83], [37, 48, 83], [37, 45, 102], [37, 95, 102], [37, 48, 102], [37, 45, 115], [37, 95, 115], [37, 48, 115]]

theorem specTexts_eq : specTexts = specTextsLit := by decide +kernel

/-- one tokenizer step on a string that starts with a complete specifier: exactly the specifier is
consumed; item and queue do not depend on what follows -/
theorem step (b : List Nat) : ∀ a ∈ specTextsLit,
    parse_next_item false (a ++ b) = (parse_next_item false a).map (fun r => (b, r.2)) ∧
    (parse_next_item false a).map (·.1) = some [] := by
  intro a ha
  simp only [specTextsLit, List.mem_cons, List.mem_nil_iff, or_false] at ha
  rcases ha with rfl | rfl | rfl | rfl | rfl | rfl | rfl | rfl | rfl | rfl | rfl | rfl | rfl | rfl | rfl | rfl | rfl | rfl | rfl | rfl | rfl | rfl | rfl | rfl | rfl | rfl | rfl | rfl | rfl | rfl | rfl | rfl | rfl | rfl | rfl | rfl | rfl | rfl | rfl | rfl | rfl | rfl | rfl | rfl | rfl | rfl | rfl | rfl | rfl | rfl | rfl | rfl | rfl | rfl | rfl | rfl | rfl | rfl | rfl | rfl | rfl | rfl | rfl | rfl | rfl | rfl | rfl | rfl | rfl | rfl | rfl | rfl | rfl | rfl | rfl | rfl | rfl | rfl | rfl | rfl | rfl | rfl | rfl | rfl | rfl | rfl | rfl | rfl | rfl | rfl | rfl | rfl | rfl | rfl | rfl | rfl | rfl | rfl | rfl | rfl | rfl | rfl | rfl | rfl | rfl | rfl | rfl | rfl | rfl | rfl | rfl | rfl | rfl | rfl | rfl | rfl | rfl | rfl | rfl | rfl | rfl | rfl | rfl | rfl | rfl
  all_goals exact ⟨rfl, rfl⟩

theorem itemsAux_nil (l : Bool) (f : Nat) : itemsAux l f [] = [] := by
  cases f <;> rfl

/-- **the items of `specifier ++ rest` are the items of the specifier followed by the items of the rest** -/
theorem items_append (a b : List Nat) (ha : a ∈ specTexts) : items (a ++ b) = items a ++ items b := by
  rw [specTexts_eq] at ha
  obtain ⟨h1, h2⟩ := step b a ha
  have hlen : 1 ≤ a.length := by
    cases a with
    | nil => simp [parse_next_item] at h2
    | cons x r => simp
  unfold items
  rw [List.length_append, show a.length + b.length + 1 = (a.length + b.length) + 1 from rfl, itemsAux, h1]
  rw [show a.length + 1 = a.length + 1 from rfl, itemsAux]
  cases hp : parse_next_item false a with
  | none => rw [hp] at h2; cases h2
  | some r =>
    obtain ⟨rem, it, q⟩ := r
    rw [hp] at h2
    simp only [Option.map_some, Option.some.injEq] at h2
    subst h2
    simp only [Option.map_some, itemsAux_nil, List.append_nil, List.cons_append, List.append_assoc]
    rw [StrftimeL.itemsAux_fuel false (a.length + b.length) (b.length + 1) b (by omega) (by omega)]

/-! ### whole format strings -/

/-- a format string that is a sequence of complete documented specifiers, followed by anything -/
theorem items_flatten (chunks : List (List Nat)) (hc : ∀ a ∈ chunks, a ∈ specTexts) (b : List Nat) :
    items (chunks.flatten ++ b) = (chunks.map items).flatten ++ items b := by
  induction chunks with
  | nil => rfl
  | cons a rest ih =>
    rw [List.flatten_cons, List.append_assoc, items_append a _ (hc a (by simp)),
      ih (fun x hx => hc x (List.mem_cons_of_mem _ hx))]
    simp only [List.map_cons, List.flatten_cons, List.append_assoc]

/-! ### unknown and malformed specifiers (strict mode) -/

theorem specTable_none_of_gt (c : Nat) (h : 122 ≤ c) : specTable c = none := by
  unfold specTable
  split <;> first | rfl | omega

/-- the byte after `%` is not a modifier, not one of `z : . 3 6 9`, and has no arm (every non-ASCII
lead byte, every undocumented letter): the whole rest of the string is one `Item::Error` -/
theorem unknown_letter (c : Nat) (rest : List Nat) (hs : specTable c = none)
    (hc : c ∉ [45, 48, 95, 35, 122, 58, 46, 51, 54, 57]) : items (37 :: c :: rest) = [Item.error] := by
  simp only [List.mem_cons, List.mem_nil_iff, or_false, not_or] at hc
  obtain ⟨h1, h2, h3, h4, h5, h6, h7, h8, h9, h10⟩ := hc
  have hp : parse_next_item false (37 :: c :: rest) = some ([], Item.error, []) := by
    simp only [parse_next_item, nextCh, padOf, h1, h2, h3, if_false, Option.isSome_none, Bool.false_or,
      show (c == 35) = false from by simpa using h4, Bool.false_eq_true, Bool.false_and, specArm, h5, h6, h7, h8, h9, h10,
      hs, error, Bool.not_false, if_true]
  unfold items
  rw [List.length_cons, itemsAux, hp]
  simp only [itemsAux_nil, List.nil_append]

/-- a padding modifier in front of a byte without an arm -/
theorem unknown_after_modifier (m c : Nat) (rest : List Nat) (hm : m ∈ [45, 48, 95]) (hs : specTable c = none)
    (hc : c ∉ [122, 58, 46, 51, 54, 57]) : items (37 :: m :: c :: rest) = [Item.error] := by
  simp only [List.mem_cons, List.mem_nil_iff, or_false, not_or] at hc
  obtain ⟨h5, h6, h7, h8, h9, h10⟩ := hc
  have hm' : (padOf m).isSome = true ∧ (m == 35) = false ∧ Scan.charLen m = 1 := by
    simp only [List.mem_cons, List.mem_nil_iff, or_false] at hm
    rcases hm with rfl | rfl | rfl <;> decide
  obtain ⟨hm1, hm2, hm3⟩ := hm'
  have hp : parse_next_item false (37 :: m :: c :: rest) = some ([], Item.error, []) := by
    simp only [parse_next_item, nextCh, hm1, hm2, hm3, Bool.true_or, if_true, Nat.sub_self, List.drop_zero,
      Bool.false_eq_true, if_false, Bool.false_and, specArm, h5, h6, h7, h8, h9, h10, hs, error, Bool.not_false]
    split <;> rfl
  unfold items
  rw [List.length_cons, itemsAux, hp]
  simp only [itemsAux_nil, List.nil_append]

/-- the finite part: truncated specifiers, and every one- and two-byte continuation of `%`, of
`%` + modifier, of `%.`, `%.3`, `%3` … is `Item::Error` unless the bytes are a documented specifier -/
theorem unknown_fin :
    (∀ a ∈ [[37], [37, 45], [37, 48], [37, 95], [37, 35], [37, 46], [37, 51], [37, 54], [37, 57], [37, 46, 51],
            [37, 46, 54], [37, 46, 57], [37, 58], [37, 58, 58], [37, 58, 58, 58], [37, 45, 46], [37, 35, 58],
            [37, 45, 51], [37, 45, 58]],
      (items a).head? = some Item.error) ∧
    (∀ c < 256, items [37, c] = [Item.error] ∨ [37, c] ∈ specTextsLit) ∧
    (∀ m ∈ [45, 48, 95, 35], ∀ c < 256, (items [37, m, c]).head? = some Item.error ∨ [37, m, c] ∈ specTextsLit) ∧
    (∀ c < 256, (items [37, 46, c]).head? = some Item.error ∨ [37, 46, c] ∈ specTextsLit) ∧
    (∀ d ∈ [51, 54, 57], ∀ c < 256,
      ((items [37, 46, d, c]).head? = some Item.error ∨ [37, 46, d, c] ∈ specTextsLit) ∧
      ((items [37, d, c]).head? = some Item.error ∨ [37, d, c] ∈ specTextsLit)) ∧
    (∀ c < 256, (items [37, 58, c]).head? = some Item.error ∨ [37, 58, c] ∈ specTextsLit) ∧
    (∀ c < 256, (items [37, 58, 58, c]).head? = some Item.error ∨ [37, 58, 58, c] ∈ specTextsLit) ∧
    (∀ c < 256, (items [37, 58, 58, 58, c]).head? = some Item.error ∨ [37, 58, 58, 58, c] ∈ specTextsLit) := by
  refine ⟨by decide +kernel, by decide +kernel, by decide +kernel, by decide +kernel, by decide +kernel,
    by decide +kernel, by decide +kernel, by decide +kernel⟩

end Chrono.Proofs.StrftimeAppend
