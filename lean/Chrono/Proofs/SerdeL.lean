/- Helper lemmas for C20 (serde): the `TimeDelta` tuple form, generic facts about `SR`. -/
import Chrono.Proofs.DeltaL
import Chrono.Spec.SerdeSpec
namespace Chrono.Proofs.Serde
open Chrono Chrono.M Chrono.M.Serde Chrono.Spec Chrono.Spec.Serde Chrono.Proofs

theorem asU32_of_nonneg (n : Int) (h0 : 0 ≤ n) (h1 : n < 4294967296) : asU32 n = n := by
  unfold asU32; omega
theorem asU32_of_neg (n : Int) (h0 : -2147483648 ≤ n) (h1 : n < 0) : asU32 n = n + 4294967296 := by
  unfold asU32; omega

/-- reading an `(i64, i32)` tuple: closed form -/
theorem delta_de_eq (s n : Int) (hn : isI32 n) :
    TimeDelta.deserialize (s, n) =
      if 0 ≤ n ∧ n < 1000000000 ∧ nsInRange (s * 1000000000 + n) then .ok ⟨s, n⟩ else .err := by
  unfold isI32 at hn
  unfold TimeDelta.deserialize
  dsimp only
  by_cases h0 : 0 ≤ n
  · rw [asU32_of_nonneg n h0 (by omega), new_iff' s n h0]
    unfold ns; dsimp only
    by_cases h : n < 1000000000 ∧ nsInRange (s * 1000000000 + n)
    · rw [if_pos h, if_pos ⟨h0, h⟩]; rfl
    · rw [if_neg h, if_neg (by intro hh; exact h hh.2)]; rfl
  · rw [asU32_of_neg n hn.1 (by omega), new_iff' s (n + 4294967296) (by omega)]
    rw [if_neg (by omega), if_neg (by omega)]; rfl

end Chrono.Proofs.Serde
