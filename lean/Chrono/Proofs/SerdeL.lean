/- Helper lemmas for C20 (serde): the `TimeDelta` tuple form; every visitor of the sixteen timestamp modules
reduced to one canonical `from_timestamp` call; what the serializers write. -/
import Chrono.Proofs.DeltaL
import Chrono.Proofs.TimestampL
import Chrono.Spec.SerdeSpec
namespace Chrono.Proofs.Serde
open Chrono Chrono.M Chrono.M.Serde Chrono.Spec Chrono.Spec.Ts Chrono.Spec.Serde Chrono.Proofs Chrono.Proofs.Ts

/-! ## `TimeDelta` -/

theorem asU32_of_neg (n : Int) (h0 : -2147483648 ≤ n) (h1 : n < 0) : asU32 n = n + 4294967296 := by
  unfold asU32; omega

/-- reading an `(i64, i32)` tuple: closed form -/
theorem delta_de_eq (s n : Int) (hn : isI32 n) :
    TimeDelta.deserialize (s, n) =
      if 0 ≤ n ∧ n < 1000000000 ∧ nsInRange (s * 1000000000 + n) then .ok ⟨s, n⟩ else .err := by
  unfold isI32 at hn
  unfold TimeDelta.deserialize
  dsimp only
  by_cases h0 : 0 ≤ n
  · rw [asU32_id h0 (by omega), new_iff' s n h0]
    unfold ns; dsimp only
    by_cases h : n < 1000000000 ∧ nsInRange (s * 1000000000 + n)
    · rw [if_pos h, if_pos ⟨h0, h⟩]; rfl
    · rw [if_neg h, if_neg (by intro hh; exact h hh.2)]; rfl
  · rw [asU32_of_neg n hn.1 (by omega), new_iff' s (n + 4294967296) (by omega)]
    rw [if_neg (by omega), if_neg (by omega)]; rfl

/-! ## the visitors: one canonical form per unit -/

/-- `from_timestamp(v div P, (v mod P) · 10⁹/P)` with the `invalid_ts` error -/
def canon : TsUnit → Int → Res (SR NaiveDT)
  | .secs, v => from_ts_or_invalid v 0
  | .millis, v => from_ts_or_invalid (v / 1000) (v % 1000 * 1000000)
  | .micros, v => from_ts_or_invalid (v / 1000000) (v % 1000000 * 1000)
  | .nanos, v => from_ts_or_invalid (v / 1000000000) (v % 1000000000)

theorem naive_wrap (x : Res (Option NaiveDT)) :
    (x.bind fun r => Res.ok (ok_or (r.map naive_utc))) = (x.bind fun r => Res.ok (ok_or r)) := by
  cases x with
  | panic => rfl
  | ok r => cases r <;> rfl
theorem and_utc_wrap (x : Res (SR NaiveDT)) : (x.bind fun r => Res.ok (r.map and_utc)) = x := by
  cases x with
  | panic => rfl
  | ok r => cases r <;> rfl

theorem i64max : I64_MAX = 9223372036854775807 := rfl

/-! ### signed input -/
theorem de_utc_s_i (v : Int) : deserialize .utc .secs (.i64 v) = canon .secs v := rfl
theorem de_utc_ms_i (v : Int) : deserialize .utc .millis (.i64 v) = canon .millis v := by
  show ((NaiveDT.from_timestamp_millis v).bind fun r => Res.ok (ok_or r)).bind (fun r => Res.ok (r.map and_utc)) = _
  rw [and_utc_wrap, from_millis_eq]; rfl
theorem de_utc_us_i (v : Int) : deserialize .utc .micros (.i64 v) = canon .micros v := by
  show (ckI64 (v % 1000000 * 1000)).bind (fun n => from_ts_or_invalid (v / 1000000) (asU32 n)) = _
  rw [ckI64_ok (by omega) (by omega)]
  show from_ts_or_invalid (v / 1000000) (asU32 (v % 1000000 * 1000)) = _
  rw [asU32_id (by omega) (by omega)]; rfl
theorem de_utc_ns_i (v : Int) : deserialize .utc .nanos (.i64 v) = canon .nanos v := by
  show from_ts_or_invalid (v / 1000000000) (asU32 (v % 1000000000)) = _
  rw [asU32_id (by omega) (by omega)]; rfl
theorem de_naive_s_i (v : Int) : deserialize .naive .secs (.i64 v) = canon .secs v :=
  naive_wrap _
theorem de_naive_ms_i (v : Int) : deserialize .naive .millis (.i64 v) = canon .millis v := by
  show ((NaiveDT.from_timestamp_millis v).bind fun r => Res.ok (ok_or (r.map naive_utc))) = _
  rw [naive_wrap, from_millis_eq]; rfl
theorem de_naive_us_i (v : Int) : deserialize .naive .micros (.i64 v) = canon .micros v := by
  show ((NaiveDT.from_timestamp_micros v).bind fun r => Res.ok (ok_or (r.map naive_utc))) = _
  rw [naive_wrap, from_micros_eq]; rfl
theorem de_naive_ns_i (v : Int) : deserialize .naive .nanos (.i64 v) = canon .nanos v := by
  show ((NaiveDT.from_timestamp (v / 1000000000) (asU32 (v % 1000000000))).bind
    fun r => Res.ok (ok_or (r.map naive_utc))) = _
  rw [naive_wrap, asU32_id (by omega) (by omega)]; rfl

/-- all eight plain modules, signed input: the canonical form -/
theorem de_i64 (tg : Target) (u : TsUnit) (v : Int) : deserialize tg u (.i64 v) = canon u v := by
  cases tg <;> cases u
  · exact de_utc_s_i v
  · exact de_utc_ms_i v
  · exact de_utc_us_i v
  · exact de_utc_ns_i v
  · exact de_naive_s_i v
  · exact de_naive_ms_i v
  · exact de_naive_us_i v
  · exact de_naive_ns_i v

/-! ### unsigned input -/
theorem de_utc_s_u (v : Int) (h : isU64 v) :
    deserialize .utc .secs (.u64 v) = if v ≤ 9223372036854775807 then canon .secs v else .ok .err := by
  have := i64max
  show (if v > I64_MAX then Res.ok SR.err else from_ts_or_invalid (asI64 v) 0) = _
  unfold isU64 at h
  by_cases hv : v ≤ 9223372036854775807
  · rw [if_neg (by omega), if_pos hv, asI64_id (by omega) hv]; rfl
  · rw [if_pos (by omega), if_neg hv]
theorem de_naive_s_u (v : Int) (h : isU64 v) :
    deserialize .naive .secs (.u64 v) = if v ≤ 9223372036854775807 then canon .secs v else .ok .err := by
  have := i64max
  show (if v > I64_MAX then Res.ok SR.err
    else (NaiveDT.from_timestamp (asI64 v) 0).bind fun r => Res.ok (ok_or (r.map naive_utc))) = _
  unfold isU64 at h
  by_cases hv : v ≤ 9223372036854775807
  · rw [if_neg (by omega), if_pos hv, asI64_id (by omega) hv, naive_wrap]; rfl
  · rw [if_pos (by omega), if_neg hv]
theorem de_utc_ms_u (v : Int) (h : isU64 v) : deserialize .utc .millis (.u64 v) = canon .millis v := by
  unfold isU64 at h
  show ((ckU64 (v % 1000 * 1000000)).bind fun n => from_ts_or_invalid (asI64 (v / 1000)) (asU32 n)).bind
    (fun r => Res.ok (r.map and_utc)) = _
  rw [and_utc_wrap, ckU64_ok (by omega) (by omega)]
  show from_ts_or_invalid (asI64 (v / 1000)) (asU32 (v % 1000 * 1000000)) = _
  rw [asI64_id (by omega) (by omega), asU32_id (by omega) (by omega)]; rfl
theorem de_naive_ms_u (v : Int) (h : isU64 v) : deserialize .naive .millis (.u64 v) = canon .millis v := by
  unfold isU64 at h
  show ((ckU64 (v % 1000 * 1000000)).bind fun n =>
    (NaiveDT.from_timestamp (asI64 (v / 1000)) (asU32 n)).bind fun r => Res.ok (ok_or (r.map naive_utc))) = _
  rw [ckU64_ok (by omega) (by omega)]
  show ((NaiveDT.from_timestamp (asI64 (v / 1000)) (asU32 (v % 1000 * 1000000))).bind
    fun r => Res.ok (ok_or (r.map naive_utc))) = _
  rw [naive_wrap, asI64_id (by omega) (by omega), asU32_id (by omega) (by omega)]; rfl
theorem de_utc_us_u (v : Int) (h : isU64 v) : deserialize .utc .micros (.u64 v) = canon .micros v := by
  unfold isU64 at h
  show ((ckU64 (v % 1000000 * 1000)).bind fun n => from_ts_or_invalid (asI64 (v / 1000000)) (asU32 n)) = _
  rw [ckU64_ok (by omega) (by omega)]
  show from_ts_or_invalid (asI64 (v / 1000000)) (asU32 (v % 1000000 * 1000)) = _
  rw [asI64_id (by omega) (by omega), asU32_id (by omega) (by omega)]; rfl
theorem de_naive_us_u (v : Int) (h : isU64 v) : deserialize .naive .micros (.u64 v) = canon .micros v := by
  unfold isU64 at h
  show ((ckU64 (v % 1000000 * 1000)).bind fun n =>
    (NaiveDT.from_timestamp (asI64 (v / 1000000)) (asU32 n)).bind fun r => Res.ok (ok_or (r.map naive_utc))) = _
  rw [ckU64_ok (by omega) (by omega)]
  show ((NaiveDT.from_timestamp (asI64 (v / 1000000)) (asU32 (v % 1000000 * 1000))).bind
    fun r => Res.ok (ok_or (r.map naive_utc))) = _
  rw [naive_wrap, asI64_id (by omega) (by omega), asU32_id (by omega) (by omega)]; rfl
theorem de_utc_ns_u (v : Int) (h : isU64 v) : deserialize .utc .nanos (.u64 v) = canon .nanos v := by
  unfold isU64 at h
  show from_ts_or_invalid (asI64 (v / 1000000000)) (asU32 (v % 1000000000)) = _
  rw [asI64_id (by omega) (by omega), asU32_id (by omega) (by omega)]; rfl
theorem de_naive_ns_u (v : Int) (h : isU64 v) : deserialize .naive .nanos (.u64 v) = canon .nanos v := by
  unfold isU64 at h
  show ((NaiveDT.from_timestamp (asI64 (v / 1000000000)) (asU32 (v % 1000000000))).bind
    fun r => Res.ok (ok_or (r.map naive_utc))) = _
  rw [naive_wrap, asI64_id (by omega) (by omega), asU32_id (by omega) (by omega)]; rfl

/-- all eight plain modules, unsigned input: the canonical form; the seconds modules refuse counts above
`i64::MAX` before the narrowing cast -/
theorem de_u64 (tg : Target) (u : TsUnit) (v : Int) (h : isU64 v) :
    deserialize tg u (.u64 v) =
      if u = .secs ∧ 9223372036854775807 < v then .ok .err else canon u v := by
  cases tg <;> cases u
  · rw [de_utc_s_u v h]
    by_cases hv : v ≤ 9223372036854775807
    · rw [if_pos hv, if_neg (by omega)]
    · rw [if_neg hv, if_pos ⟨rfl, by omega⟩]
  · rw [de_utc_ms_u v h, if_neg (by intro hh; cases hh.1)]
  · rw [de_utc_us_u v h, if_neg (by intro hh; cases hh.1)]
  · rw [de_utc_ns_u v h, if_neg (by intro hh; cases hh.1)]
  · rw [de_naive_s_u v h]
    by_cases hv : v ≤ 9223372036854775807
    · rw [if_pos hv, if_neg (by omega)]
    · rw [if_neg hv, if_pos ⟨rfl, by omega⟩]
  · rw [de_naive_ms_u v h, if_neg (by intro hh; cases hh.1)]
  · rw [de_naive_us_u v h, if_neg (by intro hh; cases hh.1)]
  · rw [de_naive_ns_u v h, if_neg (by intro hh; cases hh.1)]

theorem de_other (tg : Target) (u : TsUnit) : deserialize tg u .other = .ok .err := by
  cases tg <;> cases u <;> rfl

/-- the `_option` modules: `Some(x)` goes to the plain module's visitor of the same unit -/
theorem de_option_eq (tg : Target) (u : TsUnit) (w : WOpt) :
    deserialize_option tg u w =
      match w with
      | .some x => (deserialize tg u x).bind fun r => .ok (r.map some)
      | .none => .ok (.ok none)
      | .unit => .ok (.ok none)
      | .other => .ok .err := by
  have hmap : ∀ r : SR (Option NaiveDT), (r.map fun o => o.map and_utc) = r := by
    intro r
    cases r with
    | err => rfl
    | ok o => cases o <;> rfl
  cases tg <;> cases u <;> cases w <;> try rfl
  -- utc milliseconds: the inner visitor is spelled out and `with_timezone(&Utc)` is mapped over the result
  rename_i x
  show ((Utc.optionVisitor _ (.some x)).bind fun r => Res.ok (r.map fun o => o.map and_utc)) = _
  cases x with
  | i64 v =>
    show (((Utc.MilliSecondsTimestampVisitor.visit_i64 v).bind fun r => Res.ok (r.map some)).bind
      fun r => Res.ok (r.map fun o => o.map and_utc)) =
      ((Utc.MilliSecondsTimestampVisitor.visit_i64 v).bind fun r => Res.ok (r.map and_utc)).bind
        fun r => Res.ok (r.map some)
    cases Utc.MilliSecondsTimestampVisitor.visit_i64 v with
    | panic => rfl
    | ok r => cases r <;> rfl
  | u64 v =>
    show (((Utc.MilliSecondsTimestampVisitor.visit_u64 v).bind fun r => Res.ok (r.map some)).bind
      fun r => Res.ok (r.map fun o => o.map and_utc)) =
      ((Utc.MilliSecondsTimestampVisitor.visit_u64 v).bind fun r => Res.ok (r.map and_utc)).bind
        fun r => Res.ok (r.map some)
    cases Utc.MilliSecondsTimestampVisitor.visit_u64 v with
    | panic => rfl
    | ok r => cases r <;> rfl
  | other => rfl

/-! ### what the canonical form does -/

theorem from_ts_or_invalid_spec (q s : Int) (hq : isI64 q) (h0 : 0 ≤ s) (h1 : s < 1000000000) :
    ∃ r, from_ts_or_invalid q s = .ok r ∧
      (r = .err ↔ (q < TS_MIN ∨ q > TS_MAX)) ∧
      (∀ dt, r = .ok dt → NDTInv dt ∧ NonLeap dt ∧ instNs dt = q * 1000000000 + s) := by
  obtain ⟨r, e1, e2, e3⟩ := from_sub_spec q s hq h0 h1
  refine ⟨ok_or r, ?_, ?_, ?_⟩
  · unfold from_ts_or_invalid; rw [e1]; rfl
  · rw [← e2]; cases r <;> simp [ok_or]
  · intro dt hdt
    cases r with
    | none => cases hdt
    | some d =>
      have : d = dt := by injection hdt
      exact e3 dt (by rw [this])

/-- the canonical form, for every integer whose floor second fits `i64`: no panic; refused exactly when
the floor second is outside the representable range; otherwise the non-leap value exactly `v` units
from the epoch -/
theorem canon_spec (u : TsUnit) (v : Int) (hq : isI64 (v / perSec u)) :
    ∃ r, canon u v = .ok r ∧
      (r = .err ↔ (v / perSec u < TS_MIN ∨ v / perSec u > TS_MAX)) ∧
      (∀ dt, r = .ok dt → NDTInv dt ∧ NonLeap dt ∧ instNs dt = v * nsPer u) := by
  cases u
  · have e : v / perSec .secs = v := by show v / 1 = v; omega
    rw [e] at hq ⊢
    obtain ⟨r, r1, r2, r3⟩ := from_ts_or_invalid_spec v 0 hq (by omega) (by omega)
    exact ⟨r, r1, r2, fun dt hdt => by
      obtain ⟨a, b, c⟩ := r3 dt hdt
      exact ⟨a, b, by rw [c]; show _ = v * 1000000000; omega⟩⟩
  · obtain ⟨r, r1, r2, r3⟩ := from_ts_or_invalid_spec (v / 1000) (v % 1000 * 1000000) hq (by omega) (by omega)
    exact ⟨r, r1, r2, fun dt hdt => by
      obtain ⟨a, b, c⟩ := r3 dt hdt
      exact ⟨a, b, by rw [c]; show _ = v * 1000000; omega⟩⟩
  · obtain ⟨r, r1, r2, r3⟩ :=
      from_ts_or_invalid_spec (v / 1000000) (v % 1000000 * 1000) hq (by omega) (by omega)
    exact ⟨r, r1, r2, fun dt hdt => by
      obtain ⟨a, b, c⟩ := r3 dt hdt
      exact ⟨a, b, by rw [c]; show _ = v * 1000; omega⟩⟩
  · obtain ⟨r, r1, r2, r3⟩ :=
      from_ts_or_invalid_spec (v / 1000000000) (v % 1000000000) hq (by omega) (by omega)
    exact ⟨r, r1, r2, fun dt hdt => by
      obtain ⟨a, b, c⟩ := r3 dt hdt
      exact ⟨a, b, by rw [c]; show _ = v * 1; omega⟩⟩

/-- one value per instant among the non-leap values -/
theorem nonleap_unique (a b : NaiveDT) (ha : NDTInv a) (hb : NDTInv b) (la : NonLeap a) (lb : NonLeap b)
    (h : instNs a = instNs b) : a = b := by
  obtain ⟨_, _, _, a3, _⟩ := id ha
  obtain ⟨_, _, _, b3, _⟩ := id hb
  unfold NonLeap at la lb
  unfold instNs at h
  exact inst_inj a b ha hb (by omega) (by omega)

/-! ## the serializers -/

theorem tsOf_bounds (u : TsUnit) (dt : NaiveDT) (h : NDTInv dt) (hl : NonLeap dt) :
    tsOf u dt / perSec u = instSecs dt ∧ instNs (truncTo u dt) = tsOf u dt * nsPer u ∧
    NDTInv (truncTo u dt) ∧ NonLeap (truncTo u dt) ∧ (u ≠ .nanos → isI64 (tsOf u dt)) ∧
    truncTo .nanos dt = dt := by
  have hr := instSecs_range dt h
  rw [ts_min_val, ts_max_val] at hr
  obtain ⟨_, _, _, t3, _⟩ := id h
  unfold NonLeap at hl
  have hn : truncTo .nanos dt = dt := by
    unfold truncTo truncFrac
    show (⟨dt.date, ⟨dt.time.secs, dt.time.frac / 1 * 1⟩⟩ : NaiveDT) = dt
    have : dt.time.frac / 1 * 1 = dt.time.frac := by omega
    rw [this]
  cases u
  · obtain ⟨i1, i2, i3, i4⟩ := truncFrac_inv dt 1000000000 (by omega) h hl
    refine ⟨?_, ?_, i1, ?_, ?_, hn⟩
    · show instNs dt / 1000000000 / 1 = _; unfold instNs; omega
    · show instNs (truncFrac dt 1000000000) = instNs dt / 1000000000 * 1000000000
      unfold instNs; rw [i3, i4]; omega
    · show (truncFrac dt 1000000000).time.frac < 1000000000; rw [i4]; omega
    · intro _; show isI64 (instNs dt / 1000000000); unfold isI64 instNs; omega
  · obtain ⟨i1, i2, i3, i4⟩ := truncFrac_inv dt 1000000 (by omega) h hl
    refine ⟨?_, ?_, i1, ?_, ?_, hn⟩
    · show instNs dt / 1000000 / 1000 = _; unfold instNs; omega
    · show instNs (truncFrac dt 1000000) = instNs dt / 1000000 * 1000000
      unfold instNs; rw [i3, i4]; omega
    · show (truncFrac dt 1000000).time.frac < 1000000000; rw [i4]; omega
    · intro _; show isI64 (instNs dt / 1000000); unfold isI64 instNs; omega
  · obtain ⟨i1, i2, i3, i4⟩ := truncFrac_inv dt 1000 (by omega) h hl
    refine ⟨?_, ?_, i1, ?_, ?_, hn⟩
    · show instNs dt / 1000 / 1000000 = _; unfold instNs; omega
    · show instNs (truncFrac dt 1000) = instNs dt / 1000 * 1000
      unfold instNs; rw [i3, i4]; omega
    · show (truncFrac dt 1000).time.frac < 1000000000; rw [i4]; omega
    · intro _; show isI64 (instNs dt / 1000); unfold isI64 instNs; omega
  · obtain ⟨i1, i2, i3, i4⟩ := truncFrac_inv dt 1 (by omega) h hl
    refine ⟨?_, ?_, i1, ?_, ?_, hn⟩
    · show instNs dt / 1 / 1000000000 = _; unfold instNs; omega
    · show instNs (truncFrac dt 1) = instNs dt / 1 * 1
      unfold instNs; rw [i3, i4]; omega
    · show (truncFrac dt 1).time.frac < 1000000000; rw [i4]; omega
    · intro hh; exact absurd rfl hh

/-- what the four accessors give on a valid non-leap value, in the vocabulary of the specification -/
theorem accessor_vals (dt : NaiveDT) (h : NDTInv dt) (hl : NonLeap dt) :
    NaiveDT.timestamp dt = .ok (tsOf .secs dt) ∧ NaiveDT.timestamp_millis dt = .ok (tsOf .millis dt) ∧
    NaiveDT.timestamp_micros dt = .ok (tsOf .micros dt) ∧
    NaiveDT.timestamp_nanos_opt dt = .ok (if isI64 (tsOf .nanos dt) then some (tsOf .nanos dt) else none) := by
  obtain ⟨_, _, _, t3, _⟩ := id h
  unfold NonLeap at hl
  refine ⟨?_, timestamp_millis_spec dt h, timestamp_micros_spec dt h, ?_⟩
  · rw [timestamp_spec dt h]
    show _ = Res.ok (instNs dt / 1000000000)
    congr 1; unfold instNs; omega
  · rw [nanos_opt_spec dt h ⟨h.2, Or.inl hl⟩]
    have e : tsOf .nanos dt = instNs dt := by show instNs dt / 1 = _; omega
    rw [e]; rfl

end Chrono.Proofs.Serde
