/- Helper lemmas for C08 (month stepping, field replacement, week helpers). -/
import Chrono.Model.DateOps
import Chrono.Spec.DateOpsSpec
import Chrono.Proofs.DateL
import Chrono.Proofs.DateOpsFin

namespace Chrono.Proofs
open Chrono Chrono.M Chrono.Spec Chrono.Extracted Chrono.Extracted.DateOps

/-- the packed month-day-flags word of a date -/
theorem mdf_spec (y : Int) (o : Nat) (ho1 : 1 ≤ o) (ho2 : o ≤ yearLen y) :
    (dateOfYo y o).mdf = .ok (monthOfYo y o * 512 + dayOfYo y o * 16 + flagsOf y) ∧
    monthOfYo y o ≤ 12 ∧ dayOfYo y o ≤ 31 := by
  have hyl := yearLen_ge y
  obtain ⟨_, _, hfl, _, hol, _⟩ := dateOfYo_fields y o (by omega)
  obtain ⟨hf16, hf8, hleap, _⟩ := flagsOf_facts y
  have hbit : flagsOf y / 8 % 2 = flagsOf y / 8 := by omega
  have h366 : o = 366 → flagsOf y / 8 % 2 = 0 := by
    intro h; rw [hbit, hleap]
    unfold yearLen at ho2
    cases hl : isLeap y
    · rw [hl] at ho2; simp at ho2; omega
    · simp
  have hfin := mdf_from_ol_fin o (by omega) (flagsOf y) hf16
  unfold olOk at hfin
  simp only [decide_eq_true_eq] at hfin
  obtain ⟨h1, _, _, h4, h5⟩ := hfin ho1 h366
  have hrep := isLeap_repYear y
  obtain ⟨hm, hd⟩ := monthDay_congr (repYear (flagsOf y)) y o hrep
  simp only [hm, hd] at h1 h4 h5
  refine ⟨?_, h4, h5⟩
  unfold Date.mdf; rw [hol, hfl, ← hbit]; exact h1

/-- a valid ordinal of year `y` -/
theorem ordinal_bounds_c08 (y : Int) (m d : Nat) (h : validYmd y m d = true) :
    1 ≤ ordinalOf y m d ∧ ordinalOf y m d ≤ yearLen y := by
  obtain ⟨hf16, _, _, _⟩ := flagsOf_facts y
  have hb := valid_bounds y m d h
  have hrep := isLeap_repYear y
  obtain ⟨hv, ho, hyl⟩ := leap_congr (repYear (flagsOf y)) y m d hrep
  have := ordinal_bounds_fin m hb.1 d hb.2 _ hf16 (by rw [hv]; exact h)
  rw [ho, hyl] at this
  exact this

/-- replacing the ordinal bits of the packed word -/
theorem replace_ordinal (y : Int) (o o' : Nat) (ho : o < 512) (ho1 : 1 ≤ o') (ho2 : o' ≤ yearLen y) :
    Date.from_yof ((dateOfYo y o).yof - (dateOfYo y o).ordinal * 16 + (o' : Int) * 16) = .ok (dateOfYo y o') := by
  obtain ⟨_, hord, _, _, _, _⟩ := dateOfYo_fields y o ho
  obtain ⟨hf16, hf8, hleap, _⟩ := flagsOf_facts y
  have hyl := yearLen_ge y
  rw [hord]
  have h366 : o' = 366 → flagsOf y / 8 = 0 := by
    intro h; rw [hleap]
    unfold yearLen at ho2
    cases hl : isLeap y
    · rw [hl] at ho2; simp at ho2; omega
    · simp
  have e : (dateOfYo y o).yof - (o : Int) * 16 + (o' : Int) * 16 = y * 8192 + ((o' * 16 + flagsOf y : Nat) : Int) := by
    unfold dateOfYo; dsimp only; push_cast; omega
  rw [e, from_yof_ok y o' (flagsOf y) ho1 (by omega) hf16 hf8 h366]
  congr 1
  unfold dateOfYo; congr 1; push_cast; omega

/-- `with_mdf` on a month-day word carrying the date's own flags -/
theorem with_mdf_spec (y : Int) (o m d : Nat) (ho : o < 512) (hm : m ≤ 12) (hd : d ≤ 31) :
    (dateOfYo y o).with_mdf (m * 512 + d * 16 + flagsOf y) =
      .ok (if validYmd y m d = true then some (dateOfYo y (ordinalOf y m d)) else none) := by
  obtain ⟨_, _, hfl, _, _, _⟩ := dateOfYo_fields y o ho
  obtain ⟨hf16, _, _, _⟩ := flagsOf_facts y
  have hrep := isLeap_repYear y
  obtain ⟨hv, hoo, _⟩ := leap_congr (repYear (flagsOf y)) y m d hrep
  unfold Date.with_mdf Date.year_flags Mdf.year_flags
  have hflags : ¬ ((dateOfYo y o).flags ≠ (m * 512 + d * 16 + flagsOf y) % 16) := by
    rw [hfl]; omega
  rw [if_neg hflags, mdf_ordinal_fin m hm d hd _ hf16, hv, hoo]
  by_cases hval : validYmd y m d = true
  · rw [if_pos hval, if_pos hval]
    dsimp only
    have hb := ordinal_bounds_c08 y m d hval
    rw [replace_ordinal y o _ ho hb.1 hb.2]
  · rw [if_neg hval, if_neg hval]

theorem ymdDate_inrange (y : Int) (m d : Nat) (hy : MIN_YEAR ≤ y ∧ y ≤ MAX_YEAR) :
    ymdDate? y m d = if validYmd y m d = true then some (dateOfYo y (ordinalOf y m d)) else none := by
  unfold ymdDate?
  by_cases h : validYmd y m d = true
  · rw [if_pos ⟨hy.1, hy.2, h⟩, if_pos h]
  · rw [if_neg h]; apply ite_neg'; intro h'; exact h h'.2.2

theorem yoDate_inrange (y : Int) (o : Nat) (hy : MIN_YEAR ≤ y ∧ y ≤ MAX_YEAR) :
    yoDate? y o = if 1 ≤ o ∧ o ≤ yearLen y then some (dateOfYo y o) else none := by
  unfold yoDate?
  by_cases h : 1 ≤ o ∧ o ≤ yearLen y
  · rw [if_pos ⟨hy.1, hy.2, h.1, h.2⟩, if_pos h]
  · rw [if_neg h]; apply ite_neg'; intro h'; exact h ⟨h'.2.2.1, h'.2.2.2⟩

/-- `with_month`, every `u32` (indeed every natural) argument -/
theorem with_month_spec (y : Int) (o : Nat) (hy : MIN_YEAR ≤ y ∧ y ≤ MAX_YEAR) (ho : 1 ≤ o ∧ o ≤ yearLen y)
    (m' : Nat) :
    (dateOfYo y o).with_month m' = .ok (ymdDate? y m' (dayOfYo y o)) := by
  have hyl := yearLen_ge y
  obtain ⟨hmdf, hm12, hd31⟩ := mdf_spec y o ho.1 ho.2
  obtain ⟨hf16, _, _, _⟩ := flagsOf_facts y
  rw [ymdDate_inrange y _ _ hy]
  unfold Date.with_month
  rw [hmdf]
  dsimp only
  unfold Mdf.with_month
  by_cases hgt : m' > 12
  · rw [if_pos hgt]
    dsimp only
    congr 1; symm; apply ite_neg'
    intro h; have := valid_bounds y _ _ h; omega
  · rw [if_neg hgt]
    dsimp only
    have e : (monthOfYo y o * 512 + dayOfYo y o * 16 + flagsOf y) % 512 + m' * 512
        = m' * 512 + dayOfYo y o * 16 + flagsOf y := by omega
    rw [e]
    exact with_mdf_spec y o m' (dayOfYo y o) (by omega) (by omega) hd31

/-- `with_day`, every natural argument -/
theorem with_day_spec (y : Int) (o : Nat) (hy : MIN_YEAR ≤ y ∧ y ≤ MAX_YEAR) (ho : 1 ≤ o ∧ o ≤ yearLen y)
    (d' : Nat) :
    (dateOfYo y o).with_day d' = .ok (ymdDate? y (monthOfYo y o) d') := by
  have hyl := yearLen_ge y
  obtain ⟨hmdf, hm12, hd31⟩ := mdf_spec y o ho.1 ho.2
  obtain ⟨hf16, _, _, _⟩ := flagsOf_facts y
  rw [ymdDate_inrange y _ _ hy]
  unfold Date.with_day
  rw [hmdf]
  dsimp only
  unfold Mdf.with_day
  by_cases hgt : d' > 31
  · rw [if_pos hgt]
    dsimp only
    congr 1; symm; apply ite_neg'
    intro h; have := valid_bounds y _ _ h; omega
  · rw [if_neg hgt]
    dsimp only
    have e : (monthOfYo y o * 512 + dayOfYo y o * 16 + flagsOf y)
          - (monthOfYo y o * 512 + dayOfYo y o * 16 + flagsOf y) / 16 % 32 * 16 + d' * 16
        = monthOfYo y o * 512 + d' * 16 + flagsOf y := by omega
    rw [e]
    exact with_mdf_spec y o (monthOfYo y o) d' (by omega) hm12 (by omega)

/-- the 0-based forms: `checked_add(1)` refuses `u32::MAX`, where no such month/day exists anyway -/
theorem with_month0_spec (y : Int) (o : Nat) (hy : MIN_YEAR ≤ y ∧ y ≤ MAX_YEAR) (ho : 1 ≤ o ∧ o ≤ yearLen y)
    (m0 : Nat) :
    (dateOfYo y o).with_month0 m0 = .ok (ymdDate? y (m0 + 1) (dayOfYo y o)) := by
  unfold Date.with_month0
  have hU : U32_MAX = 4294967295 := rfl
  by_cases h : (m0 : Int) + 1 ≤ U32_MAX
  · rw [if_pos h]; exact with_month_spec y o hy ho (m0 + 1)
  · rw [if_neg h, ymdDate_inrange y _ _ hy]
    congr 1; symm; apply ite_neg'
    intro hv; have := valid_bounds y _ _ hv; omega

theorem with_day0_spec (y : Int) (o : Nat) (hy : MIN_YEAR ≤ y ∧ y ≤ MAX_YEAR) (ho : 1 ≤ o ∧ o ≤ yearLen y)
    (d0 : Nat) :
    (dateOfYo y o).with_day0 d0 = .ok (ymdDate? y (monthOfYo y o) (d0 + 1)) := by
  unfold Date.with_day0
  have hU : U32_MAX = 4294967295 := rfl
  by_cases h : (d0 : Int) + 1 ≤ U32_MAX
  · rw [if_pos h]; exact with_day_spec y o hy ho (d0 + 1)
  · rw [if_neg h, ymdDate_inrange y _ _ hy]
    congr 1; symm; apply ite_neg'
    intro hv; have := valid_bounds y _ _ hv; omega

/-- `with_year`, every integer argument: the same month and day in the new year -/
theorem with_year_spec (y : Int) (o : Nat) (ho : 1 ≤ o ∧ o ≤ yearLen y) (y' : Int) :
    (dateOfYo y o).with_year y' = .ok (ymdDate? y' (monthOfYo y o) (dayOfYo y o)) := by
  obtain ⟨hmdf, hm12, hd31⟩ := mdf_spec y o ho.1 ho.2
  obtain ⟨hf16, _, _, _⟩ := flagsOf_facts y
  have hnew : Mdf.new (monthOfYo y o) (dayOfYo y o) (YearFlags.from_year y')
      = some (monthOfYo y o * 512 + dayOfYo y o * 16 + YearFlags.from_year y') := by
    unfold Mdf.new; rw [if_pos ⟨hm12, hd31⟩]
  have hc := ctor_ymd' y' (monthOfYo y o) (dayOfYo y o)
  unfold Date.from_ymd_opt at hc
  dsimp only at hc
  rw [hnew] at hc
  dsimp only at hc
  unfold Date.with_year
  rw [hmdf]
  dsimp only
  unfold Mdf.with_flags
  have e : (monthOfYo y o * 512 + dayOfYo y o * 16 + flagsOf y)
        - (monthOfYo y o * 512 + dayOfYo y o * 16 + flagsOf y) % 16 + YearFlags.from_year y'
      = monthOfYo y o * 512 + dayOfYo y o * 16 + YearFlags.from_year y' := by omega
  rw [e, hc]
  rfl

/-- `with_ordinal`, every natural argument -/
theorem with_ordinal_spec (y : Int) (o : Nat) (hy : MIN_YEAR ≤ y ∧ y ≤ MAX_YEAR) (ho : 1 ≤ o ∧ o ≤ yearLen y)
    (o' : Nat) :
    (dateOfYo y o).with_ordinal o' = .ok (yoDate? y o') := by
  have hyl := yearLen_ge y
  obtain ⟨_, hord, _, _, _, _⟩ := dateOfYo_fields y o (by omega)
  obtain ⟨hf16, hf8, hleap, _⟩ := flagsOf_facts y
  have hD : DATE_MAX_OL = 5856 := rfl
  have hZ : WO_ZERO = 0 := rfl
  have hM : WO_MAX = 366 := rfl
  rw [yoDate_inrange y _ hy]
  unfold Date.with_ordinal
  by_cases hr : o' = WO_ZERO ∨ o' > WO_MAX
  · rw [if_pos hr]; congr 1; symm; apply ite_neg'; intro h; omega
  · rw [if_neg hr]
    dsimp only
    have hc : (flagsOf y / 8 : Nat) = (if isLeap y then 0 else 1) := hleap
    have hylc : yearLen y = 366 - flagsOf y / 8 := by
      unfold yearLen; rw [hc]; cases isLeap y <;> simp
    have hol : ((dateOfYo y o).yof - (dateOfYo y o).ordinal * 16 + (o' : Int) * 16) / 8 % 1024 * 8
        = ((o' : Int) * 2 + (flagsOf y / 8 : Nat)) * 8 := by
      rw [hord]; unfold dateOfYo; dsimp only; omega
    rw [hol]
    by_cases hle : o' ≤ yearLen y
    · rw [ite_pos' _ _ (by rw [hD]; omega), replace_ordinal y o o' (by omega) (by omega) hle]
      dsimp only
      rw [if_pos ⟨by omega, hle⟩]
    · rw [ite_neg' _ _ (by rw [hD]; omega)]
      congr 1; symm; apply ite_neg'; intro h; exact hle h.2

theorem with_ordinal0_spec (y : Int) (o : Nat) (hy : MIN_YEAR ≤ y ∧ y ≤ MAX_YEAR) (ho : 1 ≤ o ∧ o ≤ yearLen y)
    (o0 : Nat) :
    (dateOfYo y o).with_ordinal0 o0 = .ok (yoDate? y (o0 + 1)) := by
  unfold Date.with_ordinal0
  have hU : U32_MAX = 4294967295 := rfl
  have hyl := yearLen_ge y
  by_cases h : (o0 : Int) + 1 ≤ U32_MAX
  · rw [if_pos h]; exact with_ordinal_spec y o hy ho (o0 + 1)
  · rw [if_neg h, yoDate_inrange y _ hy]
    congr 1; symm; apply ite_neg'
    intro hv; omega

/-! ### month stepping -/
theorem ndays_spec (y : Int) : YearFlags.ndays (flagsOf y) = yearLen y := by
  obtain ⟨_, _, hl, _⟩ := flagsOf_facts y
  unfold YearFlags.ndays yearLen
  rw [hl]; cases isLeap y <;> simp

/-- the local month-length array of `diff_months` (as extracted) is the calendar's `monthLen` -/
theorem dm_day_max (y : Int) (k : Nat) (hk : k < 12) :
    (if k = DM_FEB_INDEX then (if yearLen y = DM_NDAYS_LEAP then DM_FEB_LEAP else DM_FEB_COMMON)
      else DM_DAYS.getD k 0) = monthLen y (k + 1) := by
  match k, hk with
  | 1, _ =>
    unfold yearLen monthLen
    cases isLeap y <;> decide
  | 0, _ | 2, _ | 3, _ | 4, _ | 5, _ | 6, _ | 7, _ | 8, _ | 9, _ | 10, _ | 11, _ => rfl

theorem ite_min (a b : Nat) : (if a > b then b else a) = min a b := by
  rw [Nat.min_def]; split <;> split <;> omega

theorem monthLen_pos (y : Int) (m : Nat) (h1 : 1 ≤ m) (h2 : m ≤ 12) : 28 ≤ monthLen y m ∧ monthLen y m ≤ 31 := by
  match m, h1, h2 with
  | 2, _, _ => unfold monthLen; cases isLeap y <;> decide
  | 1, _, _ | 3, _, _ | 4, _, _ | 5, _, _ | 6, _, _ | 7, _, _ | 8, _, _ | 9, _, _ | 10, _, _ | 11, _, _
  | 12, _, _ => simp [monthLen]

theorem valid_iff (y : Int) (m d : Nat) :
    validYmd y m d = true ↔ (1 ≤ m ∧ m ≤ 12 ∧ 1 ≤ d ∧ d ≤ monthLen y m) := by
  unfold validYmd
  simp only [Bool.and_eq_true, decide_eq_true_eq]
  constructor
  · rintro ⟨⟨⟨a, b⟩, c⟩, d⟩; exact ⟨a, b, c, d⟩
  · rintro ⟨a, b, c, d⟩; exact ⟨⟨⟨a, b⟩, c⟩, d⟩

/-- `diff_months`, every month count (the `i32` range is not even needed) -/
theorem diff_months_spec (y : Int) (o : Nat) (hy : MIN_YEAR ≤ y ∧ y ≤ MAX_YEAR) (ho : 1 ≤ o ∧ o ≤ yearLen y)
    (n : Int) :
    (dateOfYo y o).diff_months n = .ok (addMonths? y (monthOfYo y o) (dayOfYo y o) n) := by
  have hyl := yearLen_ge y
  have hMIN : MIN_YEAR = -262143 := rfl
  have hMAX : MAX_YEAR = 262142 := rfl
  obtain ⟨hyear, _, _, _, _, _⟩ := dateOfYo_fields y o (by omega)
  obtain ⟨m1, m2, m3, _⟩ := month_day_spec y o ho.1 ho.2
  obtain ⟨hm1, hm12, hd1, hdl⟩ := (valid_iff y _ _).mp m3
  unfold Date.diff_months
  rw [m1, m2, hyear]
  dsimp only
  rw [show DM_MUL = 12 from rfl, show DM_SUB = 1 from rfl, show DM_DIV = 12 from rfl,
    show DM_REM = 12 from rfl, show DM_ADD = 1 from rfl]
  generalize monthOfYo y o = m at *
  generalize dayOfYo y o = d at *
  rw [ckI32_ok (by omega) (by omega)]
  dsimp only
  rw [ckI32_ok (by omega) (by omega)]
  dsimp only
  rw [ckI32_ok (by omega) (by omega)]
  dsimp only
  unfold addMonths? stepDay stepYear stepMonth monthIndex
  generalize hT : y * 12 + (m : Int) - 1 + n = T
  by_cases hov : -2147483648 ≤ T ∧ T ≤ 2147483647
  · have : optI32 T = some T := by
      unfold optI32 inI32 I32_MIN I32_MAX
      simp [hov.1, hov.2]
    rw [this]
    dsimp only
    have hk0 : 0 ≤ T % 12 := Int.emod_nonneg _ (by decide)
    have hk1 : T % 12 < 12 := Int.emod_lt_of_pos _ (by decide)
    generalize hK : (T % 12).toNat = k
    have hk : k < 12 := by omega
    have hlen : DM_DAYS.length = 12 := rfl
    rw [Nat.add_sub_cancel, if_pos (by rw [hlen]; exact hk)]
    rw [from_year_spec, ndays_spec, dm_day_max (T / 12) k hk]
    rw [ite_min, ctor_ymd']
    rfl
  · have : optI32 T = none := by
      unfold optI32 inI32 I32_MIN I32_MAX
      by_cases h1 : -2147483648 ≤ T
      · have h2 : ¬ (T ≤ 2147483647) := fun h => hov ⟨h1, h⟩
        simp [h2]
      · simp [h1]
    rw [this]
    dsimp only
    congr 1; symm
    unfold ymdDate?
    apply ite_neg'
    intro h
    omega

/-- fields of an existing calendar date -/
theorem ymd_fields (y : Int) (m d : Nat) (hv : validYmd y m d = true) :
    (dateOfYo y (ordinalOf y m d)).year = y ∧ (dateOfYo y (ordinalOf y m d)).month = .ok m ∧
    (dateOfYo y (ordinalOf y m d)).day = .ok d ∧ (dateOfYo y (ordinalOf y m d)).ordinal = ordinalOf y m d := by
  have hb := ordinal_bounds_c08 y m d hv
  have hyl := yearLen_ge y
  obtain ⟨h1, h2, _⟩ := dateOfYo_fields y (ordinalOf y m d) (by omega)
  obtain ⟨m1, m2, _, _⟩ := month_day_spec y (ordinalOf y m d) hb.1 hb.2
  obtain ⟨u1, u2⟩ := ymd_unique y m d hv
  rw [u1] at m1; rw [u2] at m2
  exact ⟨h1, m1, m2, h2⟩

theorem step_valid (y : Int) (m d : Nat) (n : Int) (hd : 1 ≤ d) :
    validYmd (stepYear y m n) (stepMonth y m n) (stepDay y m d n) = true ∧
    1 ≤ stepMonth y m n ∧ stepMonth y m n ≤ 12 := by
  have hk0 : 0 ≤ (monthIndex y m + n) % 12 := Int.emod_nonneg _ (by decide)
  have hk1 : (monthIndex y m + n) % 12 < 12 := Int.emod_lt_of_pos _ (by decide)
  have h12 : 1 ≤ stepMonth y m n ∧ stepMonth y m n ≤ 12 := by unfold stepMonth; omega
  have hl := monthLen_pos (stepYear y m n) (stepMonth y m n) h12.1 h12.2
  refine ⟨(valid_iff _ _ _).mpr ⟨h12.1, h12.2, ?_, ?_⟩, h12⟩
  · unfold stepDay; omega
  · unfold stepDay; omega

/-- stepping fails exactly when the target year leaves the supported range -/
theorem addMonths_none_iff (y : Int) (m d : Nat) (n : Int) (hd : 1 ≤ d) :
    addMonths? y m d n = none ↔ (stepYear y m n < MIN_YEAR ∨ stepYear y m n > MAX_YEAR) := by
  have hv := (step_valid y m d n hd).1
  unfold addMonths? ymdDate?
  constructor
  · intro h
    by_cases hc : MIN_YEAR ≤ stepYear y m n ∧ stepYear y m n ≤ MAX_YEAR
    · rw [if_pos ⟨hc.1, hc.2, hv⟩] at h; cases h
    · omega
  · intro h; apply ite_neg'; intro hc; omega

theorem addMonths_some (y : Int) (m d : Nat) (n : Int) (hd : 1 ≤ d)
    (hr : MIN_YEAR ≤ stepYear y m n ∧ stepYear y m n ≤ MAX_YEAR) :
    addMonths? y m d n =
      some (dateOfYo (stepYear y m n) (ordinalOf (stepYear y m n) (stepMonth y m n) (stepDay y m d n))) := by
  have hv := (step_valid y m d n hd).1
  unfold addMonths? ymdDate?
  rw [if_pos ⟨hr.1, hr.2, hv⟩]

/-- stepping by zero months is the identity -/
theorem addMonths_zero (y : Int) (o : Nat) (hy : MIN_YEAR ≤ y ∧ y ≤ MAX_YEAR) (ho : 1 ≤ o ∧ o ≤ yearLen y) :
    addMonths? y (monthOfYo y o) (dayOfYo y o) 0 = some (dateOfYo y o) := by
  obtain ⟨_, _, m3, m4⟩ := month_day_spec y o ho.1 ho.2
  obtain ⟨hm1, hm12, hd1, hdl⟩ := (valid_iff y _ _).mp m3
  have e1 : stepYear y (monthOfYo y o) 0 = y := by unfold stepYear monthIndex; omega
  have e2 : stepMonth y (monthOfYo y o) 0 = monthOfYo y o := by unfold stepMonth monthIndex; omega
  have e3 : stepDay y (monthOfYo y o) (dayOfYo y o) 0 = dayOfYo y o := by
    unfold stepDay; rw [e1, e2]; omega
  unfold addMonths?
  rw [e1, e2, e3, ymdDate_inrange y _ _ hy, if_pos m3, m4]

/-- `checked_add_months`, every `u32` (every natural) month count -/
theorem add_months_spec (y : Int) (o : Nat) (hy : MIN_YEAR ≤ y ∧ y ≤ MAX_YEAR) (ho : 1 ≤ o ∧ o ≤ yearLen y)
    (n : Nat) :
    (dateOfYo y o).checked_add_months n = .ok (addMonths? y (monthOfYo y o) (dayOfYo y o) n) := by
  have hMIN : MIN_YEAR = -262143 := rfl
  have hMAX : MAX_YEAR = 262142 := rfl
  have hI : I32_MAX = 2147483647 := rfl
  obtain ⟨_, _, m3, _⟩ := month_day_spec y o ho.1 ho.2
  obtain ⟨hm1, hm12, hd1, _⟩ := (valid_iff y _ _).mp m3
  unfold Date.checked_add_months
  by_cases h0 : n = 0
  · subst h0; rw [if_pos rfl]; congr 1; symm
    exact addMonths_zero y o hy ho
  · rw [if_neg h0]
    by_cases hle : (n : Int) ≤ I32_MAX
    · rw [if_pos hle]; exact diff_months_spec y o hy ho n
    · rw [if_neg hle]; congr 1; symm
      rw [addMonths_none_iff _ _ _ _ hd1]
      right; unfold stepYear monthIndex; omega

theorem sub_months_spec (y : Int) (o : Nat) (hy : MIN_YEAR ≤ y ∧ y ≤ MAX_YEAR) (ho : 1 ≤ o ∧ o ≤ yearLen y)
    (n : Nat) :
    (dateOfYo y o).checked_sub_months n = .ok (addMonths? y (monthOfYo y o) (dayOfYo y o) (-(n : Int))) := by
  have hMIN : MIN_YEAR = -262143 := rfl
  have hMAX : MAX_YEAR = 262142 := rfl
  have hI : I32_MAX = 2147483647 := rfl
  obtain ⟨_, _, m3, _⟩ := month_day_spec y o ho.1 ho.2
  obtain ⟨hm1, hm12, hd1, _⟩ := (valid_iff y _ _).mp m3
  unfold Date.checked_sub_months
  by_cases h0 : n = 0
  · subst h0; rw [if_pos rfl]; congr 1; symm
    exact addMonths_zero y o hy ho
  · rw [if_neg h0]
    by_cases hle : (n : Int) ≤ I32_MAX
    · rw [if_pos hle]; exact diff_months_spec y o hy ho _
    · rw [if_neg hle]; congr 1; symm
      rw [addMonths_none_iff _ _ _ _ hd1]
      left; unfold stepYear monthIndex; omega

/-! ### whole years elapsed -/
theorem years_since_eq (y1 y0 : Int) (o1 o0 : Nat) (hy1 : MIN_YEAR ≤ y1 ∧ y1 ≤ MAX_YEAR)
    (hy0 : MIN_YEAR ≤ y0 ∧ y0 ≤ MAX_YEAR) (ho1 : 1 ≤ o1 ∧ o1 ≤ yearLen y1) (ho0 : 1 ≤ o0 ∧ o0 ≤ yearLen y0) :
    (dateOfYo y1 o1).years_since (dateOfYo y0 o0) =
      .ok (let k := y1 - y0 - (if monthOfYo y1 o1 * 32 + dayOfYo y1 o1 < monthOfYo y0 o0 * 32 + dayOfYo y0 o0
                                then 1 else 0)
           if k ≥ 0 then some k else none) := by
  have hMIN : MIN_YEAR = -262143 := rfl
  have hMAX : MAX_YEAR = 262142 := rfl
  have hl1 := yearLen_ge y1
  have hl0 := yearLen_ge y0
  obtain ⟨hyear1, _⟩ := dateOfYo_fields y1 o1 (by omega)
  obtain ⟨hyear0, _⟩ := dateOfYo_fields y0 o0 (by omega)
  obtain ⟨a1, a2, _, _⟩ := month_day_spec y1 o1 ho1.1 ho1.2
  obtain ⟨b1, b2, _, _⟩ := month_day_spec y0 o0 ho0.1 ho0.2
  unfold Date.years_since
  rw [hyear1, hyear0, a1, a2, b1, b2, ckI32_ok (by omega) (by omega)]
  dsimp only
  by_cases hlt : monthOfYo y1 o1 * 32 + dayOfYo y1 o1 < monthOfYo y0 o0 * 32 + dayOfYo y0 o0
  · rw [if_pos hlt, if_pos hlt, ckI32_ok (by omega) (by omega)]
    dsimp only
    split <;> rfl
  · rw [if_neg hlt, if_neg hlt]
    dsimp only
    rw [Int.sub_zero]
    split <;> rfl

/-! ### quarter, common-era year, days in month -/
theorem quarter_spec (y : Int) (o : Nat) (ho : 1 ≤ o ∧ o ≤ yearLen y) :
    (dateOfYo y o).quarter = .ok ((monthOfYo y o - 1) / 3 + 1) := by
  obtain ⟨m1, _, m3, _⟩ := month_day_spec y o ho.1 ho.2
  obtain ⟨hm1, _, _, _⟩ := (valid_iff y _ _).mp m3
  unfold Date.quarter
  rw [m1]
  dsimp only
  rw [show Q_SUB = 1 from rfl, show Q_DIV = 3 from rfl, show Q_ADD = 1 from rfl, if_neg (by omega)]

theorem year_ce_spec (y : Int) (o : Nat) (hy : MIN_YEAR ≤ y ∧ y ≤ MAX_YEAR) (ho : o < 512) :
    (dateOfYo y o).year_ce = .ok (if y < 1 then (false, 1 - y) else (true, y)) := by
  have hMIN : MIN_YEAR = -262143 := rfl
  have hMAX : MAX_YEAR = 262142 := rfl
  obtain ⟨hyear, _⟩ := dateOfYo_fields y o ho
  unfold Date.year_ce
  rw [hyear]
  dsimp only
  by_cases h : y < 1
  · rw [if_pos h, if_pos h, ckI32_ok (by omega) (by omega)]
    dsimp only
    rw [asU32_id (by omega) (by omega)]
  · rw [if_neg h, if_neg h, asU32_id (by omega) (by omega)]

theorem from_u32_spec (m : Nat) (h1 : 1 ≤ m) (h12 : m ≤ 12) :
    ∃ mo, Month.from_u32 (m : Int) = some mo ∧ mo.toNat + 1 = m := by
  match m, h1, h12 with
  | 1, _, _ => exact ⟨.jan, rfl, rfl⟩
  | 2, _, _ => exact ⟨.feb, rfl, rfl⟩
  | 3, _, _ => exact ⟨.mar, rfl, rfl⟩
  | 4, _, _ => exact ⟨.apr, rfl, rfl⟩
  | 5, _, _ => exact ⟨.may, rfl, rfl⟩
  | 6, _, _ => exact ⟨.jun, rfl, rfl⟩
  | 7, _, _ => exact ⟨.jul, rfl, rfl⟩
  | 8, _, _ => exact ⟨.aug, rfl, rfl⟩
  | 9, _, _ => exact ⟨.sep, rfl, rfl⟩
  | 10, _, _ => exact ⟨.oct, rfl, rfl⟩
  | 11, _, _ => exact ⟨.nov, rfl, rfl⟩
  | 12, _, _ => exact ⟨.dec, rfl, rfl⟩

/-- `Month::num_days`: the calendar's month length for every year of the range; only February
looks at the year, so every other month answers for every `i32` year -/
theorem month_num_days_spec (mo : Month) (y : Int) :
    mo.num_days y = .ok (if mo = .feb ∧ (y < MIN_YEAR ∨ y > MAX_YEAR) then none
                         else some (monthLen y (mo.toNat + 1))) := by
  cases mo
  case feb =>
    unfold Month.num_days
    rw [if_pos (show Month.feb.toNat = 1 from rfl), show MN_FEB_MONTH = 2 from rfl, show MN_FEB_DAY = 1 from rfl, ctor_ymd']
    have hv : validYmd y 2 1 = true := by
      rw [valid_iff]; have := monthLen_pos y 2 (by omega) (by omega); omega
    by_cases hr : y < MIN_YEAR ∨ y > MAX_YEAR
    · rw [if_neg (by intro h; omega), if_pos ⟨rfl, hr⟩]
    · rw [if_pos ⟨by omega, by omega, hv⟩, if_neg (by intro h; exact hr h.2)]
      dsimp only
      have hb := ordinal_bounds_c08 y 2 1 hv
      have hyl := yearLen_ge y
      obtain ⟨_, _, _, _, _, hleap⟩ := dateOfYo_fields y (ordinalOf y 2 1) (by omega)
      rw [hleap]
      unfold monthLen
      cases isLeap y <;> rfl
  all_goals (unfold Month.num_days; rw [if_neg (by decide), if_neg (by intro h; cases h.1)]; rfl)

theorem num_days_in_month_spec (y : Int) (o : Nat) (hy : MIN_YEAR ≤ y ∧ y ≤ MAX_YEAR)
    (ho : 1 ≤ o ∧ o ≤ yearLen y) :
    (dateOfYo y o).num_days_in_month = .ok (monthLen y (monthOfYo y o)) := by
  have hyl := yearLen_ge y
  obtain ⟨hyear, _⟩ := dateOfYo_fields y o (by omega)
  obtain ⟨m1, _, m3, _⟩ := month_day_spec y o ho.1 ho.2
  obtain ⟨hm1, hm12, _, _⟩ := (valid_iff y _ _).mp m3
  obtain ⟨mo, hmo, hidx⟩ := from_u32_spec _ hm1 hm12
  unfold Date.num_days_in_month
  rw [m1]
  dsimp only
  rw [hmo]
  dsimp only
  rw [hyear, month_num_days_spec, if_neg (by intro h; omega), hidx]

/-! ### n-th weekday of a month -/
theorem number_from_monday_eq (w : Weekday) : w.number_from_monday = w.toNat + 1 := by
  cases w <;> rfl
theorem num_days_from_monday_eq (w : Weekday) : w.num_days_from_monday = w.toNat := by
  cases w <;> rfl
theorem weekday_toNat_lt (w : Weekday) : w.toNat < 7 := by cases w <;> decide
theorem pred_toNat (w : Weekday) : w.pred.toNat = (w.toNat + 6) % 7 := by cases w <;> rfl

theorem nth_weekday_eq (y : Int) (m : Nat) (w : Weekday) (n : Nat) :
    Date.from_weekday_of_month_opt y m w n =
      .ok (if n = 0 then none else ymdDate? y m (nthWeekdayDay y m w.toNat n)) := by
  unfold Date.from_weekday_of_month_opt
  by_cases hn : n = 0
  · rw [if_pos hn, if_pos hn]
  · rw [if_neg hn, if_neg hn, ctor_ymd']
    by_cases hc : MIN_YEAR ≤ y ∧ y ≤ MAX_YEAR ∧ validYmd y m 1 = true
    · rw [if_pos hc]
      dsimp only
      have hb := ordinal_bounds_c08 y m 1 hc.2.2
      have hyl := yearLen_ge y
      have hwd := weekday_spec y (ordinalOf y m 1) (by omega)
      have hw7 := weekday_toNat_lt w
      have hf7 := weekday_toNat_lt (dateOfYo y (ordinalOf y m 1)).weekday
      rw [number_from_monday_eq, number_from_monday_eq, ctor_ymd']
      have hday : (n - 1) * 7 + (7 + (w.toNat + 1) - ((dateOfYo y (ordinalOf y m 1)).weekday.toNat + 1)) % 7 + 1
          = nthWeekdayDay y m w.toNat n := by
        unfold nthWeekdayDay dayNum
        rw [← hwd]
        omega
      rw [hday]
      rfl
    · rw [if_neg hc]
      dsimp only
      congr 1; symm
      unfold ymdDate?
      apply ite_neg'
      intro h
      apply hc
      refine ⟨h.1, h.2.1, ?_⟩
      obtain ⟨a, b, _, _⟩ := (valid_iff y m _).mp h.2.2
      rw [valid_iff]
      have := monthLen_pos y m a b
      omega

/-! ### (month, day) order is ordinal order within a year -/
theorem month_start_fin : ∀ yy ∈ [(0 : Int), 1], ∀ m1 < 13, ∀ m0 < 13, 1 ≤ m1 → m1 < m0 →
    ordinalOf yy m1 (monthLen yy m1) < ordinalOf yy m0 1 := by decide

theorem month_start_lt (y : Int) (m1 m0 : Nat) (h1 : 1 ≤ m1) (h : m1 < m0) (h0 : m0 ≤ 12) :
    ordinalOf y m1 (monthLen y m1) < ordinalOf y m0 1 := by
  have hrep := isLeap_repYear y
  have hyy : repYear (flagsOf y) ∈ [(0 : Int), 1] := by
    unfold repYear; split <;> simp
  have := month_start_fin _ hyy m1 (by omega) m0 (by omega) h1 h
  have e1 : monthLen (repYear (flagsOf y)) m1 = monthLen y m1 := by unfold monthLen; rw [hrep]
  rw [e1, (leap_congr _ y m1 _ hrep).2.1, (leap_congr _ y m0 1 hrep).2.1] at this
  exact this

theorem ymd_lex_ordinal (y1 y0 : Int) (m1 d1 m0 d0 : Nat) (h1 : validYmd y1 m1 d1 = true)
    (h0 : validYmd y0 m0 d0 = true) (hy : y1 = y0) :
    m1 * 32 + d1 < m0 * 32 + d0 ↔ ordinalOf y1 m1 d1 < ordinalOf y0 m0 d0 := by
  subst hy
  obtain ⟨a1, a2, a3, a4⟩ := (valid_iff _ _ _).mp h1
  obtain ⟨b1, b2, b3, b4⟩ := (valid_iff _ _ _).mp h0
  have ha := valid_bounds _ _ _ h1
  have hb := valid_bounds _ _ _ h0
  have lin : ∀ m d d', ordinalOf y1 m d + d' = ordinalOf y1 m d' + d := by
    intro m d d'; unfold ordinalOf; omega
  rcases Nat.lt_trichotomy m1 m0 with h | h | h
  · have := month_start_lt y1 m1 m0 a1 h b2
    have l1 := lin m1 d1 (monthLen y1 m1)
    have l2 := lin m0 d0 1
    constructor <;> intro _ <;> omega
  · subst h
    have l1 := lin m1 d1 d0
    constructor <;> intro _ <;> omega
  · have := month_start_lt y1 m0 m1 b1 h a2
    have l1 := lin m0 d0 (monthLen y1 m0)
    have l2 := lin m1 d1 1
    constructor <;> intro _ <;> omega

/-! ### day stepping (used by the week helpers) -/
theorem optI32_some' {x : Int} (h1 : -2147483648 ≤ x) (h2 : x ≤ 2147483647) : optI32 x = some x := by
  unfold optI32 inI32 I32_MIN I32_MAX
  simp [h1, h2]

/-- every date of the range has a day number between those of MIN and MAX -/
theorem dayNum_in_range (y : Int) (o : Nat) (hy : MIN_YEAR ≤ y ∧ y ≤ MAX_YEAR) (ho : 1 ≤ o ∧ o ≤ yearLen y) :
    dayNumYo MIN_YEAR 1 ≤ dayNumYo y o ∧ dayNumYo y o ≤ dayNumYo MAX_YEAR 365 := by
  have hMIN : MIN_YEAR = -262143 := rfl
  have hMAX : MAX_YEAR = 262142 := rfl
  have hdmin : dayNumYo MIN_YEAR 1 = -95746129 := by decide
  have hdmax : dayNumYo MAX_YEAR 365 = 95745399 := by decide
  have h1 := dby_mono MIN_YEAR y hy.1
  have h2 := dby_mono (y + 1) (MAX_YEAR + 1) (by omega)
  have hs := dby_step y
  have a : daysBeforeYear MIN_YEAR = -95746130 := by decide
  have b : daysBeforeYear (MAX_YEAR + 1) = 95745399 := by decide
  rw [hdmin, hdmax]
  unfold dayNumYo
  omega

theorem replace_ordinal' (y : Int) (o o' : Nat) (ho : o < 512) (ho1 : 1 ≤ o') (ho2 : o' ≤ yearLen y) :
    Date.from_yof ((dateOfYo y o).yof - (o : Int) * 16 + (o' : Int) * 16) = .ok (dateOfYo y o') := by
  have := replace_ordinal y o o' ho ho1 ho2
  rw [(dateOfYo_fields y o ho).2.1] at this
  exact this

/-- normal form of the day-number constructor -/
theorem from_days_nf (N : Int) (h : -2147483648 ≤ N + 365 ∧ N + 365 ≤ 2147483647) :
    Date.from_num_days_from_ce_opt N =
      Date.from_ordinal_and_flags ((N + 365) / 146097 * 400 + ((Date.cycle_to_yo ((N + 365) % 146097).toNat).1 : Nat))
        (Date.cycle_to_yo ((N + 365) % 146097).toNat).2
        (YearFlags.from_year_mod_400 ((Date.cycle_to_yo ((N + 365) % 146097).toNat).1 : Nat)) := by
  unfold Date.from_num_days_from_ce_opt
  rw [optI32_some' h.1 h.2]
  dsimp only
  have hc0 : 0 ≤ (N + 365) % 146097 := Int.emod_nonneg _ (by decide)
  have hc1 : (N + 365) % 146097 < 146097 := Int.emod_lt_of_pos _ (by decide)
  have hk : ((N + 365) % 146097).toNat < 146097 := by omega
  obtain ⟨s1, _, _, _⟩ := cycle_to_yo_spec _ hk
  generalize Date.cycle_to_yo ((N + 365) % 146097).toNat = p at *
  obtain ⟨ym, ord⟩ := p
  dsimp only at *
  rw [ckI32_ok (by omega) (by omega)]

/-- `add_days` moves the day number by exactly `days`, or fails exactly when that leaves the range -/
theorem add_days_spec_c08 (y : Int) (o : Nat) (hy : MIN_YEAR ≤ y ∧ y ≤ MAX_YEAR) (ho : 1 ≤ o ∧ o ≤ yearLen y)
    (days : Int) (hd : -1000000000 ≤ days ∧ days ≤ 1000000000) :
    ∃ r, (dateOfYo y o).add_days days = .ok r ∧ IsDateOfDayNum r (dayNumYo y o + days) := by
  have hMIN : MIN_YEAR = -262143 := rfl
  have hMAX : MAX_YEAR = 262142 := rfl
  have hyl := yearLen_ge y
  obtain ⟨hyear, hord, _, _, _, hleap⟩ := dateOfYo_fields y o (by omega)
  have hrange := dayNum_in_range y o hy ho
  have hdmin : dayNumYo MIN_YEAR 1 = -95746129 := by decide
  have hdmax : dayNumYo MAX_YEAR 365 = 95745399 := by decide
  unfold Date.add_days
  rw [hord, hleap, hyear, optI32_some' (by omega) (by omega)]
  dsimp only
  have hyl' : (365 + (if isLeap y = true then 1 else 0) : Int) = yearLen y := by
    unfold yearLen; cases isLeap y <;> simp
  rw [hyl']
  by_cases hfast : (o : Int) + days > 0 ∧ (o : Int) + days ≤ yearLen y
  · rw [if_pos hfast]
    dsimp only
    obtain ⟨k, hk⟩ := Int.eq_ofNat_of_zero_le (show 0 ≤ (o : Int) + days by omega)
    rw [hk, replace_ordinal' y o k (by omega) (by omega) (by omega)]
    dsimp only
    have hr2 := dayNum_in_range y k hy ⟨by omega, by omega⟩
    have hdn : dayNumYo y k = dayNumYo y o + days := by unfold dayNumYo; omega
    refine ⟨_, rfl, ?_, ?_⟩
    · constructor
      · intro h; cases h
      · intro h; exfalso; omega
    · intro d hd'
      exact ⟨y, k, (Option.some.inj hd').symm, hy.1, hy.2, by omega, by omega, hdn⟩
  · rw [if_neg hfast]
    dsimp only
    -- the slow path: through the 400-year cycle
    have hm0 : 0 ≤ y % 400 := Int.emod_nonneg _ (by decide)
    have hm1 : y % 400 < 400 := Int.emod_lt_of_pos _ (by decide)
    obtain ⟨ymn, hymn⟩ := Int.eq_ofNat_of_zero_le hm0
    rw [hymn]
    simp only [Int.toNat_natCast]
    unfold Date.yo_to_cycle
    rw [table_yd.2 ymn (by omega)]
    have hL := (leaps_fin ymn (by omega)).2.1
    have hC : ((ymn * 365 + leapsBefore ymn + o - 1 : Nat) : Int) = (ymn : Int) * 365 + leapsBefore ymn + o - 1 := by
      omega
    rw [hC]
    generalize hCC : (ymn : Int) * 365 + leapsBefore ymn + o - 1 = C
    have hCb : 0 ≤ C ∧ C < 146097 + 366 := by omega
    rw [optI32_some' (by omega) (by omega)]
    dsimp only
    have hq : -14000 ≤ (C + days) / 146097 ∧ (C + days) / 146097 ≤ 14000 := by omega
    rw [ckI32_ok (by omega) (by omega)]
    dsimp only
    -- the same computation as the day-number constructor on `dayNumYo y o + days`
    have hident : dayNumYo y o + days + 365 = 146097 * (y / 400) + (C + days) := by
      unfold dayNumYo
      rw [dby_mod400 y, hymn, dby_small ymn (by omega)]
      omega
    have hN := from_days_nf (dayNumYo y o + days) (by omega)
    have hdiv : (dayNumYo y o + days + 365) / 146097 = y / 400 + (C + days) / 146097 := by omega
    have hmod : (dayNumYo y o + days + 365) % 146097 = (C + days) % 146097 := by omega
    rw [hdiv, hmod] at hN
    have hc0 : 0 ≤ (C + days) % 146097 := Int.emod_nonneg _ (by decide)
    have hc1 : (C + days) % 146097 < 146097 := Int.emod_lt_of_pos _ (by decide)
    have hk : ((C + days) % 146097).toNat < 146097 := by omega
    obtain ⟨s1, _, _, _⟩ := cycle_to_yo_spec _ hk
    obtain ⟨r, hr, hsome, hnone⟩ := ctor_days' (dayNumYo y o + days) (by omega)
    rw [hN] at hr
    generalize Date.cycle_to_yo ((C + days) % 146097).toNat = p at *
    obtain ⟨ym, ord⟩ := p
    dsimp only at *
    rw [ckI32_ok (by omega) (by omega)]
    dsimp only
    rw [ckI32_ok (by omega) (by omega)]
    dsimp only
    exact ⟨r, hr, hnone, hsome⟩


/-! ### weeks -/
theorem daysBack_range (wd s : Int) : 0 ≤ daysBack wd s ∧ daysBack wd s ≤ 6 := by
  unfold daysBack; omega

/-- going back `daysBack` days lands on the chosen weekday -/
theorem daysBack_weekday (n s : Int) (hs : 0 ≤ s ∧ s < 7) :
    weekdayOf (n - daysBack (weekdayOf n) s) = s := by
  unfold daysBack weekdayOf; omega

theorem week_first_spec (y : Int) (o : Nat) (hy : MIN_YEAR ≤ y ∧ y ≤ MAX_YEAR) (ho : 1 ≤ o ∧ o ≤ yearLen y)
    (s : Weekday) :
    ∃ r, ((dateOfYo y o).week s).checked_first_day = .ok r ∧
      IsDateOfDayNum r (dayNumYo y o - daysBack (weekdayOf (dayNumYo y o)) s.toNat) := by
  have hyl := yearLen_ge y
  have hwd := weekday_spec y o (by omega)
  have hw7 := weekday_toNat_lt (dateOfYo y o).weekday
  have hs7 := weekday_toNat_lt s
  unfold NaiveWeek.checked_first_day Date.week
  dsimp only
  rw [num_days_from_monday_eq, num_days_from_monday_eq]
  have hdays : ((s.toNat : Int) - ((dateOfYo y o).weekday.toNat : Int)
        - (if (s.toNat : Int) > ((dateOfYo y o).weekday.toNat : Int) then 7 else 0))
      = -(daysBack (weekdayOf (dayNumYo y o)) s.toNat) := by
    rw [← hwd]; unfold daysBack; omega
  rw [hdays]
  have hb := daysBack_range (weekdayOf (dayNumYo y o)) s.toNat
  obtain ⟨r, hr, hspec⟩ := add_days_spec_c08 y o hy ho (-(daysBack (weekdayOf (dayNumYo y o)) s.toNat)) (by omega)
  exact ⟨r, hr, by rw [Int.sub_eq_add_neg]; exact hspec⟩

theorem week_last_spec (y : Int) (o : Nat) (hy : MIN_YEAR ≤ y ∧ y ≤ MAX_YEAR) (ho : 1 ≤ o ∧ o ≤ yearLen y)
    (s : Weekday) :
    ∃ r, ((dateOfYo y o).week s).checked_last_day = .ok r ∧
      IsDateOfDayNum r (dayNumYo y o - daysBack (weekdayOf (dayNumYo y o)) s.toNat + 6) := by
  have hyl := yearLen_ge y
  have hwd := weekday_spec y o (by omega)
  have hw7 := weekday_toNat_lt (dateOfYo y o).weekday
  have hs7 := weekday_toNat_lt s
  unfold NaiveWeek.checked_last_day Date.week
  dsimp only
  rw [num_days_from_monday_eq, num_days_from_monday_eq, pred_toNat]
  have hdays : ((((s.toNat + 6) % 7 : Nat) : Int) - ((dateOfYo y o).weekday.toNat : Int)
        + (if (((s.toNat + 6) % 7 : Nat) : Int) < ((dateOfYo y o).weekday.toNat : Int) then 7 else 0))
      = 6 - daysBack (weekdayOf (dayNumYo y o)) s.toNat := by
    rw [← hwd]; unfold daysBack; omega
  rw [hdays]
  have hb := daysBack_range (weekdayOf (dayNumYo y o)) s.toNat
  obtain ⟨r, hr, hspec⟩ := add_days_spec_c08 y o hy ho (6 - daysBack (weekdayOf (dayNumYo y o)) s.toNat) (by omega)
  refine ⟨r, hr, ?_⟩
  have e : dayNumYo y o - daysBack (weekdayOf (dayNumYo y o)) ↑s.toNat + 6
      = dayNumYo y o + (6 - daysBack (weekdayOf (dayNumYo y o)) ↑s.toNat) := by omega
  rw [e]; exact hspec

end Chrono.Proofs
