/- Helper lemmas for C06 (proofs of the statements in Props/C06.lean). -/
import Chrono.Spec.DeltaSpec
import Chrono.Proofs.PrimL
import Mathlib.Tactic.Linarith
import Mathlib.Tactic.Ring

namespace Chrono.Proofs
open Chrono Chrono.M Chrono.Spec Chrono.Extracted

/-- unfold every extracted constant used by the Delta model -/
macro "dconsts" : tactic => `(tactic|
  simp only [Delta.MIN, Delta.MAX, TD_MIN_S, TD_MIN_N, TD_MAX_S, TD_MAX_N, NANOS_PER_SEC,
    NANOS_PER_MILLI, NANOS_PER_MICRO, MILLIS_PER_SEC, MICROS_PER_SEC, SECS_PER_MINUTE, SECS_PER_HOUR,
    SECS_PER_DAY, SECS_PER_WEEK, I64_MAX, I64_MIN, ns, nsInRange, NS_MAX, DInv, ofNs] at *)

theorem new_iff' (secs nanos : Int) (hn : 0 ≤ nanos) :
    Delta.new secs nanos =
      if nanos < 1000000000 ∧ nsInRange (ns ⟨secs, nanos⟩) then some ⟨secs, nanos⟩ else none := by
  unfold Delta.new
  dconsts
  apply ite_flip
  omega

theorem ofNs_spec' (n : Int) (h : nsInRange n) : DInv (ofNs n) ∧ ns (ofNs n) = n := by
  dconsts
  omega

theorem ns_injective' (a b : Delta) (ha : DInv a) (hb : DInv b) (h : ns a = ns b) : a = b := by
  cases a; cases b
  dconsts
  simp only [Delta.mk.injEq]
  omega

/-- a valid pair is the canonical representation of its count -/
theorem ofNs_ns (a : Delta) (ha : DInv a) : ofNs (ns a) = a := by
  cases a
  dconsts
  simp only [Delta.mk.injEq]
  omega

theorem try_seconds_exact (s : Int) :
    Delta.try_seconds s =
      if nsInRange (s * 1000000000) then some (ofNs (s * 1000000000)) else none := by
  unfold Delta.try_seconds
  rw [new_iff' s 0 (by omega)]
  have e : ofNs (s * 1000000000) = ⟨s, 0⟩ := by
    simp only [ofNs, Delta.mk.injEq]; omega
  rw [e]
  apply ite_same
  simp only [ns, nsInRange, NS_MAX]
  omega

theorem try_unit_exact' (unit n : Int)
    (hu : unit = 1 ∨ unit = 60 ∨ unit = 3600 ∨ unit = 86400 ∨ unit = 604800)
    (hn : -9223372036854775808 ≤ n ∧ n ≤ 9223372036854775807) :
    Delta.try_unit unit n =
      if nsInRange (n * unit * 1000000000) then some (ofNs (n * unit * 1000000000)) else none := by
  unfold Delta.try_unit
  by_cases hr : -9223372036854775808 ≤ n * unit ∧ n * unit ≤ 9223372036854775807
  · rw [optI64_some hr.1 hr.2]
    exact try_seconds_exact (n * unit)
  · rw [optI64_none (by omega)]
    simp only
    symm
    apply ite_neg'
    simp only [nsInRange, NS_MAX]
    rcases hu with h | h | h | h | h <;> subst h <;> omega

theorem try_milliseconds_exact' (ms : Int)
    (h : -9223372036854775808 ≤ ms ∧ ms ≤ 9223372036854775807) :
    Delta.try_milliseconds ms =
      if nsInRange (ms * 1000000) then some (ofNs (ms * 1000000)) else none := by
  unfold Delta.try_milliseconds
  have e : ofNs (ms * 1000000) = ⟨ms / MILLIS_PER_SEC, (ms % MILLIS_PER_SEC) * NANOS_PER_MILLI⟩ := by
    simp only [ofNs, Delta.mk.injEq, MILLIS_PER_SEC, NANOS_PER_MILLI]; omega
  rw [e]
  apply ite_flip
  simp only [nsInRange, NS_MAX, I64_MAX]
  omega

theorem micro_nano_exact' (x : Int) (h : -9223372036854775808 ≤ x ∧ x ≤ 9223372036854775807) :
    Delta.microseconds x = ofNs (x * 1000) ∧ DInv (Delta.microseconds x) ∧
    Delta.nanoseconds x = ofNs x ∧ DInv (Delta.nanoseconds x) := by
  unfold Delta.microseconds Delta.nanoseconds
  simp only [MICROS_PER_SEC, NANOS_PER_MICRO, NANOS_PER_SEC, ofNs, DInv, ns, nsInRange, NS_MAX,
    Delta.mk.injEq]
  refine ⟨?_, ?_, ?_, ?_⟩
  all_goals first | trivial | omega

theorem new_ofNs (secs nanos n : Int) (hn0 : 0 ≤ nanos) (hn1 : nanos < 1000000000)
    (hv : secs * 1000000000 + nanos = n) :
    Delta.new secs nanos = if nsInRange n then some (ofNs n) else none := by
  rw [new_iff' secs nanos hn0]
  have e : ofNs n = ⟨secs, nanos⟩ := by
    simp only [ofNs, Delta.mk.injEq]; omega
  rw [e]
  apply ite_same
  simp only [ns, nsInRange, NS_MAX]
  omega

/- the extracted constants as equations for `omega` (constants stay folded in the goal, so that
`Decidable` instances inside `if`s keep matching) -/
set_option hygiene false in
macro "dfacts" : tactic => `(tactic|
  (have hNPS : NANOS_PER_SEC = 1000000000 := rfl
   have hNPM : NANOS_PER_MILLI = 1000000 := rfl
   have hNPU : NANOS_PER_MICRO = 1000 := rfl
   have hMPS : MILLIS_PER_SEC = 1000 := rfl
   have hUPS : MICROS_PER_SEC = 1000000 := rfl
   have hSPM : SECS_PER_MINUTE = 60 := rfl
   have hSPH : SECS_PER_HOUR = 3600 := rfl
   have hSPD : SECS_PER_DAY = 86400 := rfl
   have hSPW : SECS_PER_WEEK = 604800 := rfl
   have hI64MAX : I64_MAX = 9223372036854775807 := rfl
   have hI64MIN : I64_MIN = -9223372036854775808 := rfl
   have hMAXs : Delta.MAX.secs = 9223372036854775 := rfl
   have hMAXn : Delta.MAX.nanos = 807000000 := rfl
   have hMINs : Delta.MIN.secs = -9223372036854776 := rfl
   have hMINn : Delta.MIN.nanos = 193000000 := rfl))

theorem add_exact' (a b : Delta) (ha : DInv a) (hb : DInv b) :
    Delta.checked_add a b =
      .ok (if nsInRange (ns a + ns b) then some (ofNs (ns a + ns b)) else none) := by
  obtain ⟨as, an⟩ := a; obtain ⟨bs, bn⟩ := b
  simp only [DInv, ns, nsInRange, NS_MAX] at ha hb
  dfacts
  unfold Delta.checked_add
  simp only [ns]
  rw [ckI64_ok (by omega) (by omega), Res.bind_ok, ckI32_ok (by omega) (by omega), Res.bind_ok]
  by_cases hc : an + bn ≥ NANOS_PER_SEC
  · rw [ite_pos' _ _ hc, ckI32_ok (by omega) (by omega), Res.bind_ok, ckI64_ok (by omega) (by omega),
      Res.bind_ok, asU32_id (by omega) (by omega)]
    simp only [Res.pure_eq]
    exact congrArg Res.ok (new_ofNs _ _ (as * 1000000000 + an + (bs * 1000000000 + bn)) (by omega) (by omega) (by omega))
  · rw [ite_neg' _ _ hc, asU32_id (by omega) (by omega)]
    simp only [Res.pure_eq]
    exact congrArg Res.ok (new_ofNs _ _ (as * 1000000000 + an + (bs * 1000000000 + bn)) (by omega) (by omega) (by omega))

theorem sub_exact' (a b : Delta) (ha : DInv a) (hb : DInv b) :
    Delta.checked_sub a b =
      .ok (if nsInRange (ns a - ns b) then some (ofNs (ns a - ns b)) else none) := by
  obtain ⟨as, an⟩ := a; obtain ⟨bs, bn⟩ := b
  simp only [DInv, ns, nsInRange, NS_MAX] at ha hb
  dfacts
  unfold Delta.checked_sub
  simp only [ns]
  rw [ckI64_ok (by omega) (by omega), Res.bind_ok, ckI32_ok (by omega) (by omega), Res.bind_ok]
  by_cases hc : an - bn < 0
  · rw [ite_pos' _ _ hc, ckI32_ok (by omega) (by omega), Res.bind_ok, ckI64_ok (by omega) (by omega),
      Res.bind_ok, asU32_id (by omega) (by omega)]
    simp only [Res.pure_eq]
    exact congrArg Res.ok (new_ofNs _ _ (as * 1000000000 + an - (bs * 1000000000 + bn)) (by omega) (by omega) (by omega))
  · rw [ite_neg' _ _ hc, asU32_id (by omega) (by omega)]
    simp only [Res.pure_eq]
    exact congrArg Res.ok (new_ofNs _ _ (as * 1000000000 + an - (bs * 1000000000 + bn)) (by omega) (by omega) (by omega))

theorem neg_abs_exact' (a : Delta) (ha : DInv a) :
    Delta.neg a = .ok (ofNs (-(ns a))) ∧
    Delta.abs a = .ok (ofNs (if ns a < 0 then -(ns a) else ns a)) := by
  obtain ⟨as, an⟩ := a
  simp only [DInv, ns, nsInRange, NS_MAX] at ha
  dfacts
  constructor
  · unfold Delta.neg
    simp only [ns]
    by_cases hc : an = 0
    · rw [ite_pos' _ _ hc, ckI64_ok (by omega) (by omega), Res.bind_ok]
      simp only [Res.pure_eq, ofNs, Res.ok.injEq, Delta.mk.injEq]; omega
    · rw [ite_neg' _ _ hc, ckI64_ok (by omega) (by omega), Res.bind_ok, ckI64_ok (by omega) (by omega),
        Res.bind_ok, ckI32_ok (by omega) (by omega), Res.bind_ok]
      simp only [Res.pure_eq, ofNs, Res.ok.injEq, Delta.mk.injEq]; omega
  · unfold Delta.abs Delta.absI64
    simp only [ns]
    by_cases hc : as < 0 ∧ an ≠ 0
    · rw [ite_pos' _ _ hc, ckI64_ok (by omega) (by omega), Res.bind_ok,
        ite_neg' _ _ (by omega : ¬ (as + 1 = I64_MIN)), Res.bind_ok, ckI32_ok (by omega) (by omega),
        Res.bind_ok]
      simp only [Res.pure_eq, ofNs, Res.ok.injEq, Delta.mk.injEq]
      omega
    · rw [ite_neg' _ _ hc, ite_neg' _ _ (by omega : ¬ (as = I64_MIN)), Res.bind_ok]
      simp only [Res.pure_eq, ofNs, Res.ok.injEq, Delta.mk.injEq]
      omega

theorem mul_exact' (a : Delta) (k : Int) (ha : DInv a) (hk : -2147483648 ≤ k ∧ k ≤ 2147483647) :
    Delta.checked_mul a k =
      .ok (if nsInRange (ns a * k) then some (ofNs (ns a * k)) else none) := by
  obtain ⟨as, an⟩ := a
  simp only [DInv, ns, nsInRange, NS_MAX] at ha
  dfacts
  have hp : -(1000000000 * 2147483648) ≤ an * k ∧ an * k ≤ 1000000000 * 2147483648 := by
    constructor <;> nlinarith [ha.1, ha.2.1, hk.1, hk.2]
  have hring : (as * 1000000000 + an) * k = as * k * 1000000000 + an * k := by ring
  unfold Delta.checked_mul
  simp only [ns, hring]
  generalize an * k = p at *
  generalize as * k = q at *
  rw [ckI64_ok (by omega) (by omega), Res.bind_ok]
  simp only [Res.pure_eq, hNPS, hI64MIN, hI64MAX]
  by_cases hc : q + p / 1000000000 ≤ -9223372036854775808 ∨ q + p / 1000000000 ≥ 9223372036854775807
  · rw [ite_pos' _ _ hc]
    congr 1; symm; apply ite_neg'
    simp only [nsInRange, NS_MAX]; omega
  · rw [ite_neg' _ _ hc, asU32_id (by omega) (by omega)]
    exact congrArg Res.ok (new_ofNs _ _ (q * 1000000000 + p) (by omega) (by omega) (by omega))

theorem accessors_spec' (a : Delta) (ha : DInv a) :
    a.num_seconds = Int.tdiv (ns a) 1000000000 ∧ a.subsec_nanos = Int.tmod (ns a) 1000000000 ∧
    a.num_milliseconds = .ok (Int.tdiv (ns a) 1000000) ∧
    a.num_microseconds = optI64 (Int.tdiv (ns a) 1000) ∧
    a.num_nanoseconds = optI64 (ns a) ∧
    a.num_minutes = Int.tdiv (ns a) 60000000000 ∧ a.num_hours = Int.tdiv (ns a) 3600000000000 ∧
    a.num_days = Int.tdiv (ns a) 86400000000000 ∧ a.num_weeks = Int.tdiv (ns a) 604800000000000 ∧
    a.subsec_millis = Int.tdiv (Int.tmod (ns a) 1000000000) 1000000 ∧
    a.subsec_micros = Int.tdiv (Int.tmod (ns a) 1000000000) 1000 := by
  obtain ⟨as, an⟩ := a
  simp only [DInv, ns, nsInRange, NS_MAX] at ha
  dfacts
  have hsec : Delta.num_seconds ⟨as, an⟩ = Int.tdiv (as * 1000000000 + an) 1000000000 := by
    unfold Delta.num_seconds; rw [tdiv_eq]; dsimp only
    by_cases hc : as < 0 ∧ an > 0
    · rw [ite_pos' _ _ hc]; split <;> omega
    · rw [ite_neg' _ _ hc]; split <;> omega
  have hsub : Delta.subsec_nanos ⟨as, an⟩ = Int.tmod (as * 1000000000 + an) 1000000000 := by
    unfold Delta.subsec_nanos; rw [tmod_eq]; dsimp only
    by_cases hc : as < 0 ∧ an > 0
    · rw [ite_pos' _ _ hc]; split <;> omega
    · rw [ite_neg' _ _ hc]; split <;> omega
  simp only [ns]
  refine ⟨hsec, hsub, ?_, ?_, ?_, ?_, ?_, ?_, ?_, ?_, ?_⟩
  · unfold Delta.num_milliseconds
    rw [hsec, hsub]
    simp only [tdiv_eq, tmod_eq, hNPM, hMPS]
    rw [ckI64_ok (by split <;> omega) (by split <;> omega), Res.bind_ok]
    rw [ckI64_ok (by repeat' split <;> omega) (by repeat' split <;> omega)]
    congr 1
    repeat' split <;> omega
  · unfold Delta.num_microseconds
    rw [hsec, hsub]
    simp only [tdiv_eq, tmod_eq, hNPU, hUPS]
    generalize hS : (if 0 ≤ as * 1000000000 + an then (as * 1000000000 + an) / 1000000000
      else -(-(as * 1000000000 + an) / 1000000000)) = S
    have hSv : S = if 0 ≤ as * 1000000000 + an then (as * 1000000000 + an) / 1000000000
      else -(-(as * 1000000000 + an) / 1000000000) := hS.symm
    by_cases h2 : -9223372036854775808 ≤ S * 1000000 ∧ S * 1000000 ≤ 9223372036854775807
    · rw [optI64_some h2.1 h2.2]
      dsimp only
      by_cases h3 : -9223372036854775808 ≤ (if 0 ≤ as * 1000000000 + an then (as * 1000000000 + an) / 1000 else -(-(as * 1000000000 + an) / 1000)) ∧ (if 0 ≤ as * 1000000000 + an then (as * 1000000000 + an) / 1000 else -(-(as * 1000000000 + an) / 1000)) ≤ 9223372036854775807
      · rw [optI64_some h3.1 h3.2, optI64_some (by omega) (by omega)]
        congr 1; omega
      · rw [optI64_none (x := (if 0 ≤ as * 1000000000 + an then (as * 1000000000 + an) / 1000 else -(-(as * 1000000000 + an) / 1000))) (by omega)]
        apply optI64_none
        omega
    · rw [optI64_none (x := S * 1000000) (by omega)]
      dsimp only
      symm; apply optI64_none
      omega
  · unfold Delta.num_nanoseconds
    rw [hsec, hsub]
    simp only [tdiv_eq, tmod_eq, hNPS]
    by_cases hr : -9223372036854775808 ≤ as * 1000000000 + an ∧ as * 1000000000 + an ≤ 9223372036854775807
    · rw [optI64_some (by split <;> omega) (by split <;> omega)]
      dsimp only
      congr 1
      repeat' split <;> omega
    · rw [optI64_none (x := as * 1000000000 + an) (by omega)]
      by_cases h2 : -9223372036854775808 ≤ (if 0 ≤ as * 1000000000 + an then (as * 1000000000 + an) / 1000000000 else -(-(as * 1000000000 + an) / 1000000000)) * 1000000000 ∧ (if 0 ≤ as * 1000000000 + an then (as * 1000000000 + an) / 1000000000 else -(-(as * 1000000000 + an) / 1000000000)) * 1000000000 ≤ 9223372036854775807
      · rw [optI64_some h2.1 h2.2]
        dsimp only
        apply optI64_none
        revert h2; repeat' split <;> omega
      · rw [optI64_none (by omega)]
  · unfold Delta.num_minutes; rw [hsec]; simp only [tdiv_eq, hSPM]; repeat' split <;> omega
  · unfold Delta.num_hours; rw [hsec]; simp only [tdiv_eq, hSPH]; repeat' split <;> omega
  · unfold Delta.num_days; rw [hsec]; simp only [tdiv_eq, hSPD]; repeat' split <;> omega
  · unfold Delta.num_weeks Delta.num_days; rw [hsec]; simp only [tdiv_eq, hSPD]; repeat' split <;> omega
  · unfold Delta.subsec_millis; rw [hsub, hNPM]
  · unfold Delta.subsec_micros; rw [hsub, hNPU]

theorem cmp_spec' (a b : Delta) (ha : DInv a) (hb : DInv b) :
    Delta.cmp a b = (if ns a < ns b then -1 else if ns a > ns b then 1 else 0) := by
  obtain ⟨as, an⟩ := a; obtain ⟨bs, bn⟩ := b
  simp only [DInv, ns, nsInRange, NS_MAX] at ha hb
  unfold Delta.cmp
  simp only [ns]
  repeat' split <;> omega

theorem std_spec' (secs nanos : Int) (hs : 0 ≤ secs ∧ secs ≤ 18446744073709551615)
    (hn : 0 ≤ nanos ∧ nanos < 1000000000) (a : Delta) (ha : DInv a) :
    Delta.from_std secs nanos =
      (if nsInRange (secs * 1000000000 + nanos) then some ⟨secs, nanos⟩ else none) ∧
    Delta.to_std a = (if 0 ≤ ns a then some (a.secs, a.nanos) else none) := by
  obtain ⟨as, an⟩ := a
  simp only [DInv, ns, nsInRange, NS_MAX] at ha
  dfacts
  constructor
  · unfold Delta.from_std
    by_cases hc : secs > Delta.MAX.secs
    · rw [ite_pos' _ _ hc]; symm; apply ite_neg'; simp only [nsInRange, NS_MAX]; omega
    · rw [ite_neg' _ _ hc, new_iff' _ _ hn.1]
      apply ite_same
      simp only [ns, nsInRange, NS_MAX]; omega
  · unfold Delta.to_std
    apply ite_flip
    simp only [ns]; omega

end Chrono.Proofs
