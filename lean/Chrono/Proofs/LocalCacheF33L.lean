/-
  C18, finding F33 (repaired by the crate commit "Local must notice a change of TZ between two values
  whose hashes collide"): the refresh rule of `Cache::offset` AS IT WAS BEFORE THE REPAIR, kept here
  (outside the model, which mirrors the repaired code) so that what it did on two TZ values with equal
  `DefaultHasher` hash stays a kernel-checked statement.

  Before the repair `Source::Environment { hash: u64 }` held `DefaultHasher::new()` (SipHash-1-3, fixed
  key) of the TZ text and `out_of_date` compared hashes.  Everything else (`current_zone`, the window,
  `Cache::default`, the per-thread `TZ_INFO`) is the model's.  Core Lean only.
-/
import Chrono.Proofs.LocalCacheHistL
namespace Chrono.Proofs.LocalCache.BeforeF33
open Chrono.M.LocalCache Chrono.Spec.LocalCache Chrono.Proofs.LocalCache

/-- `enum Source` before the repair -/
inductive Source where
  | localTime (mtime : Nat)
  | environment (hash : Nat)
  deriving DecidableEq, Repr

/-- `Source::new` before the repair; `hash` stands for `DefaultHasher` over the bytes of the value -/
def Source.new (W : World) (hash : Bytes → Nat) (now : Nat) (env_tz : Option Bytes) : Source :=
  match env_tz with
  | some tz => .environment (hash tz)
  | none =>
    match W.ltMtime with
    | some m => .localTime m
    | none => .localTime now

structure Cache where
  zone : Zone
  source : Source
  last_checked : Nat
  deriving DecidableEq, Repr

def Cache.default (W : World) (hash : Bytes → Nat) (now : Nat) (env : EnvVal) : Cache :=
  let env_tz := env_var env
  { last_checked := now, source := Source.new W hash now env_tz, zone := current_zone W env_tz }

/-- the `out_of_date` match before the repair: two environment sources are compared by hash -/
def out_of_date (old new : Source) : Bool :=
  match old, new with
  | .environment _, .localTime _ => true
  | .localTime _, .environment _ => true
  | .localTime old_mtime, .localTime mtime => old_mtime != mtime
  | .environment old_hash, .environment hash => old_hash != hash

def Cache.offset (W : World) (hash : Bytes → Nat) (c : Cache) (now : Nat) (env : EnvVal) : Cache × Decision :=
  if within_window c.last_checked now then (c, .reused)
  else
    let env_tz := env_var env
    let new_source := Source.new W hash now env_tz
    if out_of_date c.source new_source then
      ({ zone := current_zone W env_tz, source := new_source, last_checked := now }, .reloaded)
    else
      ({ c with source := new_source, last_checked := now }, .rechecked)

structure State where
  env : EnvVal
  clock : Nat
  caches : Nat → Option Cache

def update (f : Nat → Option Cache) (t : Nat) (v : Option Cache) : Nat → Option Cache :=
  fun t' => if t' = t then v else f t'

def init (env : EnvVal) (clock : Nat) : State := { env := env, clock := clock, caches := fun _ => none }

def inner_offset (W : World) (hash : Bytes → Nat) (s : State) (t : Nat) : State × Zone × Decision :=
  match s.caches t with
  | some c =>
    let r := Cache.offset W hash c s.clock s.env
    ({ s with caches := update s.caches t (some r.1) }, r.1.zone, r.2)
  | none =>
    let r := Cache.offset W hash (Cache.default W hash s.clock s.env) s.clock s.env
    ({ s with caches := update s.caches t (some r.1) }, r.1.zone, .created)

/-- the model's `step`, with the pre-repair cache -/
def step (W : World) (hash : Bytes → Nat) (s : State) : Step → State × Option (Zone × Decision)
  | .setTZ v => ({ s with env := .val v }, none)
  | .setNotUnicode => ({ s with env := .notUnicode }, none)
  | .unsetTZ => ({ s with env := .unset }, none)
  | .advance ns => ({ s with clock := s.clock + ns }, none)
  | .convert t _ =>
    let r := inner_offset W hash s t
    (r.1, some r.2)
  | .spawn t => ({ s with caches := update s.caches t none }, none)

def run (W : World) (hash : Bytes → Nat) (s : State) : List Step → List (Zone × Decision)
  | [] => []
  | x :: xs =>
    let r := step W hash s x
    match r.2 with
    | some o => o :: run W hash r.1 xs
    | none => run W hash r.1 xs

theorem not_within (k n : Nat) (hn : ONE_SECOND ≤ n) : within_window k (k + n) = false := by
  cases h : within_window k (k + n) with
  | false => rfl
  | true => rw [within_window_iff] at h; omega

/-- PRE-REPAIR BEHAVIOUR (finding F33), for every world, every hash function and every two values
`a`, `b` with equal hash: TZ = a, a conversion on thread `t`, TZ = b, `n ≥ 1 s` pass, a conversion on
the same thread — the second conversion re-reads the environment, finds the hash unchanged, keeps
the zone built for `a`. -/
theorem collision_unnoticed (W : World) (hash : Bytes → Nat) (a b : Bytes) (hcoll : hash a = hash b)
    (e0 : EnvVal) (k0 : Nat) (t : Nat) (l1 l2 : Bool) (n : Nat) (hn : ONE_SECOND ≤ n) :
    run W hash (init e0 k0) [.setTZ a, .convert t l1, .setTZ b, .advance n, .convert t l2] =
      [(current_zone W (some a), .created), (current_zone W (some a), .rechecked)] := by
  have hw0 : within_window k0 k0 = true := within_window_self k0
  have hw1 : within_window k0 (k0 + n) = false := not_within k0 n hn
  simp [run, step, inner_offset, init, Cache.offset, Cache.default, update, hw0, hw1, Source.new,
    out_of_date, env_var, hcoll]

end Chrono.Proofs.LocalCache.BeforeF33

namespace Chrono.Proofs.LocalCache
open Chrono.M.LocalCache Chrono.Spec.LocalCache

theorem not_within' (k n : Nat) (hn : ONE_SECOND ≤ n) : within_window k (k + n) = false :=
  BeforeF33.not_within k n hn

/-- the same history in the model of the repaired code: the second conversion compares the texts,
finds them different, rebuilds the zone for `b` -/
theorem collision_noticed (W : World) (a b : Bytes) (hab : a ≠ b)
    (e0 : EnvVal) (k0 : Nat) (t : Nat) (l1 l2 : Bool) (n : Nat) (hn : ONE_SECOND ≤ n) :
    run W (init e0 k0) [.setTZ a, .convert t l1, .setTZ b, .advance n, .convert t l2] =
      [(current_zone W (some a), .created), (current_zone W (some b), .reloaded)] := by
  have hw0 : within_window k0 k0 = true := within_window_self k0
  have hw1 : within_window k0 (k0 + n) = false := not_within' k0 n hn
  simp [run, step, inner_offset, init, Cache.offset, Cache.default, update, hw0, hw1, Source.new,
    out_of_date, env_var, hab]

end Chrono.Proofs.LocalCache
