/-
  C14: every setter meets `SetterSpec` with the range extracted from the source
  (Extracted/Setters.lean); the three setters of the hour fields are mutually consistent; the empty
  record resolves to NOT_ENOUGH everywhere.
-/
import Chrono.Proofs.ParsedL
import Chrono.Spec.ParsedSetterSpec
import Chrono.Extracted.Setters
import Chrono.Model.ParsedZone
namespace Chrono.Proofs.ParsedSetters
open Chrono Chrono.M Chrono.Spec Chrono.Spec.Fields Chrono.Extracted Chrono.Proofs.ParsedRes

/-- the common shape of the simple setters against `SetterSpec` -/
theorem shape_spec (lo hi : Int) (get : Parsed → Option Int) (store : Int → Int)
    (upd : Parsed → Option Int → Parsed) (g : Int → PRes Int)
    (hg1 : ∀ v, ¬ (lo ≤ v ∧ v ≤ hi) → g v = .error .outOfRange)
    (hg2 : ∀ v, lo ≤ v ∧ v ≤ hi → g v = .ok (store v)) :
    SetterSpec lo hi get store
      (fun p v => do let x ← g v; let f ← Parsed.setIf (get p) x; pure (upd p f)) upd := by
  intro p v
  refine ⟨fun h => ?_, fun h hc => ?_, fun h hc => ?_⟩
  · simp only [hg1 v h, bind, Except.bind]
  · simp only [hg2 v h, bind, Except.bind]
    rcases hc with hc | hc
    · rw [hc]; rfl
    · rw [hc]; simp [Parsed.setIf, pure, Except.pure]
  · simp only [hg2 v h, bind, Except.bind]
    cases hget : get p with
    | none => exact absurd (Or.inl hget) hc
    | some o =>
      have : o ≠ store v := fun e => hc (Or.inr (by rw [hget, e]))
      simp [Parsed.setIf, this]

theorem inRange_out (v lo hi : Int) (h : ¬ (lo ≤ v ∧ v ≤ hi)) : Parsed.inRange v lo hi = .error .outOfRange := by
  unfold Parsed.inRange; rw [if_neg h]
theorem inRange_in (v lo hi : Int) (h : lo ≤ v ∧ v ≤ hi) : Parsed.inRange v lo hi = .ok v := by
  unfold Parsed.inRange; rw [if_pos h]
theorem toI32_out (v : Int) (h : ¬ (-2147483648 ≤ v ∧ v ≤ 2147483647)) : Parsed.toI32 v = .error .outOfRange := by
  cases hr : Parsed.toI32 v with
  | ok x => exact absurd ((toI32_ok v x).mp hr).1 h
  | error e => unfold Parsed.toI32 at hr; split at hr <;> cases hr; rfl
theorem toI32_in (v : Int) (h : -2147483648 ≤ v ∧ v ≤ 2147483647) : Parsed.toI32 v = .ok v :=
  (toI32_ok v v).mpr ⟨h, rfl⟩

/-- all 20 integer-valued setters, with the ranges of Extracted/Setters.lean -/
theorem setters_spec :
    SetterSpec SET_RANGE_year.1 SET_RANGE_year.2 (·.year) id Parsed.set_year (fun p f => { p with year := f }) ∧
    SetterSpec SET_RANGE_year_div_100.1 SET_RANGE_year_div_100.2 (·.year_div_100) id Parsed.set_year_div_100
      (fun p f => { p with year_div_100 := f }) ∧
    SetterSpec SET_RANGE_year_mod_100.1 SET_RANGE_year_mod_100.2 (·.year_mod_100) id Parsed.set_year_mod_100
      (fun p f => { p with year_mod_100 := f }) ∧
    SetterSpec SET_RANGE_isoyear.1 SET_RANGE_isoyear.2 (·.isoyear) id Parsed.set_isoyear
      (fun p f => { p with isoyear := f }) ∧
    SetterSpec SET_RANGE_isoyear_div_100.1 SET_RANGE_isoyear_div_100.2 (·.isoyear_div_100) id
      Parsed.set_isoyear_div_100 (fun p f => { p with isoyear_div_100 := f }) ∧
    SetterSpec SET_RANGE_isoyear_mod_100.1 SET_RANGE_isoyear_mod_100.2 (·.isoyear_mod_100) id
      Parsed.set_isoyear_mod_100 (fun p f => { p with isoyear_mod_100 := f }) ∧
    SetterSpec SET_RANGE_quarter.1 SET_RANGE_quarter.2 (·.quarter) id Parsed.set_quarter
      (fun p f => { p with quarter := f }) ∧
    SetterSpec SET_RANGE_month.1 SET_RANGE_month.2 (·.month) id Parsed.set_month
      (fun p f => { p with month := f }) ∧
    SetterSpec SET_RANGE_week_from_sun.1 SET_RANGE_week_from_sun.2 (·.week_from_sun) id Parsed.set_week_from_sun
      (fun p f => { p with week_from_sun := f }) ∧
    SetterSpec SET_RANGE_week_from_mon.1 SET_RANGE_week_from_mon.2 (·.week_from_mon) id Parsed.set_week_from_mon
      (fun p f => { p with week_from_mon := f }) ∧
    SetterSpec SET_RANGE_isoweek.1 SET_RANGE_isoweek.2 (·.isoweek) id Parsed.set_isoweek
      (fun p f => { p with isoweek := f }) ∧
    SetterSpec SET_RANGE_ordinal.1 SET_RANGE_ordinal.2 (·.ordinal) id Parsed.set_ordinal
      (fun p f => { p with ordinal := f }) ∧
    SetterSpec SET_RANGE_day.1 SET_RANGE_day.2 (·.day) id Parsed.set_day (fun p f => { p with day := f }) ∧
    SetterSpec SET_RANGE_hour12.1 SET_RANGE_hour12.2 (·.hour_mod_12) (fun v => v % 12) Parsed.set_hour12
      (fun p f => { p with hour_mod_12 := f }) ∧
    SetterSpec SET_RANGE_minute.1 SET_RANGE_minute.2 (·.minute) id Parsed.set_minute
      (fun p f => { p with minute := f }) ∧
    SetterSpec SET_RANGE_second.1 SET_RANGE_second.2 (·.second) id Parsed.set_second
      (fun p f => { p with second := f }) ∧
    SetterSpec SET_RANGE_nanosecond.1 SET_RANGE_nanosecond.2 (·.nanosecond) id Parsed.set_nanosecond
      (fun p f => { p with nanosecond := f }) ∧
    SetterSpec SET_RANGE_offset.1 SET_RANGE_offset.2 (·.offset) id Parsed.set_offset
      (fun p f => { p with offset := f }) := by
  have hI : I32_MAX = 2147483647 := rfl
  refine ⟨?_, ?_, ?_, ?_, ?_, ?_, ?_, ?_, ?_, ?_, ?_, ?_, ?_, ?_, ?_, ?_, ?_, ?_⟩
  · exact shape_spec _ _ (·.year) id (fun p f => { p with year := f }) Parsed.toI32 toI32_out toI32_in
  · exact shape_spec _ _ (·.year_div_100) id (fun p f => { p with year_div_100 := f })
      (fun v => Parsed.inRange v 0 I32_MAX) (fun v h => inRange_out v _ _ (by rw [hI]; exact h))
      (fun v h => inRange_in v _ _ (by rw [hI]; exact h))
  · exact shape_spec _ _ (·.year_mod_100) id (fun p f => { p with year_mod_100 := f })
      (fun v => Parsed.inRange v 0 99) (fun v h => inRange_out v _ _ h) (fun v h => inRange_in v _ _ h)
  · exact shape_spec _ _ (·.isoyear) id (fun p f => { p with isoyear := f }) Parsed.toI32 toI32_out toI32_in
  · exact shape_spec _ _ (·.isoyear_div_100) id (fun p f => { p with isoyear_div_100 := f })
      (fun v => Parsed.inRange v 0 I32_MAX) (fun v h => inRange_out v _ _ (by rw [hI]; exact h))
      (fun v h => inRange_in v _ _ (by rw [hI]; exact h))
  · exact shape_spec _ _ (·.isoyear_mod_100) id (fun p f => { p with isoyear_mod_100 := f })
      (fun v => Parsed.inRange v 0 99) (fun v h => inRange_out v _ _ h) (fun v h => inRange_in v _ _ h)
  · exact shape_spec _ _ (·.quarter) id (fun p f => { p with quarter := f })
      (fun v => Parsed.inRange v 1 4) (fun v h => inRange_out v _ _ h) (fun v h => inRange_in v _ _ h)
  · exact shape_spec _ _ (·.month) id (fun p f => { p with month := f })
      (fun v => Parsed.inRange v 1 12) (fun v h => inRange_out v _ _ h) (fun v h => inRange_in v _ _ h)
  · exact shape_spec _ _ (·.week_from_sun) id (fun p f => { p with week_from_sun := f })
      (fun v => Parsed.inRange v 0 53) (fun v h => inRange_out v _ _ h) (fun v h => inRange_in v _ _ h)
  · exact shape_spec _ _ (·.week_from_mon) id (fun p f => { p with week_from_mon := f })
      (fun v => Parsed.inRange v 0 53) (fun v h => inRange_out v _ _ h) (fun v h => inRange_in v _ _ h)
  · exact shape_spec _ _ (·.isoweek) id (fun p f => { p with isoweek := f })
      (fun v => Parsed.inRange v 1 53) (fun v h => inRange_out v _ _ h) (fun v h => inRange_in v _ _ h)
  · exact shape_spec _ _ (·.ordinal) id (fun p f => { p with ordinal := f })
      (fun v => Parsed.inRange v 1 366) (fun v h => inRange_out v _ _ h) (fun v h => inRange_in v _ _ h)
  · exact shape_spec _ _ (·.day) id (fun p f => { p with day := f })
      (fun v => Parsed.inRange v 1 31) (fun v h => inRange_out v _ _ h) (fun v h => inRange_in v _ _ h)
  · -- set_hour12 stores `v % 12` (12 → 0)
    intro p v
    have key : ∀ (h : (1 : Int) ≤ v ∧ v ≤ 12), (if v = 12 then (0 : Int) else v) = v % 12 := by
      intro h; split <;> omega
    refine ⟨fun h => ?_, fun h hc => ?_, fun h hc => ?_⟩
    · have h' : ¬ ((1 : Int) ≤ v ∧ v ≤ 12) := h
      simp only [Parsed.set_hour12, inRange_out v 1 12 h', bind, Except.bind]
    · have h' : (1 : Int) ≤ v ∧ v ≤ 12 := h
      simp only [Parsed.set_hour12, inRange_in v 1 12 h', bind, Except.bind, key h']
      rcases hc with hc | hc
      · have : p.hour_mod_12 = none := hc
        rw [this]; rfl
      · have : p.hour_mod_12 = some (v % 12) := hc
        rw [this]; simp [Parsed.setIf, pure, Except.pure]
    · have h' : (1 : Int) ≤ v ∧ v ≤ 12 := h
      simp only [Parsed.set_hour12, inRange_in v 1 12 h', bind, Except.bind, key h']
      cases hget : p.hour_mod_12 with
      | none => exact absurd (Or.inl hget) hc
      | some o =>
        have : o ≠ v % 12 := fun e => hc (Or.inr (by show p.hour_mod_12 = _; rw [hget, e]))
        simp [Parsed.setIf, this]
  · exact shape_spec _ _ (·.minute) id (fun p f => { p with minute := f })
      (fun v => Parsed.inRange v 0 59) (fun v h => inRange_out v _ _ h) (fun v h => inRange_in v _ _ h)
  · exact shape_spec _ _ (·.second) id (fun p f => { p with second := f })
      (fun v => Parsed.inRange v 0 60) (fun v h => inRange_out v _ _ h) (fun v h => inRange_in v _ _ h)
  · exact shape_spec _ _ (·.nanosecond) id (fun p f => { p with nanosecond := f })
      (fun v => Parsed.inRange v 0 999999999) (fun v h => inRange_out v _ _ h) (fun v h => inRange_in v _ _ h)
  · exact shape_spec _ _ (·.offset) id (fun p f => { p with offset := f }) Parsed.toI32 toI32_out toI32_in

/-- `set_timestamp` has no range check: every `i64` is accepted (the extracted range is all of `i64`) -/
theorem set_timestamp_spec (p : Parsed) (v : Int) :
    SET_RANGE_timestamp = (-9223372036854775808, 9223372036854775807) ∧
    ((p.timestamp = none ∨ p.timestamp = some v) → p.set_timestamp v = .ok { p with timestamp := some v }) ∧
    (¬ (p.timestamp = none ∨ p.timestamp = some v) → p.set_timestamp v = .error .impossible) := by
  refine ⟨rfl, fun hc => ?_, fun hc => ?_⟩
  · unfold Parsed.set_timestamp
    rcases hc with hc | hc
    · rw [hc]; rfl
    · rw [hc]; simp [Parsed.setIf, pure, Except.pure, bind, Except.bind]
  · unfold Parsed.set_timestamp
    cases hget : p.timestamp with
    | none => exact absurd (Or.inl hget) hc
    | some o =>
      have : o ≠ v := fun e => hc (Or.inr (by rw [hget, e]))
      simp [Parsed.setIf, this, bind, Except.bind]

/-- `set_hour`: range, and the two stored halves are `v / 12` and `v % 12` -/
theorem set_hour_spec (p p1 : Parsed) (v : Int) :
    (¬ (SET_RANGE_hour.1 ≤ v ∧ v ≤ SET_RANGE_hour.2) → p.set_hour v = .error .outOfRange) ∧
    (p.set_hour v = .ok p1 ↔ (SET_RANGE_hour.1 ≤ v ∧ v ≤ SET_RANGE_hour.2) ∧
      (p.hour_div_12 = none ∨ p.hour_div_12 = some (v / 12)) ∧
      (p.hour_mod_12 = none ∨ p.hour_mod_12 = some (v % 12)) ∧
      p1 = { p with hour_div_12 := some (v / 12), hour_mod_12 := some (v % 12) }) := by
  have e1 : ∀ (h : (0 : Int) ≤ v ∧ v ≤ 23), (if v ≤ 11 then (0 : Int) else 1) = v / 12 := by
    intro h; split <;> omega
  have e2 : ∀ (h : (0 : Int) ≤ v ∧ v ≤ 23), (if v ≤ 11 then v else v - 12) = v % 12 := by
    intro h; split <;> omega
  constructor
  · intro h
    have h' : ¬ ((0 : Int) ≤ v ∧ v ≤ 23) := h
    simp only [Parsed.set_hour, inRange_out v 0 23 h', bind, Except.bind]
  · rw [set_hour_ok]
    constructor
    · rintro ⟨h, a, b, c⟩
      rw [e1 h] at a c
      rw [e2 h] at b c
      exact ⟨h, a, b, c⟩
    · rintro ⟨h, a, b, c⟩
      have h' : (0 : Int) ≤ v ∧ v ≤ 23 := h
      rw [e1 h', e2 h']
      exact ⟨h', a, b, c⟩

/-- cross-setter consistency of the hour fields: after `set_hour h` succeeded,
`set_ampm pm` is accepted iff `pm ↔ 12 ≤ h`, `set_hour12 v` iff `v` is the 12-hour-clock reading of `h`
(`v ∈ 1..=12`, `v % 12 = h % 12`); conversely after `set_ampm pm` and `set_hour12 v`, `set_hour h` is
accepted iff `h = (if pm then 12 else 0) + v % 12`; the accepted calls leave the record unchanged -/
theorem hour_cross (p p1 : Parsed) (h : Int) (hs : p.set_hour h = .ok p1) :
    (∀ pm : Bool, (∃ p2, p1.set_ampm pm = .ok p2) ↔ (pm = true ↔ 12 ≤ h)) ∧
    (∀ pm p2, p1.set_ampm pm = .ok p2 → p2 = p1) ∧
    (∀ v : Int, (∃ p2, p1.set_hour12 v = .ok p2) ↔ (1 ≤ v ∧ v ≤ 12 ∧ v % 12 = h % 12)) ∧
    (∀ v p2, p1.set_hour12 v = .ok p2 → p2 = p1) ∧
    p1.hour_div_12 = some (h / 12) ∧ p1.hour_mod_12 = some (h % 12) ∧
    hourOfFields (h / 12) (h % 12) = h := by
  obtain ⟨hr, _, _, rfl⟩ := (set_hour_spec p p1 h).2.mp hs
  have hr' : (0 : Int) ≤ h ∧ h ≤ 23 := hr
  refine ⟨fun pm => ?_, fun pm p2 h2 => ?_, fun v => ?_, fun v p2 h2 => ?_, rfl, rfl, ?_⟩
  · unfold Parsed.set_ampm
    simp only [ebind_ok, setIf_ok, pure, Except.pure, Except.ok.injEq]
    constructor
    · rintro ⟨p2, f, ⟨h1, _⟩, _⟩
      try dsimp only at h1
      rcases h1 with h1 | h1
      · cases h1
      · have := Option.some.inj h1
        cases pm <;> simp at this ⊢ <;> omega
    · intro hpm
      refine ⟨_, _, ⟨Or.inr ?_, rfl⟩, rfl⟩
      try dsimp only
      congr 1
      cases pm
      · have : ¬ 12 ≤ h := fun c => by have := hpm.mpr c; cases this
        simp; omega
      · have := hpm.mp rfl
        simp; omega
  · unfold Parsed.set_ampm at h2
    simp only [ebind_ok, setIf_ok, pure, Except.pure, Except.ok.injEq] at h2
    obtain ⟨f, ⟨h1, rfl⟩, rfl⟩ := h2
    try dsimp only at h1
    rcases h1 with h1 | h1
    · cases h1
    · rw [← h1]
  · have hspec := setters_spec.2.2.2.2.2.2.2.2.2.2.2.2.2.1
      { p with hour_div_12 := some (h / 12), hour_mod_12 := some (h % 12) } v
    have hR : SET_RANGE_hour12 = (1, 12) := rfl
    rw [hR] at hspec
    obtain ⟨s1, s2, s3⟩ := hspec
    dsimp only at s1 s2 s3
    constructor
    · rintro ⟨p2, h2⟩
      by_cases hin : (1 : Int) ≤ v ∧ v ≤ 12
      · by_cases hc : (some (h % 12) : Option Int) = none ∨ some (h % 12) = some (v % 12)
        · rcases hc with hc | hc
          · cases hc
          · have := Option.some.inj hc
            exact ⟨hin.1, hin.2, this.symm⟩
        · rw [s3 hin hc] at h2; cases h2
      · rw [s1 hin] at h2; cases h2
    · rintro ⟨a, b, c⟩
      exact ⟨_, s2 ⟨a, b⟩ (Or.inr (by rw [c]))⟩
  · have hspec := setters_spec.2.2.2.2.2.2.2.2.2.2.2.2.2.1
      { p with hour_div_12 := some (h / 12), hour_mod_12 := some (h % 12) } v
    have hR : SET_RANGE_hour12 = (1, 12) := rfl
    rw [hR] at hspec
    obtain ⟨s1, s2, s3⟩ := hspec
    dsimp only at s1 s2 s3
    by_cases hin : (1 : Int) ≤ v ∧ v ≤ 12
    · by_cases hc : (some (h % 12) : Option Int) = none ∨ some (h % 12) = some (v % 12)
      · rw [s2 hin hc] at h2
        cases h2
        rcases hc with hc | hc
        · cases hc
        · rw [← hc]
      · rw [s3 hin hc] at h2; cases h2
    · rw [s1 hin] at h2; cases h2
  · unfold hourOfFields; omega

/-- the converse direction: the 12-hour-clock setters first, then `set_hour` -/
theorem hour_cross_conv (p p1 p2 : Parsed) (pm : Bool) (v : Int) (h1 : p.set_ampm pm = .ok p1)
    (h2 : p1.set_hour12 v = .ok p2) (h : Int) :
    ((∃ p3, p2.set_hour h = .ok p3) ↔ h = (if pm then 12 else 0) + v % 12) ∧
    (∀ p3, p2.set_hour h = .ok p3 → p3 = p2) := by
  unfold Parsed.set_ampm at h1
  simp only [ebind_ok, setIf_ok, pure, Except.pure, Except.ok.injEq] at h1
  obtain ⟨f, ⟨_, rfl⟩, rfl⟩ := h1
  have hspec := setters_spec.2.2.2.2.2.2.2.2.2.2.2.2.2.1
    { p with hour_div_12 := some (if pm then 1 else 0) } v
  have hR : SET_RANGE_hour12 = (1, 12) := rfl
  rw [hR] at hspec
  obtain ⟨s1, s2, s3⟩ := hspec
  dsimp only at s1 s2 s3
  have hin : (1 : Int) ≤ v ∧ v ≤ 12 := by
    by_cases hc : (1 : Int) ≤ v ∧ v ≤ 12
    · exact hc
    · rw [s1 hc] at h2; cases h2
  have hp2 : p2 = { p with hour_div_12 := some (if pm then 1 else 0), hour_mod_12 := some (v % 12) } := by
    by_cases hc : p.hour_mod_12 = none ∨ p.hour_mod_12 = some (v % 12)
    · rw [s2 hin hc] at h2; cases h2; rfl
    · rw [s3 hin hc] at h2; cases h2
  subst hp2
  have hR2 : SET_RANGE_hour = (0, 23) := rfl
  constructor
  · constructor
    · rintro ⟨p3, h3⟩
      obtain ⟨hr, a, b, _⟩ := (set_hour_spec _ p3 h).2.mp h3
      rw [hR2] at hr
      dsimp only at a b hr
      rcases a with a | a
      · cases a
      rcases b with b | b
      · cases b
      have a := Option.some.inj a
      have b := Option.some.inj b
      cases pm <;> simp at a ⊢ <;> omega
    · intro hh
      have hr : (0 : Int) ≤ h ∧ h ≤ 23 := by cases pm <;> simp at hh <;> omega
      refine ⟨_, (set_hour_spec _ _ h).2.mpr ⟨by rw [hR2]; exact hr, Or.inr ?_, Or.inr ?_, rfl⟩⟩
      · dsimp only; congr 1; cases pm <;> simp at hh ⊢ <;> omega
      · dsimp only; congr 1; cases pm <;> simp at hh <;> omega
  · intro p3 h3
    obtain ⟨hr, a, b, rfl⟩ := (set_hour_spec _ p3 h).2.mp h3
    dsimp only at a b
    rcases a with a | a
    · cases a
    rcases b with b | b
    · cases b
    rw [← a, ← b]

/-- `Parsed::new()` (= `Parsed::default()`): every resolver reports NOT_ENOUGH, for every offset
argument, every fixed zone and every step zone -/
theorem new_not_enough (off zone : Int) (z : StepZone) :
    Parsed.to_naive_date Parsed.new = .ok (.error .notEnough) ∧
    Parsed.to_naive_time Parsed.new = .error .notEnough ∧
    Parsed.to_naive_datetime_with_offset Parsed.new off = .ok (.error .notEnough) ∧
    Parsed.to_fixed_offset Parsed.new = .error .notEnough ∧
    Parsed.to_datetime Parsed.new = .ok (.error .notEnough) ∧
    Parsed.to_datetime_with_timezone Parsed.new zone = .ok (.error .notEnough) ∧
    Parsed.to_datetime_with_step_zone Parsed.new z = .ok (.error .notEnough) :=
  ⟨rfl, rfl, rfl, rfl, rfl, rfl, rfl⟩

/-- the quarter field is a pure cross-check of the date resolver: `to_naive_date` is the resolution
of the record WITHOUT the quarter field, followed by the comparison of the quarter field with the
quarter of the resolved date's month -/
theorem date_quarter_factor (p : Parsed) :
    Parsed.to_naive_date p =
      Parsed.RP.bind (Parsed.to_naive_date { p with quarter := none }) fun d =>
        match p.quarter with
        | some q =>
          (match d.month with
           | .ok m => if q ≠ Parsed.quarter_of m then .ok (.error .impossible) else .ok (.ok d)
           | .panic => .panic)
        | none => .ok (.ok d) := by
  have harm : ∀ gy gi, Parsed.armDate { p with quarter := none } (Parsed.dateArm { p with quarter := none } gy gi) =
      Parsed.armDate p (Parsed.dateArm p gy gi) := fun _ _ => rfl
  unfold Parsed.to_naive_date
  show (match Parsed.resolve_year p.year p.year_div_100 p.year_mod_100 with
    | .error e => (.ok (.error e) : Parsed.RP Date)
    | .ok given_year =>
    match Parsed.resolve_year p.isoyear p.isoyear_div_100 p.isoyear_mod_100 with
    | .error e => .ok (.error e)
    | .ok given_isoyear => _) = _
  cases Parsed.resolve_year p.year p.year_div_100 p.year_mod_100 with
  | error e => rfl
  | ok gy =>
    cases Parsed.resolve_year p.isoyear p.isoyear_div_100 p.isoyear_mod_100 with
    | error e => rfl
    | ok gi =>
      simp only [harm]
      cases Parsed.armDate p (Parsed.dateArm p gy gi) with
      | panic => rfl
      | ok r =>
        cases r with
        | error e => rfl
        | ok vd =>
          obtain ⟨b, d⟩ := vd
          cases b <;> rfl

/-- negative years have no century and no two-digit year: a negative full year together with a
century or two-digit-year field, or a negative century, is refused (IMPOSSIBLE; OUT_OF_RANGE when
the two-digit year is not in 0..=99, which is checked first) -/
theorem resolve_year_negative (y qv rv : Int) (q r : Option Int) :
    (y < 0 → (q ≠ none ∨ r ≠ none) →
      Parsed.resolve_year (some y) q r = .error (if Parsed.modOk r then .impossible else .outOfRange)) ∧
    (qv < 0 →
      Parsed.resolve_year none (some qv) (some rv) =
        .error (if 0 ≤ rv ∧ rv ≤ 99 then .impossible else .outOfRange)) ∧
    (0 ≤ y → Parsed.resolve_year (some y) none none = .ok (some y)) ∧
    (y < 0 → Parsed.resolve_year (some y) none none = .ok (some y)) := by
  refine ⟨fun hy hqr => ?_, fun hq => ?_, fun _ => rfl, fun _ => rfl⟩
  · unfold Parsed.resolve_year
    simp only []
    rw [if_neg (by
      rintro ⟨h1, h2⟩
      rcases hqr with h | h
      · exact h h1
      · exact h h2)]
    cases hm : Parsed.modOk r with
    | true => simp [hy]
    | false => simp
  · unfold Parsed.resolve_year
    simp only []
    by_cases hr : 0 ≤ rv ∧ rv ≤ 99
    · rw [if_pos hr, if_pos hr, if_pos hq]
    · rw [if_neg hr, if_neg hr]

/-- reading a field back after a successful set: it holds the stored value, and the argument was in
the setter's range -/
theorem get_after_set (lo hi : Int) (get : Parsed → Option Int) (store : Int → Int)
    (set : Parsed → Int → PRes Parsed) (upd : Parsed → Option Int → Parsed)
    (hs : SetterSpec lo hi get store set upd) (hget : ∀ p f, get (upd p f) = f)
    (p p1 : Parsed) (v : Int) (h : set p v = .ok p1) :
    get p1 = some (store v) ∧ lo ≤ v ∧ v ≤ hi := by
  obtain ⟨s1, s2, s3⟩ := hs p v
  by_cases hin : lo ≤ v ∧ v ≤ hi
  · by_cases hc : (get p = none ∨ get p = some (store v))
    · rw [s2 hin hc] at h; cases h; exact ⟨hget _ _, hin⟩
    · rw [s3 hin hc] at h; cases h
  · rw [s1 hin] at h; cases h

theorem get_after_set_all (p p1 : Parsed) (v : Int) :
    (p.set_year v = .ok p1 → p1.year = some v) ∧
    (p.set_year_div_100 v = .ok p1 → p1.year_div_100 = some v) ∧
    (p.set_year_mod_100 v = .ok p1 → p1.year_mod_100 = some v) ∧
    (p.set_isoyear v = .ok p1 → p1.isoyear = some v) ∧
    (p.set_isoyear_div_100 v = .ok p1 → p1.isoyear_div_100 = some v) ∧
    (p.set_isoyear_mod_100 v = .ok p1 → p1.isoyear_mod_100 = some v) ∧
    (p.set_quarter v = .ok p1 → p1.quarter = some v) ∧
    (p.set_month v = .ok p1 → p1.month = some v) ∧
    (p.set_week_from_sun v = .ok p1 → p1.week_from_sun = some v) ∧
    (p.set_week_from_mon v = .ok p1 → p1.week_from_mon = some v) ∧
    (p.set_isoweek v = .ok p1 → p1.isoweek = some v) ∧
    (p.set_ordinal v = .ok p1 → p1.ordinal = some v) ∧
    (p.set_day v = .ok p1 → p1.day = some v) ∧
    (p.set_hour12 v = .ok p1 → p1.hour_mod_12 = some (v % 12)) ∧
    (p.set_minute v = .ok p1 → p1.minute = some v) ∧
    (p.set_second v = .ok p1 → p1.second = some v) ∧
    (p.set_nanosecond v = .ok p1 → p1.nanosecond = some v) ∧
    (p.set_offset v = .ok p1 → p1.offset = some v) ∧
    (p.set_timestamp v = .ok p1 → p1.timestamp = some v) ∧
    (p.set_hour v = .ok p1 → p1.hour_div_12 = some (v / 12) ∧ p1.hour_mod_12 = some (v % 12)) := by
  obtain ⟨a1, a2, a3, a4, a5, a6, a7, a8, a9, a10, a11, a12, a13, a14, a15, a16, a17, a18⟩ := setters_spec
  refine ⟨fun h => (get_after_set _ _ _ _ _ _ a1 (fun _ _ => rfl) p p1 v h).1,
    fun h => (get_after_set _ _ _ _ _ _ a2 (fun _ _ => rfl) p p1 v h).1,
    fun h => (get_after_set _ _ _ _ _ _ a3 (fun _ _ => rfl) p p1 v h).1,
    fun h => (get_after_set _ _ _ _ _ _ a4 (fun _ _ => rfl) p p1 v h).1,
    fun h => (get_after_set _ _ _ _ _ _ a5 (fun _ _ => rfl) p p1 v h).1,
    fun h => (get_after_set _ _ _ _ _ _ a6 (fun _ _ => rfl) p p1 v h).1,
    fun h => (get_after_set _ _ _ _ _ _ a7 (fun _ _ => rfl) p p1 v h).1,
    fun h => (get_after_set _ _ _ _ _ _ a8 (fun _ _ => rfl) p p1 v h).1,
    fun h => (get_after_set _ _ _ _ _ _ a9 (fun _ _ => rfl) p p1 v h).1,
    fun h => (get_after_set _ _ _ _ _ _ a10 (fun _ _ => rfl) p p1 v h).1,
    fun h => (get_after_set _ _ _ _ _ _ a11 (fun _ _ => rfl) p p1 v h).1,
    fun h => (get_after_set _ _ _ _ _ _ a12 (fun _ _ => rfl) p p1 v h).1,
    fun h => (get_after_set _ _ _ _ _ _ a13 (fun _ _ => rfl) p p1 v h).1,
    fun h => (get_after_set _ _ _ _ _ _ a14 (fun _ _ => rfl) p p1 v h).1,
    fun h => (get_after_set _ _ _ _ _ _ a15 (fun _ _ => rfl) p p1 v h).1,
    fun h => (get_after_set _ _ _ _ _ _ a16 (fun _ _ => rfl) p p1 v h).1,
    fun h => (get_after_set _ _ _ _ _ _ a17 (fun _ _ => rfl) p p1 v h).1,
    fun h => (get_after_set _ _ _ _ _ _ a18 (fun _ _ => rfl) p p1 v h).1,
    fun h => ?_, fun h => ?_⟩
  · obtain ⟨_, s2, s3⟩ := set_timestamp_spec p v
    by_cases hc : p.timestamp = none ∨ p.timestamp = some v
    · rw [s2 hc] at h; cases h; rfl
    · rw [s3 hc] at h; cases h
  · obtain ⟨_, _, _, rfl⟩ := (set_hour_spec p p1 v).2.mp h
    exact ⟨rfl, rfl⟩

end Chrono.Proofs.ParsedSetters
