/- Helper lemmas for C17 (proofs of the statements in Props/C17.lean). -/
import Chrono.Model.Round
import Chrono.Spec.RoundSpec
import Chrono.Proofs.PrimL

namespace Chrono.Proofs.RoundL
open Chrono Chrono.M Chrono.M.Round Chrono.Spec.Round Chrono.Extracted.Round

/-! ### truncating remainder in terms of the Euclidean one -/

theorem tmod_of_emod (s span : Int) (hp : 0 < span) :
    Int.tmod s span = if 0 ≤ s ∨ s % span = 0 then s % span else s % span - span := by
  rw [Int.tmod_eq_emod]
  have hn : ((span.natAbs : Nat) : Int) = span := Int.natAbs_of_nonneg (by omega)
  by_cases h : 0 ≤ s ∨ span ∣ s
  · have h' : 0 ≤ s ∨ s % span = 0 := by
      rcases h with h | h
      · exact Or.inl h
      · exact Or.inr (Int.emod_eq_zero_of_dvd h)
    rw [if_pos h, if_pos h']; simp
  · have h' : ¬ (0 ≤ s ∨ s % span = 0) := by
      intro hh
      rcases hh with hh | hh
      · exact h (Or.inl hh)
      · exact h (Or.inr (Int.dvd_of_emod_eq_zero hh))
    rw [if_neg h, if_neg h', hn]

theorem neg_emod' (s span : Int) (hp : 0 < span) :
    (-s) % span = if s % span = 0 then 0 else span - s % span := by
  rw [Int.neg_emod]
  have hn : ((span.natAbs : Nat) : Int) = span := Int.natAbs_of_nonneg (by omega)
  by_cases h : span ∣ s
  · rw [if_pos h, if_pos (Int.emod_eq_zero_of_dvd h)]
  · have h' : ¬ s % span = 0 := fun hh => h (Int.dvd_of_emod_eq_zero hh)
    rw [if_neg h, if_neg h', hn]

theorem emod_bounds (s span : Int) (hp : 0 < span) : 0 ≤ s % span ∧ s % span < span :=
  ⟨Int.emod_nonneg s (by omega), Int.emod_lt_of_pos s hp⟩

/-! ### the closed forms are what the property says -/

theorem truncSpec_dvd (s span : Int) : span ∣ truncSpec s span := by
  unfold truncSpec
  exact Int.dvd_of_emod_eq_zero (by rw [Int.sub_emod, Int.emod_emod, Int.sub_self]; simp)

theorem dvd_le_truncSpec (s span m : Int) (hp : 0 < span) (hm : span ∣ m) (hle : m ≤ s) :
    m ≤ truncSpec s span := by
  obtain ⟨k, rfl⟩ := hm
  have h1 : k ≤ s / span := Int.le_ediv_of_mul_le hp (by rw [Int.mul_comm]; exact hle)
  have h2 : span * k ≤ span * (s / span) := Int.mul_le_mul_of_nonneg_left h1 (by omega)
  have h3 : span * (s / span) + s % span = s := Int.mul_ediv_add_emod s span
  unfold truncSpec
  omega

theorem upSpec_eq (s span : Int) : upSpec s span = -(truncSpec (-s) span) := by
  unfold upSpec truncSpec; omega

theorem upSpec_dvd (s span : Int) : span ∣ upSpec s span := by
  rw [upSpec_eq]; exact Int.dvd_neg.mpr (truncSpec_dvd (-s) span)

theorem upSpec_le_dvd (s span m : Int) (hp : 0 < span) (hm : span ∣ m) (hle : s ≤ m) :
    upSpec s span ≤ m := by
  rw [upSpec_eq]
  have := dvd_le_truncSpec (-s) span (-m) hp (Int.dvd_neg.mpr hm) (by omega)
  omega

/-! ### evaluation of the model -/

theorem shift_eq (sg n : Int) : shift sg n = sg * n := by
  simp only [shift, Delta.nanoseconds, Chrono.Extracted.NANOS_PER_SEC]
  have : n / 1000000000 * 1000000000 + n % 1000000000 = n := by omega
  rw [this]

theorem remI64_ok (s span : Int) (hp : 0 < span) : remI64 s span = .ok (Int.tmod s span) := by
  unfold remI64
  rw [if_neg (by omega), if_neg (by omega)]

theorem tieUp_eq (a b : Int) : tieUp a b = decide (a ≤ b) := by
  simp [tieUp, TIE_UP]

theorem tieUpSubsec_eq (a b : Int) : tieUpSubsec a b = decide (a ≤ b) := by
  simp [tieUpSubsec, TIE_UP_SUBSEC]

/-- the three guards are `span <= 0` (constants extracted per function) -/
theorem guard_false (span : Int) (hp : 0 < span) :
    ¬ span ≤ SPAN_REFUSED_MAX_ROUND ∧ ¬ span ≤ SPAN_REFUSED_MAX_TRUNC ∧ ¬ span ≤ SPAN_REFUSED_MAX_UP := by
  simp only [SPAN_REFUSED_MAX_ROUND, SPAN_REFUSED_MAX_TRUNC, SPAN_REFUSED_MAX_UP]; omega

theorem guard_true (span : Int) (hp : span ≤ 0) :
    span ≤ SPAN_REFUSED_MAX_ROUND ∧ span ≤ SPAN_REFUSED_MAX_TRUNC ∧ span ≤ SPAN_REFUSED_MAX_UP := by
  simp only [SPAN_REFUSED_MAX_ROUND, SPAN_REFUSED_MAX_TRUNC, SPAN_REFUSED_MAX_UP]; omega

theorem absI64_neg (x : Int) (h1 : -9223372036854775808 < x) (h2 : x < 0) :
    Delta.absI64 x = .ok (-x) := by
  unfold Delta.absI64
  rw [if_neg (by simp only [I64_MIN]; omega), if_pos h2]

/-- the model's `duration_trunc`, evaluated: no step panics; the move is minus the Euclidean remainder -/
theorem trunc_eval (s span : Int) (hp : 0 < span) (hp2 : span ≤ 9223372036854775807) :
    duration_trunc (some s) (some span) = .ok (.ok (-(s % span))) := by
  obtain ⟨hr0, hr1⟩ := emod_bounds s span hp
  have ht := tmod_of_emod s span hp
  unfold duration_trunc
  simp only [remI64_ok s span hp, if_neg (guard_false span hp).2.1, shift_eq]
  generalize s % span = r at *
  generalize Int.tmod s span = dd at *
  by_cases hz : r = 0
  · subst hz
    have : dd = 0 := by rw [ht]; simp
    subst this; simp
  · by_cases hs : 0 ≤ s
    · have hd : dd = r := by rw [ht, if_pos (Or.inl hs)]
      subst hd
      rw [if_neg hz, if_pos (by omega)]
      congr 2; omega
    · have hd : dd = r - span := by
        rw [ht, if_neg (by intro h; rcases h with h | h <;> omega)]
      subst hd
      rw [if_neg (by omega), if_neg (by omega), absI64_neg _ (by omega) (by omega)]
      simp only
      rw [ckI64_ok (by omega) (by omega)]
      simp only
      congr 2; omega

/-- `duration_round_up`, evaluated -/
theorem up_eval (s span : Int) (hp : 0 < span) (hp2 : span ≤ 9223372036854775807) :
    duration_round_up (some s) (some span) = .ok (.ok ((-s) % span)) := by
  obtain ⟨hr0, hr1⟩ := emod_bounds s span hp
  have ht := tmod_of_emod s span hp
  have hn := neg_emod' s span hp
  unfold duration_round_up
  simp only [remI64_ok s span hp, if_neg (guard_false span hp).2.2, shift_eq]
  generalize (-s) % span = u at *
  generalize s % span = r at *
  generalize Int.tmod s span = dd at *
  by_cases hz : r = 0
  · subst hz
    have : dd = 0 := by rw [ht]; simp
    subst this
    have : u = 0 := by rw [hn]; simp
    subst this; simp
  · rw [if_neg hz] at hn
    by_cases hs : 0 ≤ s
    · have hd : dd = r := by rw [ht, if_pos (Or.inl hs)]
      subst hd
      rw [if_neg hz, if_pos (by omega), ckI64_ok (by omega) (by omega)]
      simp only
      congr 2; omega
    · have hd : dd = r - span := by
        rw [ht, if_neg (by intro h; rcases h with h | h <;> omega)]
      subst hd
      rw [if_neg (by omega), if_neg (by omega), absI64_neg _ (by omega) (by omega)]
      simp only
      congr 2; omega

/-- `duration_round`, evaluated: up by `(-s) % span` when that is at most `s % span`, else down -/
theorem round_eval (s span : Int) (hp : 0 < span) (hp2 : span ≤ 9223372036854775807) :
    duration_round (some s) (some span) =
      .ok (.ok (if (-s) % span ≤ s % span then (-s) % span else -(s % span))) := by
  obtain ⟨hr0, hr1⟩ := emod_bounds s span hp
  have ht := tmod_of_emod s span hp
  have hn := neg_emod' s span hp
  unfold duration_round
  simp only [remI64_ok s span hp, if_neg (guard_false span hp).1, shift_eq, tieUp_eq]
  generalize (-s) % span = u at *
  generalize s % span = r at *
  generalize Int.tmod s span = dd at *
  by_cases hz : r = 0
  · subst hz
    have : dd = 0 := by rw [ht]; simp
    subst this
    have : u = 0 := by rw [hn]; simp
    subst this; simp
  · rw [if_neg hz] at hn
    subst hn
    by_cases hs : 0 ≤ s
    · have hd : dd = r := by rw [ht, if_pos (Or.inl hs)]
      subst hd
      rw [if_neg hz, if_neg (by omega), ckI64_ok (by omega) (by omega)]
      simp only
      by_cases hle : span - dd ≤ dd
      · simp only [hle, decide_true, if_true]; congr 2; omega
      · simp only [hle, decide_false, if_false]; simp
    · have hd : dd = r - span := by
        rw [ht, if_neg (by intro h; rcases h with h | h <;> omega)]
      subst hd
      rw [if_neg (by omega), if_pos (by omega), absI64_neg _ (by omega) (by omega)]
      simp only
      rw [ckI64_ok (by omega) (by omega)]
      simp only
      by_cases hle : span - r ≤ r
      · have h1 : -(r - span) ≤ span - -(r - span) := by omega
        simp only [h1, hle, decide_true, if_true]; congr 2; omega
      · have h1 : ¬ (-(r - span) ≤ span - -(r - span)) := by omega
        simp only [h1, hle, decide_false, Bool.false_eq_true, if_false]
        congr 2; omega

/-! ### errors -/

theorem run_span_none (op : Op) (st : Option Int) : run op st none = .ok (.err .DurationExceedsLimit) := by
  cases op <;> rfl

theorem run_span_nonpos (op : Op) (st : Option Int) (span : Int) (h : span ≤ 0) :
    run op st (some span) = .ok (.err .DurationExceedsLimit) := by
  cases op <;> simp only [run, duration_trunc, duration_round, duration_round_up,
    if_pos (guard_true span h).1, if_pos (guard_true span h).2.1, if_pos (guard_true span h).2.2]

theorem run_stamp_none (op : Op) (span : Int) (h : 0 < span) :
    run op none (some span) = .ok (.err .TimestampExceedsLimit) := by
  cases op <;> simp only [run, duration_trunc, duration_round, duration_round_up,
    if_neg (guard_false span h).1, if_neg (guard_false span h).2.1, if_neg (guard_false span h).2.2]

/-- all three operations, evaluated, in terms of the specification -/
theorem run_eval (op : Op) (s span : Int) (hp : 0 < span) (hp2 : span ≤ 9223372036854775807) :
    run op (some s) (some span) = .ok (.ok ((match op with
      | .trunc => truncSpec s span | .round => roundSpec s span | .up => upSpec s span) - s)) := by
  cases op
  · show duration_trunc (some s) (some span) = .ok (.ok (truncSpec s span - s))
    rw [trunc_eval s span hp hp2]; unfold truncSpec; congr 2; omega
  · show duration_round (some s) (some span) = .ok (.ok (roundSpec s span - s))
    rw [round_eval s span hp hp2]
    congr 2
    unfold roundSpec
    have hu : upSpec s span - s = (-s) % span := by unfold upSpec; omega
    have hl : s - truncSpec s span = s % span := by unfold truncSpec; omega
    by_cases h : (-s) % span ≤ s % span
    · rw [if_pos h, if_pos (by rw [hu, hl]; exact h)]; exact hu.symm
    · rw [if_neg h, if_neg (by rw [hu, hl]; exact h)]; omega
  · show duration_round_up (some s) (some span) = .ok (.ok (upSpec s span - s))
    rw [up_eval s span hp hp2]; unfold upSpec; congr 2; omega

/-! ### the stamp -/

theorem timestamp_nanos_opt_eq (ts sub : Int) (h0 : 0 ≤ sub) (h1 : sub < 1000000000) :
    timestamp_nanos_opt ts sub = optI64 (ts * 1000000000 + sub) := by
  unfold timestamp_nanos_opt
  simp only [STAMP_SCALE]

/-! ### sub-second rounding -/

theorem span_table_len : SPAN_TABLE.length = 9 := by decide

theorem span_for_digits_eq (d : Nat) : span_for_digits d = digitSpan d := by
  unfold span_for_digits digitSpan
  by_cases h : d < 9
  · have : ∀ i < 9, SPAN_TABLE.getD i SPAN_DEFAULT = (10 : Int) ^ (9 - min 9 i) := by decide
    exact this d h
  · have hl : SPAN_TABLE.length ≤ d := by rw [span_table_len]; omega
    have hm : min 9 d = 9 := by omega
    rw [List.getD_eq_getElem?_getD, List.getElem?_eq_none hl, hm]
    decide

/-- the ten spans -/
theorem digitSpan_cases (d : Nat) :
    digitSpan d = 1000000000 ∨ digitSpan d = 100000000 ∨ digitSpan d = 10000000 ∨
    digitSpan d = 1000000 ∨ digitSpan d = 100000 ∨ digitSpan d = 10000 ∨ digitSpan d = 1000 ∨
    digitSpan d = 100 ∨ digitSpan d = 10 ∨ digitSpan d = 1 := by
  unfold digitSpan
  have : d = 0 ∨ d = 1 ∨ d = 2 ∨ d = 3 ∨ d = 4 ∨ d = 5 ∨ d = 6 ∨ d = 7 ∨ d = 8 ∨ 9 ≤ d := by omega
  rcases this with h | h | h | h | h | h | h | h | h | h
  all_goals first
    | (subst h; decide)
    | (have hm : min 9 d = 9 := by omega
       rw [hm]; decide)

theorem roundSpec_eq (s span : Int) (hp : 0 < span) :
    roundSpec s span =
      if s % span ≠ 0 ∧ span - s % span ≤ s % span then s - s % span + span else s - s % span := by
  obtain ⟨hr0, hr1⟩ := emod_bounds s span hp
  have hn := neg_emod' s span hp
  have hu : upSpec s span - s = (-s) % span := by unfold upSpec; omega
  have hl : s - truncSpec s span = s % span := by unfold truncSpec; omega
  have hu' : upSpec s span = s + (-s) % span := rfl
  have hl' : truncSpec s span = s - s % span := rfl
  unfold roundSpec
  by_cases hz : s % span = 0
  · have c1 : upSpec s span - s ≤ s - truncSpec s span := by rw [hu, hl, hn, if_pos hz, hz]; omega
    have c2 : ¬ (s % span ≠ 0 ∧ span - s % span ≤ s % span) := fun h => h.1 hz
    rw [if_pos c1, if_neg c2, hu', hn, if_pos hz]; omega
  · rw [if_neg hz] at hn
    by_cases hle : span - s % span ≤ s % span
    · have c1 : upSpec s span - s ≤ s - truncSpec s span := by rw [hu, hl, hn]; exact hle
      have c2 : s % span ≠ 0 ∧ span - s % span ≤ s % span := ⟨hz, hle⟩
      rw [if_pos c1, if_pos c2, hu', hn]; omega
    · have c1 : ¬ (upSpec s span - s ≤ s - truncSpec s span) := by rw [hu, hl, hn]; exact hle
      have c2 : ¬ (s % span ≠ 0 ∧ span - s % span ≤ s % span) := fun h => hle h.2
      rw [if_neg c1, if_neg c2, hl']

theorem remU32_ok (x k : Int) (h0 : 0 ≤ x) (hk : k ≠ 0) : remU32 x k = .ok (x % k) := by
  unfold remU32; rw [if_neg hk, Int.tmod_eq_emod_of_nonneg h0]

theorem ckU32_ok {x : Int} (h1 : 0 ≤ x) (h2 : x ≤ 4294967295) : ckU32 x = .ok x := by
  simp [ckU32, inU32, U32_MAX, h1, h2]

end Chrono.Proofs.RoundL
