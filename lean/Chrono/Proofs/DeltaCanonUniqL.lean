/- Helper lemmas for C06: a canonical text (Spec/DeltaCanonSpec.lean) is determined by the value the
reader of Spec/DeltaDisplaySpec.lean assigns to it.  Pure specification-side facts (no model involved). -/
import Chrono.Proofs.DeltaCanonL

namespace Chrono.Proofs.DeltaCanonUniq
open Chrono Chrono.Spec Chrono.Proofs

/-- value of a digit string, as the reader accumulates it -/
def stepV (v c : Nat) : Nat := v * 10 + (c - 48)
def dval (ds : List Nat) : Nat := ds.foldl stepV 0
def lastD (l : Nat) (ds : List Nat) : Nat := ds.foldl (fun _ c => c - 48) l

theorem isDigit_bounds {c : Nat} (h : isDigit c = true) : 48 ≤ c ∧ c ≤ 57 := by
  simp only [isDigit, Bool.and_eq_true, decide_eq_true_eq] at h; exact h

/-- the reader on a run of digits followed by a non-digit (or the end) -/
theorem readDigits_run : ∀ (ds rest : List Nat) (v n l : Nat), (∀ c ∈ ds, isDigit c = true) →
    (rest = [] ∨ ∃ c t, rest = c :: t ∧ isDigit c = false) →
    readDigits (ds ++ rest) v n l = (ds.foldl stepV v, n + ds.length, lastD l ds, rest) := by
  intro ds
  induction ds with
  | nil =>
    intro rest v n l _ hr
    rcases hr with rfl | ⟨c, t, rfl, hc⟩
    · rfl
    · simp only [List.nil_append, List.foldl_nil, List.length_nil, Nat.add_zero, lastD]
      exact readDigits_stop c t v n l hc
  | cons d ds ih =>
    intro rest v n l hd hr
    have hd0 : isDigit d = true := hd d (List.mem_cons_self ..)
    rw [List.cons_append, readDigits_digit _ _ _ _ _ hd0,
      ih rest _ _ _ (fun c hc => hd c (List.mem_cons_of_mem _ hc)) hr]
    simp only [List.foldl_cons, List.length_cons, lastD, stepV]
    congr 2; omega

theorem foldl_stepV : ∀ (ds : List Nat) (v : Nat), (∀ c ∈ ds, isDigit c = true) →
    ds.foldl stepV v = v * 10 ^ ds.length + dval ds ∧ dval ds < 10 ^ ds.length := by
  intro ds
  induction ds with
  | nil => intro v _; simp [dval]
  | cons d ds ih =>
    intro v hd
    have hb := isDigit_bounds (hd d (List.mem_cons_self ..))
    have hds : ∀ c ∈ ds, isDigit c = true := fun c hc => hd c (List.mem_cons_of_mem _ hc)
    obtain ⟨e1, _⟩ := ih (v * 10 + (d - 48)) hds
    obtain ⟨e2, b2⟩ := ih (0 * 10 + (d - 48)) hds
    have ed : dval (d :: ds) = List.foldl stepV (0 * 10 + (d - 48)) ds := rfl
    have ef : List.foldl stepV v (d :: ds) = List.foldl stepV (v * 10 + (d - 48)) ds := rfl
    rw [ef, ed, e1, e2, List.length_cons, Nat.pow_succ]
    generalize 10 ^ ds.length = P at *
    generalize dval ds = r at *
    have h0 : (0 * 10 + (d - 48)) * P = (d - 48) * P := by rw [Nat.zero_mul, Nat.zero_add]
    have h1 : (v * 10 + (d - 48)) * P = v * (P * 10) + (d - 48) * P := by
      rw [Nat.add_mul, Nat.mul_assoc, Nat.mul_comm 10 P]
    have h2 : (d - 48) * P ≤ 9 * P := Nat.mul_le_mul_right P (by omega)
    constructor <;> omega

theorem dval_cons (d : Nat) (ds : List Nat) (hd : ∀ c ∈ d :: ds, isDigit c = true) :
    dval (d :: ds) = (d - 48) * 10 ^ ds.length + dval ds ∧ dval ds < 10 ^ ds.length := by
  have hds : ∀ c ∈ ds, isDigit c = true := fun c hc => hd c (List.mem_cons_of_mem _ hc)
  obtain ⟨e, b⟩ := foldl_stepV ds (0 * 10 + (d - 48)) hds
  have ed : dval (d :: ds) = List.foldl stepV (0 * 10 + (d - 48)) ds := rfl
  refine ⟨?_, b⟩
  rw [ed, e, Nat.zero_mul, Nat.zero_add]

theorem mul_add_inj (a b P r1 r2 : Nat) (h1 : r1 < P) (h2 : r2 < P) (h : a * P + r1 = b * P + r2) :
    a = b ∧ r1 = r2 := by
  rcases Nat.lt_trichotomy a b with hlt | heq | hgt
  · have : (a + 1) * P ≤ b * P := Nat.mul_le_mul_right P (by omega)
    rw [Nat.succ_mul] at this; omega
  · subst heq; omega
  · have : (b + 1) * P ≤ a * P := Nat.mul_le_mul_right P (by omega)
    rw [Nat.succ_mul] at this; omega

/-- digit strings of one length are determined by their value -/
theorem dval_inj : ∀ (ds1 ds2 : List Nat), (∀ c ∈ ds1, isDigit c = true) → (∀ c ∈ ds2, isDigit c = true) →
    ds1.length = ds2.length → dval ds1 = dval ds2 → ds1 = ds2 := by
  intro ds1
  induction ds1 with
  | nil => intro ds2 _ _ hl _; cases ds2 with
    | nil => rfl
    | cons _ _ => simp at hl
  | cons d1 t1 ih =>
    intro ds2 h1 h2 hl hv
    cases ds2 with
    | nil => simp at hl
    | cons d2 t2 =>
      have hl' : t1.length = t2.length := by simpa using hl
      obtain ⟨e1, b1⟩ := dval_cons d1 t1 h1
      obtain ⟨e2, b2⟩ := dval_cons d2 t2 h2
      rw [e1, e2, hl'] at hv
      rw [hl'] at b1
      obtain ⟨ha, hr⟩ := mul_add_inj _ _ _ _ _ b1 b2 hv
      have hb1 := isDigit_bounds (h1 d1 (List.mem_cons_self ..))
      have hb2 := isDigit_bounds (h2 d2 (List.mem_cons_self ..))
      have : d1 = d2 := by omega
      subst this
      rw [ih t2 (fun c hc => h1 c (List.mem_cons_of_mem _ hc)) (fun c hc => h2 c (List.mem_cons_of_mem _ hc)) hl' hr]

/-- a canonical numeral: `0`, or its value has exactly as many digits as the string -/
theorem canonInt_bounds (ds : List Nat) (h : canonInt ds) :
    (ds = [48] ∧ dval ds = 0) ∨ (1 ≤ ds.length ∧ 10 ^ (ds.length - 1) ≤ dval ds ∧ dval ds < 10 ^ ds.length) := by
  obtain ⟨hne, hd, hz⟩ := h
  cases ds with
  | nil => exact absurd rfl hne
  | cons d t =>
    by_cases h48 : d = 48
    · left
      have := hz (by rw [h48]; rfl)
      exact ⟨this, by rw [this]; rfl⟩
    · right
      obtain ⟨e, b⟩ := dval_cons d t hd
      have hb := isDigit_bounds (hd d (List.mem_cons_self ..))
      have h1 : 1 * 10 ^ t.length ≤ (d - 48) * 10 ^ t.length := Nat.mul_le_mul_right _ (by omega)
      have h9 : (d - 48) * 10 ^ t.length ≤ 9 * 10 ^ t.length := Nat.mul_le_mul_right _ (by omega)
      simp only [List.length_cons, Nat.add_sub_cancel, Nat.pow_succ]
      rw [e]
      refine ⟨by omega, by omega, by omega⟩

theorem canonInt_inj (ds1 ds2 : List Nat) (h1 : canonInt ds1) (h2 : canonInt ds2)
    (hv : dval ds1 = dval ds2) : ds1 = ds2 := by
  rcases canonInt_bounds ds1 h1 with ⟨e1, v1⟩ | ⟨l1, lo1, hi1⟩ <;>
    rcases canonInt_bounds ds2 h2 with ⟨e2, v2⟩ | ⟨l2, lo2, hi2⟩
  · rw [e1, e2]
  · have : 0 < 10 ^ (ds2.length - 1) := Nat.pow_pos (by omega)
    omega
  · have : 0 < 10 ^ (ds1.length - 1) := Nat.pow_pos (by omega)
    omega
  · have hl : ds1.length = ds2.length := by
      rcases Nat.lt_trichotomy ds1.length ds2.length with h | h | h
      · have : 10 ^ ds1.length ≤ 10 ^ (ds2.length - 1) := Nat.pow_le_pow_right (by omega) (by omega)
        omega
      · exact h
      · have : 10 ^ ds2.length ≤ 10 ^ (ds1.length - 1) := Nat.pow_le_pow_right (by omega) (by omega)
        omega
    exact dval_inj ds1 ds2 h1.2.1 h2.2.1 hl hv

/-- the last digit of a non-empty digit string -/
theorem last_digit : ∀ (ds : List Nat) (v l : Nat), ds ≠ [] → (∀ c ∈ ds, isDigit c = true) →
    ∃ c, ds.getLast? = some c ∧ (ds.foldl stepV v) % 10 = c - 48 ∧ lastD l ds = c - 48 := by
  intro ds
  induction ds with
  | nil => intro v l h; exact absurd rfl h
  | cons d t ih =>
    intro v l _ hd
    cases t with
    | nil =>
      have hb := isDigit_bounds (hd d (List.mem_cons_self ..))
      refine ⟨d, rfl, ?_, rfl⟩
      simp only [List.foldl_cons, List.foldl_nil, stepV]; omega
    | cons d' t' =>
      obtain ⟨c, g1, g2, g3⟩ := ih (stepV v d) (d - 48) (by simp) (fun c hc => hd c (List.mem_cons_of_mem _ hc))
      refine ⟨c, ?_, ?_, ?_⟩
      · rw [List.getLast?_cons_cons]; exact g1
      · simpa only [List.foldl_cons] using g2
      · simpa only [lastD, List.foldl_cons] using g3

/-- value of a canonical fraction in nanoseconds -/
def fval : List Nat → Nat
  | [] => 0
  | _ :: ds => dval ds * 10 ^ (9 - ds.length)

theorem pow9 (n : Nat) (h1 : 1 ≤ n) (h9 : n ≤ 9) :
    (n = 1 ∧ 10 ^ (9 - n) = 100000000 ∧ 10 ^ n = 10) ∨ (n = 2 ∧ 10 ^ (9 - n) = 10000000 ∧ 10 ^ n = 100) ∨
    (n = 3 ∧ 10 ^ (9 - n) = 1000000 ∧ 10 ^ n = 1000) ∨ (n = 4 ∧ 10 ^ (9 - n) = 100000 ∧ 10 ^ n = 10000) ∨
    (n = 5 ∧ 10 ^ (9 - n) = 10000 ∧ 10 ^ n = 100000) ∨ (n = 6 ∧ 10 ^ (9 - n) = 1000 ∧ 10 ^ n = 1000000) ∨
    (n = 7 ∧ 10 ^ (9 - n) = 100 ∧ 10 ^ n = 10000000) ∨ (n = 8 ∧ 10 ^ (9 - n) = 10 ∧ 10 ^ n = 100000000) ∨
    (n = 9 ∧ 10 ^ (9 - n) = 1 ∧ 10 ^ n = 1000000000) := by
  have : n = 1 ∨ n = 2 ∨ n = 3 ∨ n = 4 ∨ n = 5 ∨ n = 6 ∨ n = 7 ∨ n = 8 ∨ n = 9 := by omega
  rcases this with rfl | rfl | rfl | rfl | rfl | rfl | rfl | rfl | rfl <;> simp

/-- facts about the digits of a canonical fraction -/
theorem frac_digits (ds : List Nat) (h1 : 1 ≤ ds.length) (hd : ∀ c ∈ ds, isDigit c = true)
    (hl : ds.getLast? ≠ some 48) :
    dval ds < 10 ^ ds.length ∧ dval ds % 10 ≠ 0 ∧ lastD 0 ds ≠ 0 := by
  obtain ⟨_, b⟩ := foldl_stepV ds 0 hd
  have hne : ds ≠ [] := by intro h; rw [h] at h1; simp at h1
  obtain ⟨c, g1, g2, g3⟩ := last_digit ds 0 0 hne hd
  have hc : c ≠ 48 := by intro h; rw [h] at g1; exact hl g1
  have hb := isDigit_bounds (hd c (List.mem_of_getLast? g1))
  refine ⟨b, ?_, ?_⟩
  · show (ds.foldl stepV 0) % 10 ≠ 0
    omega
  · omega

theorem fval_spec (fr : List Nat) (h : canonFrac fr) :
    fval fr < 1000000000 ∧ (fval fr = 0 ↔ fr = []) := by
  rcases h with rfl | ⟨ds, rfl, h1, h9, hd, hl⟩
  · exact ⟨by decide, by simp [fval]⟩
  · obtain ⟨b, m, _⟩ := frac_digits ds h1 hd hl
    simp only [fval]
    generalize ds.length = n at *
    generalize dval ds = v at *
    have hp := pow9 n h1 h9
    refine ⟨?_, ?_⟩
    · rcases hp with ⟨_, e, f⟩ | ⟨_, e, f⟩ | ⟨_, e, f⟩ | ⟨_, e, f⟩ | ⟨_, e, f⟩ | ⟨_, e, f⟩ | ⟨_, e, f⟩ | ⟨_, e, f⟩ | ⟨_, e, f⟩ <;>
        rw [e] <;> rw [f] at b <;> omega
    · constructor
      · intro hz
        rcases hp with ⟨_, e, f⟩ | ⟨_, e, f⟩ | ⟨_, e, f⟩ | ⟨_, e, f⟩ | ⟨_, e, f⟩ | ⟨_, e, f⟩ | ⟨_, e, f⟩ | ⟨_, e, f⟩ | ⟨_, e, f⟩ <;>
          rw [e] at hz <;> omega
      · intro hh; cases hh

theorem fval_inj (fr1 fr2 : List Nat) (h1 : canonFrac fr1) (h2 : canonFrac fr2) (hv : fval fr1 = fval fr2) :
    fr1 = fr2 := by
  have s1 := fval_spec fr1 h1
  have s2 := fval_spec fr2 h2
  rcases h1 with rfl | ⟨ds1, rfl, a1, a9, ad, al⟩
  · exact (s2.2.mp (by rw [← hv]; rfl)).symm
  rcases h2 with rfl | ⟨ds2, rfl, b1, b9, bd, bl⟩
  · exact s1.2.mp (by rw [hv]; rfl)
  obtain ⟨_, m1, _⟩ := frac_digits ds1 a1 ad al
  obtain ⟨_, m2, _⟩ := frac_digits ds2 b1 bd bl
  simp only [fval] at hv
  have key : ds1.length = ds2.length ∧ dval ds1 = dval ds2 := by
    generalize ds1.length = n1 at *
    generalize ds2.length = n2 at *
    generalize dval ds1 = v1 at *
    generalize dval ds2 = v2 at *
    rcases pow9 n1 a1 a9 with ⟨r1, e1, _⟩ | ⟨r1, e1, _⟩ | ⟨r1, e1, _⟩ | ⟨r1, e1, _⟩ | ⟨r1, e1, _⟩ | ⟨r1, e1, _⟩ | ⟨r1, e1, _⟩ | ⟨r1, e1, _⟩ | ⟨r1, e1, _⟩ <;>
      rcases pow9 n2 b1 b9 with ⟨r2, e2, _⟩ | ⟨r2, e2, _⟩ | ⟨r2, e2, _⟩ | ⟨r2, e2, _⟩ | ⟨r2, e2, _⟩ | ⟨r2, e2, _⟩ | ⟨r2, e2, _⟩ | ⟨r2, e2, _⟩ | ⟨r2, e2, _⟩ <;>
      rw [e1, e2] at hv <;> omega
  rw [dval_inj ds1 ds2 ad bd key.1 key.2]

/-- what the reader makes of the body of a canonical text -/
theorem readBody_canon (ip fr : List Nat) (hi : canonInt ip) (hf : canonFrac fr) :
    readBody (84 :: (ip ++ fr ++ [83])) = some (dval ip * 1000000000 + fval fr) := by
  obtain ⟨hne, hd, _⟩ := hi
  have hlen : 0 + ip.length ≠ 0 := by
    cases ip with
    | nil => exact absurd rfl hne
    | cons _ _ => simp
  rcases hf with rfl | ⟨ds, rfl, h1, h9, hdd, hl⟩
  · rw [List.append_nil]
    have h := readDigits_run ip [83] 0 0 0 hd (Or.inr ⟨83, [], rfl, by decide⟩)
    rw [readBody_int _ _ _ _ h hlen]
    simp only [fval, dval, Nat.add_zero]
  · have e : ip ++ 46 :: ds ++ [83] = ip ++ 46 :: (ds ++ [83]) := by simp
    rw [e]
    have h := readDigits_run ip (46 :: (ds ++ [83])) 0 0 0 hd (Or.inr ⟨46, _, rfl, by decide⟩)
    have h2 := readDigits_run ds [83] 0 0 0 hdd (Or.inr ⟨83, [], rfl, by decide⟩)
    obtain ⟨_, _, l0⟩ := frac_digits ds h1 hdd hl
    rw [readBody_frac _ _ _ _ _ _ _ _ h hlen h2 (by omega) l0]
    simp only [fval, dval, Nat.zero_add]

theorem canon_value_pos (ip fr : List Nat) (hi : canonInt ip) (hf : canonFrac fr)
    (hnz : ¬ (ip = [48] ∧ fr = [])) : 0 < dval ip * 1000000000 + fval fr := by
  by_cases hfr : fr = []
  · rcases canonInt_bounds ip hi with ⟨e, _⟩ | ⟨_, lo, _⟩
    · exact absurd ⟨e, hfr⟩ hnz
    · have : 0 < 10 ^ (ip.length - 1) := Nat.pow_pos (by omega)
      omega
  · have := (fval_spec fr hf).2
    have : fval fr ≠ 0 := fun h => hfr (this.mp h)
    omega

theorem canonText_read (neg : Bool) (t : List Nat) (h : canonText neg t) :
    ∃ ip fr, canonInt ip ∧ canonFrac fr ∧
      t = (if neg then [45] else []) ++ [80, 84] ++ ip ++ fr ++ [83] ∧
      0 < dval ip * 1000000000 + fval fr ∧
      (neg = false → readDuration t = some ((dval ip * 1000000000 + fval fr : Nat) : Int)) ∧
      (neg = true → readDuration t = some (-((dval ip * 1000000000 + fval fr : Nat) : Int))) := by
  obtain ⟨ip, fr, e, hi, hf, hnz⟩ := h
  refine ⟨ip, fr, hi, hf, e, canon_value_pos ip fr hi hf hnz, fun hn => ?_, fun hn => ?_⟩
  · subst e; subst hn
    have : (if false = true then [45] else []) ++ [80, 84] ++ ip ++ fr ++ [83] = 80 :: 84 :: (ip ++ fr ++ [83]) := by
      simp
    rw [this, readDuration_pos, readBody_canon ip fr hi hf]
    simp
  · subst e; subst hn
    have : (if true = true then [45] else []) ++ [80, 84] ++ ip ++ fr ++ [83] = 45 :: 80 :: 84 :: (ip ++ fr ++ [83]) := by
      simp
    rw [this, readDuration_neg, readBody_canon ip fr hi hf]
    simp

theorem canon_unique (n1 n2 : Bool) (t1 t2 : List Nat) (h1 : canonText n1 t1) (h2 : canonText n2 t2)
    (hv : readDuration t1 = readDuration t2) : t1 = t2 := by
  obtain ⟨ip1, fr1, i1, f1, e1, p1, r1, s1⟩ := canonText_read n1 t1 h1
  obtain ⟨ip2, fr2, i2, f2, e2, p2, r2, s2⟩ := canonText_read n2 t2 h2
  have b1 := (fval_spec fr1 f1).1
  have b2 := (fval_spec fr2 f2).1
  have key : ∀ (V1 V2 : Nat), 0 < V1 → 0 < V2 →
      (n1 = false → readDuration t1 = some (V1 : Int)) → (n1 = true → readDuration t1 = some (-(V1 : Int))) →
      (n2 = false → readDuration t2 = some (V2 : Int)) → (n2 = true → readDuration t2 = some (-(V2 : Int))) →
      n1 = n2 ∧ V1 = V2 := by
    intro V1 V2 p1 p2 r1 s1 r2 s2
    cases n1 <;> cases n2
    · rw [r1 rfl, r2 rfl] at hv; have := Option.some.inj hv; exact ⟨rfl, by omega⟩
    · rw [r1 rfl, s2 rfl] at hv; have := Option.some.inj hv; exfalso; omega
    · rw [s1 rfl, r2 rfl] at hv; have := Option.some.inj hv; exfalso; omega
    · rw [s1 rfl, s2 rfl] at hv; have := Option.some.inj hv; exact ⟨rfl, by omega⟩
  have hn := key _ _ p1 p2 r1 s1 r2 s2
  obtain ⟨hn1, hn2⟩ := hn
  obtain ⟨ha, hb⟩ := mul_add_inj _ _ _ _ _ b1 b2 hn2
  rw [e1, e2, hn1, canonInt_inj ip1 ip2 i1 i2 ha, fval_inj fr1 fr2 f1 f2 hb]

theorem canon_ne_zero (n : Bool) (t : List Nat) (h : canonText n t) : readDuration t ≠ some 0 := by
  obtain ⟨ip, fr, _, _, _, p, r, s⟩ := canonText_read n t h
  have key : ∀ (V : Nat), 0 < V → (n = false → readDuration t = some (V : Int)) →
      (n = true → readDuration t = some (-(V : Int))) → readDuration t ≠ some 0 := by
    intro V p r s hh
    cases n
    · rw [r rfl] at hh; have := Option.some.inj hh; omega
    · rw [s rfl] at hh; have := Option.some.inj hh; omega
  exact key _ p r s

end Chrono.Proofs.DeltaCanonUniq
