/-
  C14: COMPLETENESS of the timestamp fall-back path of `to_naive_datetime_with_offset` (the resolver
  reconstructs year, ordinal, hour, minute, second from the timestamp field when the date/time fields
  are insufficient), and of `to_datetime` / `to_datetime_with_timezone` (fixed zone) on top of it.
  Rests on C02's `from_timestamp_spec` / `inst_inj` and on the completeness theorems of the date and
  time resolvers (`date_complete_full`, `time_complete'`).
-/
import Chrono.Proofs.ParsedTsL
import Chrono.Proofs.ParsedZonedL
namespace Chrono.Proofs.ParsedRes
open Chrono Chrono.M Chrono.Spec Chrono.Spec.Fields Chrono.Spec.Ts Chrono.Extracted Chrono.Proofs Chrono.Proofs.Ts

/-- a year group whose supplied members agree with a real year of the supported range is coherent -/
theorem coherent_of_agrees (y q r : Option Int) (Y : Int) (hY : -2147483648 ≤ Y ∧ Y ≤ 2147483647)
    (h1 : optIs y Y) (h2 : centIs q r Y) : GroupCoherent y q r := by
  obtain ⟨c1, c2⟩ := h2
  refine ⟨fun rv hr => ?_, fun yv hy hqr => ?_, fun _ qv rv hq hr => ?_⟩
  · have := c2 rv hr; omega
  · have e := h1 yv hy
    subst e
    refine ⟨?_, fun x hx => (c1 x hx).2, fun x hx => (c2 x hx).2⟩
    rcases hqr with h | h
    · obtain ⟨x, hx⟩ := Option.ne_none_iff_exists'.mp h
      exact (c1 x hx).1
    · obtain ⟨x, hx⟩ := Option.ne_none_iff_exists'.mp h
      exact (c2 x hx).1
  · have a := c1 qv hq
    have b := c2 rv hr
    omega

/-- supplied time fields that agree with a valid time of day are in their setters' ranges -/
theorem timeInRange_of_supplied (p : Parsed) (t : Time) (ht : TValid t) (hnl : t.frac < 1000000000)
    (h : TimeAgreesSupplied p t) : TimeInRange p := by
  obtain ⟨a1, a2, a3, a4, a5⟩ := h
  obtain ⟨t0, t1, f0, f1⟩ := ht
  unfold optIs hourOf minuteOf secondOf at *
  refine ⟨fun x hx => ?_, fun x hx => ?_, fun x hx => ?_, fun x hx => ?_, fun x hx => ?_⟩
  · have := a1 x hx; omega
  · have := a2 x hx; omega
  · have := a3 x hx; omega
  · have := a4 x hx
    by_cases c : x = 60
    · rw [if_pos c] at this; omega
    · rw [if_neg c] at this; omega
  · have := a5 x hx; omega

/-- the record after the fall-back path has filled in its five fields agrees with the local
reading the timestamp denotes -/
theorem filled_agrees (p : Parsed) (Y : Int) (o : Nat) (t : Time) (hag : DateAgrees p Y o) :
    DateAgrees (filled p (t.secs % 60) Y o (t.secs / 60 / 60) (t.secs / 60 % 60)) Y o := by
  obtain ⟨a1, a2, a3, a4, a5, a6, a7, a8, a9, a10⟩ := hag
  exact ⟨fun x hx => by cases hx; rfl, a2, a3, a4, a5, a6, a7, fun x hx => by cases hx; rfl, a9, a10⟩

/-- **completeness of the fall-back path**: if the timestamp is that of the (non-leap) local reading
`(Y, o, t)` at `off`, every supplied date field agrees with the day, every supplied time field with
the time of day, the nanosecond field (0 if absent) is the sub-second part and the ISO year group
(left untouched by the path) is determinate, then the path returns exactly that local reading -/
theorem ts_path_complete (p : Parsed) (hp : InType p) (off : Int) (Y : Int) (o : Nat) (t : Time)
    (hvd : VD Y o) (ht : TValid t) (hnl : t.frac < 1000000000)
    (hag : DateAgrees p Y o)
    (hdI : ∀ w, (dateOfYo Y o).iso_week = .ok w →
      GroupDeterminate p.isoyear p.isoyear_div_100 p.isoyear_mod_100 (IsoWeek.year w))
    (hta : TimeAgreesSupplied p t) (hnano : p.nanosecond = none → t.frac = 0) :
    Parsed.from_timestamp_path p off (timestampIs.instSecsLocal ⟨dateOfYo Y o, t⟩ - off) =
      .ok (.ok ⟨dateOfYo Y o, t⟩) := by
  obtain ⟨_, hb1, hb2⟩ := timestamp_spec Y o t hvd ht
  obtain ⟨t0, t1, f0, f1⟩ := id ht
  obtain ⟨g1, g2, _, _, _, _, g7⟩ := vd_fields Y o hvd
  obtain ⟨v1, v2, v3, v4⟩ := id hvd
  have hMIN : MIN_YEAR = -262143 := rfl
  have hMAX : MAX_YEAR = 262142 := rfl
  obtain ⟨i1, i2⟩ := dateInv_of_yo Y o ⟨v1, v2⟩ ⟨v3, v4⟩
  -- the local reading at whole seconds
  have hinv0 : NDTInv ⟨dateOfYo Y o, ⟨t.secs, 0⟩⟩ := ⟨i1, t0, t1, by dsimp only; omega, by dsimp only; omega⟩
  have hL : timestampIs.instSecsLocal ⟨dateOfYo Y o, t⟩ = instSecs ⟨dateOfYo Y o, ⟨t.secs, 0⟩⟩ := by
    unfold timestampIs.instSecsLocal instSecs dayNumOf
    have hE : EPOCH_DAY = 719163 := rfl
    rw [g1, g2, hE]
  generalize hLL : timestampIs.instSecsLocal ⟨dateOfYo Y o, t⟩ = L at *
  unfold Parsed.from_timestamp_path
  have e0 : L - off + off = L := by omega
  rw [e0, optI64_some (by omega) (by omega)]
  simp only []
  obtain ⟨r0, hr0, hnone, hsome⟩ := from_timestamp_spec L 0 (by unfold isI64; omega) (by omega)
  rw [hr0]
  have hrange := instSecs_range _ hinv0
  cases r0 with
  | none =>
    exfalso
    apply hnone.mp rfl
    unfold tsOk nanosOk
    rw [hL]
    exact ⟨hrange.1, hrange.2, Or.inl (by omega)⟩
  | some dtm =>
    obtain ⟨hinv, _, hsecs, hfrac⟩ := hsome dtm rfl
    have hdtm : dtm = ⟨dateOfYo Y o, ⟨t.secs, 0⟩⟩ :=
      Ts.inst_inj dtm _ hinv hinv0 (by rw [hsecs, hL]) hfrac
    subst hdtm
    simp only [okOr_some, bind_okok]
    -- the second field
    obtain ⟨_, _, _, a4, a5⟩ := id hta
    unfold secondOf at a4
    have h60 : p.second ≠ some 60 := by
      intro h
      have := a4 60 h
      rw [if_pos rfl] at this
      omega
    have hsold : p.second = none ∨ p.second = some (t.secs % 60) := by
      cases hs : p.second with
      | none => exact Or.inl rfl
      | some x =>
        right
        have := a4 x hs
        rw [if_neg (by intro c; exact h60 (by rw [hs, c]))] at this
        rw [this.1]
    have hsecond : Time.second ⟨t.secs, 0⟩ = t.secs % 60 := rfl
    have hset : Parsed.set_second p (t.secs % 60) = .ok { p with second := some (t.secs % 60) } :=
      (set_second_ok _ _ _).mpr ⟨_, (inRange_ok _ _ _ _).mpr ⟨by omega, rfl⟩, hsold, rfl⟩
    unfold Parsed.leap_adjust
    rw [if_neg h60]
    dsimp only
    rw [hsecond, hset]
    simp only [Parsed.liftP, bind_okok]
    rw [g1, g2]
    have hhour : Time.hour ⟨t.secs, 0⟩ = t.secs / 60 / 60 := rfl
    have hmin : Time.minute ⟨t.secs, 0⟩ = t.secs / 60 % 60 := rfl
    rw [hhour, hmin]
    have hfc := fill_chain p (t.secs % 60) Y o (t.secs / 60 / 60) (t.secs / 60 % 60) hsold
      (by omega) (by omega) (by omega) (by omega)
      (fun p4 => Parsed.RP.bind (Parsed.to_naive_date p4) fun date =>
        Parsed.RP.bind (.ok (Parsed.to_naive_time p4)) fun time => .ok (.ok (⟨date, time⟩ : NaiveDT)))
    simp only [Parsed.liftP] at hfc
    rw [hfc]
    -- the supplied fields fit
    obtain ⟨b1, b2, b3, _, _⟩ := id hta
    obtain ⟨d1, _, _, _, _, _, _, d8, _, _⟩ := id hag
    unfold optIs at b1 b2 b3
    unfold hourOf at b1 b2
    unfold minuteOf at b3
    have hfit : Fits p (t.secs % 60) Y o (t.secs / 60 / 60) (t.secs / 60 % 60) := by
      refine ⟨hsold, ?_, ?_, ?_, ?_, ?_⟩
      · cases h : p.year with
        | none => exact Or.inl rfl
        | some x => right; rw [d1 x h]
      · cases h : p.ordinal with
        | none => exact Or.inl rfl
        | some x => right; rw [d8 x h]
      · cases h : p.hour_div_12 with
        | none => exact Or.inl rfl
        | some x =>
          right
          have := b1 x h
          congr 1
          split <;> omega
      · cases h : p.hour_mod_12 with
        | none => exact Or.inl rfl
        | some x =>
          right
          have := b2 x h
          congr 1
          split <;> omega
      · cases h : p.minute with
        | none => exact Or.inl rfl
        | some x => right; rw [b3 x h]
    rw [if_pos hfit]
    -- the date
    have hp4 := inType_filled p hp (t.secs % 60) Y o (t.secs / 60 / 60) (t.secs / 60 % 60)
      (by omega) (by omega) (by omega) (by omega) (by omega)
    have hdate := date_complete_full _ hp4 Y o hvd (filled_agrees p Y o t hag)
      ⟨fun h => (by cases h.1), fun h _ _ => (by cases h)⟩ hdI
      (Or.inl ⟨Or.inl (by simp [filled]), Or.inr (Or.inl (by simp [filled]))⟩)
    rw [hdate]
    simp only [bind_okok]
    -- the time
    have htime : Parsed.to_naive_time (filled p (t.secs % 60) Y o (t.secs / 60 / 60) (t.secs / 60 % 60)) = .ok t := by
      apply time_complete' _ t ⟨ht, Or.inl hnl⟩
      · unfold TimeAgrees optIs hourOf minuteOf secondIs nanoIs secondOf
        refine ⟨fun x hx => ?_, fun x hx => ?_, fun x hx => ?_, ⟨fun x hx => ?_, fun h => ?_⟩,
          ⟨a5, fun h => ?_⟩⟩
        · simp only [filled, Option.some.injEq] at hx
          subst hx; split <;> omega
        · simp only [filled, Option.some.injEq] at hx
          subst hx; split <;> omega
        · simp only [filled, Option.some.injEq] at hx
          subst hx; rfl
        · simp only [filled, Option.some.injEq] at hx
          subst hx
          rw [if_neg (by omega)]
          exact ⟨rfl, hnl⟩
        · simp [filled] at h
        · have : p.nanosecond = none := h
          rw [hnano this]; rfl
      · exact ⟨by simp [filled], by simp [filled], by simp [filled], fun _ => by simp [filled]⟩
    rw [htime]
    rfl

/-- **completeness of `to_naive_datetime_with_offset` through the timestamp**: the record does not
contain a sufficient date combination together with a sufficient time combination (so the resolver
falls back on the timestamp), its timestamp field is that of the non-leap local reading `(Y, o, t)`
at `off`, every supplied date/time field agrees with that reading, the nanosecond field (0 if
absent) is its sub-second part and both year groups are determinate ⇒ exactly that reading -/
theorem dt_complete_ts (p : Parsed) (hp : InType p) (off : Int) (Y : Int) (o : Nat) (t : Time)
    (hvd : VD Y o) (ht : TValid t) (hnl : t.frac < 1000000000)
    (hag : DateAgrees p Y o)
    (hdY : GroupDeterminate p.year p.year_div_100 p.year_mod_100 Y)
    (hdI : ∀ w, (dateOfYo Y o).iso_week = .ok w →
      GroupDeterminate p.isoyear p.isoyear_div_100 p.isoyear_mod_100 (IsoWeek.year w))
    (hta : TimeAgreesSupplied p t) (hnano : p.nanosecond = none → t.frac = 0)
    (hts : p.timestamp = some (timestampIs.instSecsLocal ⟨dateOfYo Y o, t⟩ - off))
    (hfb : ¬ (DateSufficient p ∧ TimeSufficient p)) :
    Parsed.to_naive_datetime_with_offset p off = .ok (.ok ⟨dateOfYo Y o, t⟩) := by
  have hpath := ts_path_complete p hp off Y o t hvd ht hnl hag hdI hta hnano
  have hMIN : MIN_YEAR = -262143 := rfl
  have hMAX : MAX_YEAR = 262142 := rfl
  obtain ⟨v1, v2, _, _⟩ := id hvd
  -- the time resolver: a value or NOT_ENOUGH
  have htime : (∃ t', Parsed.to_naive_time p = .ok t' ∧ TimeSufficient p) ∨
      (Parsed.to_naive_time p = .error .notEnough ∧ ¬ TimeSufficient p) := by
    cases h : Parsed.to_naive_time p with
    | ok t' => exact Or.inl ⟨t', rfl, (time_sound' p t' h).2.2.1⟩
    | error e =>
      rcases time_err' p e h with ⟨rfl, h2⟩ | ⟨_, h2⟩
      · exact Or.inr ⟨rfl, h2⟩
      · exact absurd (timeInRange_of_supplied p t ht hnl hta) h2
  -- the date resolver: the day or NOT_ENOUGH
  have hdate : (Parsed.to_naive_date p = .ok (.ok (dateOfYo Y o)) ∧ DateSufficient p) ∨
      (Parsed.to_naive_date p = .ok (.error .notEnough) ∧ ¬ DateSufficient p) := by
    by_cases hds : DateSufficient p
    · left
      refine ⟨date_complete_full p hp Y o hvd hag hdY hdI ?_, hds⟩
      rcases hds.2.2 with h | h
      · exact Or.inl h
      · exact Or.inr h
    · right
      obtain ⟨a1, a2, _, _, _, _, _, _, _, ⟨w, hw, j1, j2, _⟩⟩ := id hag
      have hib := iso_year_bound Y o hvd w hw
      exact ⟨(date_not_enough_iff p hp (coherent_of_agrees _ _ _ Y (by omega) a1 a2)
        (coherent_of_agrees _ _ _ _ (by omega) j1 j2)).mpr hds, hds⟩
  unfold Parsed.to_naive_datetime_with_offset
  rcases hdate with ⟨hd, hds⟩ | ⟨hd, _⟩
  · rcases htime with ⟨t', _, hsuf⟩ | ⟨he, _⟩
    · exact absurd ⟨hds, hsuf⟩ hfb
    · rw [hd, he]
      simp only [hts]
      exact hpath
  · rcases htime with ⟨t', he, _⟩ | ⟨he, _⟩
    · rw [hd, he]
      simp only [hts]
      exact hpath
    · rw [hd, he]
      simp only [hts]
      exact hpath

/-- the timestamp a zone-aware value denotes is that of its wall clock at its offset -/
theorem zoned_stamp (z : Zoned) (hz : ZInv z) (Y : Int) (o : Nat) (t : Time) (hvd : VD Y o) (ht : TValid t)
    (hl : Zoned.naive_local z = .ok ⟨dateOfYo Y o, t⟩) :
    Zoned.from_local_datetime z.off ⟨dateOfYo Y o, t⟩ = .ok (some z) ∧
    instSecs z.utc = timestampIs.instSecsLocal ⟨dateOfYo Y o, t⟩ - z.off ∧ z.utc.time.frac = t.frac := by
  obtain ⟨v1, v2, v3, v4⟩ := id hvd
  obtain ⟨i1, _⟩ := dateInv_of_yo Y o ⟨v1, v2⟩ ⟨v3, v4⟩
  obtain ⟨g1, g2, _⟩ := vd_fields Y o hvd
  have hfl := (Chrono.Props.C04.utc_of_fromUtc z.off z.utc hz.2 hz.1).2.2 _ hl
  have hzz : Zoned.from_utc_datetime z.off z.utc = z := by cases z; rfl
  rw [hzz] at hfl
  obtain ⟨_, _, _, _, e1, e2⟩ :=
    Chrono.Props.C04.local_of_fromLocal z.off ⟨dateOfYo Y o, t⟩ hz.2 ⟨i1, ht⟩ z hfl
  refine ⟨hfl, ?_, e2⟩
  rw [e1]
  unfold timestampIs.instSecsLocal instSecs dayNumOf
  have hE : EPOCH_DAY = 719163 := rfl
  rw [g1, g2, hE]

/-- **completeness of `to_datetime` through the timestamp**: a record whose timestamp field is the
instant of `z`, whose offset field is `z`'s offset (or absent, with `z` at UTC), and whose other
fields agree with `z`'s wall clock without being sufficient on their own, resolves to exactly `z` -/
theorem to_datetime_complete_ts (p : Parsed) (hp : InType p) (z : Zoned) (hz : ZInv z)
    (Y : Int) (o : Nat) (t : Time) (hvd : VD Y o) (ht : TValid t) (hnl : t.frac < 1000000000)
    (hl : Zoned.naive_local z = .ok ⟨dateOfYo Y o, t⟩)
    (hag : DateAgrees p Y o)
    (hdY : GroupDeterminate p.year p.year_div_100 p.year_mod_100 Y)
    (hdI : ∀ w, (dateOfYo Y o).iso_week = .ok w →
      GroupDeterminate p.isoyear p.isoyear_div_100 p.isoyear_mod_100 (IsoWeek.year w))
    (hta : TimeAgreesSupplied p t) (hnano : p.nanosecond = none → t.frac = 0)
    (hts : p.timestamp = some (instSecs z.utc))
    (hoff : p.offset = some z.off ∨ (p.offset = none ∧ z.off = 0))
    (hfb : ¬ (DateSufficient p ∧ TimeSufficient p)) :
    Parsed.to_datetime p = .ok (.ok z) := by
  obtain ⟨hfl, hst, _⟩ := zoned_stamp z hz Y o t hvd ht hl
  have hzo := hz.2
  unfold OffValid at hzo
  have hn := dt_complete_ts p hp z.off Y o t hvd ht hnl hag hdY hdI hta hnano (by rw [hts, hst]) hfb
  have he : Zoned.east_opt z.off = some z.off := by unfold Zoned.east_opt; rw [if_pos hzo]
  rcases hoff with h | ⟨h1, h2⟩
  · simp only [Parsed.to_datetime, h, hn, Parsed.RP.bind, he, hfl]
  · rw [h2] at hn he hfl
    simp only [Parsed.to_datetime, h1, hts, hn, Parsed.RP.bind, he, hfl]

/-- **completeness of `to_datetime_with_timezone` (fixed zone) through the timestamp**: the zone is
`z`'s offset, the timestamp field is the instant of `z`, an offset field (if any) is the zone's
offset, the other fields agree with `z`'s wall clock without being sufficient ⇒ exactly `z` -/
theorem to_datetime_tz_complete_ts (p : Parsed) (hp : InType p) (z : Zoned) (hz : ZInv z)
    (Y : Int) (o : Nat) (t : Time) (hvd : VD Y o) (ht : TValid t) (hnl : t.frac < 1000000000)
    (hl : Zoned.naive_local z = .ok ⟨dateOfYo Y o, t⟩)
    (hag : DateAgrees p Y o)
    (hdY : GroupDeterminate p.year p.year_div_100 p.year_mod_100 Y)
    (hdI : ∀ w, (dateOfYo Y o).iso_week = .ok w →
      GroupDeterminate p.isoyear p.isoyear_div_100 p.isoyear_mod_100 (IsoWeek.year w))
    (hta : TimeAgreesSupplied p t) (hnano : p.nanosecond = none → t.frac = 0)
    (hts : p.timestamp = some (instSecs z.utc))
    (hoff : ∀ x, p.offset = some x → x = z.off)
    (hfb : ¬ (DateSufficient p ∧ TimeSufficient p)) :
    Parsed.to_datetime_with_timezone p z.off = .ok (.ok z) := by
  obtain ⟨hfl, hst, hfr⟩ := zoned_stamp z hz Y o t hvd ht hl
  have hn := dt_complete_ts p hp z.off Y o t hvd ht hnl hag hdY hdI hta hnano (by rw [hts, hst]) hfb
  obtain ⟨t0, t1, f0, f1⟩ := id ht
  -- the nanosecond field is a valid sub-second part
  have hnv : 0 ≤ p.nanosecond.getD 0 ∧ p.nanosecond.getD 0 < 1000000000 := by
    cases hnn : p.nanosecond with
    | none => simp
    | some n =>
      have := hta.2.2.2.2 n hnn
      simp only [Option.getD_some]; omega
  have hrange := instSecs_range z.utc hz.1
  obtain ⟨r0, hr0, hnone, _⟩ := from_timestamp_spec (instSecs z.utc) (p.nanosecond.getD 0)
    (by unfold isI64; rw [ts_min_val, ts_max_val] at hrange; omega) hnv.1
  have hsome : ∃ d0, r0 = some d0 := by
    cases r0 with
    | some d0 => exact ⟨d0, rfl⟩
    | none =>
      exfalso
      apply hnone.mp rfl
      exact ⟨hrange.1, hrange.2, Or.inl hnv.2⟩
  obtain ⟨d0, rfl⟩ := hsome
  simp only [Parsed.to_datetime_with_timezone, hts, hr0, okOr_some, bind_okok, hn, hfl]
  cases hpo : p.offset with
  | none => rfl
  | some x => simp [hoff x hpo]

end Chrono.Proofs.ParsedRes
