/-
  C13: what happens on the values the family theorems exclude.
  * zone-aware values with a field format whose truncated local reading cannot be put back at the printed
    (minute-rounded) offset: the resolver answers IMPOSSIBLE (`family_zoned_total`);
  * a leap-second representation on a second other than :59 (only `with_nanosecond` builds it): a `NaiveTime`
    is formatted exactly like the normalised time one second later (`leap_format_normalised`).
  Namespace `Chrono.Proofs.RoundTrip`.
-/
import Chrono.Proofs.RoundTripFormatOkL
import Chrono.Proofs.ZonedL
import Chrono.Proofs.ZonedStepL

namespace Chrono.Proofs.RoundTrip
open Chrono Chrono.M Chrono.M.Scan Chrono.Spec Chrono.Spec.Fields Chrono.Extracted Chrono.Proofs Chrono.Proofs.ParsedRes

theorem truncTime_valid (is : List Item) (t : Time) (h : TValid t) : TValid (truncTime is t) := by
  obtain ⟨t1, t2, t3, t4⟩ := h
  obtain ⟨c1, c2⟩ := cutFrac_bounds t.frac (fracDigits is) t3
  unfold TValid truncTime
  dsimp only
  split
  · dsimp only; omega
  · dsimp only; split <;> omega

/-- a format that prints the second and nine fraction digits prints the whole time -/
theorem truncTime_exact (is : List Item) (t : Time) (h : TValid t) (hs : (carries is).second = true)
    (hf : fracDigits is = 9) : truncTime is t = t := by
  obtain ⟨_, _, t3, t4⟩ := h
  have e9 := (cutFrac_forms t.frac).1
  simp only [truncTime, hs, hf, e9, Bool.true_eq_false, if_false]
  cases t with
  | mk secs frac =>
    simp only [Time.mk.injEq, true_and]
    simp only at t3 t4
    split <;> omega

/-- **round trip, target `DateTime<FixedOffset>`, field formats, total form**: whatever
`from_local_datetime` answers for the truncated local reading at the printed offset decides the result —
the value, or IMPOSSIBLE when that instant lies outside the supported range -/
theorem family_zoned_total (is : List Item) (z : Zoned) (Y : Int) (o : Nat) (hvd : VD Y o) (t : Time) (htv : TValid t)
    (hl : z.overflowing_naive_local = .ok ⟨dateOfYo Y o, t⟩) (hzo : -86400 < z.off ∧ z.off < 86400)
    (text : List Nat) (hp : ∀ it ∈ is, provedItem it = true) (hU : Unambiguous is .zoned)
    (hfd : fullDate (carries is) = true) (hft : fullTime (carries is) = true)
    (hot : (carries is).offset = true ∨ (carries is).timestamp = true) (hsafe : spaceSafe is = true)
    (hE : expressible is (.zoned z))
    (hfmt : ParseFrom.formatItemsOf (.zoned z) is = Format.wok text) :
    ∃ p', Parse.parse Parsed.new text is = .ok p' ∧
      ParseFrom.resolve .zoned p' =
        match Zoned.from_local_datetime (if (carries is).offset = true then roundedOffset z.off else 0)
            ⟨dateOfYo Y o, truncTime is t⟩ with
        | .panic => .panic
        | .ok none => .ok (.error .impossible)
        | .ok (some z') => .ok (.ok (.zoned z')) := by
  obtain ⟨fy, _⟩ := date_facts Y o hvd
  obtain ⟨_, ⟨hsep, _⟩, hg1, hg2, _⟩ := hU
  obtain ⟨hEy, hEl, hEo, hEs, hEf⟩ := hE
  have hEl := exprLeap_of_for is _ hft hEl
  simp only [exprLeap, shown, hl, onSome] at hEl
  simp only [exprFrac, shown, hl, onSome] at hEf
  simp only [exprYears, shown, hl, onSome, fy] at hEy
  simp only [exprStamp, shown, hl, onSome] at hEs
  simp only [exprOffset, shown, hl, onSome] at hEo
  simp only [ParseFrom.formatItemsOf, hl, Format.W.ofRes] at hfmt
  generalize hoff' : (if (carries is).offset = true then roundedOffset z.off else 0) = off'
  have hr1 : -86400 < off' ∧ off' < 86400 := by
    rw [← hoff']
    by_cases ho : (carries is).offset = true
    · rw [if_pos ho]; exact hEo ho
    · rw [if_neg ho]; omega
  have hstampOff : (carries is).timestamp = true → off' = z.off := by
    intro hts
    have := (hEs hts hfd hft).1
    rw [← hoff']
    by_cases ho : (carries is).offset = true
    · rw [if_pos ho] at this ⊢; exact rounded_of_whole _ this
    · rw [if_neg ho] at this ⊢; exact this.symm
  obtain ⟨p', h1, h2, hoS, hoI, htI⟩ := family_datetime_core is Y o hvd t htv
    ⟨some (dateOfYo Y o), some t, some (Format.fixedOffsetName z.off, z.off)⟩ rfl rfl
    (fun x h => by cases h; exact hzo) (roundedOffset z.off) off' (fun x h => by cases h; rfl)
    (rounded_range z.off hzo) hr1 text hp hsep hg1 hg2 hfd hft hsafe
    (fun w hw => by rw [hw] at hEy; exact hEy) hEl hEf hstampOff
    (fun hts hs => (hEs hts hfd hft).2 hs) hfmt
  refine ⟨p', h1, ?_⟩
  have hoffsel : p'.offset = some off' ∨ (p'.offset = none ∧ p'.timestamp ≠ none ∧ off' = 0) := by
    by_cases ho : (carries is).offset = true
    · rw [ho] at hoI
      cases hpo : p'.offset with
      | none => rw [hpo] at hoI; cases hoI
      | some x =>
        have := hoS x hpo
        left; rw [← hoff', if_pos ho, this]
    · have hto : (carries is).timestamp = true := by
        rcases hot with h | h
        · exact absurd h ho
        · exact h
      have ho' : (carries is).offset = false := by simpa using ho
      rw [ho'] at hoI
      rw [hto] at htI
      exact Or.inr ⟨(isSome_false_iff _).mp hoI, (isSome_true_iff _).mp htI, by rw [← hoff', if_neg ho]⟩
  have heast : Zoned.east_opt off' = some off' := by
    unfold Zoned.east_opt; rw [if_pos hr1]
  simp only [ParseFrom.resolve, to_datetime_of p' off' _ hoffsel h2 heast]
  cases hfl : Zoned.from_local_datetime off' ⟨dateOfYo Y o, truncTime is t⟩ with
  | panic => rfl
  | ok r => cases r <;> rfl

/-- putting a local reading (an existing day, a valid time) back at an offset never panics -/
theorem from_local_no_panic (off : Int) (ho : -86400 < off ∧ off < 86400) (Y : Int) (o : Nat) (hvd : VD Y o)
    (t : Time) (ht : TValid t) : ∃ r, Zoned.from_local_datetime off ⟨dateOfYo Y o, t⟩ = .ok r := by
  obtain ⟨v1, v2, v3, v4⟩ := hvd
  have hdi := (Chrono.Proofs.Ts.dateInv_of_yo Y o ⟨v1, v2⟩ ⟨v3, v4⟩).1
  have hext := ((Chrono.Proofs.dateInv_iff _).mp hdi).1
  obtain ⟨r, h, _⟩ := Chrono.Proofs.from_local_spec off ⟨dateOfYo Y o, t⟩ ho ⟨hext, ht⟩
  exact ⟨r, h⟩

/-! ### leap-second representation on a second other than :59 -/

/-- the normalised reading of such a time: one second later, fraction below one second -/
def leapNormal (t : Time) : Time := ⟨t.secs + 1, t.frac - 1000000000⟩

theorem leap_item_same (t : Time) (hv : TValid t) (hl : 1000000000 ≤ t.frac) (hs : t.secs % 60 ≠ 59)
    (it : Item) :
    Format.format_item none (some t) none it = Format.format_item none (some (leapNormal t)) none it := by
  obtain ⟨t1, t2, t3, t4⟩ := hv
  have hh : t.hour = (leapNormal t).hour := by
    unfold leapNormal Time.hour Time.hms; dsimp only; omega
  have hm : t.minute = (leapNormal t).minute := by
    unfold leapNormal Time.minute Time.hms; dsimp only; omega
  have h12 : t.hour12 = (leapNormal t).hour12 := by
    unfold Time.hour12; rw [hh]
  have hsec : t.second + t.nanosecond / 1000000000 =
      (leapNormal t).second + (leapNormal t).nanosecond / 1000000000 := by
    unfold leapNormal Time.second Time.nanosecond Time.hms; dsimp only; omega
  have hn9 : t.nanosecond % 1000000000 = (leapNormal t).nanosecond % 1000000000 := by
    unfold leapNormal Time.nanosecond; dsimp only; omega
  have hn3 : t.nanosecond / 1000000 % 1000 = (leapNormal t).nanosecond / 1000000 % 1000 := by
    unfold leapNormal Time.nanosecond; dsimp only; omega
  have hn6 : t.nanosecond / 1000 % 1000000 = (leapNormal t).nanosecond / 1000 % 1000000 := by
    unfold leapNormal Time.nanosecond; dsimp only; omega
  cases it with
  | literal l => rfl
  | space s => rfl
  | error => rfl
  | numeric n pad =>
    cases n <;> simp only [Format.format_item, Format.format_numeric, hh, hm, h12, hsec, hn9]
  | fixed f =>
    cases f <;> simp only [Format.format_item, Format.format_fixed, h12, hn9, hn3, hn6]

/-- **a `NaiveTime` in leap representation off second :59 is formatted, by every format string, exactly
like the normalised time one second later** — so what reads back is (the truncation of) that normalised
time, a different `NaiveTime` value -/
theorem leap_format_normalised (t : Time) (hv : TValid t) (hl : 1000000000 ≤ t.frac) (hs : t.secs % 60 ≠ 59)
    (is : List Item) :
    ParseFrom.formatItemsOf (.time t) is = ParseFrom.formatItemsOf (.time (leapNormal t)) is := by
  show Format.formatItemsR none (some t) none is = Format.formatItemsR none (some (leapNormal t)) none is
  induction is with
  | nil => rfl
  | cons it is ih => simp only [Format.formatItemsR, leap_item_same t hv hl hs it, ih]

/-- a format with a full date, a full time with the second and nine fraction digits, and an offset item
loses nothing of a zone-aware value with a whole-minute offset -/
theorem truncate_zoned_exact (is : List Item) (z : Zoned) (hz : ZInv z) (l : NaiveDT)
    (hl : z.overflowing_naive_local = .ok l) (htv : TValid l.time) (hw : wallInRange l.date = true)
    (hfd : fullDate (carries is) = true) (hft : fullTime (carries is) = true)
    (hs : (carries is).second = true) (hf : fracDigits is = 9) (ho : (carries is).offset = true)
    (hm : z.off % 60 = 0) : truncate_to_precision is (.zoned z) = some (.zoned z) := by
  cases l with
  | mk d t =>
    simp only [truncate_to_precision, hfd, hft, Bool.and_self, if_true, hl, ho, rounded_of_whole _ hm, hw,
      truncTime_exact is t htv hs hf, Chrono.Proofs.ZN.from_local_of_wall z hz ⟨d, t⟩ hl]

theorem truncTime_leap_ne (is : List Item) (t : Time) (hv : TValid t) (hl : 1000000000 ≤ t.frac)
    (hs : t.secs % 60 ≠ 59) : truncTime is (leapNormal t) ≠ t := by
  obtain ⟨t1, t2, t3, t4⟩ := hv
  have h0 : 0 ≤ (leapNormal t).frac := by unfold leapNormal; dsimp only; omega
  obtain ⟨c1, c2⟩ := cutFrac_bounds (leapNormal t).frac (fracDigits is) h0
  intro h
  have hf := congrArg Time.frac h
  unfold truncTime at hf
  dsimp only at hf
  have hlt : (leapNormal t).frac < 1000000000 := by unfold leapNormal; dsimp only; omega
  split at hf
  · dsimp only at hf; omega
  · dsimp only at hf
    rw [if_neg (by omega)] at hf
    omega

theorem leapNormal_valid (t : Time) (hv : TValid t) (hl : 1000000000 ≤ t.frac) (hs : t.secs % 60 ≠ 59) :
    TValid (leapNormal t) ∧ (leapNormal t).frac < 1000000000 := by
  obtain ⟨t1, t2, t3, t4⟩ := hv
  unfold TValid leapNormal
  dsimp only
  omega

end Chrono.Proofs.RoundTrip
