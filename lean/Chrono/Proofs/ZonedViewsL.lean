/-
  C04: the ISO week and the derived `Datelike` / `Timelike` views of a zone-aware value, on every wall
  clock incl. the two headroom days.  C01's `iso_week_spec'` (years of the range) is extended to the
  headroom dates `BEFORE_MIN` (a Wednesday whose ISO week is week 1 of `MIN_YEAR`) and `AFTER_MAX`
  (a Tuesday in week 1 of `MAX_YEAR + 1`) by kernel evaluation.  Namespace `Chrono.Proofs.ZNV`.
-/
import Chrono.Proofs.ZonedStepL
import Chrono.Proofs.IsoL
import Chrono.Model.ZonedDerived

namespace Chrono.Proofs.ZNV
open Chrono Chrono.M Chrono.Spec Chrono.Proofs Chrono.Proofs.ZN Chrono.Extracted

/-- the ISO week of the two headroom days, with the Thursday of their week in year-ordinal form -/
theorem iso_week_headroom :
    Date.iso_week Date.BEFORE_MIN =
      .ok (MIN_YEAR * 1024 + (((1 - 1) / 7 + 1 : Nat) : Int) * 16 + ((flagsOf MIN_YEAR : Nat) : Int)) ∧
    dayNumYo MIN_YEAR (1 : Nat) = isoThursday (dayNumOf Date.BEFORE_MIN) ∧ 1 ≤ yearLen MIN_YEAR ∧
    Date.iso_week Date.AFTER_MAX =
      .ok ((MAX_YEAR + 1) * 1024 + (((3 - 1) / 7 + 1 : Nat) : Int) * 16 + ((flagsOf (MAX_YEAR + 1) : Nat) : Int)) ∧
    dayNumYo (MAX_YEAR + 1) (3 : Nat) = isoThursday (dayNumOf Date.AFTER_MAX) ∧ 3 ≤ yearLen (MAX_YEAR + 1) := by
  decide +kernel

/-- `iso_week` on every date a wall clock can have: the Thursday of the date's week is the `ot`-th day
of year `Y`, the packed result carries `Y`, week `(ot − 1)/7 + 1` and the flags of `Y` -/
theorem iso_week_wall (d : Date) (h : HeadOrIn d) :
    ∃ (Y : Int) (ot : Nat), 1 ≤ ot ∧ ot ≤ yearLen Y ∧ dayNumYo Y ot = isoThursday (dayNumOf d) ∧
      Date.iso_week d = .ok (Y * 1024 + (((ot - 1) / 7 + 1 : Nat) : Int) * 16 + ((flagsOf Y : Nat) : Int)) := by
  obtain ⟨b1, b2, b3, a1, a2, a3⟩ := iso_week_headroom
  rcases h with h | h | h
  · have he := (dateInv_iff d).mp h
    obtain ⟨e, _, _, v3, v4⟩ := ext_eq d he.1
    have hyl := yearLen_ge d.year
    obtain ⟨Y, ot, h1, h2, h3, h4⟩ := iso_week_spec' d.year d.ordinal.toNat he.2 ⟨v3, v4⟩
    refine ⟨Y, ot, h1, h2, ?_, ?_⟩
    · rw [h3]
      congr 1
      conv => rhs; rw [e]
      rw [dayNumOf_yo _ _ (by omega)]
    · conv => lhs; rw [e]
      exact h4
  · subst h; exact ⟨MIN_YEAR, 1, by omega, b3, b2, b1⟩
  · subst h; exact ⟨MAX_YEAR + 1, 3, by omega, a3, a2, a1⟩

theorem pred32_ok (x : Int) (h : 1 ≤ x ∧ x ≤ 4294967296) : Zoned.pred32 x = .ok (x - 1) := by
  unfold Zoned.pred32 ckU32 inU32 U32_MAX
  have : (decide (0 ≤ x - 1) && decide (x - 1 ≤ 4294967295)) = true := by
    simp only [Bool.and_eq_true, decide_eq_true_eq]; omega
  rw [this]; rfl

theorem ckU32_ok' (x : Int) (h : 0 ≤ x ∧ x ≤ 4294967295) : ckU32 x = .ok x := by
  unfold ckU32 inU32 U32_MAX
  have : (decide (0 ≤ x) && decide (x ≤ 4294967295)) = true := by
    simp only [Bool.and_eq_true, decide_eq_true_eq]; omega
  rw [this]; rfl

theorem ckI32_ok' (x : Int) (h : -2147483648 ≤ x ∧ x ≤ 2147483647) : ckI32 x = .ok x := by
  unfold ckI32 inI32 I32_MIN I32_MAX
  have : (decide (-2147483648 ≤ x) && decide (x ≤ 2147483647)) = true := by
    simp only [Bool.and_eq_true, decide_eq_true_eq]; omega
  rw [this]; rfl

/-- the derived views, from the primary accessor values of a value whose wall clock is `l` -/
theorem derived_views (z : Zoned) (l : NaiveDT) (hl : Zoned.overflowing_naive_local z = .ok l)
    (y : Int) (m d : Nat) (o h mi s : Int)
    (hy : l.date.year = y) (hm : l.date.month = .ok m) (hd : l.date.day = .ok d) (ho : l.date.ordinal = o)
    (hh : l.time.hour = h) (hmi : l.time.minute = mi) (hs : l.time.second = s)
    (by_ : -262144 ≤ y ∧ y ≤ 262143) (bm : 1 ≤ m ∧ m ≤ 12) (bd : 1 ≤ d ∧ d ≤ 31) (bo : 1 ≤ o ∧ o ≤ 366)
    (bh : 0 ≤ h ∧ h < 24) (bmi : 0 ≤ mi ∧ mi < 60) (bs : 0 ≤ s ∧ s < 60) :
    Zoned.month0 z = .ok ((m : Int) - 1) ∧ Zoned.day0 z = .ok ((d : Int) - 1) ∧
    Zoned.ordinal0 z = .ok (o - 1) ∧ Zoned.quarter_v z = .ok (((m : Int) - 1) / 3 + 1) ∧
    Zoned.year_ce_v z = .ok (if y < 1 then (false, 1 - y) else (true, y)) ∧
    Zoned.hour12 z = .ok (decide (h ≥ 12), if h % 12 = 0 then 12 else h % 12) ∧
    Zoned.num_seconds_from_midnight z = .ok (h * 3600 + mi * 60 + s) := by
  refine ⟨?_, ?_, ?_, ?_, ?_, ?_, ?_⟩
  · unfold Zoned.month0; rw [hl, bind_ok', hm, bind_ok']; exact pred32_ok _ (by omega)
  · unfold Zoned.day0; rw [hl, bind_ok', hd, bind_ok']; exact pred32_ok _ (by omega)
  · unfold Zoned.ordinal0; rw [hl, bind_ok', ho]; exact pred32_ok _ (by omega)
  · unfold Zoned.quarter_v Zoned.month; rw [hl, bind_ok', hm, bind_ok', pred32_ok _ (by omega), bind_ok']
  · unfold Zoned.year_ce_v Zoned.year; rw [hl, bind_ok', bind_ok', hy]
    by_cases c : y < 1
    · rw [if_pos c, if_pos c, ckI32_ok' _ (by omega), bind_ok']
      congr 2
      unfold asU32; omega
    · rw [if_neg c, if_neg c]
      congr 2
      unfold asU32; omega
  · unfold Zoned.hour12 Zoned.hour; rw [hl, bind_ok', bind_ok', hh]
  · unfold Zoned.num_seconds_from_midnight Zoned.hour Zoned.minute Zoned.second
    rw [hl, bind_ok', bind_ok', bind_ok', bind_ok', bind_ok', bind_ok', hh, hmi, hs,
      ckU32_ok' _ (by omega), bind_ok', ckU32_ok' _ (by omega), bind_ok', ckU32_ok' _ (by omega), bind_ok',
      ckU32_ok' _ (by omega)]

end Chrono.Proofs.ZNV
