/-
  Helper lemmas for C09 (default text forms): the specification's digit strings (`decN`) against the
  writers' (`fmtInt`, `write_hundreds`), white space and literal items, the numeric items of the
  `FromStr` item lists, and the composition of the item lists.
-/
import Chrono.Model.TextForms
import Chrono.Spec.TextFormsSpec
import Chrono.Proofs.RenderScanL
import Chrono.Proofs.ParsedL
import Chrono.Proofs.DateL
namespace Chrono.Proofs.TextForms
open Chrono Chrono.M Chrono.M.Scan Chrono.M.Format Chrono.M.TextForms
open Chrono.Proofs.RenderScan Chrono.Spec Chrono.Spec.Text

/-! ### the specification's digit strings -/

theorem decN_length (w n : Nat) : (decN w n).length = w := by
  induction w generalizing n with
  | zero => rfl
  | succ w ih => simp [decN, ih]

theorem decN_allDigits (w n : Nat) : AllDigits (decN w n) := by
  induction w generalizing n with
  | zero => exact allDigits_nil
  | succ w ih =>
    unfold decN
    refine allDigits_append.mpr ⟨ih _, allDigits_cons.mpr ⟨?_, allDigits_nil⟩⟩
    rw [isDigit_iff]; omega

theorem decN_val (w n : Nat) : valOf (decN w n) = n % 10 ^ w := by
  induction w generalizing n with
  | zero => simp [decN, valOf, Nat.mod_one]
  | succ w ih =>
    unfold decN
    rw [valOf_append, ih]
    simp only [valOf, List.foldl_cons, List.foldl_nil, List.length_singleton, Nat.pow_one]
    rw [Nat.pow_succ, Nat.mul_comm (10 ^ w) 10, Nat.mod_mul]
    generalize n / 10 % 10 ^ w = q
    omega

/-- a digit string is determined by its length and its value -/
theorem digits_unique : ∀ (a b : List Nat), AllDigits a → AllDigits b → a.length = b.length →
    valOf a = valOf b → a = b := by
  intro a
  induction a with
  | nil => intro b _ _ hl _; cases b with
    | nil => rfl
    | cons _ _ => simp at hl
  | cons x xs ih =>
    intro b ha hb hl hv
    cases b with
    | nil => simp at hl
    | cons y ys =>
      obtain ⟨hx, hxs⟩ := allDigits_cons.mp ha
      obtain ⟨hy, hys⟩ := allDigits_cons.mp hb
      simp only [List.length_cons, Nat.add_right_cancel_iff] at hl
      rw [valOf_cons, valOf_cons, hl] at hv
      have b1 := valOf_lt xs hxs
      have b2 := valOf_lt ys hys
      rw [hl] at b1
      have dx := (isDigit_iff x).mp hx
      have dy := (isDigit_iff y).mp hy
      generalize 10 ^ ys.length = P at hv b1 b2
      have hxy : x - 48 = y - 48 := by
        rcases Nat.lt_trichotomy (x - 48) (y - 48) with h | h | h
        · exfalso
          have : (x - 48 + 1) * P ≤ (y - 48) * P := Nat.mul_le_mul_right _ h
          rw [Nat.add_mul] at this; omega
        · exact h
        · exfalso
          have : (y - 48 + 1) * P ≤ (x - 48) * P := Nat.mul_le_mul_right _ h
          rw [Nat.add_mul] at this; omega
      have hvv : valOf xs = valOf ys := by rw [hxy] at hv; omega
      rw [ih ys hxs hys hl hvv]
      congr 1; omega

theorem decN_two (n : Nat) (h : n < 100) : decN 2 n = two n := by
  simp only [decN, two, List.nil_append, List.cons_append]
  congr 2; omega

/-- `{:0w$}` of `0 ≤ v < 10^w` is the specification's `w`-digit string -/
theorem fmtInt_eq_decN (v : Int) (w : Nat) (h0 : 0 ≤ v) (hw : 1 ≤ w) (hlt : v < ((10 ^ w : Nat) : Int)) :
    fmtInt v w .zero false = decN w v.toNat := by
  obtain ⟨h1, h2, h3⟩ := fmtInt_pad_spec v w h0 hw hlt
  refine digits_unique _ _ h1 (decN_allDigits _ _) (by rw [h2, decN_length]) ?_
  rw [h3, decN_val, Nat.mod_eq_of_lt (by omega)]


/-! ### white space, literals -/

theorem trimStart_of_wsLen_zero (s : List Nat) (h : wsLen s = 0) : trimStart s = s := by
  unfold trimStart
  cases s.length with
  | zero => rfl
  | succ n => simp [trimStartAux, h]

/-- a printable ASCII byte is not white space -/
theorem wsLen_ascii (b : Nat) (rest : List Nat) (h1 : 33 ≤ b) (h2 : b < 128) : wsLen (b :: rest) = 0 := by
  unfold wsLen
  dsimp only
  rw [if_neg (by omega)]
  split <;> first | rfl | omega

theorem trimStart_ascii (b : Nat) (rest : List Nat) (h1 : 33 ≤ b) (h2 : b < 128) :
    trimStart (b :: rest) = b :: rest := trimStart_of_wsLen_zero _ (wsLen_ascii b rest h1 h2)

theorem trimStart_nil : trimStart [] = [] := rfl

/-- one space in front of text that does not start with white space -/
theorem trimStart_space (s : List Nat) (h : wsLen s = 0) : trimStart (32 :: s) = s := by
  have h1 : wsLen (32 :: s) = 1 := by simp [wsLen]
  unfold trimStart
  simp only [List.length_cons, trimStartAux, h1, List.drop_one, List.tail_cons]
  exact trimStart_of_wsLen_zero s h

theorem trimStart_two (v : Nat) (hv : v < 100) (rest : List Nat) : trimStart (two v ++ rest) = two v ++ rest := by
  unfold two
  exact trimStart_ascii _ _ (by omega) (by omega)

theorem parseLiteral_one (c : Nat) (rest : List Nat) : Parse.parseLiteral (c :: rest) [c] = .ok rest := by
  simp [Parse.parseLiteral]

/-! ### setters on an unset field -/

theorem set_year_new (p : Parsed) (h : p.year = none) (v : Int) (hv : -2147483648 ≤ v ∧ v ≤ 2147483647) :
    p.set_year v = .ok { p with year := some v } := by
  unfold Parsed.set_year Parsed.toI32 inI32 I32_MIN I32_MAX
  simp [h, hv.1, hv.2, Parsed.setIf, bind, Except.bind, pure, Except.pure]

theorem set_month_new (p : Parsed) (h : p.month = none) (v : Int) (hv : 1 ≤ v ∧ v ≤ 12) :
    p.set_month v = .ok { p with month := some v } := by
  unfold Parsed.set_month Parsed.inRange
  simp [h, hv.1, hv.2, Parsed.setIf, bind, Except.bind, pure, Except.pure]

theorem set_day_new (p : Parsed) (h : p.day = none) (v : Int) (hv : 1 ≤ v ∧ v ≤ 31) :
    p.set_day v = .ok { p with day := some v } := by
  unfold Parsed.set_day Parsed.inRange
  simp [h, hv.1, hv.2, Parsed.setIf, bind, Except.bind, pure, Except.pure]

theorem set_hour_new (p : Parsed) (h1 : p.hour_div_12 = none) (h2 : p.hour_mod_12 = none) (v : Int)
    (hv : 0 ≤ v ∧ v ≤ 23) :
    p.set_hour v = .ok { p with hour_div_12 := some (v / 12), hour_mod_12 := some (v % 12) } := by
  unfold Parsed.set_hour Parsed.inRange
  by_cases h11 : v ≤ 11
  · have e1 : v / 12 = 0 := by omega
    have e2 : v % 12 = v := by omega
    simp [h1, h2, hv.1, hv.2, h11, e1, e2, Parsed.setIf, bind, Except.bind, pure, Except.pure]
  · have e1 : v / 12 = 1 := by omega
    have e2 : v % 12 = v - 12 := by omega
    simp [h1, h2, hv.1, hv.2, h11, e1, e2, Parsed.setIf, bind, Except.bind, pure, Except.pure]

theorem set_minute_new (p : Parsed) (h : p.minute = none) (v : Int) (hv : 0 ≤ v ∧ v ≤ 59) :
    p.set_minute v = .ok { p with minute := some v } := by
  unfold Parsed.set_minute Parsed.inRange
  simp [h, hv.1, hv.2, Parsed.setIf, bind, Except.bind, pure, Except.pure]

theorem set_second_new (p : Parsed) (h : p.second = none) (v : Int) (hv : 0 ≤ v ∧ v ≤ 60) :
    p.set_second v = .ok { p with second := some v } := by
  unfold Parsed.set_second Parsed.inRange
  simp [h, hv.1, hv.2, Parsed.setIf, bind, Except.bind, pure, Except.pure]

theorem set_nanosecond_new (p : Parsed) (h : p.nanosecond = none) (v : Int) (hv : 0 ≤ v ∧ v ≤ 999999999) :
    p.set_nanosecond v = .ok { p with nanosecond := some v } := by
  unfold Parsed.set_nanosecond Parsed.inRange
  simp [h, hv.1, hv.2, Parsed.setIf, bind, Except.bind, pure, Except.pure]

theorem set_offset_new (p : Parsed) (h : p.offset = none) (v : Int) (hv : -2147483648 ≤ v ∧ v ≤ 2147483647) :
    p.set_offset v = .ok { p with offset := some v } := by
  unfold Parsed.set_offset Parsed.toI32 inI32 I32_MIN I32_MAX
  simp [h, hv.1, hv.2, Parsed.setIf, bind, Except.bind, pure, Except.pure]


/-! ### single items -/

theorem items_cons (p : Parsed) (s : List Nat) (it : Item) (rest : List Item) (p' : Parsed) (s' : List Nat)
    (h : Parse.parseItemBase p s it = .ok (p', s')) :
    Parse.parseItemsBase p s (it :: rest) = Parse.parseItemsBase p' s' rest := by
  simp [Parse.parseItemsBase, h]

theorem items_nil (p : Parsed) (s : List Nat) : Parse.parseItemsBase p s [] = .ok (p, s) := rfl

theorem items_append (p : Parsed) (s : List Nat) (a b : List Item) :
    Parse.parseItemsBase p s (a ++ b) =
      match Parse.parseItemsBase p s a with
      | .ok (p', s') => Parse.parseItemsBase p' s' b
      | .error e => .error e := by
  induction a generalizing p s with
  | nil => rfl
  | cons it a ih =>
    simp only [List.cons_append, Parse.parseItemsBase]
    cases Parse.parseItemBase p s it with
    | error e => rfl
    | ok r => exact ih r.1 r.2

theorem item_space (p : Parsed) (s : List Nat) : Parse.parseItemBase p s (.space []) = .ok (p, trimStart s) := rfl

theorem item_literal (p : Parsed) (c : Nat) (rest : List Nat) :
    Parse.parseItemBase p (c :: rest) (.literal [c]) = .ok (p, rest) := by
  simp [Parse.parseItemBase, parseLiteral_one, Except.map]

/-- `.space []` then a one-byte literal, on text that starts with that (printable ASCII) byte -/
theorem items_space_literal (p : Parsed) (c : Nat) (rest : List Nat) (items : List Item)
    (h1 : 33 ≤ c) (h2 : c < 128) :
    Parse.parseItemsBase p (c :: rest) (.space [] :: .literal [c] :: items) = Parse.parseItemsBase p rest items := by
  rw [items_cons _ _ _ _ _ _ (item_space p _), trimStart_ascii c rest h1 h2,
    items_cons _ _ _ _ _ _ (item_literal p c rest)]

theorem number_two_min1 (v : Nat) (hv : v < 100) (rest : List Nat) :
    number (two v ++ rest) 1 (some 2) = .ok (rest, (v : Int)) := by
  have := number_digits (two v) rest 1 (some 2) (allDigits_two v hv) (by simp [two])
    (by intro m hm; injection hm with hm; simp [two]; omega) (Or.inl rfl) (by simp [two])
  rwa [valOf_two v hv] at this

/-- a two-digit unsigned numeric item on its two digits -/
theorem item_two (p : Parsed) (n : Numeric) (set : Parsed → Int → PRes Parsed) (v : Nat) (hv : v < 100)
    (rest : List Nat) (p' : Parsed) (hspec : Parse.numericSpec n = (some 2, false, set))
    (hset : set p (v : Int) = .ok p') (pad : Pad) :
    Parse.parseItemBase p (two v ++ rest) (.numeric n pad) = .ok (p', rest) := by
  simp only [Parse.parseItemBase, Parse.parseNumeric, hspec, trimStart_two v hv rest,
    number_two_min1 v hv rest, Bool.false_eq_true, if_false, hset]

theorem number_decN (w n : Nat) (rest : List Nat) (min : Nat) (_hw1 : 1 ≤ w) (hw : w ≤ 18) (hn : n < 10 ^ w)
    (hmin : min ≤ w) (hr : NoDigitHead rest) :
    number (decN w n ++ rest) min none = .ok (rest, (n : Int)) := by
  have := number_digits (decN w n) rest min none (decN_allDigits w n) (by rw [decN_length]; exact hmin)
    (by intro m hm; cases hm) (Or.inr hr) (by rw [decN_length]; exact hw)
  rwa [decN_val, Nat.mod_eq_of_lt hn] at this

theorem decN4 (n : Nat) : decN 4 n = [48 + n / 1000 % 10, 48 + n / 100 % 10, 48 + n / 10 % 10, 48 + n % 10] := by
  simp only [decN, List.nil_append, List.cons_append]
  congr 1
  · omega
  · congr 1
    omega

theorem yearWidth_spec (n : Nat) (h : n < 1000000) :
    4 ≤ yearWidth n ∧ yearWidth n ≤ 6 ∧ n < 10 ^ yearWidth n := by
  unfold yearWidth
  split
  · omega
  · split <;> omega

/-- the sign handling of a signed numeric item, named so that it can be reasoned about on its own -/
def signedScan (s : List Nat) (width : Option Nat) : PRes (List Nat × Int) :=
  match s with
  | 45 :: rest =>
    match number rest 1 none with
    | .ok (s', v) => .ok (s', -v)
    | .error e => .error e
  | 43 :: rest => number rest 1 none
  | _ => number s 1 width

theorem parseNumeric_signed (p : Parsed) (s : List Nat) (n : Numeric) (w : Option Nat)
    (set : Parsed → Int → PRes Parsed) (h : Parse.numericSpec n = (w, true, set)) :
    Parse.parseNumeric p s n =
      match signedScan (trimStart s) w with
      | .error e => .error e
      | .ok (s', v) => match set p v with
        | .ok p' => .ok (p', s')
        | .error e => .error e := by
  unfold Parse.parseNumeric
  rw [h]
  rfl

theorem signedScan_digit (c : Nat) (tl : List Nat) (w : Option Nat) (hc : isDigit c = true) :
    signedScan (c :: tl) w = number (c :: tl) 1 w := by
  have := (isDigit_iff c).mp hc
  unfold signedScan
  split
  · rename_i heq; injection heq with e1 _; omega
  · rename_i heq; injection heq with e1 _; omega
  · rfl

/-- the year item on the specification's year text, followed by a non-digit -/
theorem item_year (p : Parsed) (h : p.year = none) (y : Int) (hy : -1000000 < y ∧ y < 1000000)
    (rest : List Nat) (hr : NoDigitHead rest) (pad : Pad) :
    Parse.parseItemBase p (yearText y ++ rest) (.numeric .year pad) = .ok ({ p with year := some y }, rest) := by
  have hset := set_year_new p h y (by omega)
  have hpn := fun s => parseNumeric_signed p s .year (some 4) Parsed.set_year rfl
  unfold yearText
  by_cases h4 : 0 ≤ y ∧ y ≤ 9999
  · rw [if_pos h4]
    have hnum : number (decN 4 y.toNat ++ rest) 1 (some 4) = .ok (rest, y) := by
      have := number_digits (decN 4 y.toNat) rest 1 (some 4) (decN_allDigits _ _) (by rw [decN_length]; omega)
        (by intro m hm; injection hm with hm; rw [decN_length]; omega) (Or.inl (by rw [decN_length]))
        (by rw [decN_length]; omega)
      rw [decN_val, Nat.mod_eq_of_lt (by omega)] at this
      rw [this]; congr 2; omega
    have htrim : trimStart (decN 4 y.toNat ++ rest) = decN 4 y.toNat ++ rest := by
      rw [decN4]; exact trimStart_ascii _ _ (by omega) (by omega)
    have hscan : signedScan (decN 4 y.toNat ++ rest) (some 4) = .ok (rest, y) := by
      rw [← hnum, decN4]
      exact signedScan_digit _ _ _ (by rw [isDigit_iff]; omega)
    simp only [Parse.parseItemBase, hpn, htrim, hscan, hset]
  · rw [if_neg h4]
    obtain ⟨w4, w6, wlt⟩ := yearWidth_spec y.natAbs (by omega)
    have hnum := number_decN (yearWidth y.natAbs) y.natAbs rest 1 (by omega) (by omega) wlt (by omega) hr
    by_cases hneg : y < 0
    · rw [if_pos hneg]
      have htrim : trimStart ((45 :: decN (yearWidth y.natAbs) y.natAbs) ++ rest) =
          45 :: (decN (yearWidth y.natAbs) y.natAbs ++ rest) := trimStart_ascii _ _ (by omega) (by omega)
      have e : -((y.natAbs : Nat) : Int) = y := by omega
      have hscan : signedScan (45 :: (decN (yearWidth y.natAbs) y.natAbs ++ rest)) (some 4) = .ok (rest, y) := by
        simp only [signedScan, hnum, e]
      simp only [Parse.parseItemBase, hpn, htrim, hscan, hset]
    · rw [if_neg hneg]
      have htrim : trimStart ((43 :: decN (yearWidth y.natAbs) y.natAbs) ++ rest) =
          43 :: (decN (yearWidth y.natAbs) y.natAbs ++ rest) := trimStart_ascii _ _ (by omega) (by omega)
      have e : ((y.natAbs : Nat) : Int) = y := by omega
      have hscan : signedScan (43 :: (decN (yearWidth y.natAbs) y.natAbs ++ rest)) (some 4) = .ok (rest, y) := by
        simp only [signedScan, hnum, e]
      simp only [Parse.parseItemBase, hpn, htrim, hscan, hset]


/-! ### the date items -/

theorem noDigitHead_45 (t : List Nat) : NoDigitHead (45 :: t) := noDigitHead_cons.mpr (by decide)

/-- `DATE_ITEMS` of the relaxed RFC 3339 reader (year, month, day with `-` between) on the
specification's date text -/
theorem date_items (p : Parsed) (hy : p.year = none) (hm : p.month = none) (hd : p.day = none)
    (y : Int) (hyr : -1000000 < y ∧ y < 1000000) (m d : Nat) (hm1 : 1 ≤ m ∧ m ≤ 12) (hd1 : 1 ≤ d ∧ d ≤ 31)
    (rest : List Nat) :
    Parse.parseItemsBase p (dateText y m d ++ rest) Parse.DATE_ITEMS =
      .ok ({ p with year := some y, month := some (m : Int), day := some (d : Int) }, rest) := by
  have e : dateText y m d ++ rest = yearText y ++ (45 :: (two m ++ (45 :: (two d ++ rest)))) := by
    simp only [dateText, decN_two m (by omega), decN_two d (by omega), List.append_assoc, List.cons_append,
      List.nil_append]
  rw [e]
  unfold Parse.DATE_ITEMS
  have s1 := item_year p hy y hyr (45 :: (two m ++ (45 :: (two d ++ rest)))) (noDigitHead_45 _) .zero
  have s2 := item_two { p with year := some y } .month Parsed.set_month m (by omega) (45 :: (two d ++ rest)) _ rfl
    (set_month_new { p with year := some y } hm m (by omega)) .zero
  have s3 := item_two { p with year := some y, month := some (m : Int) } .day Parsed.set_day d (by omega) rest _ rfl
    (set_day_new { p with year := some y, month := some (m : Int) } hd d (by omega)) .zero
  rw [items_cons _ _ _ _ _ _ s1, items_space_literal _ 45 _ _ (by omega) (by omega),
    items_cons _ _ _ _ _ _ s2, items_space_literal _ 45 _ _ (by omega) (by omega),
    items_cons _ _ _ _ _ _ s3, items_nil]

/-! ### the time items -/

/-- text that may follow a time of day: nothing, or a byte that is neither a digit nor `.` -/
def TailOk (rest : List Nat) : Prop := ∀ c t, rest = c :: t → isDigit c = false ∧ c ≠ 46

theorem tailOk_nil : TailOk [] := by intro c t h; cases h
theorem tailOk_cons (c : Nat) (t : List Nat) (h1 : isDigit c = false) (h2 : c ≠ 46) : TailOk (c :: t) := by
  intro c' t' e; injection e with e1 _; subst e1; exact ⟨h1, h2⟩
theorem TailOk.noDigit {rest : List Nat} (h : TailOk rest) : NoDigitHead rest :=
  fun c t e => (h c t e).1

theorem hm_items (p : Parsed) (h1 : p.hour_div_12 = none) (h2 : p.hour_mod_12 = none) (h3 : p.minute = none)
    (h mi : Nat) (hh : h ≤ 23) (hmi : mi ≤ 59) (rest : List Nat) :
    Parse.parseItemsBase p (two h ++ (58 :: (two mi ++ rest))) HOUR_AND_MINUTE =
      .ok ({ p with hour_div_12 := some ((h : Int) / 12), hour_mod_12 := some ((h : Int) % 12),
                    minute := some (mi : Int) }, rest) := by
  unfold HOUR_AND_MINUTE
  have s1 := item_two p .hour Parsed.set_hour h (by omega) (58 :: (two mi ++ rest)) _ rfl
    (set_hour_new p h1 h2 h (by omega)) .zero
  have s2 := item_two { p with hour_div_12 := some ((h : Int) / 12), hour_mod_12 := some ((h : Int) % 12) }
    .minute Parsed.set_minute mi (by omega) rest _ rfl
    (set_minute_new { p with hour_div_12 := some ((h : Int) / 12), hour_mod_12 := some ((h : Int) % 12) } h3 mi
      (by omega)) .zero
  rw [items_cons _ _ _ _ _ _ s1, items_space_literal _ 58 _ _ (by omega) (by omega),
    items_cons _ _ _ _ _ _ s2, items_nil]

theorem fracDigits_cases (nano : Nat) :
    (fracDigits nano = 0 ∧ nano % 1000000000 = 0) ∨ (fracDigits nano = 3 ∧ nano % 1000000 = 0) ∨
    (fracDigits nano = 6 ∧ nano % 1000 = 0) ∨ fracDigits nano = 9 := by
  unfold fracDigits
  split
  · left; exact ⟨rfl, by assumption⟩
  · split
    · right; left; exact ⟨rfl, by assumption⟩
    · split
      · right; right; left; exact ⟨rfl, by assumption⟩
      · right; right; right; rfl

theorem nanosecond_decN (k q : Nat) (rest : List Nat) (hk1 : 1 ≤ k) (hk9 : k ≤ 9) (hq : q < 10 ^ k)
    (hr : NoDigitHead rest) :
    nanosecond (decN k q ++ rest) = .ok (rest, ((q * 10 ^ (9 - k) : Nat) : Int)) := by
  rw [nanosecond_digits _ rest (decN_allDigits k q) (by rw [decN_length]; exact hk1) hr]
  unfold fracVal
  rw [List.take_of_length_le (by rw [decN_length]; exact hk9), decN_length, decN_val, Nat.mod_eq_of_lt hq]

/-- the optional-fraction item on the specification's fraction text -/
theorem item_frac (p : Parsed) (hn : p.nanosecond = none) (nano : Nat) (hlt : nano < 1000000000)
    (rest : List Nat) (hr : TailOk rest) :
    Parse.parseItemBase p (fracText nano ++ rest) (.fixed .nanosecond) =
      .ok (if nano = 0 then p else { p with nanosecond := some (nano : Int) }, rest) := by
  unfold fracText
  by_cases h0 : nano = 0
  · subst h0
    simp only [fracDigits, Nat.zero_mod, if_true, List.nil_append]
    cases rest with
    | nil => rfl
    | cons c t =>
      have := (hr c t rfl).2
      simp only [Parse.parseItemBase, Parse.parseFixedBase]
      split
      · rename_i heq; injection heq with e1 _; omega
      · rfl
  · have hcases := fracDigits_cases nano
    have hk : fracDigits nano ≠ 0 := by
      rcases hcases with h | h | h | h <;> omega
    rw [if_neg hk, if_neg h0]
    have hk19 : 1 ≤ fracDigits nano ∧ fracDigits nano ≤ 9 := by
      rcases hcases with h | h | h | h <;> omega
    have hval : nano / 10 ^ (9 - fracDigits nano) * 10 ^ (9 - fracDigits nano) = nano ∧
        nano / 10 ^ (9 - fracDigits nano) < 10 ^ fracDigits nano := by
      rcases hcases with h | h | h | h
      · omega
      · rw [h.1]; norm_num; omega
      · rw [h.1]; norm_num; omega
      · rw [h]; norm_num; omega
    have hnano := nanosecond_decN (fracDigits nano) (nano / 10 ^ (9 - fracDigits nano)) rest hk19.1 hk19.2
      hval.2 hr.noDigit
    rw [hval.1] at hnano
    simp only [Parse.parseItemBase, Parse.parseFixedBase, List.cons_append, hnano, Parse.setNano,
      set_nanosecond_new p hn nano (by omega)]

theorem sn_items (p : Parsed) (h1 : p.second = none) (h2 : p.nanosecond = none) (sec nano : Nat)
    (hs : sec ≤ 60) (hn : nano < 1000000000) (rest : List Nat) (hr : TailOk rest) :
    Parse.parseItemsBase p (58 :: (two sec ++ (fracText nano ++ rest))) SECOND_AND_NANOS =
      .ok (if nano = 0 then { p with second := some (sec : Int) }
           else { p with second := some (sec : Int), nanosecond := some (nano : Int) }, trimStart rest) := by
  unfold SECOND_AND_NANOS
  have s1 := item_two p .second Parsed.set_second sec (by omega) (fracText nano ++ rest) _ rfl
    (set_second_new p h1 sec (by omega)) .zero
  have s2 := item_frac { p with second := some (sec : Int) } h2 nano hn rest hr
  rw [items_space_literal _ 58 _ _ (by omega) (by omega), items_cons _ _ _ _ _ _ s1,
    items_cons _ _ _ _ _ _ s2, items_cons _ _ _ _ _ _ (item_space _ _), items_nil]


/-! ### the writers produce the specification's text -/

theorem seq_wok (a b : List Nat) : (wok a).seq (wok b) = wok (a ++ b) := rfl

theorem hundreds_u8 (n : Int) (h0 : 0 ≤ n) (h : n < 100) : write_hundreds (asU8 n) = wok (decN 2 n.toNat) := by
  have e : asU8 n = n := by unfold asU8; omega
  rw [e, write_hundreds_eq n h0 h, decN_two _ (by omega)]

theorem two_two (a b : Nat) (ha : a < 100) (hb : b < 100) : decN 2 a ++ decN 2 b = decN 4 (a * 100 + b) := by
  rw [decN4, decN_two a ha, decN_two b hb]
  simp only [two, List.cons_append, List.nil_append]
  congr 1
  · omega
  · congr 1
    · omega
    · congr 1
      · omega
      · congr 1; omega

theorem digits_len (n : Nat) (hn : n < 1000000) :
    max 4 (Format.digits n).length = yearWidth n := by
  obtain ⟨h1, h2, h3, h4, _⟩ := digits_spec n
  have hlt := valOf_lt _ h1
  rw [h2] at hlt
  have h6 := h4 6 (by omega) (by omega)
  unfold yearWidth
  split
  · have := h4 4 (by omega) (by omega); omega
  · split
    · have := h4 5 (by omega) (by omega)
      have : ¬ (Format.digits n).length ≤ 4 := by
        intro hle
        have : 10 ^ (Format.digits n).length ≤ 10 ^ 4 := Nat.pow_le_pow_right (by omega) hle
        omega
      omega
    · have : ¬ (Format.digits n).length ≤ 5 := by
        intro hle
        have : 10 ^ (Format.digits n).length ≤ 10 ^ 5 := Nat.pow_le_pow_right (by omega) hle
        omega
      omega

/-- the year writer: four digits for 0..=9999, else sign and at least four digits -/
theorem write_year_text (y : Int) (hy : -1000000 < y ∧ y < 1000000) : TextForms.write_year y = wok (yearText y) := by
  unfold TextForms.write_year yearText
  by_cases h4 : 0 ≤ y ∧ y ≤ 9999
  · rw [if_pos h4, if_pos h4]
    have e1 : Int.tdiv y 100 = y / 100 := Int.tdiv_eq_ediv_of_nonneg h4.1
    have e2 : Int.tmod y 100 = y % 100 := Int.tmod_eq_emod_of_nonneg h4.1
    rw [e1, e2, hundreds_u8 _ (by omega) (by omega), hundreds_u8 _ (by omega) (by omega), seq_wok,
      two_two _ _ (by omega) (by omega)]
    congr 2; omega
  · rw [if_neg h4, if_neg h4, fmtInt_zero_signed]
    congr 2
    obtain ⟨d1, d2, d3, _, _⟩ := digits_spec y.natAbs
    have hlen := digits_len y.natAbs (by omega)
    obtain ⟨_, _, wlt⟩ := yearWidth_spec y.natAbs (by omega)
    refine digits_unique _ _ (allDigits_append.mpr ⟨allDigits_replicate _, d1⟩) (decN_allDigits _ _) ?_ ?_
    · rw [decN_length, List.length_append, List.length_replicate]; omega
    · rw [valOf_append, valOf_replicate_zero, d2, decN_val, Nat.mod_eq_of_lt wlt]; simp

/-- `NaiveDate`'s text is the specification's, for every date of the supported range -/
theorem date_debug_text (y : Int) (o : Nat) (hy : Extracted.MIN_YEAR ≤ y ∧ y ≤ Extracted.MAX_YEAR)
    (ho : 1 ≤ o ∧ o ≤ yearLen y) :
    date_debug (dateOfYo y o) = wok (dateText y (monthOfYo y o) (dayOfYo y o)) := by
  have hMIN : Extracted.MIN_YEAR = -262143 := rfl
  have hMAX : Extracted.MAX_YEAR = 262142 := rfl
  obtain ⟨m1, m2, m3, _⟩ := month_day_spec y o ho.1 ho.2
  obtain ⟨hyear, _⟩ := dateOfYo_fields y o (by have := yearLen_ge y; omega)
  obtain ⟨b1, b2⟩ := valid_bounds y _ _ m3
  unfold date_debug
  rw [hyear]
  unfold Date.month at m1
  unfold Date.day at m2
  cases hmdf : (dateOfYo y o).mdf with
  | panic => rw [hmdf] at m1; cases m1
  | ok mdf =>
    rw [hmdf] at m1 m2
    injection m1 with m1; injection m2 with m2
    simp only [W.ofRes]
    rw [m1, m2, write_year_text y (by omega), hundreds_u8 _ (by omega) (by omega),
      hundreds_u8 _ (by omega) (by omega)]
    simp only [seq_wok, dateText, Int.toNat_natCast, List.append_assoc]

theorem write_frac_text (nano : Int) (h0 : 0 ≤ nano) (h : nano < 1000000000) :
    write_frac nano = fracText nano.toNat := by
  unfold write_frac fracText fracDigits
  by_cases z : nano = 0
  · subst z; rfl
  · have z' : ¬ nano.toNat % 1000000000 = 0 := by omega
    rw [if_neg z, if_neg z']
    by_cases a : nano % 1000000 = 0
    · have a' : nano.toNat % 1000000 = 0 := by omega
      rw [if_pos a, if_pos a', if_neg (by omega), fmtInt_eq_decN _ 3 (by omega) (by omega) (by norm_num; omega)]
      simp only [List.singleton_append]
      congr 2; norm_num; omega
    · have a' : ¬ nano.toNat % 1000000 = 0 := by omega
      rw [if_neg a, if_neg a']
      by_cases b : nano % 1000 = 0
      · have b' : nano.toNat % 1000 = 0 := by omega
        rw [if_pos b, if_pos b', if_neg (by omega), fmtInt_eq_decN _ 6 (by omega) (by omega) (by norm_num; omega)]
        simp only [List.singleton_append]
        congr 2; norm_num; omega
      · have b' : ¬ nano.toNat % 1000 = 0 := by omega
        rw [if_neg b, if_neg b', if_neg (by omega), fmtInt_eq_decN _ 9 (by omega) (by omega) (by norm_num; omega)]
        simp only [List.singleton_append]
        congr 2; norm_num

/-- `NaiveTime`'s text is the specification's, for every well-formed time of day -/
theorem time_debug_text (t : Time) (ht : TValid t) : time_debug t = wok (timeText t) := by
  obtain ⟨t0, t1, t2, t3⟩ := ht
  unfold time_debug Time.hms timeText shownSecond shownNano hourOf minuteOf secondOf
  dsimp only
  have e1 : (t.secs / 60 / 60).toNat = (t.secs / 3600).toNat := by omega
  by_cases hl : t.frac ≥ 1000000000
  · have e2 : (t.secs % 60 + 1).toNat = (t.secs % 60).toNat + 1 := by omega
    have e3 : (t.frac - 1000000000).toNat = (t.frac % 1000000000).toNat := by omega
    simp only [hl, if_true]
    rw [hundreds_u8 _ (by omega) (by omega), hundreds_u8 _ (by omega) (by omega),
      hundreds_u8 _ (by omega) (by omega), write_frac_text _ (by omega) (by omega), e1, e2, e3]
    simp only [seq_wok, List.append_assoc]
  · have e3 : t.frac.toNat = (t.frac % 1000000000).toNat := by omega
    simp only [hl, if_false]
    rw [hundreds_u8 _ (by omega) (by omega), hundreds_u8 _ (by omega) (by omega),
      hundreds_u8 _ (by omega) (by omega), write_frac_text _ (by omega) (by omega), e1, e3]
    simp only [seq_wok, List.append_assoc, Nat.add_zero]

end Chrono.Proofs.TextForms
