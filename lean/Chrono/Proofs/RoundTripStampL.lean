/-
  C13, sixth lemma file: the members of the family that carry the instant only as a timestamp
  (`%s`, `%s %z`, `%s%:z`, `%z %s`, with literals and white space; `Spec.stampOnly`) for the targets
  `NaiveDateTime` and `DateTime<FixedOffset>`, on C14's completeness theorems for the resolver's
  timestamp fall-back path (`datetime_complete_timestamp`, `to_datetime_complete_timestamp`).
  Namespace `Chrono.Proofs.RoundTrip`.
-/
import Chrono.Proofs.RoundTripFamilyL

namespace Chrono.Proofs.RoundTrip
open Chrono Chrono.M Chrono.M.Scan Chrono.Spec Chrono.Spec.Fields Chrono.Spec.Ts Chrono.Extracted Chrono.Proofs
open Chrono.Proofs.ParsedRes

/-- `stampOnly`, flag by flag -/
theorem stampOnly_flags (c : Carries) (h : stampOnly c = true) :
    c.year = false ∧ c.yearDiv = false ∧ c.yearMod = false ∧ c.isoYear = false ∧ c.isoYearDiv = false ∧
    c.isoYearMod = false ∧ c.quarter = false ∧ c.month = false ∧ c.day = false ∧ c.weekSun = false ∧
    c.weekMon = false ∧ c.isoWeek = false ∧ c.weekday = false ∧ c.ordinal = false ∧ c.hour24 = false ∧
    c.hour12 = false ∧ c.ampm = false ∧ c.minute = false ∧ c.second = false ∧ c.nano = false ∧
    c.timestamp = true := by
  cases c
  simp only [stampOnly, beq_iff_eq, Carries.mk.injEq] at h
  simp only [h, and_self]

/-- the record read from a timestamp-only format: the timestamp (and the printed offset), nothing else -/
structure StampRecord (p : Parsed) (ts : Int) (offv : Int) (hasOff : Bool) : Prop where
  inType : InType p
  timestamp : p.timestamp = some ts
  offset_val : ∀ x, p.offset = some x → x = offv
  offset_some : p.offset.isSome = hasOff
  nano : p.nanosecond = none
  date : ∀ Y o, VD Y o → DateAgrees p Y o
  gy : ∀ yr, GroupDeterminate p.year p.year_div_100 p.year_mod_100 yr
  gi : ∀ yr, GroupDeterminate p.isoyear p.isoyear_div_100 p.isoyear_mod_100 yr
  time : ∀ t, TimeAgreesSupplied p t
  insufficient : ¬ (DateSufficient p ∧ TimeSufficient p)

/-- **text to fields for a timestamp-only format**: the record holds the printed timestamp (the
timestamp of the shown local reading minus the shown offset), the printed offset if the format has an
offset item, and no other field -/
theorem family_stamp_core (is : List Item) (Y : Int) (o : Nat) (hvd : VD Y o) (t : Time) (htv : TValid t)
    (c : Ctx) (hcd : c.date = some (dateOfYo Y o)) (hct : c.time = some t)
    (hco : ∀ x, c.off = some x → -86400 < x.2 ∧ x.2 < 86400)
    (text : List Nat) (hp : ∀ it ∈ is, provedItem it = true) (hsep : separated is = true)
    (hso : stampOnly (carries is) = true) (hsafe : spaceSafe is = true)
    (hY : ∀ w, (dateOfYo Y o).iso_week = .ok w →
      yearExpressible (carries is).year (carries is).yearDiv (carries is).yearMod (yearTouchesDigits .year is) Y ∧
      yearExpressible (carries is).isoYear (carries is).isoYearDiv (carries is).isoYearMod
        (yearTouchesDigits .isoYear is) (IsoWeek.year w))
    (hfmt : Format.formatItemsR c.date c.time c.off is = Format.wok text) :
    ∃ p', Parse.parse Parsed.new text is = .ok p' ∧
      StampRecord p' (timestampIs.instSecsLocal ⟨dateOfYo Y o, t⟩ - (c.off.map (·.2)).getD 0)
        ((c.off.map (fun x => roundedOffset x.2)).getD 0) (carries is).offset := by
  obtain ⟨IY, IW, wd, ⟨w, hw, hwy, hwk⟩, hwd, hwdn, iy1, iy2, iw1, iw2⟩ := truth_date Y o hvd
  obtain ⟨s1, s2, s3⟩ := ParsedRes.timestamp_spec Y o t hvd htv
  obtain ⟨hYe, hIe⟩ := hY w hw
  rw [hwy] at hIe
  obtain ⟨k1, k2, k3, k4, k5, k6, k7, k8, k9, k10, k11, k12, k13, k14, k15, k16, k17, k18, k19, k20, k21⟩ :=
    stampOnly_flags _ hso
  have hoffr : -86400 < (c.off.map (·.2)).getD 0 ∧ (c.off.map (·.2)).getD 0 < 86400 := by
    cases ho : c.off with
    | none => simp
    | some x => simpa using hco x ho
  -- the printed offset, as a value (0 where the context has none)
  let offv : Int := (c.off.map (fun x => roundedOffset x.2)).getD 0
  have hoffv : ∀ x, c.off = some x → offv = roundedOffset x.2 := by
    intro x hx; simp only [offv, hx, Option.map_some, Option.getD_some]
  have hoffv' : -86400 ≤ offv ∧ offv ≤ 86400 := by
    cases ho : c.off with
    | none => simp only [offv, ho, Option.map_none, Option.getD_none]; omega
    | some x =>
      rw [hoffv x ho]
      exact rounded_range x.2 (hco x ho)
  let tr : Truth := ⟨Y, o, IY, IW, wd, t, 0, offv,
    timestampIs.instSecsLocal ⟨dateOfYo Y o, t⟩ - (c.off.map (·.2)).getD 0⟩
  have hcok : CtxOk c := ⟨fun d h => (by rw [hcd] at h; cases h; exact ⟨Y, o, hvd, rfl⟩),
    fun t' h => (by rw [hct] at h; cases h; exact htv), hco⟩
  have hc : CtxTruth c tr :=
    ⟨fun d h => (by rw [hcd] at h; cases h; exact ⟨rfl, hvd, ⟨w, hw, hwy, hwk⟩, hwd⟩),
     fun t' h => (by rw [hct] at h; cases h; exact ⟨rfl, htv⟩),
     fun x h => ⟨hoffv x h, hco x h⟩,
     fun v h => (by simp only [numVal, hcd, hct, s1] at h; simpa [tr] using h.symm)⟩
  have hok : TruthOk tr := ⟨hvd, ⟨iy1, iy2⟩, ⟨iw1, iw2⟩, htv, ⟨by simp [tr], by simp [tr]⟩, hoffv', hwdn,
    ⟨w, hw, hwy, hwk⟩⟩
  -- no item prints a fraction
  have hF : ∀ it ∈ is, onSome (itemFracDigits it) fun k => cutFrac tr.t.frac k = tr.nv := by
    intro it hm
    cases hk : itemFracDigits it with
    | none => trivial
    | some k =>
      have := carries_mem Carries.nano mono_nano it (fun cr => frac_item_sets cr it k hk) is {} hm
      unfold carries at k20
      rw [k20] at this; cases this
  obtain ⟨hexp, hx, hy⟩ := side_conditions c tr hc is hYe hIe hF
  obtain ⟨p', hparse, hS, hT⟩ := fields_of_format c hcok tr hc hok is text hp hexp hx hsep hsafe hy hfmt
  refine ⟨p', hparse, ?_⟩
  have hts : -10000000000000 ≤ tr.tsv ∧ tr.tsv ≤ 10000000000000 := by simp only [tr]; omega
  have nn : ∀ {α} (x : Option α) (b : Bool), x.isSome = b → b = false → x = none := by
    intro α x b h hb; rw [hb] at h; exact (isSome_false_iff x).mp h
  have e1 := nn _ _ hT.year k1
  have e2 := nn _ _ hT.year_div k2
  have e3 := nn _ _ hT.year_mod k3
  have e4 := nn _ _ hT.isoyear k4
  have e5 := nn _ _ hT.isoyear_div k5
  have e6 := nn _ _ hT.isoyear_mod k6
  have e8 := nn _ _ hT.month k8
  have e9 := nn _ _ hT.day k9
  have e12 := nn _ _ hT.isoweek k12
  have e14 := nn _ _ hT.ordinal k14
  have e15 := nn _ _ hT.hour_div (by rw [k15, k17]; rfl)
  have e16 := nn _ _ hT.hour_mod (by rw [k15, k16]; rfl)
  have e18 := nn _ _ hT.minute k18
  have e19 := nn _ _ hT.second k19
  have e10 := nn _ _ hT.week_from_sun k10
  have e11 := nn _ _ hT.week_from_mon k11
  have e20 : p'.nanosecond = none := by
    cases hn : p'.nanosecond with
    | none => rfl
    | some x =>
      have := hT.nano1 (by rw [hn]; rfl)
      rw [k20] at this; cases this
  have hno : ∀ x, (none : Option Int) = some x → False := fun x h => by cases h
  have hgd : ∀ yr, GroupDeterminate (none : Option Int) none none yr :=
    fun yr => ⟨fun h => h.2.1 rfl, fun _ _ h => (h rfl).elim⟩
  refine ⟨inType_of_supplied p' tr hok hS hts, ?_, ?_, ?_, e20, ?_, ?_, ?_, ?_, ?_⟩
  · -- the timestamp field
    have hsome := hT.timestamp
    rw [k21] at hsome
    cases hg : p'.timestamp with
    | none => rw [hg] at hsome; cases hsome
    | some g => rw [hS.timestamp g hg]
  · exact hS.offset
  · exact hT.offset
  · intro Y' o' hvd'
    obtain ⟨w', hw'⟩ := iso_week_ok Y' o' hvd'
    have hwk : p'.weekday = none := nn _ _ hT.weekday k13
    have hq : p'.quarter = none := nn _ _ hT.quarter k7
    refine ⟨?_, ⟨?_, ?_⟩, ?_, ?_, ?_, ?_, ?_, ?_, ?_, w', hw', ?_, ⟨?_, ?_⟩, ?_⟩
    · rw [e1]; exact fun x h => (hno x h).elim
    · rw [e2]; exact fun x h => (hno x h).elim
    · rw [e3]; exact fun x h => (hno x h).elim
    · rw [hq]; exact fun x h => (hno x h).elim
    · rw [e8]; exact fun x h => (hno x h).elim
    · rw [e10]; exact fun x h => (hno x h).elim
    · rw [e11]; exact fun x h => (hno x h).elim
    · rw [hwk]; intro x h; cases h
    · rw [e14]; exact fun x h => (hno x h).elim
    · rw [e9]; exact fun x h => (hno x h).elim
    · rw [e4]; exact fun x h => (hno x h).elim
    · rw [e5]; exact fun x h => (hno x h).elim
    · rw [e6]; exact fun x h => (hno x h).elim
    · rw [e12]; exact fun x h => (hno x h).elim
  · rw [e1, e2, e3]; exact hgd
  · rw [e4, e5, e6]; exact hgd
  · intro t'
    refine ⟨?_, ?_, ?_, ?_, ?_⟩
    · rw [e15]; exact fun x h => (hno x h).elim
    · rw [e16]; exact fun x h => (hno x h).elim
    · rw [e18]; exact fun x h => (hno x h).elim
    · rw [e19]; exact fun x h => (hno x h).elim
    · rw [e20]; exact fun x h => (hno x h).elim
  · intro h
    exact h.2.1 e15

/-- a timestamp-only format has neither a full date nor a full time -/
theorem stampOnly_not_fields (c : Carries) (h : stampOnly c = true) : (fullDate c && fullTime c) = false := by
  obtain ⟨k1, k2, k3, k4, k5, k6, k7, k8, k9, k10, k11, k12, k13, k14, k15, k16, k17, k18, k19, k20, k21⟩ :=
    stampOnly_flags c h
  simp [fullDate, yearGroup, k1, k3, k4, k6]

/-- **round trip, target `NaiveDateTime`, timestamp-only formats** (`%s`): the result is the value
at whole seconds (a leap second is read back as its second :59) -/
theorem family_stamp_naive (is : List Item) (Y : Int) (o : Nat) (hvd : VD Y o) (t : Time) (htv : TValid t)
    (text : List Nat) (hp : ∀ it ∈ is, provedItem it = true) (hU : Unambiguous is .naive)
    (hso : stampOnly (carries is) = true) (hsafe : spaceSafe is = true)
    (hE : expressible is (.naive ⟨dateOfYo Y o, t⟩))
    (hfmt : ParseFrom.formatItemsOf (.naive ⟨dateOfYo Y o, t⟩) is = Format.wok text) :
    ∃ p', Parse.parse Parsed.new text is = .ok p' ∧
      ParseFrom.resolve .naive p' = .ok (.ok (.naive ⟨dateOfYo Y o, ⟨t.secs, 0⟩⟩)) := by
  obtain ⟨fy, _⟩ := date_facts Y o hvd
  obtain ⟨_, ⟨hsep, _⟩, _, _, _⟩ := hU
  obtain ⟨hEy, _, _, _, _⟩ := hE
  simp only [exprYears, shown, onSome, fy] at hEy
  obtain ⟨p', h1, hR⟩ := family_stamp_core is Y o hvd t htv ⟨some (dateOfYo Y o), some t, none⟩ rfl rfl
    (fun x h => by cases h) text hp hsep hso hsafe (fun w hw => by rw [hw] at hEy; exact hEy) hfmt
  refine ⟨p', h1, ?_⟩
  obtain ⟨t0, t1, _, _⟩ := id htv
  have h2 := Chrono.Props.C14.datetime_complete_timestamp p' hR.inType 0 Y o ⟨t.secs, 0⟩ hvd
    ⟨t0, t1, by dsimp only; omega, by dsimp only; omega⟩ (by dsimp only; omega) (hR.date Y o hvd) (hR.gy Y) (fun w _ => hR.gi _)
    (hR.time _) (fun _ => rfl) (by
      rw [hR.timestamp]
      simp [timestampIs.instSecsLocal]) hR.insufficient
  simp only [ParseFrom.resolve, h2, Parsed.RP.bind]

/-- the local reading of an instant at an offset, when `naive_local` returns it, is an existing day
and a valid time of day with the sub-second part of the instant -/
theorem naive_local_valid (z : Zoned) (hz : ZInv z) (l : NaiveDT) (h : Zoned.naive_local z = .ok l) :
    ∃ Y o, VD Y o ∧ l.date = dateOfYo Y o ∧ TValid l.time ∧ l.time.frac = z.utc.time.frac := by
  obtain ⟨l0, _, hext, _, hfr, hnl, hdi⟩ := Chrono.Props.C04.headroom_sound z hz
  by_cases hr : InRangeSecs (wallSecs z)
  · rw [if_pos hr] at hnl
    rw [hnl] at h
    have e : l = l0 := by injection h with h'; exact h'.symm
    rw [e]
    obtain ⟨o, hd, _, y1, y2, o1, o2⟩ := Chrono.Proofs.Ts.dateInv_repr l0.date (hdi.mpr hr)
    exact ⟨l0.date.year, o, ⟨y1, y2, o1, o2⟩, hd, hext.2, hfr⟩
  · rw [if_neg hr] at hnl
    rw [hnl] at h
    cases h

/-- the timestamp `%s` prints for a zone-aware value is the instant of its UTC reading -/
theorem zoned_printed_stamp (z : Zoned) (hz : ZInv z) (Y : Int) (o : Nat) (t : Time) (hvd : VD Y o)
    (hl : z.overflowing_naive_local = .ok ⟨dateOfYo Y o, t⟩) :
    timestampIs.instSecsLocal ⟨dateOfYo Y o, t⟩ - z.off = instSecs z.utc := by
  obtain ⟨l0, h0, _, hs, _⟩ := Chrono.Props.C04.headroom_sound z hz
  rw [hl] at h0
  cases h0
  obtain ⟨g1, g2, _⟩ := vd_fields Y o hvd
  have hE : EPOCH_DAY = 719163 := rfl
  unfold wallSecs at hs
  unfold instSecs dayNumOf at hs
  unfold timestampIs.instSecsLocal
  simp only [g1, g2, hE] at hs ⊢
  unfold instSecs dayNumOf
  rw [hE]
  omega

/-- **round trip, target `DateTime<FixedOffset>`, timestamp-only formats** (`%s`, `%s %z`, `%s%:z`,
`%z %s`): the result is the instant at whole seconds at the printed (minute-rounded) offset — UTC
without an offset item — exactly `Spec.truncate_to_precision` -/
theorem family_stamp_zoned (is : List Item) (z : Zoned) (hu : NDTInv z.utc) (Y : Int) (o : Nat) (hvd : VD Y o)
    (t : Time) (htv : TValid t) (hl : z.overflowing_naive_local = .ok ⟨dateOfYo Y o, t⟩)
    (hzo : -86400 < z.off ∧ z.off < 86400)
    (text : List Nat) (hp : ∀ it ∈ is, provedItem it = true) (hU : Unambiguous is .zoned)
    (hso : stampOnly (carries is) = true) (hsafe : spaceSafe is = true)
    (hE : expressible is (.zoned z))
    (hfmt : ParseFrom.formatItemsOf (.zoned z) is = Format.wok text) :
    ∃ p', Parse.parse Parsed.new text is = .ok p' ∧
      ∀ v', truncate_to_precision is (.zoned z) = some v' → ParseFrom.resolve .zoned p' = .ok (.ok v') := by
  obtain ⟨fy, _⟩ := date_facts Y o hvd
  obtain ⟨_, ⟨hsep, _⟩, _, _, _⟩ := hU
  obtain ⟨hEy, _, hEo, _, _⟩ := hE
  simp only [exprYears, shown, hl, onSome, fy] at hEy
  simp only [exprOffset, shown, hl, onSome] at hEo
  simp only [ParseFrom.formatItemsOf, hl, Format.W.ofRes] at hfmt
  obtain ⟨p', h1, hR⟩ := family_stamp_core is Y o hvd t htv
    ⟨some (dateOfYo Y o), some t, some (Format.fixedOffsetName z.off, z.off)⟩ rfl rfl
    (fun x h => by cases h; exact hzo) text hp hsep hso hsafe (fun w hw => by rw [hw] at hEy; exact hEy) hfmt
  refine ⟨p', h1, fun v' hv' => ?_⟩
  have hz : ZInv z := ⟨hu, hzo⟩
  have hstamp := zoned_printed_stamp z hz Y o t hvd hl
  generalize hoff' : (if (carries is).offset = true then roundedOffset z.off else 0) = off' at hv'
  have hr1 : -86400 < off' ∧ off' < 86400 := by
    rw [← hoff']
    by_cases ho : (carries is).offset = true
    · rw [if_pos ho]; exact hEo ho
    · rw [if_neg ho]; omega
  simp only [truncate_to_precision, stampOnly_not_fields _ hso, Bool.false_eq_true, if_false, hoff'] at hv'
  -- the value the specification predicts, and its wall clock
  cases hnl : Zoned.naive_local ⟨⟨z.utc.date, ⟨z.utc.time.secs, 0⟩⟩, off'⟩ with
  | panic => rw [hnl] at hv'; cases hv'
  | ok l' =>
    rw [hnl] at hv'
    cases hv'
    obtain ⟨hud, u0, u1, _, _⟩ := id hu
    have hz' : ZInv ⟨⟨z.utc.date, ⟨z.utc.time.secs, 0⟩⟩, off'⟩ := ⟨⟨hud, u0, u1, by dsimp only; omega, by dsimp only; omega⟩, hr1⟩
    obtain ⟨Y', o', hvd', hd', htv', hfr'⟩ := naive_local_valid _ hz' l' hnl
    have hl'' : Zoned.naive_local ⟨⟨z.utc.date, ⟨z.utc.time.secs, 0⟩⟩, off'⟩ = .ok ⟨dateOfYo Y' o', l'.time⟩ := by
      rw [hnl, ← hd']
    have hts : p'.timestamp = some (instSecs (⟨⟨z.utc.date, ⟨z.utc.time.secs, 0⟩⟩, off'⟩ : Zoned).utc) := by
      rw [hR.timestamp]
      simp only [Option.map_some, Option.getD_some]
      rw [hstamp]
      rfl
    have hoffsel : p'.offset = some off' ∨ (p'.offset = none ∧ off' = 0) := by
      by_cases ho : (carries is).offset = true
      · left
        have hsome := hR.offset_some
        rw [ho] at hsome
        cases hg : p'.offset with
        | none => rw [hg] at hsome; cases hsome
        | some g =>
          have := hR.offset_val g hg
          simp only [Option.map_some, Option.getD_some] at this
          rw [this, ← hoff', if_pos ho]
      · right
        have hsome := hR.offset_some
        have : (carries is).offset = false := by simpa using ho
        rw [this] at hsome
        exact ⟨(isSome_false_iff _).mp hsome, by rw [← hoff', if_neg ho]⟩
    have h2 := Chrono.Props.C14.to_datetime_complete_timestamp p' hR.inType
      ⟨⟨z.utc.date, ⟨z.utc.time.secs, 0⟩⟩, off'⟩ hz' Y' o' l'.time hvd' htv' (by rw [hfr']; dsimp only; omega) hl''
      (hR.date Y' o' hvd') (hR.gy Y') (fun w _ => hR.gi _) (hR.time _) (fun _ => hfr') hts hoffsel
      hR.insufficient
    simp only [ParseFrom.resolve, h2, Parsed.RP.bind]

end Chrono.Proofs.RoundTrip
