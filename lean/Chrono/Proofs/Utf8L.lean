/-
  C15, byte level: well-formed UTF-8 is a concatenation of whole characters; splitting it after a whole
  number of characters (in particular after ASCII bytes) gives a char boundary and a well-formed rest.
  Namespace `Chrono.Proofs.Utf8`.
-/
import Chrono.Spec.Utf8Spec
namespace Chrono.Proofs.Utf8
open Chrono Chrono.M.Tz Chrono.Spec.Utf8

/-- the second byte of a three- or four-byte sequence (the table's restricted ranges) -/
def c3 (b0 b1 : Nat) : Bool :=
  if b0 = 224 then decide (160 ≤ b1) && decide (b1 ≤ 191)
  else if b0 = 237 then decide (128 ≤ b1) && decide (b1 ≤ 159)
  else cont b1
def c4 (b0 b1 : Nat) : Bool :=
  if b0 = 240 then decide (144 ≤ b1) && decide (b1 ≤ 191)
  else if b0 = 244 then decide (128 ≤ b1) && decide (b1 ≤ 143)
  else cont b1

/-- byte length of the well-formed character at the head, if there is one -/
def stepLen : List Nat → Option Nat
  | [] => none
  | b0 :: t =>
    if b0 < 128 then some 1
    else if 194 ≤ b0 ∧ b0 ≤ 223 then
      match t with
      | b1 :: _ => if cont b1 then some 2 else none
      | _ => none
    else if 224 ≤ b0 ∧ b0 ≤ 239 then
      match t with
      | b1 :: b2 :: _ => if c3 b0 b1 && cont b2 then some 3 else none
      | _ => none
    else if 240 ≤ b0 ∧ b0 ≤ 244 then
      match t with
      | b1 :: b2 :: b3 :: _ => if c4 b0 b1 && cont b2 && cont b3 then some 4 else none
      | _ => none
    else none

/-- `validUtf8` peels one well-formed character at a time -/
theorem valid_step (b0 : Nat) (t : List Nat) :
    validUtf8 (b0 :: t) = match stepLen (b0 :: t) with
      | some n => validUtf8 ((b0 :: t).drop n)
      | none => false := by
  rw [validUtf8.eq_def]
  simp only [stepLen]
  by_cases h1 : b0 < 128
  · simp only [h1, if_true, List.drop_succ_cons, List.drop_zero]
  · simp only [h1, if_false]
    by_cases h2 : 194 ≤ b0 ∧ b0 ≤ 223
    · simp only [h2, and_self, if_true]
      cases t with
      | nil => rfl
      | cons b1 t1 =>
        simp only
        cases hc : cont b1 <;> simp [hc]
    · simp only [h2, if_false]
      by_cases h3 : 224 ≤ b0 ∧ b0 ≤ 239
      · simp only [h3, and_self, if_true]
        match t with
        | [] => rfl
        | [_] => rfl
        | b1 :: b2 :: t2 =>
          simp only [c3]
          by_cases hc : ((if b0 = 224 then decide (160 ≤ b1) && decide (b1 ≤ 191)
            else if b0 = 237 then decide (128 ≤ b1) && decide (b1 ≤ 159) else cont b1) && cont b2) = true
          · simp only [hc, if_true, Bool.true_and, List.drop_succ_cons, List.drop_zero]
          · simp only [hc, if_false]; rfl
      · simp only [h3, if_false]
        by_cases h4 : 240 ≤ b0 ∧ b0 ≤ 244
        · simp only [h4, and_self, if_true]
          match t with
          | [] => rfl
          | [_] => rfl
          | [_, _] => rfl
          | b1 :: b2 :: b3 :: t3 =>
            simp only [c4]
            by_cases hc : ((if b0 = 240 then decide (144 ≤ b1) && decide (b1 ≤ 191)
              else if b0 = 244 then decide (128 ≤ b1) && decide (b1 ≤ 143) else cont b1) && cont b2 && cont b3) = true
            · simp only [hc, if_true, Bool.true_and, List.drop_succ_cons, List.drop_zero]
            · simp only [hc, if_false]; rfl
        · simp only [h4, if_false]

/-- a single well-formed character -/
def IsChar : List Nat → Prop
  | [b0] => b0 < 128
  | [b0, b1] => (194 ≤ b0 ∧ b0 ≤ 223) ∧ cont b1 = true
  | [b0, b1, b2] => (224 ≤ b0 ∧ b0 ≤ 239) ∧ (c3 b0 b1 && cont b2) = true
  | [b0, b1, b2, b3] => (240 ≤ b0 ∧ b0 ≤ 244) ∧ (c4 b0 b1 && cont b2 && cont b3) = true
  | _ => False

theorem stepLen_of_char (c t : List Nat) (h : IsChar c) : stepLen (c ++ t) = some c.length := by
  match c, h with
  | [b0], h => simp only [IsChar] at h; simp [stepLen, h]
  | [b0, b1], h =>
    simp only [IsChar] at h
    have : ¬ b0 < 128 := by omega
    simp [stepLen, h, this]
  | [b0, b1, b2], h =>
    simp only [IsChar] at h
    have h1 : ¬ b0 < 128 := by omega
    have h2 : ¬ (194 ≤ b0 ∧ b0 ≤ 223) := by omega
    simp only [stepLen, List.cons_append, List.nil_append, h1, h2, h.1, h.2, and_self, if_true, if_false,
      List.length_cons, List.length_nil]
  | [b0, b1, b2, b3], h =>
    simp only [IsChar] at h
    have h1 : ¬ b0 < 128 := by omega
    have h2 : ¬ (194 ≤ b0 ∧ b0 ≤ 223) := by omega
    have h3 : ¬ (224 ≤ b0 ∧ b0 ≤ 239) := by omega
    simp only [stepLen, List.cons_append, List.nil_append, h1, h2, h3, h.1, h.2, and_self, if_true, if_false,
      List.length_cons, List.length_nil]

theorem char_of_stepLen (s : List Nat) (n : Nat) (h : stepLen s = some n) :
    ∃ c t, s = c ++ t ∧ IsChar c ∧ c.length = n := by
  cases s with
  | nil => cases h
  | cons b0 t =>
    simp only [stepLen] at h
    by_cases h1 : b0 < 128
    · simp only [h1, if_true] at h
      injection h with h
      exact ⟨[b0], t, rfl, h1, h⟩
    · simp only [h1, if_false] at h
      by_cases h2 : 194 ≤ b0 ∧ b0 ≤ 223
      · simp only [h2, and_self, if_true] at h
        match t, h with
        | b1 :: t1, h =>
          simp only at h
          by_cases hc : cont b1 = true
          · simp only [hc, if_true] at h; injection h with h
            exact ⟨[b0, b1], t1, rfl, ⟨h2, hc⟩, h⟩
          · simp only [hc] at h; cases h
      · simp only [h2, if_false] at h
        by_cases h3 : 224 ≤ b0 ∧ b0 ≤ 239
        · simp only [h3, and_self, if_true] at h
          match t, h with
          | b1 :: b2 :: t2, h =>
            simp only at h
            by_cases hc : (c3 b0 b1 && cont b2) = true
            · simp only [hc, if_true] at h; injection h with h
              exact ⟨[b0, b1, b2], t2, rfl, ⟨h3, hc⟩, h⟩
            · simp only [hc] at h; cases h
        · simp only [h3, if_false] at h
          by_cases h4 : 240 ≤ b0 ∧ b0 ≤ 244
          · simp only [h4, and_self, if_true] at h
            match t, h with
            | b1 :: b2 :: b3 :: t3, h =>
              simp only at h
              by_cases hc : (c4 b0 b1 && cont b2 && cont b3) = true
              · simp only [hc, if_true] at h; injection h with h
                exact ⟨[b0, b1, b2, b3], t3, rfl, ⟨h4, hc⟩, h⟩
              · simp only [hc] at h; cases h
          · simp only [h4, if_false] at h; cases h

theorem isChar_pos (c : List Nat) (h : IsChar c) : 1 ≤ c.length := by
  match c, h with
  | [_], _ => simp
  | [_, _], _ => simp
  | [_, _, _], _ => simp
  | [_, _, _, _], _ => simp

/-- well-formed = empty, or a well-formed character followed by a well-formed string -/
theorem valid_cons_iff (s : List Nat) (hs : s ≠ []) :
    validUtf8 s = true ↔ ∃ c t, s = c ++ t ∧ IsChar c ∧ validUtf8 t = true := by
  cases s with
  | nil => exact absurd rfl hs
  | cons b0 t =>
    rw [valid_step]
    constructor
    · intro h
      cases hn : stepLen (b0 :: t) with
      | none => rw [hn] at h; cases h
      | some n =>
        rw [hn] at h
        obtain ⟨c, t', he, hc, hl⟩ := char_of_stepLen _ _ hn
        refine ⟨c, t', he, hc, ?_⟩
        simp only at h
        rw [he, ← hl, List.drop_left] at h
        exact h
    · rintro ⟨c, t', he, hc, hv⟩
      rw [he, stepLen_of_char c t' hc]
      simp only [List.drop_left]
      exact hv

theorem valid_char_append (c t : List Nat) (hc : IsChar c) : validUtf8 (c ++ t) = validUtf8 t := by
  have hne : c ++ t ≠ [] := by
    have := isChar_pos c hc
    intro h; rw [List.append_eq_nil_iff] at h; rw [h.1] at this; simp at this
  obtain ⟨b0, t0, he⟩ : ∃ b0 t0, c ++ t = b0 :: t0 := by
    cases hct : c ++ t with
    | nil => exact absurd hct hne
    | cons b0 t0 => exact ⟨b0, t0, rfl⟩
  rw [he, valid_step, ← he, stepLen_of_char c t hc]
  simp only [List.drop_left]

/-- concatenation of well-formed strings -/
theorem valid_append : ∀ (n : Nat) (a b : List Nat), a.length ≤ n → validUtf8 a = true → validUtf8 b = true →
    validUtf8 (a ++ b) = true := by
  intro n
  induction n with
  | zero =>
    intro a b hl _ hb
    have : a = [] := List.eq_nil_of_length_eq_zero (by omega)
    rw [this]; exact hb
  | succ n ih =>
    intro a b hl ha hb
    by_cases hne : a = []
    · rw [hne]; exact hb
    · obtain ⟨c, t, he, hc, hv⟩ := (valid_cons_iff a hne).mp ha
      have := isChar_pos c hc
      rw [he, List.append_assoc, valid_char_append c _ hc]
      exact ih t b (by rw [he, List.length_append] at hl; omega) hv hb

/-- a well-formed string split after a well-formed prefix: the rest is well formed -/
theorem valid_split : ∀ (n : Nat) (a b : List Nat), a.length ≤ n → validUtf8 (a ++ b) = true → validUtf8 a = true →
    validUtf8 b = true := by
  intro n
  induction n with
  | zero =>
    intro a b hl hab _
    have : a = [] := List.eq_nil_of_length_eq_zero (by omega)
    rw [this] at hab; exact hab
  | succ n ih =>
    intro a b hl hab ha
    by_cases hne : a = []
    · rw [hne] at hab; exact hab
    · obtain ⟨c, t, he, hc, hv⟩ := (valid_cons_iff a hne).mp ha
      have := isChar_pos c hc
      rw [he, List.append_assoc, valid_char_append c _ hc] at hab
      exact ih t b (by rw [he, List.length_append] at hl; omega) hab hv

theorem valid_ascii (l : List Nat) (h : ∀ b ∈ l, b < 128) : validUtf8 l = true := by
  induction l with
  | nil => rfl
  | cons b t ih =>
    have hb : b < 128 := h b (by simp)
    have : validUtf8 ([b] ++ t) = validUtf8 t := valid_char_append [b] t hb
    rw [List.singleton_append] at this
    rw [this]
    exact ih (fun x hx => h x (List.mem_cons_of_mem _ hx))

/-- the head of a well-formed string is not a continuation byte -/
theorem head_not_cont (b : Nat) (t : List Nat) (h : validUtf8 (b :: t) = true) : cont b = false := by
  obtain ⟨c, t', he, hc, _⟩ := (valid_cons_iff (b :: t) (by simp)).mp h
  match c, hc with
  | [b0], hc =>
    simp only [IsChar] at hc; injection he with he _; subst he; unfold cont; simp; omega
  | [b0, _], hc =>
    simp only [IsChar] at hc; injection he with he _; subst he; unfold cont; simp; omega
  | [b0, _, _], hc =>
    simp only [IsChar] at hc; injection he with he _; subst he; unfold cont; simp; omega
  | [b0, _, _, _], hc =>
    simp only [IsChar] at hc; injection he with he _; subst he; unfold cont; simp; omega

theorem cont_ge (b : Nat) (h : cont b = true) : 128 ≤ b := by
  unfold cont at h; simp at h; omega
theorem c3_ge (b0 b1 : Nat) (h : c3 b0 b1 = true) : 128 ≤ b1 := by
  unfold c3 at h
  split at h
  · simp at h; omega
  · split at h
    · simp at h; omega
    · exact cont_ge _ h
theorem c4_ge (b0 b1 : Nat) (h : c4 b0 b1 = true) : 128 ≤ b1 := by
  unfold c4 at h
  split at h
  · simp at h; omega
  · split at h
    · simp at h; omega
    · exact cont_ge _ h

/-- every byte of a character after the first is ≥ 128 -/
theorem isChar_tail_ge (c : List Nat) (h : IsChar c) : ∀ b ∈ c.tail, 128 ≤ b := by
  match c, h with
  | [_], _ => intro b hb; simp at hb
  | [_, b1], h =>
    simp only [IsChar] at h
    intro b hb; simp at hb; subst hb; exact cont_ge _ h.2
  | [b0, b1, b2], h =>
    simp only [IsChar, Bool.and_eq_true] at h
    intro b hb; simp at hb
    rcases hb with rfl | rfl
    · exact c3_ge _ _ h.2.1
    · exact cont_ge _ h.2.2
  | [b0, b1, b2, b3], h =>
    simp only [IsChar, Bool.and_eq_true] at h
    intro b hb; simp at hb
    rcases hb with rfl | rfl | rfl
    · exact c4_ge _ _ h.2.1.1
    · exact cont_ge _ h.2.1.2
    · exact cont_ge _ h.2.2

/-- the byte length of a character is determined by its lead byte (`Scan.charLen`) -/
theorem isChar_len (c : List Nat) (h : IsChar c) :
    ∃ b0 t, c = b0 :: t ∧ c.length = (if b0 < 128 then 1 else if b0 < 224 then 2 else if b0 < 240 then 3 else 4) := by
  match c, h with
  | [b0], h => simp only [IsChar] at h; exact ⟨b0, [], rfl, by simp [h]⟩
  | [b0, b1], h =>
    simp only [IsChar] at h
    exact ⟨b0, [b1], rfl, by rw [if_neg (by omega), if_pos (by omega)]; rfl⟩
  | [b0, b1, b2], h =>
    simp only [IsChar] at h
    exact ⟨b0, [b1, b2], rfl, by rw [if_neg (by omega), if_neg (by omega), if_pos (by omega)]; rfl⟩
  | [b0, b1, b2, b3], h =>
    simp only [IsChar] at h
    exact ⟨b0, [b1, b2, b3], rfl, by rw [if_neg (by omega), if_neg (by omega), if_neg (by omega)]; rfl⟩

/-- in a well-formed string, the position after an ASCII byte splits it into well-formed halves -/
theorem valid_upto_ascii : ∀ (n : Nat) (pre : List Nat) (c : Nat) (rest : List Nat), pre.length ≤ n →
    validUtf8 (pre ++ c :: rest) = true → c < 128 → validUtf8 (pre ++ [c]) = true := by
  intro n
  induction n with
  | zero =>
    intro pre c rest hl _ hc
    have : pre = [] := List.eq_nil_of_length_eq_zero (by omega)
    rw [this]; exact valid_ascii [c] (by intro b hb; simp at hb; omega)
  | succ n ih =>
    intro pre c rest hl hv hc
    by_cases hne : pre = []
    · rw [hne]; exact valid_ascii [c] (by intro b hb; simp at hb; omega)
    · obtain ⟨ch, t, he, hch, hvt⟩ := (valid_cons_iff (pre ++ c :: rest) (by simp)).mp hv
      have hpos := isChar_pos ch hch
      -- the character cannot reach the ASCII byte `c`
      have hle : ch.length ≤ pre.length := by
        refine Classical.byContradiction fun hgt' => ?_
        have hgt : pre.length < ch.length := by omega
        have hidx : (pre ++ c :: rest)[pre.length]? = some c := by simp
        rw [he, List.getElem?_append_left hgt] at hidx
        have hmem : c ∈ ch.tail := by
          have hpl : 1 ≤ pre.length := by
            cases pre with
            | nil => exact absurd rfl hne
            | cons _ _ => simp
          cases ch with
          | nil => simp at hpos
          | cons b0 tl =>
            obtain ⟨k, hk⟩ : ∃ k, pre.length = k + 1 := ⟨pre.length - 1, by omega⟩
            rw [hk, List.getElem?_cons_succ] at hidx
            exact List.mem_of_getElem? hidx
        have := isChar_tail_ge ch hch c hmem
        omega
      obtain ⟨pre', hp', ht'⟩ : ∃ pre', pre = ch ++ pre' ∧ t = pre' ++ c :: rest := by
        rcases List.append_eq_append_iff.mp he with ⟨a', h1, h2⟩ | ⟨c', h1, h2⟩
        · -- ch = pre ++ a', then a' = [] by length
          have : a'.length = 0 := by
            have := congrArg List.length h1; rw [List.length_append] at this; omega
          have ha : a' = [] := List.eq_nil_of_length_eq_zero this
          subst ha
          exact ⟨[], by simpa using h1.symm, by simpa using h2.symm⟩
        · exact ⟨c', h1, h2⟩
      rw [hp', List.append_assoc, valid_char_append ch _ hch]
      refine ih pre' c rest ?_ (by rw [← ht']; exact hvt) hc
      rw [hp', List.length_append] at hl; omega

/-! ### boundary suffixes -/

theorem bs_refl (s : List Nat) : BoundarySuffix s s := ⟨[], rfl, rfl⟩

theorem bs_trans {s r q : List Nat} (h1 : BoundarySuffix s r) (h2 : BoundarySuffix r q) : BoundarySuffix s q := by
  obtain ⟨p1, e1, v1⟩ := h1
  obtain ⟨p2, e2, v2⟩ := h2
  exact ⟨p1 ++ p2, by rw [e1, e2, List.append_assoc], valid_append _ p1 p2 (Nat.le_refl _) v1 v2⟩

theorem bs_ascii (pre rest : List Nat) (h : ∀ b ∈ pre, b < 128) : BoundarySuffix (pre ++ rest) rest :=
  ⟨pre, rfl, valid_ascii pre h⟩

theorem bs_cons (b : Nat) (rest : List Nat) (h : b < 128) : BoundarySuffix (b :: rest) rest :=
  bs_ascii [b] rest (by intro x hx; simp at hx; omega)

theorem bs_valid_rest {s rest : List Nat} (hv : validUtf8 s = true) (h : BoundarySuffix s rest) :
    validUtf8 rest = true := by
  obtain ⟨pre, e, v⟩ := h
  rw [e] at hv
  exact valid_split _ pre rest (Nat.le_refl _) hv v

/-- **what a boundary suffix is for Rust**: with `k` the number of bytes consumed, `rest` is `&s[k..]`,
`k ≤ s.len()` and `s.is_char_boundary(k)` — the slice cannot panic — and `rest` is again a `&str` -/
theorem bs_boundary {s rest : List Nat} (hv : validUtf8 s = true) (h : BoundarySuffix s rest) :
    s.length - rest.length ≤ s.length ∧ rest = s.drop (s.length - rest.length) ∧
    isCharBoundary s (s.length - rest.length) = true ∧ validUtf8 rest = true := by
  have hr := bs_valid_rest hv h
  obtain ⟨pre, e, _⟩ := h
  have hk : s.length - rest.length = pre.length := by rw [e, List.length_append]; omega
  refine ⟨by omega, ?_, ?_, hr⟩
  · rw [hk, e, List.drop_left]
  · rw [hk]
    unfold isCharBoundary
    cases rest with
    | nil => rw [e]; simp
    | cons r0 rt =>
      have hc := head_not_cont r0 rt hr
      have hget : s.getD pre.length 0 = r0 := by rw [e]; simp [List.getD]
      have hlt : pre.length < s.length := by rw [e, List.length_append]; simp
      rw [hget, hc]; simp [hlt]

end Chrono.Proofs.Utf8
