/-
  C04, second audit (2026-09-30): helper lemmas for
  * the RFC 3339 text of a reading whose year is outside 0–9999 (the writer then prints the signed year with
    at least 5 digits) — used for the two headroom days, where C10's `write_rfc3339_eq` (years 0–9999) does
    not apply;
  * `Option::expect` on a checked result (`DateTime ± Days`, deprecated `DateTime::from_local`);
  * the side conditions of the code-translation theorems of Props/GenDateTime.lean (`DateOk`, ordinal-leap
    field ≤ 732) from the date invariant.
  Namespace `Chrono.Proofs.ZNC`.
-/
import Chrono.Proofs.ZonedFormatL
import Chrono.Proofs.Rfc3339WriteL
import Chrono.Model.ZonedConv
import Chrono.Props.GenDateTime

namespace Chrono.Proofs.ZNC
open Chrono Chrono.M Chrono.M.Format Chrono.Spec Chrono.Proofs Chrono.Proofs.ZN Chrono.Extracted
open Chrono.Proofs.Rfc3339 Chrono.Proofs.RenderScan

/-- **the text of `write_rfc3339`** for a date whose year is NOT in 0–9999: signed year (`fmtInt year 5 zero-padded
with sign`), then exactly the fields of `write_rfc3339_eq` -/
theorem write_rfc3339_bigyear (date : Date) (time : Time) (off : Int) (sf : SecondsFormat) (use_z : Bool)
    (mo d : Nat) (hy : ¬ (0 ≤ date.year ∧ date.year ≤ 9999)) (hmo : date.month = .ok mo) (hd : date.day = .ok d)
    (hmo' : mo ≤ 99) (hd' : d ≤ 99) (ht : TValid time) (hoff : -86400 < off ∧ off < 86400) :
    write_rfc3339 ⟨date, time⟩ off sf use_z =
      wok (fmtInt date.year 5 .zero true ++ (45 :: (two mo ++ (45 :: (two d ++
        (84 :: (two (time.secs / 3600).toNat ++ (58 :: (two (time.secs / 60 % 60).toNat ++ (58 ::
        (two (time.secs % 60 + (if time.frac ≥ 1000000000 then 1 else 0)).toNat ++
        (fracText sf (if time.frac ≥ 1000000000 then time.frac - 1000000000 else time.frac) ++
         offText use_z off)))))))))))) := by
  obtain ⟨t1, t2, t3, t4⟩ := ht
  rw [write_rfc3339_unfold, hmo, hd]
  simp only [W.ofRes]
  have u8 : ∀ x : Int, 0 ≤ x → x < 256 → asU8 x = x := by intro x h1 h2; unfold asU8; omega
  rw [if_neg hy, u8 (mo : Int) (by omega) (by omega), u8 (d : Int) (by omega) (by omega),
    u8 (time.secs / 60 / 60) (by omega) (by omega), u8 (time.secs / 60 % 60) (by omega) (by omega)]
  have hsec : asU8 (if time.frac ≥ 1000000000 then time.secs % 60 + 1 else time.secs % 60) =
      time.secs % 60 + (if time.frac ≥ 1000000000 then 1 else 0) := by
    rw [u8 _ (by split <;> omega) (by split <;> omega)]; split <;> omega
  rw [hsec]
  rw [write_hundreds_eq (mo : Int) (by omega) (by omega), write_hundreds_eq (d : Int) (by omega) (by omega),
    write_hundreds_eq (time.secs / 60 / 60) (by omega) (by omega),
    write_hundreds_eq (time.secs / 60 % 60) (by omega) (by omega),
    write_hundreds_eq (time.secs % 60 + (if time.frac ≥ 1000000000 then 1 else 0)) (by split <;> omega)
      (by split <;> omega)]
  rw [offset_minutes_eq .colon use_z off hoff]
  have hoffw : (if use_z = true ∧ off = 0 then wok [90]
      else wok ((if off < 0 then 45 else 43) ::
        (two (((if off < 0 then -off else off) + 30) / 60 / 60).toNat ++ colonText .colon ++
         two (((if off < 0 then -off else off) + 30) / 60 % 60).toNat))) = wok (offText use_z off) := by
    unfold offText colonText; split <;> rfl
  rw [hoffw]
  simp only [seq_wok, Int.toNat_natCast, List.singleton_append]
  have e1 : time.secs / 60 / 60 = time.secs / 3600 := by omega
  rw [e1]

/-- the month, day and signed-year text of the two headroom days -/
theorem headroom_ymd :
    Date.BEFORE_MIN.month = .ok 12 ∧ Date.BEFORE_MIN.day = .ok 31 ∧ Date.BEFORE_MIN.year = -262144 ∧
    Date.AFTER_MAX.month = .ok 1 ∧ Date.AFTER_MAX.day = .ok 1 ∧ Date.AFTER_MAX.year = 262143 ∧
    fmtInt (-262144) 5 .zero true = [45, 50, 54, 50, 49, 52, 52] ∧
    fmtInt 262143 5 .zero true = [43, 50, 54, 50, 49, 52, 51] ∧
    two 12 = [49, 50] ∧ two 31 = [51, 49] ∧ two 1 = [48, 49] := by decide +kernel

/-- the RFC 3339 text demanded for a value whose wall clock lies in a headroom day: the calendar's own date of that
day (`-262144-12-31` before the range, `+262143-01-01` after it; signed year as RFC 3339 / ISO 8601 demand beyond
four digits), `T`, hour / minute / second of `instant + offset` (a leap-second representation shows second + 1), the
fraction of the requested precision, the offset -/
def headRfcText (z : Zoned) (sf : SecondsFormat) (use_z : Bool) : List Nat :=
  (if wallSecs z < SECS_MIN then [45, 50, 54, 50, 49, 52, 52, 45, 49, 50, 45, 51, 49]
   else [43, 50, 54, 50, 49, 52, 51, 45, 48, 49, 45, 48, 49]) ++
  (84 :: (two (wallSecs z % 86400 / 3600).toNat ++ (58 :: (two (wallSecs z % 86400 / 60 % 60).toNat ++ (58 ::
    (two (wallSecs z % 86400 % 60 + (if z.utc.time.frac ≥ 1000000000 then 1 else 0)).toNat ++
    (fracText sf (if z.utc.time.frac ≥ 1000000000 then z.utc.time.frac - 1000000000 else z.utc.time.frac) ++
     offText use_z z.off)))))))

/-- `write_rfc3339` on a headroom wall clock -/
theorem head_rfc3339 (z : Zoned) (hz : ZInv z) (hh : ¬ InRangeSecs (wallSecs z)) (l : NaiveDT)
    (hl : Zoned.overflowing_naive_local z = .ok l) (sf : SecondsFormat) (use_z : Bool) :
    write_rfc3339 l z.off sf use_z = wok (headRfcText z sf use_z) := by
  obtain ⟨l', h1, h2, h3, h4, _, h6⟩ := naive_local_spec z hz
  rw [hl] at h1; injection h1 with h1; subst h1
  obtain ⟨_, _, _, hho, _⟩ := wall_date_cases z hz l hl
  have hnd : ¬ DateInv l.date := fun h => hh (h6.mp h)
  obtain ⟨t1, t2, t3, t4⟩ := h2.2
  have hsecs := instSecs_ext l h2.1
  rw [h3] at hsecs
  have hsod : l.time.secs = wallSecs z % 86400 := by omega
  obtain ⟨dm, dM, db, da, _⟩ := day_consts
  obtain ⟨m1, d1, y1, m2, d2, y2, fy1, fy2, tw12, tw31, tw1⟩ := headroom_ymd
  have hS1 : SECS_MIN = (DAY_MIN - EPOCH_DAY) * 86400 := rfl
  have hS2 : SECS_MAX = (DAY_MAX - EPOCH_DAY) * 86400 + 86399 := rfl
  have hws : wallSecs z = (dayNumOf l.date - EPOCH_DAY) * 86400 + l.time.secs := by rw [← h3]; rfl
  obtain ⟨date, time⟩ := l
  dsimp only at *
  rcases hho with h | h | h
  · exact absurd h hnd
  · subst h
    have hlt : wallSecs z < SECS_MIN := by rw [hws, db, hS1, dm]; omega
    rw [write_rfc3339_bigyear Date.BEFORE_MIN time z.off sf use_z 12 31 (by rw [y1]; omega) m1 d1 (by omega) (by omega)
      ⟨t1, t2, t3, t4⟩ hz.2, y1, fy1, tw12, tw31, hsod, h4]
    unfold headRfcText
    rw [if_pos hlt]
    rfl
  · subst h
    have hge : ¬ wallSecs z < SECS_MIN := by rw [hws, da, hS1, dm]; omega
    rw [write_rfc3339_bigyear Date.AFTER_MAX time z.off sf use_z 1 1 (by rw [y2]; omega) m2 d2 (by omega) (by omega)
      ⟨t1, t2, t3, t4⟩ hz.2, y2, fy2, tw1, hsod, h4]
    unfold headRfcText
    rw [if_neg hge]
    rfl

/-! ### `expect` -/

theorem expectSome_ok {α} (x : Res (Option α)) (r : Option α) (h : x = .ok r) :
    (expectSome x = .panic ↔ r = none) ∧ (∀ a, expectSome x = .ok a ↔ r = some a) := by
  subst h
  cases r with
  | none =>
    refine ⟨⟨fun _ => rfl, fun _ => rfl⟩, fun a => ⟨?_, ?_⟩⟩
    · intro h; cases h
    · intro h; cases h
  | some v =>
    refine ⟨⟨?_, ?_⟩, fun a => ⟨?_, ?_⟩⟩
    · intro h; cases h
    · intro h; cases h
    · intro h
      have h' : Res.ok v = Res.ok a := h
      injection h' with h'; rw [h']
    · intro h; injection h with h; subst h; rfl

/-! ### side conditions of the code-translation theorems -/

/-- a date of the range is an `i32` word with ordinal ≥ 1 and ordinal-leap field ≤ 732 -/
theorem dateOk_of_inv (d : Date) (h : DateInv d) :
    Props.GenDateTime.DateOk d ∧ d.yof / 8 % 1024 ≤ 732 := by
  unfold DateInv at h
  obtain ⟨h1, h2, h3, h4, h5⟩ := h
  obtain ⟨f1, _, f3, _⟩ := flagsOf_facts d.year
  have hMIN : MIN_YEAR = -262143 := rfl
  have hMAX : MAX_YEAR = 262142 := rfl
  unfold Props.GenDateTime.DateOk
  unfold Date.year at h1 h2
  unfold yearLen at h4
  unfold Date.ordinal at h3 h4 ⊢
  have e1 : d.yof / 8 = d.yof / 16 * 2 + d.yof % 16 / 8 := by omega
  have hk : 0 ≤ d.yof % 16 / 8 ∧ d.yof % 16 / 8 ≤ 1 := by omega
  have e2 : ∀ (x k : Int), 0 ≤ k → k ≤ 1 → (x * 2 + k) % 1024 = x % 512 * 2 + k := by intro x k _ _; omega
  refine ⟨⟨by omega, h3⟩, ?_⟩
  rw [e1, e2 _ _ hk.1 hk.2]
  by_cases hl : isLeap d.year
  · rw [if_pos hl] at h4 f3; omega
  · rw [if_neg hl] at h4 f3; omega

end Chrono.Proofs.ZNC
