/- Helper lemmas for C06: `checked_div` (variable divisor) and `Sum`. -/
import Chrono.Proofs.DeltaL
import Chrono.Spec.DeltaDisplaySpec

namespace Chrono.Proofs
open Chrono Chrono.M Chrono.Spec Chrono.Extracted

/-- everything `omega` needs to know about Rust's `/` and `%` with a variable divisor:
the division identity, sign and size of the remainder, size of the quotient -/
theorem tdm (x k : Int) (hk : k ≠ 0) :
    x = Int.tdiv x k * k + Int.tmod x k ∧
    (0 ≤ x → 0 ≤ Int.tmod x k ∧ Int.tmod x k ≤ x) ∧
    (x ≤ 0 → x ≤ Int.tmod x k ∧ Int.tmod x k ≤ 0) ∧
    (0 < k → -k < Int.tmod x k ∧ Int.tmod x k < k) ∧
    (k < 0 → k < Int.tmod x k ∧ Int.tmod x k < -k) ∧
    (0 ≤ x → -x ≤ Int.tdiv x k ∧ Int.tdiv x k ≤ x) ∧
    (x ≤ 0 → x ≤ Int.tdiv x k ∧ Int.tdiv x k ≤ -x) := by
  have h1 := Int.mul_tdiv_add_tmod x k
  have h2 := Int.natAbs_tmod x k
  have h3 := Int.natAbs_tdiv_le_natAbs x k
  have h4 : x.natAbs % k.natAbs < k.natAbs := Nat.mod_lt _ (by omega)
  have h5 : x.natAbs % k.natAbs ≤ x.natAbs := Nat.mod_le _ _
  have h6 : 0 ≤ x → 0 ≤ Int.tmod x k := fun h => Int.tmod_nonneg k h
  have h7 : x ≤ 0 → Int.tmod x k ≤ 0 := by
    intro h
    have := Int.tmod_nonneg k (by omega : 0 ≤ -x)
    rw [Int.neg_tmod] at this
    omega
  have h8 : Int.tdiv x k * k = k * Int.tdiv x k := Int.mul_comm _ _
  generalize Int.tmod x k = r at *
  generalize Int.tdiv x k = q at *
  generalize x.natAbs % k.natAbs = m at *
  refine ⟨by omega, ?_, ?_, ?_, ?_, ?_, ?_⟩ <;> intro h <;> omega

/-- cancel a non-zero factor from a two-sided strict bound (`Bk` stands for `B * k`) -/
theorem bound_of_mul (x B k xk Bk : Int) (hxk : x * k = xk) (hBk : B * k = Bk)
    (hp : 0 < k → -Bk < xk ∧ xk < Bk) (hn : k < 0 → Bk < xk ∧ xk < -Bk) (hk : k ≠ 0) :
    -B < x ∧ x < B := by
  subst hxk hBk
  rcases Int.lt_or_gt_of_ne hk with h | h
  · obtain ⟨h1, h2⟩ := hn h
    constructor <;> nlinarith
  · obtain ⟨h1, h2⟩ := hp h
    constructor <;> nlinarith

/-- a quotient of an in-range count (error below `2|k|`, none for `|k| = 1`) is in range -/
theorem range_of_mul (R k A E Rk : Int) (hRk : R * k = Rk) (h : Rk = A - E)
    (hA : -9223372036854775807000000 ≤ A ∧ A ≤ 9223372036854775807000000)
    (hp : 0 < k → -(2 * k) < E ∧ E < 2 * k) (hn : k < 0 → 2 * k < E ∧ E < -(2 * k))
    (h1 : k = 1 ∨ k = -1 → E = 0) (hk : k ≠ 0) :
    -9223372036854775807000000 ≤ R ∧ R ≤ 9223372036854775807000000 := by
  subst hRk
  by_cases hk1 : k = 1
  · subst hk1; have := h1 (Or.inl rfl); omega
  by_cases hk2 : k = -1
  · subst hk2; have := h1 (Or.inr rfl); omega
  rcases Int.lt_or_gt_of_ne hk with hneg | hpos
  · obtain ⟨e1, e2⟩ := hn hneg
    have hk' : k ≤ -2 := by omega
    constructor <;> nlinarith
  · obtain ⟨e1, e2⟩ := hp hpos
    have hk' : 2 ≤ k := by omega
    constructor <;> nlinarith

/-- the arithmetic content of `checked_div`: sizes of all intermediates and the error identity.
`qs`, `c` = quotient/remainder of the seconds, `e` = `c·10⁹ / k`, `qn` = `nanos / k` -/
theorem div_core (S N k qs c P e qn nanos : Int)
    (ha : 0 ≤ N ∧ N < 1000000000 ∧ -(9223372036854775807 * 1000000) ≤ S * 1000000000 + N ∧
      S * 1000000000 + N ≤ 9223372036854775807 * 1000000)
    (hk : -2147483648 ≤ k ∧ k ≤ 2147483647) (hk0 : k ≠ 0)
    (hqd : qs = Int.tdiv S k) (hcd : c = Int.tmod S k) (hPd : P = c * 1000000000)
    (hed : e = Int.tdiv P k) (hqn : qn = Int.tdiv N k) (hnd : nanos = qn + e) :
    (-9223372036854776 ≤ qs ∧ qs ≤ 9223372036854776) ∧
    (-9223372036854775808 ≤ P ∧ P ≤ 9223372036854775807) ∧
    (-1000000000 < e ∧ e < 1000000000) ∧
    (-1000000000 < nanos ∧ nanos < 1000000000) ∧
    (-(9223372036854775807 * 1000000) ≤ qs * 1000000000 + nanos ∧
      qs * 1000000000 + nanos ≤ 9223372036854775807 * 1000000) ∧
    ((qs * 1000000000 + nanos) * k - (S * 1000000000 + N)).natAbs < 2 * k.natAbs := by
  have hS := tdm S k hk0
  have hP := tdm P k hk0
  have hN := tdm N k hk0
  have hr1 : nanos * k = qn * k + e * k := by rw [hnd]; ring
  have hr2 : (qs * 1000000000 + nanos) * k = qs * k * 1000000000 + nanos * k := by ring
  rw [← hqd, ← hcd] at hS
  rw [← hed] at hP
  rw [← hqn] at hN
  clear hqd hcd hed hqn
  generalize Int.tmod P k = er at *
  generalize Int.tmod N k = nr at *
  generalize hx1 : qs * k = qsk at *
  generalize hx2 : e * k = ek at *
  generalize hx3 : qn * k = qnk at *
  generalize hx4 : nanos * k = nk at *
  have he := bound_of_mul e 1000000000 k ek (1000000000 * k) hx2 rfl (by omega) (by omega) hk0
  have hn := bound_of_mul nanos 1000000000 k nk (1000000000 * k) hx4 rfl (by omega) (by omega) hk0
  have hR := range_of_mul (qs * 1000000000 + nanos) k (S * 1000000000 + N) (er + nr)
    (qsk * 1000000000 + nk) hr2 (by omega) (by omega) (by omega) (by omega) (by omega) hk0
  refine ⟨by omega, by omega, he, hn, by omega, ?_⟩
  rw [hr2]
  omega

/-- `checked_div` by a non-zero `i32`: never panics, never refuses, and returns the pair
`(qs, nanos)` normalised by at most one downward carry -/
theorem div_eq' (a : Delta) (k : Int) (ha : DInv a) (hk : -2147483648 ≤ k ∧ k ≤ 2147483647)
    (hk0 : k ≠ 0) :
    let qs := Int.tdiv a.secs k
    let nanos := Int.tdiv a.nanos k + Int.tdiv (Int.tmod a.secs k * 1000000000) k
    Delta.checked_div a k =
      .ok (some (if nanos < 0 then ⟨qs - 1, nanos + 1000000000⟩ else ⟨qs, nanos⟩)) ∧
    nanos < 1000000000 := by
  obtain ⟨S, N⟩ := a
  simp only [DInv, ns, nsInRange, NS_MAX] at ha
  dfacts
  dsimp only
  obtain ⟨h1, h2, h3, h4, -, -⟩ := div_core S N k (Int.tdiv S k) (Int.tmod S k)
    (Int.tmod S k * 1000000000) (Int.tdiv (Int.tmod S k * 1000000000) k) (Int.tdiv N k)
    (Int.tdiv N k + Int.tdiv (Int.tmod S k * 1000000000) k) ha hk hk0 rfl rfl rfl rfl rfl rfl
  refine ⟨?_, h4.2⟩
  unfold Delta.checked_div
  rw [ite_neg' _ _ hk0]
  simp only [hNPS]
  generalize Int.tdiv S k = qs at *
  generalize Int.tmod S k * 1000000000 = P at *
  rw [ckI64_ok (by omega) (by omega), Res.bind_ok, ckI64_ok (by omega) (by omega), Res.bind_ok]
  generalize Int.tdiv P k = e at *
  generalize Int.tdiv N k = qn at *
  rw [asI32_id (by omega) (by omega), ckI32_ok (by omega) (by omega), Res.bind_ok]
  by_cases hc : qn + e < 0
  · rw [ite_pos' _ _ hc, ite_pos' _ _ hc, ckI64_ok (by omega) (by omega), Res.bind_ok,
      ckI32_ok (by omega) (by omega), Res.bind_ok]
    rfl
  · rw [ite_neg' _ _ hc, ite_neg' _ _ hc, ite_neg' _ _ (by omega)]
    rfl

/-- division by a non-zero `i32` differs from the exact quotient by less than two nanoseconds -/
theorem div_spec' (a : Delta) (k : Int) (ha : DInv a) (hk : -2147483648 ≤ k ∧ k ≤ 2147483647)
    (hk0 : k ≠ 0) :
    ∃ r, Delta.checked_div a k = .ok (some r) ∧ DInv r ∧
      (ns r * k - ns a).natAbs < 2 * k.natAbs := by
  obtain ⟨heq, -⟩ := div_eq' a k ha hk hk0
  obtain ⟨S, N⟩ := a
  dsimp only at heq
  refine ⟨_, heq, ?_⟩
  simp only [DInv, ns, nsInRange, NS_MAX] at ha ⊢
  obtain ⟨-, -, -, h4, h5, h6⟩ := div_core S N k (Int.tdiv S k) (Int.tmod S k)
    (Int.tmod S k * 1000000000) (Int.tdiv (Int.tmod S k * 1000000000) k) (Int.tdiv N k)
    (Int.tdiv N k + Int.tdiv (Int.tmod S k * 1000000000) k) ha hk hk0 rfl rfl rfl rfl rfl rfl
  generalize Int.tdiv S k = qs at *
  generalize Int.tdiv N k + Int.tdiv (Int.tmod S k * 1000000000) k = nanos at *
  have e1 : (qs - 1) * 1000000000 + (nanos + 1000000000) = qs * 1000000000 + nanos := by omega
  by_cases hc : nanos < 0
  · rw [ite_pos' _ _ hc]
    dsimp only
    rw [e1]
    exact ⟨⟨by omega, by omega, h5.1, h5.2⟩, h6⟩
  · rw [ite_neg' _ _ hc]
    dsimp only
    exact ⟨⟨by omega, by omega, h5.1, h5.2⟩, h6⟩

theorem div_zero' (a : Delta) : Delta.checked_div a 0 = .ok none := by
  unfold Delta.checked_div
  exact ite_pos' _ _ rfl

/-- dividing by `1` and by `-1` is exact -/
theorem div_unit' (a : Delta) (ha : DInv a) :
    Delta.checked_div a 1 = .ok (some a) ∧ Delta.checked_div a (-1) = .ok (some (ofNs (-(ns a)))) := by
  obtain ⟨h1, -⟩ := div_eq' a 1 ha (by omega) (by omega)
  obtain ⟨h2, -⟩ := div_eq' a (-1) ha (by omega) (by omega)
  obtain ⟨S, N⟩ := a
  simp only [DInv, ns, nsInRange, NS_MAX] at ha
  dsimp only at h1 h2
  rw [Int.tdiv_one, Int.tmod_one, Int.tdiv_one] at h1
  rw [Int.tdiv_neg, Int.tmod_neg, Int.tdiv_neg, Int.tdiv_neg, Int.tdiv_one, Int.tmod_one,
    Int.tdiv_one] at h2
  constructor
  · rw [h1, ite_neg' _ _ (by omega)]
    simp only [Int.zero_mul, Int.tdiv_one, Int.add_zero]
  · rw [h2]
    simp only [ns, ofNs, Int.zero_mul, Int.tdiv_one, Int.add_zero, Int.neg_zero]
    by_cases hc : -N < 0
    · rw [ite_pos' _ _ hc]
      simp only [Res.ok.injEq, Option.some.injEq, Delta.mk.injEq]; omega
    · rw [ite_neg' _ _ hc]
      simp only [Res.ok.injEq, Option.some.injEq, Delta.mk.injEq]; omega

/-! ### `Sum` -/

theorem sum_spec' (xs : List Delta) : ∀ (acc : Delta), DInv acc → (∀ x ∈ xs, DInv x) →
    Delta.sum xs acc =
      match sumNs (xs.map ns) (ns acc) with
      | some n => .ok (ofNs n)
      | none => .panic := by
  induction xs with
  | nil =>
    intro acc hacc _
    simp only [Delta.sum, List.map_nil, sumNs]
    rw [ofNs_ns acc hacc]
  | cons x xs ih =>
    intro acc hacc hxs
    have hx : DInv x := hxs x (List.mem_cons_self ..)
    have hxs' : ∀ y ∈ xs, DInv y := fun y hy => hxs y (List.mem_cons_of_mem _ hy)
    simp only [Delta.sum, List.map_cons, sumNs]
    rw [add_exact' acc x hacc hx]
    by_cases hr : nsInRange (ns acc + ns x)
    · rw [ite_pos' _ _ hr, ite_pos' _ _ hr]
      obtain ⟨hi, hv⟩ := ofNs_spec' _ hr
      simp only
      rw [ih _ hi hxs', hv]
    · rw [ite_neg' _ _ hr, ite_neg' _ _ hr]

/-- what `sumNs` computes: the total, provided every non-empty prefix sum is in range -/
theorem sumNs_iff (xs : List Int) : ∀ (n m : Int), sumNs xs n = some m ↔
    (m = n + xs.sum ∧ ∀ i, 1 ≤ i → i ≤ xs.length → nsInRange (n + (xs.take i).sum)) := by
  induction xs with
  | nil =>
    intro n m
    simp only [sumNs, List.sum_nil, List.length_nil, Option.some.injEq]
    constructor
    · intro h; exact ⟨by omega, fun i h1 h2 => by omega⟩
    · intro h; omega
  | cons x xs ih =>
    intro n m
    simp only [sumNs, List.sum_cons, List.length_cons]
    by_cases hr : nsInRange (n + x)
    · rw [ite_pos' _ _ hr, ih]
      constructor
      · rintro ⟨h1, h2⟩
        refine ⟨by omega, fun i hi1 hi2 => ?_⟩
        obtain ⟨j, rfl⟩ : ∃ j, i = j + 1 := ⟨i - 1, by omega⟩
        rw [List.take_succ_cons, List.sum_cons]
        by_cases hj : j = 0
        · subst hj; simpa using hr
        · have := h2 j (by omega) (by omega)
          rwa [Int.add_assoc] at this
      · rintro ⟨h1, h2⟩
        refine ⟨by omega, fun i hi1 hi2 => ?_⟩
        have := h2 (i + 1) (by omega) (by omega)
        rwa [List.take_succ_cons, List.sum_cons, ← Int.add_assoc] at this
    · rw [ite_neg' _ _ hr]
      constructor
      · intro h; cases h
      · rintro ⟨_, h2⟩
        exfalso; apply hr
        have := h2 1 (by omega) (by omega)
        simpa using this

end Chrono.Proofs
