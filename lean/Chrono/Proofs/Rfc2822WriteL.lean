/-
  Helper lemmas for C11, part 5: the writer.  `write_rfc2822` / `to_rfc2822` produce the standard form
  of the wall-clock fields (C12's `offset_format_ok`, C01's accessors, C04's `naive_local_spec`), and the
  wall-clock fields of a value are showable, valid and denote the value truncated to whole seconds.
-/
import Chrono.Proofs.Rfc2822StdL
import Chrono.Proofs.FormatL
namespace Chrono.Proofs.Rfc2822
open Chrono Chrono.M Chrono.Spec Chrono.Spec.Rfc2822 Chrono.Extracted Chrono.M.Format

theorem wh_dec2 : ∀ v < 100, write_hundreds (asU8 ((v : Nat) : Int)) = wok (dec2 v) := by decide

theorem wh_dec2' (v : Int) (h0 : 0 ≤ v) (h : v < 100) : write_hundreds (asU8 v) = wok (dec2 v.toNat) := by
  have := wh_dec2 v.toNat (by omega)
  rwa [Int.toNat_of_nonneg h0] at this

theorem loc_tables :
    (∀ w : Weekday, LOC_SHORT_WEEKDAYS.getD w.num_days_from_sunday [] = dayNamesCap.getD w.toNat [] ∧
      weekdays[w.toNat]? = some w) ∧
    LOC_SHORT_MONTHS = monthNamesCap := by
  refine ⟨fun w => by cases w <;> decide, by decide⟩

theorem two_dec2 (v : Int) (h0 : 0 ≤ v) (h : v < 100) : Strftime.two v = dec2 v.toNat := by
  have a := FormatL.write_hundreds_ok v h0 h
  have b := wh_dec2' v h0 h
  rw [a] at b
  unfold wok at b
  injection b with b
  injection b

theorem shownZone_eq (off : Int) (h : -86400 < off ∧ off < 86400) : Strftime.renderOffset .plain off = shownZone off := by
  unfold Strftime.renderOffset shownZone
  simp only []
  have h1 : (0:Int) ≤ ((off.natAbs : Int) + 30) / 60 / 60 ∧ ((off.natAbs : Int) + 30) / 60 / 60 < 100 := by omega
  have h2 : (0:Int) ≤ ((off.natAbs : Int) + 30) / 60 % 60 ∧ ((off.natAbs : Int) + 30) / 60 % 60 < 100 := by omega
  rw [two_dec2 _ h1.1 h1.2, two_dec2 _ h2.1 h2.2]
  have e1 : (((off.natAbs : Int) + 30) / 60 / 60).toNat = (off.natAbs + 30) / 60 / 60 := by omega
  have e2 : (((off.natAbs : Int) + 30) / 60 % 60).toNat = (off.natAbs + 30) / 60 % 60 := by omega
  rw [e1, e2]
  rfl

theorem stdText_eq (f : Rfc2822.Fields) (h : f.off % 60 = 0) : stdText f = stdHead f ++ shownZone f.off := by
  unfold stdText stdHead shownZone
  simp only []
  have e1 : (f.off.natAbs + 30) / 60 / 60 = f.off.natAbs / 3600 := by omega
  have e2 : (f.off.natAbs + 30) / 60 % 60 = f.off.natAbs / 60 % 60 := by omega
  rw [e1, e2]
  simp only [List.append_assoc]


theorem seq_wok' (a : List Nat) (b : W) : (wok a).seq b = match b with
    | .ok (some y) => .ok (some (a ++ y)) | r => r := rfl

/-- `write_rfc2822` on a wall-clock reading: the standard form of its fields, an error outside years 0–9999 -/
theorem write_shape (l : NaiveDT) (off : Int) (Y : Int) (o : Nat) (hvyo : VYO Y o)
    (hl : l.date = dateOfYo Y o) (ht : TValid l.time) (hoff : OffValid off) :
    write_rfc2822 l off =
      if 0 ≤ Y ∧ Y ≤ 9999 then wok (stdHead (wallFields Y o l.time.secs l.time.frac off) ++ shownZone off)
      else werr := by
  obtain ⟨v1, v2, v3, v4⟩ := hvyo
  have hyl := yearLen_ge Y
  obtain ⟨fy, _, _⟩ := dateOfYo_fields Y o (by omega)
  obtain ⟨hm, hd, hval, _⟩ := month_day_spec Y o v3 v4
  have hwd := weekday_spec Y o (by omega)
  obtain ⟨lt1, lt2⟩ := loc_tables
  obtain ⟨t0, t1, f0, f1⟩ := ht
  unfold write_rfc2822
  simp only [hl, fy, hm, hd, W.ofRes]
  by_cases hr : 0 ≤ Y ∧ Y ≤ 9999
  · rw [if_neg (not_not.mpr hr), if_pos hr]
    have hmb := valid_bounds Y _ _ hval
    have hd1 : 1 ≤ dayOfYo Y o := by
      unfold validYmd at hval; simp only [Bool.and_eq_true, decide_eq_true_eq] at hval; exact hval.1.2
    have hwk : weekdayAt (dayNumYo Y o) = some (dateOfYo Y o).weekday := by
      unfold weekdayAt; rw [← hwd, Int.toNat_natCast]; exact (lt1 _).2
    have ey1 : Int.tdiv Y 100 = Y / 100 := by rw [Proofs.tdiv_eq, if_pos hr.1]
    have ey2 : Int.tmod Y 100 = Y % 100 := by rw [Proofs.tmod_eq, if_pos hr.1]; omega
    have wy1 := wh_dec2' (Y / 100) (by omega) (by omega)
    have wy2 := wh_dec2' (Y % 100) (by omega) (by omega)
    have ey3 : (Y / 100).toNat = Y.toNat / 100 := by omega
    have ey4 : (Y % 100).toNat = Y.toNat % 100 := by omega
    have wh := wh_dec2' (l.time.secs / 60 / 60) (by omega) (by omega)
    have wmi := wh_dec2' (l.time.secs / 60 % 60) (by omega) (by omega)
    have wsx := wh_dec2' (l.time.secs % 60 + l.time.frac / 1000000000) (by omega) (by omega)
    have eh : (l.time.secs / 60 / 60).toNat = (l.time.secs / 3600).toNat := by omega
    have es : (l.time.secs % 60 + l.time.frac / 1000000000).toNat =
        (l.time.secs % 60).toNat + (if l.time.frac ≥ 1000000000 then 1 else 0) := by
      split <;> omega
    have hofs := FormatL.offset_format_ok off hoff .plain .minutes .none (Or.inl ⟨rfl, rfl, Or.inr rfl⟩) false
    simp only [Bool.false_eq_true, false_and, if_false] at hofs
    rw [shownZone_eq off hoff] at hofs
    simp only [Time.hms, Time.nanosecond, ey1, ey2, wy1, wy2, ey3, ey4, wh, wmi, wsx, eh, es, hofs, lt1, lt2,
      FormatL.seq_wok]
    unfold stdHead wallFields secOf
    simp only [hwk, Option.getD_some, List.append_assoc]
    by_cases h10 : dayOfYo Y o < 10
    · have e : asU8 ((dayOfYo Y o : Nat) : Int) = (dayOfYo Y o : Nat) := by unfold asU8; omega
      have e2 : (48 + ((dayOfYo Y o : Nat) : Int)).toNat = 48 + dayOfYo Y o := by omega
      have e3 : pushChar (48 + dayOfYo Y o) = [48 + dayOfYo Y o] := by unfold pushChar; rw [if_pos (by omega)]
      simp only [h10, if_true, e, e2, e3, FormatL.seq_wok, List.append_assoc]
    · simp only [h10, if_false, wh_dec2 _ (show dayOfYo Y o < 100 by omega), FormatL.seq_wok, List.append_assoc]
  · rw [if_pos hr, if_neg hr]


/-- the wall-clock reading of `z`, identified with any `(Y, o)` that is its wall-clock date -/
theorem wall_reading (z : Zoned) (hz : ZInv z) (Y : Int) (o : Nat) (hw : WallDate z Y o) :
    ∃ l, Zoned.overflowing_naive_local z = .ok l ∧ l.date = dateOfYo Y o ∧ VYO Y o ∧ TValid l.time ∧
      l.time.secs = wallSecs z % 86400 ∧ l.time.frac = z.utc.time.frac := by
  obtain ⟨l, h1, h2, h3, h4, _, _⟩ := naive_local_spec z hz
  obtain ⟨e, v1, v2, v3, v4⟩ := ext_eq l.date h2.1
  obtain ⟨t1, t2, _, _⟩ := h2.2
  have hsecs := instSecs_ext l h2.1
  rw [h3] at hsecs
  obtain ⟨w1, w2, w3⟩ := hw
  have hyl := yearLen_ge Y
  have hyl' := yearLen_ge l.date.year
  have hday : dayNumYo l.date.year l.date.ordinal.toNat = dayNumYo Y o := by rw [w3]; omega
  have hsod : l.time.secs = wallSecs z % 86400 := by omega
  have hdate := date_of_daynum_unique _ _ _ _ ⟨v3, v4⟩ ⟨w1, w2⟩ hday
  obtain ⟨a1, a2, _⟩ := dateOfYo_fields Y o (by omega)
  obtain ⟨b1, b2, _⟩ := dateOfYo_fields l.date.year l.date.ordinal.toNat (by omega)
  have hY : l.date.year = Y := by rw [← b1, hdate, a1]
  refine ⟨l, h1, by rw [e, hdate], ⟨by omega, by omega, w1, w2⟩, h2.2, hsod, h4⟩

/-- **the writer's text**, every well-formed value: the standard form of the wall-clock fields, the
zone shown as `shownZone`; the documented panic exactly when the wall-clock year is outside 0–9999 -/
theorem to_rfc2822_shape (z : Zoned) (hz : ZInv z) (Y : Int) (o : Nat) (hw : WallDate z Y o) :
    Rfc2822.to_rfc2822 z =
      if 0 ≤ Y ∧ Y ≤ 9999 then .ok (stdHead (fieldsOf z Y o) ++ shownZone z.off) else .panic := by
  obtain ⟨l, h1, h2, h3, h4, h5, h6⟩ := wall_reading z hz Y o hw
  unfold Rfc2822.to_rfc2822
  rw [h1]
  simp only []
  rw [write_shape l z.off Y o h3 h2 h4 hz.2, h5, h6]
  unfold fieldsOf
  by_cases hr : 0 ≤ Y ∧ Y ≤ 9999
  · rw [if_pos hr, if_pos hr]; rfl
  · rw [if_neg hr, if_neg hr]; rfl

/-- every well-formed value has a wall-clock date -/
theorem wallDate_exists (z : Zoned) (hz : ZInv z) : ∃ Y o, WallDate z Y o := by
  obtain ⟨l, _, h2, h3, _⟩ := naive_local_spec z hz
  obtain ⟨_, _, _, v3, v4⟩ := ext_eq l.date h2.1
  obtain ⟨t1, t2, _, _⟩ := h2.2
  have hsecs := instSecs_ext l h2.1
  rw [h3] at hsecs
  exact ⟨l.date.year, l.date.ordinal.toNat, v3, v4, by omega⟩


theorem weekdays_idx : ∀ k < 7, ∃ w, weekdays[k]? = some w ∧ w.toNat = k := by decide

/-- the wall-clock fields of a well-formed value with constructor-built time (leap second only on
:59), wall-clock year 0–9999 and whole-minute offset: showable, valid, and denoting the value
truncated to whole seconds -/
theorem fieldsOf_facts (z : Zoned) (hz : ZInv z) (hs : TStrict z.utc.time) (Y : Int) (o : Nat)
    (hw : WallDate z Y o) (hr : 0 ≤ Y ∧ Y ≤ 9999) (hoff : z.off % 60 = 0) :
    StdFields (fieldsOf z Y o) ∧ Valid (fieldsOf z Y o) ∧ Denotes (fieldsOf z Y o) (truncSecs z) := by
  obtain ⟨w1, w2, w3⟩ := hw
  obtain ⟨⟨hdi, t0, t1, f0, f1⟩, ho⟩ := hz
  obtain ⟨hm, hd, hval, hord⟩ := month_day_spec Y o w1 w2
  have hmb := valid_bounds Y _ _ hval
  have hvb : 1 ≤ monthOfYo Y o ∧ 1 ≤ dayOfYo Y o := by
    unfold validYmd at hval; simp only [Bool.and_eq_true, decide_eq_true_eq] at hval
    exact ⟨hval.1.1.1, hval.1.2⟩
  have hrange := Ts.instSecs_range z.utc ⟨hdi, t0, t1, f0, f1⟩
  have hinr : InRangeSecs (instSecs z.utc) := hrange
  have hext := instSecs_ext z.utc ((dateInv_iff _).mp hdi).1
  have hwk0 : 0 ≤ weekdayOf (dayNumYo Y o) ∧ weekdayOf (dayNumYo Y o) < 7 := by unfold weekdayOf; omega
  obtain ⟨wd, hwd1, hwd2⟩ := weekdays_idx (weekdayOf (dayNumYo Y o)).toNat (by omega)
  have hwat : weekdayAt (dayNumYo Y o) = some wd := hwd1
  have hMIN : MIN_YEAR = -262143 := rfl
  have hMAX : MAX_YEAR = 262142 := rfl
  unfold OffValid at ho
  have hstrict := hs.2
  -- second of the wall-clock day
  have hsod0 : 0 ≤ wallSecs z % 86400 ∧ wallSecs z % 86400 < 86400 := by omega
  have hsod60 : wallSecs z % 86400 % 60 = z.utc.time.secs % 60 := by unfold wallSecs; omega
  generalize hS : wallSecs z % 86400 = S at *
  have hsec : (S % 60).toNat + (if z.utc.time.frac ≥ 1000000000 then 1 else 0) ≤ 60 ∧
      ((S % 60).toNat + (if z.utc.time.frac ≥ 1000000000 then 1 else 0) = 60 ↔ z.utc.time.frac ≥ 1000000000) := by
    split
    · rename_i hl; have : z.utc.time.secs % 60 = 59 := by omega
      constructor <;> [omega; exact ⟨fun _ => hl, fun _ => by omega⟩]
    · rename_i hl; constructor <;> [omega; exact ⟨fun h => by omega, fun h => absurd h hl⟩]
  have hfields : fieldsOf z Y o = ⟨some wd, dayOfYo Y o, monthOfYo Y o, Y, (S / 3600).toNat, (S / 60 % 60).toNat,
      some ((S % 60).toNat + (if z.utc.time.frac ≥ 1000000000 then 1 else 0)), z.off⟩ := by
    unfold fieldsOf wallFields; rw [hwat, hS]
  rw [hfields]
  have hlocal : localSecs ⟨some wd, dayOfYo Y o, monthOfYo Y o, Y, (S / 3600).toNat, (S / 60 % 60).toNat,
      some ((S % 60).toNat + (if z.utc.time.frac ≥ 1000000000 then 1 else 0)), z.off⟩ = wallSecs z := by
    unfold localSecs secOf dayNum
    simp only [Option.getD_some, hord]
    rw [w3]
    by_cases hl : z.utc.time.frac ≥ 1000000000
    · have h60 := hsec.2.mpr hl
      rw [if_pos h60]
      simp only [hl, if_true] at h60
      omega
    · have h60 : ¬ ((S % 60).toNat + (if z.utc.time.frac ≥ 1000000000 then 1 else 0) = 60) := fun h => hl (hsec.2.mp h)
      rw [if_neg h60]
      simp only [hl, if_false]
      omega
  refine ⟨?_, ?_, ?_⟩
  · exact ⟨⟨wd, rfl⟩, hvb.2, hmb.2, hvb.1, hmb.1, hr.1, hr.2, (by dsimp only; omega), (by dsimp only; omega),
      ⟨_, rfl, hsec.1⟩, hoff, ho.1, ho.2⟩
  · refine ⟨(by dsimp only; omega), (by dsimp only; omega), hval, ?_, (by dsimp only; omega), (by dsimp only; omega),
      hsec.1, ho, ?_⟩
    · intro w hw
      cases hw
      unfold dayNum
      simp only [hord]
      omega
    · rw [hlocal]; unfold wallSecs; simp only []
      rw [show instSecs z.utc + z.off - z.off = instSecs z.utc by omega]; exact hinr
  · refine ⟨rfl, ?_, ?_, ⟨hdi, t0, t1, ?_, ?_⟩, ho⟩
    · rw [hlocal]; unfold wallSecs truncSecs instSecs; simp only []; omega
    · unfold truncSecs secOf
      simp only [Option.getD_some]
      by_cases hl : z.utc.time.frac ≥ 1000000000
      · rw [if_pos hl, if_pos (hsec.2.mpr hl)]
      · rw [if_neg hl, if_neg (fun h => hl (hsec.2.mp h))]
    · unfold truncSecs; simp only []; split <;> omega
    · unfold truncSecs; simp only []; split <;> omega

end Chrono.Proofs.Rfc2822
