/- Finite (kernel-evaluated) lemmas for C08; slow to check, so kept apart from DateOpsL.lean. -/
import Chrono.Model.DateOps
import Chrono.Spec.DateOpsSpec

namespace Chrono.Proofs
open Chrono Chrono.M Chrono.Spec Chrono.Extracted Chrono.Extracted.DateOps

/-! ### finite facts about the month-day table -/
theorem mdf_ordinal_fin : ∀ m ≤ 12, ∀ d ≤ 31, ∀ f < 16,
    Mdf.ordinal (m * 512 + d * 16 + f) =
      .ok (if validYmd (repYear f) m d then some (ordinalOf (repYear f) m d) else none) := by
  decide +kernel


end Chrono.Proofs
