/-
  Helper lemmas for C02, second part (audit gaps of audit/C02.md): the nanosecond accessor on every
  representable value, the exact boundary of the reverse round trip, the calendar/clock reading of a
  value with the invariant, and the `unwrap`/`expect` forms.
-/
import Chrono.Proofs.TimestampL
import Chrono.Model.TimestampMore
namespace Chrono.Proofs.Ts2
open Chrono Chrono.M Chrono.Spec Chrono.Spec.Ts Chrono.Extracted Chrono.Proofs Chrono.Proofs.Ts

/-! ### `timestamp_nanos_opt` without the constructors' invariant -/

/-- `timestamp_nanos_opt` (128-bit form, fix 32de816) on every value with the representation
invariant, leap-second representations on any second included -/
theorem nanos_opt_spec_all (dt : NaiveDT) (h : NDTInv dt) :
    NaiveDT.timestamp_nanos_opt dt =
      .ok (if isI64 (instNs dt) then some (instNs dt) else none) := by
  have hts := timestamp_spec dt h
  unfold NaiveDT.timestamp_nanos_opt NaiveDT.timestamp_subsec_nanos Time.nanosecond instNs
  rw [hts]
  simp only [Res.bind]
  generalize instSecs dt = s at *
  generalize dt.time.frac = f at *
  by_cases h2 : isI64 (s * 1000000000 + f)
  · rw [if_pos h2]; unfold isI64 at h2; rw [optI64_some h2.1 h2.2]
  · rw [if_neg h2]; unfold isI64 at h2; rw [optI64_none (by omega)]

/-- the pre-32de816 body of `timestamp_nanos_opt` (negative-timestamp workaround in `i64`):
`if ts < 0 { sub -= 10⁹; ts += 1 }; ts.checked_mul(10⁹)?.checked_add(sub)` -/
def nanosOptPinned (dt : NaiveDT) : Res (Option Int) :=
  (NaiveDT.timestamp dt).bind fun ts =>
  let sub := NaiveDT.timestamp_subsec_nanos dt
  if ts < 0 then
    (ckI64 (sub - 1000000000)).bind fun sub' => (ckI64 (ts + 1)).bind fun ts' =>
    match optI64 (ts' * 1000000000) with
    | none => .ok none
    | some p => .ok (optI64 (p + sub'))
  else
    match optI64 (ts * 1000000000) with
    | none => .ok none
    | some p => .ok (optI64 (p + sub))

/-- the old body is exact everywhere except on the upper part of the one second -9223372038 -/
theorem nanosOptPinned_spec (dt : NaiveDT) (h : NDTInv dt)
    (hx : ¬ (instSecs dt = -9223372038 ∧ dt.time.frac ≥ 1145224192)) :
    nanosOptPinned dt = .ok (if isI64 (instNs dt) then some (instNs dt) else none) := by
  have hts := timestamp_spec dt h
  have hb := instSecs_range dt h
  rw [ts_min_val, ts_max_val] at hb
  obtain ⟨_, _, _, t3, t4⟩ := id h
  unfold nanosOptPinned NaiveDT.timestamp_subsec_nanos Time.nanosecond instNs
  rw [hts]
  simp only [Res.bind]
  generalize instSecs dt = s at *
  generalize dt.time.frac = f at *
  by_cases hneg : s < 0
  · rw [if_pos hneg, ckI64_ok (by omega) (by omega)]
    simp only []
    rw [ckI64_ok (by omega) (by omega)]
    simp only []
    by_cases hm : -9223372036854775808 ≤ (s + 1) * 1000000000
    · rw [optI64_some hm (by omega)]
      simp only []
      by_cases h2 : isI64 (s * 1000000000 + f)
      · rw [if_pos h2]; unfold isI64 at h2; rw [optI64_some (by omega) (by omega)]
        congr 2; omega
      · rw [if_neg h2]; unfold isI64 at h2; rw [optI64_none (by omega)]
    · rw [optI64_none (by omega)]
      simp only []
      rw [if_neg (by unfold isI64; omega)]
  · rw [if_neg hneg]
    by_cases hm : s * 1000000000 ≤ 9223372036854775807
    · rw [optI64_some (by omega) hm]
      simp only []
      by_cases h2 : isI64 (s * 1000000000 + f)
      · rw [if_pos h2]; unfold isI64 at h2; rw [optI64_some h2.1 h2.2]
      · rw [if_neg h2]; unfold isI64 at h2; rw [optI64_none (by omega)]
    · rw [optI64_none (by omega)]
      simp only []
      rw [if_neg (by unfold isI64; omega)]

/-- on the upper part of the second -9223372038 (reachable only with a leap-second representation:
`frac ≥ 1145224192`) the old body returned `None` although the count fits `i64` -/
theorem nanosOptPinned_exceptional (dt : NaiveDT) (h : NDTInv dt)
    (hx : instSecs dt = -9223372038 ∧ dt.time.frac ≥ 1145224192) :
    nanosOptPinned dt = .ok none ∧ isI64 (instNs dt) := by
  have hts := timestamp_spec dt h
  obtain ⟨_, _, _, t3, t4⟩ := id h
  unfold nanosOptPinned NaiveDT.timestamp_subsec_nanos Time.nanosecond instNs isI64
  rw [hts]
  simp only [Res.bind]
  generalize instSecs dt = s at *
  generalize dt.time.frac = f at *
  obtain ⟨hs, hf⟩ := hx
  subst hs
  rw [if_pos (by omega), ckI64_ok (by omega) (by omega)]
  simp only []
  rw [ckI64_ok (by omega) (by omega)]
  simp only []
  rw [optI64_none (by omega)]
  exact ⟨rfl, by omega, by omega⟩

/-! ### the reverse round trip: exactly the strict values -/

/-- a value whose leap-second representation sits on a second other than 59 is refused by
`from_timestamp` on its own `(timestamp, subsec_nanos)` -/
theorem from_timestamp_of_nonstrict (dt : NaiveDT) (h : NDTInv dt) (hs : ¬ TStrict dt.time) :
    NaiveDT.from_timestamp (instSecs dt) dt.time.frac = .ok none := by
  have hr := instSecs_range dt h
  have h60 : instSecs dt % 60 = dt.time.secs % 60 := by unfold instSecs; omega
  obtain ⟨_, t1, t2, t3, t4⟩ := id h
  rw [ts_min_val, ts_max_val] at hr
  obtain ⟨r, hr0, hnone, _⟩ := from_timestamp_spec (instSecs dt) dt.time.frac (by unfold isI64; omega) t3
  have hbad : ¬ tsOk (instSecs dt) dt.time.frac := by
    intro hok
    apply hs
    unfold tsOk nanosOk at hok
    exact ⟨h.2, by omega⟩
  rw [hr0, hnone.2 hbad]

theorem from_timestamp_back_iff (dt : NaiveDT) (h : NDTInv dt) :
    NaiveDT.from_timestamp (instSecs dt) dt.time.frac = .ok (some dt) ↔ TStrict dt.time := by
  constructor
  · intro hx
    by_cases hs : TStrict dt.time
    · exact hs
    · rw [from_timestamp_of_nonstrict dt h hs] at hx
      injection hx with hx
      cases hx
  · exact from_timestamp_of_inv dt h

/-- `from_timestamp_nanos` of a leap-second value's own count is a different (non-leap) value -/
theorem nanos_back_iff (dt : NaiveDT) (h : NDTInv dt) (hi : isI64 (instNs dt)) :
    NaiveDT.from_timestamp_nanos (instNs dt) = .ok dt ↔ NonLeap dt := by
  constructor
  · intro hx
    obtain ⟨dt', e1, _, i2, _⟩ := from_nanos_total (instNs dt) hi
    rw [e1] at hx
    injection hx with hx
    rw [← hx]; exact i2
  · exact nanos_back dt h

/-! ### the packed date, calendar and clock fields -/

/-- bridge between the representation invariant and C01's `dateOfYo` form -/
theorem dateInv_iff (d : Date) :
    DateInv d ↔ ∃ (y : Int) (o : Nat), d = dateOfYo y o ∧ MIN_YEAR ≤ y ∧ y ≤ MAX_YEAR ∧ 1 ≤ o ∧ o ≤ yearLen y := by
  constructor
  · intro h
    obtain ⟨o, e, _, y1, y2, o1, o2⟩ := dateInv_repr d h
    exact ⟨d.year, o, e, y1, y2, o1, o2⟩
  · rintro ⟨y, o, e, y1, y2, o1, o2⟩
    rw [e]
    exact (dateInv_of_yo y o ⟨y1, y2⟩ ⟨o1, o2⟩).1

theorem dateInv_repr' (d : Date) (h : DateInv d) :
    d = dateOfYo d.year d.ordinal.toNat ∧ (d.ordinal.toNat : Int) = d.ordinal ∧
    MIN_YEAR ≤ d.year ∧ d.year ≤ MAX_YEAR ∧ 1 ≤ d.ordinal.toNat ∧ d.ordinal.toNat ≤ yearLen d.year := by
  obtain ⟨o, e, eo, y1, y2, o1, o2⟩ := dateInv_repr d h
  have : o = d.ordinal.toNat := by omega
  subst this
  exact ⟨e, eo, y1, y2, o1, o2⟩

/-- month and day of a date with the invariant are the calendar form (C01's specification) of its
day number -/
theorem date_calendar (d : Date) (h : DateInv d) :
    ∃ m dd : Nat, d.month = .ok m ∧ d.day = .ok dd ∧ validYmd d.year m dd = true ∧
      m = monthOfYo d.year d.ordinal.toNat ∧ dd = dayOfYo d.year d.ordinal.toNat ∧
      dayNum d.year m dd = dayNumOf d := by
  obtain ⟨e, eo, _, _, o1, o2⟩ := dateInv_repr' d h
  obtain ⟨m1, m2, m3, m4⟩ := month_day_spec d.year d.ordinal.toNat o1 o2
  rw [← e] at m1 m2
  refine ⟨_, _, m1, m2, m3, rfl, rfl, ?_⟩
  unfold dayNum dayNumOf
  rw [m4, eo]

/-- hour, minute, second of a valid time of day -/
theorem time_clock (t : Time) (h : TValid t) :
    t.secs = t.hour * 3600 + t.minute * 60 + t.second ∧
    0 ≤ t.hour ∧ t.hour < 24 ∧ 0 ≤ t.minute ∧ t.minute < 60 ∧ 0 ≤ t.second ∧ t.second < 60 ∧
    t.nanosecond = t.frac := by
  obtain ⟨t1, t2, _, _⟩ := h
  unfold Time.hour Time.minute Time.second Time.nanosecond Time.hms
  dsimp only
  omega

/-! ### `unwrap` / `expect` -/

theorem unwrap_ok {α} (o : Option α) :
    (Ts.unwrap (.ok o) = .panic ↔ o = none) ∧ (∀ a, Ts.unwrap (.ok o) = .ok a ↔ o = some a) := by
  cases o with
  | none =>
    refine ⟨⟨fun _ => rfl, fun _ => rfl⟩, ?_⟩
    intro a; constructor <;> intro hx <;> cases hx
  | some b =>
    refine ⟨⟨fun hx => (by cases hx), fun hx => (by cases hx)⟩, ?_⟩
    intro a
    constructor
    · intro hx
      have : Res.ok b = Res.ok a := hx
      injection this with this
      rw [this]
    · intro hx
      injection hx with hx
      rw [hx]; rfl

/-- `single off` of a non-panicking constructor result -/
theorem single_ok (off : Int) (o : Option NaiveDT) :
    Ts.single off (.ok o) = .ok (o.map fun dt => ⟨dt, off⟩) := by
  cases o <;> rfl

end Chrono.Proofs.Ts2
